"""Gen items for the RowBlock subsystem (C13): src/data/row_block.h, disk_row_iter.h, basic_row_iter.h and the
end-of-block CHECKs of the three text parsers.

Every item is a `custom` extractor built by `X(...)`: it locates `scope`, then the statement regex (one or
more groups), assembles ONE C++ expression from the groups (`fmt`), replaces sub-expressions the tiny
expression parser cannot type (array reads such as `batch.offset[0]`, `sizeof(IndexType)`) by named
parameters, and prints it through cexpr with C++ unsigned wrap-around.  Items that exist only in the
repaired tree (C13-1..3) fail to extract on the pinned tree; that is intended (the oracle then shows the
defect on the implementation).
"""
import re

import cexpr


def _strip(text):
    text = re.sub(r'/\*.*?\*/', lambda m: re.sub(r'[^\n]', ' ', m.group()), text, flags=re.S)
    return re.sub(r'//[^\n]*', '', text)


def X(name, file, scope, stmt, params, rty, fmt='{0}', subst=(), consts=()):
    """params: list of (C text, lean name) -- C text may be any literal substring of the expression
    (`label.size()`, `batch.offset[0]`, `sizeof(IndexType)`); all are 64-bit unsigned."""

    def run(text):
        text = _strip(text)
        m = re.search(scope, text)
        if not m:
            raise ValueError('scope not found: ' + scope)
        m2 = re.compile(stmt, re.S).search(text, m.end())
        if not m2:
            raise ValueError('statement not found after scope: ' + stmt)
        expr = ' '.join(fmt.format(*[g.strip() for g in m2.groups()]).split())
        src = expr
        env = {}
        # longest first, so that `batch.offset[batch.size]` is replaced before `batch.size`
        for k, (ctext, lean) in enumerate(sorted(params, key=lambda p: -len(p[0]))):
            tok = 'zzp%d' % k
            expr = expr.replace(ctext, tok)
            env[tok] = (lean, 64, False)
        for cname in consts:
            env[cname] = (cname, 64, False)
        for a, b in subst:
            expr = expr.replace(a, b)
        lean, isb = cexpr.to_lean(expr, env)
        if rty == 'Bool' and not isb:
            lean = '(%s != 0)' % lean
        if rty == 'Nat' and isb:
            lean = '(if %s then 1 else 0)' % lean
        args = ' '.join('(%s : Nat)' % p[1] for p in params)
        return '-- `%s`\ndef %s %s: %s := %s' % (src.replace('-/', '- /'), name, args + ' ' if args else '', rty, lean)

    return {'name': name, 'file': file, 'custom': run}


RB = 'src/data/row_block.h'
GB = r'RowBlockContainer<IndexType, DType>::GetBlock\(void\) const \{'
PB = r'inline void Push\(RowBlock<I, DType> batch\) \{'
PR = r'inline void Push\(Row<I, DType> row\) \{'
SVM = r'void LibSVMParser<IndexType, DType>::ParseBlock\('
FM = r'void LibFMParser<IndexType, DType>::ParseBlock\('
CSV = r'void CSVParser<IndexType, DType>::ParseBlock\('
DISK = 'src/data/disk_row_iter.h'

OFF0 = ('batch.offset[0]', 'off0')


def check_count(text):
    """number of CHECK statements of GetBlock: `its CHECKs and nothing more`"""
    text = _strip(text)
    m = re.search(GB, text)
    if not m:
        raise ValueError('GetBlock not found')
    end = text.index('RowBlock<IndexType, DType> data;', m.end())
    n = len(re.findall(r'\bCHECK(?:_EQ|_LE|_LT|_GE|_GT|_NE)?\(', text[m.end():end]))
    return 'def gbCheckCount : Nat := %d' % n


def scalar_io_flag(name, typed_re, raw_re, doc):
    """Bool: are max_field / max_index written / read through the typed Stream::Write<T> / Read<T> (repair C15-F2:
    whole value or failure, stream byte order) rather than as raw memory (a short read counts as success)?"""
    def run(text):
        text = _strip(text)
        a = re.search(typed_re, text) is not None
        b = re.search(raw_re, text) is not None
        if a == b:
            raise ValueError('%s: cannot classify the source (typed=%s, raw=%s)' % (name, a, b))
        return '-- %s: %s\ndef %s : Bool := %s' % (RB, doc, name, 'true' if a else 'false')
    return {'name': name, 'file': RB, 'custom': run}


ITEMS = [
    # ---- GetBlock ----------------------------------------------------------------------------
    X('gbLabelGuard', RB, GB, r'if \((label\.size\(\))\) \{\s*CHECK_EQ', [('label.size()', 'labelSize')], 'Bool'),
    X('gbLabelEq', RB, GB, r'CHECK_EQ\((label\.size\(\) \+ 1), (offset\.size\(\))\);',
      [('label.size()', 'labelSize'), ('offset.size()', 'offsetSize')], 'Bool', fmt='({0}) == ({1})'),
    X('gbIndexEq', RB, GB, r'CHECK_EQ\((offset\.back\(\)), (index\.size\(\))\);',
      [('offset.back()', 'offsetBack'), ('index.size()', 'indexSize')], 'Bool', fmt='({0}) == ({1})'),
    X('gbValueOk', RB, GB, r'CHECK\((offset\.back\(\) == value\.size\(\) \|\| value\.size\(\) == 0)\);',
      [('offset.back()', 'offsetBack'), ('value.size()', 'valueSize')], 'Bool'),
    X('gbWeightOk', RB, GB, r'CHECK\((weight\.size\(\) == 0 \|\| weight\.size\(\) \+ 1 == offset\.size\(\))\)',
      [('weight.size()', 'weightSize'), ('offset.size()', 'offsetSize')], 'Bool'),
    X('gbQidOk', RB, GB, r'CHECK\((qid\.size\(\) == 0 \|\| qid\.size\(\) \+ 1 == offset\.size\(\))\)',
      [('qid.size()', 'qidSize'), ('offset.size()', 'offsetSize')], 'Bool'),
    X('gbFieldOk', RB, GB, r'CHECK\((field\.size\(\) == 0 \|\| field\.size\(\) == index\.size\(\))\)',
      [('field.size()', 'fieldSize'), ('index.size()', 'indexSize')], 'Bool'),
    X('gbSize', RB, GB, r'data\.size = (offset\.size\(\) - 1);', [('offset.size()', 'offsetSize')], 'Nat'),
    {'name': 'gbCheckCount', 'file': RB, 'custom': check_count},
    # ---- Push(RowBlock): where entries are read from, where they are written ------------------
    X('pbRows', RB, PB, r'size_t size = ([^;]+);', [('offset.size()', 'offsetSize')], 'Nat'),
    X('pbNdata', RB, PB, r'size_t ndata = ([^;]+);', [('batch.offset[batch.size]', 'offEnd'), OFF0], 'Nat'),
    X('pbFieldDst', RB, PB, r'IndexType \*fhead = BeginPtr\(field\) \+ ([^;]+);',
      [('field.size()', 'fieldSize'), ('ndata', 'ndata'), ('offset.back()', 'offsetBack')], 'Nat'),
    X('pbFieldChk', RB, PB, r'CHECK_LE\(batch\.field\[(.+?)\], std::numeric_limits', [OFF0, ('i', 'i')], 'Nat'),
    X('pbFieldSrc', RB, PB, r'field_id = static_cast<IndexType>\(batch\.field\[(.+?)\]\);', [OFF0, ('i', 'i')], 'Nat'),
    X('pbIndexDst', RB, PB, r'IndexType \*ihead = BeginPtr\(index\) \+ ([^;]+);',
      [('offset.back()', 'offsetBack'), ('index.size()', 'indexSize'), ('ndata', 'ndata')], 'Nat'),
    X('pbIndexChk', RB, PB, r'CHECK_LE\(batch\.index\[(.+?)\], std::numeric_limits', [OFF0, ('i', 'i')], 'Nat'),
    X('pbIndexSrc', RB, PB, r'findex = static_cast<IndexType>\(batch\.index\[(.+?)\]\);', [OFF0, ('i', 'i')], 'Nat'),
    X('pbValueDst', RB, PB, r'std::memcpy\(BeginPtr\(value\) \+ (value\.size\(\) - ndata),',
      [('value.size()', 'valueSize'), ('ndata', 'ndata')], 'Nat'),
    X('pbValueSrc', RB, PB, r'std::memcpy\(BeginPtr\(value\) \+ value\.size\(\) - ndata, batch\.value \+ ([^,]+),',
      [OFF0], 'Nat'),
    X('pbValueBytes', RB, PB, r'std::memcpy\(BeginPtr\(value\)[^;]*?,\s*(ndata \* sizeof\(DType\))\);',
      [('ndata', 'ndata'), ('sizeof(DType)', 'dw')], 'Nat'),
    X('pbShiftIdx', RB, PB, r'size_t shift = offset\[([^\]]+)\];', [('size', 'size')], 'Nat'),
    X('pbOffDst', RB, PB, r'size_t \*ohead = BeginPtr\(offset\) \+ ([^;]+);', [('size', 'size')], 'Nat'),
    X('pbOffNextIdx', RB, PB, r'ohead\[i\] = shift \+ batch\.offset\[([^\]]+)\]', [('i', 'i')], 'Nat'),
    X('pbOffNew', RB, PB, r'ohead\[i\] = ([^;]+);',
      [('shift', 'shift'), ('batch.offset[i + 1]', 'offNext'), OFF0], 'Nat'),
    # ---- Push(Row) ------------------------------------------------------------------------------
    X('prOffNew', RB, PR, r'offset\.push_back\(([^;]+)\);', [('index.size()', 'indexSize')], 'Nat'),
    # ---- RowBlock::Slice / operator[] (include/dmlc/data.h) ---------------------------------------
    X('sliceOk', 'include/dmlc/data.h', r'inline RowBlock Slice\(size_t begin, size_t end\) const \{',
      r'CHECK\((begin <= end && end <= size)\);', [('begin', 'bgn'), ('end', 'e'), ('size', 'size')], 'Bool'),
    X('sliceSize', 'include/dmlc/data.h', r'inline RowBlock Slice\(size_t begin, size_t end\) const \{',
      r'ret\.size = ([^;]+);', [('begin', 'bgn'), ('end', 'e')], 'Nat'),
    X('rowIdOk', 'include/dmlc/data.h', r'RowBlock<IndexType, DType>::operator\[\]\(size_t rowid\) const \{',
      r'CHECK\((rowid < size)\);', [('rowid', 'rowid'), ('size', 'size')], 'Bool'),
    X('rowLen', 'include/dmlc/data.h', r'RowBlock<IndexType, DType>::operator\[\]\(size_t rowid\) const \{',
      r'inst\.length = ([^;]+);', [('offset[rowid + 1]', 'offNext'), ('offset[rowid]', 'offCur')], 'Nat'),
    # ---- Save / Load: the two scalar members (C15-F2) ----------------------------------------------
    scalar_io_flag('saveScalarTyped', r'fo->Write\(max_field\);\s*fo->Write\(max_index\);',
                   r'fo->Write\(&max_field, sizeof\(IndexType\)\);\s*fo->Write\(&max_index, sizeof\(IndexType\)\);',
                   'Save writes max_field / max_index with Stream::Write<T>'),
    scalar_io_flag('loadScalarTyped',
                   r'CHECK\(fi->Read\(&max_field\)\)[^;]*;\s*CHECK\(fi->Read\(&max_index\)\)[^;]*;',
                   r'CHECK\(fi->Read\(&max_field, sizeof\(IndexType\)\)\)[^;]*;\s*CHECK\(fi->Read\(&max_index, sizeof\(IndexType\)\)\)[^;]*;',
                   'Load reads max_field / max_index with Stream::Read<T> (all bytes or failure)'),
    # ---- MemCostBytes / page condition ---------------------------------------------------------
    X('memCost', RB, r'inline size_t MemCostBytes\(void\) const \{', r'return ([^;]+);',
      [('offset.size()', 'nOffset'), ('label.size()', 'nLabel'), ('weight.size()', 'nWeight'),
       ('qid.size()', 'nQid'), ('field.size()', 'nField'), ('index.size()', 'nIndex'),
       ('value.size()', 'nValue'), ('sizeof(IndexType)', 'iw'), ('sizeof(DType)', 'dw')], 'Nat'),
    X('kPageSize', DISK, r'class DiskRowIter', r'static const size_t kPageSize = ([^;]+);', [], 'Nat'),
    X('pageFull', DISK, r'DiskRowIter<IndexType, DType>::BuildCache\(', r'if \((data\.MemCostBytes\(\) >= kPageSize)\)',
      [('data.MemCostBytes()', 'cost')], 'Bool', consts=['kPageSize']),
    X('finalSave', DISK, r'DiskRowIter<IndexType, DType>::BuildCache\(', r'if \((data\.Size\(\) != 0)\) \{',
      [('data.Size()', 'size')], 'Bool'),
    X('numColOf', DISK, r'DiskRowIter<IndexType, DType>::BuildCache\(',
      r'num_col_ = std::max\(num_col_, (static_cast<size_t>\(data\.max_index\) \+ 1)\);',
      [('data.max_index', 'maxIndex')], 'Nat'),
    X('basicNumCol', 'src/data/basic_row_iter.h', r'virtual size_t NumCol\(void\) const \{',
      r'return (static_cast<size_t>\(data_\.max_index\) \+ 1);', [('data_.max_index', 'maxIndex')], 'Nat'),
    # ---- ParserImpl::Next hands a container out only when it has rows ---------------------------
    X('handOut', 'src/data/parser.h', r'class ParserImpl', r'if \((data_\[data_ptr_ - 1\]\.Size\(\) != 0)\) \{',
      [('data_[data_ptr_ - 1].Size()', 'size')], 'Bool'),
    # ---- end-of-block CHECKs of the three ParseBlock functions ----------------------------------
    X('svmOffGuard', 'src/data/libsvm_parser.h', SVM, r'if \((out->label\.size\(\) != 0)\) \{\s*out->offset\.push_back',
      [('out->label.size()', 'labelSize')], 'Bool'),
    X('svmEndOk', 'src/data/libsvm_parser.h', SVM, r'CHECK\((out->label\.size\(\) \+ 1 == out->offset\.size\(\))\);',
      [('out->label.size()', 'labelSize'), ('out->offset.size()', 'offsetSize')], 'Bool'),
    X('fmOffGuard', 'src/data/libfm_parser.h', FM, r'if \((out->label\.size\(\) != 0)\) \{\s*out->offset\.push_back',
      [('out->label.size()', 'labelSize')], 'Bool'),
    X('fmEndField', 'src/data/libfm_parser.h', FM, r'CHECK\((out->field\.size\(\) == out->index\.size\(\))\);',
      [('out->field.size()', 'fieldSize'), ('out->index.size()', 'indexSize')], 'Bool'),
    X('fmEndOk', 'src/data/libfm_parser.h', FM, r'CHECK\((out->label\.size\(\) \+ 1 == out->offset\.size\(\))\);',
      [('out->label.size()', 'labelSize'), ('out->offset.size()', 'offsetSize')], 'Bool'),
    X('csvEndLabel', 'src/data/csv_parser.h', CSV,
      r'CHECK\((out->label\.size\(\) == 0 \|\| out->label\.size\(\) \+ 1 == out->offset\.size\(\))\);',
      [('out->label.size()', 'labelSize'), ('out->offset.size()', 'offsetSize')], 'Bool'),
    X('csvEndWeight', 'src/data/csv_parser.h', CSV,
      r'CHECK\((out->weight\.size\(\) == 0 \|\| out->weight\.size\(\) \+ 1 == out->offset\.size\(\))\);',
      [('out->weight.size()', 'weightSize'), ('out->offset.size()', 'offsetSize')], 'Bool'),
]
