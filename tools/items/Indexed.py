"""Gen items for the Indexed subsystem: IndexedRecordIOSplitter (src/io/indexed_recordio_split.{h,cc}) and the
pieces of InputSplitBase it runs on (Read, BeforeFirst, Chunk::Load / Append).  See tools/translate.py.

Three Bool items read from the source whether the repairs of defect F2 are present (fixes/C06-1..3.diff);
the model follows whichever code is there, the theorems need all three."""
import re

import cexpr
from translate import P, find_item

H = 'src/io/indexed_recordio_split.h'
CC = 'src/io/indexed_recordio_split.cc'
ISB = 'src/io/input_split_base.cc'

RP = r'void IndexedRecordIOSplitter::ResetPartition\('
RI = r'void IndexedRecordIOSplitter::ReadIndexFile\('
NB = r'bool IndexedRecordIOSplitter::NextBatchEx\('
EX = r'bool IndexedRecordIOSplitter::ExtractNextRecord\('
RC = r'bool IndexedRecordIOSplitter::ReadChunk\('
RD = r'size_t InputSplitBase::Read\('
BF = r'void InputSplitBase::BeforeFirst\(void\)'
LD = r'bool InputSplitBase::Chunk::Load\('
AP = r'bool InputSplitBase::Chunk::Append\('


def deref(name, file, scope, expr, params, rty, subst):
    """plain item after textual substitutions (regex -> replacement) on the captured expression
    (array / pair accesses such as `index_[last].first`, which the expression parser does not know)"""
    def custom(text):
        got, err = find_item(text, scope, expr)
        if err:
            raise cexpr.ParseError(err)
        src, line = got
        s = ' '.join(src.split())
        for pat, rep in subst:
            s = re.sub(pat, rep, s)
        lean, isb = cexpr.to_lean(s, dict(params))
        if rty == 'Bool' and not isb:
            lean = '(%s != 0)' % lean
        args = ' '.join('(%s : %s)' % (v[0], 'Bool' if v[2] else 'Nat') for _, v in params)
        return '-- %s:%d  `%s`\ndef %s %s: %s := %s' % (file, line, ' '.join(src.split()), name, args + ' ' if args else '', rty, lean)
    return {'name': name, 'file': file, 'custom': custom}


def body_of(text, scope):
    """text of the function whose header matches `scope` (up to the next line that starts with `}`)"""
    m = re.search(scope, text)
    if not m:
        raise cexpr.ParseError('scope not found: ' + scope)
    e = text.find('\n}', m.end())
    if e < 0:
        raise cexpr.ParseError('end of function not found: ' + scope)
    return re.sub(r'//[^\n]*', '', text[m.end():e])


def flag(name, file, fn, doc):
    def custom(text):
        val = fn(text)
        return '-- %s  %s\ndef %s : Bool := %s' % (file, doc, name, 'true' if val else 'false')
    return {'name': name, 'file': file, 'custom': custom}


def _reset_pushes(text):
    return 'index_.push_back' in body_of(text, RP)


def _readindex_sentinel(text):
    b = ' '.join(body_of(text, RI).split())
    return 'index_.push_back(std::make_pair(file_offset_.back(), 0));' in b


def _empty_assigns(text):
    b = body_of(text, RP)
    m = re.search(r'if \(rank \* nstep >= ntotal\)\s*\{(.*?)return;', b, re.S)
    if not m:
        raise cexpr.ParseError('early-return block of ResetPartition not found')
    stmts = sorted(' '.join(x.split()) for x in m.group(1).split(';') if x.strip())
    want = sorted(['index_begin_ = index_end_ = current_index_ = ntotal',
                   'offset_begin_ = offset_end_ = offset_curr_ = ntotalbytes',
                   'n_overflow_ = 0', 'permutation_.clear()', 'tmp_chunk_.begin = tmp_chunk_.end = NULL'])
    if stmts == []:
        return False
    if stmts == want:
        return True
    raise cexpr.ParseError('unexpected statements in the early-return block: %r' % stmts)


def _bf_empty_clears(text):
    """does the early return of InputSplitBase::BeforeFirst drop tmp_chunk_ (fix C05-1)?"""
    b = body_of(text, BF)
    m = re.search(r'if \(offset_begin_ >= offset_end_\)\s*\{(.*?)return;', b, re.S)
    if not m:
        raise cexpr.ParseError('early-return block of BeforeFirst not found')
    stmts = sorted(' '.join(x.split()) for x in m.group(1).split(';') if x.strip())
    if stmts == []:
        return False
    if 'tmp_chunk_.begin = tmp_chunk_.end = NULL' in stmts:
        return True
    raise cexpr.ParseError('unexpected statements in the early-return block of BeforeFirst: %r' % stmts)


def _nextrecord_own(text):
    """does the class still override NextRecord with the loop that calls tmp_chunk_.Load(this, buffer_size_)?"""
    m = re.search(r'bool NextRecord\(Blob \*out_rec\) override \{(.*?)\n  \}', text, re.S)
    if not m:
        return False
    b = ' '.join(m.group(1).split())
    if 'tmp_chunk_.Load(this, buffer_size_)' in b and '++current_index_;' in b:
        return True
    raise cexpr.ParseError('unexpected NextRecord override: %r' % b)


ITEMS = [
    # ---- constants ------------------------------------------------------------------------------
    ('ixAlign', H, r'namespace io \{', r'const unsigned INDEXED_RECORDIO_ALIGN = ([^;]+);', [], 'Nat'),
    ('kRandMagic', H, r'class IndexedRecordIOSplitter', r'const int kRandMagic = ([^;]+);', [], 'Nat'),
    ('seedExpr', H, r'void SetRandomSeed\(size_t seed\)', r'rnd_\.seed\(([^;]+)\);',
     [P('kRandMagic', 'magic', 32), P('seed', 'seed', 64)], 'Nat'),
    ('initAlign', H, r'IndexedRecordIOSplitter\(FileSystem \*fs', r'this->Init\(fs, uri, ([^,)]+)\);',
     [P('INDEXED_RECORDIO_ALIGN', 'align', 32)], 'Nat'),
    # ---- which repairs are present --------------------------------------------------------------
    flag('resetPushesSentinel', CC, _reset_pushes, 'ResetPartition appends to index_ (pinned code: on every last-part call)'),
    flag('readIndexSentinel', CC, _readindex_sentinel, 'ReadIndexFile appends the end sentinel (fix C06-1)'),
    flag('emptyAssigns', CC, _empty_assigns, 'the early return of ResetPartition sets an empty range (fix C06-2)'),
    flag('nextRecordOwn', H, _nextrecord_own, 'NextRecord is overridden with the Load(buffer_size_) loop (pinned code; removed by fix C06-3)'),
    flag('bfEmptyClears', ISB, _bf_empty_clears, 'the early return of InputSplitBase::BeforeFirst drops tmp_chunk_ (fix C05-1)'),
    # ---- ResetPartition ---------------------------------------------------------------------------
    ('rpNtotal', CC, RP, r'size_t ntotal = ([^;]+);', [P('index_.size()', 'nidx', 64)], 'Nat'),
    ('rpStep', CC, RP, r'size_t nstep = ([^;]+);', [P('ntotal', 'ntotal', 64), P('nsplit', 'nsplit', 32)], 'Nat'),
    ('rpEmpty', CC, RP, r'if \((rank \* nstep >= ntotal)\) \{',
     [P('rank', 'rank', 32), P('nstep', 'nstep', 64), P('ntotal', 'ntotal', 64)], 'Bool'),
    ('rpBegin', CC, RP, r'index_begin_ = (rank[^;=]*);', [P('rank', 'rank', 32), P('nstep', 'nstep', 64)], 'Nat'),
    ('rpHasNext', CC, RP, r'if \((\(rank \+ 1\) \* nstep < ntotal)\) \{',
     [P('rank', 'rank', 32), P('nstep', 'nstep', 64), P('ntotal', 'ntotal', 64)], 'Bool'),
    ('rpEnd', CC, RP, r'index_end_ = (\(rank \+ 1\) \* nstep);', [P('rank', 'rank', 32), P('nstep', 'nstep', 64)], 'Nat'),
    ('rpLastEnd', CC, RP, r'offset_end_ = ntotalbytes;\s*index_end_ = ([^;]+);',
     [P('index_.size()', 'nidx', 64), P('ntotal', 'ntotal', 64)], 'Nat'),
    ('sentinelLen', CC, RP, r'index_\.push_back\(std::make_pair\((?:offset_end_|file_offset_\.back\(\)), ([^)]+)\)\);', [], 'Nat'),
    # ---- ReadIndexFile ----------------------------------------------------------------------------
    deref('riLen', CC, RI, r'index_\.push_back\(std::make_pair\(temp\[j\], (temp\[j \+ 1\] - temp\[j\])\)\);',
          [P('nxt', 'nxt', 64), P('cur', 'cur', 64)], 'Nat', [(r'temp\[j \+ 1\]', 'nxt'), (r'temp\[j\]', 'cur')]),
    deref('riLastLen', CC, RI, r'index_\.push_back\(std::make_pair\(temp\.back\(\), (file_offset_\.back\(\) - temp\.back\(\))\)\);',
          [P('total', 'total', 64), P('lastOff', 'lastOff', 64)], 'Nat',
          [(r'file_offset_\.back\(\)', 'total'), (r'temp\.back\(\)', 'lastOff')]),
    # ---- NextBatchEx, shuffled branch -----------------------------------------------------------
    ('nbCount', CC, NB, r'size_t n = ([^;]+);', [P('n_overflow_', 'nOverflow', 64), P('n_records', 'nRecords', 64)], 'Nat'),
    ('nbMore', CC, NB, r'while \((n_read < n)\) \{', [P('n_read', 'nRead', 64), P('n', 'n', 64)], 'Bool'),
    ('nbHasPerm', CC, NB, r'if \((current_index_ < permutation_\.size\(\))\) \{',
     [P('current_index_', 'cur', 64), P('permutation_.size()', 'npermutation', 64)], 'Bool'),
    deref('nbRecWords', CC, NB, r'buffer_size_ = (index_\[permutation_\[current_index_\]\]\.second / sizeof\(uint32_t\));',
          [P('len', 'len', 64)], 'Nat', [(r'index_\[permutation_\[current_index_\]\]\.second', 'len')]),
    ('nbReopen', CC, NB, r'if \((new_file_ptr != file_ptr_)\) \{', [P('new_file_ptr', 'newPtr', 64), P('file_ptr_', 'filePtr', 64)], 'Bool'),
    deref('nbSeek', CC, NB, r'fs_->Seek\((offset_curr_ - file_offset_\[file_ptr_\])\);',
          [P('offset_curr_', 'oc', 64), P('foAt', 'foAt', 64)], 'Nat', [(r'file_offset_\[file_ptr_\]', 'foAt')]),
    ('nbFirst', CC, NB, r'if \((n_read == 0)\) \{\s*ret = ret && chunk->Load', [P('n_read', 'nRead', 64)], 'Bool'),
    ('nbAny', CC, NB, r'if \((n_read > 0)\) \{', [P('n_read', 'nRead', 64)], 'Bool'),
    ('nbCarry', CC, NB, r'n_overflow_ = (n - n_read);', [P('n', 'n', 64), P('n_read', 'nRead', 64)], 'Nat'),
    # ---- NextBatchEx, sequential branch ---------------------------------------------------------
    ('nbFresh', CC, NB, r'size_t last;\s*if \((n_overflow_ == 0)\) \{', [P('n_overflow_', 'nOverflow', 64)], 'Bool'),
    ('nbLastA', CC, NB, r'last = (std::min\(current_index_ \+ n_records, index_end_\));',
     [P('current_index_', 'cur', 64), P('n_records', 'nRecords', 64), P('index_end_', 'idxEnd', 64)], 'Nat'),
    ('nbCarryA', CC, NB, r'n_overflow_ = (current_index_ \+ n_records - last);',
     [P('current_index_', 'cur', 64), P('n_records', 'nRecords', 64), P('last', 'last', 64)], 'Nat'),
    ('nbLastB', CC, NB, r'last = (std::min\(current_index_ \+ n_overflow_, index_end_\));',
     [P('current_index_', 'cur', 64), P('n_overflow_', 'nOverflow', 64), P('index_end_', 'idxEnd', 64)], 'Nat'),
    ('nbCarryB', CC, NB, r'n_overflow_ = (current_index_ \+ n_overflow_ - last);',
     [P('current_index_', 'cur', 64), P('n_overflow_', 'nOverflow', 64), P('last', 'last', 64)], 'Nat'),
    deref('nbRangeWords', CC, NB, r'buffer_size_ = (\(index_\[last\]\.first - index_\[current_index_\]\.first\) / INDEXED_RECORDIO_ALIGN);',
          [P('offLast', 'offLast', 64), P('offCur', 'offCur', 64), P('INDEXED_RECORDIO_ALIGN', 'align', 32)], 'Nat',
          [(r'index_\[last\]\.first', 'offLast'), (r'index_\[current_index_\]\.first', 'offCur')]),
    # ---- ReadChunk (override) -------------------------------------------------------------------
    ('rcNone', CC, RC, r'if \((nread == 0)\) \{', [P('nread', 'nread', 64)], 'Bool'),
    ('rcShort', CC, RC, r'if \((nread != max_size)\) \{', [P('nread', 'nread', 64), P('max_size', 'maxSize', 64)], 'Bool'),
    # ---- ExtractNextRecord ----------------------------------------------------------------------
    ('exHeader', CC, EX, r'CHECK\(chunk->begin \+ (2 \* sizeof\(uint32_t\)) <= chunk->end\)', [], 'Nat'),
    ('exAdvance', CC, EX, r'chunk->begin \+= (2 \* sizeof\(uint32_t\) \+ \(\(\(clen \+ 3U\) >> 2U\) << 2U\));', [P('clen')], 'Nat'),
    ('exSingle', CC, EX, r'if \((cflag == 0)\) \{\s*return true;', [P('cflag')], 'Bool'),
    ('exFirst', CC, EX, r'CHECK\((cflag == 1U)\)', [P('cflag')], 'Bool'),
    ('exMore', CC, EX, r'while \((cflag != 3U)\) \{', [P('cflag')], 'Bool'),
    # ---- InputSplitBase::Read / BeforeFirst -----------------------------------------------------
    ('rdEmpty', ISB, RD, r'if \((offset_begin_ >= offset_end_)\) \{', [P('offset_begin_', 'ob', 64), P('offset_end_', 'oe', 64)], 'Bool'),
    ('rdClip', ISB, RD, r'if \((offset_curr_ \+ size > offset_end_)\) \{',
     [P('offset_curr_', 'oc', 64), P('size', 'size', 64), P('offset_end_', 'oe', 64)], 'Bool'),
    ('rdClipped', ISB, RD, r'size = (offset_end_ - offset_curr_);', [P('offset_curr_', 'oc', 64), P('offset_end_', 'oe', 64)], 'Nat'),
    deref('rdOffsetBad', ISB, RD, r'if \((offset_curr_ != file_offset_\[file_ptr_ \+ 1\])\) \{',
          [P('offset_curr_', 'oc', 64), P('foNext', 'foNext', 64)], 'Bool', [(r'file_offset_\[file_ptr_ \+ 1\]', 'foNext')]),
    ('rdLastFile', ISB, RD, r'if \((file_ptr_ \+ 1 >= files_\.size\(\))\) \{',
     [P('file_ptr_', 'fp', 64), P('files_.size()', 'nfiles', 64)], 'Bool'),
    ('bfEmpty', ISB, BF, r'if \((offset_begin_ >= offset_end_)\) \{', [P('offset_begin_', 'ob', 64), P('offset_end_', 'oe', 64)], 'Bool'),
    ('bfReopen', ISB, BF, r'if \((file_ptr_ != fp)\) \{', [P('file_ptr_', 'filePtr', 64), P('fp', 'fp', 64)], 'Bool'),
    deref('bfSeek', ISB, BF, r'fs_->Seek\((offset_begin_ - file_offset_\[file_ptr_\])\);',
          [P('offset_begin_', 'ob', 64), P('foAt', 'foAt', 64)], 'Nat', [(r'file_offset_\[file_ptr_\]', 'foAt')]),
    # ---- Chunk::Load / Append -------------------------------------------------------------------
    ('loadResize', ISB, LD, r'data\.resize\(([^;]+)\);', [P('buffer_size', 'bufWords', 64)], 'Nat'),
    ('loadSize', ISB, LD, r'size_t size = ([^;]+);', [P('data.size()', 'dataWords', 64)], 'Nat'),
    ('appendResize', ISB, AP, r'data\.resize\(([^;]+)\);', [P('data.size()', 'dataWords', 64), P('buffer_size', 'bufWords', 64)], 'Nat'),
    ('appendSize', ISB, AP, r'size_t size = ([^;]+);', [P('buffer_size', 'bufWords', 64)], 'Nat'),
]
