"""Gen items for the Streams subsystem (C19): cursor arithmetic and bounds tests of the two memory streams
(include/dmlc/memory_io.h), buffer-size arithmetic of ostream::OutBuf / istream::InBuf (include/dmlc/io.h),
the offset cast and the return value of the local FileStream (src/io/local_filesys.cc).

All size_t quantities are 64 bit: the generated definitions wrap exactly like the C++ (that is the
point of finding F11: `curr_ptr_ + size` wraps after a Seek near 2^64).  Every item keeps the same
parameter list whatever the expression mentions, so that the hand-written model compiles against the
pinned and against the repaired source alike and simply *follows* the code it is generated from.
"""
import re

import cexpr
from translate import P

MIO = 'include/dmlc/memory_io.h'
IOH = 'include/dmlc/io.h'
LFS = 'src/io/local_filesys.cc'

FX = r'struct MemoryFixedSizeStream'
FX_READ = FX + r'[\s\S]*?virtual size_t Read\('
FX_WRITE = FX + r'[\s\S]*?virtual size_t Write\('
FX_SEEK = FX + r'[\s\S]*?virtual void Seek\('
MS = r'struct MemoryStringStream'
MS_READ = MS + r'[\s\S]*?virtual size_t Read\('
MS_WRITE = MS + r'[\s\S]*?virtual size_t Write\('
MS_SEEK = MS + r'[\s\S]*?virtual void Seek\('

CUR = P('curr_ptr_', 'cur', 64)
SIZE = P('size', 'size', 64)
BSZ = P('buffer_size_', 'bs', 64)
LEN = P('p_buffer_->length()', 'len', 64)
NREAD = P('nread', 'nread', 64)


def _sig(params):
    return ' '.join('(%s : %s)' % (v[0], 'Bool' if v[2] else 'Nat') for _, v in params)


def _body(text, scope, upto):
    """text of one function: from the scope match up to the first match of `upto` after it"""
    m = re.search(scope, text)
    if not m:
        raise cexpr.ParseError('scope not found: ' + scope)
    e = re.compile(upto).search(text, m.end())
    if not e:
        raise cexpr.ParseError('end of scope not found: ' + upto)
    return text[m.end():e.end()]


def compound(name, f, scope, lhs, op, rhs_re, params, doc):
    """`lhs op= rhs;`  ->  def name := lhs op rhs   (64-bit wrap-around)"""
    def custom(text):
        m = re.search(scope, text)
        if not m:
            raise cexpr.ParseError('scope not found: ' + scope)
        m2 = re.compile(re.escape(lhs) + r'\s*(\S?)=\s*(' + rhs_re + r');').search(text, m.end())
        if not m2:
            raise cexpr.ParseError('statement `%s ?= %s` not found' % (lhs, rhs_re))
        got = m2.group(1)
        if got != op:
            raise cexpr.ParseError('expected `%s %s= ...`, source has `%s %s= ...`' % (lhs, op, lhs, got))
        src = '%s %s (%s)' % (lhs, op, m2.group(2)) if op else m2.group(2)
        lean, _ = cexpr.to_lean(src, dict(params))
        return '/- %s: `%s` -/\ndef %s %s : Nat := %s' % (doc, ' '.join(m2.group(0).split()), name, _sig(params), lean)
    return {'name': name, 'file': f, 'custom': custom}


def optional_check(name, f, scope, upto, anchor_re, params, doc):
    """a CHECK(...) standing in front of `anchor_re` inside one function body; no CHECK there = `true`"""
    def custom(text):
        body = _body(text, scope, upto)
        a = re.search(anchor_re, body)
        if not a:
            raise cexpr.ParseError('anchor not found: ' + anchor_re)
        before = body[:a.start()]
        ms = list(re.finditer(r'CHECK\(((?:[^()]|\([^()]*\))+)\)', before))
        if not ms:
            return ('/- %s: no CHECK in front of `%s` in the source -/\ndef %s %s : Bool := true'
                    % (doc, anchor_re.replace('\\', ''), name, _sig(params)))
        if len(ms) > 1:
            raise cexpr.ParseError('more than one CHECK in front of ' + anchor_re)
        src = ' '.join(ms[0].group(1).split())
        lean, isb = cexpr.to_lean(src, dict(params))
        if not isb:
            lean = '(%s != 0)' % lean
        return '/- %s: `CHECK(%s)` -/\ndef %s %s : Bool := %s' % (doc, src, name, _sig(params), lean)
    return {'name': name, 'file': f, 'custom': custom}


def calls_rdbuf(name, cls, doc):
    """does `<cls>::set_stream` (the member of the std-stream wrapper, not of its streambuf) call
    `this->rdbuf(&buf_)`?  basic_ios::rdbuf(sb) also clears the error state of the stream."""
    def custom(text):
        m = re.search(r'class %s : public std::basic_%s<char>' % (cls, cls), text)
        if not m:
            raise cexpr.ParseError('class %s not found' % cls)
        m2 = re.compile(r'inline void set_stream\(Stream \*stream\) \{(.*?)\n  \}', re.S).search(text, m.end())
        if not m2:
            raise cexpr.ParseError('%s::set_stream not found' % cls)
        body = m2.group(1)
        if 'buf_.set_stream(stream);' not in body:
            raise cexpr.ParseError('%s::set_stream does not forward to buf_.set_stream' % cls)
        yes = re.search(r'this->rdbuf\(&buf_\);', body) is not None
        return '/- %s: body `%s` -/\ndef %s : Bool := %s' % (doc, ' '.join(body.split()), name, 'true' if yes else 'false')
    return {'name': name, 'file': IOH, 'custom': custom}


ITEMS = [
    # ---- MemoryFixedSizeStream ----------------------------------------------------------------
    ('fxReadOk', MIO, FX_READ, r'CHECK\(([^;]+)\);', [CUR, SIZE, BSZ], 'Bool'),
    ('fxReadN', MIO, FX_READ, r'size_t nread = ([^;]+);', [CUR, SIZE, BSZ], 'Nat'),
    ('fxReadCopies', MIO, FX_READ, r'if \((nread != 0)\)', [NREAD], 'Bool'),
    compound('fxReadCur', MIO, FX_READ, 'curr_ptr_', '+', r'nread', [CUR, NREAD], 'MemoryFixedSizeStream::Read'),
    ('fxReadRet', MIO, FX_READ, r'return ([^;]+);', [NREAD], 'Nat'),
    ('fxWriteEmpty', MIO, FX_WRITE, r'if \((size == 0)\)', [SIZE], 'Bool'),
    ('fxWriteOk', MIO, FX_WRITE, r'CHECK\(([^;]+)\);', [CUR, SIZE, BSZ], 'Bool'),
    compound('fxWriteCur', MIO, FX_WRITE, 'curr_ptr_', '+', r'size', [CUR, SIZE], 'MemoryFixedSizeStream::Write'),
    ('fxWriteRet', MIO, FX_WRITE, r'curr_ptr_ \+= size;\s*return ([^;]+);', [SIZE], 'Nat'),
    ('fxSeek', MIO, FX_SEEK, r'curr_ptr_ = ([^;]+);', [P('pos', 'pos', 64)], 'Nat'),
    # ---- MemoryStringStream -------------------------------------------------------------------
    ('msReadOk', MIO, MS_READ, r'CHECK\(([^;]+)\);', [CUR, LEN], 'Bool'),
    ('msReadN', MIO, MS_READ, r'size_t nread = ([^;]+);', [CUR, SIZE, LEN], 'Nat'),
    ('msReadCopies', MIO, MS_READ, r'if \((nread != 0)\)', [NREAD], 'Bool'),
    compound('msReadCur', MIO, MS_READ, 'curr_ptr_', '+', r'nread', [CUR, NREAD], 'MemoryStringStream::Read'),
    ('msReadRet', MIO, MS_READ, r'return ([^;]+);', [NREAD], 'Nat'),
    ('msWriteEmpty', MIO, MS_WRITE, r'if \((size == 0)\)', [SIZE], 'Bool'),
    optional_check('msWriteOk', MIO, MS_WRITE, r'return size;', r'p_buffer_->resize\(', [CUR, SIZE, LEN],
                   'MemoryStringStream::Write'),
    ('msWriteGrows', MIO, MS_WRITE, r'if \(([^{]+?)\) \{\s*p_buffer_->resize', [CUR, SIZE, LEN], 'Bool'),
    ('msWriteNewLen', MIO, MS_WRITE, r'p_buffer_->resize\(([^;]+)\);', [CUR, SIZE], 'Nat'),
    compound('msWriteCur', MIO, MS_WRITE, 'curr_ptr_', '+', r'size', [CUR, SIZE], 'MemoryStringStream::Write'),
    ('msWriteRet', MIO, MS_WRITE, r'curr_ptr_ \+= size;\s*return ([^;]+);', [SIZE], 'Nat'),
    ('msSeek', MIO, MS_SEEK, r'curr_ptr_ = ([^;]+);', [P('pos', 'pos', 64)], 'Nat'),
    # ---- ostream::OutBuf ----------------------------------------------------------------------
    ('obZero', IOH, r'explicit OutBuf\(size_t buffer_size\)', r'if \((buffer_size == 0)\)',
     [P('buffer_size', 'n', 64)], 'Bool'),
    ('obZeroSize', IOH, r'explicit OutBuf\(size_t buffer_size\)', r'buffer_\.resize\(([^;]+)\);', [], 'Nat'),
    ('obPutEnd', IOH, r'inline void ostream::OutBuf::set_stream',
     r'this->setp\(&buffer_\[0\], &buffer_\[0\] \+ ([^;]+)\);', [P('buffer_.size()', 'cap', 64)], 'Nat'),
    ('obSyncN', IOH, r'inline int ostream::OutBuf::sync', r'std::ptrdiff_t n = ([^;]+);',
     [P('pptr()', 'pptr', 64), P('pbase()', 'pbase', 64)], 'Nat'),
    ('obSyncLen', IOH, r'inline int ostream::OutBuf::sync', r'stream_->Write\(pbase\(\), ([^;]+)\);',
     [P('n', 'n', 64)], 'Nat'),
    ('obSyncBump', IOH, r'inline int ostream::OutBuf::sync', r'this->pbump\(([^;]+)\);', [P('n', 'n', 64)], 'Nat'),
    compound('obSyncCount', IOH, r'inline int ostream::OutBuf::sync', 'bytes_out_', '+', r'n',
             [P('bytes_out_', 'count', 64), P('n', 'n', 64)], 'OutBuf::sync'),
    ('obOvN', IOH, r'inline int ostream::OutBuf::overflow', r'std::ptrdiff_t n = ([^;]+);',
     [P('pptr()', 'pptr', 64), P('pbase()', 'pbase', 64)], 'Nat'),
    ('obOvBump', IOH, r'inline int ostream::OutBuf::overflow', r'this->pbump\(([^;]+)\);', [P('n', 'n', 64)], 'Nat'),
    ('obOvIsEof', IOH, r'inline int ostream::OutBuf::overflow', r'if \((c == EOF)\)',
     [P('c', 'c', 32), P('EOF', 'eof', 32)], 'Bool'),
    ('obOvEofLen', IOH, r'inline int ostream::OutBuf::overflow', r'if \(c == EOF\) \{\s*stream_->Write\(pbase\(\), ([^;]+)\);',
     [P('n', 'n', 64)], 'Nat'),
    compound('obOvEofCount', IOH, r'inline int ostream::OutBuf::overflow[\s\S]*?if \(c == EOF\)', 'bytes_out_', '+',
             r'[^;]+', [P('bytes_out_', 'count', 64), P('n', 'n', 64)], 'OutBuf::overflow, EOF branch'),
    ('obOvLen', IOH, r'inline int ostream::OutBuf::overflow[\s\S]*?\} else \{', r'stream_->Write\(pbase\(\), ([^;]+)\);',
     [P('n', 'n', 64)], 'Nat'),
    compound('obOvCount', IOH, r'inline int ostream::OutBuf::overflow[\s\S]*?\} else \{', 'bytes_out_', '+',
             r'[^;]+', [P('bytes_out_', 'count', 64), P('n', 'n', 64)], 'OutBuf::overflow, character branch'),
    # ---- istream::InBuf -----------------------------------------------------------------------
    ('ibZero', IOH, r'explicit InBuf\(size_t buffer_size\)', r'if \((buffer_size == 0)\)',
     [P('buffer_size', 'n', 64)], 'Bool'),
    ('ibZeroSize', IOH, r'explicit InBuf\(size_t buffer_size\)', r'buffer_\.resize\(([^;]+)\);', [], 'Nat'),
    ('ibNeedsRefill', IOH, r'inline int istream::InBuf::underflow', r'if \((this->gptr\(\) == this->egptr\(\))\) \{\s*size_t sz',
     [P('this->gptr()', 'gptr', 64), P('this->egptr()', 'egptr', 64)], 'Bool'),
    ('ibReadSize', IOH, r'inline int istream::InBuf::underflow', r'size_t sz = stream_->Read\(bhead, ([^;]+)\);',
     [P('buffer_.size()', 'cap', 64)], 'Nat'),
    ('ibNewEnd', IOH, r'inline int istream::InBuf::underflow', r'this->setg\(bhead, bhead, ([^;]+)\);',
     [P('bhead', 'bhead', 64), P('sz', 'sz', 64)], 'Nat'),
    compound('ibCount', IOH, r'inline int istream::InBuf::underflow', 'bytes_read_', '+', r'sz',
             [P('bytes_read_', 'count', 64), P('sz', 'sz', 64)], 'InBuf::underflow'),
    ('ibIsEmpty', IOH, r'inline int istream::InBuf::underflow[\s\S]*?bytes_read_ \+= sz;',
     r'if \((this->gptr\(\) == this->egptr\(\))\) \{\s*return traits_type::eof',
     [P('this->gptr()', 'gptr', 64), P('this->egptr()', 'egptr', 64)], 'Bool'),
    calls_rdbuf('isSetStreamRdbuf', 'istream', 'istream::set_stream'),
    calls_rdbuf('osSetStreamRdbuf', 'ostream', 'ostream::set_stream'),
    # ---- io::FileStream -----------------------------------------------------------------------
    ('fsSeekOff', LFS, r'class FileStream : public SeekStream[\s\S]*?virtual void Seek\(',
     r'std::fseek\(fp_, ([^;]+?), SEEK_SET\)', [P('pos', 'pos', 64)], 'Nat'),
    ('fsWriteRet', LFS, r'class FileStream : public SeekStream[\s\S]*?virtual size_t Write\(',
     r'FileStream\.Write incomplete";\s*return ([^;]+);', [SIZE], 'Nat'),
]
