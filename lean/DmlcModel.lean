import DmlcModel.Basic
import DmlcModel.Gen.RecordIO
import DmlcModel.RecordIO.Model
