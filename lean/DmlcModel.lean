import DmlcModel.Basic
