/-
Specification side of the Split model (C03 / C04 / C05): what a consumer sees (`lines`, `canon`), what
the remaining `Read` calls of a part return in total (`pending`, `rangeStream`), the partition
boundaries (`bnd`), the invariants (`RInv`, `Clean`) and the state equivalence `Equiv` used for C05.
Definitions only (plus the interface statements the lemma files prove); core Lean only.
-/
import DmlcModel.Split.Model

namespace DmlcModel.Split
open DmlcModel DmlcModel.Gen.Split

/-! ### what a consumer sees -/

def isEol (b : Byte) : Bool := b == 10 || b == 13
/-- bytes that end a line for a consumer of `NextRecord` blobs: EOL bytes and the `'\0'` the splitter stores -/
def isSep (b : Byte) : Bool := isEol b || b == 0

/-- maximal runs of bytes that do not satisfy `sep` (empty runs dropped); `cur` = run so far -/
def fieldsGo (sep : Byte → Bool) : Bytes → Bytes → List Bytes
  | [], cur => if cur.isEmpty then [] else [cur]
  | b :: r, cur =>
    if sep b then (if cur.isEmpty then fieldsGo sep r [] else cur :: fieldsGo sep r [])
    else fieldsGo sep r (cur ++ [b])

def fields (sep : Byte → Bool) (s : Bytes) : List Bytes := fieldsGo sep s []

/-- the non-empty lines of a byte string -/
def lines (s : Bytes) : List Bytes := fields isEol s
/-- the non-empty lines a consumer extracts from a delivered blob -/
def canon (s : Bytes) : List Bytes := fields isSep s

def NulFree (s : Bytes) : Prop := ∀ b ∈ s, b ≠ 0

instance (s : Bytes) : Decidable (NulFree s) := by unfold NulFree; infer_instance

/-! ### the byte stream of a part -/

/-- bytes the `Read` loop still delivers: the rest `cur` of the current file, then the files `later`,
`budget` real bytes in all; in text mode a `'\n'` follows every file end that is followed by more -/
def pendFrom (isText : Bool) : List Bytes → Bytes → Nat → Bytes
  | [], cur, budget => cur.take budget
  | f :: fs, cur, budget =>
    if budget ≤ cur.length then cur.take budget
    else cur ++ (if isText then [10] else []) ++ pendFrom isText fs f (budget - cur.length)

def pend (isText : Bool) (files : List Bytes) (fp pos budget : Nat) : Bytes :=
  match files.drop fp with
  | [] => []
  | f :: later => pendFrom isText later (f.drop pos) budget

/-- everything the remaining `Read` calls on `s` return, concatenated -/
def pending (F : Fmt) (s : Base) : Bytes :=
  match s.fpos with
  | none => []
  | some pos => if s.offEnd ≤ s.offBegin then [] else pend F.isText s.files s.filePtr pos (s.offEnd - s.offCurr)

/-- the stream of the byte range `[b, e)` of the concatenated files (with the injected newlines) -/
def rangeStream (isText : Bool) (files : List Bytes) (b e : Nat) : Bytes :=
  pend isText files (filePtrOf files b) (b - fileOffset files (filePtrOf files b)) (e - b)

/-! ### invariants -/

/-- well-formedness of the read position -/
def RInv (s : Base) : Prop :=
  (∀ f ∈ s.files, f ≠ []) ∧ s.offEnd ≤ totalSize s.files ∧
  (s.offEnd ≤ s.offBegin ∨
   ∃ pos f, s.fpos = some pos ∧ s.files.drop s.filePtr = f :: s.files.drop (s.filePtr + 1) ∧
     pos ≤ f.length ∧ s.offCurr = fileOffset s.files s.filePtr + pos ∧ s.offBegin ≤ s.offCurr ∧ s.offCurr ≤ s.offEnd)

/-- what `BeforeFirst` / `ResetPartition` establish: nothing buffered, position at the part start -/
def Clean (s : Base) : Prop :=
  s.chunk.rest = [] ∧ s.overflow = [] ∧
  (s.offEnd ≤ s.offBegin ∨
   (s.offCurr = s.offBegin ∧ s.filePtr = filePtrOf s.files s.offBegin ∧
    s.fpos = some (s.offBegin - fileOffset s.files (filePtrOf s.files s.offBegin))))

/-- two chunks a consumer cannot tell apart: same window; the capacity matters only while bytes remain -/
def ChunkEquiv (c d : Chunk) : Prop :=
  c.rest = d.rest ∧ (c.rest ≠ [] → c.begin = d.begin ∧ c.dataWords = d.dataWords)

/-- two split states no sequence of operations can tell apart (outputs; C05): everything equal except
the stale capacity of an empty chunk and, for an empty part, the unused read position -/
def Equiv (s t : Base) : Prop :=
  s.files = t.files ∧ s.offBegin = t.offBegin ∧ s.offEnd = t.offEnd ∧ s.overflow = t.overflow ∧
  s.bufWords = t.bufWords ∧ ChunkEquiv s.chunk t.chunk ∧
  (s.offEnd ≤ s.offBegin ∨ (s.offCurr = t.offCurr ∧ s.filePtr = t.filePtr ∧ s.fpos = t.fpos))

def WrapEquiv : Option Wrap → Option Wrap → Prop
  | none, none => True
  | some v, some w =>
    v.bufWords = w.bufWords ∧
    (match v.chunk, w.chunk with
     | some c, some d => ChunkEquiv c d
     | none, none => True
     -- an allocated but exhausted chunk behaves like no chunk
     | some c, none => c.rest = []
     | none, some d => d.rest = [])
  | _, _ => False

def StEquiv (s t : St) : Prop := Equiv s.base t.base ∧ WrapEquiv s.wrap t.wrap

/-! ### partition boundaries -/

/-- the raw boundary `min(nstep * j, ntotal)` -/
def rawBnd (F : Fmt) (files : List Bytes) (n j : Nat) : Nat :=
  Nat.min (rpStepAlign (rpStepRaw (totalSize files) n) F.align * j) (totalSize files)

/-- a raw offset advanced to the next record start of its file (unchanged on a file boundary) -/
def snap (F : Fmt) (files : List Bytes) (x : Nat) : Except Err Nat :=
  let fp := filePtrOf files x
  if x = fileOffset files fp then .ok x
  else
    match files.drop fp with
    | [] => .error .oob
    | f :: _ =>
      match F.seekRecordBegin (f.drop (x - fileOffset files fp)) with
      | .error e => .error e
      | .ok (n, _) => .ok (x + n)

/-- boundary `j` of an `n`-way split: part `k` is `[bnd k, bnd (k+1))` -/
def bnd (F : Fmt) (files : List Bytes) (n j : Nat) : Except Err Nat := snap F files (rawBnd F files n j)

/-- a position at which the text stream may be cut without cutting a line: a file boundary, or inside a
file right after an EOL byte and right before a non-EOL byte -/
def IsCut : List Bytes → Nat → Prop
  | [], x => x = 0
  | f :: fs, x =>
    x = 0 ∨ x = f.length ∨
    (x < f.length ∧ (∃ a c, f.drop (x - 1) = a :: c ∧ isEol a = true ∧ 1 ≤ x) ∧ (∃ a c, f.drop x = a :: c ∧ isEol a = false)) ∨
    (f.length < x ∧ IsCut fs (x - f.length))

/-! ### interface statements between the lemma files (each is proved in the file named) -/

/-- ReadLemmas.lean (`readSpec'`): a `Read` delivers a prefix of the pending stream and leaves the rest pending.
The range hypothesis excludes the `size_t` wrap-around of `offset_curr_ + size` (false without it, in the C++ too). -/
def ReadSpec (F : Fmt) : Prop :=
  ∀ (s : Base) (size : Nat) (bytes : Bytes) (s' : Base),
    read F s size = .ok (bytes, s') → RInv s → totalSize s.files + size < 2 ^ 64 →
    RInv s' ∧ bytes ++ pending F s' = pending F s ∧ bytes.length ≤ size ∧
    (bytes = [] → size = 0 ∨ pending F s = []) ∧
    s'.files = s.files ∧ s'.offBegin = s.offBegin ∧ s'.offEnd = s.offEnd ∧ s'.chunk = s.chunk ∧
    s'.overflow = s.overflow ∧ s'.bufWords = s.bufWords

/-- ReadLemmas.lean (`readTotal'`): under the invariant `Read` raises no error (the "file offset not calculated
correctly" fatal and the model's iteration bound are unreachable) -/
def ReadTotal (F : Fmt) : Prop :=
  ∀ (s : Base) (size : Nat), RInv s → totalSize s.files + size < 2 ^ 64 → ∃ r, read F s size = .ok r

/-! ### the observable behaviour the property theorems speak about -/

/-- blobs delivered by part `k` of `n` of a freshly constructed bare split with a `w`-word buffer, consumed to
the end with `NextRecord` (`pick i = true`) / `NextChunk` chosen per call; `dw` = `kBufferSize` -/
def partBlobs (F : Fmt) (files : List Bytes) (k n w dw : Nat) (pick : Nat → Bool) : Except Err (List Bytes) :=
  match mkSt F files k n w false dw with
  | .error e => .error e
  | .ok s => (drain F pick s).2

/-- `some` result / `none` for an abnormal outcome (decidable equality for the witnesses) -/
def okOf {α : Type} : Except Err α → Option α
  | .ok a => some a
  | .error _ => none

/-- the canonical lines a consumer extracts from the delivered blobs (`[]` for an abnormal outcome) -/
def linesOf : Except Err (List Bytes) → List Bytes
  | .ok bs => bs.flatMap canon
  | .error _ => []

end DmlcModel.Split
