import DmlcModel.Split.Shuffle
namespace DmlcModel.Split.Shuffle
open DmlcModel.Split

variable {α : Type}

/-! lemmas about the `InputSplitShuffle` model: what a pass delivers -/

/-- invariant: `shuffle_indexes_` has `m` entries and the cursor is inside it -/
def Sh.Wf (s : Sh α) : Prop := s.perm.length = s.m ∧ s.cur < s.m

theorem drain_of_next_eq {sub : Nat → Res (List α)} {s t : Sh α} (h : next sub s = next sub t) :
    drain sub s = drain sub t := by
  rw [drain, drain]
  split <;> split <;> simp_all

theorem drain_cons (sub : Nat → Res (List α)) (s : Sh α) (r : α) (rs : List α) (h : s.rest = r :: rs) :
    drain sub s = (drain sub { s with rest := rs }).map (r :: ·) := by
  have hn : next sub s = .ok (some r, { s with rest := rs }) := by rw [next]; simp [h]
  rw [drain]
  split
  · rename_i e he; rw [hn] at he; cases he
  · rename_i s' he; rw [hn] at he; cases he
  · rename_i r' s' he
    rw [hn] at he
    simp only [Except.ok.injEq, Prod.mk.injEq, Option.some.injEq] at he
    obtain ⟨rfl, rfl⟩ := he
    rfl

/-- the sub-parts still to come after the current one, in the order of `shuffle_indexes_` -/
def later (sub : Nat → Res (List α)) (s : Sh α) : Res (List α) :=
  if s.m > 1 then ((s.perm.drop (s.cur + 1)).mapM fun p => sub (p + s.partIndex * s.m)).map List.flatten
  else .ok []

theorem drain_rest_nil (sub : Nat → Res (List α)) (s : Sh α) (hw : s.Wf) (h : s.rest = []) :
    drain sub s = later sub s := by
  generalize hk : s.m - 1 - s.cur = k
  induction k generalizing s with
  | zero =>
    obtain ⟨hl, hc⟩ := hw
    by_cases hm : s.m > 1
    · have hcur : s.cur = s.m - 1 := by omega
      have hn : next sub s = .ok (none, s) := by rw [next]; simp [h, hm, hcur]
      have hd : s.perm.drop (s.cur + 1) = [] := List.drop_eq_nil_of_le (by omega)
      rw [drain]
      split
      · rename_i e he; rw [hn] at he; cases he
      · simp [later, hm, hd, Except.map, pure, Except.pure]
      · rename_i r' s' he; rw [hn] at he; cases he
    · have hn : next sub s = .ok (none, s) := by rw [next]; simp [h, hm]
      rw [drain]
      split
      · rename_i e he; rw [hn] at he; cases he
      · simp [later, hm]
      · rename_i r' s' he; rw [hn] at he; cases he
  | succ k ih =>
    obtain ⟨hl, hc⟩ := hw
    have hm : s.m > 1 := by omega
    have hne : s.cur ≠ s.m - 1 := by omega
    have hidx : s.cur + 1 < s.perm.length := by omega
    have hd : s.perm.drop (s.cur + 1) = s.perm[s.cur + 1] :: s.perm.drop (s.cur + 2) :=
      List.drop_eq_getElem_cons hidx
    have hi : idxAt s.perm (s.cur + 1) s.partIndex s.m = .ok (s.perm[s.cur + 1] + s.partIndex * s.m) := by
      simp [idxAt, List.getElem?_eq_getElem hidx]
    simp only [later, hm, if_true, hd, List.mapM_cons]
    cases hs : sub (s.perm[s.cur + 1] + s.partIndex * s.m) with
    | error e =>
      have hn : next sub s = .error e := by rw [next]; simp [h, hm, hne, hc, hi, hs]
      rw [drain]
      split
      · rename_i e' he; rw [hn] at he; cases he; simp [bind, Except.bind, Except.map]
      · rename_i s' he; rw [hn] at he; cases he
      · rename_i r' s' he; rw [hn] at he; cases he
    | ok rs =>
      let t : Sh α := { s with cur := s.cur + 1, srcIdx := s.perm[s.cur + 1] + s.partIndex * s.m, rest := rs }
      have hn : next sub s = next sub t := by
        conv => lhs; rw [next]
        simp [h, hm, hne, hc, hi, hs, t]
      rw [drain_of_next_eq hn]
      -- now consume `rs`, then the induction hypothesis
      have key : ∀ (rs : List α) (u : Sh α), u.rest = rs → u.perm = s.perm → u.m = s.m → u.cur = s.cur + 1 →
          u.partIndex = s.partIndex →
          drain sub u = (later sub { u with rest := [] }).map (rs ++ ·) := by
        intro rs
        induction rs with
        | nil =>
          intro u hr hp hm' hc' _
          have : ({ u with rest := [] } : Sh α) = u := by cases u; simp_all
          rw [this, ih u ⟨by rw [hp, hm']; exact hl, by omega⟩ hr (by omega)]
          cases later sub u <;> simp [Except.map]
        | cons r rs ih2 =>
          intro u hr hp hm' hc' hpi
          rw [drain_cons sub u r rs hr, ih2 { u with rest := rs } rfl hp hm' hc' hpi]
          cases later sub { u with rest := [] } <;> simp [Except.map, later]
      rw [key rs t rfl rfl rfl rfl rfl]
      simp only [later, t, hm, if_true, bind, Except.bind, Except.map, pure, Except.pure]
      cases (s.perm.drop (s.cur + 1 + 1)).mapM fun p => sub (p + s.partIndex * s.m) <;> simp

/-- what is left of a pass: the rest of the current sub-part, then the later sub-parts in the order of
`shuffle_indexes_` -/
theorem drain_eq (sub : Nat → Res (List α)) (s : Sh α) (hw : s.Wf) :
    drain sub s = (later sub { s with rest := [] }).map (s.rest ++ ·) := by
  generalize hr : s.rest = rs
  induction rs generalizing s with
  | nil =>
    have : ({ s with rest := [] } : Sh α) = s := by cases s; simp_all
    rw [this, drain_rest_nil sub s hw hr]
    cases later sub s <;> simp [Except.map]
  | cons r rs ih =>
    rw [drain_cons sub s r rs hr, ih { s with rest := rs } hw rfl]
    cases later sub { s with rest := [] } <;> simp [Except.map, later]

/-- all sub-parts of part `k`, in the order `perm` -/
def passOf (sub : Nat → Res (List α)) (perm : List Nat) (k m : Nat) : Res (List α) :=
  (perm.mapM fun p => sub (p + k * m)).map List.flatten

theorem passOf_cons (sub : Nat → Res (List α)) (p : Nat) (ps : List Nat) (k m : Nat) :
    passOf sub (p :: ps) k m = (sub (p + k * m)).bind fun rs => (passOf sub ps k m).map (rs ++ ·) := by
  simp only [passOf, List.mapM_cons, bind, Except.bind, Except.map, pure, Except.pure]
  cases sub (p + k * m) with
  | error e => rfl
  | ok rs => cases ps.mapM fun p => sub (p + k * m) <;> simp

/-- a state whose current sub-part is the first of `perm` and still complete delivers the whole pass -/
theorem drain_first (sub : Nat → Res (List α)) (s : Sh α) (p : Nat) (ps : List Nat) (k : Nat)
    (hp : s.perm = p :: ps) (hl : s.perm.length = s.m) (hc : s.cur = 0) (hk : s.partIndex = k)
    (hr : sub (p + k * s.m) = .ok s.rest) :
    drain sub s = passOf sub s.perm k s.m := by
  have hm : 0 < s.m := by rw [← hl, hp]; simp
  rw [drain_eq sub s ⟨hl, by omega⟩, hp, passOf_cons, hr]
  simp only [Except.bind, later, hc, hp, hk]
  by_cases h1 : s.m > 1
  · simp [h1, passOf]
  · have : ps = [] := by
      have : (p :: ps).length = s.m := by rw [← hp]; exact hl
      simp at this
      cases ps with
      | nil => rfl
      | cons _ _ => simp at this; omega
    simp [h1, this, passOf, Except.map, pure, Except.pure]

end DmlcModel.Split.Shuffle
