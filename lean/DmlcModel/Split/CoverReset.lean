/-
Assembly layer of property C05 (`BeforeFirst` / `ResetPartition` at any point equal a fresh split): inversion
of `resetPartition` / `step` on the two operations, idempotence of `beforeFirst`, independence of
`resetPartition` from the buffer size of the old state, and the simulation statements that the property
theorems in Props/C05.lean instantiate.  Built on CleanLemmas (state equivalence), SnapLemmas / SnapText
(boundaries), DrainLemmas / CoverText (text drains).  Core Lean only.
Sections: 1 idempotence of `beforeFirst`; 2 inversion of `resetPartition` (`resetPartition_facts`: no hypothesis);
3 `resetPartition` never reads the buffer size; 4 `step` on the two operations; 5 the statements behind
Props/C05.lean (reset / beforeFirst / constructor path / text lines); 6 frame: no operation other than
`ResetPartition` changes the byte range; 7 an empty part with nothing buffered is exhausted at once
(`drain_exhausted`), hence the exact form of the beforeFirst statement.
Auxiliary lemmas live in the namespace `DmlcModel.Split.ResetAux`.

As in CleanLemmas, `step` / `resetPartition` / `drain` are never unfolded on the model terms themselves: the
unfoldings go through the generic copies (`CleanAux.stepG`, `SnapAux.rpCore`, …).
-/
import DmlcModel.Split.CleanLemmas
import DmlcModel.Split.CoverText
import DmlcModel.Split.FixLemmas

namespace DmlcModel.Split
open DmlcModel DmlcModel.Gen.Split

set_option linter.unusedVariables false

namespace ResetAux
open CleanAux SnapAux CoverAux

/-! ### 1. `beforeFirst` is idempotent -/

theorem beforeFirst_idem (s s' : Base) (h : beforeFirst s = .ok s') : beforeFirst s' = .ok s' := by
  unfold beforeFirst at h
  by_cases hb : bfEmpty s.offBegin s.offEnd = true
  · rw [if_pos hb] at h
    simp only [bfEmptyClears_true, if_true] at h
    injection h with h; subst h
    unfold beforeFirst
    simp only []
    rw [if_pos hb]
    simp only [bfEmptyClears_true, if_true]
    rfl
  · rw [if_neg hb] at h
    simp only [] at h
    cases hp : s.fpos with
    | none => rw [hp] at h; cases h
    | some p =>
      rw [hp] at h
      simp only [] at h
      split at h
      · cases h
      · injection h with h; subst h
        unfold beforeFirst
        simp only []
        rw [if_neg hb]
        have hre : bfReopen (filePtrOf s.files s.offBegin) (filePtrOf s.files s.offBegin) = false := by
          simp [bfReopen]
        rw [if_neg (by rw [hre]; intro hx; cases hx.1)]
        rfl

/-- on an empty part `beforeFirst` keeps the read position -/
theorem beforeFirst_offCurr_empty (s s' : Base) (h : beforeFirst s = .ok s') (he : s.offEnd ≤ s.offBegin) :
    s'.offCurr = s.offCurr := by
  unfold beforeFirst at h
  rw [if_pos (by simp [bfEmpty]; exact he)] at h
  simp only [bfEmptyClears_true, if_true] at h
  injection h with h; subst h
  rfl

/-- on a non-empty part `beforeFirst` moves the read position to the start of the part -/
theorem beforeFirst_offCurr_nonempty (s s' : Base) (h : beforeFirst s = .ok s') (he : s.offBegin < s.offEnd) :
    s'.offCurr = s.offBegin := by
  unfold beforeFirst at h
  rw [if_neg (by simp [bfEmpty]; exact he)] at h
  simp only [] at h
  cases hp : s.fpos with
  | none => rw [hp] at h; cases h
  | some p =>
    rw [hp] at h
    simp only [] at h
    split at h
    · cases h
    · injection h with h; subst h
      rfl

/-! ### 2. inversion of `resetPartition` -/

theorem match3_cases (L : List Bytes) (K : Bytes → List Bytes → Except Err Base) (r : Except Err Base)
    (h : resetPartition.match_3 (fun _ => Except Err Base) L (fun _ => .error .oob) K = r) :
    (L = [] ∧ r = .error .oob) ∨ (∃ f t, L = f :: t ∧ r = K f t) := by
  cases L with
  | nil => exact Or.inl ⟨rfl, h.symm⟩
  | cons f t => exact Or.inr ⟨f, t, rfl, h.symm⟩

/-- the two ways `rpCore` (the body of `resetPartition` behind the arithmetic) ends normally: the early
return for equal raw offsets, or `BeforeFirst` on the snapped range -/
theorem rpCore_inv (F : Fmt) (s s' : Base) (ob oe : Nat) (h : rpCore F s ob oe = .ok s') :
    (ob = oe ∧ s' = { s with offBegin := ob, offEnd := oe, offCurr := ob, chunk := s.chunk.clear,
                             overflow := [] }) ∨
    (ob ≠ oe ∧ ∃ ob' oe' pos,
        beforeFirst { s with offBegin := ob', offEnd := oe', offCurr := ob,
                             filePtr := filePtrOf s.files ob, fpos := some pos } = .ok s' ∧
        (ob' = ob ∨ ∃ f q m c, f ∈ s.files ∧ F.seekRecordBegin (f.drop q) = .ok (m, c) ∧ ob' = ob + m)) := by
  unfold rpCore at h
  simp only [] at h
  by_cases he : rpEmpty ob oe = true
  · rw [if_pos he] at h
    simp only [rpEmptyClears_true, if_true] at h
    injection h with h
    exact Or.inl ⟨by simpa [rpEmpty] using he, h.symm⟩
  · rw [if_neg he] at h
    right
    refine ⟨by simpa [rpEmpty] using he, ?_⟩
    rcases match5_cases _ _ _ h with ⟨e, _, hr⟩ | ⟨oe', _, hr⟩
    · cases hr
    · rcases match3_cases _ _ _ hr.symm with ⟨_, hr⟩ | ⟨f, t, hd, hr⟩
      · cases hr
      · have hfm : f ∈ s.files := List.mem_of_mem_drop (hd ▸ List.mem_cons_self ..)
        rcases match1_cases _ _ _ hr.symm with ⟨e, _, hr⟩ | ⟨ob', pos, hY, hr⟩
        · cases hr
        · refine ⟨ob', oe', pos, hr.symm, ?_⟩
          by_cases hsb : rpSnapBegin ob (fileOffset s.files (filePtrOf s.files ob)) = true
          · rw [if_pos hsb] at hY
            right
            cases hq : F.seekRecordBegin
                (f.drop (rpSeekBegin ob (fileOffset s.files (filePtrOf s.files ob)))) with
            | error e => rw [hq] at hY; cases hY
            | ok v =>
              obtain ⟨m, c⟩ := v
              rw [hq] at hY
              injection hY with hY
              injection hY with h1 _
              exact ⟨f, _, m, c, hfm, hq, h1.symm⟩
          · rw [if_neg hsb] at hY
            injection hY with hY
            injection hY with h1 _
            exact Or.inl h1.symm

/-- `resetPartition` is `rpCore` on the two raw offsets -/
theorem resetPartition_inv (F : Fmt) (s s' : Base) (k n : Nat) (h : resetPartition F s k n = .ok s') :
    n ≠ 0 ∧ rpCore F s
      (rpBegin (rpStepAlign (rpStepRaw (totalSize s.files) n) F.align) k (totalSize s.files))
      (rpEnd (rpStepAlign (rpStepRaw (totalSize s.files) n) F.align) k (totalSize s.files)) = .ok s' := by
  rw [resetPartition_eq_core] at h
  by_cases hn : n = 0
  · rw [if_pos hn] at h; cases h
  · rw [if_neg hn] at h; exact ⟨hn, h⟩

theorem rpBegin_le (a b c : Nat) : rpBegin a b c ≤ c := by
  unfold rpBegin; exact Nat.min_le_right _ _

theorem mem_length_le_totalSize (files : List Bytes) : ∀ f ∈ files, f.length ≤ totalSize files := by
  induction files with
  | nil => intro f hf; cases hf
  | cons g gs ih =>
    intro f hf
    rw [totalSize_cons]
    rcases List.mem_cons.1 hf with rfl | hf
    · omega
    · have := ih f hf; omega

/-- what `resetPartition` does to ANY state, for ANY `(k, n)` (no hypothesis): the file list, the buffer
size and the chunk capacity are kept, nothing stays buffered, a `BeforeFirst` right after it changes
nothing, and the start offset is a raw offset (`≤ totalSize`) plus at most one `SeekRecordBegin` result -/
theorem resetPartition_facts (F : Fmt) (s s' : Base) (k n : Nat) (h : resetPartition F s k n = .ok s') :
    s'.files = s.files ∧ s'.bufWords = s.bufWords ∧ s'.chunk.dataWords = s.chunk.dataWords ∧
    s'.chunk.rest = [] ∧ s'.overflow = [] ∧ beforeFirst s' = .ok s' ∧
    (s'.offBegin ≤ totalSize s.files ∨
      ∃ f q m c, f ∈ s.files ∧ F.seekRecordBegin (f.drop q) = .ok (m, c) ∧
        s'.offBegin ≤ totalSize s.files + m) := by
  obtain ⟨_, h⟩ := resetPartition_inv F s s' k n h
  have hob := rpBegin_le (rpStepAlign (rpStepRaw (totalSize s.files) n) F.align) k (totalSize s.files)
  generalize rpBegin (rpStepAlign (rpStepRaw (totalSize s.files) n) F.align) k (totalSize s.files) = ob
    at h hob
  generalize rpEnd (rpStepAlign (rpStepRaw (totalSize s.files) n) F.align) k (totalSize s.files) = oe at h
  rcases rpCore_inv F s s' ob oe h with ⟨he, hs⟩ | ⟨_, ob', oe', pos, hbf, hob'⟩
  · subst hs
    refine ⟨rfl, rfl, rfl, rfl, rfl, ?_, Or.inl hob⟩
    unfold beforeFirst
    simp only []
    rw [if_pos (by simp [bfEmpty]; omega)]
    simp only [bfEmptyClears_true, if_true]
    rfl
  · obtain ⟨f1, f2, _, f4, f5, f6, f7⟩ := beforeFirst_frame _ _ hbf
    refine ⟨f1, f4, f5, f6, f7, beforeFirst_idem _ _ hbf, ?_⟩
    rw [f2]
    rcases hob' with rfl | ⟨f, q, m, c, hf, hq, rfl⟩
    · exact Or.inl hob
    · exact Or.inr ⟨f, q, m, c, hf, hq, by show ob + m ≤ _; omega⟩

/-- with a well-behaved `SeekRecordBegin` the start offset stays in the `size_t` range -/
theorem resetPartition_offBegin_lt (F : Fmt) (hS : SeekOk F) (s s' : Base) (k n : Nat)
    (ht : totalSize s.files < 2^63) (h : resetPartition F s k n = .ok s') : s'.offBegin < 2^64 := by
  obtain ⟨_, _, _, _, _, _, hb⟩ := resetPartition_facts F s s' k n h
  rcases hb with hb | ⟨f, q, m, c, hf, hq, hb⟩
  · omega
  · have h1 := (hS.1 _ _ _ hq).1
    have h2 := mem_length_le_totalSize s.files f hf
    rw [List.length_drop] at h1
    omega

/-! ### 3. `resetPartition` never reads the buffer size -/

theorem beforeFirst_setBuf (s : Base) (w : Nat) :
    beforeFirst { s with bufWords := w } = mkBaseK w (beforeFirst s) := by
  unfold beforeFirst
  simp only []
  by_cases hb : bfEmpty s.offBegin s.offEnd = true
  · rw [if_pos hb, if_pos hb]
    simp only [bfEmptyClears_true, if_true]
    rfl
  · rw [if_neg hb, if_neg hb]
    cases hp : s.fpos with
    | none => rfl
    | some p =>
      simp only []
      by_cases hc : bfReopen s.filePtr (filePtrOf s.files s.offBegin) = true ∧
          s.files.length ≤ filePtrOf s.files s.offBegin
      · rw [if_pos hc, if_pos hc]; rfl
      · rw [if_neg hc, if_neg hc]; rfl

theorem rpCore_setBuf (F : Fmt) (s : Base) (w ob oe : Nat) :
    rpCore F { s with bufWords := w } ob oe = mkBaseK w (rpCore F s ob oe) := by
  unfold rpCore
  simp only []
  by_cases he : rpEmpty ob oe = true
  · rw [if_pos he, if_pos he]
    simp only [rpEmptyClears_true, if_true]
    rfl
  · rw [if_neg he, if_neg he]
    split
    · rfl
    · split
      · rfl
      · split
        · rfl
        · exact beforeFirst_setBuf { s with offBegin := _, offEnd := _, offCurr := ob, filePtr := _, fpos := _ } w

theorem resetPartition_setBuf (F : Fmt) (s : Base) (w k n : Nat) :
    resetPartition F { s with bufWords := w } k n = mkBaseK w (resetPartition F s k n) := by
  rw [resetPartition_eq_core, resetPartition_eq_core]
  by_cases hn : n = 0
  · rw [if_pos hn, if_pos hn]; rfl
  · rw [if_neg hn, if_neg hn]
    exact rpCore_setBuf F s w _ _

/-! ### 4. `step` on the two operations -/

/-- the wrapper after `BeforeFirst` / `ResetPartition`: its chunk is handed back (`tmp_chunk_ = NULL`) -/
def clearWrap (w : Option Wrap) : Option Wrap := w.map fun w => { w with chunk := none }

theorem clearWrap_chunk (x : Option Wrap) (w : Wrap) (h : clearWrap x = some w) : w.chunk = none := by
  cases x with
  | none => cases h
  | some v => injection h with h; subst h; rfl

theorem wrapEquiv_refl (x : Option Wrap) : WrapEquiv x x := by
  cases x with
  | none => trivial
  | some v =>
    refine ⟨rfl, ?_⟩
    cases v.chunk with
    | none => trivial
    | some c => exact chunkEquiv_refl c

theorem step_beforeFirst_ok (F : Fmt) (s : St) (b : Base) (hb : beforeFirst s.base = .ok b) :
    step F s .beforeFirst = ({ base := b, wrap := clearWrap s.wrap }, .done) := by
  rw [step_eq_gen]; unfold stepG; simp only []; rw [hb]; rfl

theorem step_beforeFirst_err (F : Fmt) (s : St) (e : Err) (hb : beforeFirst s.base = .error e) :
    step F s .beforeFirst = (s, .err e) := by
  rw [step_eq_gen]; unfold stepG; simp only []; rw [hb]

theorem step_beforeFirst_inv (F : Fmt) (s s' : St) (h : step F s .beforeFirst = (s', .done)) :
    ∃ b, beforeFirst s.base = .ok b ∧ s' = { base := b, wrap := clearWrap s.wrap } := by
  cases hb : beforeFirst s.base with
  | error e =>
    rw [step_beforeFirst_err F s e hb] at h
    injection h with _ h2; cases h2
  | ok b =>
    rw [step_beforeFirst_ok F s b hb] at h
    injection h with h1 _
    exact ⟨b, rfl, h1.symm⟩

theorem step_reset_err (F : Fmt) (s : St) (k n : Nat) (e : Err) (hb : resetPartition F s.base k n = .error e) :
    step F s (.reset k n) = (s, .err e) := by
  rw [step_eq_gen]; unfold stepG; simp only []; rw [hb]

/-- a successful `ResetPartition` on the object, bare or wrapped (the wrapper's extra `BeforeFirst` changes
nothing: `resetPartition_facts`) -/
theorem step_reset_ok (F : Fmt) (s : St) (k n : Nat) (b : Base) (hb : resetPartition F s.base k n = .ok b) :
    step F s (.reset k n) = ({ base := b, wrap := clearWrap s.wrap }, .done) := by
  have hid := (resetPartition_facts F s.base b k n hb).2.2.2.2.2.1
  rw [step_eq_gen]; unfold stepG; simp only []; rw [hb]
  simp only []
  obtain ⟨sb, sw⟩ := s
  cases sw with
  | none => rfl
  | some w => simp only []; rw [hid]; rfl

theorem step_reset_inv (F : Fmt) (s s' : St) (k n : Nat) (h : step F s (.reset k n) = (s', .done)) :
    ∃ b, resetPartition F s.base k n = .ok b ∧ s' = { base := b, wrap := clearWrap s.wrap } := by
  cases hb : resetPartition F s.base k n with
  | error e =>
    rw [step_reset_err F s k n e hb] at h
    injection h with _ h2; cases h2
  | ok b =>
    rw [step_reset_ok F s k n b hb] at h
    injection h with h1 _
    exact ⟨b, rfl, h1.symm⟩

end ResetAux
open ResetAux CleanAux SnapAux CoverAux

/-! ### 5. the statements behind Props/C05.lean -/

/-- nothing buffered survives `BeforeFirst` / `ResetPartition`, bare or behind the wrapper -/
theorem nothing_stale (F : Fmt) (s s' : St) (op : Op) (hop : op = .beforeFirst ∨ ∃ k n, op = .reset k n)
    (h : step F s op = (s', .done)) :
    s'.base.chunk.rest = [] ∧ s'.base.overflow = [] ∧ (∀ w, s'.wrap = some w → w.chunk = none) := by
  rcases hop with rfl | ⟨k, n, rfl⟩
  · obtain ⟨b, hb, rfl⟩ := step_beforeFirst_inv F s s' h
    obtain ⟨_, _, _, _, _, h1, h2⟩ := beforeFirst_frame _ _ hb
    exact ⟨h1, h2, fun w hw => clearWrap_chunk _ w hw⟩
  · obtain ⟨b, hb, rfl⟩ := step_reset_inv F s s' k n h
    obtain ⟨_, _, _, h1, h2, _⟩ := resetPartition_facts F _ _ k n hb
    exact ⟨h1, h2, fun w hw => clearWrap_chunk _ w hw⟩

/-- `ResetPartition(k, n)` establishes `Clean` from any state, for any `(k, n)` -/
theorem reset_clean (F : Fmt) (hS : SeekOk F) (s s' : Base) (k n : Nat) (ht : totalSize s.files < 2^63)
    (h : resetPartition F s k n = .ok s') :
    Clean s' ∧ s'.files = s.files ∧ s'.bufWords = s.bufWords ∧ s'.chunk.dataWords = s.chunk.dataWords :=
  resetPartition_clean F s s' k n h (fun _ => resetPartition_offBegin_lt F hS s s' k n ht h)

/-- `ResetPartition(k, n)` on two arbitrary base states over the same file list with the same buffer size:
both fail alike or leave equivalent states that agree on the read position -/
theorem reset_two (F : Fmt) (s t b : Base) (k n : Nat) (hfiles : t.files = s.files)
    (hbw : t.bufWords = s.bufWords) (hb : resetPartition F s k n = .ok b) :
    ∃ f, resetPartition F t k n = .ok f ∧ EquivG false b f := by
  have h := resetPartition_indepG F s t k n hfiles.symm hbw.symm
  rw [hb] at h
  cases hf : resetPartition F t k n with
  | error e => rw [hf] at h; exact absurd h.1 (by decide)
  | ok f => rw [hf] at h; exact ⟨f, rfl, h⟩

/-- MAIN (reset): after `ResetPartition(k, n)` on any object the rest of its life is that of a fresh object
for part `k` of `n` -/
theorem reset_eq_fresh (F : Fmt) (hF : ExtractNoneIff F) (s s' : St) (k n : Nat)
    (h : step F s (.reset k n) = (s', .done))
    (b0 : Base) (hfiles : b0.files = s.base.files) (hbw : b0.bufWords = s.base.bufWords)
    (fresh : St) (hfb : resetPartition F b0 k n = .ok fresh.base) (hfw : WrapEquiv s'.wrap fresh.wrap)
    (pick : Nat → Bool) : (drain F pick s').2 = (drain F pick fresh).2 := by
  obtain ⟨b, hb, rfl⟩ := step_reset_inv F s s' k n h
  obtain ⟨f, hf, hE⟩ := reset_two F s.base b0 b k n hfiles hbw hb
  rw [hfb] at hf
  injection hf with hf
  subst hf
  exact drain_equiv_strict F hF _ fresh ⟨hE.1, hfw⟩ (hE.2 rfl) pick

/-- `ResetPartition(k, n)` makes any two objects over the same file list with the same buffer sizes
indistinguishable, whatever their histories -/
theorem reset_any_two (F : Fmt) (hF : ExtractNoneIff F) (s t s' : St) (k n : Nat)
    (hfiles : t.base.files = s.base.files) (hbw : t.base.bufWords = s.base.bufWords)
    (hwrap : WrapEquiv (clearWrap s.wrap) (clearWrap t.wrap))
    (h : step F s (.reset k n) = (s', .done)) :
    ∃ t', step F t (.reset k n) = (t', .done) ∧
      ∀ pick : Nat → Bool, (drain F pick s').2 = (drain F pick t').2 := by
  obtain ⟨b, hb, hs'⟩ := step_reset_inv F s s' k n h
  obtain ⟨f, hf, hE⟩ := reset_two F s.base t.base b k n hfiles hbw hb
  refine ⟨_, step_reset_ok F t k n f hf, fun pick => ?_⟩
  exact reset_eq_fresh F hF s s' k n h t.base hfiles hbw _ hf (by rw [hs']; exact hwrap) pick

/-! #### `BeforeFirst` -/

/-- the state after `BeforeFirst` against any clean state on the same range -/
theorem beforeFirst_vs_clean (s s' t : Base) (h : beforeFirst s = .ok s')
    (hlt : s.offBegin < s.offEnd → s.offBegin < 2^64) (ht : Clean t) (hfiles : t.files = s.files)
    (hb : t.offBegin = s.offBegin) (he : t.offEnd = s.offEnd) (hw : t.bufWords = s.bufWords) :
    Equiv s' t ∧ (s.offBegin < s.offEnd → s'.offCurr = t.offCurr) ∧
      (s.offEnd ≤ s.offBegin → s'.offCurr = s.offCurr) := by
  obtain ⟨c1, c2, c3, c4, c5, _⟩ := beforeFirst_clean s s' h hlt
  refine ⟨clean_equiv s' t c1 ht (c2.trans hfiles.symm) (c3.trans hb.symm) (c4.trans he.symm)
    (c5.trans hw.symm), fun hne => ?_, fun hem => beforeFirst_offCurr_empty s s' h hem⟩
  rw [beforeFirst_offCurr_nonempty s s' h hne]
  rcases ht.2.2 with h3 | ⟨h3, _⟩
  · omega
  · rw [h3, hb]

/-- MAIN (beforeFirst), exact form: equal outcomes of every full consumption, including the model's
iteration bound; on an empty part the (never used) read positions must agree for that -/
theorem beforeFirst_eq_clean (F : Fmt) (hF : ExtractNoneIff F) (s s' : St)
    (h : step F s .beforeFirst = (s', .done))
    (hlt : s.base.offBegin < s.base.offEnd → s.base.offBegin < 2^64)
    (t : St) (ht : Clean t.base) (hfiles : t.base.files = s.base.files)
    (hb : t.base.offBegin = s.base.offBegin) (he : t.base.offEnd = s.base.offEnd)
    (hw : t.base.bufWords = s.base.bufWords) (hwrap : WrapEquiv s'.wrap t.wrap)
    (hc : s.base.offEnd ≤ s.base.offBegin → t.base.offCurr = s.base.offCurr)
    (pick : Nat → Bool) : (drain F pick s').2 = (drain F pick t).2 := by
  obtain ⟨b, hbf, rfl⟩ := step_beforeFirst_inv F s s' h
  obtain ⟨hE, h1, h2⟩ := beforeFirst_vs_clean s.base b t.base hbf hlt ht hfiles hb he hw
  refine drain_equiv_strict F hF _ t ⟨hE, hwrap⟩ ?_ pick
  by_cases hem : s.base.offEnd ≤ s.base.offBegin
  · exact (h2 hem).trans (hc hem).symm
  · exact h1 (by omega)

/-- MAIN (beforeFirst), without the side condition on the read position of an empty part: equal outcomes
unless one side reports the model's iteration bound -/
theorem beforeFirst_eq_clean_any (F : Fmt) (hF : ExtractNoneIff F) (s s' : St)
    (h : step F s .beforeFirst = (s', .done))
    (hlt : s.base.offBegin < s.base.offEnd → s.base.offBegin < 2^64)
    (t : St) (ht : Clean t.base) (hfiles : t.base.files = s.base.files)
    (hb : t.base.offBegin = s.base.offBegin) (he : t.base.offEnd = s.base.offEnd)
    (hw : t.base.bufWords = s.base.bufWords) (hwrap : WrapEquiv s'.wrap t.wrap)
    (pick : Nat → Bool) :
    (drain F pick s').2 = .error .fuel ∨ (drain F pick t).2 = .error .fuel ∨
      (drain F pick s').2 = (drain F pick t).2 := by
  obtain ⟨b, hbf, rfl⟩ := step_beforeFirst_inv F s s' h
  obtain ⟨hE, _, _⟩ := beforeFirst_vs_clean s.base b t.base hbf hlt ht hfiles hb he hw
  exact drain_equiv F hF _ t ⟨hE, hwrap⟩ pick

/-! #### the constructor path `mkSt` -/

/-- `mkSt` with its matcher as a function, for both kinds of object -/
def mkStW (wrapped : Bool) (dw : Nat) (r : Except Err Base) : Except Err St :=
  match r with
  | .error e => .error e
  | .ok b => .ok { base := b, wrap := if wrapped then some { bufWords := dw } else none }

theorem mkBase_unfold (F : Fmt) (files : List Bytes) (k n w dw : Nat) :
    mkBase F files k n w dw =
      if (files.filter (fun f => !f.isEmpty)).isEmpty then .error .check
      else if (files.filter (fun f => !f.isEmpty)).any (fun f => !initAligned f.length F.align) then
        .error .check
      else mkBaseK w (resetPartition F (blank (files.filter (fun f => !f.isEmpty)) dw) k n) := by
  unfold mkBase
  rfl

theorem mkSt_unfold (F : Fmt) (files : List Bytes) (k n w dw : Nat) (wrapped : Bool) :
    mkSt F files k n w wrapped dw = mkStW wrapped dw (mkBase F files k n w dw) := by
  unfold mkSt
  rfl

/-- a successfully constructed object: `ResetPartition(k, n)` on the blank state over the non-empty files,
then the buffer size `w` is installed; a wrapper starts without a chunk -/
theorem mkSt_inv (F : Fmt) (files : List Bytes) (k n w dw : Nat) (wrapped : Bool) (fresh : St)
    (h : mkSt F files k n w wrapped dw = .ok fresh) :
    ∃ b, resetPartition F (blank (files.filter (fun f => !f.isEmpty)) dw) k n = .ok b ∧
      fresh.base = { b with bufWords := w } ∧
      fresh.wrap = if wrapped then some { bufWords := dw } else none := by
  rw [mkSt_unfold, mkBase_unfold] at h
  split at h
  · cases h
  · split at h
    · cases h
    · cases hr : resetPartition F (blank (files.filter (fun f => !f.isEmpty)) dw) k n with
      | error e => rw [hr] at h; cases h
      | ok b =>
        rw [hr] at h
        injection h with h
        subst h
        exact ⟨b, rfl, rfl, rfl⟩

/-- MAIN (reset) against the constructor: the object after `ResetPartition(k, n)` and the object `mkSt`
builds for part `k` of `n` over the same files with the same buffer size -/
theorem reset_eq_mkSt (F : Fmt) (hF : ExtractNoneIff F) (s s' : St) (k n : Nat)
    (h : step F s (.reset k n) = (s', .done))
    (files : List Bytes) (w dw : Nat) (wrapped : Bool)
    (hfiles : s.base.files = files.filter (fun f => !f.isEmpty)) (hw : s.base.bufWords = w)
    (fresh : St) (hfresh : mkSt F files k n w wrapped dw = .ok fresh) (hwrap : WrapEquiv s'.wrap fresh.wrap)
    (pick : Nat → Bool) : (drain F pick s').2 = (drain F pick fresh).2 := by
  obtain ⟨b, hr, hbase, _⟩ := mkSt_inv F files k n w dw wrapped fresh hfresh
  refine reset_eq_fresh F hF s s' k n h
    { blank (files.filter (fun f => !f.isEmpty)) dw with bufWords := w } hfiles.symm hw.symm fresh ?_ hwrap pick
  rw [resetPartition_setBuf, hr, hbase]
  rfl

/-! #### text: the lines delivered after `ResetPartition` -/

/-- `ResetPartition(k, n)` (`k < n`) on a bare text split in ANY state over well-formed files does not fail -/
theorem reset_text_ok (files : List Bytes) (hfiles : files ≠ []) (hne : ∀ f ∈ files, f ≠ [])
    (ht : totalSize files < 2^62) (s : St) (hs : s.base.files = files) (k n : Nat) (hk : k < n)
    (hn : n < 2^32) : ∃ s', step Fmt.text s (.reset k n) = (s', .done) := by
  subst hs
  obtain ⟨b, hb⟩ := resetPartition_ok Fmt.text (Or.inl rfl) seekOk_text s.base k n hne hfiles ht hk hn _ _
    (bnd_text_eq s.base.files n k) (bnd_text_eq s.base.files n (k + 1))
  exact ⟨_, step_reset_ok Fmt.text s k n b hb⟩

/-- after `ResetPartition(k, n)` on a bare text split in ANY state the drain invariant holds and what is
still to be delivered is the stream of the byte range of part `k` of `n` -/
theorem reset_text_inv (files : List Bytes) (hne : ∀ f ∈ files, f ≠ [] ∧ NulFree f)
    (ht : totalSize files < 2^55) (s s' : St) (hs : s.base.files = files) (hbare : s.wrap = none)
    (hbw : s.base.bufWords < 2^56) (k n : Nat) (hk : k < n) (hn : n < 2^32)
    (h : step Fmt.text s (.reset k n) = (s', .done)) :
    s'.wrap = none ∧ TInv s'.base ∧
      tailT s'.base = rangeStream true files (bndT files n k) (bndT files n (k + 1)) := by
  subst hs
  have hne1 : ∀ f ∈ s.base.files, f ≠ [] := fun f hf => (hne f hf).1
  have hne2 : ∀ f ∈ s.base.files, NulFree f := fun f hf => (hne f hf).2
  obtain ⟨b, hb, rfl⟩ := step_reset_inv Fmt.text s s' k n h
  have ha : Fmt.text.align = 1 ∨ Fmt.text.align = 4 := Or.inl rfl
  obtain ⟨_, hC, hR, hF, hB, _⟩ :=
    resetPartition_spec Fmt.text ha seekOk_text s.base b k n hne1 (clearsOk_fixed _) (by omega) hk hn hb
  have hrg := resetPartition_range Fmt.text ha seekOk_text s.base b k n hne1 (clearsOk_fixed _) (by omega) hk hn hb _ _
    (bnd_text_eq s.base.files n k) (bnd_text_eq s.base.files n (k + 1))
  have hp : pending Fmt.text b
      = rangeStream true s.base.files (bndT s.base.files n k) (bndT s.base.files n (k + 1)) := by
    have := pending_of_clean b hC (by rw [hF]; exact hne1) _ _ hrg
      (by rw [hF]; exact bndT_le s.base.files n k hne1)
    rw [this, hF]
  have hT : TInv b :=
    TInv_of_clean b hR hC.1 hC.2.1 (nulFree_pending b (by rw [hF]; exact hne2))
      (by rw [hF]; exact ht) (by rw [hB]; exact hbw)
  refine ⟨by show clearWrap s.wrap = none; rw [hbare]; rfl, hT, ?_⟩
  show tailT b = _
  unfold tailT
  rw [hC.1, hC.2.1, hp]
  rfl

/-- C05 for the text format: after `ResetPartition(k, n)` at any point of any history of a bare split, a full
consumption ends normally and delivers exactly the lines of part `k` of `n` -/
theorem reset_text_lines (files : List Bytes) (hne : ∀ f ∈ files, f ≠ [] ∧ NulFree f)
    (ht : totalSize files < 2^55) (s s' : St) (hs : s.base.files = files) (hbare : s.wrap = none)
    (hbw : s.base.bufWords < 2^56) (k n : Nat) (hk : k < n) (hn : n < 2^32)
    (h : step Fmt.text s (.reset k n) = (s', .done)) (pick : Nat → Bool) :
    ∃ bs s'', drain Fmt.text pick s' = (s'', .ok bs) ∧
      bs.flatMap canon = lines (rangeStream true files (bndT files n k) (bndT files n (k + 1))) ∧
      (∀ i b, bs[i]? = some b → b ≠ [] ∧ (pick i = false → EndsEol b)) := by
  obtain ⟨hw, hT, htl⟩ := reset_text_inv files hne ht s s' hs hbare hbw k n hk hn h
  obtain ⟨bs, s'', hd, h1, h2, _⟩ := drain_text_correct s' hw hT pick
  exact ⟨bs, s'', hd, by rw [h1, htl], h2⟩

/-- … and these are the lines a freshly constructed split for part `k` of `n` delivers, with ANY buffer size
`w`, any `kBufferSize` `dw` and any mix of `NextRecord` / `NextChunk` -/
theorem reset_text_lines_fresh (files : List Bytes) (hfiles : files ≠ [])
    (hne : ∀ f ∈ files, f ≠ [] ∧ NulFree f)
    (ht : totalSize files < 2^55) (s s' : St) (hs : s.base.files = files) (hbare : s.wrap = none)
    (hbw : s.base.bufWords < 2^56) (k n : Nat) (hk : k < n) (hn : n < 2^32)
    (h : step Fmt.text s (.reset k n) = (s', .done)) (pick : Nat → Bool)
    (w dw : Nat) (hw : w < 2^56) (pick' : Nat → Bool) :
    linesOf (drain Fmt.text pick s').2 = linesOf (partBlobs Fmt.text files k n w dw pick') := by
  obtain ⟨bs, s'', hd, h1, _⟩ := reset_text_lines files hne ht s s' hs hbare hbw k n hk hn h pick
  rw [hd, linesOf_part_text files k n w dw hfiles hne ht hk hn hw pick']
  exact h1

/-! ### 6. no operation other than `ResetPartition` changes the byte range

Frame facts through `read` / `readChunk` / `loadLoop` / `load` / `nextLoop` / `wrap*` / `step`, on the generic
copies of CleanLemmas (no hypothesis on the state). -/

/-- same file list and same byte range -/
def SameRange (s s' : Base) : Prop :=
  s'.files = s.files ∧ s'.offBegin = s.offBegin ∧ s'.offEnd = s.offEnd

namespace ResetAux

theorem SameRange.refl (s : Base) : SameRange s s := ⟨rfl, rfl, rfl⟩

theorem SameRange.trans {s t u : Base} (h : SameRange s t) (g : SameRange t u) : SameRange s u :=
  ⟨g.1.trans h.1, g.2.1.trans h.2.1, g.2.2.trans h.2.2⟩

theorem readG_range (clp : Nat → Nat → Nat)
    (rl : Bool → List Bytes → Nat → Nat → Nat → Nat → Nat → Bytes → Except Err (Bytes × Nat × Nat × Nat))
    (F : Fmt) (s : Base) (size : Nat) (b : Bytes) (s' : Base)
    (h : readG clp rl F s size = .ok (b, s')) : SameRange s s' := by
  unfold readG at h
  cases hp : s.fpos with
  | none =>
    rw [hp] at h
    simp only [] at h
    cases h
    exact SameRange.refl _
  | some p =>
    rw [hp] at h
    simp only [] at h
    by_cases he : rdEmpty s.offBegin s.offEnd = true
    · rw [if_pos he] at h; cases h; exact SameRange.refl _
    · rw [if_neg he] at h
      generalize (if rdClip s.offCurr size s.offEnd = true then clp s.offCurr s.offEnd else size) = sz at h
      by_cases h0 : sz = 0
      · rw [if_pos h0] at h; cases h; exact SameRange.refl _
      · rw [if_neg h0] at h
        cases hx : rl F.isText s.files (s.files.length + 1) sz s.filePtr p s.offCurr [] with
        | error e => rw [hx] at h; cases h
        | ok v =>
          obtain ⟨bytes, fp, pos, oc⟩ := v
          rw [hx] at h
          cases h
          exact ⟨rfl, rfl, rfl⟩

theorem readChunkG_range (rd : Base → Nat → Except Err (Bytes × Base)) (rsz : Nat → Nat → Nat) (F : Fmt)
    (hrd : ∀ s n b s', rd s n = .ok (b, s') → SameRange s s')
    (s : Base) (m : Nat) (r : Option Bytes) (s' : Base)
    (h : readChunkG rd rsz F s m = .ok (r, s')) : SameRange s s' := by
  unfold readChunkG at h
  split at h
  · cases h; exact SameRange.refl _
  · simp only [] at h
    cases hr : rd { s with overflow := [] } (rsz m s.overflow.length) with
    | error e => rw [hr] at h; cases h
    | ok v =>
      obtain ⟨bytes, s1⟩ := v
      rw [hr] at h
      simp only [] at h
      have h1 : SameRange s s1 := hrd { s with overflow := [] } _ _ _ hr
      split at h
      · cases h; exact h1
      · split at h
        · cases h; exact h1
        · split at h
          · cases h
          · cases h; exact h1

theorem loadLoopG_range (rc : Base → Nat → Except Err (Option Bytes × Base)) (sz grow : Nat → Nat)
    (hrc : ∀ s n r s', rc s n = .ok (r, s') → SameRange s s') :
    ∀ (fuel : Nat) (s : Base) (dw : Nat) (r : Option Bytes) (s' : Base) (dw' : Nat),
      loadLoopG rc sz grow fuel s dw = .ok (r, s', dw') → SameRange s s' := by
  intro fuel
  induction fuel with
  | zero => intro s dw r s' dw' h; cases h
  | succ fuel ih =>
    intro s dw r s' dw' h
    rw [loadLoopG_succ] at h
    unfold loadStepG at h
    split at h
    · cases h
    · rename_i heq; cases h; exact hrc _ _ _ _ heq
    · rename_i heq; exact SameRange.trans (hrc _ _ _ _ heq) (ih _ _ _ _ _ h)
    · rename_i heq; cases h; exact hrc _ _ _ _ heq

theorem loadG_range (L : Nat → Base → Nat → Except Err (Option Bytes × Base × Nat)) (fu : Base → Nat)
    (rs : Nat → Nat)
    (hL : ∀ fuel s dw r s' dw', L fuel s dw = .ok (r, s', dw') → SameRange s s')
    (s : Base) (c : Chunk) (ok : Bool) (s' : Base) (c' : Chunk)
    (h : loadG L fu rs s c = .ok (ok, s', c')) : SameRange s s' := by
  unfold loadG at h
  split at h
  · cases h
  · rename_i heq; cases h; exact hL _ _ _ _ _ _ heq
  · rename_i heq; cases h; exact hL _ _ _ _ _ _ heq

theorem nextLoopG_range (ld : Base → Chunk → Except Err (Bool × Base × Chunk))
    (ext : Chunk → Except Err (Option (Bytes × Chunk)))
    (hld : ∀ s c ok s' c', ld s c = .ok (ok, s', c') → SameRange s s') :
    ∀ (fuel : Nat) (s : Base) (r : Option Bytes) (s' : Base),
      nextLoopG ld ext fuel s = .ok (r, s') → SameRange s s' := by
  intro fuel
  induction fuel with
  | zero => intro s r s' h; cases h
  | succ fuel ih =>
    intro s r s' h
    rw [nextLoopG_succ] at h
    split at h
    · cases h
    · cases h; exact ⟨rfl, rfl, rfl⟩
    · split at h
      · cases h
      · rename_i heq
        have h1 := hld _ _ _ _ _ heq
        cases h
        exact ⟨h1.1, h1.2.1, h1.2.2⟩
      · rename_i heq
        have h1 := hld _ _ _ _ _ heq
        have h2 := ih _ _ _ h
        exact ⟨h2.1.trans h1.1, h2.2.1.trans h1.2.1, h2.2.2.trans h1.2.2⟩

theorem wrapProduceG_range (ld : Base → Chunk → Except Err (Bool × Base × Chunk))
    (hld : ∀ s c ok s' c', ld s c = .ok (ok, s', c') → SameRange s s')
    (b : Base) (w : Wrap) (ok : Bool) (b' : Base) (w' : Wrap)
    (h : wrapProduceG ld b w = .ok (ok, b', w')) : SameRange b b' := by
  unfold wrapProduceG at h
  simp only [] at h
  split at h
  · cases h
  · rename_i heq; cases h; exact hld _ _ _ _ _ heq

theorem wrapLoopG_range (wp : Base → Wrap → Except Err (Bool × Base × Wrap))
    (ext : Chunk → Except Err (Option (Bytes × Chunk)))
    (hwp : ∀ b w ok b' w', wp b w = .ok (ok, b', w') → SameRange b b') :
    ∀ (fuel : Nat) (b : Base) (w : Wrap) (c : Chunk) (r : Option Bytes) (b' : Base) (w' : Wrap),
      wrapLoopG wp ext fuel b w c = .ok (r, b', w') → SameRange b b' := by
  intro fuel
  induction fuel with
  | zero => intro b w c r b' w' h; cases h
  | succ fuel ih =>
    intro b w c r b' w' h
    rw [wrapLoopG_succ] at h
    split at h
    · cases h
    · cases h; exact SameRange.refl _
    · split at h
      · cases h
      · rename_i heq; cases h; exact hwp _ _ _ _ _ heq
      · rename_i heq
        split at h
        · cases h
        · exact SameRange.trans (hwp _ _ _ _ _ heq) (ih _ _ _ _ _ _ h)

theorem wrapNextG_range (wp : Base → Wrap → Except Err (Bool × Base × Wrap))
    (wl : Nat → Base → Wrap → Chunk → Except Err (Option Bytes × Base × Wrap))
    (hwp : ∀ b w ok b' w', wp b w = .ok (ok, b', w') → SameRange b b')
    (hwl : ∀ fuel b w c r b' w', wl fuel b w c = .ok (r, b', w') → SameRange b b')
    (b : Base) (w : Wrap) (r : Option Bytes) (b' : Base) (w' : Wrap)
    (h : wrapNextG wp wl b w = .ok (r, b', w')) : SameRange b b' := by
  rw [wrapNextG_unfold] at h
  split at h
  · exact hwl _ _ _ _ _ _ _ h
  · split at h
    · cases h
    · rename_i heq; cases h; exact hwp _ _ _ _ _ heq
    · rename_i heq
      split at h
      · cases h
      · exact SameRange.trans (hwp _ _ _ _ _ heq) (hwl _ _ _ _ _ _ _ h)

theorem stepG_range (nr nc : Base → Except Err (Option Bytes × Base))
    (wn1 wn2 : Base → Wrap → Except Err (Option Bytes × Base × Wrap))
    (bf : Base → Except Err Base) (rp : Base → Nat → Nat → Except Err Base)
    (hnr : ∀ s r s', nr s = .ok (r, s') → SameRange s s')
    (hnc : ∀ s r s', nc s = .ok (r, s') → SameRange s s')
    (hwn1 : ∀ b w r b' w', wn1 b w = .ok (r, b', w') → SameRange b b')
    (hwn2 : ∀ b w r b' w', wn2 b w = .ok (r, b', w') → SameRange b b')
    (hbf : ∀ s s', bf s = .ok s' → SameRange s s')
    (s : St) (op : Op) (hop : ∀ k n, op ≠ .reset k n) :
    SameRange s.base (stepG nr nc wn1 wn2 bf rp s op).1.base := by
  unfold stepG
  cases op with
  | nextRec =>
    simp only []
    cases hs : s.wrap with
    | none =>
      simp only []
      cases hx : nr s.base with
      | error e => exact SameRange.refl _
      | ok v => obtain ⟨r, b⟩ := v; exact hnr _ _ _ hx
    | some w =>
      simp only []
      cases hx : wn1 s.base w with
      | error e => exact SameRange.refl _
      | ok v => obtain ⟨r, b, w'⟩ := v; exact hwn1 _ _ _ _ _ hx
  | nextChunk =>
    simp only []
    cases hs : s.wrap with
    | none =>
      simp only []
      cases hx : nc s.base with
      | error e => exact SameRange.refl _
      | ok v => obtain ⟨r, b⟩ := v; exact hnc _ _ _ hx
    | some w =>
      simp only []
      cases hx : wn2 s.base w with
      | error e => exact SameRange.refl _
      | ok v => obtain ⟨r, b, w'⟩ := v; exact hwn2 _ _ _ _ _ hx
  | hint m =>
    simp only []
    cases hs : s.wrap with
    | none => exact ⟨rfl, rfl, rfl⟩
    | some w => exact SameRange.refl _
  | beforeFirst =>
    simp only []
    cases hx : bf s.base with
    | error e => exact SameRange.refl _
    | ok b => exact hbf _ _ hx
  | reset k n => exact absurd rfl (hop k n)

theorem read_range (F : Fmt) (s : Base) (n : Nat) (b : Bytes) (s' : Base) (h : read F s n = .ok (b, s')) :
    SameRange s s' := by
  rw [read_eq_gen] at h
  exact readG_range _ _ F s n b s' h

theorem readChunk_range (F : Fmt) (s : Base) (n : Nat) (r : Option Bytes) (s' : Base)
    (h : readChunk F s n = .ok (r, s')) : SameRange s s' := by
  rw [readChunk_eq_gen] at h
  exact readChunkG_range _ _ F (read_range F) s n r s' h

theorem loadLoop_range (F : Fmt) (fuel : Nat) (s : Base) (dw : Nat) (r : Option Bytes) (s' : Base) (dw' : Nat)
    (h : loadLoop F fuel s dw = .ok (r, s', dw')) : SameRange s s' := by
  rw [loadLoop_eq_gen'] at h
  exact loadLoopG_range _ _ _ (readChunk_range F) fuel s dw r s' dw' h

theorem load_range (F : Fmt) (s : Base) (c : Chunk) (ok : Bool) (s' : Base) (c' : Chunk)
    (h : load F s c = .ok (ok, s', c')) : SameRange s s' := by
  rw [load_eq_gen'] at h
  exact loadG_range _ _ _ (loadLoop_range F) s c ok s' c' h

theorem nextLoop_range (F : Fmt) (ext : Chunk → Except Err (Option (Bytes × Chunk))) (fuel : Nat)
    (s : Base) (r : Option Bytes) (s' : Base) (h : nextLoop F ext fuel s = .ok (r, s')) :
    SameRange s s' := by
  rw [CleanAux.nextLoop_eq_gen] at h
  exact nextLoopG_range _ ext (load_range F) fuel s r s' h

theorem wrapProduce_range (F : Fmt) (b : Base) (w : Wrap) (ok : Bool) (b' : Base) (w' : Wrap)
    (h : wrapProduce F b w = .ok (ok, b', w')) : SameRange b b' := by
  rw [wrapProduce_eq_gen] at h
  exact wrapProduceG_range _ (load_range F) b w ok b' w' h

theorem wrapLoop_range (F : Fmt) (ext : Chunk → Except Err (Option (Bytes × Chunk))) (fuel : Nat)
    (b : Base) (w : Wrap) (c : Chunk) (r : Option Bytes) (b' : Base) (w' : Wrap)
    (h : wrapLoop F ext fuel b w c = .ok (r, b', w')) : SameRange b b' := by
  rw [wrapLoop_eq_gen] at h
  exact wrapLoopG_range _ ext (wrapProduce_range F) fuel b w c r b' w' h

theorem wrapNext_range (F : Fmt) (ext : Chunk → Except Err (Option (Bytes × Chunk)))
    (b : Base) (w : Wrap) (r : Option Bytes) (b' : Base) (w' : Wrap)
    (h : wrapNext F ext b w = .ok (r, b', w')) : SameRange b b' := by
  rw [wrapNext_eq_gen] at h
  exact wrapNextG_range _ _ (wrapProduce_range F) (wrapLoop_range F ext) b w r b' w' h

attribute [local irreducible] nextLoop in
theorem nextRecord_range (F : Fmt) (s : Base) (r : Option Bytes) (s' : Base)
    (h : nextRecord F s = .ok (r, s')) : SameRange s s' := by
  unfold nextRecord at h
  exact nextLoop_range F _ 3 s r s' h

attribute [local irreducible] nextLoop in
theorem nextChunk_range (F : Fmt) (s : Base) (r : Option Bytes) (s' : Base)
    (h : nextChunk F s = .ok (r, s')) : SameRange s s' := by
  unfold nextChunk at h
  exact nextLoop_range F _ 3 s r s' h

end ResetAux
open ResetAux

/-- no public operation other than `ResetPartition` changes the file list or the byte range of the object,
whatever its outcome, on any state, bare or wrapped -/
theorem range_stable (F : Fmt) (s : St) (op : Op) (hop : ∀ k n, op ≠ .reset k n) :
    SameRange s.base (step F s op).1.base := by
  rw [step_eq_gen]
  exact stepG_range _ _ _ _ _ _ (nextRecord_range F) (nextChunk_range F) (wrapNext_range F _)
    (wrapNext_range F _) (fun s s' h => by
      obtain ⟨h1, h2, h3, _⟩ := beforeFirst_frame s s' h
      exact ⟨h1, h2, h3⟩) s op hop

/-- … hence no history without `ResetPartition` does -/
theorem range_stable_hist (F : Fmt) (ops : List Op) :
    ∀ (s : St), (∀ op ∈ ops, ∀ k n, op ≠ .reset k n) →
      SameRange s.base (ops.foldl (fun s op => (step F s op).1) s).base := by
  induction ops with
  | nil => intro s _; exact SameRange.refl _
  | cons op ops ih =>
    intro s h
    rw [List.foldl_cons]
    exact SameRange.trans (range_stable F s op (h op (List.mem_cons_self ..)))
      (ih _ (fun o ho => h o (List.mem_cons_of_mem _ ho)))

namespace ResetAux
open CleanAux SnapAux CoverAux

/-! ### 7. an empty part with nothing buffered is exhausted at once -/

theorem readChunkG_empty (rd : Base → Nat → Except Err (Bytes × Base)) (rsz : Nat → Nat → Nat) (F : Fmt)
    (hrd : ∀ s n, s.offEnd ≤ s.offBegin → rd s n = .ok ([], s))
    (s : Base) (m : Nat) (he : s.offEnd ≤ s.offBegin) (ho : s.overflow = []) :
    readChunkG rd rsz F s m = if rcTooSmall m 0 then .ok (some [], s) else .ok (none, s) := by
  obtain ⟨files, ob, oe, oc, fp, fpos, chunk, ov, bw⟩ := s
  simp only [] at ho he
  subst ho
  unfold readChunkG
  simp only [List.length_nil]
  by_cases ht : rcTooSmall m 0 = true
  · rw [if_pos ht, if_pos ht]
  · rw [if_neg ht, if_neg ht]
    rw [hrd _ _ he]
    simp only [List.append_nil, List.length_nil, if_true]

theorem loadLoopG_empty (rc : Base → Nat → Except Err (Option Bytes × Base)) (sz grow : Nat → Nat)
    (s : Base)
    (hrc : ∀ m, rc s m = if rcTooSmall m 0 then .ok (some [], s) else .ok (none, s))
    (hsz : ∀ dw, rcTooSmall (sz dw) 0 = true → rcTooSmall (sz (grow dw)) 0 = false)
    (fuel dw : Nat) : ∃ dw', loadLoopG rc sz grow (fuel + 2) s dw = .ok (none, s, dw') := by
  rw [loadLoopG_succ, hrc]
  by_cases h : rcTooSmall (sz dw) 0 = true
  · rw [if_pos h]
    simp only [loadStepG]
    rw [loadLoopG_succ, hrc, hsz dw h]
    simp only [loadStepG, Bool.false_eq_true, if_false]
    exact ⟨_, rfl⟩
  · rw [if_neg h]
    simp only [loadStepG]
    exact ⟨_, rfl⟩

theorem loadSize_grow (dw : Nat) (h : rcTooSmall (loadSize dw) 0 = true) :
    rcTooSmall (loadSize (loadGrow dw)) 0 = false := by
  simp only [rcTooSmall, decide_eq_true_eq, decide_eq_false_iff_not] at h ⊢
  unfold loadSize loadGrow u64 sub64 at *
  omega


/-- an exhausted empty part: nothing buffered, nothing to read -/
def Exhausted (s : Base) : Prop := s.offEnd ≤ s.offBegin ∧ s.overflow = []

theorem loadG_empty (L : Nat → Base → Nat → Except Err (Option Bytes × Base × Nat)) (fu : Base → Nat)
    (rs : Nat → Nat) (s : Base) (c : Chunk) (dw' : Nat)
    (hL : L (fu s) s (rs s.bufWords) = .ok (none, s, dw')) :
    loadG L fu rs s c = .ok (false, s, { c with dataWords := dw' }) := by
  unfold loadG
  rw [hL]

theorem read_empty (F : Fmt) (s : Base) (n : Nat) (he : s.offEnd ≤ s.offBegin) : read F s n = .ok ([], s) := by
  rw [read_eq_gen]; exact readG_empty _ _ F s n he

theorem readChunk_empty (F : Fmt) (s : Base) (m : Nat) (h : Exhausted s) :
    readChunk F s m = if rcTooSmall m 0 then .ok (some [], s) else .ok (none, s) := by
  rw [readChunk_eq_gen]
  exact readChunkG_empty _ _ F (read_empty F) s m h.1 h.2

theorem load_empty (F : Fmt) (s : Base) (c : Chunk) (h : Exhausted s) :
    ∃ dw', load F s c = .ok (false, s, { c with dataWords := dw' }) := by
  have e : loadFuel s = (s.overflow.length + (s.offEnd - s.offCurr) + s.files.length + 2) + 2 := rfl
  obtain ⟨dw', hL⟩ := loadLoopG_empty (readChunk F) loadSize loadGrow s (fun m => readChunk_empty F s m h)
    loadSize_grow (s.overflow.length + (s.offEnd - s.offCurr) + s.files.length + 2) (loadResize s.bufWords)
  refine ⟨dw', ?_⟩
  rw [load_eq_gen']
  apply loadG_empty
  rw [loadLoop_eq_gen', e]
  exact hL

theorem nextLoopG_empty (ld : Base → Chunk → Except Err (Bool × Base × Chunk))
    (ext : Chunk → Except Err (Option (Bytes × Chunk))) (s : Base) (c' : Chunk) (fuel : Nat)
    (hext : ext s.chunk = .ok none) (hld : ld s s.chunk = .ok (false, s, c')) :
    nextLoopG ld ext (fuel + 1) s = .ok (none, { s with chunk := c' }) := by
  rw [nextLoopG_succ, hext]
  simp only []
  rw [hld]

theorem nextLoop_empty (F : Fmt) (ext : Chunk → Except Err (Option (Bytes × Chunk))) (s : Base) (fuel : Nat)
    (hext : ext s.chunk = .ok none) (h : Exhausted s) :
    ∃ dw', nextLoop F ext (fuel + 1) s = .ok (none, { s with chunk := { s.chunk with dataWords := dw' } }) := by
  obtain ⟨dw', hl⟩ := load_empty F s s.chunk h
  refine ⟨dw', ?_⟩
  rw [CleanAux.nextLoop_eq_gen]
  exact nextLoopG_empty _ ext s _ fuel hext hl

theorem wrapProduceG_empty (ld : Base → Chunk → Except Err (Bool × Base × Chunk)) (b : Base) (w : Wrap)
    (hld : ∀ c, ∃ dw', ld b c = .ok (false, b, { c with dataWords := dw' })) :
    ∃ w', wrapProduceG ld b w = .ok (false, b, w') := by
  obtain ⟨dw', hl⟩ := hld (wpChunk w)
  unfold wpChunk at hl
  unfold wrapProduceG
  simp only []
  rw [hl]
  exact ⟨_, rfl⟩

theorem wrapProduce_empty (F : Fmt) (b : Base) (w : Wrap) (h : Exhausted b) :
    ∃ w', wrapProduce F b w = .ok (false, b, w') := by
  rw [wrapProduce_eq_gen]
  exact wrapProduceG_empty _ b w (fun c => load_empty F b c h)

theorem wrapLoopG_empty (wp : Base → Wrap → Except Err (Bool × Base × Wrap))
    (ext : Chunk → Except Err (Option (Bytes × Chunk))) (b : Base) (w : Wrap)
    (c : Chunk) (fuel : Nat) (hext : ext c = .ok none) (hwp : ∀ w, ∃ w', wp b w = .ok (false, b, w')) :
    ∃ w', wrapLoopG wp ext (fuel + 1) b w c = .ok (none, b, w') := by
  rw [wrapLoopG_succ, hext]
  simp only []
  obtain ⟨w', hp⟩ := hwp { w with chunk := none }
  rw [hp]
  exact ⟨_, rfl⟩

theorem wrapNextG_empty (wp : Base → Wrap → Except Err (Bool × Base × Wrap))
    (wl : Nat → Base → Wrap → Chunk → Except Err (Option Bytes × Base × Wrap)) (b : Base) (w : Wrap)
    (hwp : ∀ w, ∃ w', wp b w = .ok (false, b, w'))
    (hwl : ∀ c, w.chunk = some c → ∃ w', wl 3 b w c = .ok (none, b, w')) :
    ∃ w', wrapNextG wp wl b w = .ok (none, b, w') := by
  rw [wrapNextG_unfold]
  cases hc : w.chunk with
  | some c =>
    simp only []
    exact hwl c hc
  | none =>
    simp only []
    obtain ⟨w', hp⟩ := hwp w
    rw [hp]
    exact ⟨_, rfl⟩

theorem wrapNext_empty (F : Fmt) (ext : Chunk → Except Err (Option (Bytes × Chunk))) (b : Base) (w : Wrap)
    (hext : ∀ c, w.chunk = some c → ext c = .ok none) (h : Exhausted b) :
    ∃ w', wrapNext F ext b w = .ok (none, b, w') := by
  rw [wrapNext_eq_gen]
  refine wrapNextG_empty _ _ b w (fun w => wrapProduce_empty F b w h) (fun c hc => ?_)
  rw [wrapLoop_eq_gen]
  exact wrapLoopG_empty _ ext b w c 2 (hext c hc) (fun w => wrapProduce_empty F b w h)

theorem stepG_eof (nr nc : Base → Except Err (Option Bytes × Base))
    (wn1 wn2 : Base → Wrap → Except Err (Option Bytes × Base × Wrap))
    (bf : Base → Except Err Base) (rp : Base → Nat → Nat → Except Err Base) (s : St) (rec : Bool)
    (hnr : ∃ b, nr s.base = .ok (none, b)) (hnc : ∃ b, nc s.base = .ok (none, b))
    (hwn1 : ∀ w, s.wrap = some w → ∃ b w', wn1 s.base w = .ok (none, b, w'))
    (hwn2 : ∀ w, s.wrap = some w → ∃ b w', wn2 s.base w = .ok (none, b, w')) :
    ∃ s', stepG nr nc wn1 wn2 bf rp s (if rec then .nextRec else .nextChunk) = (s', .eof) := by
  unfold stepG
  cases rec with
  | true =>
    simp only [if_true]
    cases hs : s.wrap with
    | none =>
      simp only []
      obtain ⟨b, hb⟩ := hnr
      rw [hb]
      exact ⟨_, rfl⟩
    | some w =>
      simp only []
      obtain ⟨b, w', hb⟩ := hwn1 w hs
      rw [hb]
      exact ⟨_, rfl⟩
  | false =>
    simp only [Bool.false_eq_true, if_false]
    cases hs : s.wrap with
    | none =>
      simp only []
      obtain ⟨b, hb⟩ := hnc
      rw [hb]
      exact ⟨_, rfl⟩
    | some w =>
      simp only []
      obtain ⟨b, w', hb⟩ := hwn2 w hs
      rw [hb]
      exact ⟨_, rfl⟩

theorem drainGoG_eof (st : St → Op → St × Out) (pick : Nat → Bool) (fuel i : Nat) (s : St) (acc : List Bytes)
    (h : ∃ s', st s (if pick i then .nextRec else .nextChunk) = (s', .eof)) :
    (drainGoG st pick (fuel + 1) i s acc).2 = .ok acc := by
  obtain ⟨s', h⟩ := h
  rw [drainGoG_succ, h]

/-- an object on an empty part with nothing buffered -/
def ExhaustedSt (s : St) : Prop :=
  Exhausted s.base ∧ s.base.chunk.rest = [] ∧ ∀ w c, s.wrap = some w → w.chunk = some c → c.rest = []

attribute [local irreducible] nextLoop in
theorem nextRecord_empty (F : Fmt) (hF : ExtractNoneIff F) (s : Base) (h : Exhausted s) (hc : s.chunk.rest = []) :
    ∃ b, nextRecord F s = .ok (none, b) := by
  unfold nextRecord
  obtain ⟨dw', h'⟩ := nextLoop_empty F F.extractNext s 2 ((hF _).2 hc) h
  exact ⟨_, h'⟩

attribute [local irreducible] nextLoop in
theorem nextChunk_empty (F : Fmt) (s : Base) (h : Exhausted s) (hc : s.chunk.rest = []) :
    ∃ b, nextChunk F s = .ok (none, b) := by
  unfold nextChunk
  obtain ⟨dw', h'⟩ := nextLoop_empty F (fun c => .ok (extractChunk c)) s 2
    ((extractChunk_none_iff _).2 hc) h
  exact ⟨_, h'⟩

theorem step_eof (F : Fmt) (hF : ExtractNoneIff F) (s : St) (h : ExhaustedSt s) (rec : Bool) :
    ∃ s', step F s (if rec then .nextRec else .nextChunk) = (s', .eof) := by
  obtain ⟨h1, h2, h3⟩ := h
  rw [step_eq_gen]
  refine stepG_eof _ _ _ _ _ _ s rec (nextRecord_empty F hF s.base h1 h2) (nextChunk_empty F s.base h1 h2)
    (fun w hw => ?_) (fun w hw => ?_)
  · obtain ⟨w', hx⟩ := wrapNext_empty F F.extractNext s.base w (fun c hc => (hF _).2 (h3 w c hw hc)) h1
    exact ⟨_, w', hx⟩
  · obtain ⟨w', hx⟩ := wrapNext_empty F (fun c => .ok (extractChunk c)) s.base w
      (fun c hc => (extractChunk_none_iff _).2 (h3 w c hw hc)) h1
    exact ⟨_, w', hx⟩

end ResetAux
open ResetAux CleanAux

attribute [local irreducible] drainGo step in
/-- consuming an object on an empty part with nothing buffered ends at once, normally, with no blob -/
theorem drain_exhausted (F : Fmt) (hF : ExtractNoneIff F) (s : St) (h : ExhaustedSt s) (pick : Nat → Bool) :
    (drain F pick s).2 = .ok [] := by
  have hpos : drainFuel s ≠ 0 := by unfold drainFuel; omega
  obtain ⟨f, hf⟩ := Nat.exists_eq_succ_of_ne_zero hpos
  unfold drain
  rw [hf, CleanAux.drainGo_eq_gen]
  exact drainGoG_eof _ pick f 0 s [] (step_eof F hF s h (pick 0))

/-- after either call onto an empty part nothing at all is delivered any more -/
theorem empty_part_exhausted (F : Fmt) (hF : ExtractNoneIff F) (s s' : St) (op : Op)
    (hop : op = .beforeFirst ∨ ∃ k n, op = .reset k n) (h : step F s op = (s', .done))
    (he : s'.base.offEnd ≤ s'.base.offBegin) (pick : Nat → Bool) : (drain F pick s').2 = .ok [] := by
  obtain ⟨h1, h2, h3⟩ := nothing_stale F s s' op hop h
  refine drain_exhausted F hF s' ⟨⟨he, h2⟩, h1, fun w c hw hc => ?_⟩ pick
  rw [h3 w hw] at hc
  cases hc

theorem wrapEquiv_clear_rest (x y : Option Wrap) (h : WrapEquiv (clearWrap x) y) :
    ∀ w c, y = some w → w.chunk = some c → c.rest = [] := by
  intro w c hy hc
  subst hy
  cases x with
  | none => exact False.elim h
  | some v =>
    obtain ⟨wc, wb⟩ := w
    simp only [] at hc
    subst hc
    exact h.2

/-- MAIN (beforeFirst): exact equality of the outcomes, empty parts included -/
theorem beforeFirst_eq_clean_strict (F : Fmt) (hF : ExtractNoneIff F) (s s' : St)
    (h : step F s .beforeFirst = (s', .done))
    (hlt : s.base.offBegin < s.base.offEnd → s.base.offBegin < 2^64)
    (t : St) (ht : Clean t.base) (hfiles : t.base.files = s.base.files)
    (hb : t.base.offBegin = s.base.offBegin) (he : t.base.offEnd = s.base.offEnd)
    (hw : t.base.bufWords = s.base.bufWords) (hwrap : WrapEquiv s'.wrap t.wrap)
    (pick : Nat → Bool) : (drain F pick s').2 = (drain F pick t).2 := by
  by_cases hem : s.base.offEnd ≤ s.base.offBegin
  · obtain ⟨b, hbf, hs'⟩ := step_beforeFirst_inv F s s' h
    obtain ⟨_, f2, f3, _⟩ := beforeFirst_frame _ _ hbf
    have e1 : s'.base.offEnd ≤ s'.base.offBegin := by rw [hs']; show b.offEnd ≤ b.offBegin; omega
    rw [empty_part_exhausted F hF s s' .beforeFirst (Or.inl rfl) h e1 pick]
    have ht' : ExhaustedSt t :=
      ⟨⟨by omega, ht.2.1⟩, ht.1, wrapEquiv_clear_rest s.wrap t.wrap (by rw [hs'] at hwrap; exact hwrap)⟩
    rw [drain_exhausted F hF t ht' pick]
  · exact beforeFirst_eq_clean F hF s s' h hlt t ht hfiles hb he hw hwrap (fun h => absurd h hem) pick

end DmlcModel.Split
