/-
Assembly layer of property C03 (text `InputSplit`: every non-empty line exactly once): the freshly
constructed bare text split of part `k` of `n` (`mkSt`) is a clean state whose pending stream is the byte
range between the boundaries `bndT files n k` and `bndT files n (k+1)` (SnapLemmas / SnapText), hence
(DrainLemmas) a full drain delivers blobs whose canonical lines are the lines of that range.  The property
theorems in Props/C03.lean are one-line consequences.  Core Lean only.
Auxiliary lemmas live in the namespace `DmlcModel.Split.CoverAux`.
-/
import DmlcModel.Split.TextLemmas
import DmlcModel.Split.ReadLemmas
import DmlcModel.Split.StreamLemmas
import DmlcModel.Split.ChunkLemmas
import DmlcModel.Split.SnapLemmas
import DmlcModel.Split.DrainLemmas
import DmlcModel.Split.SnapText

namespace DmlcModel.Split
open DmlcModel DmlcModel.Gen.Split

set_option linter.unusedVariables false

namespace CoverAux

/-! ### 1. construction -/

theorem filter_nonempty (files : List Bytes) (hne : ∀ f ∈ files, f ≠ []) :
    files.filter (fun f => !f.isEmpty) = files := by
  rw [List.filter_eq_self]
  intro f hf
  have := hne f hf
  cases f with
  | nil => exact absurd rfl this
  | cons a t => rfl

theorem any_initAligned_text (files : List Bytes) :
    files.any (fun f => !initAligned f.length Fmt.text.align) = false := by
  rw [List.any_eq_false]
  intro f _
  simp [initAligned, Fmt.text, lineAlign, Nat.mod_one]

/-- the blank object `Init` hands to `ResetPartition` -/
def blank (files : List Bytes) (dw : Nat) : Base :=
  { files := files, chunk := { dataWords := chunkInitWords dw }, bufWords := dw }

/-- nothing is buffered in the blank object: the early-return clears of `ResetPartition` / `BeforeFirst`
are no-ops on it (so C03 / C04 do not depend on fix C05-1) -/
theorem clearsOk_blank (files : List Bytes) (dw : Nat) : ClearsOk (blank files dw) := Or.inr ⟨rfl, rfl⟩

/-- `mkBase` with its matcher on the `ResetPartition` result as a function (never evaluated) -/
def mkBaseK (w : Nat) (r : Except Err Base) : Except Err Base :=
  match r with
  | .error e => .error e
  | .ok b => .ok { b with bufWords := w }

def mkStK (dw : Nat) (r : Except Err Base) : Except Err St :=
  match r with
  | .error e => .error e
  | .ok b => .ok { base := b, wrap := if false = true then some { bufWords := dw } else none }

theorem mkBase_text_eq (files : List Bytes) (k n w dw : Nat) (hfiles : files ≠ [])
    (hne : ∀ f ∈ files, f ≠ []) :
    mkBase Fmt.text files k n w dw = mkBaseK w (resetPartition Fmt.text (blank files dw) k n) := by
  unfold mkBase
  simp only []
  rw [filter_nonempty files hne, any_initAligned_text]
  have h1 : files.isEmpty = false := by
    cases files with
    | nil => exact absurd rfl hfiles
    | cons a t => rfl
  rw [h1]
  rfl

theorem mkSt_text_eq (files : List Bytes) (k n w dw : Nat) (hfiles : files ≠ [])
    (hne : ∀ f ∈ files, f ≠ []) :
    mkSt Fmt.text files k n w false dw
      = mkStK dw (mkBaseK w (resetPartition Fmt.text (blank files dw) k n)) := by
  unfold mkSt
  rw [mkBase_text_eq files k n w dw hfiles hne]
  rfl

/-- the freshly constructed bare text split of part `k`: it exists, is clean and well formed and
holds the two boundaries (or an empty range, and then the boundaries coincide) -/
theorem mkSt_text_ok (hS : SeekOk Fmt.text) (files : List Bytes) (k n w dw : Nat) (hfiles : files ≠ [])
    (hne : ∀ f ∈ files, f ≠ []) (ht : totalSize files < 2^62) (hk : k < n) (hn : n < 2^32)
    (b e : Nat) (hb : bnd Fmt.text files n k = .ok b) (he : bnd Fmt.text files n (k + 1) = .ok e) :
    ∃ s, mkSt Fmt.text files k n w false dw = .ok s ∧ s.wrap = none ∧ Clean s.base ∧ RInv s.base ∧
      s.base.files = files ∧ s.base.bufWords = w ∧
      ((s.base.offBegin = b ∧ s.base.offEnd = e) ∨ (s.base.offEnd ≤ s.base.offBegin ∧ b = e)) := by
  have ha : Fmt.text.align = 1 ∨ Fmt.text.align = 4 := Or.inl rfl
  obtain ⟨s', hs'⟩ := resetPartition_ok Fmt.text ha hS (blank files dw) k n hne hfiles ht hk hn b e hb he
  obtain ⟨_, hC, hR, hF, _, _⟩ := resetPartition_spec Fmt.text ha hS (blank files dw) s' k n hne
    (clearsOk_blank files dw) ht hk hn hs'
  have hrg := resetPartition_range Fmt.text ha hS (blank files dw) s' k n hne
    (clearsOk_blank files dw) ht hk hn hs' b e hb he
  refine ⟨{ base := { s' with bufWords := w }, wrap := none }, ?_, rfl, hC, hR, hF, rfl, hrg⟩
  rw [mkSt_text_eq files k n w dw hfiles hne, hs']
  rfl

/-! ### 2. the pending stream of the fresh state -/

theorem nulFree_take (s : Bytes) (n : Nat) (h : NulFree s) : NulFree (s.take n) :=
  fun b hb => h b (List.mem_of_mem_take hb)

theorem nulFree_drop (s : Bytes) (n : Nat) (h : NulFree s) : NulFree (s.drop n) :=
  fun b hb => h b (List.mem_of_mem_drop hb)

theorem nulFree_pendFrom : ∀ (later : List Bytes) (cur : Bytes) (budget : Nat),
    (∀ f ∈ later, NulFree f) → NulFree cur → NulFree (pendFrom true later cur budget)
  | [], cur, budget, _, hc => by
    unfold pendFrom; exact nulFree_take cur budget hc
  | f :: fs, cur, budget, hl, hc => by
    unfold pendFrom
    by_cases hbd : budget ≤ cur.length
    · rw [if_pos hbd]; exact nulFree_take cur budget hc
    · rw [if_neg hbd]
      simp only [if_true]
      rw [nulFree_append, nulFree_append]
      refine ⟨⟨hc, ?_⟩, nulFree_pendFrom fs f _ (fun g hg => hl g (List.mem_cons_of_mem _ hg))
        (hl f (List.mem_cons_self ..))⟩
      intro x hx
      simp only [List.mem_singleton] at hx
      subst hx; decide

theorem nulFree_pend (files : List Bytes) (hn : ∀ f ∈ files, NulFree f) (fp pos budget : Nat) :
    NulFree (pend true files fp pos budget) := by
  unfold pend
  cases hd : files.drop fp with
  | nil => exact nulFree_nil
  | cons f later =>
    simp only []
    have hsub : ∀ g ∈ f :: later, g ∈ files := fun g hg => List.mem_of_mem_drop (hd ▸ hg)
    exact nulFree_pendFrom later _ budget (fun g hg => hn g (hsub g (List.mem_cons_of_mem _ hg)))
      (nulFree_drop f pos (hn f (hsub f (List.mem_cons_self ..))))

theorem nulFree_pending (s : Base) (hn : ∀ f ∈ s.files, NulFree f) : NulFree (pending Fmt.text s) := by
  unfold pending
  cases s.fpos with
  | none => exact nulFree_nil
  | some pos =>
    simp only []
    by_cases h : s.offEnd ≤ s.offBegin
    · rw [if_pos h]; exact nulFree_nil
    · rw [if_neg h]; exact nulFree_pend s.files hn _ _ _

theorem nulFree_rangeStream (files : List Bytes) (hn : ∀ f ∈ files, NulFree f) (b e : Nat) :
    NulFree (rangeStream true files b e) := by
  unfold rangeStream; exact nulFree_pend files hn _ _ _

/-- a clean state has the stream of its byte range pending -/
theorem pending_of_clean (s : Base) (hc : Clean s) (hne : ∀ f ∈ s.files, f ≠ []) (b e : Nat)
    (hr : (s.offBegin = b ∧ s.offEnd = e) ∨ (s.offEnd ≤ s.offBegin ∧ b = e))
    (hbt : b ≤ totalSize s.files) :
    pending Fmt.text s = rangeStream true s.files b e := by
  obtain ⟨_, _, hc3⟩ := hc
  have hempty : s.offEnd ≤ s.offBegin → pending Fmt.text s = [] := by
    intro h
    unfold pending
    cases s.fpos with
    | none => rfl
    | some pos => simp only []; rw [if_pos h]
  rcases hr with ⟨h1, h2⟩ | ⟨h1, h2⟩
  · rcases hc3 with h | ⟨c1, c2, c3⟩
    · rw [hempty h]
      subst h1; subst h2
      unfold rangeStream
      rw [show s.offEnd - s.offBegin = 0 by omega, pend_zero_budget]
    · by_cases h : s.offEnd ≤ s.offBegin
      · rw [hempty h]
        subst h1; subst h2
        unfold rangeStream
        rw [show s.offEnd - s.offBegin = 0 by omega, pend_zero_budget]
      · unfold pending
        rw [c3]
        simp only []
        rw [if_neg h, c1, c2]
        subst h1; subst h2
        rfl
  · rw [hempty h1]
    subst h2
    exact (rangeStream_self true s.files hne b hbt).symm


/-! ### 3. a full drain of the fresh state -/

theorem partBlobs_of_mkSt (F : Fmt) (files : List Bytes) (k n w dw : Nat) (pick : Nat → Bool) (s s' : St)
    (r : Except Err (List Bytes)) (hs : mkSt F files k n w false dw = .ok s)
    (hd : drain F pick s = (s', r)) : partBlobs F files k n w dw pick = r := by
  unfold partBlobs
  rw [hs]
  simp only []
  rw [hd]

theorem flatMap_congr_mem {α β} (l : List α) (f g : α → List β) (h : ∀ x ∈ l, f x = g x) :
    l.flatMap f = l.flatMap g := by
  induction l with
  | nil => rfl
  | cons a t ih =>
    rw [List.flatMap_cons, List.flatMap_cons, h a (List.mem_cons_self ..),
      ih (fun x hx => h x (List.mem_cons_of_mem _ hx))]

end CoverAux
open CoverAux SnapAux

/-- the fresh bare text split of part `k` satisfies the drain invariant, and everything it still has to
deliver is the stream of the byte range between its two boundaries -/
theorem mkSt_text_inv (files : List Bytes) (k n w dw : Nat) (hfiles : files ≠ [])
    (hne : ∀ f ∈ files, f ≠ [] ∧ NulFree f) (ht : totalSize files < 2^55) (hk : k < n) (hn : n < 2^32)
    (hw : w < 2^56) :
    ∃ s, mkSt Fmt.text files k n w false dw = .ok s ∧ s.wrap = none ∧ TInv s.base ∧
      tailT s.base = rangeStream true files (bndT files n k) (bndT files n (k + 1)) := by
  have hne1 : ∀ f ∈ files, f ≠ [] := fun f hf => (hne f hf).1
  have hne2 : ∀ f ∈ files, NulFree f := fun f hf => (hne f hf).2
  obtain ⟨s, hs, hwr, hC, hR, hF, hB, hrg⟩ :=
    mkSt_text_ok seekOk_text files k n w dw hfiles hne1 (by omega) hk hn _ _
      (bnd_text_eq files n k) (bnd_text_eq files n (k + 1))
  have hp : pending Fmt.text s.base = rangeStream true files (bndT files n k) (bndT files n (k + 1)) := by
    have := pending_of_clean s.base hC (by rw [hF]; exact hne1) _ _ hrg
      (by rw [hF]; exact bndT_le files n k hne1)
    rw [this, hF]
  have hT : TInv s.base :=
    TInv_of_clean s.base hR hC.1 hC.2.1 (nulFree_pending s.base (by rw [hF]; exact hne2))
      (by rw [hF]; exact ht) (by rw [hB]; exact hw)
  refine ⟨s, hs, hwr, hT, ?_⟩
  unfold tailT
  rw [hC.1, hC.2.1, hp]
  rfl

/-- C03 for one part: part `k` of `n` ends normally; the canonical lines of its blobs are the lines of the
byte range between its two boundaries; no blob is empty; every `NextChunk` blob ends at an end of line -/
theorem part_text (files : List Bytes) (k n w dw : Nat) (hfiles : files ≠ [])
    (hne : ∀ f ∈ files, f ≠ [] ∧ NulFree f) (ht : totalSize files < 2^55) (hk : k < n) (hn : n < 2^32)
    (hw : w < 2^56) (pick : Nat → Bool) :
    ∃ bs, partBlobs Fmt.text files k n w dw pick = .ok bs ∧
      bs.flatMap canon = lines (rangeStream true files (bndT files n k) (bndT files n (k + 1))) ∧
      (∀ i b, bs[i]? = some b → b ≠ [] ∧ (pick i = false → EndsEol b)) := by
  obtain ⟨s, hs, hwr, hT, htl⟩ := mkSt_text_inv files k n w dw hfiles hne ht hk hn hw
  obtain ⟨bs, s', hd, h1, h2, _⟩ := drain_text_correct s hwr hT pick
  refine ⟨bs, partBlobs_of_mkSt _ _ _ _ _ _ _ s s' _ hs hd, ?_, h2⟩
  rw [h1, htl]

/-- the canonical lines of part `k` -/
theorem linesOf_part_text (files : List Bytes) (k n w dw : Nat) (hfiles : files ≠ [])
    (hne : ∀ f ∈ files, f ≠ [] ∧ NulFree f) (ht : totalSize files < 2^55) (hk : k < n) (hn : n < 2^32)
    (hw : w < 2^56) (pick : Nat → Bool) :
    linesOf (partBlobs Fmt.text files k n w dw pick)
      = lines (rangeStream true files (bndT files n k) (bndT files n (k + 1))) := by
  obtain ⟨bs, h1, h2, _⟩ := part_text files k n w dw hfiles hne ht hk hn hw pick
  rw [h1]
  exact h2

/-- C03: the canonical lines of the `n` parts, concatenated, are the non-empty lines of the files -/
theorem parts_cover_text (files : List Bytes) (n w dw : Nat) (hfiles : files ≠ [])
    (hne : ∀ f ∈ files, f ≠ [] ∧ NulFree f) (ht : totalSize files < 2^55) (hn0 : 0 < n) (hn : n < 2^32)
    (hw : w < 2^56) (pick : Nat → Nat → Bool) :
    (List.range n).flatMap (fun k => linesOf (partBlobs Fmt.text files k n w dw (pick k)))
      = files.flatMap lines := by
  rw [← lines_parts_telescope files (fun f hf => (hne f hf).1) n (by omega) hn0 hn]
  apply flatMap_congr_mem
  intro k hk
  exact linesOf_part_text files k n w dw hfiles hne ht (List.mem_range.1 hk) hn hw (pick k)

/-- `Chunk::Load` into any chunk ends without an abnormal outcome under the invariant -/
theorem load_text_total_any (s : Base) (c : Chunk) (hinv : TInv s) : ∃ r, load Fmt.text s c = .ok r := by
  obtain ⟨hR, _, _, hts, hbw, hah, _⟩ := hinv
  exact load_total Fmt.text rfl (readSpecB _) (readTotalB _) cutOk_text (readShortB _) textCut_text s c hR
    (by omega) hbw hah (pending_length_le Fmt.text s hR)

end DmlcModel.Split
