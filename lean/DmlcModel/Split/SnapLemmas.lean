/-
Partition-boundary layer of the Split model: what `resetPartition` (`InputSplitBase::ResetPartition`)
computes, in terms of `rawBnd`, `snap`, `bnd` (Spec.lean).  Core Lean only.
Auxiliary lemmas live in the namespace `DmlcModel.Split.SnapAux`.
-/
import DmlcModel.Split.Spec

namespace DmlcModel.Split
open DmlcModel DmlcModel.Gen.Split

set_option linter.unusedVariables false

/-- the format-specific facts about `SeekRecordBegin` the generic layer needs -/
def SeekOk (F : Fmt) : Prop :=
  (∀ (s : Bytes) (n c : Nat), F.seekRecordBegin s = .ok (n, c) → n ≤ s.length ∧ c ≤ s.length) ∧
  (∀ (s : Bytes) (i j n m c d : Nat), i ≤ j → j ≤ s.length → F.seekRecordBegin (s.drop i) = .ok (n, c) →
      F.seekRecordBegin (s.drop j) = .ok (m, d) → i + n ≤ j + m)

/-- the early returns of `ResetPartition` / `BeforeFirst` leave nothing buffered: either the source has the
clearing statements (fix C05-1: both constants are `true`, see FixLemmas.lean), or nothing is buffered in
`s` anyway (a freshly constructed object) -/
def ClearsOk (s : Base) : Prop :=
  (rpEmptyClears = true ∧ bfEmptyClears = true) ∨ (s.chunk.rest = [] ∧ s.overflow = [])

namespace SnapAux

theorem u64_of_lt {x : Nat} (h : x < 2^64) : u64 x = x := by unfold u64; omega
theorem u32_of_lt {x : Nat} (h : x < 2^32) : u32 x = x := by unfold u32; omega
theorem sub64_of_le {a b : Nat} (h : b ≤ a) (ha : a < 2^64) : sub64 a b = a - b := by
  unfold sub64; omega

theorem ceil_le (total n : Nat) (hn0 : 0 < n) : (total + n - 1) / n ≤ total := by
  have h1 : (total + n - 1) / n < total + 1 := by
    rw [Nat.div_lt_iff_lt_mul hn0]
    have h2 : total ≤ total * n := Nat.le_mul_of_pos_right total hn0
    have e : (total + 1) * n = total * n + n := by rw [Nat.add_mul, Nat.one_mul]
    rw [e]; omega
  omega

theorem le_ceil_mul (total n : Nat) (hn0 : 0 < n) : total ≤ (total + n - 1) / n * n := by
  have h1 := Nat.div_add_mod (total + n - 1) n
  have h2 := Nat.mod_lt (total + n - 1) hn0
  rw [Nat.mul_comm]
  generalize (total + n - 1) / n = q at *
  generalize (total + n - 1) % n = r at *
  omega

end SnapAux
open SnapAux

/-! ### 1. arithmetic -/

theorem rpStepRaw_spec (total n : Nat) (ht : total < 2^62) (hn0 : 0 < n) (hn : n < 2^32) :
    rpStepRaw total n = (total + n - 1) / n := by
  have e : sub64 (u64 (total + n)) 1 = total + n - 1 := by unfold sub64 u64; omega
  unfold rpStepRaw; rw [e]

theorem rpStepAlign_spec (st a : Nat) (hs : st < 2^62) (ha : a = 1 ∨ a = 4) :
    rpStepAlign st a = (st + a - 1) / a * a := by
  rcases ha with rfl | rfl <;> (unfold rpStepAlign sub64 u64; omega)

namespace SnapAux

theorem rpStepRaw_le (total n : Nat) (ht : total < 2^62) (hn0 : 0 < n) (hn : n < 2^32) :
    rpStepRaw total n ≤ total := by
  rw [rpStepRaw_spec total n ht hn0 hn]; exact ceil_le total n hn0

theorem step_le (total n a : Nat) (ht : total < 2^62) (hn0 : 0 < n) (hn : n < 2^32)
    (ha : a = 1 ∨ a = 4) :
    rpStepRaw total n ≤ rpStepAlign (rpStepRaw total n) a ∧
    rpStepAlign (rpStepRaw total n) a ≤ rpStepRaw total n + 3 := by
  have hq := rpStepRaw_le total n ht hn0 hn
  rw [rpStepAlign_spec _ a (by omega) ha]
  rcases ha with rfl | rfl <;> omega

theorem step_mul_lt (total n a j : Nat) (ht : total < 2^62) (hn0 : 0 < n) (hn : n < 2^32)
    (ha : a = 1 ∨ a = 4) (hj : j ≤ n) :
    rpStepAlign (rpStepRaw total n) a * j < 2^63 := by
  have ⟨_, h2⟩ := step_le total n a ht hn0 hn ha
  have h3 : rpStepAlign (rpStepRaw total n) a * j ≤ (rpStepRaw total n + 3) * n := Nat.mul_le_mul h2 hj
  have h4 : rpStepRaw total n * n ≤ total + n - 1 := by
    rw [rpStepRaw_spec total n ht hn0 hn]; exact Nat.div_mul_le_self _ _
  have e : (rpStepRaw total n + 3) * n = rpStepRaw total n * n + 3 * n := Nat.add_mul ..
  omega

theorem total_le_step_mul (total n a : Nat) (ht : total < 2^62) (hn0 : 0 < n) (hn : n < 2^32)
    (ha : a = 1 ∨ a = 4) :
    total ≤ rpStepAlign (rpStepRaw total n) a * n := by
  have ⟨h1, _⟩ := step_le total n a ht hn0 hn ha
  have h3 : rpStepRaw total n * n ≤ rpStepAlign (rpStepRaw total n) a * n := Nat.mul_le_mul_right n h1
  have h4 : total ≤ rpStepRaw total n * n := by
    rw [rpStepRaw_spec total n ht hn0 hn]; exact le_ceil_mul total n hn0
  omega

end SnapAux
open SnapAux

theorem rpBegin_eq_rawBnd (F : Fmt) (files : List Bytes) (k n : Nat) (ha : F.align = 1 ∨ F.align = 4)
    (ht : totalSize files < 2^62) (hk : k < n) (hn : n < 2^32) :
    rpBegin (rpStepAlign (rpStepRaw (totalSize files) n) F.align) k (totalSize files)
      = rawBnd F files n k := by
  have h := step_mul_lt (totalSize files) n F.align k ht (by omega) hn ha (by omega)
  unfold rpBegin rawBnd
  rw [u64_of_lt (by omega)]

theorem rpEnd_eq_rawBnd (F : Fmt) (files : List Bytes) (k n : Nat) (ha : F.align = 1 ∨ F.align = 4)
    (ht : totalSize files < 2^62) (hk : k < n) (hn : n < 2^32) :
    rpEnd (rpStepAlign (rpStepRaw (totalSize files) n) F.align) k (totalSize files)
      = rawBnd F files n (k + 1) := by
  have h := step_mul_lt (totalSize files) n F.align (k + 1) ht (by omega) hn ha (by omega)
  unfold rpEnd rawBnd
  rw [u32_of_lt (by omega), u64_of_lt (by omega)]

theorem rawBnd_zero (F : Fmt) (files : List Bytes) (n : Nat) : rawBnd F files n 0 = 0 := by
  unfold rawBnd; rw [Nat.mul_zero]; exact Nat.zero_min _

theorem rawBnd_le (F : Fmt) (files : List Bytes) (n j : Nat) : rawBnd F files n j ≤ totalSize files := by
  unfold rawBnd; exact Nat.min_le_right _ _

theorem rawBnd_mono (F : Fmt) (files : List Bytes) (n i j : Nat) (h : i ≤ j) :
    rawBnd F files n i ≤ rawBnd F files n j := by
  unfold rawBnd
  have h1 := Nat.mul_le_mul_left (rpStepAlign (rpStepRaw (totalSize files) n) F.align) h
  simp only [Nat.min_def]
  split <;> split <;> omega

theorem rawBnd_last (F : Fmt) (files : List Bytes) (n : Nat) (ha : F.align = 1 ∨ F.align = 4)
    (ht : totalSize files < 2^62) (hn0 : 0 < n) (hn : n < 2^32) :
    rawBnd F files n n = totalSize files := by
  have h := total_le_step_mul (totalSize files) n F.align ht hn0 hn ha
  unfold rawBnd
  exact Nat.min_eq_right h

/-! ### file table: `fileOffset`, `filePtrOf` -/

namespace SnapAux

theorem fileOffset_nil (i : Nat) : fileOffset [] i = 0 := by simp [fileOffset]
theorem fileOffset_zero (files : List Bytes) : fileOffset files 0 = 0 := by simp [fileOffset]
theorem fileOffset_cons_succ (f : Bytes) (fs : List Bytes) (i : Nat) :
    fileOffset (f :: fs) (i + 1) = f.length + fileOffset fs i := by simp [fileOffset]
theorem totalSize_nil : totalSize [] = 0 := by simp [totalSize, fileOffset]
theorem totalSize_cons (f : Bytes) (fs : List Bytes) : totalSize (f :: fs) = f.length + totalSize fs := by
  simp [totalSize, fileOffset]

theorem fileOffset_mono (files : List Bytes) : ∀ i j, i ≤ j → fileOffset files i ≤ fileOffset files j := by
  induction files with
  | nil => intro i j _; simp [fileOffset_nil]
  | cons f fs ih =>
    intro i j hij
    cases i with
    | zero => simp [fileOffset_zero]
    | succ i =>
      cases j with
      | zero => omega
      | succ j =>
        rw [fileOffset_cons_succ, fileOffset_cons_succ]
        have := ih i j (by omega)
        omega

theorem fileOffset_of_length_le (files : List Bytes) (i : Nat) (h : files.length ≤ i) :
    fileOffset files i = totalSize files := by
  unfold totalSize fileOffset
  rw [List.take_of_length_le h, List.take_of_length_le (Nat.le_refl _)]

theorem fileOffset_le_total (files : List Bytes) (i : Nat) : fileOffset files i ≤ totalSize files := by
  by_cases h : i ≤ files.length
  · exact fileOffset_mono files i _ h
  · rw [fileOffset_of_length_le files i (by omega)]; exact Nat.le_refl _

theorem fileOffset_succ_of_drop (files : List Bytes) : ∀ (i : Nat) (f : Bytes) (rest : List Bytes),
    files.drop i = f :: rest → fileOffset files (i + 1) = fileOffset files i + f.length := by
  induction files with
  | nil => intro i f rest h; simp at h
  | cons g gs ih =>
    intro i f rest h
    cases i with
    | zero =>
      simp at h
      obtain ⟨rfl, _⟩ := h
      simp [fileOffset]
    | succ i =>
      simp at h
      rw [fileOffset_cons_succ, fileOffset_cons_succ, ih i f rest h]; omega

theorem ub_head (files : List Bytes) (acc x : Nat) (h : x < acc) :
    upperBound (offsetsFrom acc files) x = 0 := by
  cases files <;> simp [offsetsFrom, upperBound, h]

theorem ub_spec (files : List Bytes) : ∀ (acc x : Nat), acc ≤ x →
    1 ≤ upperBound (offsetsFrom acc files) x ∧
    upperBound (offsetsFrom acc files) x ≤ files.length + 1 ∧
    acc + fileOffset files (upperBound (offsetsFrom acc files) x - 1) ≤ x ∧
    (upperBound (offsetsFrom acc files) x ≤ files.length →
      x < acc + fileOffset files (upperBound (offsetsFrom acc files) x)) ∧
    (acc + totalSize files ≤ x → upperBound (offsetsFrom acc files) x = files.length + 1) := by
  induction files with
  | nil =>
    intro acc x h
    have hn : ¬ x < acc := by omega
    simp [offsetsFrom, upperBound, hn, fileOffset_nil, h]
  | cons f fs ih =>
    intro acc x h
    have hn : ¬ x < acc := by omega
    have e : upperBound (offsetsFrom acc (f :: fs)) x
        = upperBound (offsetsFrom (acc + f.length) fs) x + 1 := by
      simp [offsetsFrom, upperBound, hn]
    rw [e]
    by_cases hx : acc + f.length ≤ x
    · obtain ⟨h1, h2, h3, h4, h5⟩ := ih (acc + f.length) x hx
      generalize upperBound (offsetsFrom (acc + f.length) fs) x = u at *
      obtain ⟨m, rfl⟩ : ∃ m, u = m + 1 := ⟨u - 1, by omega⟩
      simp only [Nat.add_sub_cancel] at h3 ⊢
      refine ⟨by omega, by simp; omega, ?_, ?_, ?_⟩
      · rw [fileOffset_cons_succ]; omega
      · intro hle
        rw [fileOffset_cons_succ]
        have := h4 (by simp at hle; omega)
        omega
      · intro ht
        rw [totalSize_cons] at ht
        have := h5 (by omega)
        simp; omega
    · have e0 := ub_head fs (acc + f.length) x (by omega)
      rw [e0]
      refine ⟨by omega, by simp, ?_, ?_, ?_⟩
      · simp [fileOffset_zero]; omega
      · intro _
        rw [fileOffset_cons_succ, fileOffset_zero]; omega
      · intro ht
        rw [totalSize_cons] at ht
        omega

theorem filePtrOf_le (files : List Bytes) (x : Nat) : filePtrOf files x ≤ files.length := by
  have := ub_spec files 0 x (Nat.zero_le _)
  unfold filePtrOf; omega

theorem fileOffset_filePtrOf_le (files : List Bytes) (x : Nat) :
    fileOffset files (filePtrOf files x) ≤ x := by
  have := ub_spec files 0 x (Nat.zero_le _)
  unfold filePtrOf; omega

theorem filePtrOf_lt (files : List Bytes) (x : Nat) (h : x < totalSize files) :
    filePtrOf files x < files.length ∧ x < fileOffset files (filePtrOf files x + 1) := by
  obtain ⟨h1, h2, h3, h4, h5⟩ := ub_spec files 0 x (Nat.zero_le _)
  unfold filePtrOf
  generalize upperBound (offsetsFrom 0 files) x = u at *
  have hu : u ≤ files.length := by
    by_cases hu : u ≤ files.length
    · exact hu
    · have : u = files.length + 1 := by omega
      subst this
      simp only [Nat.add_sub_cancel] at h3
      unfold totalSize at h; omega
  have := h4 hu
  obtain ⟨m, rfl⟩ : ∃ m, u = m + 1 := ⟨u - 1, by omega⟩
  simp only [Nat.add_sub_cancel]
  omega

theorem filePtrOf_of_total_le (files : List Bytes) (x : Nat) (h : totalSize files ≤ x) :
    filePtrOf files x = files.length := by
  obtain ⟨_, _, _, _, h5⟩ := ub_spec files 0 x (Nat.zero_le _)
  unfold filePtrOf; rw [h5 (by omega)]; simp

theorem filePtrOf_unique (files : List Bytes) (x j : Nat) (hj : fileOffset files j ≤ x)
    (hj' : x < fileOffset files (j + 1)) : filePtrOf files x = j := by
  have hxt : x < totalSize files := Nat.lt_of_lt_of_le hj' (fileOffset_le_total files _)
  have ⟨_, h2⟩ := filePtrOf_lt files x hxt
  have h1 := fileOffset_filePtrOf_le files x
  generalize filePtrOf files x = fp at *
  by_cases hlt : fp < j
  · have := fileOffset_mono files (fp + 1) j (by omega); omega
  · by_cases hgt : j < fp
    · have := fileOffset_mono files (j + 1) fp (by omega); omega
    · omega

theorem drop_filePtrOf (files : List Bytes) (x : Nat) (h : x < totalSize files) :
    ∃ f, files.drop (filePtrOf files x) = f :: files.drop (filePtrOf files x + 1) ∧
      fileOffset files (filePtrOf files x + 1) = fileOffset files (filePtrOf files x) + f.length ∧
      x < fileOffset files (filePtrOf files x) + f.length := by
  have ⟨h1, h2⟩ := filePtrOf_lt files x h
  have hd := List.drop_eq_getElem_cons h1
  refine ⟨_, hd, ?_, ?_⟩
  · exact fileOffset_succ_of_drop files _ _ _ hd
  · rw [← fileOffset_succ_of_drop files _ _ _ hd]; exact h2

end SnapAux
open SnapAux

/-! ### 2. snap -/

theorem snap_zero (F : Fmt) (files : List Bytes) : snap F files 0 = .ok 0 := by
  have h := fileOffset_filePtrOf_le files 0
  unfold snap
  simp only []
  rw [if_pos (by omega)]

/-- (the non-emptiness hypothesis is not needed) -/
theorem snap_total (F : Fmt) (files : List Bytes) (hne : ∀ f ∈ files, f ≠ []) :
    snap F files (totalSize files) = .ok (totalSize files) := by
  have h := filePtrOf_of_total_le files (totalSize files) (Nat.le_refl _)
  unfold snap
  simp only []
  rw [h, if_pos (by rfl)]

namespace SnapAux

/-- the two ways `snap` succeeds -/
theorem snap_cases (F : Fmt) (files : List Bytes) (x y : Nat) (hx : x ≤ totalSize files)
    (h : snap F files x = .ok y) :
    (x = fileOffset files (filePtrOf files x) ∧ y = x) ∨
    (∃ f n c, files.drop (filePtrOf files x) = f :: files.drop (filePtrOf files x + 1) ∧
       fileOffset files (filePtrOf files x) < x ∧ x < fileOffset files (filePtrOf files x) + f.length ∧
       fileOffset files (filePtrOf files x + 1) = fileOffset files (filePtrOf files x) + f.length ∧
       F.seekRecordBegin (f.drop (x - fileOffset files (filePtrOf files x))) = .ok (n, c) ∧
       y = x + n) := by
  unfold snap at h
  simp only [] at h
  by_cases hb : x = fileOffset files (filePtrOf files x)
  · rw [if_pos hb] at h
    injection h with h
    exact Or.inl ⟨hb, h.symm⟩
  · rw [if_neg hb] at h
    right
    have hle := fileOffset_filePtrOf_le files x
    have hxt : x < totalSize files := by
      by_cases hxt : x < totalSize files
      · exact hxt
      · have e : x = totalSize files := by omega
        have := filePtrOf_of_total_le files x (by omega)
        rw [this] at hb
        exact absurd e hb
    obtain ⟨f, hd, ho, hlt⟩ := drop_filePtrOf files x hxt
    rw [hd] at h
    simp only [] at h
    cases hs : F.seekRecordBegin (f.drop (x - fileOffset files (filePtrOf files x))) with
    | error e => rw [hs] at h; cases h
    | ok r =>
      obtain ⟨n, c⟩ := r
      rw [hs] at h
      injection h with h
      exact ⟨f, n, c, hd, by omega, hlt, ho, hs, h.symm⟩

/-- a successful `snap` stays inside the file of its argument -/
theorem snap_le_next (F : Fmt) (files : List Bytes) (hS : SeekOk F) (x y : Nat) (hx : x ≤ totalSize files)
    (h : snap F files x = .ok y) :
    x ≤ y ∧ (y = x ∨ y ≤ fileOffset files (filePtrOf files x + 1)) := by
  rcases snap_cases F files x y hx h with ⟨_, rfl⟩ | ⟨f, n, c, hd, h1, h2, h3, hs, rfl⟩
  · exact ⟨Nat.le_refl _, Or.inl rfl⟩
  · have := (hS.1 _ _ _ hs).1
    rw [List.length_drop] at this
    refine ⟨by omega, Or.inr ?_⟩
    omega

end SnapAux
open SnapAux

theorem snap_bounds (F : Fmt) (files : List Bytes) (hne : ∀ f ∈ files, f ≠ []) (hS : SeekOk F) (x y : Nat)
    (hx : x ≤ totalSize files) (h : snap F files x = .ok y) : x ≤ y ∧ y ≤ totalSize files := by
  have ⟨h1, h2⟩ := snap_le_next F files hS x y hx h
  have := fileOffset_le_total files (filePtrOf files x + 1)
  refine ⟨h1, ?_⟩
  rcases h2 with rfl | h2 <;> omega

theorem snap_mono (F : Fmt) (files : List Bytes) (hne : ∀ f ∈ files, f ≠ []) (hS : SeekOk F)
    (x x' y y' : Nat) (hxx : x ≤ x') (hx' : x' ≤ totalSize files)
    (h : snap F files x = .ok y) (h' : snap F files x' = .ok y') : y ≤ y' := by
  have hb' := snap_bounds F files hne hS x' y' hx' h'
  rcases snap_cases F files x y (by omega) h with ⟨_, rfl⟩ | ⟨f, n, c, hd, h1, h2, h3, hs, rfl⟩
  · omega
  · have hn := (hS.1 _ _ _ hs).1
    rw [List.length_drop] at hn
    by_cases hin : x' < fileOffset files (filePtrOf files x + 1)
    · -- same file
      have hfp : filePtrOf files x' = filePtrOf files x :=
        filePtrOf_unique files x' _ (by omega) hin
      rcases snap_cases F files x' y' hx' h' with ⟨hb, _⟩ | ⟨f', m, d, hd', h1', h2', h3', hs', rfl⟩
      · rw [hfp] at hb; omega
      · rw [hfp] at hd' hs' h2'
        rw [hd] at hd'
        injection hd' with hff _
        subst hff
        have := hS.2 f _ _ n m c d (by omega : x - fileOffset files (filePtrOf files x)
          ≤ x' - fileOffset files (filePtrOf files x)) (by omega) hs hs'
        omega
    · omega

/-! ### 3. `resetPartition` -/

namespace SnapAux

/-- body of `resetPartition` after the arithmetic, with the two raw offsets as parameters.  It is written
with the very matchers of `resetPartition`, so that `resetPartition_eq_core` holds syntactically: the
kernel must never evaluate the tests on the closed `size_t` terms (it would unfold `2^64` in unary). -/
def rpCore (F : Fmt) (s : Base) (ob oe : Nat) : Except Err Base :=
    let s := { s with offBegin := ob, offEnd := oe, offCurr := ob }
    if rpEmpty ob oe then
      .ok (if rpEmptyClears then { s with chunk := s.chunk.clear, overflow := [] } else s)
    else
      let fp := filePtrOf s.files ob
      let fpe := filePtrOf s.files oe
      let oe' : Except Err Nat :=
        if rpSnapEnd oe (fileOffset s.files fpe) then
          if ¬ (fileOffset s.files fpe < oe) ∨ ¬ (fpe < s.files.length) then .error .check
          else
            resetPartition.match_3 (fun _ => Except Err Nat) (s.files.drop fpe) (fun _ => .error .oob)
              fun f _ =>
              resetPartition.match_1 (fun _ => Except Err Nat)
                (F.seekRecordBegin (f.drop (rpSeekEnd oe (fileOffset s.files fpe)))) (fun e => .error e)
                fun n _ => .ok (oe + n)
        else .ok oe
      resetPartition.match_5 (fun _ => Except Err Base) oe' (fun e => .error e) fun oe' =>
        resetPartition.match_3 (fun _ => Except Err Base) (s.files.drop fp) (fun _ => .error .oob)
          fun f _ =>
          let r : Except Err (Nat × Nat) :=
            if rpSnapBegin ob (fileOffset s.files fp) then
              let seekPos := rpSeekBegin ob (fileOffset s.files fp)
              resetPartition.match_1 (fun _ => Except Err (Nat × Nat)) (F.seekRecordBegin (f.drop seekPos))
                (fun e => .error e) fun n consumed => .ok (ob + n, seekPos + consumed)
            else .ok (ob, 0)
          resetPartition.match_1 (fun _ => Except Err Base) r (fun e => .error e) fun ob' pos =>
            beforeFirst { s with offBegin := ob', offEnd := oe', filePtr := fp, fpos := some pos }

theorem resetPartition_eq_core (F : Fmt) (s : Base) (rank nsplit : Nat) :
    resetPartition F s rank nsplit =
      if nsplit = 0 then .error .div
      else rpCore F s
        (rpBegin (rpStepAlign (rpStepRaw (totalSize s.files) nsplit) F.align) rank (totalSize s.files))
        (rpEnd (rpStepAlign (rpStepRaw (totalSize s.files) nsplit) F.align) rank (totalSize s.files)) := rfl

/-- the "find the exact ending position" block -/
def rpEndX (F : Fmt) (files : List Bytes) (oe : Nat) : Except Err Nat :=
  if rpSnapEnd oe (fileOffset files (filePtrOf files oe)) then
    if ¬ (fileOffset files (filePtrOf files oe) < oe) ∨ ¬ (filePtrOf files oe < files.length) then
      .error .check
    else
      resetPartition.match_3 (fun _ => Except Err Nat) (files.drop (filePtrOf files oe))
        (fun _ => .error .oob) fun f _ =>
        resetPartition.match_1 (fun _ => Except Err Nat)
          (F.seekRecordBegin (f.drop (rpSeekEnd oe (fileOffset files (filePtrOf files oe)))))
          (fun e => .error e) fun n _ => .ok (oe + n)
  else .ok oe

/-- the "find the exact starting position" block, on the file `f` that was opened -/
def rpBeginX (F : Fmt) (files : List Bytes) (ob : Nat) (f : Bytes) : Except Err (Nat × Nat) :=
  if rpSnapBegin ob (fileOffset files (filePtrOf files ob)) then
    resetPartition.match_1 (fun _ => Except Err (Nat × Nat))
      (F.seekRecordBegin (f.drop (rpSeekBegin ob (fileOffset files (filePtrOf files ob)))))
      (fun e => .error e)
      fun n consumed => .ok (ob + n, rpSeekBegin ob (fileOffset files (filePtrOf files ob)) + consumed)
  else .ok (ob, 0)

theorem match5_cases (X : Except Err Nat) (K : Nat → Except Err Base) (r : Except Err Base)
    (h : resetPartition.match_5 (fun _ => Except Err Base) X (fun e => .error e) K = r) :
    (∃ e, X = .error e ∧ r = .error e) ∨ (∃ v, X = .ok v ∧ r = K v) := by
  cases X with
  | error e => exact Or.inl ⟨e, rfl, h.symm⟩
  | ok v => exact Or.inr ⟨v, rfl, h.symm⟩

theorem match1_cases (X : Except Err (Nat × Nat)) (K : Nat → Nat → Except Err Base) (r : Except Err Base)
    (h : resetPartition.match_1 (fun _ => Except Err Base) X (fun e => .error e) K = r) :
    (∃ e, X = .error e ∧ r = .error e) ∨ (∃ a b, X = .ok (a, b) ∧ r = K a b) := by
  cases X with
  | error e => exact Or.inl ⟨e, rfl, h.symm⟩
  | ok v =>
    obtain ⟨a, b⟩ := v
    exact Or.inr ⟨a, b, rfl, h.symm⟩

theorem interior_lt_total (files : List Bytes) (x : Nat) (hx : x ≤ totalSize files)
    (hb : ¬ x = fileOffset files (filePtrOf files x)) : x < totalSize files := by
  by_cases hxt : x < totalSize files
  · exact hxt
  · have e : x = totalSize files := by omega
    have := filePtrOf_of_total_le files x (by omega)
    rw [this] at hb
    exact absurd e hb

theorem rpEndX_eq_snap (F : Fmt) (files : List Bytes) (oe : Nat) (hoe : oe ≤ totalSize files)
    (ht : totalSize files < 2^62) : rpEndX F files oe = snap F files oe := by
  have hle := fileOffset_filePtrOf_le files oe
  unfold rpEndX snap
  simp only []
  by_cases hb : oe = fileOffset files (filePtrOf files oe)
  · rw [if_pos hb, if_neg (by simp [rpSnapEnd]; exact hb)]
  · rw [if_neg hb, if_pos (by simp [rpSnapEnd]; exact hb)]
    have hxt := interior_lt_total files oe hoe hb
    have ⟨h1, _⟩ := filePtrOf_lt files oe hxt
    rw [if_neg (by omega)]
    have e : rpSeekEnd oe (fileOffset files (filePtrOf files oe))
        = oe - fileOffset files (filePtrOf files oe) := by
      unfold rpSeekEnd; exact sub64_of_le hle (by omega)
    rw [e]
    obtain ⟨f, hd, _, _⟩ := drop_filePtrOf files oe hxt
    rw [hd]
    simp only []
    cases F.seekRecordBegin (f.drop (oe - fileOffset files (filePtrOf files oe))) with
    | error e => rfl
    | ok r => rfl

theorem rpBeginX_snap (F : Fmt) (files : List Bytes) (ob : Nat) (f : Bytes) (rest : List Bytes)
    (hd : files.drop (filePtrOf files ob) = f :: rest) (ht : totalSize files < 2^62)
    (hob : ob ≤ totalSize files) :
    (∀ e, rpBeginX F files ob f = .error e → snap F files ob = .error e) ∧
    (∀ b p, rpBeginX F files ob f = .ok (b, p) → snap F files ob = .ok b) := by
  have hle := fileOffset_filePtrOf_le files ob
  unfold rpBeginX snap
  simp only []
  by_cases hb : ob = fileOffset files (filePtrOf files ob)
  · rw [if_pos hb, if_neg (by simp [rpSnapBegin]; exact hb)]
    constructor
    · intro e h; cases h
    · intro b p h
      injection h with h
      injection h with h1 _
      rw [h1]
  · rw [if_neg hb, if_pos (by simp [rpSnapBegin]; exact hb), hd]
    have e : rpSeekBegin ob (fileOffset files (filePtrOf files ob))
        = ob - fileOffset files (filePtrOf files ob) := by
      unfold rpSeekBegin; exact sub64_of_le hle (by omega)
    rw [e]
    simp only []
    cases F.seekRecordBegin (f.drop (ob - fileOffset files (filePtrOf files ob))) with
    | error e0 =>
      constructor
      · intro e h; injection h with h; rw [h]
      · intro b p h; cases h
    | ok r =>
      obtain ⟨n, c⟩ := r
      constructor
      · intro e h; cases h
      · intro b p h
        injection h with h
        injection h with h1 _
        show Except.ok (ob + n) = Except.ok b
        rw [h1]

/-- the conditional clearing of the early returns -/
theorem ite_clear (b : Bool) (t r : Base) (hc : b = true ∨ (t.chunk.rest = [] ∧ t.overflow = []))
    (hr : (if b then { t with chunk := t.chunk.clear, overflow := [] } else t) = r) :
    r.chunk.rest = [] ∧ r.overflow = [] ∧ r.files = t.files ∧ r.offBegin = t.offBegin ∧
    r.offEnd = t.offEnd ∧ r.bufWords = t.bufWords ∧ r.chunk.dataWords = t.chunk.dataWords := by
  subst hr
  cases b with
  | true =>
    rw [if_pos rfl]
    exact ⟨rfl, rfl, rfl, rfl, rfl, rfl, rfl⟩
  | false =>
    rw [if_neg (by decide)]
    rcases hc with hc | ⟨h1, h2⟩
    · cases hc
    · exact ⟨h1, h2, rfl, rfl, rfl, rfl, rfl⟩

/-- `BeforeFirst` on a state whose end offset is in range -/
theorem beforeFirst_spec (t t' : Base) (hne : ∀ f ∈ t.files, f ≠ []) (hc : ClearsOk t)
    (hoe : t.offEnd ≤ totalSize t.files)
    (ht : totalSize t.files < 2^62) (h : beforeFirst t = .ok t') :
    Clean t' ∧ RInv t' ∧ t'.files = t.files ∧ t'.offBegin = t.offBegin ∧ t'.offEnd = t.offEnd ∧
    t'.bufWords = t.bufWords ∧ t'.chunk.dataWords = t.chunk.dataWords := by
  unfold beforeFirst at h
  by_cases hb : bfEmpty t.offBegin t.offEnd = true
  · rw [if_pos hb] at h
    have hle : t.offEnd ≤ t.offBegin := by simpa [bfEmpty] using hb
    injection h with h
    obtain ⟨r1, r2, r3, r4, r5, r6, r7⟩ :=
      ite_clear bfEmptyClears t t' (hc.elim (fun hc => Or.inl hc.2) Or.inr) h
    refine ⟨⟨r1, r2, Or.inl ?_⟩, ⟨?_, ?_, Or.inl ?_⟩, r3, r4, r5, r6, r7⟩
    · rw [r4, r5]; exact hle
    · rw [r3]; exact hne
    · rw [r3, r5]; exact hoe
    · rw [r4, r5]; exact hle
  · rw [if_neg hb] at h
    have hlt : t.offBegin < t.offEnd := by
      simp [bfEmpty] at hb; omega
    simp only [] at h
    cases hp : t.fpos with
    | none => rw [hp] at h; cases h
    | some p =>
      rw [hp] at h
      simp only [] at h
      split at h
      · cases h
      · injection h with h; subst h
        have hxt : t.offBegin < totalSize t.files := by omega
        have hle := fileOffset_filePtrOf_le t.files t.offBegin
        obtain ⟨f, hd, ho, hlt'⟩ := drop_filePtrOf t.files t.offBegin hxt
        have e : sub64 t.offBegin (fileOffset t.files (filePtrOf t.files t.offBegin))
            = t.offBegin - fileOffset t.files (filePtrOf t.files t.offBegin) :=
          sub64_of_le hle (by omega)
        refine ⟨⟨rfl, rfl, Or.inr ⟨rfl, rfl, ?_⟩⟩, ⟨hne, hoe, Or.inr ?_⟩, rfl, rfl, rfl, rfl, rfl⟩
        · show some (sub64 _ _) = some _
          rw [e]
        · refine ⟨_, f, rfl, hd, ?_, ?_, Nat.le_refl _, Nat.le_of_lt hlt⟩
          · show sub64 _ _ ≤ _
            rw [e]; omega
          · show t.offBegin = fileOffset t.files (filePtrOf t.files t.offBegin) + sub64 _ _
            rw [e]; omega

theorem beforeFirst_ok (t : Base) (p : Nat) (hp : t.fpos = some p)
    (hoe : t.offEnd ≤ totalSize t.files) : ∃ t', beforeFirst t = .ok t' := by
  unfold beforeFirst
  by_cases hb : bfEmpty t.offBegin t.offEnd = true
  · rw [if_pos hb]; exact ⟨_, rfl⟩
  · rw [if_neg hb]
    have hlt : t.offBegin < t.offEnd := by
      simp [bfEmpty] at hb; omega
    have ⟨h1, _⟩ := filePtrOf_lt t.files t.offBegin (by omega)
    simp only []
    rw [hp]
    simp only []
    rw [if_neg (by omega)]
    exact ⟨_, rfl⟩

theorem rpCore_empty (F : Fmt) (s : Base) (ob : Nat) :
    rpCore F s ob ob =
      .ok (if rpEmptyClears then
             { s with offBegin := ob, offEnd := ob, offCurr := ob, chunk := s.chunk.clear, overflow := [] }
           else { s with offBegin := ob, offEnd := ob, offCurr := ob }) := by
  unfold rpCore
  simp only []
  rw [if_pos (by simp [rpEmpty])]

theorem rpCore_empty_spec (F : Fmt) (s : Base) (ob : Nat) (hc : ClearsOk s) :
    ∃ s', rpCore F s ob ob = .ok s' ∧ s'.chunk.rest = [] ∧ s'.overflow = [] ∧ s'.files = s.files ∧
      s'.offBegin = ob ∧ s'.offEnd = ob ∧ s'.bufWords = s.bufWords ∧
      s'.chunk.dataWords = s.chunk.dataWords := by
  rw [rpCore_empty]
  exact ⟨_, rfl, ite_clear rpEmptyClears { s with offBegin := ob, offEnd := ob, offCurr := ob } _
    (hc.elim (fun hc => Or.inl hc.1) Or.inr) rfl⟩

/-- what `rpCore` does when the raw range is not empty: both offsets are snapped (`snap`), then
`BeforeFirst` runs on the snapped range -/
theorem rpCore_cases (F : Fmt) (s : Base) (ob oe : Nat) (ht : totalSize s.files < 2^62)
    (hlt : ob < oe) (hoe : oe ≤ totalSize s.files) :
    (∃ e, snap F s.files oe = .error e ∧ rpCore F s ob oe = .error e) ∨
    (∃ oe' e, snap F s.files oe = .ok oe' ∧ snap F s.files ob = .error e ∧
        rpCore F s ob oe = .error e) ∨
    (∃ oe' ob' pos, snap F s.files oe = .ok oe' ∧ snap F s.files ob = .ok ob' ∧
        rpCore F s ob oe = beforeFirst { s with offBegin := ob', offEnd := oe', offCurr := ob,
                                                filePtr := filePtrOf s.files ob, fpos := some pos }) := by
  generalize hr : rpCore F s ob oe = r
  unfold rpCore at hr
  simp only [] at hr
  rw [if_neg (by simp [rpEmpty]; omega)] at hr
  have hE := rpEndX_eq_snap F s.files oe hoe ht
  rcases match5_cases _ _ _ hr with ⟨e, hX, rfl⟩ | ⟨oe', hX, hr⟩
  · have hX' : rpEndX F s.files oe = .error e := hX
    exact Or.inl ⟨e, by rw [← hE, hX'], rfl⟩
  · have hX' : rpEndX F s.files oe = .ok oe' := hX
    right
    obtain ⟨fB, hdB, _, _⟩ := drop_filePtrOf s.files ob (by omega)
    rw [hdB] at hr
    simp only [] at hr
    have ⟨hB1, hB2⟩ := rpBeginX_snap F s.files ob fB _ hdB ht (by omega)
    rcases match1_cases _ _ _ hr.symm with ⟨e, hY, rfl⟩ | ⟨ob', pos, hY, hr⟩
    · have hY' : rpBeginX F s.files ob fB = .error e := hY
      exact Or.inl ⟨oe', e, by rw [← hE, hX'], hB1 e hY', rfl⟩
    · have hY' : rpBeginX F s.files ob fB = .ok (ob', pos) := hY
      exact Or.inr ⟨oe', ob', pos, by rw [← hE, hX'], hB2 _ _ hY', hr⟩

theorem rpCore_spec (F : Fmt) (hS : SeekOk F) (s s' : Base) (ob oe : Nat)
    (hne : ∀ f ∈ s.files, f ≠ []) (hc : ClearsOk s) (ht : totalSize s.files < 2^62) (hle : ob ≤ oe)
    (hoe : oe ≤ totalSize s.files) (h : rpCore F s ob oe = .ok s') :
    ((ob = oe ∧ s'.offBegin = ob ∧ s'.offEnd = ob) ∨
     (ob < oe ∧ snap F s.files ob = .ok s'.offBegin ∧ snap F s.files oe = .ok s'.offEnd)) ∧
    Clean s' ∧ RInv s' ∧ s'.files = s.files ∧ s'.bufWords = s.bufWords ∧
    s'.chunk.dataWords = s.chunk.dataWords := by
  by_cases he : ob = oe
  · subst he
    rw [rpCore_empty] at h
    injection h with h
    obtain ⟨r1, r2, r3, r4, r5, r6, r7⟩ :=
      ite_clear rpEmptyClears { s with offBegin := ob, offEnd := ob, offCurr := ob } s'
        (hc.elim (fun hc => Or.inl hc.1) Or.inr) h
    have r4' : s'.offBegin = ob := r4
    have r5' : s'.offEnd = ob := r5
    have r3' : s'.files = s.files := r3
    refine ⟨Or.inl ⟨rfl, r4', r5'⟩, ⟨r1, r2, Or.inl ?_⟩, ⟨?_, ?_, Or.inl ?_⟩, r3', r6, r7⟩
    · rw [r4', r5']; exact Nat.le_refl _
    · rw [r3']; exact hne
    · rw [r3', r5']; exact hoe
    · rw [r4', r5']; exact Nat.le_refl _
  · have hlt : ob < oe := by omega
    rcases rpCore_cases F s ob oe ht hlt hoe with ⟨e, _, h1⟩ | ⟨oe', e, _, _, h1⟩ |
        ⟨oe', ob', pos, hse, hsb, h1⟩
    · rw [h1] at h; cases h
    · rw [h1] at h; cases h
    · rw [h1] at h
      have hoe' := (snap_bounds F s.files hne hS _ _ hoe hse).2
      obtain ⟨c1, c2, c3, c4, c5, c6, c7⟩ := beforeFirst_spec _ s' (by exact hne)
        (by exact hc.elim Or.inl Or.inr) (by exact hoe') (by exact ht) h
      refine ⟨Or.inr ⟨hlt, ?_, ?_⟩, c1, c2, c3, c6, c7⟩
      · rw [c4]; exact hsb
      · rw [c5]; exact hse

theorem rpCore_ok (F : Fmt) (hS : SeekOk F) (s : Base) (ob oe : Nat)
    (hne : ∀ f ∈ s.files, f ≠ []) (ht : totalSize s.files < 2^62) (hle : ob ≤ oe)
    (hoe : oe ≤ totalSize s.files) (b e : Nat) (hb : snap F s.files ob = .ok b)
    (he : snap F s.files oe = .ok e) : ∃ s', rpCore F s ob oe = .ok s' := by
  by_cases heq : ob = oe
  · subst heq
    exact ⟨_, rpCore_empty F s ob⟩
  · have hlt : ob < oe := by omega
    rcases rpCore_cases F s ob oe ht hlt hoe with ⟨e', h0, _⟩ | ⟨oe', e', _, h0, _⟩ |
        ⟨oe', ob', pos, hse, hsb, h1⟩
    · rw [he] at h0; cases h0
    · rw [hb] at h0; cases h0
    · rw [h1]
      have hoe' := (snap_bounds F s.files hne hS _ _ hoe hse).2
      exact beforeFirst_ok _ pos rfl (by exact hoe')

end SnapAux
open SnapAux

/-- `ResetPartition` computes the two boundaries and leaves a clean, well-formed state.  When the two
raw offsets coincide the code returns before snapping them (the part is empty either way).
`ClearsOk s`: the source has the clearing statements of fix C05-1, or `s` buffers nothing. -/
theorem resetPartition_spec (F : Fmt) (ha : F.align = 1 ∨ F.align = 4) (hS : SeekOk F) (s s' : Base)
    (k n : Nat) (hne : ∀ f ∈ s.files, f ≠ []) (hc : ClearsOk s) (ht : totalSize s.files < 2^62) (hk : k < n)
    (hn : n < 2^32) (h : resetPartition F s k n = .ok s') :
    ((rawBnd F s.files n k = rawBnd F s.files n (k + 1) ∧
        bnd F s.files n k = bnd F s.files n (k + 1) ∧
        s'.offBegin = rawBnd F s.files n k ∧ s'.offEnd = rawBnd F s.files n k) ∨
     (rawBnd F s.files n k < rawBnd F s.files n (k + 1) ∧
        bnd F s.files n k = .ok s'.offBegin ∧ bnd F s.files n (k + 1) = .ok s'.offEnd)) ∧
    Clean s' ∧ RInv s' ∧ s'.files = s.files ∧ s'.bufWords = s.bufWords ∧
    s'.chunk.dataWords = s.chunk.dataWords := by
  rw [resetPartition_eq_core, if_neg (by omega), rpBegin_eq_rawBnd F s.files k n ha ht hk hn,
    rpEnd_eq_rawBnd F s.files k n ha ht hk hn] at h
  have hmono := rawBnd_mono F s.files n k (k + 1) (by omega)
  have hoeT := rawBnd_le F s.files n (k + 1)
  obtain ⟨h1, h2⟩ := rpCore_spec F hS s s' _ _ hne hc ht hmono hoeT h
  refine ⟨?_, h2⟩
  rcases h1 with ⟨e1, e2, e3⟩ | ⟨e1, e2, e3⟩
  · exact Or.inl ⟨e1, by unfold bnd; rw [e1], e2, e3⟩
  · exact Or.inr ⟨e1, e2, e3⟩

/-- whenever both boundaries exist, the state holds them, or an empty range and then they are equal -/
theorem resetPartition_range (F : Fmt) (ha : F.align = 1 ∨ F.align = 4) (hS : SeekOk F) (s s' : Base)
    (k n : Nat) (hne : ∀ f ∈ s.files, f ≠ []) (hc : ClearsOk s) (ht : totalSize s.files < 2^62) (hk : k < n)
    (hn : n < 2^32) (h : resetPartition F s k n = .ok s')
    (b e : Nat) (hb : bnd F s.files n k = .ok b) (he : bnd F s.files n (k + 1) = .ok e) :
    (s'.offBegin = b ∧ s'.offEnd = e) ∨ (s'.offEnd ≤ s'.offBegin ∧ b = e) := by
  obtain ⟨h1, _⟩ := resetPartition_spec F ha hS s s' k n hne hc ht hk hn h
  rcases h1 with ⟨_, h2, h3, h4⟩ | ⟨_, h2, h3⟩
  · right
    rw [hb, he] at h2
    injection h2 with h2
    exact ⟨by omega, h2⟩
  · left
    rw [hb] at h2; rw [he] at h3
    injection h2 with h2; injection h3 with h3
    exact ⟨h2.symm, h3.symm⟩

/-- conversely `ResetPartition` does not fail when both boundaries exist -/
theorem resetPartition_ok (F : Fmt) (ha : F.align = 1 ∨ F.align = 4) (hS : SeekOk F) (s : Base)
    (k n : Nat) (hne : ∀ f ∈ s.files, f ≠ []) (hfiles : s.files ≠ []) (ht : totalSize s.files < 2^62)
    (hk : k < n) (hn : n < 2^32) (b e : Nat) (hb : bnd F s.files n k = .ok b)
    (he : bnd F s.files n (k + 1) = .ok e) : ∃ s', resetPartition F s k n = .ok s' := by
  rw [resetPartition_eq_core, if_neg (by omega), rpBegin_eq_rawBnd F s.files k n ha ht hk hn,
    rpEnd_eq_rawBnd F s.files k n ha ht hk hn]
  have hmono := rawBnd_mono F s.files n k (k + 1) (by omega)
  have hoeT := rawBnd_le F s.files n (k + 1)
  exact rpCore_ok F hS s _ _ hne ht hmono hoeT b e hb he

end DmlcModel.Split
