/-
Top layer of property C04 for the RECORDIO format on a bare split (`St.wrap = none`) whose chunk window and
look-ahead are images of record lists (`GInv`): every `NextRecord` hands out the next record, every
`NextChunk` the image of the next non-empty run of whole records (`nextRecord_rec`, `nextChunk_rec`), a full
`drain` delivers every record exactly once and in order (`drain_rec`), and none of this raises an error or
runs out of the model's iteration bounds (`nextRecord_rec_total`, `nextChunk_rec_total`, `drain_rec_total`;
`2 ≤ bufWords` is needed: with a one-word buffer `FindLastRecordBegin`'s `CHECK(p >= pbegin + 2)` fires).
Built on ChunkLemmas (`load_spec`, `load_spec_bin`) and RecLemmas (`recFindLast_spec`, `recExtract_spec`);
the generic unfolding lemmas for `nextLoop` / `drainGo` come from DrainLemmas.  Core Lean only.
-/
import DmlcModel.Split.ReadLemmas
import DmlcModel.Split.ChunkLemmas
import DmlcModel.Split.RecLemmas
import DmlcModel.Split.DrainLemmas

namespace DmlcModel.Split
open DmlcModel DmlcModel.Gen.Split DmlcModel.RecordIO DmlcModel.Gen.RecordIO

/-! ### `FindLastRecordBegin` of the recordio format: small facts -/

theorem recFindLast_ok_len (buf : Bytes) (cut : Nat) (h : recFindLast buf = .ok cut) :
    buf.length % 4 = 0 ∧ 8 ≤ buf.length := by
  unfold recFindLast at h
  split at h
  · cases h
  · split at h
    · cases h
    · rename_i h1 h2
      rw [rsLastMinWords_spec] at h2
      omega

theorem cutOk_rec : CutOk Fmt.recordio := by
  intro buf cut h
  have hl := recFindLast_ok_len buf cut h
  have h' : recFindLast buf = .ok cut := h
  unfold recFindLast at h'
  rw [if_neg (by omega), if_neg (by rw [rsLastMinWords_spec]; omega)] at h'
  injection h' with h'
  have hs : rsLastStart (buf.length / 4) ≤ buf.length / 4 := by
    unfold rsLastStart sub64; omega
  rcases (recFindLastGo_spec (toWords buf) (rsLastStart (buf.length / 4))).1 with h0 | ⟨k, hk, _, hk2, _⟩
  · omega
  · omega

/-! ### images of record lists -/

theorem short_nil : Short [] := fun _ h => by cases h

theorem short_append {a b : List Bytes} : Short (a ++ b) ↔ Short a ∧ Short b := by
  unfold Short
  constructor
  · intro h; exact ⟨fun r hr => h r (by simp [hr]), fun r hr => h r (by simp [hr])⟩
  · rintro ⟨h1, h2⟩ r hr
    rcases List.mem_append.1 hr with hr | hr
    · exact h1 r hr
    · exact h2 r hr

theorem short_take {rs : List Bytes} (h : Short rs) (j : Nat) : Short (rs.take j) :=
  fun r hr => h r (List.mem_of_mem_take hr)

theorem short_drop {rs : List Bytes} (h : Short rs) (j : Nat) : Short (rs.drop j) :=
  fun r hr => h r (List.mem_of_mem_drop hr)

/-- every record costs at least its 8-byte header -/
theorem writeAll_length_ge (rs : List Bytes) (h : Short rs) : 8 * rs.length ≤ (writeAll rs).length := by
  induction rs with
  | nil => simp
  | cons r rs ih =>
    have h1 := (writeRecord_length r h.head).1
    have h2 := ih h.tail
    simp only [writeAll, List.length_append, List.length_cons]
    omega

theorem writeAll_eq_nil (rs : List Bytes) (h : Short rs) (he : writeAll rs = []) : rs = [] := by
  have := writeAll_length_ge rs h
  rw [he] at this
  cases rs with
  | nil => rfl
  | cons r rs => simp at this

theorem writeAll_ne_nil (rs : List Bytes) (h : Short rs) (hne : rs ≠ []) : writeAll rs ≠ [] :=
  fun he => hne (writeAll_eq_nil rs h he)

theorem writeAll_nil : writeAll [] = [] := rfl

/-! ### invariant -/

/-- invariant of a bare recordio split between public calls: the current chunk window and the look-ahead
are images of record lists -/
def GInv (s : Base) (cur ahead_ : List Bytes) : Prop :=
  RInv s ∧ s.chunk.rest = writeAll cur ∧ s.overflow ++ pending Fmt.recordio s = writeAll ahead_ ∧
  Short cur ∧ Short ahead_ ∧
  (cur ≠ [] → s.chunk.begin % 4 = 0) ∧ totalSize s.files < 2^56 ∧ 2 ≤ s.bufWords ∧ s.bufWords < 2^56 ∧
  (writeAll ahead_).length < 2^56

theorem readShortBin (F : Fmt) : ReadShortBin F :=
  fun s size b s' h hi _ _ hb hs => read_short_binary F s size b s' h hi (by omega) hb hs

/-! ### one `Chunk::Load` on an exhausted window -/

theorem load_rec (s s1 : Base) (c : Chunk) (ok : Bool) (ah : List Bytes)
    (h : load Fmt.recordio s s.chunk = .ok (ok, s1, c)) (hinv : GInv s [] ah) :
    s1.files = s.files ∧ s1.offBegin = s.offBegin ∧ s1.offEnd = s.offEnd ∧ s1.bufWords = s.bufWords ∧
    (ok = false → ah = [] ∧ GInv { s1 with chunk := c } [] []) ∧
    (ok = true → ∃ cur' ah', cur' ≠ [] ∧ cur' ++ ah' = ah ∧ GInv { s1 with chunk := c } cur' ah') := by
  obtain ⟨hR, hcr, hah, _, hSa, _, hts, hb2, hbw, hal⟩ := hinv
  have hahd : ahead Fmt.recordio s = writeAll ah := hah
  have hB : Fmt.recordio.isText = false := rfl
  obtain ⟨i1, i2, i3, i4, i5, i6, i7, i8, i9, i10⟩ :=
    load_spec Fmt.recordio (readSpecB _) cutOk_rec (ReadShortB_of_binary _ hB) (CutEol_of_binary _ hB)
      s s1 s.chunk c ok h hR (by omega) hbw (by rw [hahd]; exact hal)
  have hbin := load_spec_bin Fmt.recordio hB (readSpecB _) cutOk_rec (readShortBin _)
      s s1 s.chunk c ok h hR (by omega) hbw (by rw [hahd]; exact hal)
  refine ⟨i2, i3, i4, i6, ?_, ?_⟩
  · intro hk
    obtain ⟨j1, j2, j3, j4, j5⟩ := i9 hk
    rw [hahd] at j3
    have hnil := writeAll_eq_nil ah hSa j3
    refine ⟨hnil, i1, ?_, ?_, short_nil, short_nil, fun hne => absurd rfl hne, by rw [i2]; exact hts,
      by rw [i6]; exact hb2, by rw [i6]; exact hbw, by simp [writeAll_nil]⟩
    · show c.rest = writeAll []
      rw [j1, hcr]
    · show s1.overflow ++ pending Fmt.recordio s1 = writeAll []
      rw [j4, j5]; rfl
  · intro hk
    obtain ⟨j1, j2, j3, j4, j5⟩ := i10 hk
    rcases hbin hk with ⟨buf, cut, hcut, htake, hdrop, hbne, hcat, hblen⟩ | ⟨ho, hne, hp, hall, _⟩
    · rw [hahd] at hcat
      have hcut' : recFindLast buf = .ok cut := hcut
      obtain ⟨hm4, hm8⟩ := recFindLast_ok_len buf cut hcut'
      have hml : buf.length ≤ (writeAll ah).length := by rw [← hcat, List.length_append]; omega
      have hbuf : buf = (writeAll ah).take buf.length := by rw [← hcat]; simp
      obtain ⟨cut2, hc2, hc8, hhead, _⟩ := recFindLast_spec ah hSa buf.length hm4 hm8 hml (by omega)
      rw [← hbuf, hcut'] at hc2
      injection hc2 with hc2
      subst hc2
      have hcpos : cut ≠ 0 := by
        intro h0; rw [h0] at htake; rw [htake] at j2; simp at j2
      have hhd : IsHead ah cut := by
        rcases hhead with h0 | hh
        · exact absurd h0 hcpos
        · exact hh
      obtain ⟨j, hj, hjc⟩ := (isHead_iff ah cut).1 hhd
      have hsplit := writeAll_take_drop_head ah j
      have hrest : c.rest = writeAll (ah.take j) := by
        rw [htake, hbuf, List.take_take, Nat.min_eq_left (by omega), hsplit, hjc]; simp
      have hov : s1.overflow ++ pending Fmt.recordio s1 = writeAll (ah.drop j) := by
        rw [hdrop, ← List.drop_append_of_le_length (by omega), hcat, hsplit, hjc]; simp
      have hjne : ah.take j ≠ [] := by
        intro he; rw [he] at hrest; exact j2 hrest
      refine ⟨ah.take j, ah.drop j, hjne, List.take_append_drop j ah, i1, hrest, hov, short_take hSa j,
        short_drop hSa j, fun _ => (by show c.begin % 4 = 0; rw [j1]), by rw [i2]; exact hts, by rw [i6]; exact hb2, by rw [i6]; exact hbw, ?_⟩
      have := congrArg List.length hsplit
      rw [List.length_append] at this
      omega
    · rw [hahd] at hall
      have hne' : ah ≠ [] := by
        intro he; rw [he] at hall; exact hne hall
      refine ⟨ah, [], hne', List.append_nil ah, i1, hall, ?_, hSa, short_nil, fun _ => (by show c.begin % 4 = 0; rw [j1]),
        by rw [i2]; exact hts, by rw [i6]; exact hb2, by rw [i6]; exact hbw, by simp [writeAll_nil]⟩
      show s1.overflow ++ pending Fmt.recordio s1 = writeAll []
      rw [ho, hp]; rfl

/-! ### the extraction step, generic in the `Extract` function -/

/-- what `NextRecord` / `NextChunk` need of their `Extract` function on a window that is the image of the
records `cur`: it returns false exactly on an empty window, otherwise it takes a non-empty run of whole
records off the front, leaves the image of the others `cur'`, and hands out a blob related to them by `R` -/
def ExtRec (ext : Chunk → Except Err (Option (Bytes × Chunk))) (R : Bytes → List Bytes → List Bytes → Prop) :
    Prop :=
  ∀ (c : Chunk) (cur : List Bytes), c.rest = writeAll cur → Short cur → (cur ≠ [] → c.begin % 4 = 0) →
    (cur = [] → ext c = .ok none) ∧
    (cur ≠ [] → ∃ run cur' b c', run ≠ [] ∧ run ++ cur' = cur ∧ ext c = .ok (some (b, c')) ∧ R b run cur' ∧
        c'.rest = writeAll cur' ∧ (cur' ≠ [] → c'.begin % 4 = 0))

theorem extRec_record : ExtRec Fmt.recordio.extractNext (fun b run _ => run = [b]) := by
  intro c cur hc hS hb
  constructor
  · intro he
    rw [he] at hc
    exact recExtract_nil c hc
  · intro hne
    cases cur with
    | nil => exact absurd rfl hne
    | cons r rs =>
      have hb' := hb hne
      refine ⟨[r], rs, r, _, by simp, rfl, recExtract_spec r rs hS c hc hb', rfl, rfl, fun _ => ?_⟩
      show (c.begin + (writeRecord r).1.length) % 4 = 0
      have := (writeRecord_length r hS.head).2
      omega

theorem extRec_chunk :
    ExtRec (fun c => .ok (extractChunk c)) (fun b run cur' => b = writeAll run ∧ cur' = []) := by
  intro c cur hc hS hb
  constructor
  · intro he
    rw [he] at hc
    simp [extractChunk, hc, writeAll_nil]
  · intro hne
    have hrn : c.rest ≠ [] := by rw [hc]; exact writeAll_ne_nil cur hS hne
    refine ⟨cur, [], c.rest, { c with begin := c.begin + c.rest.length, rest := [] }, hne, List.append_nil cur,
      by simp [extractChunk, hrn], ⟨hc, rfl⟩, rfl, fun h => absurd rfl h⟩

/-! ### the loop of `NextRecord` / `NextChunk` -/

theorem GInv_chunk (s : Base) (c' : Chunk) (cur cur' ah : List Bytes) (hinv : GInv s cur ah)
    (hc : c'.rest = writeAll cur') (hS : Short cur') (hb : cur' ≠ [] → c'.begin % 4 = 0) :
    GInv { s with chunk := c' } cur' ah := by
  obtain ⟨hR, _, hah, _, hSa, _, hts, hb2, hbw, hal⟩ := hinv
  exact ⟨hR, hc, hah, hS, hSa, hb, hts, hb2, hbw, hal⟩

theorem nextLoop_rec (ext : Chunk → Except Err (Option (Bytes × Chunk)))
    (R : Bytes → List Bytes → List Bytes → Prop) (hX : ExtRec ext R) :
    ∀ (fuel : Nat) (s s' : Base) (r : Option Bytes) (cur ah : List Bytes),
    nextLoop Fmt.recordio ext fuel s = .ok (r, s') → GInv s cur ah →
    (s'.files = s.files ∧ s'.offBegin = s.offBegin ∧ s'.offEnd = s.offEnd ∧ s'.bufWords = s.bufWords) ∧
    match r with
    | some b => ∃ run cur' ah', run ≠ [] ∧ R b run cur' ∧ GInv s' cur' ah' ∧ run ++ (cur' ++ ah') = cur ++ ah
    | none => cur = [] ∧ ah = [] ∧ GInv s' [] [] := by
  intro fuel
  induction fuel with
  | zero => intro s s' r cur ah h; rw [nextLoop_zero] at h; cases h
  | succ fuel ih =>
    intro s s' r cur ah h hinv
    rw [nextLoop_succ] at h
    obtain ⟨hx0, hx1⟩ := hX s.chunk cur hinv.2.1 hinv.2.2.2.1 hinv.2.2.2.2.2.1
    by_cases hcur : cur = []
    · subst hcur
      rw [hx0 rfl] at h
      cases hl : load Fmt.recordio s s.chunk with
      | error e => rw [hl] at h; simp only [nextStep] at h; cases h
      | ok res =>
        obtain ⟨ok, s1, c⟩ := res
        obtain ⟨k2, k3, k4, k5, k6, k7⟩ := load_rec s s1 c ok ah hl hinv
        rw [hl] at h
        cases ok with
        | false =>
          simp only [nextStep] at h
          cases h
          obtain ⟨e1, e2⟩ := k6 rfl
          exact ⟨⟨k2, k3, k4, k5⟩, rfl, e1, e2⟩
        | true =>
          simp only [nextStep] at h
          obtain ⟨cur1, ah1, _, e2, e3⟩ := k7 rfl
          obtain ⟨⟨m2, m3, m4, m5⟩, m6⟩ := ih _ s' r cur1 ah1 h e3
          refine ⟨⟨m2.trans k2, m3.trans k3, m4.trans k4, m5.trans k5⟩, ?_⟩
          cases r with
          | none =>
            obtain ⟨n1, n2, n3⟩ := m6
            refine ⟨rfl, ?_, n3⟩
            rw [← e2, n1, n2]; rfl
          | some b =>
            obtain ⟨run, cur', ah', n1, n2, n3, n4⟩ := m6
            exact ⟨run, cur', ah', n1, n2, n3, by rw [n4, e2]; rfl⟩
    · obtain ⟨run, cur', b, c', h1, h2, h3, h4, h5, h6⟩ := hx1 hcur
      rw [h3] at h
      simp only [nextStep] at h
      cases h
      refine ⟨⟨rfl, rfl, rfl, rfl⟩, run, cur', ah, h1, h4,
        GInv_chunk s c' cur cur' ah hinv h5
          (fun r hr => hinv.2.2.2.1 r (by rw [← h2]; exact List.mem_append_right _ hr)) h6, ?_⟩
      rw [← List.append_assoc, h2]

/-- C04 at the `NextRecord` level: every call hands out the next record of the sequence -/
theorem nextRecord_rec (s s' : Base) (cur ah : List Bytes) (r : Option Bytes)
    (h : nextRecord Fmt.recordio s = .ok (r, s')) (hinv : GInv s cur ah) :
    (s'.files = s.files ∧ s'.offBegin = s.offBegin ∧ s'.offEnd = s.offEnd ∧ s'.bufWords = s.bufWords) ∧
    match r with
    | some b => ∃ cur' ah', GInv s' cur' ah' ∧ b :: (cur' ++ ah') = cur ++ ah
    | none => cur = [] ∧ ah = [] ∧ GInv s' [] [] := by
  unfold nextRecord at h
  obtain ⟨m1, m2⟩ := nextLoop_rec _ _ extRec_record 3 s s' r cur ah h hinv
  refine ⟨m1, ?_⟩
  cases r with
  | none => exact m2
  | some b =>
    obtain ⟨run, cur', ah', _, n2, n3, n4⟩ := m2
    subst n2
    exact ⟨cur', ah', n3, n4⟩

/-- C04 at the `NextChunk` level: every chunk is the image of a contiguous non-empty run of whole records -/
theorem nextChunk_rec (s s' : Base) (cur ah : List Bytes) (r : Option Bytes)
    (h : nextChunk Fmt.recordio s = .ok (r, s')) (hinv : GInv s cur ah) :
    (s'.files = s.files ∧ s'.offBegin = s.offBegin ∧ s'.offEnd = s.offEnd ∧ s'.bufWords = s.bufWords) ∧
    match r with
    | some b => ∃ run ah', run ≠ [] ∧ b = writeAll run ∧ GInv s' [] ah' ∧ run ++ ah' = cur ++ ah
    | none => cur = [] ∧ ah = [] ∧ GInv s' [] [] := by
  unfold nextChunk at h
  obtain ⟨m1, m2⟩ := nextLoop_rec _ _ extRec_chunk 3 s s' r cur ah h hinv
  refine ⟨m1, ?_⟩
  cases r with
  | none => exact m2
  | some b =>
    obtain ⟨run, cur', ah', n1, ⟨n2, n2'⟩, n3, n4⟩ := m2
    subst n2'
    exact ⟨run, ah', n1, n2, n3, n4⟩

/-! ### a full drain of a bare recordio split -/

/-- `NextRecord` (`rec = true`) / `NextChunk` in one statement: the blob is the next record, resp. the image
of the next non-empty run of records -/
theorem next_rec (rec : Bool) (s s' : Base) (cur ah : List Bytes) (r : Option Bytes)
    (h : (if rec then nextRecord Fmt.recordio s else nextChunk Fmt.recordio s) = .ok (r, s'))
    (hinv : GInv s cur ah) :
    (s'.files = s.files ∧ s'.offBegin = s.offBegin ∧ s'.offEnd = s.offEnd ∧ s'.bufWords = s.bufWords) ∧
    match r with
    | some b => ∃ run cur' ah', run ≠ [] ∧ (if rec then run = [b] else b = writeAll run) ∧
        GInv s' cur' ah' ∧ run ++ (cur' ++ ah') = cur ++ ah
    | none => cur = [] ∧ ah = [] ∧ GInv s' [] [] := by
  cases rec with
  | true =>
    simp only [if_true] at h
    obtain ⟨m1, m2⟩ := nextRecord_rec s s' cur ah r h hinv
    refine ⟨m1, ?_⟩
    cases r with
    | none => exact m2
    | some b =>
      obtain ⟨cur', ah', n1, n2⟩ := m2
      exact ⟨[b], cur', ah', by simp, by simp, n1, n2⟩
  | false =>
    simp only [Bool.false_eq_true, if_false] at h
    obtain ⟨m1, m2⟩ := nextChunk_rec s s' cur ah r h hinv
    refine ⟨m1, ?_⟩
    cases r with
    | none => exact m2
    | some b =>
      obtain ⟨run, ah', n1, n2, n3, n4⟩ := m2
      exact ⟨run, [], ah', n1, by simpa using n2, n3, by simpa using n4⟩

theorem drainGo_rec (pick : Nat → Bool) :
    ∀ (fuel i : Nat) (s : St) (acc : List Bytes) (s' : St) (bs : List Bytes) (cur ah : List Bytes),
    s.wrap = none → GInv s.base cur ah → drainGo Fmt.recordio pick fuel i s acc = (s', .ok bs) →
    (s'.wrap = none ∧ GInv s'.base [] [] ∧
      s'.base.files = s.base.files ∧ s'.base.offBegin = s.base.offBegin ∧ s'.base.offEnd = s.base.offEnd ∧
      s'.base.bufWords = s.base.bufWords) ∧
    ∃ (runs : List (List Bytes)) (new : List Bytes), bs = acc ++ new ∧ runs.length = new.length ∧
      runs.flatten = cur ++ ah ∧
      ∀ j b run, new[j]? = some b → runs[j]? = some run →
        run ≠ [] ∧ (if pick (i + j) then run = [b] else b = writeAll run) := by
  intro fuel
  induction fuel with
  | zero => intro i s acc s' bs cur ah _ _ h; rw [drainGo_zero] at h; cases h
  | succ fuel ih =>
    intro i s acc s' bs cur ah hw hinv h
    rw [drainGo_succ, step_bare _ _ hw] at h
    cases hx : (if pick i then nextRecord Fmt.recordio s.base else nextChunk Fmt.recordio s.base) with
    | error e => rw [hx] at h; simp only [bareOut, drainStep] at h; cases h
    | ok res =>
      obtain ⟨r, b1⟩ := res
      rw [hx] at h
      obtain ⟨⟨m2, m3, m4, m5⟩, m6⟩ := next_rec (pick i) s.base b1 cur ah r hx hinv
      cases r with
      | none =>
        simp only [bareOut, outOf, drainStep] at h
        cases h
        obtain ⟨e1, e2, e3⟩ := m6
        refine ⟨⟨hw, e3, m2, m3, m4, m5⟩, [], [], by simp, rfl, by rw [e1, e2]; rfl, ?_⟩
        intro j b run hj; simp at hj
      | some b =>
        simp only [bareOut, outOf, drainStep] at h
        obtain ⟨run, cur', ah', k1, k2, k3, k4⟩ := m6
        obtain ⟨⟨n1, n2, n4, n5, n6, n7⟩, runs, new, hbs, hlen, hfl, hidx⟩ :=
          ih (i + 1) { s with base := b1 } (acc ++ [b]) s' bs cur' ah' hw k3 h
        refine ⟨⟨n1, n2, n4.trans m2, n5.trans m3, n6.trans m4, n7.trans m5⟩, run :: runs, b :: new,
          by rw [hbs]; simp, by simp [hlen], by rw [List.flatten_cons, hfl, k4], ?_⟩
        intro j b' run' hj hr
        cases j with
        | zero =>
          simp only [List.getElem?_cons_zero, Option.some.injEq] at hj hr
          subst hj; subst hr
          exact ⟨k1, k2⟩
        | succ j =>
          rw [List.getElem?_cons_succ] at hj hr
          have e : i + (j + 1) = i + 1 + j := by omega
          rw [e]
          exact hidx j b' run' hj hr

/-- C04 (recordio, bare split, partial correctness): the blobs of a full drain correspond one-to-one to
consecutive non-empty runs of the records that were still to be delivered: a `NextRecord` blob is exactly the
next record, a `NextChunk` blob is the image of the next run of whole records -/
theorem drain_rec (s : St) (hw : s.wrap = none) (cur ah : List Bytes) (hinv : GInv s.base cur ah)
    (pick : Nat → Bool) (bs : List Bytes) (s' : St) (h : drain Fmt.recordio pick s = (s', .ok bs)) :
    ∃ runs : List (List Bytes), runs.length = bs.length ∧ runs.flatten = cur ++ ah ∧
      (∀ i b run, bs[i]? = some b → runs[i]? = some run →
        run ≠ [] ∧ (if pick i then run = [b] else b = writeAll run)) := by
  unfold drain at h
  obtain ⟨_, runs, new, hbs, hlen, hfl, hidx⟩ := drainGo_rec pick _ 0 s [] s' bs cur ah hw hinv h
  simp only [List.nil_append] at hbs
  subst hbs
  refine ⟨runs, hlen, hfl, ?_⟩
  intro i b run hi hr
  have := hidx i b run hi hr
  rwa [Nat.zero_add] at this

/-- the state a full drain ends in: still bare, nothing left, same frame -/
theorem drain_rec_final (s : St) (hw : s.wrap = none) (cur ah : List Bytes) (hinv : GInv s.base cur ah)
    (pick : Nat → Bool) (bs : List Bytes) (s' : St) (h : drain Fmt.recordio pick s = (s', .ok bs)) :
    s'.wrap = none ∧ GInv s'.base [] [] ∧
    s'.base.files = s.base.files ∧ s'.base.offBegin = s.base.offBegin ∧ s'.base.offEnd = s.base.offEnd ∧
    s'.base.bufWords = s.base.bufWords := by
  unfold drain at h
  exact (drainGo_rec pick _ 0 s [] s' bs cur ah hw hinv h).1

/-- binary mode: no bytes are injected, the pending stream is at most the rest of the part -/
theorem pending_rec_length_le (s : Base) (hR : RInv s) :
    (pending Fmt.recordio s).length ≤ s.offEnd - s.offCurr := by
  by_cases hfp : s.fpos = none
  · simp [pending, hfp]
  · by_cases hpart : s.offBegin < s.offEnd
    · rw [pending_binary_length Fmt.recordio s hR rfl hpart hfp]; omega
    · cases h : s.fpos with
      | none => exact absurd h hfp
      | some p => simp only [pending, h]; rw [if_pos (by omega)]; simp

/-- a state with nothing buffered (what `ResetPartition` / `BeforeFirst` leave, cf. `Clean`) satisfies the
invariant when its pending stream is the image of a record list and the sizes are in range -/
theorem GInv_of_clean (s : Base) (hR : RInv s) (hc : s.chunk.rest = []) (ho : s.overflow = [])
    (ah : List Bytes) (hah : Short ah) (hp : pending Fmt.recordio s = writeAll ah)
    (ht : totalSize s.files < 2^56) (hb2 : 2 ≤ s.bufWords) (hb : s.bufWords < 2^56) : GInv s [] ah := by
  have he : s.offEnd ≤ totalSize s.files := hR.2.1
  refine ⟨hR, by rw [hc]; rfl, by rw [ho, hp]; rfl, short_nil, hah, fun h => absurd rfl h, ht, hb2, hb, ?_⟩
  rw [← hp]
  have := pending_rec_length_le s hR
  omega

/-! ### totality (`C04_no_error`) -/

/-- `ReadChunk` raises no error when the look-ahead is a record image and the buffer holds at least two words
(`CHECK(p >= pbegin + 2)`, `CHECK_EQ(end & 3, 0)` of `FindLastRecordBegin` do not fire) -/
theorem readChunk_rec_total (F : Fmt) (hB : F.isText = false) (hFL : F.findLastRecordBegin = recFindLast)
    (s : Base) (ah : List Bytes) (maxSize : Nat) (hinv : RInv s) (hah : ahead F s = writeAll ah)
    (hS : Short ah) (ht : totalSize s.files < 2^62) (hm : maxSize < 2^62) (hm4 : maxSize % 4 = 0)
    (hm8 : 8 ≤ maxSize) : ∃ r, readChunk F s maxSize = .ok r := by
  unfold readChunk
  rw [rcTooSmall_spec]
  by_cases hsmall : maxSize ≤ s.overflow.length
  · simp only [hsmall, decide_true, if_true]; exact ⟨_, rfl⟩
  · simp only [hsmall, decide_false, Bool.false_eq_true, if_false]
    rw [rcReadSize_spec _ _ (by omega) (by omega)]
    obtain ⟨⟨bytes, s1⟩, hrd⟩ := readTotalB F { s with overflow := [] } (maxSize - s.overflow.length)
      ((RInv_overflow s []).2 hinv) ht (by omega)
    obtain ⟨_, hpend, hlen, _⟩ := readSpecB F _ _ _ _ hrd ((RInv_overflow s []).2 hinv) ht (by omega)
    have hpend : bytes ++ pending F s1 = pending F s := hpend
    simp only [hrd]
    by_cases hz : (s.overflow ++ bytes).length = 0
    · simp only [hz, if_true]; exact ⟨_, rfl⟩
    · simp only [hz, if_false, hB, true_and, Bool.false_eq_true, false_and]
      by_cases hsh : rcShort (s.overflow ++ bytes).length maxSize = true
      · simp only [hsh, if_true]; exact ⟨_, rfl⟩
      · simp only [hsh, if_false, Bool.false_eq_true]
        have hfull : (s.overflow ++ bytes).length = maxSize := by
          by_cases e : (s.overflow ++ bytes).length = maxSize
          · exact e
          · exact absurd ((rcShort_spec _ _).2 e) hsh
        have hcat : (s.overflow ++ bytes) ++ pending F s1 = writeAll ah := by
          rw [← hah]; unfold ahead; rw [← hpend, List.append_assoc]
        have hbuf : s.overflow ++ bytes = (writeAll ah).take maxSize := by
          rw [← hcat, ← hfull]; exact (List.take_left' rfl).symm
        have hml : maxSize ≤ (writeAll ah).length := by
          rw [← hcat, List.length_append]; omega
        obtain ⟨cut, hcut, _⟩ := recFindLast_spec ah hS maxSize hm4 hm8 hml (by omega)
        rw [hFL, hbuf, hcut]
        exact ⟨_, rfl⟩

/-- the doubling loop of `Chunk::Load` ends without error (same measure as for the text format: bytes still
pending, plus how far the buffer is from exceeding the carry-over) -/
theorem loadLoop_rec_total_aux (ah : List Bytes) (hS : Short ah) (K : Nat) (hK : K ≤ 2^57) :
    ∀ (fuel : Nat) (s : Base) (dw : Nat), RInv s → totalSize s.files < 2^62 →
    ahead Fmt.recordio s = writeAll ah → (ahead Fmt.recordio s).length + 4 ≤ 2 * K →
    DwOk K (pending Fmt.recordio s).length dw → 3 ≤ dw →
    (pending Fmt.recordio s).length + ((s.overflow.length + 1) - 4 * (dw - 1)) + 1 ≤ fuel →
    ∃ r, loadLoop Fmt.recordio fuel s dw = .ok r := by
  have hB : Fmt.recordio.isText = false := rfl
  intro fuel
  induction fuel with
  | zero => intro s dw _ _ _ _ _ _ hf; omega
  | succ fuel ih =>
    intro s dw hinv ht hah hTl hdw hdw3 hfuel
    have hdw8 : 1 ≤ dw ∧ dw ≤ 8 * K := by unfold DwOk at hdw; omega
    have hls : loadSize dw = 4 * (dw - 1) := loadSize_spec dw hdw8.1 (by omega)
    rw [loadLoop_succ]
    obtain ⟨⟨ro, s1⟩, hrc⟩ := readChunk_rec_total Fmt.recordio hB rfl s ah (loadSize dw) hinv hah hS ht
      (by omega) (by omega) (by omega)
    rw [hrc]
    cases ro with
    | none => simp only [loadStep]; exact ⟨_, rfl⟩
    | some c =>
      cases c with
      | cons a l => simp only [loadStep]; exact ⟨_, rfl⟩
      | nil =>
        simp only [loadStep]
        obtain ⟨hinv1, hf, -⟩ :=
          readChunk_spec Fmt.recordio (readSpecB _) cutOk_rec s s1 (loadSize dw) _ hrc hinv ht (by omega)
        obtain ⟨htl, hcs⟩ :=
          readChunk_zero_cases Fmt.recordio (readSpecB _) (ReadShortB_of_binary _ hB) (CutEol_of_binary _ hB)
            s s1 (loadSize dw) hrc hinv ht (by omega)
        rw [loadGrow_spec dw (by omega)]
        rw [hls] at hcs
        have hlen : (ahead Fmt.recordio s).length = s.overflow.length + (pending Fmt.recordio s).length := by
          unfold ahead; rw [List.length_append]
        have hlen1 : (ahead Fmt.recordio s1).length
            = s1.overflow.length + (pending Fmt.recordio s1).length := by
          unfold ahead; rw [List.length_append]
        rw [htl] at hlen1
        apply ih s1 (2 * dw) hinv1 (by rw [hf]; exact ht) (by rw [htl]; exact hah) (by rw [htl]; exact hTl)
        · unfold DwOk at hdw ⊢
          rcases hcs with ⟨rfl, hsm⟩ | ⟨h1, h2, h3, h4⟩
          · omega
          · omega
        · omega
        · rcases hcs with ⟨rfl, hsm⟩ | ⟨h1, h2, h3, h4⟩
          · omega
          · omega

/-- `Chunk::Load` ends without error, within the iteration bound of its doubling loop -/
theorem load_rec_total (s : Base) (ah : List Bytes) (c0 : Chunk) (hinv : GInv s [] ah) :
    ∃ r, load Fmt.recordio s c0 = .ok r := by
  obtain ⟨hR, _, hah, _, hSa, _, hts, hb2, hbw, hal⟩ := hinv
  have hahd : ahead Fmt.recordio s = writeAll ah := hah
  have hp := pending_rec_length_le s hR
  rw [load_unfold, loadResize_spec _ (by omega)]
  obtain ⟨⟨r, s1, dw1⟩, hL⟩ :=
    loadLoop_rec_total_aux ah hSa (2^56) (by omega) (loadFuel s) s (s.bufWords + 1) hR (by omega) hahd
      (by rw [hahd]; omega) (DwOk_of_le _ _ _ (by omega) (by omega)) (by omega)
      (by rw [loadFuel_spec]; omega)
  rw [hL]
  cases r with
  | none => simp only [loadFin]; exact ⟨_, rfl⟩
  | some c => simp only [loadFin]; exact ⟨_, rfl⟩

theorem nextLoop_rec_total_nonempty (ext : Chunk → Except Err (Option (Bytes × Chunk)))
    (R : Bytes → List Bytes → List Bytes → Prop) (hX : ExtRec ext R)
    (fuel : Nat) (s : Base) (cur ah : List Bytes) (hinv : GInv s cur ah) (hne : cur ≠ []) :
    ∃ r, nextLoop Fmt.recordio ext (fuel + 1) s = .ok r := by
  obtain ⟨_, _, b, c', _, _, hx, _⟩ :=
    (hX s.chunk cur hinv.2.1 hinv.2.2.2.1 hinv.2.2.2.2.2.1).2 hne
  rw [nextLoop_succ, hx]
  simp only [nextStep]
  exact ⟨_, rfl⟩

theorem nextLoop_rec_total (ext : Chunk → Except Err (Option (Bytes × Chunk)))
    (R : Bytes → List Bytes → List Bytes → Prop) (hX : ExtRec ext R)
    (fuel : Nat) (s : Base) (cur ah : List Bytes) (hinv : GInv s cur ah) :
    ∃ r, nextLoop Fmt.recordio ext (fuel + 2) s = .ok r := by
  by_cases hne : cur = []
  · subst hne
    have hx := (hX s.chunk [] hinv.2.1 hinv.2.2.2.1 hinv.2.2.2.2.2.1).1 rfl
    obtain ⟨⟨ok, s1, c⟩, hl⟩ := load_rec_total s ah s.chunk hinv
    rw [nextLoop_succ, hx, hl]
    obtain ⟨_, _, _, _, _, k7⟩ := load_rec s s1 c ok ah hl hinv
    cases ok with
    | false => simp only [nextStep]; exact ⟨_, rfl⟩
    | true =>
      simp only [nextStep]
      obtain ⟨cur1, ah1, e1, _, e3⟩ := k7 rfl
      exact nextLoop_rec_total_nonempty ext R hX fuel _ cur1 ah1 e3 e1
  · exact nextLoop_rec_total_nonempty ext R hX (fuel + 1) s cur ah hinv hne

theorem nextRecord_rec_total (s : Base) (cur ah : List Bytes) (hinv : GInv s cur ah) :
    ∃ r, nextRecord Fmt.recordio s = .ok r := by
  unfold nextRecord
  exact nextLoop_rec_total _ _ extRec_record 1 s cur ah hinv

theorem nextChunk_rec_total (s : Base) (cur ah : List Bytes) (hinv : GInv s cur ah) :
    ∃ r, nextChunk Fmt.recordio s = .ok r := by
  unfold nextChunk
  exact nextLoop_rec_total _ _ extRec_chunk 1 s cur ah hinv

theorem drainGo_rec_total (pick : Nat → Bool) :
    ∀ (fuel i : Nat) (s : St) (acc : List Bytes) (cur ah : List Bytes), s.wrap = none → GInv s.base cur ah →
    (cur ++ ah).length + 1 ≤ fuel →
    ∃ bs s', drainGo Fmt.recordio pick fuel i s acc = (s', .ok bs) := by
  intro fuel
  induction fuel with
  | zero => intro i s acc cur ah _ _ h; omega
  | succ fuel ih =>
    intro i s acc cur ah hw hinv hf
    rw [drainGo_succ, step_bare _ _ hw]
    have htot : ∃ r, (if pick i then nextRecord Fmt.recordio s.base else nextChunk Fmt.recordio s.base)
        = .ok r := by
      cases pick i with
      | true => simp only [if_true]; exact nextRecord_rec_total _ cur ah hinv
      | false => simp only [Bool.false_eq_true, if_false]; exact nextChunk_rec_total _ cur ah hinv
    obtain ⟨⟨r, b1⟩, hx⟩ := htot
    obtain ⟨_, m6⟩ := next_rec (pick i) s.base b1 cur ah r hx hinv
    rw [hx]
    cases r with
    | none => simp only [bareOut, outOf, drainStep]; exact ⟨_, _, rfl⟩
    | some b =>
      simp only [bareOut, outOf, drainStep]
      obtain ⟨run, cur', ah', k1, _, k3, k4⟩ := m6
      have hl := congrArg List.length k4
      rw [List.length_append] at hl
      have hrl : 0 < run.length := List.length_pos_iff.2 k1
      exact ih (i + 1) { s with base := b1 } (acc ++ [b]) cur' ah' hw k3 (by omega)

/-- the iteration bound of `drain` covers the number of records still to be delivered -/
theorem drainM_rec_le_fuel (s : St) (hw : s.wrap = none) (cur ah : List Bytes) (hinv : GInv s.base cur ah) :
    (cur ++ ah).length + 1 ≤ drainFuel s := by
  obtain ⟨hR, hcr, hah, hSc, hSa, _⟩ := hinv
  have hp := pending_rec_length_le s.base hR
  have he : s.base.offEnd ≤ totalSize s.base.files := hR.2.1
  have h1 := writeAll_length_ge cur hSc
  have h2 := writeAll_length_ge ah hSa
  rw [← hcr] at h1
  rw [← hah, List.length_append] at h2
  unfold drainFuel
  simp only [hw, List.length_append]
  omega

/-- C04_no_error (recordio, bare split): a full drain ends without an abnormal outcome, within its
iteration bound -/
theorem drain_rec_total (s : St) (hw : s.wrap = none) (cur ah : List Bytes) (hinv : GInv s.base cur ah)
    (pick : Nat → Bool) : ∃ bs s', drain Fmt.recordio pick s = (s', .ok bs) := by
  unfold drain
  exact drainGo_rec_total pick _ 0 s [] cur ah hw hinv (drainM_rec_le_fuel s hw cur ah hinv)

/-- C04 for the recordio format on a bare split: a full drain ends normally and its blobs are, one by one,
the next record (`NextRecord`) resp. the image of the next non-empty run of whole records (`NextChunk`) of
the records that were still to be delivered, all of them, in order, each exactly once -/
theorem drain_rec_correct (s : St) (hw : s.wrap = none) (cur ah : List Bytes) (hinv : GInv s.base cur ah)
    (pick : Nat → Bool) :
    ∃ bs s', drain Fmt.recordio pick s = (s', .ok bs) ∧
      (∃ runs : List (List Bytes), runs.length = bs.length ∧ runs.flatten = cur ++ ah ∧
        (∀ i b run, bs[i]? = some b → runs[i]? = some run →
          run ≠ [] ∧ (if pick i then run = [b] else b = writeAll run))) ∧
      s'.wrap = none ∧ GInv s'.base [] [] := by
  obtain ⟨bs, s', h⟩ := drain_rec_total s hw cur ah hinv pick
  obtain ⟨h1, h2, _⟩ := drain_rec_final s hw cur ah hinv pick bs s' h
  exact ⟨bs, s', h, drain_rec s hw cur ah hinv pick bs s' h, h1, h2⟩

end DmlcModel.Split
