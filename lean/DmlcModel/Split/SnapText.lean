/-
Partition boundaries of the TEXT format (`LineSplitter`): the text `SeekRecordBegin` satisfies the generic
interface `SeekOk` of SnapLemmas, a snapped boundary is a cut point (`IsCut`), the boundaries `bndT` of an
`n`-way split are monotone cut points from `0` to `totalSize`, and the lines of the `n` part streams,
concatenated, are the lines of the files (final telescoping statement of property C03).  Core Lean only.
Auxiliary lemmas live in the namespace `DmlcModel.Split.SnapTextAux`.
-/
import DmlcModel.Split.TextLemmas
import DmlcModel.Split.StreamLemmas
import DmlcModel.Split.SnapLemmas

namespace DmlcModel.Split
open DmlcModel DmlcModel.Gen.Split

set_option linter.unusedVariables false

/-! ### 1. the text `SeekRecordBegin` satisfies `SeekOk` -/

namespace SnapTextAux

theorem textSeekEol_le_line (s : Bytes) : (textSeekEol s).1 ≤ (textSeekLine s).1 := by
  cases s with
  | nil => simp [textSeekEol, textSeekLine]
  | cons c r =>
    simp only [textSeekEol, textSeekLine, lsSeekNotEol_iff, lsSeekIsEol_iff]
    by_cases hc : isEol c = true
    · simp [hc]
    · have hc' : isEol c = false := by simpa using hc
      simp [hc']

/-- dropping one more byte never moves the reached line start backwards -/
theorem textSeekLine_step (s : Bytes) : (textSeekLine s).1 ≤ 1 + (textSeekLine (s.drop 1)).1 := by
  cases s with
  | nil => simp [textSeekLine]
  | cons b rest =>
    simp only [List.drop_succ_cons, List.drop_zero, textSeekLine, lsSeekIsEol_iff]
    by_cases hb : isEol b = true
    · have := textSeekEol_le_line rest
      simp [hb]; omega
    · have hb' : isEol b = false := by simpa using hb
      simp [hb']; omega

theorem textSeekLine_mono_step (s : Bytes) (i : Nat) :
    i + (textSeekLine (s.drop i)).1 ≤ (i + 1) + (textSeekLine (s.drop (i + 1))).1 := by
  have h := textSeekLine_step (s.drop i)
  rw [List.drop_drop] at h
  omega

theorem textSeekLine_mono (s : Bytes) (i : Nat) : ∀ (d : Nat),
    i + (textSeekLine (s.drop i)).1 ≤ (i + d) + (textSeekLine (s.drop (i + d))).1 := by
  intro d
  induction d with
  | zero => exact Nat.le_refl _
  | succ d ih =>
    have := textSeekLine_mono_step s (i + d)
    rw [← Nat.add_assoc]
    omega

end SnapTextAux
open SnapTextAux SnapAux

theorem seekOk_text : SeekOk Fmt.text := by
  constructor
  · intro s n c h
    simp only [Fmt.text] at h
    injection h with h
    have := textSeekLine_spec s
    rw [h] at this
    exact ⟨this.1, this.2.1⟩
  · intro s i j n m c d hij hj h h'
    simp only [Fmt.text] at h h'
    injection h with h
    injection h' with h'
    have := textSeekLine_mono s i (j - i)
    rw [show i + (j - i) = j by omega, h, h'] at this
    exact this

/-- `snap` raises no error in text mode on offsets of the files (`x ≤ totalSize files` is necessary:
`snap Fmt.text [[1]] 5 = .error .oob`) -/
theorem snap_text_ok (files : List Bytes) (x : Nat) (hx : x ≤ totalSize files) :
    ∃ y, snap Fmt.text files x = .ok y := by
  unfold snap
  simp only []
  by_cases hb : x = fileOffset files (filePtrOf files x)
  · rw [if_pos hb]; exact ⟨_, rfl⟩
  · rw [if_neg hb]
    have hxt : x < totalSize files := by
      by_cases hxt : x < totalSize files
      · exact hxt
      · have e : x = totalSize files := by omega
        have := filePtrOf_of_total_le files x (by omega)
        rw [this] at hb
        exact absurd e hb
    obtain ⟨f, hd, _, _⟩ := drop_filePtrOf files x hxt
    rw [hd]
    exact ⟨_, rfl⟩

/-! ### 2. a snapped boundary is a cut point -/

theorem isCut_inside (files : List Bytes) (i : Nat) (f : Bytes) (rest : List Bytes) (h : files.drop i = f :: rest)
    (p : Nat) (hp : p ≤ f.length)
    (hcut : p = 0 ∨ p = f.length ∨
      ((∃ a c, f.drop (p - 1) = a :: c ∧ isEol a = true ∧ 1 ≤ p) ∧ (∃ a c, f.drop p = a :: c ∧ isEol a = false))) :
    IsCut files (fileOffset files i + p) := by
  induction files generalizing i with
  | nil => simp at h
  | cons g gs ih =>
    cases i with
    | zero =>
      simp only [List.drop_zero, List.cons.injEq] at h
      obtain ⟨rfl, _⟩ := h
      rw [fileOffset_zero, Nat.zero_add]
      unfold IsCut
      rcases hcut with h0 | h1 | ⟨h2, h3⟩
      · exact Or.inl h0
      · exact Or.inr (Or.inl h1)
      · right; right; left
        refine ⟨?_, h2, h3⟩
        obtain ⟨a, c, hd, _⟩ := h3
        have hl : (List.drop p g).length = c.length + 1 := by rw [hd]; simp
        rw [List.length_drop] at hl
        omega
    | succ i =>
      simp only [List.drop_succ_cons] at h
      have := ih i h
      rw [fileOffset_cons_succ]
      unfold IsCut
      by_cases h0 : fileOffset gs i + p = 0
      · right; left; omega
      · right; right; right
        refine ⟨by omega, ?_⟩
        have e : g.length + fileOffset gs i + p - g.length = fileOffset gs i + p := by omega
        rw [e]; exact this

/-- (the non-emptiness hypothesis is not needed) -/
theorem snap_text_isCut (files : List Bytes) (hne : ∀ f ∈ files, f ≠ []) (x y : Nat) (hx : x ≤ totalSize files)
    (h : snap Fmt.text files x = .ok y) : IsCut files y := by
  rcases snap_cases Fmt.text files x y hx h with ⟨hb, rfl⟩ | ⟨f, n, c, hd, h1, h2, h3, hs, rfl⟩
  · rw [hb]; exact isCut_fileOffset files _ (filePtrOf_le files _)
  · simp only [Fmt.text] at hs
    injection hs with hs
    obtain ⟨s1, _, s3, s4⟩ := textSeekLine_spec (f.drop (x - fileOffset files (filePtrOf files x)))
    rw [hs] at s1 s3 s4
    simp only [] at s1 s3 s4
    rw [List.length_drop] at s1 s4
    generalize hfo : fileOffset files (filePtrOf files x) = fo at *
    have hne' : List.drop (x - fo) f ≠ [] := by
      intro he
      have := congrArg List.length he
      rw [List.length_drop] at this
      simp at this; omega
    have hn0 := s3 hne'
    have e : x + n = fo + ((x - fo) + n) := by omega
    rw [e, ← hfo]
    apply isCut_inside files _ f _ hd _ (by omega)
    rcases s4 with s4 | ⟨⟨a, c', hd1, ha⟩, ⟨a2, c2, hd2, ha2⟩⟩
    · right; left; omega
    · right; right
      rw [List.drop_drop] at hd1 hd2
      subst hfo
      refine ⟨⟨a, c', ?_, ha, by omega⟩, ⟨a2, c2, hd2, ha2⟩⟩
      rw [← hd1]; congr 1; omega

/-! ### 3. the boundaries of an `n`-way split -/

/-- the value of a successful computation (`0` for an abnormal outcome) -/
def okVal : Except Err Nat → Nat
  | .ok y => y
  | .error _ => 0

theorem okVal_ok (y : Nat) : okVal (.ok y) = y := rfl

/-- boundary `j` of an `n`-way split of text files, as a number (`bnd` never fails in text mode: `bnd_text_eq`).
Stated through `okVal` rather than an inline `match`: tactics reducing a `match` on `bnd Fmt.text …` unfold the
wrap-around arithmetic of `rawBnd` and do not terminate in practice. -/
def bndT (files : List Bytes) (n j : Nat) : Nat := okVal (bnd Fmt.text files n j)

theorem bnd_text_eq (files : List Bytes) (n j : Nat) : bnd Fmt.text files n j = .ok (bndT files n j) := by
  obtain ⟨y, hy⟩ := snap_text_ok files (rawBnd Fmt.text files n j) (rawBnd_le _ _ _ _)
  have hy' : bnd Fmt.text files n j = .ok y := hy
  unfold bndT
  rw [hy', okVal_ok]

/-- `bndT` in the inline-`match` form -/
theorem bndT_match (files : List Bytes) (n j : Nat) :
    bndT files n j = (match bnd Fmt.text files n j with | .ok y => y | .error _ => 0) := by
  rw [bnd_text_eq]

theorem bndT_zero (files : List Bytes) (n : Nat) : bndT files n 0 = 0 := by
  unfold bndT bnd
  rw [rawBnd_zero, snap_zero, okVal_ok]

theorem text_align : Fmt.text.align = 1 := rfl

theorem bndT_last (files : List Bytes) (n : Nat) (hne : ∀ f ∈ files, f ≠ []) (ht : totalSize files < 2^62)
    (hn0 : 0 < n) (hn : n < 2^32) : bndT files n n = totalSize files := by
  unfold bndT bnd
  rw [rawBnd_last Fmt.text files n (Or.inl text_align) ht hn0 hn, snap_total Fmt.text files hne, okVal_ok]

theorem bndT_mono (files : List Bytes) (n i j : Nat) (hne : ∀ f ∈ files, f ≠ []) (h : i ≤ j) :
    bndT files n i ≤ bndT files n j :=
  snap_mono Fmt.text files hne seekOk_text _ _ _ _ (rawBnd_mono Fmt.text files n i j h)
    (rawBnd_le _ _ _ _) (bnd_text_eq files n i) (bnd_text_eq files n j)

theorem bndT_le (files : List Bytes) (n j : Nat) (hne : ∀ f ∈ files, f ≠ []) : bndT files n j ≤ totalSize files :=
  (snap_bounds Fmt.text files hne seekOk_text _ _ (rawBnd_le _ _ _ _) (bnd_text_eq files n j)).2

theorem rawBnd_le_bndT (files : List Bytes) (n j : Nat) (hne : ∀ f ∈ files, f ≠ []) :
    rawBnd Fmt.text files n j ≤ bndT files n j :=
  (snap_bounds Fmt.text files hne seekOk_text _ _ (rawBnd_le _ _ _ _) (bnd_text_eq files n j)).1

theorem bndT_isCut (files : List Bytes) (n j : Nat) (hne : ∀ f ∈ files, f ≠ []) : IsCut files (bndT files n j) :=
  snap_text_isCut files hne _ _ (rawBnd_le _ _ _ _) (bnd_text_eq files n j)

/-! ### 4. telescoping: the parts partition the lines -/

/-- the lines of the first `m` part streams are the lines of the stream up to boundary `m` -/
theorem lines_parts_prefix (files : List Bytes) (hne : ∀ f ∈ files, f ≠ []) (n m : Nat) :
    (List.range m).flatMap (fun k => lines (rangeStream true files (bndT files n k) (bndT files n (k + 1))))
      = lines (rangeStream true files 0 (bndT files n m)) := by
  induction m with
  | zero =>
    rw [bndT_zero, rangeStream_self true files hne 0 (Nat.zero_le _)]
    simp [lines, fields_nil]
  | succ m ih =>
    rw [List.range_succ, List.flatMap_append, ih]
    simp only [List.flatMap_cons, List.flatMap_nil, List.append_nil]
    exact (lines_rangeStream_split files hne 0 (bndT files n m) (bndT files n (m + 1)) (Nat.zero_le _)
      (bndT_mono files n m (m + 1) hne (by omega)) (bndT_le files n (m + 1) hne) (bndT_isCut files n m hne)).symm

/-- C03, final telescoping: the lines of the `n` part streams, concatenated, are the lines of the files -/
theorem lines_parts_telescope (files : List Bytes) (hne : ∀ f ∈ files, f ≠ []) (n : Nat) (ht : totalSize files < 2^62)
    (hn0 : 0 < n) (hn : n < 2^32) :
    (List.range n).flatMap (fun k => lines (rangeStream true files (bndT files n k) (bndT files n (k + 1))))
      = files.flatMap lines := by
  rw [lines_parts_prefix files hne n n, bndT_last files n hne ht hn0 hn]
  exact lines_rangeStream_all files hne

end DmlcModel.Split
