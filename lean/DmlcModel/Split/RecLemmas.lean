/-
RecordIO format lemmas for the Split model (property C04): the three scanning functions of
`RecordIOSplitter` (`recSeekGo`, `recFindLast`, `recExtract`; src/io/recordio_split.cc) behave correctly on
byte strings produced by `RecordIOWriter::WriteRecord` (`writeAll rs`, every record shorter than 2^29).

Route: `img` is a direct recursive description of one record image (`writeGo_eq_img`); its word list is
`kMagic :: l :: t` with flag(l) ∈ {0,1} and `Tail t` (every later aligned magic word is a continuation
header with flag 2/3, no other word equals `kMagic`) — `img_words`; hence the head pattern occurs exactly
at record starts (`headAt_iff`).  R1 = `recSeek_spec`, R2 = `recFindLast_spec`, R3 = `recExtract_spec`.
-/
import DmlcModel.Split.Spec
import DmlcModel.RecordIO.Lemmas
import DmlcModel.RecordIO.RoundTrip
namespace DmlcModel.Split
open DmlcModel DmlcModel.Gen.Split DmlcModel.RecordIO DmlcModel.Gen.RecordIO

/-! ### generated kernels -/

theorem rsSeekAccept_iff (f : Nat) : rsSeekAccept f = true ↔ f = 0 ∨ f = 1 := by
  simp [rsSeekAccept]

theorem rsLastAccept_iff (f : Nat) : rsLastAccept f = true ↔ f = 0 ∨ f = 1 := by
  simp [rsLastAccept]

theorem rsSeekBack_spec (n : Nat) (h : n < 2 ^ 64) : rsSeekBack (n + 8) = n := by
  unfold rsSeekBack sub64 u64; omega

theorem rsLastStart_spec (p : Nat) (h2 : 2 ≤ p) (h : p < 2 ^ 64) : rsLastStart p = p - 2 := by
  unfold rsLastStart sub64; omega

theorem rsLastMinWords_spec : rsLastMinWords = 2 := rfl

theorem rsExtHeader_spec : rsExtHeader = 8 := by decide

theorem rsExtAdvance_spec (clen : Nat) (h : clen < 2 ^ 29) : rsExtAdvance clen = 8 + (clen + 3) / 4 * 4 := by
  unfold rsExtAdvance u64 u32
  rw [Nat.shiftRight_eq_div_pow, Nat.shiftLeft_eq]
  omega

theorem rsExtSingle_iff (f : Nat) : rsExtSingle f = true ↔ f = 0 := by simp [rsExtSingle]
theorem rsExtFirst_iff (f : Nat) : rsExtFirst f = true ↔ f = 1 := by simp [rsExtFirst]
theorem rsExtMore_iff (f : Nat) : rsExtMore f = true ↔ f ≠ 3 := by simp [rsExtMore]

/-! ### words -/

theorem toWords_lt4 (t : Bytes) (h : t.length < 4) : toWords t = [] := by
  match t, h with
  | [], _ => rfl
  | [_], _ => rfl
  | [_, _], _ => rfl
  | [_, _, _], _ => rfl
  | _ :: _ :: _ :: _ :: _, h => simp at h; omega

theorem toWords_append (a b : Bytes) (h : a.length % 4 = 0) : toWords (a ++ b) = toWords a ++ toWords b := by
  fun_induction toWords a with
  | case1 x y z w rest ih =>
    simp only [List.length_cons] at h
    simp only [List.cons_append, toWords]
    rw [ih (by omega)]
  | case2 t hnot =>
    match t, hnot, h with
    | [], _, _ => simp
    | [_], _, h => simp at h
    | [_, _], _, h => simp at h
    | [_, _, _], _, h => simp at h
    | x :: y :: z :: w :: r, hnot, _ => exact absurd rfl (hnot x y z w r)

theorem toWords_length (a : Bytes) : (toWords a).length = a.length / 4 := by
  fun_induction toWords a with
  | case1 x y z w rest ih => simp only [List.length_cons, ih]; omega
  | case2 t hnot =>
    match t, hnot with
    | [], _ => rfl
    | [_], _ => simp
    | [_, _], _ => simp
    | [_, _, _], _ => simp
    | x :: y :: z :: w :: r, hnot => exact absurd rfl (hnot x y z w r)

theorem toWords_drop (k : Nat) : ∀ a : Bytes, toWords (a.drop (4 * k)) = (toWords a).drop k := by
  induction k with
  | zero => intro a; simp
  | succ k ih =>
    intro a
    match a with
    | x :: y :: z :: w :: rest =>
      have : 4 * (k + 1) = 4 * k + 1 + 1 + 1 + 1 := by omega
      rw [this]
      simp only [List.drop_succ_cons, toWords]
      exact ih rest
    | [] => simp [toWords]
    | [_] => rw [toWords_lt4 _ (by simp; omega)]; simp [toWords]
    | [_, _] => rw [toWords_lt4 _ (by simp; omega)]; simp [toWords]
    | [_, _, _] => rw [toWords_lt4 _ (by simp; omega)]; simp [toWords]

theorem toWords_take (k : Nat) : ∀ a : Bytes, toWords (a.take (4 * k)) = (toWords a).take k := by
  induction k with
  | zero => intro a; simp [toWords]
  | succ k ih =>
    intro a
    match a with
    | x :: y :: z :: w :: rest =>
      have : 4 * (k + 1) = 4 * k + 1 + 1 + 1 + 1 := by omega
      rw [this]
      simp only [List.take_succ_cons, toWords]
      rw [ih rest]
    | [] => simp [toWords]
    | [_] => rw [toWords_lt4 _ (by simp; omega)]; simp [toWords]
    | [_, _] => rw [toWords_lt4 _ (by simp; omega)]; simp [toWords]
    | [_, _, _] => rw [toWords_lt4 _ (by simp; omega)]; simp [toWords]

theorem word32_magic : word32 0x0a 0x23 0xd7 0xce = kMagic := by decide

theorem word32_eq_magic (a b c d : Byte) (h : word32 a b c d = kMagic) : [a, b, c, d] = magicBytes := by
  have ha := UInt8.toNat_lt a
  have hb := UInt8.toNat_lt b
  have hc := UInt8.toNat_lt c
  have hd := UInt8.toNat_lt d
  rw [kMagic_val] at h
  unfold word32 at h
  have h1 : a = 0x0a := UInt8.toNat_inj.mp (by show a.toNat = 10; omega)
  have h2 : b = 0x23 := UInt8.toNat_inj.mp (by show b.toNat = 35; omega)
  have h3 : c = 0xd7 := UInt8.toNat_inj.mp (by show c.toNat = 215; omega)
  have h4 : d = 0xce := UInt8.toNat_inj.mp (by show d.toNat = 206; omega)
  rw [h1, h2, h3, h4, magicBytes_eq]

theorem toWords_hdr (x : Nat) (hx : x < 4294967296) (more : Bytes) :
    toWords (magicBytes ++ le32 x ++ more) = kMagic :: x :: toWords more := by
  conv => lhs; rw [magicBytes_eq]
  simp only [le32, List.cons_append, List.nil_append, toWords]
  rw [word32_le32 x hx, word32_magic]


/-! ### a direct description of the image of one record -/

def hdr (f n : Nat) : Bytes := magicBytes ++ le32 (encodeLRec f n)

theorem hdr_length (f n : Nat) : (hdr f n).length = 8 := by
  simp [hdr, magicBytes_length, le32_length]

/-- the bytes `WriteRecord` emits from the loop state `cur = bhead[dptr, i)`, remaining `bhead[i, len)`;
`first` = no part written yet (`dptr == 0`) -/
def img (first : Bool) (cur : Bytes) : Bytes → Bytes
  | a :: b :: c :: d :: rest =>
    if [a, b, c, d] = magicBytes then hdr (if first then 1 else 2) cur.length ++ cur ++ img false [] rest
    else img first (cur ++ [a, b, c, d]) rest
  | tail =>
    hdr (if first then 0 else 3) (cur ++ tail).length ++ (cur ++ tail) ++ zeros ((4 - tail.length % 4) % 4)

theorem img_short (first : Bool) (cur tail : Bytes) (h : tail.length < 4) :
    img first cur tail =
      hdr (if first then 0 else 3) (cur ++ tail).length ++ (cur ++ tail) ++ zeros ((4 - tail.length % 4) % 4) := by
  match tail, h with
  | [], _ => simp [img]
  | [_], _ => simp [img]
  | [_, _], _ => simp [img]
  | [_, _, _], _ => simp [img]
  | _ :: _ :: _ :: _ :: _, h => simp at h; omega

theorem img_magic (first : Bool) (cur rest : Bytes) :
    img first cur (magicBytes ++ rest) = hdr (if first then 1 else 2) cur.length ++ cur ++ img false [] rest := by
  rw [magicBytes_eq]
  simp only [List.cons_append, List.nil_append]
  rw [img, if_pos magicBytes_eq.symm]

theorem writeLast_eq (len dptr : Nat) (data : Bytes) (hlen : len < 2 ^ 29) (hle : dptr ≤ len)
    (hdata : data.length = len - dptr) :
    (writeGo.writeLast len dptr data).1 =
      hdr (if dptr == 0 then 0 else 3) data.length ++ data ++ zeros ((len + 3) / 4 * 4 - len) := by
  unfold writeGo.writeLast
  have hL : wLastLen len dptr = data.length := by unfold wLastLen sub32; omega
  have hflag : wLastFlag dptr = (if dptr == 0 then 0 else 3) := by
    unfold wLastFlag; by_cases h : dptr = 0 <;> simp [h]
  have hpart : part (wLastFlag dptr) (wLastLen len dptr) (len != dptr) data
      = magicBytes ++ le32 (encodeLRec (wLastFlag dptr) data.length) ++ data := by
    rw [hL]
    apply part_eq _ _ _ _ rfl
    exact bne_congr _ _ _ (by omega)
  have hua := wUpperAlign_spec len hlen
  have hpad : (if wPadNeeded (wUpperAlign len) len = true then zeros (wPadLen (wUpperAlign len) len) else [])
      = zeros ((len + 3) / 4 * 4 - len) := by
    rw [hua]
    unfold wPadNeeded wPadLen sub32
    by_cases h : (len + 3) / 4 * 4 = len
    · simp [h, zeros]
    · have : ((len + 3) / 4 * 4 + 4294967296 - len % 4294967296) % 4294967296 = (len + 3) / 4 * 4 - len := by omega
      simp [h, this]
  simp only [hpart, hpad]
  rw [hflag, hdr]

theorem writeGo_eq_img (len i dptr : Nat) (cur rest : Bytes) (h : WInv len i dptr cur rest) :
    (writeGo len i dptr cur rest).1 = img (dptr == 0) cur rest := by
  fun_induction writeGo len i dptr cur rest with
  | case1 i dptr cur a b c d rest hlt hm p r ih =>
    obtain ⟨hlen, hi, hd, hle, hcur, hrest⟩ := h
    simp only [List.length_cons] at hrest
    have hL : wPartLen i dptr = cur.length := by unfold wPartLen sub32; omega
    have hpart : p = hdr (if dptr == 0 then 1 else 2) cur.length ++ cur := by
      show part _ _ _ _ = _
      rw [hL]
      unfold hdr
      apply part_eq _ _ _ _ rfl
      unfold wPartHasData
      exact bne_congr _ _ _ (by omega)
    have hnext : u32 (i + 4) = i + 4 ∧ wNextDptr i = i + 4 := by
      unfold wNextDptr u32; omega
    rw [hnext.1, hnext.2] at ih
    have hinv : WInv len (i + 4) (i + 4) [] rest := ⟨hlen, by omega, by omega, by omega, by simp, by omega⟩
    have hr : r.1 = img false [] rest := by
      show (writeGo len (u32 (i + 4)) (wNextDptr i) [] rest).1 = _
      rw [hnext.1, hnext.2, ih hinv]
      simp
    rw [img, if_pos hm, hpart, hr]
  | case2 i dptr cur a b c d rest hlt hm ih =>
    obtain ⟨hlen, hi, hd, hle, hcur, hrest⟩ := h
    simp only [List.length_cons] at hrest
    have hnext : u32 (i + 4) = i + 4 := by unfold u32; omega
    rw [hnext] at ih ⊢
    have hinv : WInv len (i + 4) dptr (cur ++ [a, b, c, d]) rest :=
      ⟨hlen, by omega, hd, by omega, by simp; omega, by omega⟩
    rw [ih hinv, img, if_neg hm]
  | case3 i dptr cur a b c d rest hlt =>
    obtain ⟨hlen, hi, hd, hle, hcur, hrest⟩ := h
    simp only [List.length_cons] at hrest
    exfalso
    rw [wLowerAlign_spec len (by omega)] at hlt
    omega
  | case4 i dptr cur tail hnot =>
    obtain ⟨hlen, hi, hd, hle, hcur, hrest⟩ := h
    have hl4 : tail.length < 4 := by
      match tail, hnot with
      | [], _ => simp
      | [_], _ => simp
      | [_, _], _ => simp
      | [_, _, _], _ => simp
      | x :: y :: z :: w :: r, hnot => exact absurd rfl (hnot x y z w r)
    rw [writeLast_eq len dptr (cur ++ tail) hlen (by omega) (by simp; omega)]
    have hpad : (len + 3) / 4 * 4 - len = (4 - tail.length % 4) % 4 := by omega
    rw [hpad]
    rw [img_short _ _ _ hl4]

theorem writeRecord_eq_img (r : Bytes) (h : r.length < 2 ^ 29) : (writeRecord r).1 = img true [] r := by
  unfold writeRecord
  rw [writeGo_eq_img _ 0 0 [] r (winv_init r h)]
  rfl


theorem img_length (first : Bool) (cur rest : Bytes) (hc : cur.length % 4 = 0) :
    (img first cur rest).length % 4 = 0 ∧ 8 + cur.length + rest.length ≤ (img first cur rest).length := by
  fun_induction img first cur rest with
  | case1 first cur a b c d rest hm ih =>
    have ih' := ih (by simp)
    simp only [List.length_append, hdr_length, List.length_cons, List.length_nil] at ih' ⊢
    omega
  | case2 first cur a b c d rest hm ih =>
    have ih' := ih (by simp; omega)
    simp only [List.length_append, List.length_cons, List.length_nil] at ih' ⊢
    omega
  | case3 first cur tail hnot =>
    simp only [List.length_append, hdr_length, zeros, List.length_replicate]
    omega

/-! ### word structure of a record image -/

/-- word lists without a record head: every magic word is followed by a length word with flag 2 or 3 -/
inductive Tail : List Nat → Prop
  | nil : Tail []
  | data {w : Nat} {ws : List Nat} : w ≠ kMagic → Tail ws → Tail (w :: ws)
  | cont {l : Nat} {ws : List Nat} : (decodeFlag l = 2 ∨ decodeFlag l = 3) → Tail ws → Tail (kMagic :: l :: ws)

theorem Tail.append {a b : List Nat} (ha : Tail a) (hb : Tail b) : Tail (a ++ b) := by
  induction ha with
  | nil => exact hb
  | data hw _ ih => exact Tail.data hw ih
  | cont hl _ ih => exact Tail.cont hl ih

theorem Tail.of_data {ws : List Nat} (h : ∀ w ∈ ws, w ≠ kMagic) : Tail ws := by
  induction ws with
  | nil => exact Tail.nil
  | cons w ws ih => exact Tail.data (h w (by simp)) (ih (fun x hx => h x (by simp [hx])))

theorem flag_ne_magic {l : Nat} (h : decodeFlag l ≠ 6) : l ≠ kMagic := by
  intro e; rw [e, decodeFlag_kMagic] at h; exact h rfl

theorem Tail.drop {ws : List Nat} (h : Tail ws) : ∀ k, Tail (ws.drop k) := by
  induction h with
  | nil => intro k; simpa using Tail.nil
  | data hw ht ih =>
    intro k
    cases k with
    | zero => exact Tail.data hw ht
    | succ k => simpa using ih k
  | cont hl ht ih =>
    intro k
    match k with
    | 0 => exact Tail.cont hl ht
    | 1 => exact Tail.data (flag_ne_magic (by omega)) ht
    | k + 2 => simpa using ih k

/-- a non-empty `Tail` does not start with a record head -/
theorem Tail.not_head {t rest : List Nat} (h : Tail t) (hne : t ≠ []) {l : Nat} {tl : List Nat}
    (he : t ++ rest = kMagic :: l :: tl) : ¬ (decodeFlag l = 0 ∨ decodeFlag l = 1) := by
  cases h with
  | nil => exact absurd rfl hne
  | data hw _ =>
    simp only [List.cons_append, List.cons.injEq] at he
    exact absurd he.1 hw
  | cont hl _ =>
    simp only [List.cons_append, List.cons.injEq] at he
    obtain ⟨_, h2, _⟩ := he
    subst h2; omega

theorem lastWord_ne_magic (tail : Bytes) (h : tail.length < 4) :
    ∀ w ∈ toWords (tail ++ zeros ((4 - tail.length % 4) % 4)), w ≠ kMagic := by
  match tail, h with
  | [], _ => simp [zeros, toWords]
  | [a], _ =>
    have := UInt8.toNat_lt a
    simp [zeros, toWords, word32, kMagic_val]; omega
  | [a, b], _ =>
    have := UInt8.toNat_lt a
    have := UInt8.toNat_lt b
    simp [zeros, toWords, word32, kMagic_val]; omega
  | [a, b, c], _ =>
    have := UInt8.toNat_lt a
    have := UInt8.toNat_lt b
    have := UInt8.toNat_lt c
    simp [zeros, toWords, word32, kMagic_val]; omega
  | _ :: _ :: _ :: _ :: _, h => simp at h; omega

theorem img_words (first : Bool) (cur rest : Bytes) (hc4 : cur.length % 4 = 0)
    (hcw : ∀ w ∈ toWords cur, w ≠ kMagic) (hlen : cur.length + rest.length < 2 ^ 29) :
    ∃ l t, toWords (img first cur rest) = kMagic :: l :: t ∧ Tail t ∧
      (if first then decodeFlag l = 0 ∨ decodeFlag l = 1 else decodeFlag l = 2 ∨ decodeFlag l = 3) := by
  fun_induction img first cur rest with
  | case1 first cur a b c d rest hm ih =>
    simp only [List.length_cons] at hlen
    obtain ⟨l', t', e', ht', hf'⟩ := ih (by simp) (by simp [toWords]) (by simp; omega)
    have hf : (if first then 1 else 2) < 8 := by cases first <;> simp
    refine ⟨encodeLRec (if first then 1 else 2) cur.length, toWords cur ++ kMagic :: l' :: t', ?_, ?_, ?_⟩
    · unfold hdr
      rw [List.append_assoc, toWords_hdr _ (encodeLRec_lt _ _ hf (by omega)), toWords_append _ _ hc4, e']
    · exact Tail.append (Tail.of_data hcw) (Tail.cont (by simpa using hf') ht')
    · rw [decodeFlag_encode _ _ hf (by omega)]
      cases first <;> simp
  | case2 first cur a b c d rest hm ih =>
    simp only [List.length_cons] at hlen
    apply ih (by simp; omega) _ (by simp; omega)
    intro w hw
    rw [toWords_append _ _ hc4] at hw
    simp only [toWords, List.mem_append, List.mem_singleton] at hw
    rcases hw with hw | hw
    · exact hcw w hw
    · intro e
      exact hm (word32_eq_magic a b c d (hw ▸ e))
  | case3 first cur tail hnot =>
    have hl4 : tail.length < 4 := by
      match tail, hnot with
      | [], _ => simp
      | [_], _ => simp
      | [_, _], _ => simp
      | [_, _, _], _ => simp
      | x :: y :: z :: w :: r, hnot => exact absurd rfl (hnot x y z w r)
    have hf : (if first then 0 else 3) < 8 := by cases first <;> simp
    refine ⟨encodeLRec (if first then 0 else 3) (cur ++ tail).length,
      toWords cur ++ toWords (tail ++ zeros ((4 - tail.length % 4) % 4)), ?_, ?_, ?_⟩
    · unfold hdr
      rw [List.append_assoc, toWords_hdr _ (encodeLRec_lt _ _ hf (by simp; omega)), List.append_assoc,
        toWords_append _ _ hc4]
    · apply Tail.of_data
      intro w hw
      rw [List.mem_append] at hw
      rcases hw with hw | hw
      · exact hcw w hw
      · exact lastWord_ne_magic tail hl4 w hw
    · rw [decodeFlag_encode _ _ hf (by simp; omega)]
      cases first <;> simp


theorem record_words (r : Bytes) (h : r.length < 2 ^ 29) :
    ∃ l t, toWords (writeRecord r).1 = kMagic :: l :: t ∧ Tail t ∧ (decodeFlag l = 0 ∨ decodeFlag l = 1) ∧
      (writeRecord r).1.length = 4 * (t.length + 2) := by
  rw [writeRecord_eq_img r h]
  obtain ⟨l, t, e, ht, hf⟩ := img_words true [] r rfl (by simp [toWords]) (by simpa using h)
  refine ⟨l, t, e, ht, by simpa using hf, ?_⟩
  have h4 := (img_length true [] r rfl).1
  have hl := toWords_length (img true [] r)
  rw [e] at hl
  simp only [List.length_cons] at hl
  omega

/-! ### record starts -/

/-- byte offsets at which a record image starts in `writeAll rs`, plus the total length -/
def headOffsets : List Bytes → List Nat
  | [] => [0]
  | r :: rs => 0 :: (headOffsets rs).map (· + (writeRecord r).1.length)

def IsHead (rs : List Bytes) (x : Nat) : Prop := x ∈ headOffsets rs

def Short (rs : List Bytes) : Prop := ∀ r ∈ rs, r.length < 2 ^ 29

theorem Short.head {r : Bytes} {rs : List Bytes} (h : Short (r :: rs)) : r.length < 2 ^ 29 := h r (by simp)
theorem Short.tail {r : Bytes} {rs : List Bytes} (h : Short (r :: rs)) : Short rs := fun x hx => h x (by simp [hx])

theorem isHead_nil (x : Nat) : IsHead [] x ↔ x = 0 := by simp [IsHead, headOffsets]

theorem isHead_cons (r : Bytes) (rs : List Bytes) (x : Nat) :
    IsHead (r :: rs) x ↔ x = 0 ∨ ∃ y, IsHead rs y ∧ x = y + (writeRecord r).1.length := by
  simp only [IsHead, headOffsets, List.mem_cons, List.mem_map]
  constructor
  · rintro (h | ⟨y, hy, rfl⟩)
    · exact Or.inl h
    · exact Or.inr ⟨y, hy, rfl⟩
  · rintro (h | ⟨y, hy, rfl⟩)
    · exact Or.inl h
    · exact Or.inr ⟨y, hy, rfl⟩

theorem isHead_zero (rs : List Bytes) : IsHead rs 0 := by
  cases rs with
  | nil => simp [isHead_nil]
  | cons r rs => rw [isHead_cons]; exact Or.inl rfl

theorem isHead_iff (rs : List Bytes) (x : Nat) :
    IsHead rs x ↔ ∃ j, j ≤ rs.length ∧ x = (writeAll (rs.take j)).length := by
  induction rs generalizing x with
  | nil =>
    rw [isHead_nil]
    constructor
    · rintro rfl; exact ⟨0, by simp, by simp [writeAll]⟩
    · rintro ⟨j, _, rfl⟩; simp [writeAll]
  | cons r rs ih =>
    rw [isHead_cons]
    constructor
    · rintro (rfl | ⟨y, hy, rfl⟩)
      · exact ⟨0, by simp, by simp [writeAll]⟩
      · obtain ⟨j, hj, rfl⟩ := (ih y).mp hy
        exact ⟨j + 1, by simp; omega, by simp [writeAll]; omega⟩
    · rintro ⟨j, hj, rfl⟩
      cases j with
      | zero => left; simp [writeAll]
      | succ j =>
        right
        refine ⟨(writeAll (rs.take j)).length, (ih _).mpr ⟨j, by simp at hj; omega, rfl⟩, ?_⟩
        simp [writeAll]; omega

theorem writeAll_append (rs₁ rs₂ : List Bytes) : writeAll (rs₁ ++ rs₂) = writeAll rs₁ ++ writeAll rs₂ := by
  induction rs₁ with
  | nil => rfl
  | cons r rs ih => simp [writeAll, ih]

theorem writeAll_take_drop_head (rs : List Bytes) (j : Nat) :
    writeAll rs = writeAll (rs.take j) ++ writeAll (rs.drop j) := by
  rw [← writeAll_append, List.take_append_drop]

theorem writeAll_length_mod4 (rs : List Bytes) (h : Short rs) : (writeAll rs).length % 4 = 0 := by
  induction rs with
  | nil => rfl
  | cons r rs ih =>
    obtain ⟨l, t, _, _, _, hl⟩ := record_words r h.head
    have := ih h.tail
    simp only [writeAll, List.length_append]; omega

theorem isHead_mod4 (rs : List Bytes) (h : Short rs) (x : Nat) (hx : IsHead rs x) : x % 4 = 0 := by
  obtain ⟨j, _, rfl⟩ := (isHead_iff rs x).mp hx
  exact writeAll_length_mod4 _ (fun r hr => h r (List.mem_of_mem_take hr))

theorem isHead_le (rs : List Bytes) (x : Nat) (hx : IsHead rs x) : x ≤ (writeAll rs).length := by
  obtain ⟨j, _, rfl⟩ := (isHead_iff rs x).mp hx
  conv => rhs; rw [writeAll_take_drop_head rs j]
  simp

theorem isHead_total (rs : List Bytes) : IsHead rs (writeAll rs).length :=
  (isHead_iff rs _).mpr ⟨rs.length, Nat.le_refl _, by simp⟩

/-- words of a non-empty image: a head, the rest of the first record, the image of the others -/
theorem writeAll_words_cons (r : Bytes) (rs : List Bytes) (h : r.length < 2 ^ 29) :
    ∃ l t, toWords (writeAll (r :: rs)) = kMagic :: l :: (t ++ toWords (writeAll rs)) ∧ Tail t ∧
      (decodeFlag l = 0 ∨ decodeFlag l = 1) ∧ (writeRecord r).1.length = 4 * (t.length + 2) := by
  obtain ⟨l, t, e, ht, hf, hl⟩ := record_words r h
  refine ⟨l, t, ?_, ht, hf, hl⟩
  rw [writeAll, toWords_append _ _ (by omega), e]
  rfl


/-- positions inside the first record image (not its start): a non-empty `Tail`, then the other records -/
theorem drop_inside {l : Nat} {t W' : List Nat} (ht : Tail t) (hf : decodeFlag l = 0 ∨ decodeFlag l = 1)
    (k : Nat) (h0 : 0 < k) (hk : k < t.length + 2) :
    ∃ t', Tail t' ∧ t' ≠ [] ∧ t'.length = t.length + 2 - k ∧ (kMagic :: l :: (t ++ W')).drop k = t' ++ W' := by
  obtain ⟨j, rfl⟩ : ∃ j, k = j + 1 := ⟨k - 1, by omega⟩
  have hT : Tail (l :: t) := Tail.data (flag_ne_magic (by omega)) ht
  refine ⟨(l :: t).drop j, hT.drop j, ?_, ?_, ?_⟩
  · intro e
    have := congrArg List.length e
    simp at this; omega
  · simp
  · simp only [List.drop_succ_cons]
    rw [← List.cons_append, List.drop_append_of_le_length (by simp; omega)]

theorem drop_beyond {l : Nat} {t W' : List Nat} (k : Nat) (hk : t.length + 2 ≤ k) :
    (kMagic :: l :: (t ++ W')).drop k = W'.drop (k - (t.length + 2)) := by
  obtain ⟨j, rfl⟩ : ∃ j, k = (j + 1) + 1 := ⟨k - 2, by omega⟩
  simp only [List.drop_succ_cons]
  rw [List.drop_append]
  rw [List.drop_of_length_le (by omega)]
  simp

/-! ### R1: `SeekRecordBegin` -/

theorem recSeekGo_skip {w : Nat} (hw : w ≠ kMagic) (t : List Nat) (n : Nat) :
    recSeekGo (w :: t) n = recSeekGo t (n + 4) := by
  cases t with
  | nil => simp [recSeekGo, hw]
  | cons l ws => rw [recSeekGo, if_neg hw]

theorem recSeekGo_tail {t : List Nat} (ht : Tail t) (rest : List Nat) :
    ∀ n, recSeekGo (t ++ rest) n = recSeekGo rest (n + 4 * t.length) := by
  induction ht with
  | nil => intro n; simp
  | data hw _ ih =>
    intro n
    rw [List.cons_append, recSeekGo_skip hw, ih]
    simp only [List.length_cons]; congr 1; omega
  | @cont l ws hl _ ih =>
    intro n
    have hacc : rsSeekAccept (decodeFlag l) = false := by
      cases hb : rsSeekAccept (decodeFlag l) with
      | false => rfl
      | true => have := (rsSeekAccept_iff _).mp hb; omega
    simp only [List.cons_append]
    rw [recSeekGo, if_pos rfl, hacc]
    simp only [Bool.false_eq_true, if_false]
    rw [ih]
    simp only [List.length_cons]; congr 1; omega

theorem recSeekGo_head {l : Nat} (hf : decodeFlag l = 0 ∨ decodeFlag l = 1) (ws : List Nat) (n : Nat) :
    recSeekGo (kMagic :: l :: ws) n = .ok (rsSeekBack (n + 8), n + 8) := by
  rw [recSeekGo, if_pos rfl, if_pos ((rsSeekAccept_iff _).mpr hf)]

theorem seek_at_head (rs : List Bytes) (h : Short rs) (n : Nat) (hn : n < 2 ^ 64) :
    ∃ c, recSeekGo (toWords (writeAll rs)) n = .ok (n, c) ∧ c ≤ n + (writeAll rs).length := by
  cases rs with
  | nil => exact ⟨n, by simp [writeAll, toWords, recSeekGo], by simp⟩
  | cons r rs =>
    obtain ⟨l, t, e, ht, hf, hl⟩ := writeAll_words_cons r rs h.head
    refine ⟨n + 8, ?_, ?_⟩
    · rw [e, recSeekGo_head hf, rsSeekBack_spec n hn]
    · simp only [writeAll, List.length_append]; omega

theorem recSeek_words (rs : List Bytes) (h : Short rs) (hsz : (writeAll rs).length < 2 ^ 64) :
    ∀ k, 4 * k ≤ (writeAll rs).length →
      ∃ n c, recSeekGo ((toWords (writeAll rs)).drop k) 0 = .ok (n, c) ∧ IsHead rs (4 * k + n) ∧
        (∀ x, IsHead rs x → 4 * k ≤ x → 4 * k + n ≤ x) ∧ 4 * k + c ≤ (writeAll rs).length := by
  induction rs with
  | nil =>
    intro k hk
    simp only [writeAll, List.length_nil] at hk
    have : k = 0 := by omega
    subst this
    exact ⟨0, 0, by simp [writeAll, toWords, recSeekGo], isHead_zero _, by intros; omega, by simp⟩
  | cons r rs ih =>
    intro k hk
    obtain ⟨l, t, e, ht, hf, hl⟩ := writeAll_words_cons r rs h.head
    have hL : (writeAll (r :: rs)).length = (writeRecord r).1.length + (writeAll rs).length := by
      simp [writeAll]
    by_cases hk0 : k = 0
    · subst hk0
      obtain ⟨c, hc, hcl⟩ := seek_at_head (r :: rs) h 0 (by omega)
      exact ⟨0, c, by simpa using hc, isHead_zero _, by intros; omega, by omega⟩
    by_cases hk1 : k < t.length + 2
    · obtain ⟨t', ht', _, hlen', hd⟩ := drop_inside (W' := toWords (writeAll rs)) ht hf k (by omega) hk1
      obtain ⟨c, hc, hcl⟩ := seek_at_head rs h.tail (4 * t'.length) (by omega)
      refine ⟨4 * t'.length, c, ?_, ?_, ?_, ?_⟩
      · rw [e, hd, recSeekGo_tail ht']
        simpa using hc
      · rw [isHead_cons]; right
        exact ⟨0, isHead_zero _, by omega⟩
      · intro x hx hle
        rw [isHead_cons] at hx
        rcases hx with rfl | ⟨y, _, rfl⟩ <;> omega
      · omega
    · obtain ⟨n, c, hs, hh, hmin, hc⟩ := ih h.tail (by omega) (k - (t.length + 2)) (by omega)
      refine ⟨n, c, ?_, ?_, ?_, ?_⟩
      · rw [e, drop_beyond k (by omega)]; exact hs
      · rw [isHead_cons]; right
        exact ⟨_, hh, by omega⟩
      · intro x hx hle
        rw [isHead_cons] at hx
        rcases hx with rfl | ⟨y, hy, rfl⟩
        · omega
        · have := hmin y hy (by omega); omega
      · omega

/-- R1  `SeekRecordBegin` from any 4-aligned offset `i` of a file image reaches the least record start
`≥ i` (the total length counts as a record start) -/
theorem recSeek_spec (rs : List Bytes) (h : Short rs) (i : Nat) (hi4 : i % 4 = 0)
    (hi : i ≤ (writeAll rs).length) (hsz : (writeAll rs).length < 2 ^ 64) :
    ∃ n c, recSeekGo (toWords ((writeAll rs).drop i)) 0 = .ok (n, c) ∧ IsHead rs (i + n) ∧
      (∀ x, IsHead rs x → i ≤ x → i + n ≤ x) ∧ i + c ≤ (writeAll rs).length := by
  obtain ⟨k, rfl⟩ : ∃ k, i = 4 * k := ⟨i / 4, by omega⟩
  rw [toWords_drop]
  exact recSeek_words rs h hsz k hi


/-! ### R2: `FindLastRecordBegin` -/

/-- word `k` is a magic word followed by a length word with flag 0 or 1 -/
def HeadAt (ws : List Nat) (k : Nat) : Prop :=
  ∃ l tl, ws.drop k = kMagic :: l :: tl ∧ (decodeFlag l = 0 ∨ decodeFlag l = 1)

/-- self-synchronisation: in the image of a record sequence the head pattern occurs exactly at record starts -/
theorem headAt_iff (rs : List Bytes) (h : Short rs) :
    ∀ k, HeadAt (toWords (writeAll rs)) k ↔ IsHead rs (4 * k) ∧ 4 * k < (writeAll rs).length := by
  induction rs with
  | nil =>
    intro k
    simp [HeadAt, writeAll, toWords]
  | cons r rs ih =>
    intro k
    obtain ⟨l, t, e, ht, hf, hl⟩ := writeAll_words_cons r rs h.head
    have hL : (writeAll (r :: rs)).length = (writeRecord r).1.length + (writeAll rs).length := by
      simp [writeAll]
    by_cases hk0 : k = 0
    · subst hk0
      constructor
      · intro _; exact ⟨isHead_zero _, by omega⟩
      · intro _; exact ⟨l, _, by rw [e]; rfl, hf⟩
    by_cases hk1 : k < t.length + 2
    · obtain ⟨t', ht', hne, hlen', hd⟩ := drop_inside (W' := toWords (writeAll rs)) ht hf k (by omega) hk1
      constructor
      · rintro ⟨l', tl, hdrop, hacc⟩
        rw [e, hd] at hdrop
        exact absurd hacc (ht'.not_head hne hdrop)
      · rintro ⟨hx, _⟩
        rw [isHead_cons] at hx
        rcases hx with hx | ⟨y, _, hx⟩ <;> omega
    · have hd := drop_beyond (l := l) (t := t) (W' := toWords (writeAll rs)) k (by omega)
      have ih' := ih h.tail (k - (t.length + 2))
      unfold HeadAt at ih' ⊢
      rw [e, hd, ih', isHead_cons]
      constructor
      · rintro ⟨hh, hlt⟩
        exact ⟨Or.inr ⟨_, hh, by omega⟩, by omega⟩
      · rintro ⟨hx | ⟨y, hy, hx⟩, hlt⟩
        · omega
        · have : 4 * (k - (t.length + 2)) = y := by omega
          rw [this]; exact ⟨hy, by omega⟩

theorem headAt_take (ws : List Nat) (M k : Nat) (hk : k + 2 ≤ M) : HeadAt (ws.take M) k ↔ HeadAt ws k := by
  obtain ⟨j, rfl⟩ : ∃ j, M = k + (j + 2) := ⟨M - k - 2, by omega⟩
  unfold HeadAt
  rw [List.drop_take]
  have : k + (j + 2) - k = j + 2 := by omega
  rw [this]
  constructor
  · rintro ⟨l, tl, e, hf⟩
    match hd : ws.drop k, e with
    | [], e => simp at e
    | [a], e => simp at e
    | a :: b :: tl', e =>
      simp only [List.take_succ_cons, List.cons.injEq] at e
      exact ⟨b, tl', by rw [e.1], by rw [e.2.1]; exact hf⟩
  · rintro ⟨l, tl, e, hf⟩
    exact ⟨l, tl.take j, by rw [e]; rfl, hf⟩

theorem recFindLastGo_succ (ws : List Nat) (p : Nat) :
    recFindLastGo ws (p + 1) = 4 * (p + 1) ∧ HeadAt ws (p + 1) ∨
    recFindLastGo ws (p + 1) = recFindLastGo ws p ∧ ¬ HeadAt ws (p + 1) := by
  rw [recFindLastGo]
  split
  · rename_i w0 w1 tl hd
    by_cases hc : w0 = kMagic ∧ rsLastAccept (decodeFlag w1) = true
    · left
      rw [if_pos hc]
      exact ⟨rfl, w1, tl, by rw [hd, hc.1], (rsLastAccept_iff _).mp hc.2⟩
    · right
      rw [if_neg hc]
      refine ⟨rfl, ?_⟩
      rintro ⟨l, tl', e, hf⟩
      rw [hd] at e
      simp only [List.cons.injEq] at e
      exact hc ⟨e.1, by rw [e.2.1]; exact (rsLastAccept_iff _).mpr hf⟩
  · rename_i hno
    right
    refine ⟨rfl, ?_⟩
    rintro ⟨l, tl', e, hf⟩
    exact hno _ _ _ e

theorem recFindLastGo_spec (ws : List Nat) (p : Nat) :
    (recFindLastGo ws p = 0 ∨ ∃ k, recFindLastGo ws p = 4 * k ∧ 1 ≤ k ∧ k ≤ p ∧ HeadAt ws k) ∧
    (∀ k, 1 ≤ k → k ≤ p → HeadAt ws k → 4 * k ≤ recFindLastGo ws p) := by
  induction p with
  | zero => exact ⟨Or.inl (by simp [recFindLastGo]), by intros; omega⟩
  | succ p ih =>
    rcases recFindLastGo_succ ws p with ⟨e, hh⟩ | ⟨e, hh⟩
    · rw [e]
      refine ⟨Or.inr ⟨p + 1, rfl, by omega, by omega, hh⟩, ?_⟩
      intro k _ hk _; omega
    · rw [e]
      constructor
      · rcases ih.1 with h0 | ⟨k, hk, h1, h2, h3⟩
        · exact Or.inl h0
        · exact Or.inr ⟨k, hk, h1, by omega, h3⟩
      · intro k h1 hk hk'
        by_cases hkp : k = p + 1
        · subst hkp; exact absurd hk' hh
        · exact ih.2 k h1 (by omega) hk'

/-- R2  `FindLastRecordBegin` on a 4-aligned prefix (≥ 8 bytes) of an image: 0, or the last record start
that leaves ≥ 8 bytes after it -/
theorem recFindLast_spec (rs : List Bytes) (h : Short rs) (m : Nat) (hm4 : m % 4 = 0) (hm8 : 8 ≤ m)
    (hm : m ≤ (writeAll rs).length) (hsz : m < 2 ^ 64) :
    ∃ cut, recFindLast ((writeAll rs).take m) = .ok cut ∧ cut + 8 ≤ m ∧ (cut = 0 ∨ IsHead rs cut) ∧
      (∀ x, IsHead rs x → 0 < x → x + 8 ≤ m → x ≤ cut) := by
  obtain ⟨M, rfl⟩ : ∃ M, m = 4 * M := ⟨m / 4, by omega⟩
  have hlen : ((writeAll rs).take (4 * M)).length = 4 * M := by
    rw [List.length_take]; omega
  have hrun : recFindLast ((writeAll rs).take (4 * M))
      = .ok (recFindLastGo ((toWords (writeAll rs)).take M) (M - 2)) := by
    unfold recFindLast
    rw [hlen, if_neg (by omega), if_neg (by rw [rsLastMinWords_spec]; omega), toWords_take,
      show 4 * M / 4 = M by omega, rsLastStart_spec M (by omega) (by omega)]
  obtain ⟨h1, h2⟩ := recFindLastGo_spec ((toWords (writeAll rs)).take M) (M - 2)
  refine ⟨_, hrun, ?_, ?_, ?_⟩
  · rcases h1 with h0 | ⟨k, hk, _, _, _⟩ <;> omega
  · rcases h1 with h0 | ⟨k, hk, hk1, hk2, hk3⟩
    · exact Or.inl h0
    · right
      rw [hk]
      exact (((headAt_iff rs h k).mp ((headAt_take _ M k (by omega)).mp hk3))).1
  · intro x hx h0 hxm
    have hx4 := isHead_mod4 rs h x hx
    obtain ⟨k, rfl⟩ : ∃ k, x = 4 * k := ⟨x / 4, by omega⟩
    apply h2 k (by omega) (by omega)
    rw [headAt_take _ M k (by omega)]
    exact (headAt_iff rs h k).mpr ⟨hx, by omega⟩


/-! ### R3: `ExtractNextRecord` -/

theorem hdr_cons (x : Nat) (more : Bytes) :
    magicBytes ++ le32 x ++ more =
      0x0a :: 0x23 :: 0xd7 :: 0xce :: UInt8.ofNat (x % 256) :: UInt8.ofNat (x / 256 % 256) ::
        UInt8.ofNat (x / 65536 % 256) :: UInt8.ofNat (x / 16777216 % 256) :: more := by
  rw [magicBytes_eq]; rfl

theorem recExtractMore_hdr (fuel : Nat) (out : Bytes) (c : Chunk) (cflag x : Nat) (more : Bytes)
    (hx : x < 4294967296) (hc : c.rest = magicBytes ++ le32 x ++ more) (hm : cflag ≠ 3) :
    recExtractMore (fuel + 1) out c cflag =
      if more.length < decodeLength x ∨ c.rest.length < rsExtAdvance (decodeLength x) then .error .oob
      else recExtractMore fuel (out ++ magicBytes ++ more.take (decodeLength x))
        { c with begin := c.begin + rsExtAdvance (decodeLength x),
                 rest := c.rest.drop (rsExtAdvance (decodeLength x)) } (decodeFlag x) := by
  rw [recExtractMore, if_pos ((rsExtMore_iff _).mpr hm)]
  rw [hdr_cons] at hc
  split
  · rename_i m0 m1 m2 m3 l0 l1 l2 l3 body heq
    rw [hc] at heq
    simp only [List.cons.injEq] at heq
    obtain ⟨rfl, rfl, rfl, rfl, rfl, rfl, rfl, rfl, rfl⟩ := heq
    rw [word32_le32 x hx, if_pos word32_magic]
  · rename_i hno
    exact absurd hc (hno _ _ _ _ _ _ _ _ _)


theorem recExtract_hdr (c : Chunk) (x : Nat) (more : Bytes) (hx : x < 4294967296)
    (hc : c.rest = magicBytes ++ le32 x ++ more) (hb : c.begin % 4 = 0) (hl : more.length % 4 = 0) :
    recExtract c =
      if c.rest.length < rsExtAdvance (decodeLength x) then .error .check
      else if rsExtSingle (decodeFlag x) then
        .ok (some (more.take (decodeLength x),
          { c with begin := c.begin + rsExtAdvance (decodeLength x),
                   rest := c.rest.drop (rsExtAdvance (decodeLength x)) }))
      else if rsExtFirst (decodeFlag x) then
        recExtractMore (c.rest.length + 1) (more.take (decodeLength x))
          { c with begin := c.begin + rsExtAdvance (decodeLength x),
                   rest := c.rest.drop (rsExtAdvance (decodeLength x)) } (decodeFlag x)
      else .error .check := by
  have hlen : c.rest.length = 8 + more.length := by
    rw [hc]; simp [magicBytes_length, le32_length]; omega
  unfold recExtract
  rw [if_neg (by rw [hc, hdr_cons]; simp), if_neg (by rw [rsExtHeader_spec]; omega), if_neg (by omega)]
  rw [hdr_cons] at hc
  split
  · rename_i m0 m1 m2 m3 l0 l1 l2 l3 body heq
    rw [hc] at heq
    simp only [List.cons.injEq] at heq
    obtain ⟨rfl, rfl, rfl, rfl, rfl, rfl, rfl, rfl, rfl⟩ := heq
    rw [word32_le32 x hx]
  · rename_i hno
    exact absurd hc (hno _ _ _ _ _ _ _ _ _)

/-- facts about a well-formed part `hdr flag |data| ++ data ++ zeros pad ++ more` -/
theorem part_facts (data more : Bytes) (flag pad : Nat) (hf : flag < 8) (hn : data.length < 2 ^ 29)
    (hp : data.length + pad = (data.length + 3) / 4 * 4) (rest : Bytes)
    (hc : rest = hdr flag data.length ++ (data ++ zeros pad ++ more)) :
    encodeLRec flag data.length < 4294967296 ∧
    decodeLength (encodeLRec flag data.length) = data.length ∧
    decodeFlag (encodeLRec flag data.length) = flag ∧
    rsExtAdvance data.length = 8 + data.length + pad ∧
    rest.length = 8 + data.length + pad + more.length ∧
    (data ++ zeros pad ++ more).take data.length = data ∧
    rest.drop (8 + data.length + pad) = more := by
  refine ⟨encodeLRec_lt _ _ hf hn, decodeLength_encode _ _ hf hn, decodeFlag_encode _ _ hf hn, ?_, ?_, ?_, ?_⟩
  · rw [rsExtAdvance_spec _ hn]; omega
  · rw [hc]; simp [hdr_length, zeros]; omega
  · rw [List.append_assoc, List.take_left]
  · rw [hc]
    have : 8 + data.length + pad = (hdr flag data.length ++ (data ++ zeros pad)).length := by
      simp [hdr_length, zeros]; omega
    rw [this, ← List.append_assoc _ _ more, ← List.append_assoc, List.drop_left]

theorem recExtractMore_part (fuel : Nat) (out data more : Bytes) (c : Chunk) (cflag flag pad : Nat)
    (hf : flag < 8) (hn : data.length < 2 ^ 29) (hp : data.length + pad = (data.length + 3) / 4 * 4)
    (hc : c.rest = hdr flag data.length ++ (data ++ zeros pad ++ more)) (hm : cflag ≠ 3) :
    recExtractMore (fuel + 1) out c cflag =
      recExtractMore fuel (out ++ magicBytes ++ data)
        { c with begin := c.begin + (8 + data.length + pad), rest := more } flag := by
  obtain ⟨h1, h2, h3, h4, h5, h6, h7⟩ := part_facts data more flag pad hf hn hp c.rest hc
  rw [recExtractMore_hdr fuel out c cflag _ _ h1 (by rw [hc, hdr, List.append_assoc]) hm]
  rw [h2, h3, h4, h6, h7, if_neg]
  simp [zeros]; omega

theorem recExtract_part (data more : Bytes) (c : Chunk) (flag pad : Nat)
    (hf : flag = 0 ∨ flag = 1) (hn : data.length < 2 ^ 29) (hp : data.length + pad = (data.length + 3) / 4 * 4)
    (hc : c.rest = hdr flag data.length ++ (data ++ zeros pad ++ more))
    (hb : c.begin % 4 = 0) (hl : more.length % 4 = 0) :
    recExtract c =
      if flag = 0 then .ok (some (data, { c with begin := c.begin + (8 + data.length + pad), rest := more }))
      else recExtractMore (c.rest.length + 1) data
        { c with begin := c.begin + (8 + data.length + pad), rest := more } flag := by
  obtain ⟨h1, h2, h3, h4, h5, h6, h7⟩ := part_facts data more flag pad (by omega) hn hp c.rest hc
  rw [recExtract_hdr c _ (data ++ zeros pad ++ more) h1 (by rw [hc, hdr, List.append_assoc]) hb
    (by simp [zeros]; omega)]
  rw [h2, h3, h4, h6, h7, if_neg (by omega)]
  rcases hf with rfl | rfl
  · simp [rsExtSingle]
  · simp [rsExtSingle, rsExtFirst]

theorem recExtractMore_stop (fuel : Nat) (out : Bytes) (c : Chunk) :
    recExtractMore (fuel + 1) out c 3 = .ok (some (out, c)) := by
  rw [recExtractMore, if_neg (by simp [rsExtMore])]


theorem img_extract (first : Bool) (cur rest : Bytes) (hc4 : cur.length % 4 = 0)
    (hlen : cur.length + rest.length < 2 ^ 29) :
    (first = false → ∀ (fuel : Nat) (out : Bytes) (c : Chunk) (s : Bytes) (cflag : Nat),
        c.rest = img first cur rest ++ s → cflag ≠ 3 → rest.length + 1 < fuel →
        recExtractMore fuel out c cflag =
          .ok (some (out ++ magicBytes ++ cur ++ rest,
            { c with begin := c.begin + (img first cur rest).length, rest := s }))) ∧
    (first = true → ∀ (c : Chunk) (s : Bytes),
        c.rest = img first cur rest ++ s → c.begin % 4 = 0 → s.length % 4 = 0 →
        recExtract c =
          .ok (some (cur ++ rest, { c with begin := c.begin + (img first cur rest).length, rest := s }))) := by
  fun_induction img first cur rest with
  | case1 first cur a b c d rest hm ih =>
    simp only [List.length_cons] at hlen
    have ihQ := (ih (by simp) (by simp; omega)).1 rfl
    have hmr : a :: b :: c :: d :: rest = magicBytes ++ rest := by rw [← hm]; rfl
    have hL := img_length false [] rest rfl
    simp only [List.length_nil] at hL
    constructor
    · rintro rfl fuel out ch s cflag hc hcf hfuel
      simp only [List.length_cons] at hfuel
      obtain ⟨fuel, rfl⟩ : ∃ k, fuel = k + 1 := ⟨fuel - 1, by omega⟩
      have hc' : ch.rest = hdr 2 cur.length ++ (cur ++ zeros 0 ++ (img false [] rest ++ s)) := by
        rw [hc]; simp [zeros]
      rw [recExtractMore_part fuel out cur _ ch cflag 2 0 (by omega) (by omega) (by omega) hc' hcf]
      rw [ihQ fuel _ _ s 2 rfl (by omega) (by omega), hmr]
      simp only [List.length_append, hdr_length, Bool.false_eq_true, if_false, List.append_assoc,
        List.nil_append]
      congr 3
      simp only [Chunk.mk.injEq, true_and, and_true]
      omega
    · rintro rfl ch s hc hb hs
      have hc' : ch.rest = hdr 1 cur.length ++ (cur ++ zeros 0 ++ (img false [] rest ++ s)) := by
        rw [hc]; simp [zeros]
      rw [recExtract_part cur _ ch 1 0 (Or.inr rfl) (by omega) (by omega) hc' hb
        (by simp only [List.length_append]; omega)]
      rw [if_neg (by omega)]
      rw [ihQ _ _ _ s 1 rfl (by omega)
        (by rw [hc]; simp only [List.length_append, hdr_length]; omega), hmr]
      simp only [List.length_append, hdr_length, if_true, List.append_assoc, List.nil_append]
      simp only [Except.ok.injEq, Option.some.injEq, Prod.mk.injEq, Chunk.mk.injEq, true_and, and_true]
      omega
  | case2 first cur a b c d rest hm ih =>
    simp only [List.length_cons] at hlen
    have ih' := ih (by simp; omega) (by simp; omega)
    have e : cur ++ [a, b, c, d] ++ rest = cur ++ a :: b :: c :: d :: rest := by simp
    constructor
    · intro hf fuel out ch s cflag hc hcf hfuel
      simp only [List.length_cons] at hfuel
      have := ih'.1 hf fuel out ch s cflag hc hcf (by omega)
      rw [this]; simp
    · intro hf ch s hc hb hs
      rw [ih'.2 hf ch s hc hb hs, e]
  | case3 first cur tail hnot =>
    have hl4 : tail.length < 4 := by
      match tail, hnot with
      | [], _ => simp
      | [_], _ => simp
      | [_, _], _ => simp
      | [_, _, _], _ => simp
      | x :: y :: z :: w :: r, hnot => exact absurd rfl (hnot x y z w r)
    have hdl : (cur ++ tail).length = cur.length + tail.length := by simp
    constructor
    · rintro rfl fuel out ch s cflag hc hcf hfuel
      obtain ⟨fuel, rfl⟩ : ∃ k, fuel = k + 1 + 1 := ⟨fuel - 2, by omega⟩
      have hc' : ch.rest = hdr 3 (cur ++ tail).length ++
          ((cur ++ tail) ++ zeros ((4 - tail.length % 4) % 4) ++ s) := by
        rw [hc]; simp
      rw [recExtractMore_part (fuel + 1) out (cur ++ tail) s ch cflag 3 _ (by omega) (by omega) (by omega) hc' hcf]
      rw [recExtractMore_stop]
      simp only [List.length_append, hdr_length, zeros, List.length_replicate, List.append_assoc]
      congr 3
      simp only [Chunk.mk.injEq, true_and, and_true]
      omega
    · rintro rfl ch s hc hb hs
      have hc' : ch.rest = hdr 0 (cur ++ tail).length ++
          ((cur ++ tail) ++ zeros ((4 - tail.length % 4) % 4) ++ s) := by
        rw [hc]; simp
      rw [recExtract_part (cur ++ tail) s ch 0 _ (Or.inl rfl) (by omega) (by omega) hc' hb hs]
      simp only [List.length_append, hdr_length, zeros, List.length_replicate, if_true]

/-- R3  `ExtractNextRecord` on a chunk window that starts with the image of `r` -/
theorem recExtract_spec (r : Bytes) (rs : List Bytes) (h : Short (r :: rs)) (c : Chunk)
    (hc : c.rest = writeAll (r :: rs)) (hb : c.begin % 4 = 0) :
    recExtract c = .ok (some (r, { c with begin := c.begin + (writeRecord r).1.length, rest := writeAll rs })) := by
  have hr := writeRecord_eq_img r h.head
  have := (img_extract true [] r rfl (by simpa using h.head)).2 rfl c (writeAll rs)
    (by rw [hc, writeAll, hr]) hb (writeAll_length_mod4 rs h.tail)
  rw [this, hr]; simp

/-- every record image is at least one header long and 4-aligned -/
theorem writeRecord_length (r : Bytes) (h : r.length < 2 ^ 29) :
    8 ≤ (writeRecord r).1.length ∧ (writeRecord r).1.length % 4 = 0 := by
  obtain ⟨l, t, _, _, _, hl⟩ := record_words r h
  omega

theorem recExtract_nil (c : Chunk) (hc : c.rest = []) : recExtract c = .ok none := by
  unfold recExtract; simp [hc]

end DmlcModel.Split
