/-
The facts that hold only on the source tree WITH fix C05-1 (the early returns of `ResetPartition` and
`BeforeFirst` drop the buffered chunk and the carry-over): the two generated constants are `true`.
Only the C05 chain may import this file; C03 / C04 go through `ClearsOk` (SnapLemmas.lean) with the
"nothing buffered" disjunct and build on the unfixed tree as well.
-/
import DmlcModel.Split.SnapLemmas

namespace DmlcModel.Split
open DmlcModel DmlcModel.Gen.Split

theorem rpEmptyClears_true : rpEmptyClears = true := rfl
theorem bfEmptyClears_true : bfEmptyClears = true := rfl

theorem clearsOk_fixed (s : Base) : ClearsOk s := Or.inl ⟨rpEmptyClears_true, bfEmptyClears_true⟩

end DmlcModel.Split
