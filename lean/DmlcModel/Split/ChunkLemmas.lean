/-
Format-generic "byte conservation" layer for `readChunk`, `loadLoop`, `load` (they mirror
`InputSplitBase::ReadChunk` and `Chunk::Load` of src/io/input_split_base.cc): every chunk handed out is a
prefix of "carry-over ++ pending read stream", the rest stays in the carry-over / pending stream.
The `Read` layer and the format lemmas enter as explicit interface hypotheses (`ReadSpecB`, `ReadTotalB`,
`ReadShortB`, `CutOk`, `CutEol`, `TextCut`).  Core Lean only.
-/
import DmlcModel.Split.Spec

namespace DmlcModel.Split
open DmlcModel DmlcModel.Gen.Split

/-! ### interface hypotheses -/

/-- the Read layer (proved in ReadLemmas.lean for requests below 2^62) -/
def ReadSpecB (F : Fmt) : Prop :=
  ∀ (s : Base) (size : Nat) (bytes : Bytes) (s' : Base),
    read F s size = .ok (bytes, s') → RInv s → totalSize s.files < 2^62 → size < 2^62 →
    RInv s' ∧ bytes ++ pending F s' = pending F s ∧ bytes.length ≤ size ∧
    (bytes = [] → size = 0 ∨ pending F s = []) ∧
    s'.files = s.files ∧ s'.offBegin = s.offBegin ∧ s'.offEnd = s.offEnd ∧ s'.chunk = s.chunk ∧
    s'.overflow = s.overflow ∧ s'.bufWords = s.bufWords

def ReadTotalB (F : Fmt) : Prop :=
  ∀ (s : Base) (size : Nat), RInv s → totalSize s.files < 2^62 → size < 2^62 → ∃ r, read F s size = .ok r

/-- FindLastRecordBegin stays inside the buffer -/
def CutOk (F : Fmt) : Prop := ∀ buf cut, F.findLastRecordBegin buf = .ok cut → cut ≤ buf.length

/-- text only: a `Read` that returns fewer bytes than requested and injected no `'\n'` after its first
byte has used up the part except for at most two bytes (one real byte and the `'\n'` before it).
(True of `read`: it returns `min size (offEnd - offCurr)` bytes, every injected byte is a `'\n'` and
costs one byte of the request, and at most one `'\n'` is injected per remaining real byte.) -/
def ReadShortB (F : Fmt) : Prop :=
  F.isText = true →
  ∀ (s : Base) (size : Nat) (bytes : Bytes) (s' : Base),
    read F s size = .ok (bytes, s') → RInv s → totalSize s.files < 2^62 → size < 2^62 →
    bytes.length < size → (∀ b ∈ bytes.drop 1, b ≠ 10) → (pending F s').length ≤ 2

/-- text only: a `'\n'` behind the first byte of the buffer makes FindLastRecordBegin cut behind it -/
def CutEol (F : Fmt) : Prop :=
  F.isText = true →
  ∀ (buf : Bytes) (cut : Nat) (a : Byte) (pre post : Bytes),
    F.findLastRecordBegin buf = .ok cut → buf = a :: pre ++ 10 :: post → 0 < cut

/-- text FindLastRecordBegin facts (proved in TextLemmas.lean) -/
def TextCut (F : Fmt) : Prop :=
  (∀ buf, buf ≠ [] → ∃ cut, F.findLastRecordBegin buf = .ok cut) ∧
  (∀ buf cut a pre e post, F.findLastRecordBegin buf = .ok cut → buf = a :: pre ++ e :: post →
    (e = 10 ∨ e = 13) → 0 < cut)

theorem CutEol_of_TextCut (F : Fmt) (hT : TextCut F) : CutEol F :=
  fun _ buf cut a pre post h hb => hT.2 buf cut a pre 10 post h hb (Or.inl rfl)

/-- both text-only hypotheses are vacuous for a binary format -/
theorem ReadShortB_of_binary (F : Fmt) (h : F.isText = false) : ReadShortB F :=
  fun h' => by rw [h] at h'; cases h'

theorem CutEol_of_binary (F : Fmt) (h : F.isText = false) : CutEol F :=
  fun h' => by rw [h] at h'; cases h'

/-- carry-over followed by everything the remaining `Read` calls deliver -/
def ahead (F : Fmt) (s : Base) : Bytes := s.overflow ++ pending F s

/-! ### kernels -/

theorem rcTooSmall_spec (m o : Nat) : rcTooSmall m o = decide (m ≤ o) := rfl

theorem rcReadSize_spec (m o : Nat) (h : o ≤ m) (hm : m < 2^64) : rcReadSize m o = m - o := by
  unfold rcReadSize sub64; omega

theorem rcShort_spec (n m : Nat) : (rcShort n m = true) ↔ n ≠ m := by
  unfold rcShort; simp

theorem rcNewline_byte : UInt8.ofNat rcNewline = 10 := by decide

theorem loadSize_spec (dw : Nat) (h1 : 1 ≤ dw) (h2 : dw ≤ 2^60) : loadSize dw = 4 * (dw - 1) := by
  unfold loadSize u64 sub64; omega

theorem loadGrow_spec (dw : Nat) (h2 : dw ≤ 2^60) : loadGrow dw = 2 * dw := by
  unfold loadGrow u64; omega

theorem loadResize_spec (bw : Nat) (h : bw < 2^60) : loadResize bw = bw + 1 := by
  unfold loadResize u64; omega

theorem loadFuel_spec (s : Base) :
    loadFuel s = s.overflow.length + (s.offEnd - s.offCurr) + s.files.length + 4 := rfl

theorem pending_overflow (F : Fmt) (s : Base) (ov : Bytes) :
    pending F { s with overflow := ov } = pending F s := rfl

theorem RInv_overflow (s : Base) (ov : Bytes) : RInv { s with overflow := ov } ↔ RInv s := Iff.rfl

/-! ### `ReadChunk`: the branch structure, once -/

/-- the four ways `readChunk` returns normally -/
theorem readChunk_cases (F : Fmt) (s s' : Base) (maxSize : Nat) (r : Option Bytes)
    (h : readChunk F s maxSize = .ok (r, s')) (hm : maxSize < 2^64) :
    (maxSize ≤ s.overflow.length ∧ r = some [] ∧ s' = s) ∨
    (s.overflow.length < maxSize ∧
     ∃ bytes s1, read F { s with overflow := [] } (maxSize - s.overflow.length) = .ok (bytes, s1) ∧
      ((s.overflow = [] ∧ bytes = [] ∧ r = none ∧ s' = s1) ∨
       (s.overflow ++ bytes ≠ [] ∧ F.isText = false ∧ (s.overflow ++ bytes).length ≠ maxSize ∧
          r = some (s.overflow ++ bytes) ∧ s' = s1) ∨
       (s.overflow ++ bytes ≠ [] ∧ (F.isText = false → (s.overflow ++ bytes).length = maxSize) ∧
          ∃ buf cut, buf = (if F.isText = true ∧ bytes = [] then s.overflow ++ bytes ++ [10] else s.overflow ++ bytes) ∧
            F.findLastRecordBegin buf = .ok cut ∧ r = some (buf.take cut) ∧
            s' = { s1 with overflow := buf.drop cut }))) := by
  unfold readChunk at h
  rw [rcTooSmall_spec] at h
  by_cases hsmall : maxSize ≤ s.overflow.length
  · left
    simp only [hsmall, decide_true, if_true] at h
    cases h
    exact ⟨hsmall, rfl, rfl⟩
  · right
    simp only [hsmall, decide_false, Bool.false_eq_true, if_false] at h
    rw [rcReadSize_spec _ _ (by omega) hm] at h
    refine ⟨by omega, ?_⟩
    cases hrd : read F { s with overflow := [] } (maxSize - s.overflow.length) with
    | error e => simp [hrd] at h
    | ok res =>
      obtain ⟨bytes, s1⟩ := res
      refine ⟨bytes, s1, rfl, ?_⟩
      simp only [hrd] at h
      by_cases hz : (s.overflow ++ bytes).length = 0
      · left
        simp only [hz, if_true] at h
        cases h
        have : s.overflow ++ bytes = [] := List.eq_nil_of_length_eq_zero hz
        simp at this
        exact ⟨this.1, this.2, rfl, rfl⟩
      · right
        have hne : s.overflow ++ bytes ≠ [] := fun e => hz (by rw [e]; rfl)
        simp only [hz, if_false] at h
        by_cases hshort : F.isText = false ∧ rcShort (s.overflow ++ bytes).length maxSize = true
        · left
          simp only [hshort, and_self, if_true] at h
          cases h
          exact ⟨hne, hshort.1, (rcShort_spec _ _).1 hshort.2, rfl, rfl⟩
        · right
          simp only [hshort, if_false] at h
          refine ⟨hne, ?_, ?_⟩
          · intro hb
            by_cases e : (s.overflow ++ bytes).length = maxSize
            · exact e
            · exact absurd ⟨hb, (rcShort_spec _ _).2 e⟩ hshort
          · have hnd : (rcNoNewData (s.overflow ++ bytes).length s.overflow.length = true) ↔ bytes = [] := by
              unfold rcNoNewData
              simp
            rw [rcNewline_byte] at h
            simp only [hnd] at h
            cases hc : F.findLastRecordBegin
                (if F.isText = true ∧ bytes = [] then s.overflow ++ bytes ++ [10] else s.overflow ++ bytes) with
            | error e => simp only [hc] at h; cases h
            | ok cut =>
              simp only [hc] at h
              cases h
              exact ⟨_, cut, rfl, hc, rfl, rfl⟩

/-! ### `ReadChunk`: conservation -/

theorem readChunk_spec (F : Fmt) (hR : ReadSpecB F) (hC : CutOk F) (s s' : Base) (maxSize : Nat)
    (r : Option Bytes) (h : readChunk F s maxSize = .ok (r, s')) (hinv : RInv s)
    (ht : totalSize s.files < 2^62) (hm : maxSize < 2^62) :
    RInv s' ∧ s'.files = s.files ∧ s'.offBegin = s.offBegin ∧ s'.offEnd = s.offEnd ∧ s'.chunk = s.chunk ∧
    s'.bufWords = s.bufWords ∧
    match r with
    | none => s.overflow = [] ∧ pending F s = [] ∧ s'.overflow = [] ∧ pending F s' = []
    | some c =>
      c.length ≤ maxSize ∧
      -- conservation: either exactly, or (text only) with the final '\n' appended when the data is exhausted
      ((c ++ s'.overflow ++ pending F s' = s.overflow ++ pending F s) ∨
       (F.isText = true ∧ pending F s = [] ∧ pending F s' = [] ∧ s.overflow ≠ [] ∧
          c ++ s'.overflow = s.overflow ++ [10])) ∧
      -- provenance of the cut
      ((∃ buf cut, F.findLastRecordBegin buf = .ok cut ∧ c = buf.take cut ∧ s'.overflow = buf.drop cut ∧ buf ≠ []) ∨
       (F.isText = false ∧ s'.overflow = [] ∧ c ≠ []) ∨
       (c = [] ∧ s' = s)) := by
  rcases readChunk_cases F s s' maxSize r h (by omega) with ⟨hsm, rfl, rfl⟩ | ⟨hlt, bytes, s1, hrd, hcase⟩
  · refine ⟨hinv, rfl, rfl, rfl, rfl, rfl, ?_⟩
    refine ⟨by simp, Or.inl (by simp), Or.inr (Or.inr ⟨rfl, rfl⟩)⟩
  · obtain ⟨hinv1, hpend, hlen, hemp, hf, hob, hoe, hch, hov, hbw⟩ :=
      hR _ _ _ _ hrd ((RInv_overflow s []).2 hinv) ht (by omega)
    have hpend : bytes ++ pending F s1 = pending F s := hpend
    have hemp : bytes = [] → maxSize - s.overflow.length = 0 ∨ pending F s = [] := hemp
    have hf : s1.files = s.files := hf
    have hob : s1.offBegin = s.offBegin := hob
    have hoe : s1.offEnd = s.offEnd := hoe
    have hch : s1.chunk = s.chunk := hch
    have hov : s1.overflow = [] := hov
    have hbw : s1.bufWords = s.bufWords := hbw
    rcases hcase with ⟨ho, hb, rfl, rfl⟩ | ⟨hne, hbin, hsh, rfl, rfl⟩ | ⟨hne, hfull, buf, cut, hbuf, hcut, rfl, rfl⟩
    · refine ⟨hinv1, hf, hob, hoe, hch, hbw, ?_⟩
      have hp : pending F s = [] := by
        rcases hemp hb with h0 | h0
        · omega
        · exact h0
      rw [hb, hp] at hpend
      exact ⟨ho, hp, hov, by simpa using hpend⟩
    · refine ⟨hinv1, hf, hob, hoe, hch, hbw, ?_⟩
      refine ⟨by rw [List.length_append]; omega, Or.inl ?_, Or.inr (Or.inl ⟨hbin, hov, hne⟩)⟩
      rw [hov, ← hpend]; simp
    · refine ⟨(RInv_overflow s1 _).2 hinv1, hf, hob, hoe, hch, hbw, ?_⟩
      have hcl := hC buf cut hcut
      show (buf.take cut).length ≤ maxSize ∧
        ((buf.take cut ++ buf.drop cut ++ pending F s1 = s.overflow ++ pending F s) ∨
         (F.isText = true ∧ pending F s = [] ∧ pending F s1 = [] ∧ s.overflow ≠ [] ∧
            buf.take cut ++ buf.drop cut = s.overflow ++ [10])) ∧
        ((∃ buf' cut', F.findLastRecordBegin buf' = .ok cut' ∧ buf.take cut = buf'.take cut' ∧
            buf.drop cut = buf'.drop cut' ∧ buf' ≠ []) ∨ _ ∨ _)
      rw [List.take_append_drop]
      by_cases hcond : F.isText = true ∧ bytes = []
      · rw [if_pos hcond] at hbuf
        obtain ⟨htx, hb⟩ := hcond
        have hp : pending F s = [] := by
          rcases hemp hb with h0 | h0
          · omega
          · exact h0
        rw [hb, hp] at hpend
        have hp1 : pending F s1 = [] := by simpa using hpend
        rw [hb, List.append_nil] at hbuf hne
        refine ⟨?_, Or.inr ⟨htx, hp, hp1, hne, hbuf⟩, Or.inl ⟨buf, cut, hcut, rfl, rfl, ?_⟩⟩
        · rw [List.length_take, hbuf, List.length_append]; simp; omega
        · rw [hbuf]; simp
      · rw [if_neg hcond] at hbuf
        refine ⟨?_, Or.inl ?_, Or.inl ⟨buf, cut, hcut, rfl, rfl, by rw [hbuf]; exact hne⟩⟩
        · rw [List.length_take, hbuf, List.length_append]; omega
        · rw [hbuf, ← hpend]; simp

/-- a round of `Chunk::Load` that returns size 0 keeps `ahead`; it is either the early return (state
unchanged) or the whole buffer became the carry-over after a non-empty `Read`, and then the buffer was
full or (text, short `Read`) the part is all but used up -/
theorem readChunk_zero_cases (F : Fmt) (hR : ReadSpecB F) (hS : ReadShortB F) (hE : CutEol F) (s s' : Base)
    (maxSize : Nat) (h : readChunk F s maxSize = .ok (some [], s')) (hinv : RInv s)
    (ht : totalSize s.files < 2^62) (hm : maxSize < 2^62) :
    ahead F s' = ahead F s ∧
    ((s' = s ∧ maxSize ≤ s.overflow.length) ∨
     (s.overflow.length < maxSize ∧ s'.overflow.length ≤ maxSize ∧
      (pending F s').length < (pending F s).length ∧
      (maxSize ≤ s'.overflow.length ∨ (pending F s').length ≤ 2))) := by
  rcases readChunk_cases F s s' maxSize _ h (by omega) with ⟨hsm, _, rfl⟩ | ⟨hlt, bytes, s1, hrd, hcase⟩
  · exact ⟨rfl, Or.inl ⟨rfl, hsm⟩⟩
  · obtain ⟨hinv1, hpend, hlen, hemp, -, -, -, -, hov, -⟩ :=
      hR _ _ _ _ hrd ((RInv_overflow s []).2 hinv) ht (by omega)
    have hpend : bytes ++ pending F s1 = pending F s := hpend
    have hemp : bytes = [] → maxSize - s.overflow.length = 0 ∨ pending F s = [] := hemp
    have hov : s1.overflow = [] := hov
    rcases hcase with ⟨_, _, hr, _⟩ | ⟨hne, _, _, hr, _⟩ | ⟨hne, hfull, buf, cut, hbuf, hcut, hr, rfl⟩
    · cases hr
    · injection hr with hr; exact absurd hr.symm hne
    · injection hr with hr
      have hbne : buf ≠ [] := by
        rw [hbuf]; split
        · simp
        · exact hne
      have hc0 : cut = 0 := by
        cases buf with
        | nil => exact absurd rfl hbne
        | cons a l => cases cut with
          | zero => rfl
          | succ n => simp at hr
      subst hc0
      by_cases hcond : F.isText = true ∧ bytes = []
      · exfalso
        rw [if_pos hcond] at hbuf
        obtain ⟨htx, hb⟩ := hcond
        rw [hb, List.append_nil] at hbuf hne
        cases hov' : s.overflow with
        | nil => exact hne hov'
        | cons a o =>
          rw [hov'] at hbuf
          exact absurd (hE htx buf 0 a o [] hcut hbuf) (by omega)
      · rw [if_neg hcond] at hbuf
        have htail : ahead F { s1 with overflow := buf.drop 0 } = ahead F s := by
          show buf.drop 0 ++ pending F s1 = s.overflow ++ pending F s
          rw [hbuf, ← hpend]; simp
        have hovl : (buf.drop 0).length ≤ maxSize := by
          rw [List.drop_zero, hbuf, List.length_append]; omega
        have key : bytes ≠ [] ∧ (maxSize ≤ (buf.drop 0).length ∨ (pending F s1).length ≤ 2) := by
          by_cases hshort : bytes.length < maxSize - s.overflow.length
          · have htx : F.isText = true := by
              cases htx : F.isText with
              | true => rfl
              | false =>
                have := hfull htx
                rw [List.length_append] at this; omega
            have hbn : bytes ≠ [] := fun e => hcond ⟨htx, e⟩
            have hno : ∀ b ∈ bytes.drop 1, b ≠ 10 := by
              intro b hb hb10
              subst hb10
              cases bytes with
              | nil => exact hbn rfl
              | cons x rest =>
                simp only [List.drop_succ_cons, List.drop_zero] at hb
                obtain ⟨p, q, rfl⟩ := List.append_of_mem hb
                cases hov' : s.overflow with
                | nil =>
                  rw [hov'] at hbuf
                  exact absurd (hE htx buf 0 x p q hcut (by rw [hbuf]; simp)) (by omega)
                | cons a o =>
                  rw [hov'] at hbuf
                  exact absurd (hE htx buf 0 a (o ++ x :: p) q hcut (by rw [hbuf]; simp)) (by omega)
            exact ⟨hbn, Or.inr (hS htx _ _ _ _ hrd ((RInv_overflow s []).2 hinv) ht (by omega) hshort hno)⟩
          · refine ⟨?_, Or.inl ?_⟩
            · intro e; rw [e] at hshort; simp at hshort; omega
            · rw [List.drop_zero, hbuf, List.length_append]; omega
        refine ⟨htail, Or.inr ⟨hlt, hovl, ?_, key.2⟩⟩
        show (pending F s1).length < (pending F s).length
        rw [← hpend, List.length_append]
        have : 0 < bytes.length := List.length_pos_iff.2 key.1
        omega

/-- coarser form: the doubling is justified by the data, or at most two bytes are left pending -/
theorem readChunk_zero (F : Fmt) (hR : ReadSpecB F) (hS : ReadShortB F) (hE : CutEol F) (s s' : Base)
    (maxSize : Nat) (h : readChunk F s maxSize = .ok (some [], s')) (hinv : RInv s)
    (ht : totalSize s.files < 2^62) (hm : maxSize < 2^62) :
    ahead F s' = ahead F s ∧
    (maxSize ≤ (ahead F s).length ∨
     ((pending F s').length ≤ 2 ∧ (pending F s').length < (pending F s).length)) := by
  obtain ⟨htl, hc⟩ := readChunk_zero_cases F hR hS hE s s' maxSize h hinv ht hm
  refine ⟨htl, ?_⟩
  rcases hc with ⟨rfl, hsm⟩ | ⟨_, _, hlt, hfull | h2⟩
  · left; unfold ahead; rw [List.length_append]; omega
  · left; rw [← htl]; unfold ahead; rw [List.length_append]; omega
  · right; exact ⟨h2, hlt⟩

/-- text: `ReadChunk` raises no error -/
theorem readChunk_total (F : Fmt) (hF : F.isText = true) (hRT : ReadTotalB F) (hT : TextCut F) (s : Base)
    (maxSize : Nat) (hinv : RInv s) (ht : totalSize s.files < 2^62) (hm : maxSize < 2^62) :
    ∃ r, readChunk F s maxSize = .ok r := by
  unfold readChunk
  rw [rcTooSmall_spec]
  by_cases hsmall : maxSize ≤ s.overflow.length
  · simp only [hsmall, decide_true, if_true]; exact ⟨_, rfl⟩
  · simp only [hsmall, decide_false, Bool.false_eq_true, if_false]
    rw [rcReadSize_spec _ _ (by omega) (by omega)]
    obtain ⟨⟨bytes, s1⟩, hrd⟩ := hRT { s with overflow := [] } (maxSize - s.overflow.length)
      ((RInv_overflow s []).2 hinv) ht (by omega)
    simp only [hrd]
    by_cases hz : (s.overflow ++ bytes).length = 0
    · simp only [hz, if_true]; exact ⟨_, rfl⟩
    · have hne : s.overflow ++ bytes ≠ [] := fun e => hz (by rw [e]; rfl)
      simp only [hz, if_false, hF, Bool.true_eq_false, false_and, true_and]
      split
      · rename_i e heq
        exfalso
        obtain ⟨cut, hcut⟩ := hT.1 _ (by split <;> simp [hne] :
          (if rcNoNewData (s.overflow ++ bytes).length s.overflow.length = true
            then s.overflow ++ bytes ++ [UInt8.ofNat rcNewline] else s.overflow ++ bytes) ≠ [])
        rw [hcut] at heq; cases heq
      · exact ⟨_, rfl⟩

/-! ### unfolding `loadLoop` and `load`

`unfold loadLoop` / `simp [loadLoop]` / `rfl` are unusable: generating the equation lemmas (and any kernel
conversion check that has a `match` on `readChunk F s (loadSize dw)` on one side only) evaluates the
discriminant, i.e. `(dw + 2^64 - 1) % 2^64` with a free `dw`, successor by successor.  The unfoldings are
therefore obtained from generic copies whose offending pieces are variables; their instances are
syntactically the model's terms, so the kernel never has to evaluate anything. -/

/-- `loadLoop` with `readChunk F`, `loadSize`, `loadGrow` abstracted -/
def loopGen (rc : Base → Nat → Except Err (Option Bytes × Base)) (sz grow : Nat → Nat) :
    Nat → Base → Nat → Except Err (Option Bytes × Base × Nat)
  | 0, _, _ => .error .fuel
  | fuel + 1, s, dataWords =>
    loadLoop.match_1 (fun _ => Except Err (Option Bytes × Base × Nat)) (rc s (sz dataWords))
      (fun e => .error e) (fun s => .ok (none, s, dataWords))
      (fun s => loopGen rc sz grow fuel s (grow dataWords)) (fun c s => .ok (some c, s, dataWords))

/-- one visit of the loop body of `Chunk::Load`, as a function of the `ReadChunk` result -/
def loadStep (d : Except Err (Option Bytes × Base)) (k : Base → Except Err (Option Bytes × Base × Nat))
    (dw : Nat) : Except Err (Option Bytes × Base × Nat) :=
  match d with
  | .error e => .error e
  | .ok (none, s) => .ok (none, s, dw)
  | .ok (some [], s) => k s
  | .ok (some c, s) => .ok (some c, s, dw)

theorem loopGen_succ (rc : Base → Nat → Except Err (Option Bytes × Base)) (sz grow : Nat → Nat)
    (fuel : Nat) (s : Base) (dw : Nat) :
    loopGen rc sz grow (fuel + 1) s dw =
      loadStep (rc s (sz dw)) (fun s1 => loopGen rc sz grow fuel s1 (grow dw)) dw := by
  rw [loopGen]; rfl

/-- `load` with `loadLoop F`, `loadFuel`, `loadResize` abstracted -/
def loadGen (L : Nat → Base → Nat → Except Err (Option Bytes × Base × Nat)) (fu : Base → Nat)
    (rs : Nat → Nat) (s : Base) (c : Chunk) : Except Err (Bool × Base × Chunk) :=
  load.match_1 (fun _ => Except Err (Bool × Base × Chunk)) (L (fu s) s (rs s.bufWords))
    (fun e => .error e)
    (fun s dw => .ok (false, s, { dataWords := dw, begin := c.begin, rest := c.rest }))
    (fun bytes s dw => .ok (true, s, { dataWords := dw, rest := bytes }))

/-- what `Chunk::Load` makes of the result of its loop -/
def loadFin (d : Except Err (Option Bytes × Base × Nat)) (c : Chunk) : Except Err (Bool × Base × Chunk) :=
  match d with
  | .error e => .error e
  | .ok (none, s, dw) => .ok (false, s, { c with dataWords := dw })
  | .ok (some bytes, s, dw) => .ok (true, s, { dataWords := dw, begin := 0, rest := bytes })

theorem loadGen_eq (L : Nat → Base → Nat → Except Err (Option Bytes × Base × Nat)) (fu : Base → Nat)
    (rs : Nat → Nat) (s : Base) (c : Chunk) :
    loadGen L fu rs s c = loadFin (L (fu s) s (rs s.bufWords)) c := rfl

attribute [local irreducible] readChunk loadSize loadGrow loadFuel loadResize

theorem loadLoop_eq_gen (F : Fmt) : loadLoop F = loopGen (readChunk F) loadSize loadGrow := by
  delta loadLoop loopGen
  rfl

theorem loadLoop_zero (F : Fmt) (s : Base) (dw : Nat) : loadLoop F 0 s dw = .error .fuel := rfl

theorem loadLoop_succ (F : Fmt) (fuel : Nat) (s : Base) (dw : Nat) :
    loadLoop F (fuel + 1) s dw =
      loadStep (readChunk F s (loadSize dw)) (fun s1 => loadLoop F fuel s1 (loadGrow dw)) dw := by
  rw [loadLoop_eq_gen]
  exact loopGen_succ (readChunk F) loadSize loadGrow fuel s dw

theorem load_eq_gen (F : Fmt) : load F = loadGen (loadLoop F) loadFuel loadResize := by
  delta load loadGen
  rfl

theorem load_unfold (F : Fmt) (s : Base) (c : Chunk) :
    load F s c = loadFin (loadLoop F (loadFuel s) s (loadResize s.bufWords)) c := by
  rw [load_eq_gen]
  exact loadGen_eq (loadLoop F) loadFuel loadResize s c

/-! ### the doubling loop of `Chunk::Load` -/

/-- size invariant of the doubling loop: `dw` is at most `K` (a bound on the initial size and on half the
data still there), except that up to three more doublings may happen once at most `P ≤ 2` bytes are
pending (text: short `Read`s near the end of the part) -/
def DwOk (K P dw : Nat) : Prop :=
  1 ≤ dw ∧ (dw ≤ K ∨ (P ≤ 2 ∧ dw ≤ 2 * K) ∨ (P ≤ 1 ∧ dw ≤ 4 * K) ∨ (P = 0 ∧ dw ≤ 8 * K))

theorem DwOk_of_le (K P dw : Nat) (h1 : 1 ≤ dw) (h2 : dw ≤ K) : DwOk K P dw := ⟨h1, Or.inl h2⟩

theorem loadLoop_spec_aux (F : Fmt) (hR : ReadSpecB F) (hC : CutOk F) (hS : ReadShortB F) (hE : CutEol F)
    (K : Nat) (hK : K ≤ 2^57) :
    ∀ (fuel : Nat) (s s' : Base) (dw dw' : Nat) (r : Option Bytes),
    loadLoop F fuel s dw = .ok (r, s', dw') → RInv s → totalSize s.files < 2^62 →
    (ahead F s).length + 4 ≤ 2 * K → DwOk K (pending F s).length dw →
    RInv s' ∧ s'.files = s.files ∧ s'.offBegin = s.offBegin ∧ s'.offEnd = s.offEnd ∧ s'.chunk = s.chunk ∧
    s'.bufWords = s.bufWords ∧ 1 ≤ dw' ∧ dw' ≤ 8 * K ∧
    match r with
    | none => ahead F s = [] ∧ s'.overflow = [] ∧ pending F s' = []
    | some c =>
      c ≠ [] ∧ c.length ≤ 4 * (dw' - 1) ∧
      ((c ++ s'.overflow ++ pending F s' = ahead F s) ∨
       (F.isText = true ∧ pending F s' = [] ∧ ahead F s ≠ [] ∧ c ++ s'.overflow = ahead F s ++ [10])) ∧
      ((∃ buf cut, F.findLastRecordBegin buf = .ok cut ∧ c = buf.take cut ∧ s'.overflow = buf.drop cut ∧ buf ≠ []) ∨
       (F.isText = false ∧ s'.overflow = [] ∧ c ≠ [])) := by
  intro fuel
  induction fuel with
  | zero => intro s s' dw dw' r h; rw [loadLoop_zero] at h; cases h
  | succ fuel ih =>
    intro s s' dw dw' r h hinv ht hT hdw
    have hdw8 : 1 ≤ dw ∧ dw ≤ 8 * K := by unfold DwOk at hdw; omega
    have hls : loadSize dw = 4 * (dw - 1) := loadSize_spec dw hdw8.1 (by omega)
    rw [loadLoop_succ] at h
    cases hrc : readChunk F s (loadSize dw) with
    | error e => rw [hrc] at h; simp only [loadStep] at h; cases h
    | ok res =>
      obtain ⟨ro, s1⟩ := res
      have hsp := readChunk_spec F hR hC s s1 (loadSize dw) ro hrc hinv ht (by omega)
      obtain ⟨hinv1, hf, hob, hoe, hch, hbw, hm⟩ := hsp
      cases ro with
      | none =>
        rw [hrc] at h; simp only [loadStep] at h
        cases h
        obtain ⟨h1, h2, h3, h4⟩ := hm
        refine ⟨hinv1, hf, hob, hoe, hch, hbw, hdw8.1, hdw8.2, ?_, h3, h4⟩
        unfold ahead; rw [h1, h2]; rfl
      | some c =>
        cases c with
        | nil =>
          rw [hrc] at h; simp only [loadStep] at h
          obtain ⟨htl, hj⟩ := readChunk_zero F hR hS hE s s1 (loadSize dw) hrc hinv ht (by omega)
          have hg : loadGrow dw = 2 * dw := loadGrow_spec dw (by omega)
          rw [hg] at h
          have hdw2 : DwOk K (pending F s1).length (2 * dw) := by
            unfold DwOk at hdw ⊢
            rw [hls] at hj
            omega
          obtain ⟨i1, i2, i3, i4, i5, i6, i7, i8, i9⟩ :=
            ih s1 s' (2 * dw) dw' r h hinv1 (by rw [hf]; exact ht) (by rw [htl]; exact hT) hdw2
          refine ⟨i1, i2.trans hf, i3.trans hob, i4.trans hoe, i5.trans hch, i6.trans hbw, i7, i8, ?_⟩
          rw [htl] at i9
          exact i9
        | cons a l =>
          rw [hrc] at h; simp only [loadStep] at h
          cases h
          obtain ⟨hlen, hcons, hprov⟩ := hm
          refine ⟨hinv1, hf, hob, hoe, hch, hbw, hdw8.1, hdw8.2, by simp, by rw [hls] at hlen; exact hlen, ?_, ?_⟩
          · rcases hcons with hc | ⟨htx, hp, hp1, hne, hc⟩
            · exact Or.inl hc
            · right
              unfold ahead
              rw [hp, List.append_nil]
              exact ⟨htx, hp1, hne, hc⟩
          · rcases hprov with hp | hp | ⟨hp, _⟩
            · exact Or.inl hp
            · exact Or.inr hp
            · cases hp

/-- the doubling loop of `Chunk::Load`, entered with a buffer of `1 ≤ dw ≤ K` words where `2 * K` bounds
the bytes still to come (+ 4): conservation relative to the state at entry -/
theorem loadLoop_spec (F : Fmt) (hR : ReadSpecB F) (hC : CutOk F) (hS : ReadShortB F) (hE : CutEol F)
    (K : Nat) (hK : K ≤ 2^57) (fuel : Nat) (s s' : Base) (dw dw' : Nat) (r : Option Bytes)
    (h : loadLoop F fuel s dw = .ok (r, s', dw')) (hinv : RInv s) (ht : totalSize s.files < 2^62)
    (hT : (ahead F s).length + 4 ≤ 2 * K) (hdw1 : 1 ≤ dw) (hdwK : dw ≤ K) :
    RInv s' ∧ s'.files = s.files ∧ s'.offBegin = s.offBegin ∧ s'.offEnd = s.offEnd ∧ s'.chunk = s.chunk ∧
    s'.bufWords = s.bufWords ∧ 1 ≤ dw' ∧ dw' ≤ 8 * K ∧
    match r with
    | none => ahead F s = [] ∧ s'.overflow = [] ∧ pending F s' = []
    | some c =>
      c ≠ [] ∧ c.length ≤ 4 * (dw' - 1) ∧
      ((c ++ s'.overflow ++ pending F s' = ahead F s) ∨
       (F.isText = true ∧ pending F s' = [] ∧ ahead F s ≠ [] ∧ c ++ s'.overflow = ahead F s ++ [10])) ∧
      ((∃ buf cut, F.findLastRecordBegin buf = .ok cut ∧ c = buf.take cut ∧ s'.overflow = buf.drop cut ∧ buf ≠ []) ∨
       (F.isText = false ∧ s'.overflow = [] ∧ c ≠ [])) :=
  loadLoop_spec_aux F hR hC hS hE K hK fuel s s' dw dw' r h hinv ht hT (DwOk_of_le K _ dw hdw1 hdwK)

/-! ### `Chunk::Load` -/

theorem load_spec (F : Fmt) (hR : ReadSpecB F) (hC : CutOk F) (hS : ReadShortB F) (hE : CutEol F)
    (s s' : Base) (c0 c' : Chunk) (ok : Bool) (h : load F s c0 = .ok (ok, s', c')) (hinv : RInv s)
    (ht : totalSize s.files < 2^62) (hbuf : s.bufWords < 2^56) (hT : (ahead F s).length < 2^56) :
    RInv s' ∧ s'.files = s.files ∧ s'.offBegin = s.offBegin ∧ s'.offEnd = s.offEnd ∧ s'.chunk = s.chunk ∧
    s'.bufWords = s.bufWords ∧ 1 ≤ c'.dataWords ∧ c'.dataWords ≤ 2^59 ∧
    (ok = false → c'.rest = c0.rest ∧ c'.begin = c0.begin ∧ ahead F s = [] ∧ s'.overflow = [] ∧ pending F s' = []) ∧
    (ok = true →
      c'.begin = 0 ∧ c'.rest ≠ [] ∧ c'.begin + c'.rest.length < 4 * c'.dataWords ∧
      ((c'.rest ++ s'.overflow ++ pending F s' = ahead F s) ∨
       (F.isText = true ∧ pending F s' = [] ∧ ahead F s ≠ [] ∧ c'.rest ++ s'.overflow = ahead F s ++ [10])) ∧
      ((∃ buf cut, F.findLastRecordBegin buf = .ok cut ∧ c'.rest = buf.take cut ∧ s'.overflow = buf.drop cut ∧ buf ≠ []) ∨
       (F.isText = false ∧ s'.overflow = [] ∧ c'.rest ≠ []))) := by
  rw [load_unfold, loadResize_spec _ (by omega)] at h
  cases hL : loadLoop F (loadFuel s) s (s.bufWords + 1) with
  | error e => rw [hL] at h; simp only [loadFin] at h; cases h
  | ok res =>
    obtain ⟨r, s1, dw1⟩ := res
    rw [hL] at h
    obtain ⟨i1, i2, i3, i4, i5, i6, i7, i8, i9⟩ :=
      loadLoop_spec F hR hC hS hE (2^56) (by omega) _ s s1 _ dw1 r hL hinv ht (by omega) (by omega) (by omega)
    cases r with
    | none =>
      simp only [loadFin] at h
      cases h
      refine ⟨i1, i2, i3, i4, i5, i6, i7, (by show dw1 ≤ 2^59; omega), fun _ => ⟨rfl, rfl, i9⟩, fun hk => by cases hk⟩
    | some c =>
      simp only [loadFin] at h
      cases h
      obtain ⟨j1, j2, j3, j4⟩ := i9
      refine ⟨i1, i2, i3, i4, i5, i6, i7, (by show dw1 ≤ 2^59; omega), (fun hk => by cases hk), fun _ => ⟨rfl, j1, ?_, j3, j4⟩⟩
      show 0 + c.length < 4 * dw1
      omega

/-! ### totality of the doubling loop for the text format (`C03_load_terminates`) -/

/-- measure: bytes still pending, plus how far the buffer is from exceeding the carry-over.  Every round
that returns size 0 decreases it: the early return doubles the buffer, the other case moves at least one
pending byte into the carry-over (which then fits the doubled buffer). -/
theorem loadLoop_total_aux (F : Fmt) (hF : F.isText = true) (hR : ReadSpecB F) (hRT : ReadTotalB F)
    (hC : CutOk F) (hS : ReadShortB F) (hT : TextCut F) (K : Nat) (hK : K ≤ 2^57) :
    ∀ (fuel : Nat) (s : Base) (dw : Nat), RInv s → totalSize s.files < 2^62 →
    (ahead F s).length + 4 ≤ 2 * K → DwOk K (pending F s).length dw →
    (pending F s).length + ((s.overflow.length + 1) - 4 * (dw - 1)) + 1 ≤ fuel →
    ∃ r, loadLoop F fuel s dw = .ok r := by
  intro fuel
  induction fuel with
  | zero => intro s dw _ _ _ _ hf; omega
  | succ fuel ih =>
    intro s dw hinv ht hTl hdw hfuel
    have hdw8 : 1 ≤ dw ∧ dw ≤ 8 * K := by unfold DwOk at hdw; omega
    have hls : loadSize dw = 4 * (dw - 1) := loadSize_spec dw hdw8.1 (by omega)
    rw [loadLoop_succ]
    obtain ⟨⟨ro, s1⟩, hrc⟩ := readChunk_total F hF hRT hT s (loadSize dw) hinv ht (by omega)
    rw [hrc]
    cases ro with
    | none => simp only [loadStep]; exact ⟨_, rfl⟩
    | some c =>
      cases c with
      | cons a l => simp only [loadStep]; exact ⟨_, rfl⟩
      | nil =>
        simp only [loadStep]
        obtain ⟨hinv1, hf, -⟩ := readChunk_spec F hR hC s s1 (loadSize dw) _ hrc hinv ht (by omega)
        obtain ⟨htl, hcs⟩ :=
          readChunk_zero_cases F hR hS (CutEol_of_TextCut F hT) s s1 (loadSize dw) hrc hinv ht (by omega)
        rw [loadGrow_spec dw (by omega)]
        rw [hls] at hcs
        have hlen : (ahead F s).length = s.overflow.length + (pending F s).length := by
          unfold ahead; rw [List.length_append]
        have hlen1 : (ahead F s1).length = s1.overflow.length + (pending F s1).length := by
          unfold ahead; rw [List.length_append]
        rw [htl] at hlen1
        apply ih s1 (2 * dw) hinv1 (by rw [hf]; exact ht) (by rw [htl]; exact hTl)
        · unfold DwOk at hdw ⊢
          rcases hcs with ⟨rfl, hsm⟩ | ⟨h1, h2, h3, h4⟩
          · omega
          · omega
        · rcases hcs with ⟨rfl, hsm⟩ | ⟨h1, h2, h3, h4⟩
          · omega
          · omega

/-- text: the doubling loop of `Chunk::Load` ends without error (in particular before its iteration
bound) when entered with `1 ≤ dw ≤ K` and `carry-over + pending + 2 ≤ fuel` -/
theorem loadLoop_total (F : Fmt) (hF : F.isText = true) (hR : ReadSpecB F) (hRT : ReadTotalB F)
    (hC : CutOk F) (hS : ReadShortB F) (hT : TextCut F) (K : Nat) (hK : K ≤ 2^57) (s : Base) (dw : Nat)
    (hinv : RInv s) (ht : totalSize s.files < 2^62) (hTl : (ahead F s).length + 4 ≤ 2 * K)
    (hdw1 : 1 ≤ dw) (hdwK : dw ≤ K) (fuel : Nat)
    (hfuel : s.overflow.length + (pending F s).length + 2 ≤ fuel) :
    ∃ r, loadLoop F fuel s dw = .ok r :=
  loadLoop_total_aux F hF hR hRT hC hS hT K hK fuel s dw hinv ht hTl (DwOk_of_le K _ dw hdw1 hdwK)
    (by omega)

/-- text: `Chunk::Load` ends without error; `hP` bounds the pending stream by the real bytes left in the
part plus one injected `'\n'` per file -/
theorem load_total (F : Fmt) (hF : F.isText = true) (hR : ReadSpecB F) (hRT : ReadTotalB F)
    (hC : CutOk F) (hS : ReadShortB F) (hT : TextCut F) (s : Base) (c0 : Chunk) (hinv : RInv s)
    (ht : totalSize s.files < 2^62) (hbuf : s.bufWords < 2^56) (hTl : (ahead F s).length < 2^56)
    (hP : (pending F s).length ≤ (s.offEnd - s.offCurr) + s.files.length) :
    ∃ r, load F s c0 = .ok r := by
  rw [load_unfold, loadResize_spec _ (by omega)]
  obtain ⟨⟨r, s1, dw1⟩, hL⟩ :=
    loadLoop_total F hF hR hRT hC hS hT (2^56) (by omega) s (s.bufWords + 1) hinv ht (by omega) (by omega)
      (by omega) (loadFuel s) (by rw [loadFuel_spec]; omega)
  rw [hL]
  cases r with
  | none => simp only [loadFin]; exact ⟨_, rfl⟩
  | some c => simp only [loadFin]; exact ⟨_, rfl⟩

/-! ### binary formats: a short `Read` ends the part, the buffer is a prefix of the look-ahead (for C04) -/

/-- binary only: a `Read` that returns fewer bytes than requested has used up the part
(follows from `read_short_binary` of ReadLemmas.lean) -/
def ReadShortBin (F : Fmt) : Prop :=
  ∀ (s : Base) (size : Nat) (bytes : Bytes) (s' : Base), read F s size = .ok (bytes, s') → RInv s →
    totalSize s.files < 2^62 → size < 2^62 → F.isText = false → bytes.length < size → pending F s' = []

/-- provenance of a chunk in binary mode (complements `readChunk_spec`): a cut of a FULL buffer that is a
prefix of the look-ahead, or the whole rest of the stream after a short read, or the early return -/
theorem readChunk_spec_bin (F : Fmt) (hB : F.isText = false) (hR : ReadSpecB F) (hSB : ReadShortBin F)
    (s s' : Base) (maxSize : Nat) (r : Option Bytes) (h : readChunk F s maxSize = .ok (r, s'))
    (hinv : RInv s) (ht : totalSize s.files < 2^62) (hm : maxSize < 2^62) :
    match r with
    | none => True
    | some c =>
      (∃ buf cut, F.findLastRecordBegin buf = .ok cut ∧ c = buf.take cut ∧ s'.overflow = buf.drop cut ∧
          buf ≠ [] ∧ buf ++ pending F s' = ahead F s ∧ buf.length = maxSize) ∨
      (s'.overflow = [] ∧ c ≠ [] ∧ pending F s' = [] ∧ c = ahead F s ∧ c.length < maxSize) ∨
      (c = [] ∧ s' = s ∧ maxSize ≤ s.overflow.length) := by
  rcases readChunk_cases F s s' maxSize r h (by omega) with ⟨hsm, rfl, rfl⟩ | ⟨hlt, bytes, s1, hrd, hcase⟩
  · exact Or.inr (Or.inr ⟨rfl, rfl, hsm⟩)
  · obtain ⟨hinv1, hpend, hlen, hemp, -, -, -, -, hov, -⟩ :=
      hR _ _ _ _ hrd ((RInv_overflow s []).2 hinv) ht (by omega)
    have hpend : bytes ++ pending F s1 = pending F s := hpend
    have hov : s1.overflow = [] := hov
    rcases hcase with ⟨_, _, rfl, _⟩ | ⟨hne, _, hsh, rfl, rfl⟩ | ⟨hne, hfull, buf, cut, hbuf, hcut, rfl, rfl⟩
    · trivial
    · have hshort : bytes.length < maxSize - s.overflow.length := by
        rw [List.length_append] at hsh; omega
      have hp1 : pending F s' = [] :=
        hSB _ _ _ _ hrd ((RInv_overflow s []).2 hinv) ht (by omega) hB hshort
      refine Or.inr (Or.inl ⟨hov, hne, hp1, ?_, ?_⟩)
      · unfold ahead; rw [← hpend, hp1, List.append_nil]
      · rw [List.length_append] at hsh ⊢; omega
    · have hcond : ¬ (F.isText = true ∧ bytes = []) := by rw [hB]; simp
      rw [if_neg hcond] at hbuf
      refine Or.inl ⟨buf, cut, hcut, rfl, rfl, by rw [hbuf]; exact hne, ?_, by rw [hbuf]; exact hfull hB⟩
      show buf ++ pending F s1 = s.overflow ++ pending F s
      rw [hbuf, ← hpend, List.append_assoc]

theorem loadLoop_spec_bin_aux (F : Fmt) (hB : F.isText = false) (hR : ReadSpecB F) (hC : CutOk F)
    (hSB : ReadShortBin F) (K : Nat) (hK : K ≤ 2^57) :
    ∀ (fuel : Nat) (s s' : Base) (dw dw' : Nat) (r : Option Bytes),
    loadLoop F fuel s dw = .ok (r, s', dw') → RInv s → totalSize s.files < 2^62 →
    (ahead F s).length + 4 ≤ 2 * K → DwOk K (pending F s).length dw →
    match r with
    | none => True
    | some c =>
      (∃ buf cut, F.findLastRecordBegin buf = .ok cut ∧ c = buf.take cut ∧ s'.overflow = buf.drop cut ∧
          buf ≠ [] ∧ buf ++ pending F s' = ahead F s ∧ buf.length = 4 * (dw' - 1)) ∨
      (s'.overflow = [] ∧ c ≠ [] ∧ pending F s' = [] ∧ c = ahead F s ∧ c.length < 4 * (dw' - 1)) := by
  have hS := ReadShortB_of_binary F hB
  have hE := CutEol_of_binary F hB
  intro fuel
  induction fuel with
  | zero => intro s s' dw dw' r h; rw [loadLoop_zero] at h; cases h
  | succ fuel ih =>
    intro s s' dw dw' r h hinv ht hT hdw
    have hdw8 : 1 ≤ dw ∧ dw ≤ 8 * K := by unfold DwOk at hdw; omega
    have hls : loadSize dw = 4 * (dw - 1) := loadSize_spec dw hdw8.1 (by omega)
    rw [loadLoop_succ] at h
    cases hrc : readChunk F s (loadSize dw) with
    | error e => rw [hrc] at h; simp only [loadStep] at h; cases h
    | ok res =>
      obtain ⟨ro, s1⟩ := res
      obtain ⟨hinv1, hf, -⟩ := readChunk_spec F hR hC s s1 (loadSize dw) ro hrc hinv ht (by omega)
      cases ro with
      | none =>
        rw [hrc] at h; simp only [loadStep] at h
        cases h
        trivial
      | some c =>
        cases c with
        | nil =>
          rw [hrc] at h; simp only [loadStep] at h
          obtain ⟨htl, hj⟩ := readChunk_zero F hR hS hE s s1 (loadSize dw) hrc hinv ht (by omega)
          rw [loadGrow_spec dw (by omega)] at h
          have hdw2 : DwOk K (pending F s1).length (2 * dw) := by
            unfold DwOk at hdw ⊢
            rw [hls] at hj
            omega
          have i9 := ih s1 s' (2 * dw) dw' r h hinv1 (by rw [hf]; exact ht) (by rw [htl]; exact hT) hdw2
          rw [htl] at i9
          exact i9
        | cons a l =>
          have hbin := readChunk_spec_bin F hB hR hSB s s1 (loadSize dw) _ hrc hinv ht (by omega)
          rw [hrc] at h; simp only [loadStep] at h
          cases h
          rw [hls] at hbin
          rcases hbin with hp | hp | ⟨hp, _⟩
          · exact Or.inl hp
          · exact Or.inr hp
          · cases hp

/-- binary: provenance of the chunk of the doubling loop (complements `loadLoop_spec`, same hypotheses) -/
theorem loadLoop_spec_bin (F : Fmt) (hB : F.isText = false) (hR : ReadSpecB F) (hC : CutOk F)
    (hSB : ReadShortBin F) (K : Nat) (hK : K ≤ 2^57) (fuel : Nat) (s s' : Base) (dw dw' : Nat)
    (r : Option Bytes) (h : loadLoop F fuel s dw = .ok (r, s', dw')) (hinv : RInv s)
    (ht : totalSize s.files < 2^62) (hT : (ahead F s).length + 4 ≤ 2 * K) (hdw1 : 1 ≤ dw) (hdwK : dw ≤ K) :
    match r with
    | none => True
    | some c =>
      (∃ buf cut, F.findLastRecordBegin buf = .ok cut ∧ c = buf.take cut ∧ s'.overflow = buf.drop cut ∧
          buf ≠ [] ∧ buf ++ pending F s' = ahead F s ∧ buf.length = 4 * (dw' - 1)) ∨
      (s'.overflow = [] ∧ c ≠ [] ∧ pending F s' = [] ∧ c = ahead F s ∧ c.length < 4 * (dw' - 1)) :=
  loadLoop_spec_bin_aux F hB hR hC hSB K hK fuel s s' dw dw' r h hinv ht hT (DwOk_of_le K _ dw hdw1 hdwK)

/-- binary: provenance of the chunk of `Chunk::Load` (complements `load_spec`, same hypotheses) -/
theorem load_spec_bin (F : Fmt) (hB : F.isText = false) (hR : ReadSpecB F) (hC : CutOk F)
    (hSB : ReadShortBin F) (s s' : Base) (c0 c' : Chunk) (ok : Bool)
    (h : load F s c0 = .ok (ok, s', c')) (hinv : RInv s) (ht : totalSize s.files < 2^62)
    (hbuf : s.bufWords < 2^56) (hT : (ahead F s).length < 2^56) :
    ok = true →
      (∃ buf cut, F.findLastRecordBegin buf = .ok cut ∧ c'.rest = buf.take cut ∧ s'.overflow = buf.drop cut ∧
          buf ≠ [] ∧ buf ++ pending F s' = ahead F s ∧ buf.length = 4 * (c'.dataWords - 1)) ∨
      (s'.overflow = [] ∧ c'.rest ≠ [] ∧ pending F s' = [] ∧ c'.rest = ahead F s ∧
          c'.rest.length < 4 * (c'.dataWords - 1)) := by
  rw [load_unfold, loadResize_spec _ (by omega)] at h
  cases hL : loadLoop F (loadFuel s) s (s.bufWords + 1) with
  | error e => rw [hL] at h; simp only [loadFin] at h; cases h
  | ok res =>
    obtain ⟨r, s1, dw1⟩ := res
    rw [hL] at h
    have i9 := loadLoop_spec_bin F hB hR hC hSB (2^56) (by omega) _ s s1 _ dw1 r hL hinv ht (by omega)
      (by omega) (by omega)
    cases r with
    | none =>
      simp only [loadFin] at h
      cases h
      intro hk; cases hk
    | some c =>
      simp only [loadFin] at h
      cases h
      intro _
      exact i9

end DmlcModel.Split
