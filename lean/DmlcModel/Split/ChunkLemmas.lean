/-
Format-generic "byte conservation" layer for `readChunk`, `loadLoop`, `load` (they mirror
`InputSplitBase::ReadChunk` and `Chunk::Load` of src/io/input_split_base.cc): every chunk handed out is a
prefix of "carry-over ++ pending read stream", the rest stays in the carry-over / pending stream.
The `Read` layer and the format lemmas enter as explicit interface hypotheses (`ReadSpecB`, `ReadTotalB`,
`ReadShortB`, `CutOk`, `CutEol`, `TextCut`).  Core Lean only.
-/
import DmlcModel.Split.Spec

namespace DmlcModel.Split
open DmlcModel DmlcModel.Gen.Split

/-! ### interface hypotheses -/

/-- the Read layer (proved in ReadLemmas.lean for requests below 2^62) -/
def ReadSpecB (F : Fmt) : Prop :=
  ∀ (s : Base) (size : Nat) (bytes : Bytes) (s' : Base),
    read F s size = .ok (bytes, s') → RInv s → totalSize s.files < 2^62 → size < 2^62 →
    RInv s' ∧ bytes ++ pending F s' = pending F s ∧ bytes.length ≤ size ∧
    (bytes = [] → size = 0 ∨ pending F s = []) ∧
    s'.files = s.files ∧ s'.offBegin = s.offBegin ∧ s'.offEnd = s.offEnd ∧ s'.chunk = s.chunk ∧
    s'.overflow = s.overflow ∧ s'.bufWords = s.bufWords

def ReadTotalB (F : Fmt) : Prop :=
  ∀ (s : Base) (size : Nat), RInv s → totalSize s.files < 2^62 → size < 2^62 → ∃ r, read F s size = .ok r

/-- FindLastRecordBegin stays inside the buffer -/
def CutOk (F : Fmt) : Prop := ∀ buf cut, F.findLastRecordBegin buf = .ok cut → cut ≤ buf.length

/-- text only: a `Read` that returns fewer bytes than requested and injected no `'\n'` after its first
byte has used up the part except for at most two bytes (one real byte and the `'\n'` before it).
(True of `read`: it returns `min size (offEnd - offCurr)` bytes, every injected byte is a `'\n'` and
costs one byte of the request, and at most one `'\n'` is injected per remaining real byte.) -/
def ReadShortB (F : Fmt) : Prop :=
  F.isText = true →
  ∀ (s : Base) (size : Nat) (bytes : Bytes) (s' : Base),
    read F s size = .ok (bytes, s') → RInv s → totalSize s.files < 2^62 → size < 2^62 →
    bytes.length < size → (∀ b ∈ bytes.drop 1, b ≠ 10) → (pending F s').length ≤ 2

/-- text only: a `'\n'` behind the first byte of the buffer makes FindLastRecordBegin cut behind it -/
def CutEol (F : Fmt) : Prop :=
  F.isText = true →
  ∀ (buf : Bytes) (cut : Nat) (a : Byte) (pre post : Bytes),
    F.findLastRecordBegin buf = .ok cut → buf = a :: pre ++ 10 :: post → 0 < cut

/-- text FindLastRecordBegin facts (proved in TextLemmas.lean) -/
def TextCut (F : Fmt) : Prop :=
  (∀ buf, buf ≠ [] → ∃ cut, F.findLastRecordBegin buf = .ok cut) ∧
  (∀ buf cut a pre e post, F.findLastRecordBegin buf = .ok cut → buf = a :: pre ++ e :: post →
    (e = 10 ∨ e = 13) → 0 < cut)

theorem CutEol_of_TextCut (F : Fmt) (hT : TextCut F) : CutEol F :=
  fun _ buf cut a pre post h hb => hT.2 buf cut a pre 10 post h hb (Or.inl rfl)

/-- carry-over followed by everything the remaining `Read` calls deliver -/
def tail (F : Fmt) (s : Base) : Bytes := s.overflow ++ pending F s

/-! ### kernels -/

theorem rcTooSmall_spec (m o : Nat) : rcTooSmall m o = decide (m ≤ o) := rfl

theorem rcReadSize_spec (m o : Nat) (h : o ≤ m) (hm : m < 2^64) : rcReadSize m o = m - o := by
  unfold rcReadSize sub64; omega

theorem rcShort_spec (n m : Nat) : (rcShort n m = true) ↔ n ≠ m := by
  unfold rcShort; simp

theorem rcNewline_byte : UInt8.ofNat rcNewline = 10 := by decide

theorem loadSize_spec (dw : Nat) (h1 : 1 ≤ dw) (h2 : dw ≤ 2^60) : loadSize dw = 4 * (dw - 1) := by
  unfold loadSize u64 sub64; omega

theorem loadGrow_spec (dw : Nat) (h2 : dw ≤ 2^60) : loadGrow dw = 2 * dw := by
  unfold loadGrow u64; omega

theorem loadResize_spec (bw : Nat) (h : bw < 2^60) : loadResize bw = bw + 1 := by
  unfold loadResize u64; omega

theorem pending_overflow (F : Fmt) (s : Base) (ov : Bytes) :
    pending F { s with overflow := ov } = pending F s := rfl

theorem RInv_overflow (s : Base) (ov : Bytes) : RInv { s with overflow := ov } ↔ RInv s := Iff.rfl

/-! ### `ReadChunk`: the branch structure, once -/

/-- the four ways `readChunk` returns normally -/
theorem readChunk_cases (F : Fmt) (s s' : Base) (maxSize : Nat) (r : Option Bytes)
    (h : readChunk F s maxSize = .ok (r, s')) (hm : maxSize < 2^64) :
    (maxSize ≤ s.overflow.length ∧ r = some [] ∧ s' = s) ∨
    (s.overflow.length < maxSize ∧
     ∃ bytes s1, read F { s with overflow := [] } (maxSize - s.overflow.length) = .ok (bytes, s1) ∧
      ((s.overflow = [] ∧ bytes = [] ∧ r = none ∧ s' = s1) ∨
       (s.overflow ++ bytes ≠ [] ∧ F.isText = false ∧ (s.overflow ++ bytes).length ≠ maxSize ∧
          r = some (s.overflow ++ bytes) ∧ s' = s1) ∨
       (s.overflow ++ bytes ≠ [] ∧ (F.isText = false → (s.overflow ++ bytes).length = maxSize) ∧
          ∃ buf cut, buf = (if F.isText = true ∧ bytes = [] then s.overflow ++ bytes ++ [10] else s.overflow ++ bytes) ∧
            F.findLastRecordBegin buf = .ok cut ∧ r = some (buf.take cut) ∧
            s' = { s1 with overflow := buf.drop cut }))) := by
  unfold readChunk at h
  rw [rcTooSmall_spec] at h
  by_cases hsmall : maxSize ≤ s.overflow.length
  · left
    simp only [hsmall, decide_true, if_true] at h
    cases h
    exact ⟨hsmall, rfl, rfl⟩
  · right
    simp only [hsmall, decide_false, Bool.false_eq_true, if_false] at h
    rw [rcReadSize_spec _ _ (by omega) hm] at h
    refine ⟨by omega, ?_⟩
    cases hrd : read F { s with overflow := [] } (maxSize - s.overflow.length) with
    | error e => simp [hrd] at h
    | ok res =>
      obtain ⟨bytes, s1⟩ := res
      refine ⟨bytes, s1, rfl, ?_⟩
      simp only [hrd] at h
      by_cases hz : (s.overflow ++ bytes).length = 0
      · left
        simp only [hz, if_true] at h
        cases h
        have : s.overflow ++ bytes = [] := List.eq_nil_of_length_eq_zero hz
        simp at this
        exact ⟨this.1, this.2, rfl, rfl⟩
      · right
        have hne : s.overflow ++ bytes ≠ [] := fun e => hz (by rw [e]; rfl)
        simp only [hz, if_false] at h
        by_cases hshort : F.isText = false ∧ rcShort (s.overflow ++ bytes).length maxSize = true
        · left
          simp only [hshort, and_self, if_true] at h
          cases h
          exact ⟨hne, hshort.1, (rcShort_spec _ _).1 hshort.2, rfl, rfl⟩
        · right
          simp only [hshort, if_false] at h
          refine ⟨hne, ?_, ?_⟩
          · intro hb
            by_cases e : (s.overflow ++ bytes).length = maxSize
            · exact e
            · exact absurd ⟨hb, (rcShort_spec _ _).2 e⟩ hshort
          · have hnd : (rcNoNewData (s.overflow ++ bytes).length s.overflow.length = true) ↔ bytes = [] := by
              unfold rcNoNewData
              simp
            rw [rcNewline_byte] at h
            simp only [hnd] at h
            cases hc : F.findLastRecordBegin
                (if F.isText = true ∧ bytes = [] then s.overflow ++ bytes ++ [10] else s.overflow ++ bytes) with
            | error e => simp only [hc] at h; cases h
            | ok cut =>
              simp only [hc] at h
              cases h
              exact ⟨_, cut, rfl, hc, rfl, rfl⟩

/-! ### `ReadChunk`: conservation -/

theorem readChunk_spec (F : Fmt) (hR : ReadSpecB F) (hC : CutOk F) (s s' : Base) (maxSize : Nat)
    (r : Option Bytes) (h : readChunk F s maxSize = .ok (r, s')) (hinv : RInv s)
    (ht : totalSize s.files < 2^62) (hm : maxSize < 2^62) :
    RInv s' ∧ s'.files = s.files ∧ s'.offBegin = s.offBegin ∧ s'.offEnd = s.offEnd ∧ s'.chunk = s.chunk ∧
    s'.bufWords = s.bufWords ∧
    match r with
    | none => s.overflow = [] ∧ pending F s = [] ∧ s'.overflow = [] ∧ pending F s' = []
    | some c =>
      c.length ≤ maxSize ∧
      -- conservation: either exactly, or (text only) with the final '\n' appended when the data is exhausted
      ((c ++ s'.overflow ++ pending F s' = s.overflow ++ pending F s) ∨
       (F.isText = true ∧ pending F s = [] ∧ pending F s' = [] ∧ s.overflow ≠ [] ∧
          c ++ s'.overflow = s.overflow ++ [10])) ∧
      -- provenance of the cut
      ((∃ buf cut, F.findLastRecordBegin buf = .ok cut ∧ c = buf.take cut ∧ s'.overflow = buf.drop cut ∧ buf ≠ []) ∨
       (F.isText = false ∧ s'.overflow = [] ∧ c ≠ []) ∨
       (c = [] ∧ s' = s)) := by
  rcases readChunk_cases F s s' maxSize r h (by omega) with ⟨hsm, rfl, rfl⟩ | ⟨hlt, bytes, s1, hrd, hcase⟩
  · refine ⟨hinv, rfl, rfl, rfl, rfl, rfl, ?_⟩
    refine ⟨by simp, Or.inl (by simp), Or.inr (Or.inr ⟨rfl, rfl⟩)⟩
  · obtain ⟨hinv1, hpend, hlen, hemp, hf, hob, hoe, hch, hov, hbw⟩ :=
      hR _ _ _ _ hrd ((RInv_overflow s []).2 hinv) ht (by omega)
    rw [pending_overflow] at hpend hemp
    have hf : s1.files = s.files := hf
    have hob : s1.offBegin = s.offBegin := hob
    have hoe : s1.offEnd = s.offEnd := hoe
    have hch : s1.chunk = s.chunk := hch
    have hov : s1.overflow = [] := hov
    have hbw : s1.bufWords = s.bufWords := hbw
    rcases hcase with ⟨ho, hb, rfl, rfl⟩ | ⟨hne, hbin, hsh, rfl, rfl⟩ | ⟨hne, hfull, buf, cut, hbuf, hcut, rfl, rfl⟩
    · refine ⟨hinv1, hf, hob, hoe, hch, hbw, ?_⟩
      have hp : pending F s = [] := by
        rcases hemp hb with h0 | h0
        · omega
        · exact h0
      rw [hb, hp] at hpend
      exact ⟨ho, hp, hov, by simpa using hpend⟩
    · refine ⟨hinv1, hf, hob, hoe, hch, hbw, ?_⟩
      refine ⟨by rw [List.length_append]; omega, Or.inl ?_, Or.inr (Or.inl ⟨hbin, hov, hne⟩)⟩
      rw [hov, ← hpend]; simp
    · refine ⟨(RInv_overflow s1 _).2 hinv1, hf, hob, hoe, hch, hbw, ?_⟩
      have hcl := hC buf cut hcut
      show (buf.take cut).length ≤ maxSize ∧
        ((buf.take cut ++ buf.drop cut ++ pending F s1 = s.overflow ++ pending F s) ∨
         (F.isText = true ∧ pending F s = [] ∧ pending F s1 = [] ∧ s.overflow ≠ [] ∧
            buf.take cut ++ buf.drop cut = s.overflow ++ [10])) ∧
        ((∃ buf' cut', F.findLastRecordBegin buf' = .ok cut' ∧ buf.take cut = buf'.take cut' ∧
            buf.drop cut = buf'.drop cut' ∧ buf' ≠ []) ∨ _ ∨ _)
      rw [List.take_append_drop]
      by_cases hcond : F.isText = true ∧ bytes = []
      · rw [if_pos hcond] at hbuf
        obtain ⟨htx, hb⟩ := hcond
        have hp : pending F s = [] := by
          rcases hemp hb with h0 | h0
          · omega
          · exact h0
        rw [hb, hp] at hpend
        have hp1 : pending F s1 = [] := by simpa using hpend
        rw [hb, List.append_nil] at hbuf hne
        refine ⟨?_, Or.inr ⟨htx, hp, hp1, hne, hbuf⟩, Or.inl ⟨buf, cut, hcut, rfl, rfl, ?_⟩⟩
        · rw [List.length_take, hbuf, List.length_append]; simp; omega
        · rw [hbuf]; simp
      · rw [if_neg hcond] at hbuf
        refine ⟨?_, Or.inl ?_, Or.inl ⟨buf, cut, hcut, rfl, rfl, by rw [hbuf]; exact hne⟩⟩
        · rw [List.length_take, hbuf, List.length_append]; omega
        · rw [hbuf, ← hpend]; simp

end DmlcModel.Split
