/-
`InputSplitShuffle` (include/dmlc/input_split_shuffle.h): the wrapper that reads part `k` of `n` as `m` sub-parts
`k*m + j` of `n*m`, in a shuffled order, by calling `ResetPartition` on an inner `InputSplit::Create` object.

The inner split is represented by its *contract* (C05 / C10): after `ResetPartition(i, n*m)` – from any state – and
after `BeforeFirst`, it delivers exactly the records `sub i` of a freshly created split for that part, then `false`
for ever (`C05_reset`, `C05_beforeFirst`, `C10_threaded_transparent`).  The wrapper itself is mirrored statement by
statement: `NextRecord` / `NextChunk` (same code shape), `BeforeFirst` (the new order `π'` of `shuffle_indexes_` is a
parameter: whatever `std::shuffle` produced), `ResetPartition` (with the `CHECK(nsplit == num_parts_)`).

`fixPart` = does `ResetPartition` store the new rank in `part_index_`?  (Gen flag read from the source.)  Without it
the sub-parts after the first one are taken from the OLD part: finding C05-F2.
-/
import DmlcModel.Split.Model

namespace DmlcModel.Split.Shuffle
open DmlcModel.Split

abbrev Res (α : Type) := Except Err α

/-- state of the wrapper; `rest` = what the inner split still delivers in its current part -/
structure Sh (α : Type) where
  partIndex : Nat
  numParts : Nat
  m : Nat                       -- num_shuffle_parts_
  cur : Nat := 0                -- cur_shuffle_idx_
  perm : List Nat               -- shuffle_indexes_
  srcIdx : Nat                  -- the part the inner split currently reads (of numParts * m)
  rest : List α

/-- `shuffle_indexes_[j] + part * num_shuffle_parts_` (indexing the vector outside its size is undefined) -/
def idxAt (perm : List Nat) (j part m : Nat) : Res Nat :=
  match perm[j]? with
  | some p => .ok (p + part * m)
  | none => .error .oob

/-- the constructor: `perm` = the order after the constructor's `std::shuffle` -/
def create (sub : Nat → Res (List α)) (partIndex numParts m : Nat) (perm : List Nat) : Res (Sh α) := do
  if m = 0 then .error .check else
  let idx ← idxAt perm 0 partIndex m
  let rest ← sub idx
  pure { partIndex, numParts, m, cur := 0, perm, srcIdx := idx, rest }

/-- `NextRecord` (and `NextChunk`: the same code over chunks) -/
def next (sub : Nat → Res (List α)) (s : Sh α) : Res (Option α × Sh α) :=
  match s.rest with
  | r :: rs => .ok (some r, { s with rest := rs })
  | [] =>
    if s.m > 1 then
      if s.cur = s.m - 1 then .ok (none, s)
      else if s.cur < s.m then
        match idxAt s.perm (s.cur + 1) s.partIndex s.m with
        | .error e => .error e
        | .ok idx =>
          match sub idx with
          | .error e => .error e
          | .ok rs => next sub { s with cur := s.cur + 1, srcIdx := idx, rest := rs }
      else .error .oob      -- cur_shuffle_idx_ beyond the vector: unreachable (invariant `cur < m`)
    else .ok (none, s)
termination_by s.m - s.cur

/-- `BeforeFirst`; `perm'` = `shuffle_indexes_` after this call's `std::shuffle` (ignored when `m = 1`) -/
def beforeFirst (sub : Nat → Res (List α)) (s : Sh α) (perm' : List Nat) : Res (Sh α) := do
  if s.m > 1 then
    let idx ← idxAt perm' 0 s.partIndex s.m
    let rest ← sub idx
    pure { s with perm := perm', cur := 0, srcIdx := idx, rest }
  else
    let rest ← sub s.srcIdx
    pure { s with rest }

/-- `ResetPartition(rank, nsplit)` -/
def resetPartition (fixPart : Bool) (sub : Nat → Res (List α)) (s : Sh α) (rank nsplit : Nat) : Res (Sh α) := do
  if nsplit ≠ s.numParts then .error .check else
  let idx ← idxAt s.perm 0 rank s.m
  let rest ← sub idx
  pure { s with cur := 0, srcIdx := idx, rest, partIndex := if fixPart then rank else s.partIndex }

theorem next_some {sub : Nat → Res (List α)} {s s' : Sh α} {r : α} (h : next sub s = .ok (some r, s')) :
    s'.m = s.m ∧ ((s.cur < s'.cur ∧ s'.cur < s.m) ∨ (s'.cur = s.cur ∧ s'.rest.length < s.rest.length)) := by
  fun_induction next sub s with
  | case1 s r0 rs hr =>
    simp only [Except.ok.injEq, Prod.mk.injEq, Option.some.injEq] at h
    obtain ⟨_, rfl⟩ := h
    exact ⟨rfl, Or.inr ⟨rfl, by simp [hr]⟩⟩
  | case2 s hr hm hc => simp at h
  | case3 s hr hm hc hlt e he => cases h
  | case4 s hr hm hc hlt idx hi e he => cases h
  | case5 s hr hm hc hlt idx hi rs hs ih =>
    have := ih h
    refine ⟨this.1, Or.inl ?_⟩
    rcases this.2 with ⟨h1, h2⟩ | ⟨h1, _⟩
    · exact ⟨by simp only at h1; omega, h2⟩
    · simp only at h1 this
      refine ⟨by omega, ?_⟩
      have hm' := this.1
      -- s'.cur = s.cur + 1 < s.m since s.cur < s.m and s.cur ≠ s.m - 1
      omega
  | case6 s hr hm hc hlt => cases h
  | case7 s hr hm => simp at h

/-- consume to the end of the pass (fuel-free: every `next` that returns a record either moves to a later sub-part
or shortens what is left of the current one) -/
def drain (sub : Nat → Res (List α)) (s : Sh α) : Res (List α) :=
  match _h : next sub s with
  | .error e => .error e
  | .ok (none, _) => .ok []
  | .ok (some r, s') => (drain sub s').map (r :: ·)
termination_by (s.m - s.cur, s.rest.length)
decreasing_by
  have := next_some _h
  rcases this.2 with ⟨h1, h2⟩ | ⟨h1, h2⟩
  · exact Prod.Lex.left _ _ (by rw [this.1]; omega)
  · rw [this.1, h1]; exact Prod.Lex.right _ h2

end DmlcModel.Split.Shuffle
