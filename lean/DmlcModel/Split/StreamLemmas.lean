/-
"Cut and telescope" layer of the Split model: facts about `rangeStream` (the stream of a byte range of
the concatenated files, with a `'\n'` injected in text mode after every file end strictly inside the
range), about locating an offset (`filePtrOf`), and about cut points (`IsCut`).
Core Lean only.
-/
import DmlcModel.Split.Spec

namespace DmlcModel.Split
open DmlcModel DmlcModel.Gen.Split

/-! ### 1. offsets and `filePtrOf` -/

private theorem fileOffset_zero (files : List Bytes) : fileOffset files 0 = 0 := by
  simp [fileOffset]

private theorem fileOffset_nil (i : Nat) : fileOffset [] i = 0 := by
  simp [fileOffset]

private theorem fileOffset_cons_succ (f : Bytes) (fs : List Bytes) (i : Nat) :
    fileOffset (f :: fs) (i + 1) = f.length + fileOffset fs i := by
  simp [fileOffset]

private theorem totalSize_nil : totalSize [] = 0 := by
  simp [totalSize, fileOffset]

private theorem totalSize_cons (f : Bytes) (fs : List Bytes) :
    totalSize (f :: fs) = f.length + totalSize fs := by
  simp [totalSize, fileOffset]

private theorem fileOffset_succ (files : List Bytes) (i : Nat) (f : Bytes) (rest : List Bytes)
    (h : files.drop i = f :: rest) :
    fileOffset files (i + 1) = fileOffset files i + f.length := by
  induction files generalizing i with
  | nil => simp at h
  | cons g gs ih =>
    cases i with
    | zero =>
      simp at h
      simp [fileOffset, h.1]
    | succ j =>
      simp at h
      rw [fileOffset_cons_succ, fileOffset_cons_succ, ih j h]
      omega

private theorem fileOffset_mono (files : List Bytes) (i : Nat) : fileOffset files i ≤ fileOffset files (i + 1) := by
  induction files generalizing i with
  | nil => simp [fileOffset_nil]
  | cons g gs ih =>
    cases i with
    | zero => simp [fileOffset_zero]
    | succ j =>
      rw [fileOffset_cons_succ, fileOffset_cons_succ]
      have := ih j
      omega

theorem fileOffset_le_totalSize (files : List Bytes) (i : Nat) : fileOffset files i ≤ totalSize files := by
  induction files generalizing i with
  | nil => simp [fileOffset_nil]
  | cons g gs ih =>
    cases i with
    | zero => simp [fileOffset_zero]
    | succ j =>
      rw [fileOffset_cons_succ, totalSize_cons]
      have := ih j
      omega

theorem totalSize_eq_flatten (files : List Bytes) : totalSize files = files.flatten.length := by
  induction files with
  | nil => simp [totalSize_nil]
  | cons f fs ih => simp [totalSize_cons, ih]

theorem totalSize_pos_of_ne_nil (files : List Bytes) (hne : ∀ f ∈ files, f ≠ []) (h : files ≠ []) :
    0 < totalSize files := by
  cases files with
  | nil => exact absurd rfl h
  | cons f fs =>
    rw [totalSize_cons]
    have : f ≠ [] := hne f (by simp)
    have : 0 < f.length := List.length_pos_iff.mpr this
    omega

private theorem upperBound_offsetsFrom_shift (fs : List Bytes) (acc k x : Nat) :
    upperBound (offsetsFrom (acc + k) fs) (x + k) = upperBound (offsetsFrom acc fs) x := by
  induction fs generalizing acc with
  | nil =>
    simp only [offsetsFrom, upperBound]
    by_cases h : x < acc
    · have : x + k < acc + k := by omega
      simp [h, this]
    · have : ¬ x + k < acc + k := by omega
      simp [h, this]
  | cons f fs ih =>
    simp only [offsetsFrom, upperBound]
    have e : acc + k + f.length = (acc + f.length) + k := by omega
    rw [e, ih]
    by_cases h : x < acc
    · have : x + k < acc + k := by omega
      simp [h, this]
    · have : ¬ x + k < acc + k := by omega
      simp [h, this]

private theorem upperBound_offsetsFrom_zero_pos (fs : List Bytes) (x : Nat) :
    1 ≤ upperBound (offsetsFrom 0 fs) x := by
  cases fs <;> simp [offsetsFrom, upperBound]

theorem filePtrOf_nil (x : Nat) : filePtrOf [] x = 0 := by
  simp [filePtrOf, offsetsFrom, upperBound]

/-- an offset inside the first file is located in file 0 -/
theorem filePtrOf_cons_lt (f : Bytes) (fs : List Bytes) (x : Nat) (h : x < f.length) :
    filePtrOf (f :: fs) x = 0 := by
  cases fs <;> simp [filePtrOf, offsetsFrom, upperBound, h]

/-- an offset at or beyond the end of the first file is located by the remaining files -/
theorem filePtrOf_cons_ge (f : Bytes) (fs : List Bytes) (x : Nat) (h : f.length ≤ x) :
    filePtrOf (f :: fs) x = filePtrOf fs (x - f.length) + 1 := by
  have h1 := upperBound_offsetsFrom_shift fs 0 f.length (x - f.length)
  have h2 := upperBound_offsetsFrom_zero_pos fs (x - f.length)
  have e : x - f.length + f.length = x := by omega
  rw [e] at h1
  simp only [filePtrOf, offsetsFrom, upperBound]
  simp only [Nat.not_lt_zero, if_false]
  rw [h1]
  omega

/-- `filePtrOf` is the index of the file containing `x`: the last file START `≤ x`
(`hne` is not needed for this direction; kept for a uniform interface) -/
theorem filePtrOf_spec (files : List Bytes) (hne : ∀ f ∈ files, f ≠ []) (x : Nat) (hx : x < totalSize files) :
    filePtrOf files x < files.length ∧ fileOffset files (filePtrOf files x) ≤ x ∧
      x < fileOffset files (filePtrOf files x + 1) := by
  induction files generalizing x with
  | nil => simp [totalSize_nil] at hx
  | cons f fs ih =>
    by_cases h : x < f.length
    · rw [filePtrOf_cons_lt f fs x h]
      simp [fileOffset_zero, fileOffset_cons_succ, h]
    · have h' : f.length ≤ x := by omega
      rw [filePtrOf_cons_ge f fs x h']
      rw [totalSize_cons] at hx
      have := ih (fun g hg => hne g (by simp [hg])) (x - f.length) (by omega)
      rw [fileOffset_cons_succ, fileOffset_cons_succ]
      simp only [List.length_cons]
      omega

theorem filePtrOf_total (files : List Bytes) (hne : ∀ f ∈ files, f ≠ []) :
    filePtrOf files (totalSize files) = files.length := by
  induction files with
  | nil => simp [filePtrOf_nil]
  | cons f fs ih =>
    rw [totalSize_cons, filePtrOf_cons_ge f fs _ (by omega)]
    have e : f.length + totalSize fs - f.length = totalSize fs := by omega
    rw [e, ih (fun g hg => hne g (by simp [hg]))]
    simp

/-- with non-empty files, an offset that is a file start is located in exactly that file -/
theorem filePtrOf_fileOffset (files : List Bytes) (hne : ∀ f ∈ files, f ≠ []) (i : Nat) (hi : i ≤ files.length) :
    filePtrOf files (fileOffset files i) = i := by
  induction files generalizing i with
  | nil =>
    have : i = 0 := by simpa using hi
    simp [filePtrOf_nil, this]
  | cons f fs ih =>
    cases i with
    | zero =>
      rw [fileOffset_zero]
      have : f ≠ [] := hne f (by simp)
      exact filePtrOf_cons_lt f fs 0 (List.length_pos_iff.mpr this)
    | succ j =>
      rw [fileOffset_cons_succ, filePtrOf_cons_ge f fs _ (by omega)]
      have e : f.length + fileOffset fs j - f.length = fileOffset fs j := by omega
      rw [e, ih (fun g hg => hne g (by simp [hg])) j (by simpa using hi)]

/-! ### `pendFrom` / `pend` / `rangeStream`: recursive characterisation -/

theorem pendFrom_of_le (isText : Bool) (later : List Bytes) (cur : Bytes) (budget : Nat)
    (h : budget ≤ cur.length) : pendFrom isText later cur budget = cur.take budget := by
  cases later <;> simp [pendFrom, h]

theorem pend_zero_budget (isText : Bool) (files : List Bytes) (fp pos : Nat) :
    pend isText files fp pos 0 = [] := by
  unfold pend
  split
  · rfl
  · rw [pendFrom_of_le _ _ _ _ (Nat.zero_le _)]; simp

theorem pend_cons_succ (isText : Bool) (f : Bytes) (fs : List Bytes) (fp pos budget : Nat) :
    pend isText (f :: fs) (fp + 1) pos budget = pend isText fs fp pos budget := by
  simp [pend]

theorem rangeStream_nil (isText : Bool) (b e : Nat) : rangeStream isText [] b e = [] := by
  simp [rangeStream, pend]

set_option linter.unusedVariables false in
theorem rangeStream_self (isText : Bool) (files : List Bytes) (hne : ∀ f ∈ files, f ≠ []) (b : Nat)
    (hb : b ≤ totalSize files) : rangeStream isText files b b = [] := by
  simp [rangeStream, pend_zero_budget]

/-- a recursive characterisation, peeling the first file -/
theorem rangeStream_cons (isText : Bool) (f : Bytes) (fs : List Bytes) (hne : ∀ g ∈ f :: fs, g ≠ []) (b e : Nat)
    (hbe : b ≤ e) (he : e ≤ totalSize (f :: fs)) :
    rangeStream isText (f :: fs) b e =
      if e ≤ f.length then (f.drop b).take (e - b)
      else if f.length ≤ b then rangeStream isText fs (b - f.length) (e - f.length)
      else f.drop b ++ (if isText then [10] else []) ++ rangeStream isText fs 0 (e - f.length) := by
  by_cases hb : b < f.length
  · -- the range starts inside the first file
    have hfp := filePtrOf_cons_lt f fs b hb
    have hL : rangeStream isText (f :: fs) b e = pendFrom isText fs (f.drop b) (e - b) := by
      simp [rangeStream, hfp, fileOffset_zero, pend]
    rw [hL]
    by_cases h1 : e ≤ f.length
    · rw [if_pos h1, pendFrom_of_le _ _ _ _ (by simp; omega)]
    · rw [if_neg h1, if_neg (by omega)]
      cases fs with
      | nil => simp [totalSize_cons, totalSize_nil] at he; omega
      | cons g gs =>
        have hg : g ≠ [] := hne g (by simp)
        have hgl : 0 < g.length := List.length_pos_iff.mpr hg
        have hfp0 := filePtrOf_cons_lt g gs 0 hgl
        have hR : rangeStream isText (g :: gs) 0 (e - f.length) = pendFrom isText gs g (e - f.length) := by
          simp [rangeStream, hfp0, fileOffset_zero, pend]
        rw [hR]
        have hnle : ¬ (e - b ≤ (f.drop b).length) := by simp; omega
        have hbud : e - b - (f.drop b).length = e - f.length := by simp; omega
        simp only [pendFrom, if_neg hnle, hbud]
  · have hb' : f.length ≤ b := by omega
    by_cases h1 : e ≤ f.length
    · have : e = b := by omega
      subst this
      rw [if_pos h1, rangeStream_self isText (f :: fs) hne e he]
      simp
    · rw [if_neg h1, if_pos hb']
      have hfp := filePtrOf_cons_ge f fs b hb'
      simp only [rangeStream, hfp, pend_cons_succ, fileOffset_cons_succ]
      have e1 : b - (f.length + fileOffset fs (filePtrOf fs (b - f.length)))
          = b - f.length - fileOffset fs (filePtrOf fs (b - f.length)) := by omega
      have e2 : e - f.length - (b - f.length) = e - b := by omega
      rw [e1, e2]

/-! ### 2. binary mode: a plain slice of the concatenation -/

theorem rangeStream_binary (files : List Bytes) (hne : ∀ f ∈ files, f ≠ []) (b e : Nat) (hbe : b ≤ e)
    (he : e ≤ totalSize files) :
    rangeStream false files b e = (files.flatten.drop b).take (e - b) := by
  induction files generalizing b e with
  | nil =>
    simp [rangeStream_nil]
  | cons f fs ih =>
    have hne' : ∀ g ∈ fs, g ≠ [] := fun g hg => hne g (by simp [hg])
    rw [rangeStream_cons false f fs hne b e hbe he, List.flatten_cons]
    rw [totalSize_cons] at he
    by_cases h1 : e ≤ f.length
    · rw [if_pos h1, List.drop_append_of_le_length (by omega),
        List.take_append_of_le_length (by simp; omega)]
    · rw [if_neg h1]
      by_cases h2 : f.length ≤ b
      · rw [if_pos h2, ih hne' (b - f.length) (e - f.length) (by omega) (by omega)]
        have e2 : e - f.length - (b - f.length) = e - b := by omega
        rw [e2, List.drop_append]
        have : List.drop b f = [] := List.drop_eq_nil_of_le h2
        simp [this]
      · rw [if_neg h2, ih hne' 0 (e - f.length) (by omega) (by omega)]
        rw [List.drop_append_of_le_length (by omega)]
        rw [List.take_append]
        have hl : (List.drop b f).length = f.length - b := by simp
        have e3 : e - b - (f.length - b) = e - f.length := by omega
        have : List.take (e - b) (List.drop b f) = List.drop b f :=
          List.take_of_length_le (by rw [hl]; omega)
        simp [this, hl, e3]

theorem rangeStream_binary_append (files : List Bytes) (hne : ∀ f ∈ files, f ≠ []) (b m e : Nat)
    (h1 : b ≤ m) (h2 : m ≤ e) (he : e ≤ totalSize files) :
    rangeStream false files b e = rangeStream false files b m ++ rangeStream false files m e := by
  rw [rangeStream_binary files hne b e (by omega) he, rangeStream_binary files hne b m h1 (by omega),
    rangeStream_binary files hne m e h2 he]
  have e1 : e - b = (m - b) + (e - m) := by omega
  rw [e1, List.take_add, List.drop_drop]
  have e2 : b + (m - b) = m := by omega
  rw [e2]

/-! ### 3. text mode: cutting at a cut point never cuts a line -/

private theorem fieldsGo_append_sep (sep : Byte → Bool) (x : Bytes) (a : Byte) (y cur : Bytes)
    (ha : sep a = true) :
    fieldsGo sep (x ++ a :: y) cur = fieldsGo sep x cur ++ fieldsGo sep y [] := by
  induction x generalizing cur with
  | nil =>
    simp only [List.nil_append, fieldsGo, ha, if_true]
    by_cases hc : cur.isEmpty <;> simp [hc]
  | cons c x ih =>
    simp only [List.cons_append, fieldsGo]
    by_cases hs : sep c
    · simp only [hs, if_true]
      by_cases hc : cur.isEmpty <;> simp [hc, ih]
    · simp only [hs]
      simp [ih]

/-- an EOL byte separates: the lines left and right of it are independent -/
private theorem lines_append_eol (x : Bytes) (a : Byte) (y : Bytes) (ha : isEol a = true) :
    lines (x ++ a :: y) = lines x ++ lines y := by
  simp only [lines, fields]
  exact fieldsGo_append_sep isEol x a y [] ha

private theorem lines_nil : lines [] = [] := by
  simp [lines, fields, fieldsGo]

private theorem lines_append_eol_end (x : Bytes) (a : Byte) (ha : isEol a = true) :
    lines (x ++ [a]) = lines x := by
  rw [lines_append_eol x a [] ha, lines_nil]; simp

/-- splitting right after an EOL byte -/
private theorem lines_append_of_eol_end (x : Bytes) (a : Byte) (y : Bytes) (ha : isEol a = true) :
    lines ((x ++ [a]) ++ y) = lines (x ++ [a]) ++ lines y := by
  rw [lines_append_eol_end x a ha, List.append_assoc]
  exact lines_append_eol x a y ha

private theorem isEol_ten : isEol 10 = true := by decide

/-- slicing a list at `b ≤ m`, where the element before `m` is known -/
private theorem drop_split_at (f : Bytes) (b m : Nat) (a : Byte) (c : Bytes) (hbm : b < m)
    (hd : f.drop (m - 1) = a :: c) :
    f.drop b = ((f.drop b).take (m - 1 - b) ++ [a]) ++ f.drop m ∧
    (f.drop b).take (m - b) = (f.drop b).take (m - 1 - b) ++ [a] := by
  have hm : m - 1 < f.length := by
    apply Decidable.byContradiction
    intro h
    have : f.drop (m - 1) = [] := List.drop_eq_nil_of_le (by omega)
    rw [this] at hd
    cases hd
  have hdm : f.drop m = c := by
    have : f.drop m = (f.drop (m - 1)).drop 1 := by
      rw [List.drop_drop]; congr 1; omega
    rw [this, hd]; rfl
  have h1 : (f.drop b).drop (m - 1 - b) = a :: c := by
    rw [List.drop_drop]
    have : b + (m - 1 - b) = m - 1 := by omega
    rw [this, hd]
  have h2 : f.drop b = (f.drop b).take (m - 1 - b) ++ (a :: c) := by
    rw [← h1, List.take_append_drop]
  constructor
  · rw [hdm, List.append_assoc]
    exact h2
  · have e : m - b = (m - 1 - b) + 1 := by omega
    rw [e, List.take_add, h1]
    rfl

theorem isCut_zero (files : List Bytes) : IsCut files 0 := by
  cases files <;> simp [IsCut]

theorem isCut_fileOffset (files : List Bytes) (i : Nat) (hi : i ≤ files.length) :
    IsCut files (fileOffset files i) := by
  induction files generalizing i with
  | nil => simp [IsCut, fileOffset_nil]
  | cons f fs ih =>
    cases i with
    | zero => rw [fileOffset_zero]; exact isCut_zero _
    | succ j =>
      rw [fileOffset_cons_succ]
      have hj : j ≤ fs.length := by simpa using hi
      by_cases h0 : fileOffset fs j = 0
      · rw [h0]; simp [IsCut]
      · unfold IsCut
        right; right; right
        refine ⟨by omega, ?_⟩
        have e : f.length + fileOffset fs j - f.length = fileOffset fs j := by omega
        rw [e]
        exact ih j hj

theorem isCut_total (files : List Bytes) : IsCut files (totalSize files) :=
  isCut_fileOffset files files.length (Nat.le_refl _)

theorem lines_rangeStream_split (files : List Bytes) (hne : ∀ f ∈ files, f ≠ []) (b m e : Nat)
    (h1 : b ≤ m) (h2 : m ≤ e) (he : e ≤ totalSize files) (hm : IsCut files m) :
    lines (rangeStream true files b e) =
      lines (rangeStream true files b m) ++ lines (rangeStream true files m e) := by
  induction files generalizing b m e with
  | nil => simp [rangeStream_nil, lines_nil]
  | cons f fs ih =>
    have hne' : ∀ g ∈ fs, g ≠ [] := fun g hg => hne g (by simp [hg])
    have hfl : 0 < f.length := List.length_pos_iff.mpr (hne f (by simp))
    by_cases hbm : b = m
    · subst hbm
      rw [rangeStream_self true (f :: fs) hne b (by omega), lines_nil]; simp
    by_cases hme : m = e
    · subst hme
      rw [rangeStream_self true (f :: fs) hne m he, lines_nil]; simp
    have hbm' : b < m := by omega
    have hme' : m < e := by omega
    rw [rangeStream_cons true f fs hne b e (by omega) he,
      rangeStream_cons true f fs hne b m h1 (by omega),
      rangeStream_cons true f fs hne m e h2 he]
    rw [totalSize_cons] at he
    simp only [if_true]
    unfold IsCut at hm
    by_cases hA : e ≤ f.length
    · -- everything inside the first file
      rw [if_pos hA, if_pos (by omega : m ≤ f.length), if_pos hA]
      rcases hm with hm | hm | hm | hm
      · omega
      · omega
      · obtain ⟨_, ⟨a, c, hd, ha, _⟩, _⟩ := hm
        obtain ⟨_, k2⟩ := drop_split_at f b m a c hbm' hd
        have e1 : e - b = (m - b) + (e - m) := by omega
        rw [e1, List.take_add, List.drop_drop]
        have e2 : b + (m - b) = m := by omega
        rw [e2, k2]
        exact lines_append_of_eol_end _ a _ ha
      · omega
    · rw [if_neg hA, if_neg hA]
      by_cases hB : f.length ≤ b
      · -- everything beyond the first file
        rw [if_pos hB, if_neg (by omega : ¬ m ≤ f.length), if_pos hB, if_pos (by omega : f.length ≤ m)]
        rcases hm with hm | hm | hm | hm
        · omega
        · omega
        · omega
        · exact ih hne' (b - f.length) (m - f.length) (e - f.length) (by omega) (by omega) (by omega) hm.2
      · rw [if_neg hB]
        by_cases hC : m < f.length
        · -- the cut is inside the first file, the range extends beyond it
          rw [if_pos (by omega : m ≤ f.length), if_neg (by omega : ¬ f.length ≤ m)]
          rcases hm with hm | hm | hm | hm
          · omega
          · omega
          · obtain ⟨_, ⟨a, c, hd, ha, _⟩, _⟩ := hm
            obtain ⟨k1, k2⟩ := drop_split_at f b m a c hbm' hd
            rw [k2]
            conv => lhs; rw [k1]
            have hassoc : ∀ X R : Bytes,
                X ++ List.drop m f ++ [10] ++ R = X ++ (List.drop m f ++ [10] ++ R) := by
              intro X R; simp
            rw [hassoc]
            exact lines_append_of_eol_end _ a _ ha
          · omega
        · by_cases hD : m = f.length
          · -- the cut is the end of the first file
            rw [if_pos (by omega : m ≤ f.length), if_pos (by omega : f.length ≤ m)]
            subst hD
            have : List.take (f.length - b) (List.drop b f) = List.drop b f :=
              List.take_of_length_le (by simp)
            rw [this]
            have e0 : f.length - f.length = 0 := by omega
            rw [e0, List.append_assoc]
            exact lines_append_eol _ 10 _ isEol_ten
          · -- the cut is beyond the first file
            rw [if_neg (by omega : ¬ m ≤ f.length), if_neg hB, if_pos (by omega : f.length ≤ m)]
            rcases hm with hm | hm | hm | hm
            · omega
            · omega
            · omega
            · have := ih hne' 0 (m - f.length) (e - f.length) (by omega) (by omega) (by omega) hm.2
              rw [List.append_assoc, List.append_assoc]
              simp only [List.singleton_append]
              rw [lines_append_eol _ 10 _ isEol_ten, lines_append_eol _ 10 _ isEol_ten, this,
                List.append_assoc]

theorem lines_rangeStream_all (files : List Bytes) (hne : ∀ f ∈ files, f ≠ []) :
    lines (rangeStream true files 0 (totalSize files)) = files.flatMap lines := by
  induction files with
  | nil => simp [rangeStream_nil, lines_nil]
  | cons f fs ih =>
    have hne' : ∀ g ∈ fs, g ≠ [] := fun g hg => hne g (by simp [hg])
    have hfl : 0 < f.length := List.length_pos_iff.mpr (hne f (by simp))
    rw [rangeStream_cons true f fs hne 0 _ (by omega) (Nat.le_refl _), totalSize_cons]
    simp only [List.flatMap_cons, if_true, List.drop_zero]
    cases fs with
    | nil =>
      simp [totalSize_nil]
    | cons g gs =>
      have hpos := totalSize_pos_of_ne_nil (g :: gs) hne' (by simp)
      rw [if_neg (by omega), if_neg (by omega)]
      have e : f.length + totalSize (g :: gs) - f.length = totalSize (g :: gs) := by omega
      rw [e, List.append_assoc]
      simp only [List.singleton_append]
      rw [lines_append_eol _ 10 _ isEol_ten, ih hne']

/-- telescoping over a monotone list of cut points `c0 ≤ c₁ ≤ … ≤ c_n` (sortedness stated with
`List.Pairwise (· ≤ ·)`; core Lean has no `List.Chain'`) -/
theorem lines_rangeStream_telescope (files : List Bytes) (hne : ∀ f ∈ files, f ≠ []) (cs : List Nat) (c0 : Nat)
    (hchain : List.Pairwise (· ≤ ·) (c0 :: cs))
    (hcut : ∀ c ∈ cs, IsCut files c) (hlast : ∀ c ∈ (c0 :: cs), c ≤ totalSize files) :
    ((c0 :: cs).zip cs).flatMap (fun p => lines (rangeStream true files p.1 p.2))
      = lines (rangeStream true files c0 ((c0 :: cs).getLast (by simp))) := by
  induction cs generalizing c0 with
  | nil =>
    simp only [List.zip_nil_right, List.flatMap_nil, List.getLast_singleton]
    rw [rangeStream_self true files hne c0 (hlast c0 (by simp)), lines_nil]
  | cons c1 cs ih =>
    rw [List.pairwise_cons] at hchain
    have hih := ih c1 hchain.2 (fun c hc => hcut c (by simp [hc])) (fun c hc => hlast c (by simp [hc]))
    simp only [List.zip_cons_cons, List.flatMap_cons]
    rw [hih, List.getLast_cons (a := c0) (l := c1 :: cs) (by simp)]
    have hmem : (c1 :: cs).getLast (by simp) ∈ c1 :: cs := List.getLast_mem _
    have hle : c1 ≤ (c1 :: cs).getLast (by simp) := by
      rcases List.mem_cons.mp hmem with h | h
      · omega
      · exact (List.pairwise_cons.mp hchain.2).1 _ h
    symm
    exact lines_rangeStream_split files hne c0 c1 _ (hchain.1 c1 (by simp)) hle
      (hlast _ (by simp [hmem])) (hcut c1 (by simp))

/-! ### byte-level cutting (both modes): extra facts behind 2 and 3 -/

/-- cutting at a file boundary strictly inside the range: in text mode exactly the injected `'\n'` is lost -/
theorem rangeStream_append_boundary (isText : Bool) (files : List Bytes) (hne : ∀ f ∈ files, f ≠ [])
    (b e i : Nat) (hi : i ≤ files.length) (h1 : b < fileOffset files i) (h2 : fileOffset files i < e)
    (he : e ≤ totalSize files) :
    rangeStream isText files b e =
      rangeStream isText files b (fileOffset files i) ++ (if isText then [10] else []) ++
        rangeStream isText files (fileOffset files i) e := by
  induction files generalizing b e i with
  | nil => simp [fileOffset_nil] at h1
  | cons f fs ih =>
    have hne' : ∀ g ∈ fs, g ≠ [] := fun g hg => hne g (by simp [hg])
    cases i with
    | zero => simp [fileOffset_zero] at h1
    | succ j =>
      have hj : j ≤ fs.length := by simpa using hi
      have hmt := fileOffset_le_totalSize (f :: fs) (j + 1)
      rw [fileOffset_cons_succ] at h1 h2 hmt ⊢
      rw [rangeStream_cons isText f fs hne b e (by omega) he,
        rangeStream_cons isText f fs hne b _ (by omega) hmt,
        rangeStream_cons isText f fs hne _ e (by omega) he]
      rw [totalSize_cons] at he
      have e0 : f.length + fileOffset fs j - f.length = fileOffset fs j := by omega
      rw [if_neg (by omega : ¬ e ≤ f.length), if_neg (by omega : ¬ e ≤ f.length),
        if_pos (by omega : f.length ≤ f.length + fileOffset fs j), e0]
      by_cases hB : f.length ≤ b
      · rw [if_pos hB, if_neg (by omega : ¬ f.length + fileOffset fs j ≤ f.length), if_pos hB]
        exact ih hne' (b - f.length) (e - f.length) j hj (by omega) (by omega) (by omega)
      · rw [if_neg hB, if_neg hB]
        by_cases h0 : fileOffset fs j = 0
        · rw [h0, if_pos (by omega : f.length + 0 ≤ f.length)]
          have e1 : f.length + 0 - b = f.length - b := by omega
          have : List.take (f.length - b) (List.drop b f) = List.drop b f :=
            List.take_of_length_le (by simp)
          rw [e1, this]
        · rw [if_neg (by omega : ¬ f.length + fileOffset fs j ≤ f.length)]
          rw [ih hne' 0 (e - f.length) j hj (by omega) (by omega) (by omega)]
          simp only [List.append_assoc]

/-- cutting strictly inside a file loses nothing -/
theorem rangeStream_append_inside (isText : Bool) (files : List Bytes) (hne : ∀ f ∈ files, f ≠ [])
    (b m e : Nat) (h1 : b ≤ m) (h2 : m ≤ e) (he : e ≤ totalSize files)
    (hm : ∀ i, i ≤ files.length → m ≠ fileOffset files i) :
    rangeStream isText files b e = rangeStream isText files b m ++ rangeStream isText files m e := by
  induction files generalizing b m e with
  | nil => simp [rangeStream_nil]
  | cons f fs ih =>
    have hne' : ∀ g ∈ fs, g ≠ [] := fun g hg => hne g (by simp [hg])
    by_cases hbm : b = m
    · subst hbm
      rw [rangeStream_self isText (f :: fs) hne b (by omega)]; simp
    by_cases hme : m = e
    · subst hme
      rw [rangeStream_self isText (f :: fs) hne m he]; simp
    have hm0 : m ≠ f.length := by
      have := hm 1 (by simp)
      rw [fileOffset_cons_succ, fileOffset_zero] at this
      omega
    have hm' : f.length ≤ m → ∀ j, j ≤ fs.length → m - f.length ≠ fileOffset fs j := by
      intro hle j hj
      have := hm (j + 1) (by simpa using hj)
      rw [fileOffset_cons_succ] at this
      omega
    rw [rangeStream_cons isText f fs hne b e (by omega) he,
      rangeStream_cons isText f fs hne b m h1 (by omega),
      rangeStream_cons isText f fs hne m e h2 he]
    rw [totalSize_cons] at he
    have hslice : ∀ k, List.take (k - b) (List.drop b f) =
        List.take (m - b) (List.drop b f) ++ List.take (k - m) (List.drop m f) ∨ k < m := by
      intro k
      by_cases hk : k < m
      · exact Or.inr hk
      · left
        have e1 : k - b = (m - b) + (k - m) := by omega
        rw [e1, List.take_add, List.drop_drop]
        have e2 : b + (m - b) = m := by omega
        rw [e2]
    by_cases hA : e ≤ f.length
    · rw [if_pos hA, if_pos (by omega : m ≤ f.length), if_pos hA]
      rcases hslice e with h | h
      · exact h
      · omega
    · rw [if_neg hA, if_neg hA]
      by_cases hB : f.length ≤ b
      · rw [if_pos hB, if_neg (by omega : ¬ m ≤ f.length), if_pos hB, if_pos (by omega : f.length ≤ m)]
        exact ih hne' (b - f.length) (m - f.length) (e - f.length) (by omega) (by omega) (by omega)
          (hm' (by omega))
      · rw [if_neg hB]
        by_cases hC : m < f.length
        · rw [if_pos (by omega : m ≤ f.length), if_neg (by omega : ¬ f.length ≤ m)]
          have : List.drop b f = List.take (m - b) (List.drop b f) ++ List.drop m f := by
            have := List.take_append_drop (m - b) (List.drop b f)
            rw [List.drop_drop] at this
            have e2 : b + (m - b) = m := by omega
            rw [e2] at this
            exact this.symm
          conv => lhs; rw [this]
          simp only [List.append_assoc]
        · rw [if_neg (by omega : ¬ m ≤ f.length), if_neg hB, if_pos (by omega : f.length ≤ m)]
          rw [ih hne' 0 (m - f.length) (e - f.length) (by omega) (by omega) (by omega) (hm' (by omega))]
          simp only [List.append_assoc]

end DmlcModel.Split
