/-
Partition-boundary layer of the Split model for the RECORDIO format on files written by the RecordIO
writer (property C04).  The generic lemmas of SnapLemmas need `SeekOk F` (a statement about ALL byte
strings), which is false for `Fmt.recordio` on garbage; here everything is re-derived relative to the
files `recFiles rss = rss.map writeAll` from `recSeek_spec` (RecLemmas): `snap` on a 4-aligned offset is the
least global record start `≥` it (`snap_rec_spec`), the boundaries `bndR` are monotone global heads from `0`
to `totalSize`, `resetPartition` installs them (`resetPartition_rec`), the byte stream between two heads is the
image of the records starting in it (`rangeStream_rec`), and the records of the `n` parts concatenate to all
records (`records_parts_telescope`).  Core Lean only.
Auxiliary lemmas live in the namespace `DmlcModel.Split.RecSnapAux`.
-/
import DmlcModel.Split.SnapLemmas
import DmlcModel.Split.StreamLemmas
import DmlcModel.Split.ReadLemmas
import DmlcModel.Split.RecLemmas
import DmlcModel.Split.SnapText

namespace DmlcModel.Split
open DmlcModel DmlcModel.Gen.Split DmlcModel.RecordIO DmlcModel.Gen.RecordIO
open SnapAux

set_option linter.unusedVariables false

/-- the files: one RecordIO image per record list -/
def recFiles (rss : List (List Bytes)) : List Bytes := rss.map writeAll

/-- global offsets (in the concatenation of all files) at which a record image starts, plus the total size -/
def GHead (rss : List (List Bytes)) (x : Nat) : Prop :=
  ∃ j, j ≤ rss.flatten.length ∧ x = (writeAll (rss.flatten.take j)).length

/-- the hypothesis on the record lists used throughout: no empty file, every record `< 2^29` bytes -/
abbrev RssOk (rss : List (List Bytes)) : Prop := ∀ rs ∈ rss, rs ≠ [] ∧ Short rs

/-! ### files, offsets, heads -/

theorem flatten_recFiles (rss : List (List Bytes)) : (recFiles rss).flatten = writeAll rss.flatten := by
  induction rss with
  | nil => rfl
  | cons rs rss ih =>
    have e : recFiles (rs :: rss) = writeAll rs :: recFiles rss := rfl
    rw [e, List.flatten_cons, List.flatten_cons, writeAll_append, ih]

theorem totalSize_recFiles (rss : List (List Bytes)) :
    totalSize (recFiles rss) = (writeAll rss.flatten).length := by
  rw [totalSize_eq_flatten, flatten_recFiles]

theorem ghead_iff_isHead (rss : List (List Bytes)) (x : Nat) : GHead rss x ↔ IsHead rss.flatten x :=
  (isHead_iff rss.flatten x).symm

namespace RecSnapAux

theorem short_flatten (rss : List (List Bytes)) (hrss : RssOk rss) : Short rss.flatten := by
  intro r hr
  obtain ⟨rs, hrs, hr'⟩ := List.mem_flatten.mp hr
  exact (hrss rs hrs).2 r hr'

theorem short_append {a b : List Bytes} (ha : Short a) (hb : Short b) : Short (a ++ b) := by
  intro r hr
  rcases List.mem_append.mp hr with h | h
  · exact ha r h
  · exact hb r h

theorem isHead_append (a b : List Bytes) (x : Nat) :
    IsHead (a ++ b) x ↔ IsHead a x ∨ ∃ y, IsHead b y ∧ x = (writeAll a).length + y := by
  induction a generalizing x with
  | nil =>
    simp only [List.nil_append, writeAll, List.length_nil, Nat.zero_add, isHead_nil]
    constructor
    · intro h; exact Or.inr ⟨x, h, rfl⟩
    · rintro (rfl | ⟨y, hy, rfl⟩)
      · exact isHead_zero b
      · exact hy
  | cons r a ih =>
    rw [List.cons_append, isHead_cons, isHead_cons]
    have hl : (writeAll (r :: a)).length = (writeRecord r).1.length + (writeAll a).length := by
      simp [writeAll]
    constructor
    · rintro (rfl | ⟨y, hy, rfl⟩)
      · exact Or.inl (Or.inl rfl)
      · rcases (ih y).mp hy with h | ⟨z, hz, rfl⟩
        · exact Or.inl (Or.inr ⟨y, h, rfl⟩)
        · exact Or.inr ⟨z, hz, by omega⟩
    · rintro ((rfl | ⟨y, hy, rfl⟩) | ⟨z, hz, rfl⟩)
      · exact Or.inl rfl
      · exact Or.inr ⟨y, (ih y).mpr (Or.inl hy), rfl⟩
      · exact Or.inr ⟨(writeAll a).length + z, (ih _).mpr (Or.inr ⟨z, hz, rfl⟩), by omega⟩

theorem fileOffset_eq_total_take (files : List Bytes) (i : Nat) :
    fileOffset files i = totalSize (files.take i) := by
  unfold totalSize fileOffset
  rw [List.take_of_length_le (Nat.le_refl _)]

theorem fileOffset_recFiles (rss : List (List Bytes)) (i : Nat) :
    fileOffset (recFiles rss) i = (writeAll (rss.take i).flatten).length := by
  rw [fileOffset_eq_total_take]
  have e : (recFiles rss).take i = recFiles (rss.take i) := by
    unfold recFiles; rw [List.map_take]
  rw [e, totalSize_recFiles]

/-- the decomposition of all records around file `i` -/
theorem flatten_split (rss : List (List Bytes)) (i : Nat) (rs : List Bytes) (rest : List (List Bytes))
    (h : rss.drop i = rs :: rest) : rss.flatten = (rss.take i).flatten ++ (rs ++ rest.flatten) := by
  conv => lhs; rw [← List.take_append_drop i rss, h]
  rw [List.flatten_append, List.flatten_cons]

theorem mem_of_drop {α} (l : List α) (i : Nat) (a : α) (r : List α) (h : l.drop i = a :: r) : a ∈ l := by
  have : a ∈ l.drop i := by rw [h]; simp
  exact List.mem_of_mem_drop this

theorem recFiles_drop (rss : List (List Bytes)) (i : Nat) (f : Bytes) (later : List Bytes)
    (h : (recFiles rss).drop i = f :: later) :
    ∃ rs rest, rss.drop i = rs :: rest ∧ f = writeAll rs := by
  unfold recFiles at h
  rw [← List.map_drop] at h
  cases hd : rss.drop i with
  | nil => rw [hd] at h; simp at h
  | cons rs rest =>
    rw [hd] at h
    simp only [List.map_cons, List.cons.injEq] at h
    exact ⟨rs, rest, rfl, h.1.symm⟩

theorem recFiles_ne (rss : List (List Bytes)) (hrss : RssOk rss) : ∀ f ∈ recFiles rss, f ≠ [] := by
  intro f hf
  unfold recFiles at hf
  obtain ⟨rs, hrs, rfl⟩ := List.mem_map.mp hf
  obtain ⟨hne, hsh⟩ := hrss rs hrs
  cases rs with
  | nil => exact absurd rfl hne
  | cons r rs =>
    have := (writeRecord_length r hsh.head).1
    intro e
    have h2 : ((writeRecord r).1 ++ writeAll rs).length = 0 := congrArg List.length e
    rw [List.length_append] at h2
    omega

theorem total_mod4 (rss : List (List Bytes)) (hrss : RssOk rss) : totalSize (recFiles rss) % 4 = 0 := by
  rw [totalSize_recFiles]
  exact writeAll_length_mod4 _ (short_flatten rss hrss)

theorem fileOffset_mod4 (rss : List (List Bytes)) (hrss : RssOk rss) (i : Nat) :
    fileOffset (recFiles rss) i % 4 = 0 := by
  rw [fileOffset_recFiles]
  refine writeAll_length_mod4 _ (short_flatten _ ?_)
  intro rs hrs
  exact hrss rs (List.mem_of_mem_take hrs)

/-- every file start (and the total size) is a global head -/
theorem ghead_fileOffset (rss : List (List Bytes)) (i : Nat) : GHead rss (fileOffset (recFiles rss) i) := by
  rw [ghead_iff_isHead, fileOffset_recFiles]
  conv => lhs; rw [← List.take_append_drop i rss]
  rw [List.flatten_append, isHead_append]
  exact Or.inl (isHead_total _)

/-- a global head at or after the start of file `i` is a local head of it, or lies at / beyond its end -/
theorem local_of_ghead (rss : List (List Bytes)) (i : Nat) (rs : List Bytes) (rest : List (List Bytes))
    (h : rss.drop i = rs :: rest) (x : Nat) (hx : GHead rss x) (hle : fileOffset (recFiles rss) i ≤ x) :
    IsHead rs (x - fileOffset (recFiles rss) i) ∨
      fileOffset (recFiles rss) i + (writeAll rs).length ≤ x := by
  rw [ghead_iff_isHead, flatten_split rss i rs rest h, isHead_append] at hx
  rw [fileOffset_recFiles] at hle ⊢
  rcases hx with hx | ⟨y, hy, rfl⟩
  · have := isHead_le _ _ hx
    have e : x - (writeAll (rss.take i).flatten).length = 0 := by omega
    rw [e]
    exact Or.inl (isHead_zero _)
  · rw [isHead_append] at hy
    rcases hy with hy | ⟨z, hz, rfl⟩
    · left
      have e : (writeAll (rss.take i).flatten).length + y - (writeAll (rss.take i).flatten).length = y := by
        omega
      rw [e]; exact hy
    · right; omega

end RecSnapAux
open RecSnapAux

/-- a local head of file `i` is a global head (file starts / ends included) -/
theorem ghead_of_local (rss : List (List Bytes)) (hrss : RssOk rss) (i : Nat) (rs : List Bytes)
    (rest : List (List Bytes)) (h : rss.drop i = rs :: rest) (x : Nat) (hx : IsHead rs x) :
    GHead rss (fileOffset (recFiles rss) i + x) := by
  rw [ghead_iff_isHead, flatten_split rss i rs rest h, isHead_append, fileOffset_recFiles]
  refine Or.inr ⟨x, ?_, rfl⟩
  rw [isHead_append]
  exact Or.inl hx

/-! ### `snap` on 4-aligned offsets -/

/-- `snap` = the least global head `≥ x`, never an error, for 4-aligned `x` -/
theorem snap_rec_spec (rss : List (List Bytes)) (hrss : RssOk rss) (ht : totalSize (recFiles rss) < 2^62)
    (x : Nat) (hx4 : x % 4 = 0) (hx : x ≤ totalSize (recFiles rss)) :
    ∃ y, snap Fmt.recordio (recFiles rss) x = .ok y ∧ GHead rss y ∧ x ≤ y ∧ y ≤ totalSize (recFiles rss) ∧
      (∀ h, GHead rss h → x ≤ h → y ≤ h) := by
  by_cases hb : x = fileOffset (recFiles rss) (filePtrOf (recFiles rss) x)
  · refine ⟨x, ?_, ?_, Nat.le_refl _, hx, fun h _ hle => hle⟩
    · unfold snap
      simp only []
      rw [if_pos hb]
    · rw [hb]; exact ghead_fileOffset rss _
  · have hxt := interior_lt_total (recFiles rss) x hx hb
    have hle := fileOffset_filePtrOf_le (recFiles rss) x
    obtain ⟨f, hd, ho, hlt⟩ := drop_filePtrOf (recFiles rss) x hxt
    obtain ⟨rs, rest, hdr, rfl⟩ := recFiles_drop rss _ f _ hd
    have hrs := hrss rs (mem_of_drop _ _ _ _ hdr)
    have hfo4 := fileOffset_mod4 rss hrss (filePtrOf (recFiles rss) x)
    have hnext := fileOffset_le_total (recFiles rss) (filePtrOf (recFiles rss) x + 1)
    generalize hfo : fileOffset (recFiles rss) (filePtrOf (recFiles rss) x) = fo at *
    obtain ⟨n, c, hs, hh, hmin, hc⟩ := recSeek_spec rs hrs.2 (x - fo) (by omega) (by omega) (by omega)
    have hs' : Fmt.recordio.seekRecordBegin ((writeAll rs).drop (x - fo)) = .ok (n, c) := hs
    have hl := isHead_le _ _ hh
    refine ⟨x + n, ?_, ?_, by omega, by omega, ?_⟩
    · unfold snap
      simp only []
      rw [hfo, if_neg hb, hd]
      simp only []
      rw [hs']
    · have := ghead_of_local rss hrss _ rs rest hdr _ hh
      rw [hfo] at this
      have e : fo + (x - fo + n) = x + n := by omega
      rw [e] at this; exact this
    · intro h hh' hxh
      have := local_of_ghead rss _ rs rest hdr h hh' (by omega)
      rw [hfo] at this
      rcases this with h1 | h1
      · have := hmin _ h1 (by omega); omega
      · omega

/-! ### the boundaries `bnd` -/

theorem recordio_align : Fmt.recordio.align = 4 := rfl

theorem rawBnd_rec_mod4 (rss : List (List Bytes)) (hrss : RssOk rss) (ht : totalSize (recFiles rss) < 2^62)
    (n j : Nat) (hn0 : 0 < n) (hn : n < 2^32) : rawBnd Fmt.recordio (recFiles rss) n j % 4 = 0 := by
  have ht4 := total_mod4 rss hrss
  have hst := rpStepRaw_le (totalSize (recFiles rss)) n ht hn0 hn
  unfold rawBnd
  rw [recordio_align, rpStepAlign_spec _ 4 (by omega) (Or.inr recordio_align)]
  generalize (rpStepRaw (totalSize (recFiles rss)) n + 4 - 1) / 4 = q
  have e : q * 4 * j = 4 * (q * j) := by rw [Nat.mul_comm q 4, Nat.mul_assoc]
  rw [e]
  generalize q * j = m
  simp only [Nat.min_def]
  split <;> omega

/-- boundary `j` of the `n`-way split of the files (`0` stands for "error", which does not occur: `bnd_rec_eq`).
Stated through `okVal` (SnapText) rather than an inline `match`: tactics reducing a `match` on `bnd …` unfold
the wrap-around arithmetic of `rawBnd` and do not terminate in practice; `bndR_match` gives the `match` form. -/
def bndR (rss : List (List Bytes)) (n j : Nat) : Nat := okVal (bnd Fmt.recordio (recFiles rss) n j)

/-- everything about one boundary: it exists, and is the least global head `≥` the raw boundary -/
theorem bndR_spec (rss : List (List Bytes)) (hrss : RssOk rss) (ht : totalSize (recFiles rss) < 2^62)
    (n j : Nat) (hn0 : 0 < n) (hn : n < 2^32) :
    bnd Fmt.recordio (recFiles rss) n j = .ok (bndR rss n j) ∧ GHead rss (bndR rss n j) ∧
      rawBnd Fmt.recordio (recFiles rss) n j ≤ bndR rss n j ∧ bndR rss n j ≤ totalSize (recFiles rss) ∧
      (∀ h, GHead rss h → rawBnd Fmt.recordio (recFiles rss) n j ≤ h → bndR rss n j ≤ h) := by
  obtain ⟨y, hy, h1, h2, h3, h4⟩ := snap_rec_spec rss hrss ht (rawBnd Fmt.recordio (recFiles rss) n j)
    (rawBnd_rec_mod4 rss hrss ht n j hn0 hn) (rawBnd_le _ _ _ _)
  have hb : bnd Fmt.recordio (recFiles rss) n j = .ok y := hy
  have e : bndR rss n j = y := by unfold bndR; rw [hb, okVal_ok]
  rw [e]
  exact ⟨hb, h1, h2, h3, h4⟩

theorem bnd_rec_eq (rss : List (List Bytes)) (hrss : RssOk rss) (ht : totalSize (recFiles rss) < 2^62)
    (n j : Nat) (hn0 : 0 < n) (hn : n < 2^32) :
    bnd Fmt.recordio (recFiles rss) n j = .ok (bndR rss n j) :=
  (bndR_spec rss hrss ht n j hn0 hn).1

theorem bndR_zero (rss : List (List Bytes)) (n : Nat) : bndR rss n 0 = 0 := by
  unfold bndR bnd
  rw [rawBnd_zero, snap_zero, okVal_ok]

theorem bndR_last (rss : List (List Bytes)) (hrss : RssOk rss) (ht : totalSize (recFiles rss) < 2^62)
    (n : Nat) (hn0 : 0 < n) (hn : n < 2^32) : bndR rss n n = totalSize (recFiles rss) := by
  unfold bndR bnd
  rw [rawBnd_last Fmt.recordio (recFiles rss) n (Or.inr recordio_align) ht hn0 hn,
    snap_total Fmt.recordio (recFiles rss) (recFiles_ne rss hrss), okVal_ok]

theorem bndR_mono (rss : List (List Bytes)) (hrss : RssOk rss) (ht : totalSize (recFiles rss) < 2^62)
    (n i j : Nat) (hn0 : 0 < n) (hn : n < 2^32) (hij : i ≤ j) : bndR rss n i ≤ bndR rss n j := by
  obtain ⟨_, _, _, _, hmin⟩ := bndR_spec rss hrss ht n i hn0 hn
  obtain ⟨_, hg, hr, _, _⟩ := bndR_spec rss hrss ht n j hn0 hn
  have := rawBnd_mono Fmt.recordio (recFiles rss) n i j hij
  exact hmin _ hg (by omega)

theorem bndR_le (rss : List (List Bytes)) (hrss : RssOk rss) (ht : totalSize (recFiles rss) < 2^62)
    (n j : Nat) (hn0 : 0 < n) (hn : n < 2^32) : bndR rss n j ≤ totalSize (recFiles rss) :=
  (bndR_spec rss hrss ht n j hn0 hn).2.2.2.1

theorem bndR_ghead (rss : List (List Bytes)) (hrss : RssOk rss) (ht : totalSize (recFiles rss) < 2^62)
    (n j : Nat) (hn0 : 0 < n) (hn : n < 2^32) : GHead rss (bndR rss n j) :=
  (bndR_spec rss hrss ht n j hn0 hn).2.1

theorem rawBnd_le_bndR (rss : List (List Bytes)) (hrss : RssOk rss) (ht : totalSize (recFiles rss) < 2^62)
    (n j : Nat) (hn0 : 0 < n) (hn : n < 2^32) : rawBnd Fmt.recordio (recFiles rss) n j ≤ bndR rss n j :=
  (bndR_spec rss hrss ht n j hn0 hn).2.2.1

/-! ### `ResetPartition` on these files -/

theorem resetPartition_rec (rss : List (List Bytes)) (hrss : RssOk rss) (hne : rss ≠ [])
    (ht : totalSize (recFiles rss) < 2^62) (s : Base) (hs : s.files = recFiles rss) (hc : ClearsOk s)
    (k n : Nat) (hk : k < n) (hn : n < 2^32) :
    ∃ s', resetPartition Fmt.recordio s k n = .ok s' ∧ Clean s' ∧ RInv s' ∧ s'.files = s.files ∧
      s'.bufWords = s.bufWords ∧ s'.chunk.dataWords = s.chunk.dataWords ∧
      ((s'.offBegin = bndR rss n k ∧ s'.offEnd = bndR rss n (k + 1)) ∨
       (s'.offEnd ≤ s'.offBegin ∧ bndR rss n k = bndR rss n (k + 1))) := by
  have hn0 : 0 < n := by omega
  have ht' : totalSize s.files < 2^62 := by rw [hs]; exact ht
  have hfne : ∀ f ∈ s.files, f ≠ [] := by rw [hs]; exact recFiles_ne rss hrss
  rw [resetPartition_eq_core, if_neg (by omega),
    rpBegin_eq_rawBnd Fmt.recordio s.files k n (Or.inr recordio_align) ht' hk hn,
    rpEnd_eq_rawBnd Fmt.recordio s.files k n (Or.inr recordio_align) ht' hk hn]
  have hmono := rawBnd_mono Fmt.recordio s.files n k (k + 1) (by omega)
  have hoeT := rawBnd_le Fmt.recordio s.files n (k + 1)
  have hbk : snap Fmt.recordio s.files (rawBnd Fmt.recordio s.files n k) = .ok (bndR rss n k) := by
    rw [hs]; exact bnd_rec_eq rss hrss ht n k hn0 hn
  have hbk1 : snap Fmt.recordio s.files (rawBnd Fmt.recordio s.files n (k + 1)) = .ok (bndR rss n (k + 1)) := by
    rw [hs]; exact bnd_rec_eq rss hrss ht n (k + 1) hn0 hn
  have hle1 : bndR rss n (k + 1) ≤ totalSize s.files := by
    rw [hs]; exact bndR_le rss hrss ht n (k + 1) hn0 hn
  generalize rawBnd Fmt.recordio s.files n k = ob at *
  generalize rawBnd Fmt.recordio s.files n (k + 1) = oe at *
  by_cases heq : ob = oe
  · subst heq
    obtain ⟨s', hs', r1, r2, r3, r4, r5, r6, r7⟩ := rpCore_empty_spec Fmt.recordio s ob hc
    have hee : s'.offEnd ≤ s'.offBegin := by rw [r4, r5]; exact Nat.le_refl _
    refine ⟨s', hs', ⟨r1, r2, Or.inl hee⟩,
      ⟨by rw [r3]; exact hfne, by rw [r5, r3]; exact hoeT, Or.inl hee⟩, r3, r6, r7, Or.inr ⟨hee, ?_⟩⟩
    rw [hbk] at hbk1
    injection hbk1
  · have hlt : ob < oe := by omega
    rcases rpCore_cases Fmt.recordio s ob oe ht' hlt hoeT with ⟨e', h0, _⟩ | ⟨oe', e', _, h0, _⟩ |
        ⟨oe', ob', pos, hse, hsb, h1⟩
    · rw [hbk1] at h0; cases h0
    · rw [hbk] at h0; cases h0
    · rw [hbk1] at hse; rw [hbk] at hsb
      injection hse with hse; injection hsb with hsb
      subst hse; subst hsb
      rw [h1]
      have key : ∀ t : Base, ClearsOk t → t.fpos = some pos → t.files = s.files → t.offBegin = bndR rss n k →
          t.offEnd = bndR rss n (k + 1) → t.bufWords = s.bufWords → t.chunk.dataWords = s.chunk.dataWords →
          ∃ s', beforeFirst t = .ok s' ∧ Clean s' ∧ RInv s' ∧ s'.files = s.files ∧
            s'.bufWords = s.bufWords ∧ s'.chunk.dataWords = s.chunk.dataWords ∧
            ((s'.offBegin = bndR rss n k ∧ s'.offEnd = bndR rss n (k + 1)) ∨
             (s'.offEnd ≤ s'.offBegin ∧ bndR rss n k = bndR rss n (k + 1))) := by
        intro t hct hp hf hb he hw hd
        have hoe : t.offEnd ≤ totalSize t.files := by rw [he, hf]; exact hle1
        obtain ⟨s', hs'⟩ := beforeFirst_ok t pos hp hoe
        obtain ⟨c1, c2, c3, c4, c5, c6, c7⟩ := beforeFirst_spec t s' (by rw [hf]; exact hfne) hct hoe
          (by rw [hf]; exact ht') hs'
        exact ⟨s', hs', c1, c2, by rw [c3, hf], by rw [c6, hw], by rw [c7, hd],
          Or.inl ⟨by rw [c4, hb], by rw [c5, he]⟩⟩
      exact key _ (hc.elim Or.inl Or.inr) rfl rfl rfl rfl rfl rfl

/-! ### the records of a part -/

/-- the records whose image starts in `[b, e)`; arguments: records, running offset, `b`, `e` -/
def recsIn : List Bytes → Nat → Nat → Nat → List Bytes
  | [], _, _, _ => []
  | r :: rs, off, b, e =>
    (if b ≤ off ∧ off < e then [r] else []) ++ recsIn rs (off + (writeRecord r).1.length) b e

namespace RecSnapAux

theorem recsIn_cons (r : Bytes) (rs : List Bytes) (off b e : Nat) :
    recsIn (r :: rs) off b e =
      (if b ≤ off ∧ off < e then [r] else []) ++ recsIn rs (off + (writeRecord r).1.length) b e := rfl

/-- nothing starts in `[b, e)` once the running offset has reached `e` -/
theorem recsIn_nil_of_le (R : List Bytes) : ∀ (off b e : Nat), e ≤ off → recsIn R off b e = [] := by
  induction R with
  | nil => intros; rfl
  | cons r rs ih =>
    intro off b e h
    rw [recsIn_cons, if_neg (by omega), ih _ _ _ (by omega)]
    rfl

theorem recsIn_self (R : List Bytes) : ∀ (off b : Nat), recsIn R off b b = [] := by
  induction R with
  | nil => intros; rfl
  | cons r rs ih =>
    intro off b
    rw [recsIn_cons, if_neg (by omega), ih]
    rfl

/-- the lower end does not matter once the running offset has passed it -/
theorem recsIn_lower (R : List Bytes) : ∀ (off b b' e : Nat), b ≤ off → b' ≤ off →
    recsIn R off b e = recsIn R off b' e := by
  induction R with
  | nil => intros; rfl
  | cons r rs ih =>
    intro off b b' e h h'
    rw [recsIn_cons, recsIn_cons, ih _ b b' e (by omega) (by omega)]
    by_cases hc : off < e
    · rw [if_pos ⟨h, hc⟩, if_pos ⟨h', hc⟩]
    · rw [if_neg (by omega), if_neg (by omega)]

/-- shifting the running offset and the window together -/
theorem recsIn_shift (R : List Bytes) : ∀ (off b e d : Nat),
    recsIn R (off + d) (b + d) (e + d) = recsIn R off b e := by
  induction R with
  | nil => intros; rfl
  | cons r rs ih =>
    intro off b e d
    rw [recsIn_cons, recsIn_cons]
    have e1 : off + d + (writeRecord r).1.length = off + (writeRecord r).1.length + d := by omega
    rw [e1, ih]
    by_cases hc : b ≤ off ∧ off < e
    · rw [if_pos hc, if_pos (by omega)]
    · rw [if_neg hc, if_neg (by omega)]

end RecSnapAux
open RecSnapAux

/-- cutting a window at any point in between -/
theorem recsIn_split (R : List Bytes) : ∀ (off a m c : Nat), a ≤ m → m ≤ c →
    recsIn R off a m ++ recsIn R off m c = recsIn R off a c := by
  induction R with
  | nil => intros; rfl
  | cons r rs ih =>
    intro off a m c h1 h2
    rw [recsIn_cons, recsIn_cons, recsIn_cons]
    by_cases hm : off < m
    · rw [if_neg (by omega : ¬ (m ≤ off ∧ off < c)), List.nil_append, List.append_assoc, ih _ a m c h1 h2]
      by_cases ha : a ≤ off
      · rw [if_pos ⟨ha, hm⟩, if_pos ⟨ha, by omega⟩]
      · rw [if_neg (by omega), if_neg (by omega)]
    · rw [if_neg (by omega : ¬ (a ≤ off ∧ off < m)), List.nil_append,
        recsIn_nil_of_le rs _ a m (by omega), List.nil_append,
        recsIn_lower rs _ m a c (by omega) (by omega)]
      by_cases hc : off < c
      · rw [if_pos ⟨by omega, hc⟩, if_pos ⟨by omega, hc⟩]
      · rw [if_neg (by omega), if_neg (by omega)]

/-- the whole range holds every record -/
theorem recsIn_all (R : List Bytes) (hR : Short R) : ∀ off, recsIn R off off (off + (writeAll R).length) = R := by
  induction R with
  | nil => intro off; rfl
  | cons r rs ih =>
    intro off
    have hw := (writeRecord_length r hR.head).1
    have hl : (writeAll (r :: rs)).length = (writeRecord r).1.length + (writeAll rs).length := by
      simp [writeAll]
    rw [recsIn_cons, hl, if_pos (by omega),
      recsIn_lower rs _ off (off + (writeRecord r).1.length) _ (by omega) (Nat.le_refl _)]
    have e : off + ((writeRecord r).1.length + (writeAll rs).length)
        = off + (writeRecord r).1.length + (writeAll rs).length := by omega
    rw [e, ih hR.tail]
    rfl

/-- the slice of the image between two record starts is the image of the records that start in it -/
theorem writeAll_recsIn (R : List Bytes) (hR : Short R) : ∀ (off b e : Nat), IsHead R b → IsHead R e → b ≤ e →
    writeAll (recsIn R off (off + b) (off + e)) = ((writeAll R).drop b).take (e - b) := by
  induction R with
  | nil =>
    intro off b e hb he _
    rw [isHead_nil] at hb he
    subst hb; subst he
    rfl
  | cons r rs ih =>
    intro off b e hb he hbe
    have hw := (writeRecord_length r hR.head).1
    rw [isHead_cons] at hb he
    rw [recsIn_cons]
    show writeAll _ = (((writeRecord r).1 ++ writeAll rs).drop b).take (e - b)
    rcases hb with rfl | ⟨yb, hyb, rfl⟩
    · rcases he with rfl | ⟨ye, hye, rfl⟩
      · rw [if_neg (by omega), recsIn_nil_of_le rs _ _ _ (by omega)]
        simp [writeAll]
      · rw [if_pos (by omega), recsIn_lower rs _ (off + 0) (off + (writeRecord r).1.length + 0) _ (by omega) (by omega)]
        have e1 : off + (ye + (writeRecord r).1.length) = off + (writeRecord r).1.length + ye := by omega
        rw [e1, writeAll_append, ih hR.tail _ 0 ye (isHead_zero _) hye (Nat.zero_le _)]
        simp only [List.drop_zero, Nat.sub_zero]
        rw [List.take_append]
        have e2 : ye + (writeRecord r).1.length - (writeRecord r).1.length = ye := by omega
        have t1 : (writeRecord r).1.take (ye + (writeRecord r).1.length) = (writeRecord r).1 :=
          List.take_of_length_le (by omega)
        rw [t1, e2]
        simp [writeAll]
    · rcases he with rfl | ⟨ye, hye, rfl⟩
      · omega
      · rw [if_neg (by omega)]
        have e1 : off + (yb + (writeRecord r).1.length) = off + (writeRecord r).1.length + yb := by omega
        have e2 : off + (ye + (writeRecord r).1.length) = off + (writeRecord r).1.length + ye := by omega
        rw [e1, e2, List.nil_append, ih hR.tail _ yb ye hyb hye (by omega)]
        rw [List.drop_append]
        have e3 : yb + (writeRecord r).1.length - (writeRecord r).1.length = yb := by omega
        have e4 : ye + (writeRecord r).1.length - (yb + (writeRecord r).1.length) = ye - yb := by omega
        have t1 : (writeRecord r).1.drop (yb + (writeRecord r).1.length) = [] :=
          List.drop_of_length_le (by omega)
        rw [t1, e3, e4, List.nil_append]

/-- the byte stream of a part between two global heads is the image of the records that START in it -/
theorem rangeStream_rec (rss : List (List Bytes)) (hrss : RssOk rss) (b e : Nat) (hb : GHead rss b)
    (he : GHead rss e) (hbe : b ≤ e) :
    rangeStream false (recFiles rss) b e = writeAll (recsIn rss.flatten 0 b e) := by
  rw [ghead_iff_isHead] at hb he
  have hle := isHead_le _ _ he
  rw [rangeStream_binary (recFiles rss) (recFiles_ne rss hrss) b e hbe
    (by rw [totalSize_recFiles]; exact hle), flatten_recFiles]
  have := writeAll_recsIn rss.flatten (short_flatten rss hrss) 0 b e hb he hbe
  rw [Nat.zero_add, Nat.zero_add] at this
  exact this.symm

/-- telescoping over a monotone list of cut points `c0 ≤ c₁ ≤ … ≤ c_n` (same form as
`lines_rangeStream_telescope`) -/
theorem recsIn_telescope (R : List Bytes) (off : Nat) (cs : List Nat) (c0 : Nat)
    (hchain : List.Pairwise (· ≤ ·) (c0 :: cs)) :
    ((c0 :: cs).zip cs).flatMap (fun p => recsIn R off p.1 p.2)
      = recsIn R off c0 ((c0 :: cs).getLast (by simp)) := by
  induction cs generalizing c0 with
  | nil =>
    simp only [List.zip_nil_right, List.flatMap_nil, List.getLast_singleton]
    rw [recsIn_self]
  | cons c1 cs ih =>
    rw [List.pairwise_cons] at hchain
    have hih := ih c1 hchain.2
    simp only [List.zip_cons_cons, List.flatMap_cons]
    rw [hih, List.getLast_cons (a := c0) (l := c1 :: cs) (by simp)]
    have hmem : (c1 :: cs).getLast (by simp) ∈ c1 :: cs := List.getLast_mem _
    have hle : c1 ≤ (c1 :: cs).getLast (by simp) := by
      rcases List.mem_cons.mp hmem with h | h
      · omega
      · exact (List.pairwise_cons.mp hchain.2).1 _ h
    exact recsIn_split R off c0 c1 _ (hchain.1 c1 (by simp)) hle

/-- the same for boundaries given as a monotone function -/
theorem recsIn_range_telescope (R : List Bytes) (off : Nat) (c : Nat → Nat)
    (hmono : ∀ i j, i ≤ j → c i ≤ c j) (n : Nat) :
    (List.range n).flatMap (fun k => recsIn R off (c k) (c (k + 1))) = recsIn R off (c 0) (c n) := by
  induction n with
  | zero => simp [recsIn_self]
  | succ n ih =>
    rw [List.range_succ, List.flatMap_append, ih]
    simp only [List.flatMap_cons, List.flatMap_nil, List.append_nil]
    exact recsIn_split R off (c 0) (c n) (c (n + 1)) (hmono 0 n (Nat.zero_le _)) (hmono n (n + 1) (by omega))

/-- the records of the `n` parts, concatenated in part order, are all records in order -/
theorem records_parts_telescope (rss : List (List Bytes)) (hrss : RssOk rss) (hne : rss ≠ [])
    (ht : totalSize (recFiles rss) < 2^62) (n : Nat) (hn0 : 0 < n) (hn : n < 2^32) :
    (List.range n).flatMap (fun k => recsIn rss.flatten 0 (bndR rss n k) (bndR rss n (k + 1))) = rss.flatten := by
  rw [recsIn_range_telescope rss.flatten 0 (bndR rss n) (fun i j h => bndR_mono rss hrss ht n i j hn0 hn h) n,
    bndR_zero, bndR_last rss hrss ht n hn0 hn, totalSize_recFiles]
  have := recsIn_all rss.flatten (short_flatten rss hrss) 0
  rw [Nat.zero_add] at this
  exact this

/-- the byte stream of part `k` is the image of the records that start in it -/
theorem rangeStream_part_rec (rss : List (List Bytes)) (hrss : RssOk rss) (ht : totalSize (recFiles rss) < 2^62)
    (n k : Nat) (hn0 : 0 < n) (hn : n < 2^32) :
    rangeStream false (recFiles rss) (bndR rss n k) (bndR rss n (k + 1))
      = writeAll (recsIn rss.flatten 0 (bndR rss n k) (bndR rss n (k + 1))) :=
  rangeStream_rec rss hrss _ _ (bndR_ghead rss hrss ht n k hn0 hn) (bndR_ghead rss hrss ht n (k + 1) hn0 hn)
    (bndR_mono rss hrss ht n k (k + 1) hn0 hn (by omega))

/-- `bndR` in the inline-`match` form -/
theorem bndR_match (rss : List (List Bytes)) (n j : Nat) :
    bndR rss n j = (match bnd Fmt.recordio (recFiles rss) n j with | .ok y => y | .error _ => 0) := by
  unfold bndR
  generalize bnd Fmt.recordio (recFiles rss) n j = v
  cases v <;> rfl

end DmlcModel.Split
