/-
C05 lemma layer: `BeforeFirst` / `ResetPartition` establish `Clean` from any state and depend only on
the file list and `(k, n)` (part A); the state machine `step` respects the state equivalence
`Equiv` / `StEquiv` (part B).  Auxiliary lemmas live in `DmlcModel.Split.CleanAux`.
Core Lean only.
-/
import DmlcModel.Split.Spec

namespace DmlcModel.Split
open DmlcModel DmlcModel.Gen.Split

private theorem rpEmptyClears_true : rpEmptyClears = true := rfl
private theorem bfEmptyClears_true : bfEmptyClears = true := rfl

/-! ## A. `beforeFirst` / `resetPartition` establish `Clean` -/

namespace CleanAux

theorem fileOffset_cons_succ' (f : Bytes) (fs : List Bytes) (i : Nat) :
    fileOffset (f :: fs) (i + 1) = f.length + fileOffset fs i := by
  simp [fileOffset]

theorem ub_offsets_head (fs : List Bytes) (acc x : Nat) (h : x < acc) :
    upperBound (offsetsFrom acc fs) x = 0 := by
  cases fs <;> simp [offsetsFrom, upperBound, h]

theorem ub_offsets (fs : List Bytes) : ∀ (acc x : Nat), acc ≤ x →
    1 ≤ upperBound (offsetsFrom acc fs) x ∧
      acc + fileOffset fs (upperBound (offsetsFrom acc fs) x - 1) ≤ x := by
  induction fs with
  | nil =>
    intro acc x h
    have : ¬ x < acc := by omega
    simp [offsetsFrom, upperBound, this, fileOffset]
    exact h
  | cons f fs ih =>
    intro acc x h
    have hn : ¬ x < acc := by omega
    simp only [offsetsFrom, upperBound, if_neg hn]
    by_cases h2 : acc + f.length ≤ x
    · obtain ⟨h1, h3⟩ := ih (acc + f.length) x h2
      refine ⟨by omega, ?_⟩
      have e : upperBound (offsetsFrom (acc + f.length) fs) x + 1 - 1
          = (upperBound (offsetsFrom (acc + f.length) fs) x - 1) + 1 := by omega
      rw [e, fileOffset_cons_succ']
      omega
    · rw [ub_offsets_head fs _ x (by omega)]
      simp [fileOffset]
      exact h

/-- `file_offset_[filePtrOf x] ≤ x` -/
theorem fileOffset_filePtrOf_le' (files : List Bytes) (x : Nat) :
    fileOffset files (filePtrOf files x) ≤ x := by
  have := (ub_offsets files 0 x (Nat.zero_le _)).2
  unfold filePtrOf
  omega

theorem sub64_eq_sub {a b : Nat} (h : b ≤ a) (ha : a < 2^64) : sub64 a b = a - b := by
  unfold sub64; omega

end CleanAux
open CleanAux

theorem beforeFirst_clean (s s' : Base) (h : beforeFirst s = .ok s')
    (hlt : s.offBegin < s.offEnd → s.offBegin < 2^64) :
    Clean s' ∧ s'.files = s.files ∧ s'.offBegin = s.offBegin ∧ s'.offEnd = s.offEnd ∧
    s'.bufWords = s.bufWords ∧ s'.chunk.dataWords = s.chunk.dataWords := by
  unfold beforeFirst at h
  by_cases hb : bfEmpty s.offBegin s.offEnd = true
  · rw [if_pos hb] at h
    have hle : s.offEnd ≤ s.offBegin := by simpa [bfEmpty] using hb
    simp only [bfEmptyClears_true, if_true] at h
    injection h with h; subst h
    exact ⟨⟨rfl, rfl, Or.inl hle⟩, rfl, rfl, rfl, rfl, rfl⟩
  · rw [if_neg hb] at h
    have hlt' : s.offBegin < s.offEnd := by
      simp [bfEmpty] at hb; omega
    simp only [] at h
    cases hp : s.fpos with
    | none => rw [hp] at h; cases h
    | some p =>
      rw [hp] at h
      simp only [] at h
      split at h
      · cases h
      · injection h with h; subst h
        have e := sub64_eq_sub (fileOffset_filePtrOf_le' s.files s.offBegin) (hlt hlt')
        refine ⟨⟨rfl, rfl, Or.inr ⟨rfl, rfl, ?_⟩⟩, rfl, rfl, rfl, rfl, rfl⟩
        show some _ = some _
        rw [e]

/-! ## relations -/

/-- uniform relation on results: `ok`/`ok` related by `R`, errors equal; with `ign = true` a `fuel`
error (iteration bound of the model) on either side is a wildcard -/
def ERel (ign : Bool) {α β : Type} (R : α → β → Prop) : Except Err α → Except Err β → Prop
  | .ok a, .ok b => R a b
  | .error e1, .error e2 => e1 = e2 ∨ (ign = true ∧ (e1 = .fuel ∨ e2 = .fuel))
  | .error e, .ok _ => ign = true ∧ e = .fuel
  | .ok _, .error e => ign = true ∧ e = .fuel

/-- `Equiv`, with equal `offCurr` in the strict mode (`ign = false`): `loadFuel` is then equal on both sides -/
def EquivG (ign : Bool) (s t : Base) : Prop := Equiv s t ∧ (ign = false → s.offCurr = t.offCurr)

namespace CleanAux

theorem ERel.cases {ign : Bool} {α β : Type} {R : α → β → Prop} {x : Except Err α} {y : Except Err β}
    (h : ERel ign R x y) :
    (∃ a b, x = .ok a ∧ y = .ok b ∧ R a b) ∨ (∃ e, x = .error e ∧ y = .error e) ∨
    (ign = true ∧ x = .error .fuel) ∨ (ign = true ∧ y = .error .fuel) := by
  cases x with
  | ok a =>
    cases y with
    | ok b => exact Or.inl ⟨a, b, rfl, rfl, h⟩
    | error e => obtain ⟨h1, h2⟩ := h; subst h2; exact Or.inr (Or.inr (Or.inr ⟨h1, rfl⟩))
  | error e =>
    cases y with
    | ok b => obtain ⟨h1, h2⟩ := h; subst h2; exact Or.inr (Or.inr (Or.inl ⟨h1, rfl⟩))
    | error e2 =>
      rcases h with h | ⟨h1, h2 | h2⟩
      · subst h; exact Or.inr (Or.inl ⟨e, rfl, rfl⟩)
      · subst h2; exact Or.inr (Or.inr (Or.inl ⟨h1, rfl⟩))
      · subst h2; exact Or.inr (Or.inr (Or.inr ⟨h1, rfl⟩))

theorem ERel.fuel_left {ign : Bool} {α β : Type} {R : α → β → Prop} (hi : ign = true)
    (y : Except Err β) : ERel ign R (.error .fuel : Except Err α) y := by
  cases y with
  | ok b => exact ⟨hi, rfl⟩
  | error e => exact Or.inr ⟨hi, Or.inl rfl⟩

theorem ERel.fuel_right {ign : Bool} {α β : Type} {R : α → β → Prop} (hi : ign = true)
    (x : Except Err α) : ERel ign R x (.error .fuel : Except Err β) := by
  cases x with
  | ok b => exact ⟨hi, rfl⟩
  | error e => exact Or.inr ⟨hi, Or.inr rfl⟩

theorem ERel.err {ign : Bool} {α β : Type} {R : α → β → Prop} (e : Err) :
    ERel ign R (.error e : Except Err α) (.error e : Except Err β) := Or.inl rfl

theorem ERel.mono {ign : Bool} {α β : Type} {R Q : α → β → Prop} {x : Except Err α} {y : Except Err β}
    (h : ERel ign R x y) (hq : ∀ a b, R a b → Q a b) : ERel ign Q x y := by
  cases x <;> cases y <;> first | exact hq _ _ h | exact h

theorem ERel.weaken {ign : Bool} {α β : Type} {R : α → β → Prop} {x : Except Err α} {y : Except Err β}
    (h : ERel false R x y) : ERel ign R x y := by
  cases x <;> cases y <;> simp [ERel] at h ⊢ <;> first | exact h | exact Or.inl h

/-- the strict relation in the `match` form used in the statements -/
theorem ERel_false_iff {α β : Type} {R : α → β → Prop} {x : Except Err α} {y : Except Err β} :
    ERel false R x y ↔
      (match x, y with
       | .ok a, .ok b => R a b
       | .error e1, .error e2 => e1 = e2
       | _, _ => False) := by
  cases x <;> cases y <;> simp [ERel]

theorem chunkEquiv_refl (c : Chunk) : ChunkEquiv c c := ⟨rfl, fun _ => ⟨rfl, rfl⟩⟩
theorem chunkEquiv_symm {c d : Chunk} (h : ChunkEquiv c d) : ChunkEquiv d c :=
  ⟨h.1.symm, fun hd => by have := h.2 (by rw [h.1]; exact hd); exact ⟨this.1.symm, this.2.symm⟩⟩
theorem chunkEquiv_trans {c d e : Chunk} (h : ChunkEquiv c d) (g : ChunkEquiv d e) : ChunkEquiv c e :=
  ⟨h.1.trans g.1, fun hc => by
    have h2 := h.2 hc
    have g2 := g.2 (by rw [← h.1]; exact hc)
    exact ⟨h2.1.trans g2.1, h2.2.trans g2.2⟩⟩
theorem chunkEquiv_of_empty {c d : Chunk} (hc : c.rest = []) (hd : d.rest = []) : ChunkEquiv c d :=
  ⟨hc.trans hd.symm, fun h => absurd hc h⟩

/-- `beforeFirst` reads `files`, `offBegin`, `offEnd`, `filePtr` and whether `fs_` is open -/
theorem beforeFirst_core (ign : Bool) (s t : Base) (hf : s.files = t.files) (hb : s.offBegin = t.offBegin)
    (he : s.offEnd = t.offEnd) (hw : s.bufWords = t.bufWords)
    (hp : s.offEnd ≤ s.offBegin ∨ (s.filePtr = t.filePtr ∧ s.fpos.isSome = t.fpos.isSome))
    (hq : s.offEnd ≤ s.offBegin → (s.offCurr = t.offCurr ∧ s.filePtr = t.filePtr ∧ s.fpos = t.fpos) ∨ ign = true) :
    ERel false (fun s' t' => EquivG ign s' t' ∧
        (ign = false → s'.filePtr = t'.filePtr ∧ s'.fpos = t'.fpos)) (beforeFirst s) (beforeFirst t) := by
  unfold beforeFirst
  rw [← hf, ← hb, ← he]
  by_cases hbe : bfEmpty s.offBegin s.offEnd = true
  · have hle : s.offEnd ≤ s.offBegin := by simpa [bfEmpty] using hbe
    rw [if_pos hbe, if_pos hbe]
    simp only [bfEmptyClears_true, if_true, ERel]
    refine ⟨⟨⟨rfl, rfl, rfl, rfl, hw, ⟨rfl, fun h => absurd rfl h⟩, Or.inl hle⟩, ?_⟩, ?_⟩
    · intro hi
      rcases hq hle with h | h
      · exact h.1
      · rw [hi] at h; cases h
    · intro hi
      rcases hq hle with h | h
      · exact h.2
      · rw [hi] at h; cases h
  · have hlt : ¬ s.offEnd ≤ s.offBegin := by
      simp [bfEmpty] at hbe; omega
    rw [if_neg hbe, if_neg hbe]
    rcases hp with hp | ⟨hp1, hp2⟩
    · exact absurd hp hlt
    · simp only []
      rw [← hp1]
      cases h1 : s.fpos with
      | none =>
        rw [h1] at hp2
        cases h2 : t.fpos with
        | none => exact Or.inl rfl
        | some q => rw [h2] at hp2; cases hp2
      | some p =>
        rw [h1] at hp2
        cases h2 : t.fpos with
        | none => rw [h2] at hp2; cases hp2
        | some q =>
          simp only []
          split
          · exact Or.inl rfl
          · exact ⟨⟨⟨rfl, rfl, rfl, rfl, hw, ⟨rfl, fun h => absurd rfl h⟩, Or.inr ⟨rfl, rfl, rfl⟩⟩,
              fun _ => rfl⟩, fun _ => ⟨rfl, rfl⟩⟩

end CleanAux

end DmlcModel.Split
