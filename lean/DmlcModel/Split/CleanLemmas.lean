/-
C05 lemma layer: `BeforeFirst` / `ResetPartition` establish `Clean` from any state and depend only on
the file list and `(k, n)` (part A); the state machine `step` respects the state equivalence
`Equiv` / `StEquiv` (part B).  Auxiliary lemmas live in `DmlcModel.Split.CleanAux`.
Core Lean only.
-/
import DmlcModel.Split.Spec

namespace DmlcModel.Split
open DmlcModel DmlcModel.Gen.Split

private theorem rpEmptyClears_true : rpEmptyClears = true := rfl
private theorem bfEmptyClears_true : bfEmptyClears = true := rfl

/-! ## A. `beforeFirst` / `resetPartition` establish `Clean` -/

namespace CleanAux

theorem fileOffset_cons_succ' (f : Bytes) (fs : List Bytes) (i : Nat) :
    fileOffset (f :: fs) (i + 1) = f.length + fileOffset fs i := by
  simp [fileOffset]

theorem ub_offsets_head (fs : List Bytes) (acc x : Nat) (h : x < acc) :
    upperBound (offsetsFrom acc fs) x = 0 := by
  cases fs <;> simp [offsetsFrom, upperBound, h]

theorem ub_offsets (fs : List Bytes) : ∀ (acc x : Nat), acc ≤ x →
    1 ≤ upperBound (offsetsFrom acc fs) x ∧
      acc + fileOffset fs (upperBound (offsetsFrom acc fs) x - 1) ≤ x := by
  induction fs with
  | nil =>
    intro acc x h
    have : ¬ x < acc := by omega
    simp [offsetsFrom, upperBound, this, fileOffset]
    exact h
  | cons f fs ih =>
    intro acc x h
    have hn : ¬ x < acc := by omega
    simp only [offsetsFrom, upperBound, if_neg hn]
    by_cases h2 : acc + f.length ≤ x
    · obtain ⟨h1, h3⟩ := ih (acc + f.length) x h2
      refine ⟨by omega, ?_⟩
      have e : upperBound (offsetsFrom (acc + f.length) fs) x + 1 - 1
          = (upperBound (offsetsFrom (acc + f.length) fs) x - 1) + 1 := by omega
      rw [e, fileOffset_cons_succ']
      omega
    · rw [ub_offsets_head fs _ x (by omega)]
      simp [fileOffset]
      exact h

/-- `file_offset_[filePtrOf x] ≤ x` -/
theorem fileOffset_filePtrOf_le' (files : List Bytes) (x : Nat) :
    fileOffset files (filePtrOf files x) ≤ x := by
  have := (ub_offsets files 0 x (Nat.zero_le _)).2
  unfold filePtrOf
  omega

theorem sub64_eq_sub {a b : Nat} (h : b ≤ a) (ha : a < 2^64) : sub64 a b = a - b := by
  unfold sub64; omega

end CleanAux
open CleanAux

/-- what `beforeFirst` never changes (no hypothesis) -/
theorem beforeFirst_frame (s s' : Base) (h : beforeFirst s = .ok s') :
    s'.files = s.files ∧ s'.offBegin = s.offBegin ∧ s'.offEnd = s.offEnd ∧
    s'.bufWords = s.bufWords ∧ s'.chunk.dataWords = s.chunk.dataWords ∧
    s'.chunk.rest = [] ∧ s'.overflow = [] := by
  unfold beforeFirst at h
  split at h
  · simp only [bfEmptyClears_true, if_true] at h
    injection h with h; subst h
    exact ⟨rfl, rfl, rfl, rfl, rfl, rfl, rfl⟩
  · simp only [] at h
    split at h
    · cases h
    · split at h
      · cases h
      · injection h with h; subst h
        exact ⟨rfl, rfl, rfl, rfl, rfl, rfl, rfl⟩

theorem beforeFirst_clean (s s' : Base) (h : beforeFirst s = .ok s')
    (hlt : s.offBegin < s.offEnd → s.offBegin < 2^64) :
    Clean s' ∧ s'.files = s.files ∧ s'.offBegin = s.offBegin ∧ s'.offEnd = s.offEnd ∧
    s'.bufWords = s.bufWords ∧ s'.chunk.dataWords = s.chunk.dataWords := by
  unfold beforeFirst at h
  by_cases hb : bfEmpty s.offBegin s.offEnd = true
  · rw [if_pos hb] at h
    have hle : s.offEnd ≤ s.offBegin := by simpa [bfEmpty] using hb
    simp only [bfEmptyClears_true, if_true] at h
    injection h with h; subst h
    exact ⟨⟨rfl, rfl, Or.inl hle⟩, rfl, rfl, rfl, rfl, rfl⟩
  · rw [if_neg hb] at h
    have hlt' : s.offBegin < s.offEnd := by
      simp [bfEmpty] at hb; omega
    simp only [] at h
    cases hp : s.fpos with
    | none => rw [hp] at h; cases h
    | some p =>
      rw [hp] at h
      simp only [] at h
      split at h
      · cases h
      · injection h with h; subst h
        have e := sub64_eq_sub (fileOffset_filePtrOf_le' s.files s.offBegin) (hlt hlt')
        refine ⟨⟨rfl, rfl, Or.inr ⟨rfl, rfl, ?_⟩⟩, rfl, rfl, rfl, rfl, rfl⟩
        show some _ = some _
        rw [e]

/-! ## relations -/

/-- uniform relation on results: `ok`/`ok` related by `R`, errors equal; with `ign = true` a `fuel`
error (iteration bound of the model) on either side is a wildcard -/
def ERel (ign : Bool) {α β : Type} (R : α → β → Prop) : Except Err α → Except Err β → Prop
  | .ok a, .ok b => R a b
  | .error e1, .error e2 => e1 = e2 ∨ (ign = true ∧ (e1 = .fuel ∨ e2 = .fuel))
  | .error e, .ok _ => ign = true ∧ e = .fuel
  | .ok _, .error e => ign = true ∧ e = .fuel

/-- `Equiv`, with equal `offCurr` in the strict mode (`ign = false`): `loadFuel` is then equal on both sides -/
def EquivG (ign : Bool) (s t : Base) : Prop := Equiv s t ∧ (ign = false → s.offCurr = t.offCurr)

namespace CleanAux

theorem ERel.cases {ign : Bool} {α β : Type} {R : α → β → Prop} {x : Except Err α} {y : Except Err β}
    (h : ERel ign R x y) :
    (∃ a b, x = .ok a ∧ y = .ok b ∧ R a b) ∨ (∃ e, x = .error e ∧ y = .error e) ∨
    (ign = true ∧ x = .error .fuel) ∨ (ign = true ∧ y = .error .fuel) := by
  cases x with
  | ok a =>
    cases y with
    | ok b => exact Or.inl ⟨a, b, rfl, rfl, h⟩
    | error e => obtain ⟨h1, h2⟩ := h; subst h2; exact Or.inr (Or.inr (Or.inr ⟨h1, rfl⟩))
  | error e =>
    cases y with
    | ok b => obtain ⟨h1, h2⟩ := h; subst h2; exact Or.inr (Or.inr (Or.inl ⟨h1, rfl⟩))
    | error e2 =>
      rcases h with h | ⟨h1, h2 | h2⟩
      · subst h; exact Or.inr (Or.inl ⟨e, rfl, rfl⟩)
      · subst h2; exact Or.inr (Or.inr (Or.inl ⟨h1, rfl⟩))
      · subst h2; exact Or.inr (Or.inr (Or.inr ⟨h1, rfl⟩))

theorem ERel.fuel_left {ign : Bool} {α β : Type} {R : α → β → Prop} (hi : ign = true)
    (y : Except Err β) : ERel ign R (.error .fuel : Except Err α) y := by
  cases y with
  | ok b => exact ⟨hi, rfl⟩
  | error e => exact Or.inr ⟨hi, Or.inl rfl⟩

theorem ERel.fuel_right {ign : Bool} {α β : Type} {R : α → β → Prop} (hi : ign = true)
    (x : Except Err α) : ERel ign R x (.error .fuel : Except Err β) := by
  cases x with
  | ok b => exact ⟨hi, rfl⟩
  | error e => exact Or.inr ⟨hi, Or.inr rfl⟩

theorem ERel.err {ign : Bool} {α β : Type} {R : α → β → Prop} (e : Err) :
    ERel ign R (.error e : Except Err α) (.error e : Except Err β) := Or.inl rfl

theorem ERel.mono {ign : Bool} {α β : Type} {R Q : α → β → Prop} {x : Except Err α} {y : Except Err β}
    (h : ERel ign R x y) (hq : ∀ a b, R a b → Q a b) : ERel ign Q x y := by
  cases x <;> cases y <;> first | exact hq _ _ h | exact h

theorem ERel.weaken {ign : Bool} {α β : Type} {R : α → β → Prop} {x : Except Err α} {y : Except Err β}
    (h : ERel false R x y) : ERel ign R x y := by
  cases x <;> cases y <;> simp [ERel] at h ⊢ <;> first | exact h | exact Or.inl h

/-- the strict relation in the `match` form used in the statements -/
theorem ERel_false_iff {α β : Type} {R : α → β → Prop} {x : Except Err α} {y : Except Err β} :
    ERel false R x y ↔
      (match x, y with
       | .ok a, .ok b => R a b
       | .error e1, .error e2 => e1 = e2
       | _, _ => False) := by
  cases x <;> cases y <;> simp [ERel]

theorem chunkEquiv_refl (c : Chunk) : ChunkEquiv c c := ⟨rfl, fun _ => ⟨rfl, rfl⟩⟩
theorem chunkEquiv_symm {c d : Chunk} (h : ChunkEquiv c d) : ChunkEquiv d c :=
  ⟨h.1.symm, fun hd => by have := h.2 (by rw [h.1]; exact hd); exact ⟨this.1.symm, this.2.symm⟩⟩
theorem chunkEquiv_trans {c d e : Chunk} (h : ChunkEquiv c d) (g : ChunkEquiv d e) : ChunkEquiv c e :=
  ⟨h.1.trans g.1, fun hc => by
    have h2 := h.2 hc
    have g2 := g.2 (by rw [← h.1]; exact hc)
    exact ⟨h2.1.trans g2.1, h2.2.trans g2.2⟩⟩
theorem chunkEquiv_of_empty {c d : Chunk} (hc : c.rest = []) (hd : d.rest = []) : ChunkEquiv c d :=
  ⟨hc.trans hd.symm, fun h => absurd hc h⟩

/-- `beforeFirst` reads `files`, `offBegin`, `offEnd`, `filePtr` and whether `fs_` is open -/
theorem beforeFirst_core (ign : Bool) (s t : Base) (hf : s.files = t.files) (hb : s.offBegin = t.offBegin)
    (he : s.offEnd = t.offEnd) (hw : s.bufWords = t.bufWords)
    (hp : s.offEnd ≤ s.offBegin ∨ (s.filePtr = t.filePtr ∧ s.fpos.isSome = t.fpos.isSome))
    (hq : s.offEnd ≤ s.offBegin → ign = false → s.offCurr = t.offCurr) :
    ERel false (EquivG ign) (beforeFirst s) (beforeFirst t) := by
  unfold beforeFirst
  rw [← hf, ← hb, ← he]
  by_cases hbe : bfEmpty s.offBegin s.offEnd = true
  · have hle : s.offEnd ≤ s.offBegin := by simpa [bfEmpty] using hbe
    rw [if_pos hbe, if_pos hbe]
    simp only [bfEmptyClears_true, if_true, ERel]
    exact ⟨⟨rfl, rfl, rfl, rfl, hw, ⟨rfl, fun h => absurd rfl h⟩, Or.inl hle⟩, hq hle⟩
  · have hlt : ¬ s.offEnd ≤ s.offBegin := by
      simp [bfEmpty] at hbe; omega
    rw [if_neg hbe, if_neg hbe]
    rcases hp with hp | ⟨hp1, hp2⟩
    · exact absurd hp hlt
    · simp only []
      rw [← hp1]
      cases h1 : s.fpos with
      | none =>
        rw [h1] at hp2
        cases h2 : t.fpos with
        | none => exact Or.inl rfl
        | some q => rw [h2] at hp2; cases hp2
      | some p =>
        rw [h1] at hp2
        cases h2 : t.fpos with
        | none => rw [h2] at hp2; cases hp2
        | some q =>
          simp only []
          split
          · exact Or.inl rfl
          · exact ⟨⟨rfl, rfl, rfl, rfl, hw, ⟨rfl, fun h => absurd rfl h⟩, Or.inr ⟨rfl, rfl, rfl⟩⟩,
              fun _ => rfl⟩

/-- `resetPartition` with its arithmetic kernels abstracted (same matchers) -/
def rpGen (g1 g2 : Nat → Nat → Nat) (g3 g4 : Nat → Nat → Nat → Nat) (g5 g6 : Nat → Nat → Nat)
    (F : Fmt) (s : Base) (rank nsplit : Nat) : Except Err Base :=
  if nsplit = 0 then .error .div
  else
    let ntotal := totalSize s.files
    let nstep := g2 (g1 ntotal nsplit) F.align
    let ob := g3 nstep rank ntotal
    let oe := g4 nstep rank ntotal
    let s := { s with offBegin := ob, offEnd := oe, offCurr := ob }
    if rpEmpty ob oe then
      .ok (if rpEmptyClears then { s with chunk := s.chunk.clear, overflow := [] } else s)
    else
      let fp := filePtrOf s.files ob
      let fpe := filePtrOf s.files oe
      let oe' : Except Err Nat :=
        if rpSnapEnd oe (fileOffset s.files fpe) then
          if ¬ (fileOffset s.files fpe < oe) ∨ ¬ (fpe < s.files.length) then .error .check
          else
            resetPartition.match_3 (fun _ => Except Err Nat) (List.drop fpe s.files) (fun _ => Except.error Err.oob)
              fun f _ =>
              resetPartition.match_1 (fun _ => Except Err Nat)
                (F.seekRecordBegin (List.drop (g5 oe (fileOffset s.files fpe)) f)) (fun e => Except.error e)
                fun n _ => Except.ok (oe + n)
        else .ok oe
      resetPartition.match_5 (fun _ => Except Err Base) oe' (fun e => Except.error e) fun oe' =>
        resetPartition.match_3 (fun _ => Except Err Base) (List.drop fp s.files) (fun _ => Except.error Err.oob)
          fun f _ =>
          let r : Except Err (Nat × Nat) :=
            if rpSnapBegin ob (fileOffset s.files fp) then
              let seekPos := g6 ob (fileOffset s.files fp)
              resetPartition.match_1 (fun _ => Except Err (Nat × Nat)) (F.seekRecordBegin (List.drop seekPos f))
                (fun e => Except.error e) fun n consumed => Except.ok (ob + n, seekPos + consumed)
            else .ok (ob, 0)
          resetPartition.match_1 (fun _ => Except Err Base) r (fun e => Except.error e) fun ob' pos =>
            beforeFirst { s with offBegin := ob', offEnd := oe', filePtr := fp, fpos := some pos }

attribute [local irreducible] rpStepRaw rpStepAlign rpBegin rpEnd rpSeekEnd rpSeekBegin in
theorem resetPartition_eq_gen (F : Fmt) :
    resetPartition F = rpGen rpStepRaw rpStepAlign rpBegin rpEnd rpSeekEnd rpSeekBegin F := by
  delta resetPartition rpGen
  rfl

/-- `resetPartition` reads only `files` of the old state; `bufWords` and the chunk capacity are kept -/
theorem rpGen_core (g1 g2 : Nat → Nat → Nat) (g3 g4 : Nat → Nat → Nat → Nat) (g5 g6 : Nat → Nat → Nat)
    (F : Fmt) (s t : Base) (k n : Nat) (hf : s.files = t.files) (hb : s.bufWords = t.bufWords) :
    ERel false (EquivG false) (rpGen g1 g2 g3 g4 g5 g6 F s k n) (rpGen g1 g2 g3 g4 g5 g6 F t k n) := by
  unfold rpGen
  rw [← hf]
  by_cases hn : n = 0
  · rw [if_pos hn, if_pos hn]; exact ERel.err _
  · rw [if_neg hn, if_neg hn]
    simp only []
    split
    · rename_i he
      have hle : g4 (g2 (g1 (totalSize s.files) n) F.align) k (totalSize s.files)
          ≤ g3 (g2 (g1 (totalSize s.files) n) F.align) k (totalSize s.files) := by
        simp [rpEmpty] at he; omega
      simp only [rpEmptyClears_true, if_true, ERel]
      exact ⟨⟨rfl, rfl, rfl, rfl, hb, ⟨rfl, fun h => absurd rfl h⟩, Or.inl hle⟩, fun _ => rfl⟩
    · split
      · exact ERel.err _
      · split
        · exact ERel.err _
        · split
          · exact ERel.err _
          · exact beforeFirst_core false _ _ rfl rfl rfl hb (Or.inr ⟨rfl, rfl⟩) (fun _ _ => rfl)

theorem resetPartition_core (F : Fmt) (s t : Base) (k n : Nat) (hf : s.files = t.files)
    (hb : s.bufWords = t.bufWords) :
    ERel false (EquivG false) (resetPartition F s k n) (resetPartition F t k n) := by
  rw [resetPartition_eq_gen]
  exact rpGen_core _ _ _ _ _ _ F s t k n hf hb

/-- what `resetPartition` keeps, and `Clean` (given that a non-empty result part starts below `2^64`) -/
theorem rpGen_clean (g1 g2 : Nat → Nat → Nat) (g3 g4 : Nat → Nat → Nat → Nat) (g5 g6 : Nat → Nat → Nat)
    (F : Fmt) (s s' : Base) (k n : Nat) (h : rpGen g1 g2 g3 g4 g5 g6 F s k n = .ok s')
    (hlt : s'.offBegin < s'.offEnd → s'.offBegin < 2^64) :
    Clean s' ∧ s'.files = s.files ∧ s'.bufWords = s.bufWords ∧ s'.chunk.dataWords = s.chunk.dataWords := by
  unfold rpGen at h
  by_cases hn : n = 0
  · rw [if_pos hn] at h; cases h
  · rw [if_neg hn] at h
    simp only [] at h
    split at h
    · rename_i he
      have hle : g4 (g2 (g1 (totalSize s.files) n) F.align) k (totalSize s.files)
          ≤ g3 (g2 (g1 (totalSize s.files) n) F.align) k (totalSize s.files) := by
        simp [rpEmpty] at he; omega
      simp only [rpEmptyClears_true, if_true] at h
      injection h with h; subst h
      exact ⟨⟨rfl, rfl, Or.inl hle⟩, rfl, rfl, rfl⟩
    · split at h
      · cases h
      · split at h
        · cases h
        · split at h
          · cases h
          · have hfr := beforeFirst_frame _ _ h
            have hc := beforeFirst_clean _ _ h (by rw [← hfr.2.1, ← hfr.2.2.1]; exact hlt)
            exact ⟨hc.1, hfr.1, hfr.2.2.2.1, hfr.2.2.2.2.1⟩

end CleanAux
open CleanAux

/-! ### `Equiv` is an equivalence relation; clean states on the same part are equivalent -/

theorem equiv_refl (s : Base) : Equiv s s :=
  ⟨rfl, rfl, rfl, rfl, rfl, chunkEquiv_refl _, Or.inr ⟨rfl, rfl, rfl⟩⟩

theorem equiv_symm {s t : Base} (h : Equiv s t) : Equiv t s := by
  obtain ⟨h1, h2, h3, h4, h5, h6, h7⟩ := h
  refine ⟨h1.symm, h2.symm, h3.symm, h4.symm, h5.symm, chunkEquiv_symm h6, ?_⟩
  rcases h7 with h7 | ⟨a, b, c⟩
  · left; omega
  · right; exact ⟨a.symm, b.symm, c.symm⟩

theorem equiv_trans {s t u : Base} (h : Equiv s t) (g : Equiv t u) : Equiv s u := by
  obtain ⟨h1, h2, h3, h4, h5, h6, h7⟩ := h
  obtain ⟨g1, g2, g3, g4, g5, g6, g7⟩ := g
  refine ⟨h1.trans g1, h2.trans g2, h3.trans g3, h4.trans g4, h5.trans g5, chunkEquiv_trans h6 g6, ?_⟩
  rcases h7 with h7 | ⟨a, b, c⟩
  · left; exact h7
  · rcases g7 with g7 | ⟨a', b', c'⟩
    · left; omega
    · right; exact ⟨a.trans a', b.trans b', c.trans c'⟩

theorem clean_equiv (s t : Base) (hs : Clean s) (ht : Clean t) (hf : s.files = t.files)
    (hb : s.offBegin = t.offBegin) (he : s.offEnd = t.offEnd) (hw : s.bufWords = t.bufWords) :
    Equiv s t := by
  obtain ⟨s1, s2, s3⟩ := hs
  obtain ⟨t1, t2, t3⟩ := ht
  refine ⟨hf, hb, he, s2.trans t2.symm, hw, chunkEquiv_of_empty s1 t1, ?_⟩
  rcases s3 with s3 | ⟨a, b, c⟩
  · left; exact s3
  · rcases t3 with t3 | ⟨a', b', c'⟩
    · left; omega
    · right
      refine ⟨?_, ?_, ?_⟩
      · rw [a, a', hb]
      · rw [b, b', hf, hb]
      · rw [c, c', hf, hb]

theorem resetPartition_clean (F : Fmt) (s s' : Base) (k n : Nat) (h : resetPartition F s k n = .ok s')
    (hlt : s'.offBegin < s'.offEnd → s'.offBegin < 2^64) :
    Clean s' ∧ s'.files = s.files ∧ s'.bufWords = s.bufWords ∧ s'.chunk.dataWords = s.chunk.dataWords := by
  rw [resetPartition_eq_gen] at h
  exact rpGen_clean _ _ _ _ _ _ F s s' k n h hlt

/-- the outcome of `resetPartition` depends on the old state only through `files` / `bufWords` (any `k`, `n`);
the two results even agree on `offCurr` (`EquivG false`) -/
theorem resetPartition_indepG (F : Fmt) (s t : Base) (k n : Nat) (hf : s.files = t.files)
    (hb : s.bufWords = t.bufWords) :
    ERel false (EquivG false) (resetPartition F s k n) (resetPartition F t k n) :=
  resetPartition_core F s t k n hf hb

theorem resetPartition_indep (F : Fmt) (s t : Base) (k n : Nat) (hf : s.files = t.files)
    (hb : s.bufWords = t.bufWords) :
    match resetPartition F s k n, resetPartition F t k n with
    | .ok s', .ok t' => Equiv s' t'
    | .error e1, .error e2 => e1 = e2
    | _, _ => False := by
  have h' := resetPartition_core F s t k n hf hb
  generalize resetPartition F s k n = x at h' ⊢
  generalize resetPartition F t k n = y at h' ⊢
  cases x <;> cases y <;> simp [ERel] at h' ⊢
  · exact h'
  · exact h'.1

/-- `beforeFirst` of equivalent states: equal errors or equivalent results -/
theorem beforeFirst_equivG (ign : Bool) (s t : Base) (h : EquivG ign s t) :
    ERel false (EquivG ign) (beforeFirst s) (beforeFirst t) := by
  obtain ⟨⟨h1, h2, h3, h4, h5, h6, h7⟩, h8⟩ := h
  refine beforeFirst_core ign s t h1 h2 h3 h5 ?_ (fun _ => h8)
  rcases h7 with h7 | ⟨a, b, c⟩
  · exact Or.inl h7
  · exact Or.inr ⟨b, by rw [c]⟩

theorem beforeFirst_equiv (s t : Base) (h : Equiv s t) :
    match beforeFirst s, beforeFirst t with
    | .ok s', .ok t' => Equiv s' t'
    | .error e1, .error e2 => e1 = e2
    | _, _ => False := by
  have h' := beforeFirst_equivG true s t ⟨h, fun h => by cases h⟩
  generalize beforeFirst s = x at h' ⊢
  generalize beforeFirst t = y at h' ⊢
  cases x <;> cases y <;> simp [ERel] at h' ⊢
  · exact h'
  · exact h'.1


/-! ## B. the state machine respects the equivalence

Every layer is proved for a *generic copy* of the model function in which the lower layer and the
wrap-around arithmetic are variables, and transferred with a `delta … ; rfl` bridge whose two sides are
syntactically equal (same matcher constants).  Reason: a kernel `whnf` of `sub64 a b = (a + 2^64 - b % 2^64) % 2^64`
with a free `a` peels `2^64` successors, and `simp` / `split` / `rfl` steps on the model functions themselves make
the kernel evaluate such terms (e.g. `loadSize dw`, `rdClipped`, `rcReadSize`) as soon as a `match` on them has
to be unfolded. -/

namespace CleanAux

/-! ### `read` -/

/-- `read` with `rdClipped` and `readLoop` abstracted -/
def readG (clp : Nat → Nat → Nat)
    (rl : Bool → List Bytes → Nat → Nat → Nat → Nat → Nat → Bytes → Except Err (Bytes × Nat × Nat × Nat))
    (F : Fmt) (s : Base) (size : Nat) : Except Err (Bytes × Base) :=
  beforeFirst.match_1 (fun _ => Except Err (Bytes × Base)) s.fpos (fun _ => Except.ok ([], s)) fun pos =>
    if rdEmpty s.offBegin s.offEnd then .ok ([], s)
    else
      let size := if rdClip s.offCurr size s.offEnd then clp s.offCurr s.offEnd else size
      if size = 0 then .ok ([], s)
      else
        read.match_1 (fun _ => Except Err (Bytes × Base))
          (rl F.isText s.files (s.files.length + 1) size s.filePtr pos s.offCurr []) (fun e => Except.error e)
          fun bytes fp pos oc =>
          .ok (bytes, { s with filePtr := fp, fpos := some pos, offCurr := oc })

attribute [local irreducible] rdClipped readLoop in
theorem read_eq_gen (F : Fmt) : read F = readG rdClipped readLoop F := by
  delta read readG
  rfl

theorem readG_empty (clp : Nat → Nat → Nat)
    (rl : Bool → List Bytes → Nat → Nat → Nat → Nat → Nat → Bytes → Except Err (Bytes × Nat × Nat × Nat))
    (F : Fmt) (s : Base) (size : Nat) (h : s.offEnd ≤ s.offBegin) :
    readG clp rl F s size = .ok ([], s) := by
  unfold readG
  cases hp : s.fpos with
  | none => rfl
  | some p =>
    simp only []
    rw [if_pos (by simp [rdEmpty]; omega)]

theorem readG_equiv (ign : Bool) (clp : Nat → Nat → Nat)
    (rl : Bool → List Bytes → Nat → Nat → Nat → Nat → Nat → Bytes → Except Err (Bytes × Nat × Nat × Nat))
    (F : Fmt) (s t : Base) (h : EquivG ign s t) (size : Nat) :
    ERel false (fun a b => a.1 = b.1 ∧ EquivG ign a.2 b.2) (readG clp rl F s size) (readG clp rl F t size) := by
  obtain ⟨⟨h1, h2, h3, h4, h5, h6, h7⟩, h8⟩ := h
  have h : EquivG ign s t := ⟨⟨h1, h2, h3, h4, h5, h6, h7⟩, h8⟩
  rcases h7 with hemp | ⟨a, b, c⟩
  · rw [readG_empty clp rl F s size hemp, readG_empty clp rl F t size (by omega)]
    exact ⟨rfl, h⟩
  · unfold readG
    rw [← h1, ← h2, ← h3, ← a, ← b, ← c]
    cases hp : s.fpos with
    | none => exact ⟨rfl, h⟩
    | some pos =>
      simp only []
      by_cases he : rdEmpty s.offBegin s.offEnd = true
      · rw [if_pos he, if_pos he]; exact ⟨rfl, h⟩
      · rw [if_neg he, if_neg he]
        generalize (if rdClip s.offCurr size s.offEnd = true then clp s.offCurr s.offEnd else size) = sz
        by_cases hz : sz = 0
        · rw [if_pos hz, if_pos hz]; exact ⟨rfl, h⟩
        · rw [if_neg hz, if_neg hz]
          cases hr : rl F.isText s.files (s.files.length + 1) sz s.filePtr pos s.offCurr [] with
          | error e => exact ERel.err _
          | ok r =>
            obtain ⟨bytes, fp, p2, oc⟩ := r
            exact ⟨rfl, ⟨rfl, rfl, rfl, h4, h5, h6, Or.inr ⟨rfl, rfl, rfl⟩⟩, fun _ => rfl⟩

end CleanAux
open CleanAux

theorem read_equivG (ign : Bool) (F : Fmt) (s t : Base) (h : EquivG ign s t) (size : Nat) :
    ERel false (fun a b => a.1 = b.1 ∧ EquivG ign a.2 b.2) (read F s size) (read F t size) := by
  rw [read_eq_gen]
  exact readG_equiv ign _ _ F s t h size


namespace CleanAux

theorem EquivG.setOverflow {ign : Bool} {s t : Base} (h : EquivG ign s t) (o : Bytes) :
    EquivG ign { s with overflow := o } { t with overflow := o } := by
  obtain ⟨⟨h1, h2, h3, _, h5, h6, h7⟩, h8⟩ := h
  exact ⟨⟨h1, h2, h3, rfl, h5, h6, h7⟩, h8⟩

theorem EquivG.setChunk {ign : Bool} {s t : Base} (h : EquivG ign s t) {c d : Chunk} (hc : ChunkEquiv c d) :
    EquivG ign { s with chunk := c } { t with chunk := d } := by
  obtain ⟨⟨h1, h2, h3, h4, h5, _, h7⟩, h8⟩ := h
  exact ⟨⟨h1, h2, h3, h4, h5, hc, h7⟩, h8⟩

/-! ### `readChunk` -/

/-- `readChunk` with `read F` and `rcReadSize` abstracted -/
def readChunkG (rd : Base → Nat → Except Err (Bytes × Base)) (rsz : Nat → Nat → Nat) (F : Fmt) (s : Base)
    (maxSize : Nat) : Except Err (Option Bytes × Base) :=
  if rcTooSmall maxSize s.overflow.length then .ok (some [], s)
  else
    let ov := s.overflow
    let olen := ov.length
    readChunk.match_1 (fun _ => Except Err (Option Bytes × Base))
      (rd { s with overflow := [] } (rsz maxSize olen)) (fun e => Except.error e) fun bytes s =>
      let buf := ov ++ bytes
      let nread := buf.length
      if nread = 0 then .ok (none, s)
      else if F.isText = false ∧ rcShort nread maxSize then .ok (some buf, s)
      else
        let buf := if F.isText ∧ rcNoNewData nread olen then buf ++ [UInt8.ofNat rcNewline] else buf
        resetPartition.match_5 (fun _ => Except Err (Option Bytes × Base)) (F.findLastRecordBegin buf)
          (fun e => Except.error e) fun cut =>
          .ok (some (buf.take cut), { s with overflow := buf.drop cut })

attribute [local irreducible] read rcReadSize in
theorem readChunk_eq_gen (F : Fmt) : readChunk F = readChunkG (read F) rcReadSize F := by
  delta readChunk readChunkG
  rfl

theorem readChunkG_equiv (ign : Bool) (rd : Base → Nat → Except Err (Bytes × Base))
    (hrd : ∀ s t size, EquivG ign s t →
      ERel false (fun a b => a.1 = b.1 ∧ EquivG ign a.2 b.2) (rd s size) (rd t size))
    (rsz : Nat → Nat → Nat) (F : Fmt) (s t : Base) (h : EquivG ign s t) (m : Nat) :
    ERel false (fun a b => a.1 = b.1 ∧ EquivG ign a.2 b.2) (readChunkG rd rsz F s m) (readChunkG rd rsz F t m) := by
  have h4 : s.overflow = t.overflow := h.1.2.2.2.1
  unfold readChunkG
  rw [← h4]
  by_cases hts : rcTooSmall m s.overflow.length = true
  · rw [if_pos hts, if_pos hts]; exact ⟨rfl, h⟩
  · rw [if_neg hts, if_neg hts]
    simp only []
    have hx := hrd { s with overflow := [] } { t with overflow := [] } (rsz m s.overflow.length)
      (EquivG.setOverflow h [])
    rcases ERel.cases hx with ⟨a, b, hx, hy, hR⟩ | ⟨e, hx, hy⟩ | ⟨hi, _⟩ | ⟨hi, _⟩
    · rw [hx, hy]
      obtain ⟨bytes, s1⟩ := a
      obtain ⟨bytes', t1⟩ := b
      obtain ⟨hb, hst⟩ := hR
      simp only [] at hb hst
      subst hb
      simp only []
      by_cases hz : (s.overflow ++ bytes).length = 0
      · rw [if_pos hz, if_pos hz]; exact ⟨rfl, hst⟩
      · rw [if_neg hz, if_neg hz]
        by_cases hsh : F.isText = false ∧ rcShort (s.overflow ++ bytes).length m = true
        · rw [if_pos hsh, if_pos hsh]; exact ⟨rfl, hst⟩
        · rw [if_neg hsh, if_neg hsh]
          generalize (if F.isText = true ∧ rcNoNewData (s.overflow ++ bytes).length s.overflow.length = true
            then s.overflow ++ bytes ++ [UInt8.ofNat rcNewline] else s.overflow ++ bytes) = buf
          cases hc : F.findLastRecordBegin buf with
          | error e => exact ERel.err _
          | ok cut => exact ⟨rfl, EquivG.setOverflow hst _⟩
    · rw [hx, hy]; exact ERel.err _
    · cases hi
    · cases hi

end CleanAux
open CleanAux

theorem readChunk_equivG (ign : Bool) (F : Fmt) (s t : Base) (h : EquivG ign s t) (m : Nat) :
    ERel false (fun a b => a.1 = b.1 ∧ EquivG ign a.2 b.2) (readChunk F s m) (readChunk F t m) := by
  rw [readChunk_eq_gen]
  exact readChunkG_equiv ign _ (fun s t size h => read_equivG ign F s t h size) _ F s t h m


namespace CleanAux

/-! ### `loadLoop` -/

/-- `loadLoop` with `readChunk F`, `loadSize`, `loadGrow` abstracted -/
def loadLoopG (rc : Base → Nat → Except Err (Option Bytes × Base)) (sz grow : Nat → Nat) :
    Nat → Base → Nat → Except Err (Option Bytes × Base × Nat)
  | 0, _, _ => .error .fuel
  | fuel + 1, s, dataWords =>
    loadLoop.match_1 (fun _ => Except Err (Option Bytes × Base × Nat)) (rc s (sz dataWords))
      (fun e => .error e) (fun s => .ok (none, s, dataWords))
      (fun s => loadLoopG rc sz grow fuel s (grow dataWords)) (fun c s => .ok (some c, s, dataWords))

/-- one visit of the loop body of `Chunk::Load`, as a function of the `ReadChunk` result -/
def loadStepG (d : Except Err (Option Bytes × Base)) (k : Base → Except Err (Option Bytes × Base × Nat))
    (dw : Nat) : Except Err (Option Bytes × Base × Nat) :=
  match d with
  | .error e => .error e
  | .ok (none, s) => .ok (none, s, dw)
  | .ok (some [], s) => k s
  | .ok (some c, s) => .ok (some c, s, dw)

theorem loadLoopG_succ (rc : Base → Nat → Except Err (Option Bytes × Base)) (sz grow : Nat → Nat)
    (fuel : Nat) (s : Base) (dw : Nat) :
    loadLoopG rc sz grow (fuel + 1) s dw =
      loadStepG (rc s (sz dw)) (fun s1 => loadLoopG rc sz grow fuel s1 (grow dw)) dw := by
  rw [loadLoopG]; rfl

attribute [local irreducible] readChunk loadSize loadGrow in
theorem loadLoop_eq_gen' (F : Fmt) : loadLoop F = loadLoopG (readChunk F) loadSize loadGrow := by
  delta loadLoop loadLoopG
  rfl

/-- same fuel on both sides: strict agreement -/
theorem loadLoopG_equiv (ign : Bool) (rc : Base → Nat → Except Err (Option Bytes × Base))
    (hrc : ∀ s t m, EquivG ign s t →
      ERel false (fun a b => a.1 = b.1 ∧ EquivG ign a.2 b.2) (rc s m) (rc t m))
    (sz grow : Nat → Nat) : ∀ (fuel : Nat) (s t : Base) (dw : Nat), EquivG ign s t →
    ERel false (fun a b => a.1 = b.1 ∧ EquivG ign a.2.1 b.2.1 ∧ a.2.2 = b.2.2)
      (loadLoopG rc sz grow fuel s dw) (loadLoopG rc sz grow fuel t dw) := by
  intro fuel
  induction fuel with
  | zero => intro s t dw _; exact ERel.err _
  | succ fuel ih =>
    intro s t dw h
    rw [loadLoopG_succ, loadLoopG_succ]
    rcases ERel.cases (hrc s t (sz dw) h) with ⟨a, b, hx, hy, hR⟩ | ⟨e, hx, hy⟩ | ⟨hi, _⟩ | ⟨hi, _⟩
    · rw [hx, hy]
      obtain ⟨o, s1⟩ := a
      obtain ⟨o', t1⟩ := b
      obtain ⟨ho, hst⟩ := hR
      simp only [] at ho hst
      subst ho
      cases o with
      | none => exact ⟨rfl, hst, rfl⟩
      | some c =>
        cases c with
        | nil => exact ih s1 t1 (grow dw) hst
        | cons x xs => exact ⟨rfl, hst, rfl⟩
    · rw [hx, hy]; exact ERel.err _
    · cases hi
    · cases hi

/-- more fuel does not change a result other than `fuel` -/
theorem loadLoopG_mono (rc : Base → Nat → Except Err (Option Bytes × Base)) (sz grow : Nat → Nat) :
    ∀ (fuel : Nat) (s : Base) (dw : Nat), loadLoopG rc sz grow fuel s dw ≠ .error .fuel →
      ∀ k, loadLoopG rc sz grow (fuel + k) s dw = loadLoopG rc sz grow fuel s dw := by
  intro fuel
  induction fuel with
  | zero => intro s dw h; exact absurd rfl h
  | succ fuel ih =>
    intro s dw h k
    have e : fuel + 1 + k = (fuel + k) + 1 := by omega
    rw [e, loadLoopG_succ, loadLoopG_succ]
    rw [loadLoopG_succ] at h
    cases hx : rc s (sz dw) with
    | error e => rfl
    | ok r =>
      obtain ⟨o, s1⟩ := r
      rw [hx] at h
      cases o with
      | none => rfl
      | some c =>
        cases c with
        | nil => exact ih s1 (grow dw) h k
        | cons x xs => rfl

/-- possibly different fuel: agreement up to `fuel` outcomes (`ign = true`), strict for equal fuel -/
theorem loadLoopG_equiv_fuels (ign : Bool) (rc : Base → Nat → Except Err (Option Bytes × Base))
    (hrc : ∀ s t m, EquivG ign s t →
      ERel false (fun a b => a.1 = b.1 ∧ EquivG ign a.2 b.2) (rc s m) (rc t m))
    (sz grow : Nat → Nat) (f1 f2 : Nat) (hf : ign = false → f1 = f2) (s t : Base) (dw : Nat)
    (h : EquivG ign s t) :
    ERel ign (fun a b => a.1 = b.1 ∧ EquivG ign a.2.1 b.2.1 ∧ a.2.2 = b.2.2)
      (loadLoopG rc sz grow f1 s dw) (loadLoopG rc sz grow f2 t dw) := by
  cases hi : ign with
  | false =>
    rw [hi] at hf
    rw [hf rfl]
    have := loadLoopG_equiv ign rc hrc sz grow f2 s t dw h
    rw [hi] at this
    exact this
  | true =>
    by_cases hx : loadLoopG rc sz grow f1 s dw = .error .fuel
    · rw [hx]; exact ERel.fuel_left rfl _
    · by_cases hy : loadLoopG rc sz grow f2 t dw = .error .fuel
      · rw [hy]; exact ERel.fuel_right rfl _
      · have h1 := loadLoopG_mono rc sz grow f1 s dw hx f2
        have h2 := loadLoopG_mono rc sz grow f2 t dw hy f1
        have e : f2 + f1 = f1 + f2 := by omega
        rw [e] at h2
        have := loadLoopG_equiv ign rc hrc sz grow (f1 + f2) s t dw h
        rw [h1, h2, hi] at this
        exact ERel.weaken this

/-! ### `load` -/

/-- `load` with `loadLoop F`, `loadFuel`, `loadResize` abstracted -/
def loadG (L : Nat → Base → Nat → Except Err (Option Bytes × Base × Nat)) (fu : Base → Nat)
    (rs : Nat → Nat) (s : Base) (c : Chunk) : Except Err (Bool × Base × Chunk) :=
  load.match_1 (fun _ => Except Err (Bool × Base × Chunk)) (L (fu s) s (rs s.bufWords))
    (fun e => .error e)
    (fun s dw => .ok (false, s, { c with dataWords := dw }))
    (fun bytes s dw => .ok (true, s, { dataWords := dw, begin := 0, rest := bytes }))

attribute [local irreducible] loadLoop loadFuel loadResize in
theorem load_eq_gen' (F : Fmt) : load F = loadG (loadLoop F) loadFuel loadResize := by
  delta load loadG
  rfl

/-- on `false` the chunk keeps its window (only `dataWords` changes), on `true` the new chunks are equal
and non-empty -/
def LoadRel (ign : Bool) (a b : Bool × Base × Chunk) : Prop :=
  a.1 = b.1 ∧ EquivG ign a.2.1 b.2.1 ∧ ChunkEquiv a.2.2 b.2.2 ∧
  (a.1 = true → a.2.2 = b.2.2 ∧ a.2.2.rest ≠ [])

theorem loadG_equiv (ign : Bool) (L : Nat → Base → Nat → Except Err (Option Bytes × Base × Nat))
    (fu : Base → Nat)
    (hL : ∀ s t dw, EquivG ign s t →
      ERel ign (fun a b => a.1 = b.1 ∧ EquivG ign a.2.1 b.2.1 ∧ a.2.2 = b.2.2) (L (fu s) s dw) (L (fu t) t dw))
    (hne : ∀ f s dw bytes s' dw', L f s dw = .ok (some bytes, s', dw') → bytes ≠ [])
    (rs : Nat → Nat) (s t : Base) (h : EquivG ign s t) (c d : Chunk) (hc : ChunkEquiv c d) :
    ERel ign (LoadRel ign) (loadG L fu rs s c) (loadG L fu rs t d) := by
  have h5 : s.bufWords = t.bufWords := h.1.2.2.2.2.1
  unfold loadG
  rw [← h5]
  rcases ERel.cases (hL s t (rs s.bufWords) h) with ⟨a, b, hx, hy, hR⟩ | ⟨e, hx, hy⟩ | ⟨hi, hx⟩ | ⟨hi, hy⟩
  · rw [hx, hy]
    obtain ⟨o, s1, dw1⟩ := a
    obtain ⟨o', t1, dw2⟩ := b
    obtain ⟨ho, hst, hdw⟩ := hR
    simp only [] at ho hst hdw
    subst ho hdw
    cases o with
    | none =>
      exact ⟨rfl, hst, ⟨hc.1, fun hr => ⟨(hc.2 hr).1, rfl⟩⟩, fun hh => by cases hh⟩
    | some bytes =>
      exact ⟨rfl, hst, chunkEquiv_refl _, fun _ => ⟨rfl, hne _ _ _ _ _ _ hx⟩⟩
  · rw [hx, hy]; exact ERel.err _
  · rw [hx]; exact ERel.fuel_left hi _
  · rw [hy]; exact ERel.fuel_right hi _

theorem loadLoopG_some_ne (rc : Base → Nat → Except Err (Option Bytes × Base)) (sz grow : Nat → Nat) :
    ∀ (fuel : Nat) (s : Base) (dw : Nat) (bytes : Bytes) (s' : Base) (dw' : Nat),
      loadLoopG rc sz grow fuel s dw = .ok (some bytes, s', dw') → bytes ≠ [] := by
  intro fuel
  induction fuel with
  | zero => intro s dw bytes s' dw' h; cases h
  | succ fuel ih =>
    intro s dw bytes s' dw' h
    rw [loadLoopG_succ] at h
    cases hx : rc s (sz dw) with
    | error e => rw [hx] at h; cases h
    | ok r =>
      obtain ⟨o, s1⟩ := r
      rw [hx] at h
      cases o with
      | none => cases h
      | some c =>
        cases c with
        | nil => exact ih s1 (grow dw) bytes s' dw' h
        | cons x xs =>
          simp only [loadStepG] at h
          injection h with h
          injection h with h1 _
          injection h1 with h1
          rw [← h1]; exact List.cons_ne_nil _ _

end CleanAux
open CleanAux

theorem loadLoop_equivG (ign : Bool) (F : Fmt) (f1 f2 : Nat) (hf : ign = false → f1 = f2) (s t : Base)
    (dw : Nat) (h : EquivG ign s t) :
    ERel ign (fun a b => a.1 = b.1 ∧ EquivG ign a.2.1 b.2.1 ∧ a.2.2 = b.2.2)
      (loadLoop F f1 s dw) (loadLoop F f2 t dw) := by
  rw [loadLoop_eq_gen']
  exact loadLoopG_equiv_fuels ign _ (fun s t m h => readChunk_equivG ign F s t h m) _ _ f1 f2 hf s t dw h

theorem loadFuel_eq_of_equivG (s t : Base) (h : EquivG false s t) : loadFuel s = loadFuel t := by
  obtain ⟨⟨h1, _, h3, h4, _, _, _⟩, h8⟩ := h
  unfold loadFuel
  rw [h1, h3, h4, h8 rfl]

attribute [local irreducible] loadLoop loadFuel loadResize load readChunk read in
theorem load_equivG (ign : Bool) (F : Fmt) (s t : Base) (h : EquivG ign s t) (c d : Chunk)
    (hc : ChunkEquiv c d) :
    ERel ign (LoadRel ign) (load F s c) (load F t d) := by
  rw [load_eq_gen']
  have hL : ∀ s t dw, EquivG ign s t →
      ERel ign (fun a b => a.1 = b.1 ∧ EquivG ign a.2.1 b.2.1 ∧ a.2.2 = b.2.2)
        (loadLoop F (loadFuel s) s dw) (loadLoop F (loadFuel t) t dw) := by
    intro s t dw h
    refine loadLoop_equivG ign F _ _ ?_ s t dw h
    intro hi
    subst hi
    exact loadFuel_eq_of_equivG s t h
  have hne : ∀ f s dw bytes s' dw', loadLoop F f s dw = .ok (some bytes, s', dw') → bytes ≠ [] := by
    intro f s dw bytes s' dw' hh
    rw [loadLoop_eq_gen'] at hh
    exact loadLoopG_some_ne _ _ _ f s dw bytes s' dw' hh
  exact loadG_equiv ign (loadLoop F) loadFuel hL hne loadResize s t h c d hc


/-! ### record extraction respects `ChunkEquiv` -/

/-- results of `ExtractNextRecord` / `ExtractNextChunk` on equivalent chunks -/
def ExtRel : Option (Bytes × Chunk) → Option (Bytes × Chunk) → Prop
  | none, none => True
  | some (b1, c1), some (b2, c2) => b1 = b2 ∧ ChunkEquiv c1 c2
  | _, _ => False

/-- an extraction function respects chunk equivalence, returns "no record" on an exhausted chunk and only then -/
structure ExtOK (ext : Chunk → Except Err (Option (Bytes × Chunk))) : Prop where
  resp : ∀ c d, ChunkEquiv c d → ERel false ExtRel (ext c) (ext d)
  none_iff : ∀ c, ext c = .ok none ↔ c.rest = []

/-- A format respects chunk equivalence if `extractNext` does -/
def ExtractRespects (F : Fmt) : Prop :=
  ∀ c d, ChunkEquiv c d →
    match F.extractNext c, F.extractNext d with
    | .ok none, .ok none => True
    | .ok (some (b1, c1)), .ok (some (b2, d1)) => b1 = b2 ∧ ChunkEquiv c1 d1
    | .error e1, .error e2 => e1 = e2
    | _, _ => False

/-- `extractNext` returns "no record" exactly on an exhausted chunk (needed for the wrapper, where an
allocated-but-exhausted chunk is identified with no chunk) -/
def ExtractNoneIff (F : Fmt) : Prop := ∀ c, F.extractNext c = .ok none ↔ c.rest = []

namespace CleanAux

theorem extRel_of_respects (F : Fmt) (hF : ExtractRespects F) (c d : Chunk) (h : ChunkEquiv c d) :
    ERel false ExtRel (F.extractNext c) (F.extractNext d) := by
  have := hF c d h
  generalize F.extractNext c = x at this ⊢
  generalize F.extractNext d = y at this ⊢
  cases x with
  | error e1 =>
    cases y with
    | error e2 => simp only [] at this; exact Or.inl this
    | ok b => cases this
  | ok a =>
    cases y with
    | error e2 => cases a <;> cases this
    | ok b =>
      cases a with
      | none => cases b with
        | none => trivial
        | some q => cases this
      | some p => cases b with
        | none => cases this
        | some q => exact this

/-! ### `nextLoop` -/

/-- `nextLoop` with `load F` abstracted -/
def nextLoopG (ld : Base → Chunk → Except Err (Bool × Base × Chunk))
    (ext : Chunk → Except Err (Option (Bytes × Chunk))) : Nat → Base → Except Err (Option Bytes × Base)
  | 0, _ => .error .fuel
  | fuel + 1, s =>
    nextLoop.match_3 (fun _ => Except Err (Option Bytes × Base)) (ext s.chunk) (fun e => .error e)
      (fun b c => .ok (some b, { s with chunk := c }))
      (fun _ => nextLoop.match_1 (fun _ => Except Err (Option Bytes × Base)) (ld s s.chunk)
        (fun e => .error e)
        (fun s c => .ok (none, { s with chunk := c }))
        (fun s c => nextLoopG ld ext fuel { s with chunk := c }))

theorem nextLoopG_succ (ld : Base → Chunk → Except Err (Bool × Base × Chunk))
    (ext : Chunk → Except Err (Option (Bytes × Chunk))) (fuel : Nat) (s : Base) :
    nextLoopG ld ext (fuel + 1) s =
      match ext s.chunk with
      | .error e => .error e
      | .ok (some (b, c)) => .ok (some b, { s with chunk := c })
      | .ok none =>
        match ld s s.chunk with
        | .error e => .error e
        | .ok (false, s, c) => .ok (none, { s with chunk := c })
        | .ok (true, s, c) => nextLoopG ld ext fuel { s with chunk := c } := by
  rw [nextLoopG]; rfl

attribute [local irreducible] load in
theorem nextLoop_eq_gen (F : Fmt) (ext : Chunk → Except Err (Option (Bytes × Chunk))) :
    nextLoop F ext = nextLoopG (load F) ext := by
  delta nextLoop nextLoopG
  rfl

theorem nextLoopG_equiv (ign : Bool) (ld : Base → Chunk → Except Err (Bool × Base × Chunk))
    (hld : ∀ s t c d, EquivG ign s t → ChunkEquiv c d → ERel ign (LoadRel ign) (ld s c) (ld t d))
    (ext : Chunk → Except Err (Option (Bytes × Chunk)))
    (hext : ∀ c d, ChunkEquiv c d → ERel false ExtRel (ext c) (ext d)) :
    ∀ (fuel : Nat) (s t : Base), EquivG ign s t →
      ERel ign (fun a b => a.1 = b.1 ∧ EquivG ign a.2 b.2) (nextLoopG ld ext fuel s) (nextLoopG ld ext fuel t) := by
  intro fuel
  induction fuel with
  | zero => intro s t _; exact ERel.err _
  | succ fuel ih =>
    intro s t h
    have hc : ChunkEquiv s.chunk t.chunk := h.1.2.2.2.2.2.1
    rw [nextLoopG_succ, nextLoopG_succ]
    rcases ERel.cases (hext _ _ hc) with ⟨a, b, hx, hy, hR⟩ | ⟨e, hx, hy⟩ | ⟨hi, _⟩ | ⟨hi, _⟩
    · rw [hx, hy]
      cases a with
      | some p =>
        cases b with
        | none => cases hR
        | some q =>
          obtain ⟨b1, c1⟩ := p
          obtain ⟨b2, c2⟩ := q
          exact ⟨congrArg some hR.1, EquivG.setChunk h hR.2⟩
      | none =>
        cases b with
        | some q => cases hR
        | none =>
          simp only []
          rcases ERel.cases (hld s t _ _ h hc) with ⟨a, b, hx, hy, hR⟩ | ⟨e, hx, hy⟩ | ⟨hi, hx⟩ | ⟨hi, hy⟩
          · rw [hx, hy]
            obtain ⟨ok1, s1, c1⟩ := a
            obtain ⟨ok2, t1, d1⟩ := b
            obtain ⟨hok, hst, hcd, _⟩ := hR
            simp only [] at hok hst hcd
            subst hok
            cases ok1 with
            | false => exact ⟨rfl, EquivG.setChunk hst hcd⟩
            | true => exact ih _ _ (EquivG.setChunk hst hcd)
          · rw [hx, hy]; exact ERel.err _
          · rw [hx]; exact ERel.fuel_left hi _
          · rw [hy]; exact ERel.fuel_right hi _
    · rw [hx, hy]; exact ERel.err _
    · cases hi
    · cases hi

end CleanAux
open CleanAux

attribute [local irreducible] load in
theorem nextLoop_equivG (ign : Bool) (F : Fmt) (ext : Chunk → Except Err (Option (Bytes × Chunk)))
    (hext : ∀ c d, ChunkEquiv c d → ERel false ExtRel (ext c) (ext d)) (fuel : Nat) (s t : Base)
    (h : EquivG ign s t) :
    ERel ign (fun a b => a.1 = b.1 ∧ EquivG ign a.2 b.2) (nextLoop F ext fuel s) (nextLoop F ext fuel t) := by
  rw [nextLoop_eq_gen]
  exact nextLoopG_equiv ign (load F) (fun s t c d h hc => load_equivG ign F s t h c d hc) ext hext fuel s t h


namespace CleanAux

theorem chunk_eq_of_equiv {c d : Chunk} (h : ChunkEquiv c d) (hne : c.rest ≠ []) : c = d := by
  obtain ⟨h1, h2⟩ := h
  obtain ⟨h3, h4⟩ := h2 hne
  cases c; cases d
  simp only [] at h1 h3 h4
  subst h1 h3 h4
  rfl

theorem extRel_refl (o : Option (Bytes × Chunk)) : ExtRel o o := by
  cases o with
  | none => trivial
  | some p => exact ⟨rfl, chunkEquiv_refl _⟩

/-- "no record exactly on an exhausted chunk" already implies that equivalent chunks are treated alike -/
theorem extOK_of_none_iff (ext : Chunk → Except Err (Option (Bytes × Chunk)))
    (h : ∀ c, ext c = .ok none ↔ c.rest = []) : ExtOK ext := by
  refine ⟨?_, h⟩
  intro c d hcd
  by_cases hne : c.rest = []
  · have hd : d.rest = [] := by rw [← hcd.1]; exact hne
    rw [(h c).2 hne, (h d).2 hd]
    trivial
  · rw [chunk_eq_of_equiv hcd hne]
    cases ext d with
    | error e => exact ERel.err _
    | ok o => exact extRel_refl o

theorem extractChunk_none_iff (c : Chunk) :
    (Except.ok (extractChunk c) : Except Err _) = .ok none ↔ c.rest = [] := by
  unfold extractChunk
  cases hr : c.rest with
  | nil => simp
  | cons x xs => simp

theorem textExtract_none_iff (c : Chunk) : textExtract c = .ok none ↔ c.rest = [] := by
  unfold textExtract
  cases hr : c.rest with
  | nil => simp
  | cons x xs =>
    simp only [List.isEmpty_cons, Bool.false_eq_true, if_false]
    constructor
    · intro h
      split at h
      · split at h <;> cases h
      · cases h
    · intro h; cases h

theorem recExtractMore_ne_none : ∀ (fuel : Nat) (out : Bytes) (c : Chunk) (cflag : Nat),
    recExtractMore fuel out c cflag ≠ .ok none := by
  intro fuel
  induction fuel with
  | zero => intro out c cflag h; simp [recExtractMore] at h
  | succ fuel ih =>
    intro out c cflag h
    rw [recExtractMore] at h
    split at h
    · split at h
      · split at h
        · simp only [] at h
          split at h
          · cases h
          · exact ih _ _ _ h
        · cases h
      · cases h
    · cases h

theorem recExtract_none_iff (c : Chunk) : recExtract c = .ok none ↔ c.rest = [] := by
  unfold recExtract
  cases hr : c.rest with
  | nil => simp
  | cons x xs =>
    simp only [List.isEmpty_cons, Bool.false_eq_true, if_false]
    constructor
    · intro h
      split at h
      · cases h
      · split at h
        · cases h
        · split at h
          · split at h
            · cases h
            · split at h
              · cases h
              · split at h
                · exact absurd h (recExtractMore_ne_none _ _ _ _)
                · cases h
          · cases h
    · intro h; cases h

end CleanAux
open CleanAux

theorem extOK_extractChunk : ExtOK (fun c => .ok (extractChunk c)) :=
  extOK_of_none_iff _ extractChunk_none_iff

theorem extractNoneIff_text : ExtractNoneIff Fmt.text := textExtract_none_iff
theorem extractNoneIff_recordio : ExtractNoneIff Fmt.recordio := recExtract_none_iff

theorem extractRespects_of_noneIff (F : Fmt) (h : ExtractNoneIff F) : ExtractRespects F := by
  intro c d hcd
  have := (extOK_of_none_iff F.extractNext h).resp c d hcd
  generalize F.extractNext c = x at this ⊢
  generalize F.extractNext d = y at this ⊢
  cases x with
  | error e1 =>
    cases y with
    | error e2 => simpa [ERel] using this
    | ok b => simp [ERel] at this
  | ok a =>
    cases y with
    | error e2 => simp [ERel] at this
    | ok b =>
      cases a with
      | none => cases b with
        | none => trivial
        | some q => cases this
      | some p => cases b with
        | none => cases this
        | some q => exact this

theorem extractRespects_text : ExtractRespects Fmt.text :=
  extractRespects_of_noneIff _ extractNoneIff_text

theorem extractRespects_recordio : ExtractRespects Fmt.recordio :=
  extractRespects_of_noneIff _ extractNoneIff_recordio


/-! ### the `SingleThreadedInputSplit` wrapper -/

/-- results of `wrapProduce` on equivalent inputs: the freshly loaded chunk is always allocated -/
def WPRel (ign : Bool) (a b : Bool × Base × Wrap) : Prop :=
  a.1 = b.1 ∧ EquivG ign a.2.1 b.2.1 ∧ a.2.2.bufWords = b.2.2.bufWords ∧
  ∃ c d, a.2.2.chunk = some c ∧ b.2.2.chunk = some d ∧ ChunkEquiv c d ∧ (a.1 = true → c = d ∧ c.rest ≠ [])

/-- results of `wrapNext` / `wrapLoop` on equivalent inputs -/
def WNRel (ign : Bool) (a b : Option Bytes × Base × Wrap) : Prop :=
  a.1 = b.1 ∧ EquivG ign a.2.1 b.2.1 ∧ WrapEquiv (some a.2.2) (some b.2.2)

namespace CleanAux

/-- the chunk `NextProducer` loads into -/
def wpChunk (w : Wrap) : Chunk :=
  wrapProduce.match_1 (fun _ => Chunk) w.chunk (fun _ => ({ dataWords := chunkInitWords w.bufWords } : Chunk))
    (fun c => c)

/-- `wrapProduce` with `load F` abstracted -/
def wrapProduceG (ld : Base → Chunk → Except Err (Bool × Base × Chunk)) (b : Base) (w : Wrap) :
    Except Err (Bool × Base × Wrap) :=
  let c := wrapProduce.match_1 (fun _ => Chunk) w.chunk
    (fun _ => ({ dataWords := chunkInitWords w.bufWords } : Chunk)) (fun c => c)
  wrapProduce.match_3 (fun _ => Except Err (Bool × Base × Wrap)) (ld b c) (fun e => .error e)
    (fun ok b c => .ok (ok, b, { w with chunk := some c }))

attribute [local irreducible] load in
theorem wrapProduce_eq_gen (F : Fmt) : wrapProduce F = wrapProduceG (load F) := by
  delta wrapProduce wrapProduceG
  rfl

theorem wpChunk_equiv (v w : Wrap) (h : WrapEquiv (some v) (some w)) : ChunkEquiv (wpChunk v) (wpChunk w) := by
  obtain ⟨_, hch⟩ := h
  unfold wpChunk
  cases hv : v.chunk with
  | none =>
    cases hw : w.chunk with
    | none => exact chunkEquiv_of_empty rfl rfl
    | some d =>
      rw [hv, hw] at hch
      exact chunkEquiv_of_empty rfl hch
  | some c =>
    cases hw : w.chunk with
    | none =>
      rw [hv, hw] at hch
      exact chunkEquiv_of_empty hch rfl
    | some d =>
      rw [hv, hw] at hch
      exact hch

theorem wrapProduceG_equiv (ign : Bool) (ld : Base → Chunk → Except Err (Bool × Base × Chunk))
    (hld : ∀ s t c d, EquivG ign s t → ChunkEquiv c d → ERel ign (LoadRel ign) (ld s c) (ld t d))
    (b b' : Base) (hb : EquivG ign b b') (v w : Wrap) (hw : WrapEquiv (some v) (some w)) :
    ERel ign (WPRel ign) (wrapProduceG ld b v) (wrapProduceG ld b' w) := by
  unfold wrapProduceG
  simp only []
  have hc := wpChunk_equiv v w hw
  unfold wpChunk at hc
  rcases ERel.cases (hld b b' _ _ hb hc) with
    ⟨x, y, hx, hy, hR⟩ | ⟨e, hx, hy⟩ | ⟨hi, hx⟩ | ⟨hi, hy⟩
  · rw [hx, hy]
    obtain ⟨ok1, b1, c1⟩ := x
    obtain ⟨ok2, b2, c2⟩ := y
    obtain ⟨hok, hst, hcd, hex⟩ := hR
    exact ⟨hok, hst, hw.1, c1, c2, rfl, rfl, hcd, hex⟩
  · rw [hx, hy]; exact ERel.err _
  · rw [hx]; exact ERel.fuel_left hi _
  · rw [hy]; exact ERel.fuel_right hi _

/-- `wrapLoop` with `wrapProduce F` abstracted -/
def wrapLoopG (wp : Base → Wrap → Except Err (Bool × Base × Wrap))
    (ext : Chunk → Except Err (Option (Bytes × Chunk))) :
    Nat → Base → Wrap → Chunk → Except Err (Option Bytes × Base × Wrap)
  | 0, _, _, _ => .error .fuel
  | fuel + 1, b, w, c =>
    nextLoop.match_3 (fun _ => Except Err (Option Bytes × Base × Wrap)) (ext c) (fun e => .error e)
      (fun blob c => .ok (some blob, b, { w with chunk := some c }))
      (fun _ => wrapLoop.match_1 (fun _ => Except Err (Option Bytes × Base × Wrap))
        (wp b { w with chunk := none }) (fun e => .error e)
        (fun b w => .ok (none, b, w))
        (fun b w => wrapProduce.match_1 (fun _ => Except Err (Option Bytes × Base × Wrap)) w.chunk
          (fun _ => .error .uninit) (fun c => wrapLoopG wp ext fuel b w c)))

theorem wrapLoopG_succ (wp : Base → Wrap → Except Err (Bool × Base × Wrap))
    (ext : Chunk → Except Err (Option (Bytes × Chunk))) (fuel : Nat) (b : Base) (w : Wrap) (c : Chunk) :
    wrapLoopG wp ext (fuel + 1) b w c =
      match ext c with
      | .error e => .error e
      | .ok (some (blob, c)) => .ok (some blob, b, { w with chunk := some c })
      | .ok none =>
        match wp b { w with chunk := none } with
        | .error e => .error e
        | .ok (false, b, w) => .ok (none, b, w)
        | .ok (true, b, w) =>
          match w.chunk with
          | none => .error .uninit
          | some c => wrapLoopG wp ext fuel b w c := by
  rw [wrapLoopG]; rfl

attribute [local irreducible] wrapProduce in
theorem wrapLoop_eq_gen (F : Fmt) (ext : Chunk → Except Err (Option (Bytes × Chunk))) :
    wrapLoop F ext = wrapLoopG (wrapProduce F) ext := by
  delta wrapLoop wrapLoopG
  rfl

theorem wrapLoopG_equiv (ign : Bool) (wp : Base → Wrap → Except Err (Bool × Base × Wrap))
    (hwp : ∀ b b' v w, EquivG ign b b' → WrapEquiv (some v) (some w) → ERel ign (WPRel ign) (wp b v) (wp b' w))
    (ext : Chunk → Except Err (Option (Bytes × Chunk)))
    (hext : ∀ c d, ChunkEquiv c d → ERel false ExtRel (ext c) (ext d)) :
    ∀ (fuel : Nat) (b b' : Base) (v w : Wrap) (c d : Chunk), EquivG ign b b' → v.bufWords = w.bufWords →
      ChunkEquiv c d →
      ERel ign (WNRel ign) (wrapLoopG wp ext fuel b v c) (wrapLoopG wp ext fuel b' w d) := by
  intro fuel
  induction fuel with
  | zero => intro b b' v w c d _ _ _; exact ERel.err _
  | succ fuel ih =>
    intro b b' v w c d hb hbw hc
    rw [wrapLoopG_succ, wrapLoopG_succ]
    rcases ERel.cases (hext _ _ hc) with ⟨x, y, hx, hy, hR⟩ | ⟨e, hx, hy⟩ | ⟨hi, _⟩ | ⟨hi, _⟩
    · rw [hx, hy]
      cases x with
      | some p =>
        cases y with
        | none => cases hR
        | some q =>
          obtain ⟨b1, c1⟩ := p
          obtain ⟨b2, c2⟩ := q
          exact ⟨congrArg some hR.1, hb, hbw, hR.2⟩
      | none =>
        cases y with
        | some q => cases hR
        | none =>
          simp only []
          rcases ERel.cases (hwp b b' { v with chunk := none } { w with chunk := none } hb ⟨hbw, trivial⟩) with
            ⟨x, y, hx, hy, hR⟩ | ⟨e, hx, hy⟩ | ⟨hi, hx⟩ | ⟨hi, hy⟩
          · rw [hx, hy]
            obtain ⟨ok1, b1, v1⟩ := x
            obtain ⟨ok2, b2, w1⟩ := y
            obtain ⟨hok, hst, hbw1, c1, d1, hv1, hw1, hcd, _⟩ := hR
            simp only [] at hok hst hbw1 hv1 hw1
            subst hok
            cases ok1 with
            | false =>
              refine ⟨rfl, hst, hbw1, ?_⟩
              simp only []
              rw [hv1, hw1]
              exact hcd
            | true =>
              simp only []
              rw [hv1, hw1]
              exact ih b1 b2 v1 w1 c1 d1 hst hbw1 hcd
          · rw [hx, hy]; exact ERel.err _
          · rw [hx]; exact ERel.fuel_left hi _
          · rw [hy]; exact ERel.fuel_right hi _
    · rw [hx, hy]; exact ERel.err _
    · cases hi
    · cases hi

/-- on a non-exhausted chunk the first visit returns: the remaining fuel is irrelevant -/
theorem wrapLoopG_fuel (wp : Base → Wrap → Except Err (Bool × Base × Wrap))
    (ext : Chunk → Except Err (Option (Bytes × Chunk))) (hn : ∀ c, ext c = .ok none → c.rest = [])
    (f1 f2 : Nat) (b : Base) (w : Wrap) (c : Chunk) (hc : c.rest ≠ []) :
    wrapLoopG wp ext (f1 + 1) b w c = wrapLoopG wp ext (f2 + 1) b w c := by
  rw [wrapLoopG_succ, wrapLoopG_succ]
  cases hx : ext c with
  | error e => rfl
  | ok o =>
    cases o with
    | none => exact absurd (hn c hx) hc
    | some p => rfl

end CleanAux
open CleanAux

attribute [local irreducible] load in
theorem wrapProduce_equivG (ign : Bool) (F : Fmt) (b b' : Base) (hb : EquivG ign b b') (v w : Wrap)
    (hw : WrapEquiv (some v) (some w)) :
    ERel ign (WPRel ign) (wrapProduce F b v) (wrapProduce F b' w) := by
  rw [wrapProduce_eq_gen]
  exact wrapProduceG_equiv ign (load F) (fun s t c d h hc => load_equivG ign F s t h c d hc) b b' hb v w hw


namespace CleanAux

/-- `wrapNext` with `wrapProduce F` and `wrapLoop F ext` abstracted -/
def wrapNextG (wp : Base → Wrap → Except Err (Bool × Base × Wrap))
    (wl : Nat → Base → Wrap → Chunk → Except Err (Option Bytes × Base × Wrap)) (b : Base) (w : Wrap) :
    Except Err (Option Bytes × Base × Wrap) :=
  wrapNext.match_1 (fun _ => Except Err (Option Bytes × Base × Wrap)) w.chunk (fun c => wl 3 b w c) fun _ =>
    wrapLoop.match_1 (fun _ => Except Err (Option Bytes × Base × Wrap)) (wp b w) (fun e => .error e)
      (fun b w => .ok (none, b, w)) fun b w =>
      wrapProduce.match_1 (fun _ => Except Err (Option Bytes × Base × Wrap)) w.chunk
        (fun _ => .error .uninit) fun c => wl 3 b w c

attribute [local irreducible] wrapProduce wrapLoop in
theorem wrapNext_eq_gen (F : Fmt) (ext : Chunk → Except Err (Option (Bytes × Chunk))) :
    wrapNext F ext = wrapNextG (wrapProduce F) (wrapLoop F ext) := by
  delta wrapNext wrapNextG
  rfl

theorem wrapNextG_unfold (wp : Base → Wrap → Except Err (Bool × Base × Wrap))
    (wl : Nat → Base → Wrap → Chunk → Except Err (Option Bytes × Base × Wrap)) (b : Base) (w : Wrap) :
    wrapNextG wp wl b w =
      match w.chunk with
      | some c => wl 3 b w c
      | none =>
        match wp b w with
        | .error e => .error e
        | .ok (false, b, w) => .ok (none, b, w)
        | .ok (true, b, w) =>
          match w.chunk with
          | none => .error .uninit
          | some c => wl 3 b w c := by
  unfold wrapNextG; rfl

/-- after a successful production both sides continue in `wrapLoopG`, possibly with different fuel -/
theorem wrapNextG_tail (ign : Bool) (wp : Base → Wrap → Except Err (Bool × Base × Wrap))
    (hwp : ∀ b b' v w, EquivG ign b b' → WrapEquiv (some v) (some w) → ERel ign (WPRel ign) (wp b v) (wp b' w))
    (ext : Chunk → Except Err (Option (Bytes × Chunk))) (hE : ExtOK ext)
    (f1 f2 : Nat) (b b' : Base) (hb : EquivG ign b b') (v w : Wrap) (hw : WrapEquiv (some v) (some w)) :
    ERel ign (WNRel ign)
      (match wp b v with
        | .error e => .error e
        | .ok (false, b, w) => .ok (none, b, w)
        | .ok (true, b, w) =>
          match w.chunk with
          | none => .error .uninit
          | some c => wrapLoopG wp ext (f1 + 1) b w c)
      (match wp b' w with
        | .error e => .error e
        | .ok (false, b, w) => .ok (none, b, w)
        | .ok (true, b, w) =>
          match w.chunk with
          | none => .error .uninit
          | some c => wrapLoopG wp ext (f2 + 1) b w c) := by
  rcases ERel.cases (hwp b b' v w hb hw) with ⟨x, y, hx, hy, hR⟩ | ⟨e, hx, hy⟩ | ⟨hi, hx⟩ | ⟨hi, hy⟩
  · rw [hx, hy]
    obtain ⟨ok1, b1, v1⟩ := x
    obtain ⟨ok2, b2, w1⟩ := y
    obtain ⟨hok, hst, hbw1, c1, d1, hv1, hw1, hcd, hex⟩ := hR
    simp only [] at hok hst hbw1 hv1 hw1 hex
    subst hok
    cases ok1 with
    | false =>
      refine ⟨rfl, hst, hbw1, ?_⟩
      simp only []
      rw [hv1, hw1]
      exact hcd
    | true =>
      simp only []
      rw [hv1, hw1]
      simp only []
      obtain ⟨hcd', hne⟩ := hex rfl
      rw [wrapLoopG_fuel wp ext (fun c h => (hE.none_iff c).1 h) f1 f2 b1 v1 c1 hne]
      exact wrapLoopG_equiv ign wp hwp ext hE.resp (f2 + 1) b1 b2 v1 w1 c1 d1 hst hbw1 hcd
  · rw [hx, hy]; exact ERel.err _
  · rw [hx]; exact ERel.fuel_left hi _
  · rw [hy]; exact ERel.fuel_right hi _

theorem wrapNextG_equiv (ign : Bool) (wp : Base → Wrap → Except Err (Bool × Base × Wrap))
    (hwp : ∀ b b' v w, EquivG ign b b' → WrapEquiv (some v) (some w) → ERel ign (WPRel ign) (wp b v) (wp b' w))
    (ext : Chunk → Except Err (Option (Bytes × Chunk))) (hE : ExtOK ext)
    (b b' : Base) (hb : EquivG ign b b') (v w : Wrap) (hw : WrapEquiv (some v) (some w)) :
    ERel ign (WNRel ign) (wrapNextG wp (wrapLoopG wp ext) b v) (wrapNextG wp (wrapLoopG wp ext) b' w) := by
  rw [wrapNextG_unfold, wrapNextG_unfold]
  have hw' := hw
  obtain ⟨hbw, hch⟩ := hw'
  cases hv : v.chunk with
  | some c =>
    cases hwc : w.chunk with
    | some d =>
      rw [hv, hwc] at hch
      exact wrapLoopG_equiv ign wp hwp ext hE.resp 3 b b' v w c d hb hbw hch
    | none =>
      -- an allocated but exhausted chunk on the left, none on the right
      rw [hv, hwc] at hch
      simp only [] at hch ⊢
      rw [wrapLoopG_succ, (hE.none_iff c).2 hch]
      simp only []
      have hw2 : WrapEquiv (some { v with chunk := none }) (some w) := by
        refine ⟨hbw, ?_⟩
        simp only []
        rw [hwc]
        trivial
      exact wrapNextG_tail ign wp hwp ext hE 1 2 b b' hb _ w hw2
  | none =>
    cases hwc : w.chunk with
    | none =>
      simp only []
      exact wrapNextG_tail ign wp hwp ext hE 2 2 b b' hb v w hw
    | some d =>
      rw [hv, hwc] at hch
      simp only [] at hch ⊢
      rw [wrapLoopG_succ wp ext 2 b' w d, (hE.none_iff d).2 hch]
      simp only []
      have hw2 : WrapEquiv (some v) (some { w with chunk := none }) := by
        refine ⟨hbw, ?_⟩
        simp only []
        rw [hv]
        trivial
      exact wrapNextG_tail ign wp hwp ext hE 2 1 b b' hb v _ hw2

end CleanAux
open CleanAux

attribute [local irreducible] wrapProduce wrapLoop in
theorem wrapNext_equivG (ign : Bool) (F : Fmt) (ext : Chunk → Except Err (Option (Bytes × Chunk)))
    (hE : ExtOK ext) (b b' : Base) (hb : EquivG ign b b') (v w : Wrap) (hw : WrapEquiv (some v) (some w)) :
    ERel ign (WNRel ign) (wrapNext F ext b v) (wrapNext F ext b' w) := by
  rw [wrapNext_eq_gen, wrapLoop_eq_gen]
  exact wrapNextG_equiv ign (wrapProduce F) (fun b b' v w hb hw => wrapProduce_equivG ign F b b' hb v w hw)
    ext hE b b' hb v w hw


/-! ### `step` and `drain` -/

/-- `StEquiv` with equal `offCurr` in the strict mode -/
def StEquivG (ign : Bool) (s t : St) : Prop := EquivG ign s.base t.base ∧ WrapEquiv s.wrap t.wrap

/-- outputs agree; with `ign = true` a `fuel` outcome on either side is a wildcard -/
def OutRel (ign : Bool) (o1 o2 : Out) : Prop :=
  o1 = o2 ∨ (ign = true ∧ (o1 = .err .fuel ∨ o2 = .err .fuel))

/-- results of one operation on equivalent objects: related outputs, and equivalent successor states
unless an abnormal outcome was reported (the object is not used any further then) -/
def StepRel (ign : Bool) (a b : St × Out) : Prop :=
  OutRel ign a.2 b.2 ∧ ((∀ e, a.2 ≠ .err e) → (∀ e, b.2 ≠ .err e) → StEquivG ign a.1 b.1)

namespace CleanAux

theorem EquivG.weaken {ign : Bool} {s t : Base} (h : EquivG false s t) : EquivG ign s t :=
  ⟨h.1, fun _ => h.2 rfl⟩

theorem StepRel.err (ign : Bool) (s t : St) (e : Err) : StepRel ign (s, .err e) (t, .err e) :=
  ⟨Or.inl rfl, fun h _ => absurd rfl (h e)⟩

theorem StepRel.fuelL {ign : Bool} (hi : ign = true) (s : St) (b : St × Out) :
    StepRel ign (s, .err .fuel) b :=
  ⟨Or.inr ⟨hi, Or.inl rfl⟩, fun h _ => absurd rfl (h .fuel)⟩

theorem StepRel.fuelR {ign : Bool} (hi : ign = true) (a : St × Out) (t : St) :
    StepRel ign a (t, .err .fuel) :=
  ⟨Or.inr ⟨hi, Or.inr rfl⟩, fun _ h => absurd rfl (h .fuel)⟩

/-- `step` with the operations of the two objects abstracted -/
def stepG (nr nc : Base → Except Err (Option Bytes × Base))
    (wn1 wn2 : Base → Wrap → Except Err (Option Bytes × Base × Wrap))
    (bf : Base → Except Err Base) (rp : Base → Nat → Nat → Except Err Base) (s : St) (x : Op) : St × Out :=
  instReprOp.repr.match_1 (fun _ => St × Out) x
    (fun _ =>
      step.match_5 (fun _ => St × Out) s.wrap
        (fun _ =>
          step.match_1 (fun _ => St × Out) (nr s.base) (fun e => (s, Out.err e)) fun r b =>
            ({ s with base := b }, outOf r))
        fun w =>
        step.match_3 (fun _ => St × Out) (wn1 s.base w) (fun e => (s, Out.err e)) fun r b w =>
          ({ base := b, wrap := some w }, outOf r))
    (fun _ =>
      step.match_5 (fun _ => St × Out) s.wrap
        (fun _ =>
          step.match_1 (fun _ => St × Out) (nc s.base) (fun e => (s, Out.err e)) fun r b =>
            ({ s with base := b }, outOf r))
        fun w =>
        step.match_3 (fun _ => St × Out) (wn2 s.base w) (fun e => (s, Out.err e)) fun r b w =>
          ({ base := b, wrap := some w }, outOf r))
    (fun m =>
      step.match_5 (fun _ => St × Out) s.wrap (fun _ => ({ s with base := hint s.base m }, Out.done)) fun w =>
        ({ s with wrap := some { w with bufWords := hintWords m w.bufWords } }, Out.done))
    (fun _ =>
      mkBase.match_1 (fun _ => St × Out) (bf s.base) (fun e => (s, Out.err e)) fun b =>
        ({ base := b, wrap := s.wrap.map fun w => { w with chunk := none } }, Out.done))
    fun k n =>
    mkBase.match_1 (fun _ => St × Out) (rp s.base k n) (fun e => (s, Out.err e)) fun b =>
      step.match_5 (fun _ => St × Out) s.wrap (fun _ => ({ s with base := b }, Out.done)) fun w =>
        mkBase.match_1 (fun _ => St × Out) (bf b) (fun e => (s, Out.err e)) fun b =>
          ({ base := b, wrap := some { w with chunk := none } }, Out.done)

attribute [local irreducible] nextRecord nextChunk wrapNext beforeFirst resetPartition in
theorem step_eq_gen (F : Fmt) :
    step F = stepG (nextRecord F) (nextChunk F) (wrapNext F F.extractNext)
      (wrapNext F (fun c => .ok (extractChunk c))) beforeFirst (resetPartition F) := by
  delta step stepG
  rfl

theorem outOf_ne_err (r : Option Bytes) (e : Err) : outOf r ≠ .err e := by
  cases r <;> simp [outOf]


theorem EquivG.hint {ign : Bool} {s t : Base} (h : EquivG ign s t) (m : Nat) :
    EquivG ign (hint s m) (hint t m) := by
  obtain ⟨⟨h1, h2, h3, h4, h5, h6, h7⟩, h8⟩ := h
  unfold DmlcModel.Split.hint
  exact ⟨⟨h1, h2, h3, h4, congrArg (hintWords m) h5, h6, h7⟩, h8⟩

theorem wrapEquiv_map_clear (a b : Option Wrap) (h : WrapEquiv a b) :
    WrapEquiv (a.map fun w => { w with chunk := none }) (b.map fun w => { w with chunk := none }) := by
  cases a with
  | none =>
    cases b with
    | none => trivial
    | some w => exact False.elim h
  | some v =>
    cases b with
    | none => exact False.elim h
    | some w => exact ⟨h.1, trivial⟩

theorem stepG_equiv (ign : Bool) (nr nc : Base → Except Err (Option Bytes × Base))
    (wn1 wn2 : Base → Wrap → Except Err (Option Bytes × Base × Wrap))
    (bf : Base → Except Err Base) (rp : Base → Nat → Nat → Except Err Base) (s t : St)
    (hnr : ∀ s t, EquivG ign s t → ERel ign (fun a b => a.1 = b.1 ∧ EquivG ign a.2 b.2) (nr s) (nr t))
    (hnc : ∀ s t, EquivG ign s t → ERel ign (fun a b => a.1 = b.1 ∧ EquivG ign a.2 b.2) (nc s) (nc t))
    (hwn1 : ∀ b b' v w, s.wrap = some v → t.wrap = some w → EquivG ign b b' → WrapEquiv (some v) (some w) →
      ERel ign (WNRel ign) (wn1 b v) (wn1 b' w))
    (hwn2 : ∀ b b' v w, s.wrap = some v → t.wrap = some w → EquivG ign b b' → WrapEquiv (some v) (some w) →
      ERel ign (WNRel ign) (wn2 b v) (wn2 b' w))
    (hbf : ∀ s t, EquivG ign s t → ERel false (EquivG ign) (bf s) (bf t))
    (hrp : ∀ s t k n, s.files = t.files → s.bufWords = t.bufWords →
      ERel false (EquivG false) (rp s k n) (rp t k n))
    (h : StEquivG ign s t) (op : Op) :
    StepRel ign (stepG nr nc wn1 wn2 bf rp s op) (stepG nr nc wn1 wn2 bf rp t op) := by
  obtain ⟨hb, hw⟩ := h
  unfold stepG
  cases op with
  | nextRec =>
    simp only []
    cases hs : s.wrap with
    | none =>
      cases ht : t.wrap with
      | some w => rw [hs, ht] at hw; exact False.elim hw
      | none =>
        simp only []
        rcases ERel.cases (hnr _ _ hb) with ⟨x, y, hx, hy, hR⟩ | ⟨e, hx, hy⟩ | ⟨hi, hx⟩ | ⟨hi, hy⟩
        · rw [hx, hy]
          obtain ⟨r1, b1⟩ := x
          obtain ⟨r2, b2⟩ := y
          obtain ⟨hr, hst⟩ := hR
          simp only [] at hr hst
          subst hr
          exact ⟨Or.inl rfl, fun _ _ => ⟨hst, by rw [hs, ht] at hw; exact hw⟩⟩
        · rw [hx, hy]; exact StepRel.err ign s t e
        · rw [hx]; exact StepRel.fuelL hi s _
        · rw [hy]; exact StepRel.fuelR hi _ t
    | some v =>
      cases ht : t.wrap with
      | none => rw [hs, ht] at hw; exact False.elim hw
      | some w =>
        simp only []
        have hw' : WrapEquiv (some v) (some w) := by rw [hs, ht] at hw; exact hw
        rcases ERel.cases (hwn1 _ _ v w hs ht hb hw') with ⟨x, y, hx, hy, hR⟩ | ⟨e, hx, hy⟩ | ⟨hi, hx⟩ | ⟨hi, hy⟩
        · rw [hx, hy]
          obtain ⟨r1, b1, v1⟩ := x
          obtain ⟨r2, b2, w1⟩ := y
          obtain ⟨hr, hst, hwe⟩ := hR
          simp only [] at hr hst hwe
          subst hr
          exact ⟨Or.inl rfl, fun _ _ => ⟨hst, hwe⟩⟩
        · rw [hx, hy]; exact StepRel.err ign s t e
        · rw [hx]; exact StepRel.fuelL hi s _
        · rw [hy]; exact StepRel.fuelR hi _ t
  | nextChunk =>
    simp only []
    cases hs : s.wrap with
    | none =>
      cases ht : t.wrap with
      | some w => rw [hs, ht] at hw; exact False.elim hw
      | none =>
        simp only []
        rcases ERel.cases (hnc _ _ hb) with ⟨x, y, hx, hy, hR⟩ | ⟨e, hx, hy⟩ | ⟨hi, hx⟩ | ⟨hi, hy⟩
        · rw [hx, hy]
          obtain ⟨r1, b1⟩ := x
          obtain ⟨r2, b2⟩ := y
          obtain ⟨hr, hst⟩ := hR
          simp only [] at hr hst
          subst hr
          exact ⟨Or.inl rfl, fun _ _ => ⟨hst, by rw [hs, ht] at hw; exact hw⟩⟩
        · rw [hx, hy]; exact StepRel.err ign s t e
        · rw [hx]; exact StepRel.fuelL hi s _
        · rw [hy]; exact StepRel.fuelR hi _ t
    | some v =>
      cases ht : t.wrap with
      | none => rw [hs, ht] at hw; exact False.elim hw
      | some w =>
        simp only []
        have hw' : WrapEquiv (some v) (some w) := by rw [hs, ht] at hw; exact hw
        rcases ERel.cases (hwn2 _ _ v w hs ht hb hw') with ⟨x, y, hx, hy, hR⟩ | ⟨e, hx, hy⟩ | ⟨hi, hx⟩ | ⟨hi, hy⟩
        · rw [hx, hy]
          obtain ⟨r1, b1, v1⟩ := x
          obtain ⟨r2, b2, w1⟩ := y
          obtain ⟨hr, hst, hwe⟩ := hR
          simp only [] at hr hst hwe
          subst hr
          exact ⟨Or.inl rfl, fun _ _ => ⟨hst, hwe⟩⟩
        · rw [hx, hy]; exact StepRel.err ign s t e
        · rw [hx]; exact StepRel.fuelL hi s _
        · rw [hy]; exact StepRel.fuelR hi _ t
  | hint m =>
    simp only []
    cases hs : s.wrap with
    | none =>
      cases ht : t.wrap with
      | some w => rw [hs, ht] at hw; exact False.elim hw
      | none => exact ⟨Or.inl rfl, fun _ _ => ⟨EquivG.hint hb m, by rw [hs, ht] at hw; exact hw⟩⟩
    | some v =>
      cases ht : t.wrap with
      | none => rw [hs, ht] at hw; exact False.elim hw
      | some w =>
        have hw' : WrapEquiv (some v) (some w) := by rw [hs, ht] at hw; exact hw
        exact ⟨Or.inl rfl, fun _ _ => ⟨hb, congrArg (hintWords m) hw'.1, hw'.2⟩⟩
  | beforeFirst =>
    simp only []
    rcases ERel.cases (hbf _ _ hb) with ⟨x, y, hx, hy, hR⟩ | ⟨e, hx, hy⟩ | ⟨hi, _⟩ | ⟨hi, _⟩
    · rw [hx, hy]
      exact ⟨Or.inl rfl, fun _ _ => ⟨hR, wrapEquiv_map_clear _ _ hw⟩⟩
    · rw [hx, hy]; exact StepRel.err ign s t e
    · cases hi
    · cases hi
  | reset k n =>
    simp only []
    rcases ERel.cases (hrp _ _ k n hb.1.1 hb.1.2.2.2.2.1) with ⟨x, y, hx, hy, hR⟩ | ⟨e, hx, hy⟩ | ⟨hi, _⟩ | ⟨hi, _⟩
    · rw [hx, hy]
      simp only []
      cases hs : s.wrap with
      | none =>
        cases ht : t.wrap with
        | some w => rw [hs, ht] at hw; exact False.elim hw
        | none => exact ⟨Or.inl rfl, fun _ _ => ⟨EquivG.weaken hR, by rw [hs, ht] at hw; exact hw⟩⟩
      | some v =>
        cases ht : t.wrap with
        | none => rw [hs, ht] at hw; exact False.elim hw
        | some w =>
          simp only []
          have hw' : WrapEquiv (some v) (some w) := by rw [hs, ht] at hw; exact hw
          rcases ERel.cases (hbf x y (EquivG.weaken hR)) with ⟨x', y', hx', hy', hR'⟩ | ⟨e, hx', hy'⟩ | ⟨hi, _⟩ | ⟨hi, _⟩
          · rw [hx', hy']
            exact ⟨Or.inl rfl, fun _ _ => ⟨hR', hw'.1, trivial⟩⟩
          · rw [hx', hy']; exact StepRel.err ign s t e
          · cases hi
          · cases hi
    · rw [hx, hy]; exact StepRel.err ign s t e
    · cases hi
    · cases hi


/-! ### `drain` -/

/-- `drainGo` with `step F` abstracted -/
def drainGoG (st : St → Op → St × Out) (pick : Nat → Bool) :
    Nat → Nat → St → List Bytes → St × Except Err (List Bytes)
  | 0, _, s, _ => (s, .error .fuel)
  | fuel + 1, i, s, acc =>
    drainGo.match_1 (fun _ => St × Except Err (List Bytes))
      (st s (if pick i then .nextRec else .nextChunk))
      (fun s b => drainGoG st pick fuel (i + 1) s (acc ++ [b])) (fun s => (s, .ok acc))
      (fun s e => (s, .error e)) (fun s => (s, .error .fuel))

theorem drainGoG_succ (st : St → Op → St × Out) (pick : Nat → Bool) (fuel i : Nat) (s : St)
    (acc : List Bytes) :
    drainGoG st pick (fuel + 1) i s acc =
      match st s (if pick i then .nextRec else .nextChunk) with
      | (s, .blob b) => drainGoG st pick fuel (i + 1) s (acc ++ [b])
      | (s, .eof) => (s, .ok acc)
      | (s, .err e) => (s, .error e)
      | (s, .done) => (s, .error .fuel) := by
  rw [drainGoG]; rfl

attribute [local irreducible] step in
theorem drainGo_eq_gen (F : Fmt) (pick : Nat → Bool) : drainGo F pick = drainGoG (step F) pick := by
  delta drainGo drainGoG
  rfl

theorem drainGoG_equiv (ign : Bool) (st : St → Op → St × Out)
    (hst : ∀ s t op, StEquivG ign s t → StepRel ign (st s op) (st t op)) (pick : Nat → Bool) :
    ∀ (fuel i : Nat) (s t : St) (acc : List Bytes), StEquivG ign s t →
      ERel ign (fun a b => a = b) (drainGoG st pick fuel i s acc).2 (drainGoG st pick fuel i t acc).2 := by
  intro fuel
  induction fuel with
  | zero => intro i s t acc _; exact ERel.err _
  | succ fuel ih =>
    intro i s t acc h
    rw [drainGoG_succ, drainGoG_succ]
    have hs := hst s t (if pick i then .nextRec else .nextChunk) h
    generalize st s (if pick i then .nextRec else .nextChunk) = A at hs ⊢
    generalize st t (if pick i then .nextRec else .nextChunk) = B at hs ⊢
    obtain ⟨s1, o1⟩ := A
    obtain ⟨t1, o2⟩ := B
    obtain ⟨ho, hstate⟩ := hs
    simp only [] at ho hstate
    rcases ho with heq | ⟨hi, hl | hr⟩
    · subst heq
      cases o1 with
      | blob b =>
        simp only []
        exact ih (i + 1) s1 t1 (acc ++ [b]) (hstate (fun e h => by cases h) (fun e h => by cases h))
      | eof => rfl
      | err e => exact ERel.err _
      | done => exact ERel.err _
    · subst hl
      exact ERel.fuel_left hi _
    · subst hr
      exact ERel.fuel_right hi _

theorem drainFuel_eq (s t : St) (h : StEquiv s t) : drainFuel s = drainFuel t := by
  obtain ⟨⟨h1, _, _, h4, _, h6, _⟩, hw⟩ := h
  obtain ⟨sb, sw⟩ := s
  obtain ⟨tb, tw⟩ := t
  simp only [] at h1 h4 h6 hw
  unfold drainFuel
  simp only []
  rw [h1, h4, h6.1]
  cases sw with
  | none =>
    cases tw with
    | none => rfl
    | some w => exact False.elim hw
  | some v =>
    cases tw with
    | none => exact False.elim hw
    | some w =>
      obtain ⟨vc, vb⟩ := v
      obtain ⟨wc, wb⟩ := w
      obtain ⟨_, hch⟩ := hw
      simp only [] at hch
      cases vc with
      | none =>
        cases wc with
        | none => rfl
        | some d => simp only [] at hch ⊢; rw [hch]; rfl
      | some c =>
        cases wc with
        | none => simp only [] at hch ⊢; rw [hch]; rfl
        | some d => simp only [] at hch ⊢; rw [hch.1]

end CleanAux
open CleanAux

/-! ### the statements for the model functions -/

attribute [local irreducible] nextLoop in
theorem nextRecord_equivG (ign : Bool) (F : Fmt)
    (hext : ∀ c d, ChunkEquiv c d → ERel false ExtRel (F.extractNext c) (F.extractNext d)) (s t : Base)
    (h : EquivG ign s t) :
    ERel ign (fun a b => a.1 = b.1 ∧ EquivG ign a.2 b.2) (nextRecord F s) (nextRecord F t) := by
  unfold nextRecord
  exact nextLoop_equivG ign F _ hext 3 s t h

attribute [local irreducible] nextLoop in
theorem nextChunk_equivG (ign : Bool) (F : Fmt) (s t : Base) (h : EquivG ign s t) :
    ERel ign (fun a b => a.1 = b.1 ∧ EquivG ign a.2 b.2) (nextChunk F s) (nextChunk F t) := by
  unfold nextChunk
  exact nextLoop_equivG ign F _ extOK_extractChunk.resp 3 s t h

/-- one operation on equivalent objects (bare or wrapped), both modes -/
theorem step_equivG (ign : Bool) (F : Fmt) (hN : ExtractNoneIff F) (s t : St) (h : StEquivG ign s t) (op : Op) :
    StepRel ign (step F s op) (step F t op) := by
  have hE : ExtOK F.extractNext := extOK_of_none_iff _ hN
  rw [step_eq_gen]
  exact stepG_equiv ign (nextRecord F) (nextChunk F) (wrapNext F F.extractNext)
    (wrapNext F (fun c => .ok (extractChunk c))) beforeFirst (resetPartition F) s t
    (fun s t h => nextRecord_equivG ign F hE.resp s t h)
    (fun s t h => nextChunk_equivG ign F s t h)
    (fun b b' v w _ _ hb hw => wrapNext_equivG ign F _ hE b b' hb v w hw)
    (fun b b' v w _ _ hb hw => wrapNext_equivG ign F _ extOK_extractChunk b b' hb v w hw)
    (fun s t h => beforeFirst_equivG ign s t h)
    (fun s t k n hf hb => resetPartition_core F s t k n hf hb)
    h op

/-- the bare object needs `ExtractRespects` only -/
theorem step_equivG_bare (ign : Bool) (F : Fmt) (hF : ExtractRespects F) (s t : St) (h : StEquivG ign s t)
    (hs : s.wrap = none) (op : Op) :
    StepRel ign (step F s op) (step F t op) := by
  rw [step_eq_gen]
  exact stepG_equiv ign (nextRecord F) (nextChunk F) (wrapNext F F.extractNext)
    (wrapNext F (fun c => .ok (extractChunk c))) beforeFirst (resetPartition F) s t
    (fun s t h => nextRecord_equivG ign F (extRel_of_respects F hF) s t h)
    (fun s t h => nextChunk_equivG ign F s t h)
    (fun b b' v w hv _ _ _ => by rw [hs] at hv; cases hv)
    (fun b b' v w hv _ _ _ => by rw [hs] at hv; cases hv)
    (fun s t h => beforeFirst_equivG ign s t h)
    (fun s t k n hf hb => resetPartition_core F s t k n hf hb)
    h op

theorem stEquivG_true (s t : St) (h : StEquiv s t) : StEquivG true s t :=
  ⟨⟨h.1, fun hh => by cases hh⟩, h.2⟩

theorem stEquivG_false (s t : St) (h : StEquiv s t) (hc : s.base.offCurr = t.base.offCurr) :
    StEquivG false s t := ⟨⟨h.1, fun _ => hc⟩, h.2⟩

/-- C05 simulation step, any two equivalent objects: unless one side reports the model's iteration bound
(`fuel`, shown unreachable elsewhere), the outputs agree, and after a normal outcome the states are
equivalent again -/
theorem step_equiv (F : Fmt) (hN : ExtractNoneIff F) (s t : St) (h : StEquiv s t) (op : Op) :
    (step F s op).2 = .err .fuel ∨ (step F t op).2 = .err .fuel ∨
    ((step F s op).2 = (step F t op).2 ∧
     ((∀ e, (step F s op).2 ≠ .err e) → StEquiv (step F s op).1 (step F t op).1)) := by
  obtain ⟨ho, hst⟩ := step_equivG true F hN s t (stEquivG_true s t h) op
  rcases ho with heq | ⟨_, hl | hr⟩
  · right; right
    refine ⟨heq, fun hne => ?_⟩
    have := hst hne (by rw [← heq]; exact hne)
    exact ⟨this.1.1, this.2⟩
  · left; exact hl
  · right; left; exact hr

/-- strict version: if the two objects also agree on `offCurr` (true after `resetPartition`, and preserved),
the outputs are equal in every case, including `fuel` -/
theorem step_equiv_strict (F : Fmt) (hN : ExtractNoneIff F) (s t : St) (h : StEquiv s t)
    (hc : s.base.offCurr = t.base.offCurr) (op : Op) :
    (step F s op).2 = (step F t op).2 ∧
    ((∀ e, (step F s op).2 ≠ .err e) →
      StEquiv (step F s op).1 (step F t op).1 ∧ (step F s op).1.base.offCurr = (step F t op).1.base.offCurr) := by
  obtain ⟨ho, hst⟩ := step_equivG false F hN s t (stEquivG_false s t h hc) op
  rcases ho with heq | ⟨hi, _⟩
  · refine ⟨heq, fun hne => ?_⟩
    have := hst hne (by rw [← heq]; exact hne)
    exact ⟨⟨this.1.1, this.2⟩, this.1.2 rfl⟩
  · cases hi

attribute [local irreducible] drainGo step in
theorem drain_equivG (ign : Bool) (F : Fmt) (hN : ExtractNoneIff F) (s t : St) (h : StEquivG ign s t)
    (pick : Nat → Bool) :
    ERel ign (fun a b => a = b) (drain F pick s).2 (drain F pick t).2 := by
  unfold drain
  rw [drainFuel_eq s t ⟨h.1.1, h.2⟩, drainGo_eq_gen]
  exact drainGoG_equiv ign (step F) (fun s t op h => step_equivG ign F hN s t h op) pick _ 0 s t [] h

/-- equivalent objects deliver the same blobs to the end, unless one side reports `fuel` -/
theorem drain_equiv (F : Fmt) (hN : ExtractNoneIff F) (s t : St) (h : StEquiv s t) (pick : Nat → Bool) :
    (drain F pick s).2 = .error .fuel ∨ (drain F pick t).2 = .error .fuel ∨
    (drain F pick s).2 = (drain F pick t).2 := by
  rcases ERel.cases (drain_equivG true F hN s t (stEquivG_true s t h) pick) with
    ⟨a, b, hx, hy, hR⟩ | ⟨e, hx, hy⟩ | ⟨_, hx⟩ | ⟨_, hy⟩
  · right; right; rw [hx, hy, hR]
  · right; right; rw [hx, hy]
  · left; exact hx
  · right; left; exact hy

theorem drain_equiv_strict (F : Fmt) (hN : ExtractNoneIff F) (s t : St) (h : StEquiv s t)
    (hc : s.base.offCurr = t.base.offCurr) (pick : Nat → Bool) :
    (drain F pick s).2 = (drain F pick t).2 := by
  rcases ERel.cases (drain_equivG false F hN s t (stEquivG_false s t h hc) pick) with
    ⟨a, b, hx, hy, hR⟩ | ⟨e, hx, hy⟩ | ⟨hi, _⟩ | ⟨hi, _⟩
  · rw [hx, hy, hR]
  · rw [hx, hy]
  · cases hi
  · cases hi

end DmlcModel.Split
