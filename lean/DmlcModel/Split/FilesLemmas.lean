/-
Lemmas about the file-list construction of `InputSplitBase` (`DmlcModel/Split/Files.lean`):
B. general facts about `initInputFileInfo` / `initOffsets` for any URI, matcher and recursion flag;
C. the bridge `partBlobsUri_eq` from a splitter constructed from URI + file system to the splitter
   constructed from the list of file contents (the object of CoverText / CoverRec);
A. what the file list is for a ';'-list of canonical absolute names (spec-side definitions `CanonName`,
   `FsOk`, `childrenOf`, `expandSpec`, `joinSemi`, `LiteralRx`): A.1-A.6 without recursion
   (`initInputFileInfo_canon`), A.7 recursion over directories without sub-directories, A.8 recursion in
   general, the listed set (`Below`, `descendantsOf`, `expandSpecRec`), A.9 recursion in general over a
   sorted file system, the breadth-first order (`FsSorted`, `filesAt`, `descendantsBfs`, `expandSpecBfs`,
   `initInputFileInfo_canon_rec`).
Core Lean only.
-/
import DmlcModel.Split.Files
import DmlcModel.Split.Spec
import DmlcModel.Split.CoverText
import DmlcModel.Split.CoverRec

namespace DmlcModel.Split
open DmlcModel DmlcModel.Gen.Split

/-! ## B. general facts -/

/-! ### B.1 small list facts -/

theorem find?_fst_mem {β : Type} (fs : List (Name × β)) (nm : Name) (e : Name × β)
    (h : fs.find? (fun e => e.1 == nm) = some e) : e.1 = nm ∧ (nm, e.2) ∈ fs := by
  have h1 := List.find?_some h
  have h2 := List.mem_of_find?_eq_some h
  have h3 : e.1 = nm := by simpa using h1
  refine ⟨h3, ?_⟩
  rw [← h3]
  exact h2

/-- with unique names the content found by name is the content of the entry -/
theorem contentOf_of_mem (fs : FileSys) (hU : fs.Pairwise (fun a b => a.1 ≠ b.1)) (nm : Name) (c : Bytes)
    (h : (nm, c) ∈ fs) : contentOf fs nm = c := by
  induction fs with
  | nil => cases h
  | cons a t ih =>
    rw [List.pairwise_cons] at hU
    unfold contentOf
    rw [List.find?_cons]
    by_cases ha : a.1 = nm
    · have : (a.1 == nm) = true := by simp [ha]
      rw [this]
      rcases List.mem_cons.1 h with h | h
      · rw [← h]
      · exact absurd ha (hU.1 _ h)
    · have : (a.1 == nm) = false := by simp [ha]
      rw [this]
      rcases List.mem_cons.1 h with h | h
      · exact absurd (by rw [← h]) ha
      · exact ih hU.2 h

/-! ### B.2 entries of a directory listing -/

/-- how `MemFS::ListDirectory` classifies one file-system entry relative to the prefix `dir` -/
inductive Ent
  | skip
  | file (i : Info)
  | sub (d : Name)

def classify (dir : Bytes) (e : Name × Bytes) : Ent :=
  if isPrefix dir e.1 then
    match (e.1.drop dir.length).findIdx? (fun b => b == 47) with
    | none => if (e.1.drop dir.length).isEmpty then .skip else .file { name := e.1, size := e.2.length, kind := .file }
    | some i => .sub (e.1.take (dir.length + i))
  else .skip

theorem listGo_cons (dir : Bytes) (e : Name × Bytes) (rest : FileSys) (last : Option Bytes) :
    listGo dir (e :: rest) last =
      match classify dir e with
      | .skip => listGo dir rest last
      | .file i => i :: listGo dir rest last
      | .sub d => if last = some d then listGo dir rest last
                  else { name := d, size := 0, kind := .dir } :: listGo dir rest (some d) := by
  obtain ⟨nm, c⟩ := e
  unfold classify
  rw [listGo]
  by_cases hp : isPrefix dir nm = true
  · simp only [hp, if_true]
    cases hf : (nm.drop dir.length).findIdx? (fun b => b == 47) with
    | none =>
      simp only []
      by_cases ht : (nm.drop dir.length).isEmpty = true
      · simp only [ht, if_true]
      · simp only [ht]; rfl
    | some i => simp only []
  · simp only [hp]; rfl

theorem classify_file_info (dir : Bytes) (e : Name × Bytes) (i : Info) (h : classify dir e = .file i) :
    i = { name := e.1, size := e.2.length, kind := .file } := by
  unfold classify at h
  split at h
  · split at h
    · split at h
      · cases h
      · injection h with h; exact h.symm
    · cases h
  · cases h

/-- every listed entry comes from a file-system entry -/
theorem mem_listGo (dir : Bytes) : ∀ (fs : FileSys) (last : Option Bytes) (i : Info), i ∈ listGo dir fs last →
    ∃ e ∈ fs, classify dir e = .file i ∨ (∃ d, classify dir e = .sub d ∧ i = { name := d, size := 0, kind := .dir }) := by
  intro fs
  induction fs with
  | nil => intro last i h; rw [listGo] at h; cases h
  | cons e rest ih =>
    intro last i h
    rw [listGo_cons] at h
    have lift : ∀ last', i ∈ listGo dir rest last' → ∃ e' ∈ e :: rest, classify dir e' = .file i ∨
        (∃ d, classify dir e' = .sub d ∧ i = { name := d, size := 0, kind := .dir }) := by
      intro last' h'
      obtain ⟨e', he', hc⟩ := ih last' i h'
      exact ⟨e', List.mem_cons_of_mem _ he', hc⟩
    cases hc : classify dir e with
    | skip => rw [hc] at h; exact lift _ h
    | file j =>
      rw [hc] at h
      rcases List.mem_cons.1 h with h | h
      · exact ⟨e, List.mem_cons_self .., Or.inl (by rw [hc, h])⟩
      · exact lift _ h
    | sub d =>
      rw [hc] at h
      simp only [] at h
      split at h
      · exact lift _ h
      · rcases List.mem_cons.1 h with h | h
        · exact ⟨e, List.mem_cons_self .., Or.inr ⟨d, hc, h⟩⟩
        · exact lift _ h

/-- the entries of kind `file` of a (non-recursive) listing are entries of the file system -/
theorem listDirectory_file (fs : FileSys) (nm : Name) (i : Info) (h : i ∈ listDirectory fs nm) (hk : i.kind = .file) :
    ∃ c, (i.name, c) ∈ fs ∧ i.size = c.length := by
  obtain ⟨e, he, hc⟩ := mem_listGo _ fs none i h
  rcases hc with hc | ⟨d, _, hd⟩
  · have := classify_file_info _ e i hc
    subst this
    exact ⟨e.2, he, rfl⟩
  · subst hd; cases hk

theorem listRecGo_file (fs : FileSys) : ∀ (fuel : Nat) (queue : List Name) (out res : List Info),
    listRecGo fs fuel queue out = .ok res →
    ∀ i ∈ res, i ∈ out ∨ (i.kind ≠ .dir ∧ ∃ c, (i.name, c) ∈ fs ∧ i.size = c.length) := by
  intro fuel
  induction fuel with
  | zero => intro queue out res h; rw [listRecGo] at h; cases h
  | succ fuel ih =>
    intro queue out res h i hi
    cases queue with
    | nil =>
      rw [listRecGo] at h
      injection h with h
      subst h
      exact Or.inl hi
    | cons d queue =>
      rw [listRecGo] at h
      rcases ih _ _ _ h i hi with h1 | h1
      · rcases List.mem_append.1 h1 with h2 | h2
        · exact Or.inl h2
        · have h3 := List.mem_filter.1 h2
          have hk : i.kind ≠ .dir := by simpa using h3.2
          have hk' : i.kind = .file := by
            cases hh : i.kind with
            | file => rfl
            | dir => exact absurd hh hk
          exact Or.inr ⟨hk, listDirectory_file fs d i h3.1 hk'⟩
      · exact Or.inr h1

theorem infoOne_entries (fs : FileSys) (rc : Bool) (nm : Name) (a : List Info) (h : infoOne fs rc nm = .ok a) :
    ∀ i ∈ a, i.kind = .file ∧ i.size ≠ 0 ∧ ∃ c, (i.name, c) ∈ fs ∧ i.size = c.length := by
  intro i hi
  unfold infoOne at h
  cases hg : getPathInfo fs nm with
  | none => rw [hg] at h; cases h
  | some info =>
    rw [hg] at h
    simp only [] at h
    by_cases hk : info.kind = .dir
    · rw [if_pos hk] at h
      have keep : ∀ d : Info, iiKeepListed d.size (d.kind == .file) = true → d.kind = .file ∧ d.size ≠ 0 := by
        intro d hd
        unfold iiKeepListed at hd
        simp at hd
        exact ⟨hd.2, hd.1⟩
      cases rc with
      | false =>
        simp only [Bool.false_eq_true, if_false] at h
        injection h with h
        subst h
        have h3 := List.mem_filter.1 hi
        have h4 := keep i h3.2
        exact ⟨h4.1, h4.2, listDirectory_file fs _ i h3.1 h4.1⟩
      | true =>
        simp only [if_true] at h
        cases hl : listDirectoryRecursive fs info.name with
        | error e => rw [hl] at h; cases h
        | ok dfiles =>
          rw [hl] at h
          injection h with h
          subst h
          have h3 := List.mem_filter.1 hi
          have h4 := keep i h3.2
          unfold listDirectoryRecursive at hl
          rcases listRecGo_file fs _ _ _ _ hl i h3.1 with h5 | h5
          · cases h5
          · exact ⟨h4.1, h4.2, h5.2⟩
    · rw [if_neg hk] at h
      injection h with h
      subst h
      unfold getPathInfo at hg
      cases hf : fs.find? (fun e => e.1 == nm) with
      | some e =>
        rw [hf] at hg
        injection hg with hg
        subst hg
        have hm := find?_fst_mem fs nm e hf
        unfold iiKeepFile at hi
        by_cases hs : (e.2.length != 0) = true
        · simp only [] at hi
          rw [if_pos hs] at hi
          have : i = { name := nm, size := e.2.length, kind := .file } := by simpa using hi
          subst this
          exact ⟨rfl, by simpa using hs, e.2, hm.2, rfl⟩
        · simp only [] at hi
          rw [if_neg hs] at hi
          cases hi
      | none =>
        rw [hf] at hg
        simp only [] at hg
        split at hg
        · injection hg with hg
          subst hg
          exact absurd rfl hk
        · cases hg

theorem infoAll_entries (fs : FileSys) (rc : Bool) : ∀ (nms : List Name) (res : List Info), infoAll fs rc nms = .ok res →
    ∀ i ∈ res, i.kind = .file ∧ i.size ≠ 0 ∧ ∃ c, (i.name, c) ∈ fs ∧ i.size = c.length := by
  intro nms
  induction nms with
  | nil => intro res h i hi; rw [infoAll] at h; injection h with h; subst h; cases hi
  | cons nm rest ih =>
    intro res h i hi
    rw [infoAll] at h
    cases h1 : infoOne fs rc nm with
    | error e => rw [h1] at h; cases h
    | ok a =>
      rw [h1] at h
      simp only [] at h
      cases h2 : infoAll fs rc rest with
      | error e => rw [h2] at h; cases h
      | ok b =>
        rw [h2] at h
        injection h with h
        subst h
        rcases List.mem_append.1 hi with hi | hi
        · exact infoOne_entries fs rc nm a h1 i hi
        · exact ih b h2 i hi

theorem initInputFileInfo_ok (rx : Name → Name → Bool) (fs : FileSys) (uri : Bytes) (rc : Bool) (infos : List Info)
    (h : initInputFileInfo rx fs uri rc = .ok infos) :
    infoAll fs rc (convertToURIs rx fs uri) = .ok infos ∧ infos ≠ [] := by
  unfold initInputFileInfo at h
  cases h1 : infoAll fs rc (convertToURIs rx fs uri) with
  | error e => rw [h1] at h; cases h
  | ok files =>
    rw [h1] at h
    simp only [] at h
    split at h
    · cases h
    · rename_i hl
      injection h with h
      subst h
      refine ⟨rfl, ?_⟩
      intro hn
      rw [hn] at hl
      exact hl rfl

/-- the file list `files_` of a successful `InitInputFileInfo` is non-empty and consists of non-empty regular
files of the file system, each with its size -/
theorem initInputFileInfo_entries (rx : Name → Name → Bool) (fs : FileSys) (uri : Bytes) (rc : Bool) (infos : List Info)
    (hU : fs.Pairwise (fun a b => a.1 ≠ b.1)) (h : initInputFileInfo rx fs uri rc = .ok infos) :
    infos ≠ [] ∧ ∀ i ∈ infos, i.kind = .file ∧ i.size ≠ 0 ∧
      (∃ c, (i.name, c) ∈ fs ∧ contentOf fs i.name = c ∧ i.size = c.length) := by
  obtain ⟨h1, h2⟩ := initInputFileInfo_ok rx fs uri rc infos h
  refine ⟨h2, fun i hi => ?_⟩
  obtain ⟨g1, g2, c, g3, g4⟩ := infoAll_entries fs rc _ infos h1 i hi
  exact ⟨g1, g2, c, g3, contentOf_of_mem fs hU _ c g3, g4⟩

/-! ### B.3 the offset vector -/

theorem initOffset_spec (prev size : Nat) (h : prev + size < 2^64) : initOffset prev size = prev + size := by
  unfold initOffset u64
  exact Nat.mod_eq_of_lt h

theorem initOffsets_eq_offsetsFrom_acc (fs : FileSys) : ∀ (infos : List Info) (acc : Nat),
    (∀ i ∈ infos, i.size = (contentOf fs i.name).length) → acc + (infos.map (·.size)).sum < 2^64 →
    initOffsets acc infos = offsetsFrom acc (infos.map (fun i => contentOf fs i.name)) := by
  intro infos
  induction infos with
  | nil => intro acc _ _; rfl
  | cons f t ih =>
    intro acc hsz h
    rw [List.map_cons, List.sum_cons] at h
    rw [initOffsets, List.map_cons, offsetsFrom, initOffset_spec _ _ (by omega),
      ih _ (fun i hi => hsz i (List.mem_cons_of_mem _ hi)) (by omega), hsz f (List.mem_cons_self ..)]

theorem initOffsets_sums_acc : ∀ (infos : List Info) (acc : Nat), acc + (infos.map (·.size)).sum < 2^64 →
    initOffsets acc infos = (List.range (infos.length + 1)).map (fun j => acc + ((infos.take j).map (·.size)).sum) := by
  intro infos
  induction infos with
  | nil => intro acc _; rfl
  | cons f t ih =>
    intro acc h
    rw [List.map_cons, List.sum_cons] at h
    have hr : List.range (t.length + 1 + 1) = 0 :: (List.range (t.length + 1)).map Nat.succ :=
      List.range_succ_eq_map
    rw [List.length_cons, hr, initOffsets, initOffset_spec _ _ (by omega), ih _ (by omega), List.map_cons,
      List.map_map]
    congr 1
    apply List.map_congr_left
    intro j _
    simp only [Function.comp, List.take_succ_cons, List.map_cons, List.sum_cons]
    omega

/-- `file_offset_` is the vector of prefix sums of the listed sizes (no `size_t` wrap-around below 2^64) -/
theorem initOffsets_prefix_sums (infos : List Info) (h : (infos.map (·.size)).sum < 2^64) :
    initOffsets 0 infos = (List.range (infos.length + 1)).map (fun j => ((infos.take j).map (·.size)).sum) := by
  rw [initOffsets_sums_acc infos 0 (by omega)]
  apply List.map_congr_left
  intro j _
  omega

/-- `file_offset_` is the vector the Base model's `filePtrOf` searches -/
theorem initOffsets_eq_offsetsFrom (fs : FileSys) (infos : List Info)
    (hsz : ∀ i ∈ infos, i.size = (contentOf fs i.name).length) (h : (infos.map (·.size)).sum < 2^64) :
    initOffsets 0 infos = offsetsFrom 0 (infos.map (fun i => contentOf fs i.name)) :=
  initOffsets_eq_offsetsFrom_acc fs infos 0 hsz (by omega)

/-! ## C. from URI + file system to the list of file contents -/

/-- the contents of the listed files, in list order: the `files` of the Base model -/
def contentsOf (fs : FileSys) (infos : List Info) : List Bytes := infos.map (fun i => contentOf fs i.name)

/-- blobs delivered by part `k` of `n` of a bare split constructed from a URI over the file system `fs` -/
def partBlobsUri (F : Fmt) (rx : Name → Name → Bool) (fs : FileSys) (uri : Bytes) (rc : Bool) (k n w dw : Nat)
    (pick : Nat → Bool) : Except Err (List Bytes) :=
  match mkStUri F rx fs uri rc k n w false dw with
  | .error e => .error e
  | .ok (_, s) => (drain F pick s).2

theorem partBlobsUri_eq (F : Fmt) (rx : Name → Name → Bool) (fs : FileSys) (uri : Bytes) (rc : Bool) (infos : List Info)
    (h : initInputFileInfo rx fs uri rc = .ok infos) (k n w dw : Nat) (pick : Nat → Bool) :
    partBlobsUri F rx fs uri rc k n w dw pick = partBlobs F (infos.map (fun i => contentOf fs i.name)) k n w dw pick := by
  unfold partBlobsUri partBlobs mkStUri mkSt mkBaseUri
  rw [h]
  simp only []
  cases hm : mkBase F (infos.map (fun i => contentOf fs i.name)) k n w dw with
  | error e => rfl
  | ok b => rfl

/-- a failing file-list construction fails the constructor with the same outcome -/
theorem partBlobsUri_error (F : Fmt) (rx : Name → Name → Bool) (fs : FileSys) (uri : Bytes) (rc : Bool) (e : Err)
    (h : initInputFileInfo rx fs uri rc = .error e) (k n w dw : Nat) (pick : Nat → Bool) :
    partBlobsUri F rx fs uri rc k n w dw pick = .error e := by
  unfold partBlobsUri mkStUri mkBaseUri
  rw [h]

/-- the contents of a successfully constructed file list: at least one file, none empty, sizes as listed -/
theorem contents_of_ok (rx : Name → Name → Bool) (fs : FileSys) (uri : Bytes) (rc : Bool) (infos : List Info)
    (hU : fs.Pairwise (fun a b => a.1 ≠ b.1)) (h : initInputFileInfo rx fs uri rc = .ok infos) :
    infos.map (fun i => contentOf fs i.name) ≠ [] ∧ (∀ f ∈ infos.map (fun i => contentOf fs i.name), f ≠ []) ∧
    (∀ i ∈ infos, i.size = (contentOf fs i.name).length) := by
  obtain ⟨h1, h2⟩ := initInputFileInfo_entries rx fs uri rc infos hU h
  refine ⟨fun hn => h1 (List.map_eq_nil_iff.1 hn), ?_, ?_⟩
  · intro f hf
    obtain ⟨i, hi, hfi⟩ := List.mem_map.1 hf
    obtain ⟨_, g2, c, _, g4, g5⟩ := h2 i hi
    intro hn
    have hc : c = [] := by rw [← g4, ← hn, ← hfi]
    rw [hc] at g5
    exact g2 g5
  · intro i hi
    obtain ⟨_, _, c, _, g4, g5⟩ := h2 i hi
    rw [g4, g5]

/-! ## A. the file list of a ';'-list of canonical absolute names -/

/-! ### A.1 canonical names and their Bool-valued checker -/

/-- a canonical absolute name "/c1/c2/…/cm": m ≥ 1 non-empty components without '/' (47) and ';' (59) -/
def CanonName (p : Name) : Prop :=
  ∃ comps : List Bytes, comps ≠ [] ∧ (∀ c ∈ comps, c ≠ [] ∧ (47 : UInt8) ∉ c ∧ (59 : UInt8) ∉ c) ∧
    p = comps.flatMap (fun c => 47 :: c)

def canonGo : Bool → Bytes → Bool
  | afterSlash, [] => !afterSlash
  | afterSlash, b :: r => if b == 47 then !afterSlash && canonGo true r else b != 59 && canonGo false r

def canonNameB : Name → Bool
  | [] => false
  | b :: r => b == 47 && canonGo true r

theorem canonGo_other (st : Bool) (b : Byte) (r : Bytes) (h1 : b ≠ 47) (h2 : b ≠ 59) :
    canonGo st (b :: r) = canonGo false r := by
  rw [canonGo]
  have e1 : (b == 47) = false := by simp [h1]
  have e2 : (b != 59) = true := by simp [h2]
  rw [e1, e2]
  rfl

theorem canonGo_false_comp (r : Bytes) : ∀ (c : Bytes), (47 : UInt8) ∉ c → (59 : UInt8) ∉ c →
    canonGo false (c ++ r) = canonGo false r := by
  intro c
  induction c with
  | nil => intro _ _; rfl
  | cons b t ih =>
    intro h1 h2
    have hb1 : b ≠ 47 := fun h => h1 (by simp [h])
    have hb2 : b ≠ 59 := fun h => h2 (by simp [h])
    rw [List.cons_append, canonGo_other _ _ _ hb1 hb2]
    exact ih (fun h => h1 (List.mem_cons_of_mem _ h)) (fun h => h2 (List.mem_cons_of_mem _ h))

theorem canonGo_comp (st : Bool) (c r : Bytes) (hne : c ≠ []) (h1 : (47 : UInt8) ∉ c) (h2 : (59 : UInt8) ∉ c) :
    canonGo st (c ++ r) = canonGo false r := by
  cases c with
  | nil => exact absurd rfl hne
  | cons b t =>
    have hb1 : b ≠ 47 := fun h => h1 (by simp [h])
    have hb2 : b ≠ 59 := fun h => h2 (by simp [h])
    rw [List.cons_append, canonGo_other _ _ _ hb1 hb2]
    exact canonGo_false_comp r t (fun h => h1 (List.mem_cons_of_mem _ h)) (fun h => h2 (List.mem_cons_of_mem _ h))

theorem canonGo_slash (r : Bytes) : canonGo false (47 :: r) = canonGo true r := by
  rw [canonGo]; simp

theorem canonGo_flatMap : ∀ (comps : List Bytes), (∀ c ∈ comps, c ≠ [] ∧ (47 : UInt8) ∉ c ∧ (59 : UInt8) ∉ c) →
    canonGo false (comps.flatMap (fun c => 47 :: c)) = true := by
  intro comps
  induction comps with
  | nil => intro _; rfl
  | cons c t ih =>
    intro h
    obtain ⟨g1, g2, g3⟩ := h c (List.mem_cons_self ..)
    rw [List.flatMap_cons, List.cons_append, canonGo_slash, canonGo_comp true c _ g1 g2 g3]
    exact ih (fun c hc => h c (List.mem_cons_of_mem _ hc))

theorem canonNameB_go (p : Name) (h : canonNameB p = true) : canonGo false p = true := by
  cases p with
  | nil => cases h
  | cons b r =>
    unfold canonNameB at h
    simp only [Bool.and_eq_true, beq_iff_eq] at h
    rw [h.1, canonGo_slash]
    exact h.2

theorem canonNameB_of (p : Name) (h : CanonName p) : canonNameB p = true := by
  obtain ⟨comps, h1, h2, h3⟩ := h
  cases comps with
  | nil => exact absurd rfl h1
  | cons c t =>
    have := canonGo_flatMap (c :: t) h2
    rw [← h3] at this
    rw [h3, List.flatMap_cons, List.cons_append] at this ⊢
    rw [canonGo_slash] at this
    unfold canonNameB
    simp [this]

theorem canonGo_comps : ∀ (r cur : Bytes), canonGo cur.isEmpty r = true → (47 : UInt8) ∉ cur → (59 : UInt8) ∉ cur →
    ∃ comps : List Bytes, comps ≠ [] ∧ (∀ c ∈ comps, c ≠ [] ∧ (47 : UInt8) ∉ c ∧ (59 : UInt8) ∉ c) ∧
      47 :: (cur ++ r) = comps.flatMap (fun c => 47 :: c) := by
  intro r
  induction r with
  | nil =>
    intro cur h h1 h2
    rw [canonGo] at h
    refine ⟨[cur], by simp, ?_, by simp⟩
    intro c hc
    have : c = cur := by simpa using hc
    subst this
    refine ⟨fun hn => ?_, h1, h2⟩
    rw [hn] at h
    cases h
  | cons b r ih =>
    intro cur h h1 h2
    rw [canonGo] at h
    by_cases hb : b = 47
    · subst hb
      simp only [beq_self_eq_true, if_true, Bool.and_eq_true, Bool.not_eq_true'] at h
      obtain ⟨comps, g1, g2, g3⟩ := ih [] h.2 (by simp) (by simp)
      refine ⟨cur :: comps, by simp, ?_, ?_⟩
      · intro c hc
        rcases List.mem_cons.1 hc with hc | hc
        · subst hc
          refine ⟨fun hn => ?_, h1, h2⟩
          rw [hn] at h
          exact absurd h.1 (by decide)
        · exact g2 c hc
      · rw [List.flatMap_cons, ← g3]
        simp
    · simp only [beq_iff_eq, hb, if_false, Bool.and_eq_true, bne_iff_ne, ne_eq] at h
      have hc : (cur ++ [b]).isEmpty = false := by simp
      obtain ⟨comps, g1, g2, g3⟩ := ih (cur ++ [b]) (by rw [hc]; exact h.2)
        (by simp [h1, Ne.symm hb]) (by simp [h2, Ne.symm h.1])
      exact ⟨comps, g1, g2, by rw [← g3]; simp⟩

theorem canonName_iff (p : Name) : CanonName p ↔ canonNameB p = true := by
  refine ⟨canonNameB_of p, fun h => ?_⟩
  cases p with
  | nil => cases h
  | cons b r =>
    unfold canonNameB at h
    simp only [Bool.and_eq_true, beq_iff_eq] at h
    obtain ⟨comps, g1, g2, g3⟩ := canonGo_comps r [] h.2 (by simp) (by simp)
    exact ⟨comps, g1, g2, by rw [h.1, ← g3]; simp⟩

instance (p : Name) : Decidable (CanonName p) := decidable_of_iff _ (canonName_iff p).symm


/-! ### A.2 byte-level consequences -/

theorem canonGo_trail : ∀ (t : Bytes) (st : Bool), canonGo st (t ++ [47]) = false := by
  intro t
  induction t with
  | nil => intro st; simp [canonGo]
  | cons b t ih => intro st; rw [List.cons_append, canonGo, ih, ih]; simp

theorem canonGo_dbl (y : Bytes) : ∀ (x : Bytes) (st : Bool), canonGo st (x ++ 47 :: 47 :: y) = false := by
  intro x
  induction x with
  | nil => intro st; simp [canonGo]
  | cons b t ih => intro st; rw [List.cons_append, canonGo, ih, ih]; simp

theorem canonGo_tail (st : Bool) (b : Byte) (r : Bytes) (h : canonGo st (b :: r) = true) :
    ∃ st', canonGo st' r = true := by
  rw [canonGo] at h
  split at h
  · exact ⟨true, (Bool.and_eq_true _ _ ▸ h).2⟩
  · exact ⟨false, (Bool.and_eq_true _ _ ▸ h).2⟩

theorem isPrefix_append : ∀ (a t : Bytes), isPrefix a (a ++ t) = true := by
  intro a
  induction a with
  | nil => intro t; rfl
  | cons x a ih => intro t; rw [List.cons_append, isPrefix, ih]; simp

theorem isPrefix_elim : ∀ (a b : Bytes), isPrefix a b = true → b = a ++ b.drop a.length := by
  intro a
  induction a with
  | nil => intro b _; rfl
  | cons x a ih =>
    intro b h
    cases b with
    | nil => rw [isPrefix] at h; cases h
    | cons y b =>
      rw [isPrefix] at h
      simp only [Bool.and_eq_true, beq_iff_eq] at h
      rw [h.1, List.length_cons, List.drop_succ_cons, List.cons_append, ← ih b h.2]

theorem canonGo_afterScheme : ∀ (s : Bytes) (st : Bool), canonGo st s = true → afterScheme s = none := by
  intro s
  induction s with
  | nil => intro _ _; rfl
  | cons b r ih =>
    intro st h
    rw [afterScheme]
    obtain ⟨st', h'⟩ := canonGo_tail st b r h
    by_cases hp : isPrefix [58, 47, 47] (b :: r) = true
    · have he := isPrefix_elim _ _ hp
      generalize List.drop ([58, 47, 47] : Bytes).length (b :: r) = t at he
      rw [he] at h
      have hd := canonGo_dbl t [58] st
      have e : ([58, 47, 47] : Bytes) ++ t = [58] ++ 47 :: 47 :: t := rfl
      rw [e, hd] at h
      cases h
    · rw [if_neg hp]
      exact ih st' h'

/-- names that do not end in '/' -/
def NoTrail (s : Bytes) : Prop := ∀ t, s ≠ t ++ [47]

theorem noTrail_nil : NoTrail [] := by intro t h; simp at h

theorem stripEnd_noTrail (s : Bytes) (h : NoTrail s) : stripEnd s 47 = s := by
  rcases List.eq_nil_or_concat s with hs | ⟨l, b, hs⟩
  · subst hs; rfl
  · rw [List.concat_eq_append] at hs
    subst hs
    have hb : b ≠ 47 := fun hb => h l (by rw [hb])
    have hn : (b.toNat == 47) = false := by
      simp only [beq_eq_false_iff_ne, ne_eq]
      intro hh
      exact hb (UInt8.toNat_inj.1 hh)
    unfold stripEnd
    rw [List.reverse_append, List.reverse_singleton, List.singleton_append, stripEndRev]
    unfold seStrip
    rw [hn, Bool.and_false]
    simp

/-- the facts about a canonical name the analysis of `ConvertToURIs` uses -/
structure CanonFacts (p : Name) : Prop where
  go : canonGo false p = true
  noTrail : NoTrail p
  noDbl : ∀ x y, p ≠ x ++ 47 :: 47 :: y
  scheme : afterScheme p = none
  ne : p ≠ []
  noSemi : (59 : UInt8) ∉ p

theorem canonGo_noSemi : ∀ (s : Bytes) (st : Bool), canonGo st s = true → (59 : UInt8) ∉ s := by
  intro s
  induction s with
  | nil => intro _ _; simp
  | cons b r ih =>
    intro st h
    have h0 := h
    rw [canonGo] at h
    split at h
    · rename_i hb
      have hb' : b = 47 := by simpa using hb
      simp only [Bool.and_eq_true] at h
      intro hm
      rcases List.mem_cons.1 hm with hm | hm
      · rw [hb'] at hm; exact absurd hm (by decide)
      · exact ih true h.2 hm
    · simp only [Bool.and_eq_true, bne_iff_ne, ne_eq] at h
      intro hm
      rcases List.mem_cons.1 hm with hm | hm
      · exact h.1 hm.symm
      · exact ih false h.2 hm

theorem canonFacts (p : Name) (h : CanonName p) : CanonFacts p := by
  have hb := canonNameB_of p h
  have hg := canonNameB_go p hb
  refine ⟨hg, ?_, ?_, canonGo_afterScheme p false hg, ?_, canonGo_noSemi p false hg⟩
  · intro t ht
    rw [ht, canonGo_trail] at hg
    cases hg
  · intro x y hxy
    rw [hxy, canonGo_dbl] at hg
    cases hg
  · intro hn
    rw [hn] at hb
    cases hb

/-- a canonical name is `d ++ "/" ++ c` with a non-empty last component `c` -/
theorem canon_decomp (p : Name) (h : CanonName p) :
    ∃ d c, p = d ++ 47 :: c ∧ c ≠ [] ∧ (47 : UInt8) ∉ c ∧ NoTrail d := by
  have hf := canonFacts p h
  obtain ⟨comps, h1, h2, h3⟩ := h
  rcases List.eq_nil_or_concat comps with hc | ⟨l, c, hc⟩
  · exact absurd hc h1
  · rw [List.concat_eq_append] at hc
    subst hc
    obtain ⟨g1, g2, _⟩ := h2 c (by simp)
    have hp : p = l.flatMap (fun c => 47 :: c) ++ 47 :: c := by rw [h3]; simp
    refine ⟨_, c, hp, g1, g2, ?_⟩
    intro t ht
    rw [ht] at hp
    exact hf.noDbl t c (by rw [hp]; simp)

theorem uriName_canon (p : Name) (h : CanonName p) : uriName p = p := by
  unfold uriName
  rw [(canonFacts p h).scheme]

theorem findIdx?_hit {α : Type} (q : α → Bool) (a : α) (ys : List α) : ∀ (xs : List α),
    (∀ x ∈ xs, q x = false) → q a = true → (xs ++ a :: ys).findIdx? q = some xs.length := by
  intro xs
  induction xs with
  | nil => intro _ ha; rw [List.nil_append, List.findIdx?_cons, if_pos ha]; rfl
  | cons x xs ih =>
    intro hx ha
    rw [List.cons_append, List.findIdx?_cons, hx x (List.mem_cons_self ..),
      ih (fun y hy => hx y (List.mem_cons_of_mem _ hy)) ha]
    rfl

theorem rfind_slash (d c : Bytes) (hc : (47 : UInt8) ∉ c) : rfind (d ++ 47 :: c) cuSlash = some d.length := by
  unfold rfind
  have hr : (d ++ 47 :: c).reverse = c.reverse ++ 47 :: d.reverse := by simp
  rw [hr, findIdx?_hit _ _ _ _ _ (by decide)]
  · simp only [List.length_reverse, List.length_append, List.length_cons]
    congr 1
    omega
  · intro x hx
    have hx' : x ∈ c := List.mem_reverse.1 hx
    simp only [cuSlash, beq_eq_false_iff_ne, ne_eq]
    intro hh
    have : x = 47 := UInt8.toNat_inj.1 hh
    exact hc (this ▸ hx')

theorem cuAsIs_false (dl cl : Nat) (hc : 0 < cl) : cuAsIs dl (dl + 1 + cl + 1) (dl + 1 + cl) = false := by
  unfold cuAsIs u64
  have h1 : (dl + 1) % 18446744073709551616 ≤ dl + 1 := Nat.mod_le _ _
  have e1 : (dl == dl + 1 + cl + 1) = false := by simp; omega
  have e2 : ((dl + 1) % 18446744073709551616 == dl + 1 + cl) = false := by
    simp only [beq_eq_false_iff_ne, ne_eq]; omega
  rw [e1, e2]
  rfl

/-! ### A.3 `dmlc::Split` on a ';'-joined list -/

/-- the pieces joined with ';' -/
def joinSemi : List Name → Bytes
  | [] => []
  | [p] => p
  | p :: q :: r => p ++ 59 :: joinSemi (q :: r)

theorem splitGo_piece (rest : Bytes) : ∀ (p cur : Bytes), (59 : UInt8) ∉ p →
    splitGo cuDelim (p ++ rest) cur = splitGo cuDelim rest (cur ++ p) := by
  intro p
  induction p with
  | nil => intro cur _; simp
  | cons b t ih =>
    intro cur h
    have hb : b.toNat ≠ cuDelim := by
      intro hh
      have : b = 59 := UInt8.toNat_inj.1 hh
      exact h (by simp [this])
    rw [List.cons_append, splitGo, if_neg hb, ih _ (fun hm => h (List.mem_cons_of_mem _ hm))]
    simp

theorem splitDelim_joinSemi : ∀ (pieces : List Name), (∀ p ∈ pieces, p ≠ [] ∧ (59 : UInt8) ∉ p) →
    splitDelim (joinSemi pieces) cuDelim = pieces := by
  intro pieces
  induction pieces with
  | nil => intro _; rfl
  | cons p t ih =>
    intro h
    obtain ⟨hp1, hp2⟩ := h p (List.mem_cons_self ..)
    cases t with
    | nil =>
      unfold splitDelim
      rw [joinSemi]
      have := splitGo_piece [] p [] hp2
      rw [List.append_nil, List.nil_append] at this
      rw [this, splitGo]
      cases p with
      | nil => exact absurd rfl hp1
      | cons _ _ => rfl
    | cons q r =>
      have ih' := ih (fun x hx => h x (List.mem_cons_of_mem _ hx))
      unfold splitDelim at ih' ⊢
      rw [joinSemi, splitGo_piece _ p [] hp2, List.nil_append, splitGo,
        if_pos (by rfl : (59 : UInt8).toNat = cuDelim), ih']


/-! ### A.4 what a directory listing contains -/

theorem file_mem_listGo (dir : Bytes) : ∀ (fs : FileSys) (last : Option Bytes) (e : Name × Bytes) (i : Info),
    e ∈ fs → classify dir e = .file i → i ∈ listGo dir fs last := by
  intro fs
  induction fs with
  | nil => intro _ _ _ h; cases h
  | cons a rest ih =>
    intro last e i he hc
    rw [listGo_cons]
    rcases List.mem_cons.1 he with he | he
    · subst he
      rw [hc]
      exact List.mem_cons_self ..
    · have ih' := fun last' => ih last' e i he hc
      cases hca : classify dir a with
      | skip => exact ih' _
      | file j => exact List.mem_cons_of_mem _ (ih' _)
      | sub d' =>
        simp only []
        split
        · exact ih' _
        · exact List.mem_cons_of_mem _ (ih' _)

theorem sub_mem_listGo (dir : Bytes) : ∀ (fs : FileSys) (last : Option Bytes) (e : Name × Bytes) (d : Name),
    e ∈ fs → classify dir e = .sub d → last ≠ some d → ({ name := d, size := 0, kind := .dir } : Info) ∈ listGo dir fs last := by
  intro fs
  induction fs with
  | nil => intro _ _ _ h; cases h
  | cons a rest ih =>
    intro last e d he hc hl
    rw [listGo_cons]
    rcases List.mem_cons.1 he with he | he
    · subst he
      rw [hc]
      simp only []
      rw [if_neg hl]
      exact List.mem_cons_self ..
    · have ih' := fun last' => ih last' e d he hc
      cases hca : classify dir a with
      | skip => exact ih' _ hl
      | file j => exact List.mem_cons_of_mem _ (ih' _ hl)
      | sub d' =>
        simp only []
        split
        · exact ih' _ hl
        · by_cases hdd : d' = d
          · rw [hdd]; exact List.mem_cons_self ..
          · exact List.mem_cons_of_mem _ (ih' _ (by intro h; injection h with h; exact hdd h))

theorem findIdx?_some_decomp {α : Type} (q : α → Bool) : ∀ (l : List α) (k : Nat), l.findIdx? q = some k →
    ∃ l1 a l2, l = l1 ++ a :: l2 ∧ l1.length = k ∧ q a = true ∧ ∀ x ∈ l1, q x = false := by
  intro l
  induction l with
  | nil => intro k h; simp at h
  | cons x l ih =>
    intro k h
    rw [List.findIdx?_cons] at h
    by_cases hx : q x = true
    · rw [if_pos hx] at h
      injection h with h
      exact ⟨[], x, l, rfl, h, hx, by simp⟩
    · rw [if_neg hx] at h
      cases hf : l.findIdx? q with
      | none => rw [hf] at h; cases h
      | some k' =>
        rw [hf] at h
        injection h with h
        obtain ⟨l1, a, l2, g1, g2, g3, g4⟩ := ih k' hf
        refine ⟨x :: l1, a, l2, by rw [g1]; rfl, by rw [List.length_cons, g2]; exact h, g3, ?_⟩
        intro y hy
        rcases List.mem_cons.1 hy with hy | hy
        · rw [hy]; simpa using hx
        · exact g4 y hy

theorem slash_findIdx?_none (t : Bytes) : t.findIdx? (fun b => b == 47) = none ↔ (47 : UInt8) ∉ t := by
  rw [List.findIdx?_eq_none_iff]
  constructor
  · intro h hm
    have := h 47 hm
    simp at this
  · intro h x hx
    simp only [beq_eq_false_iff_ne, ne_eq]
    intro hh
    exact h (hh ▸ hx)

theorem classify_file (dir : Bytes) (e : Name × Bytes) (t : Bytes) (he : e.1 = dir ++ t) (ht : t ≠ [])
    (h47 : (47 : UInt8) ∉ t) : classify dir e = .file { name := e.1, size := e.2.length, kind := .file } := by
  unfold classify
  rw [he, isPrefix_append, if_pos rfl, List.drop_left, (slash_findIdx?_none t).2 h47]
  cases t with
  | nil => exact absurd rfl ht
  | cons _ _ => rfl

theorem classify_sub (dir : Bytes) (e : Name × Bytes) (t1 t2 : Bytes) (he : e.1 = dir ++ (t1 ++ 47 :: t2))
    (h47 : (47 : UInt8) ∉ t1) : classify dir e = .sub (dir ++ t1) := by
  unfold classify
  rw [he, isPrefix_append, if_pos rfl, List.drop_left,
    findIdx?_hit _ _ _ _ (fun x hx => by
      simp only [beq_eq_false_iff_ne, ne_eq]; intro hh; exact h47 (hh ▸ hx)) (by rfl)]
  simp only []
  rw [← List.append_assoc, List.take_left' (by simp)]

theorem classify_file_inv (dir : Bytes) (e : Name × Bytes) (i : Info) (h : classify dir e = .file i) :
    ∃ t, e.1 = dir ++ t ∧ t ≠ [] ∧ (47 : UInt8) ∉ t := by
  unfold classify at h
  split at h
  · rename_i hp
    refine ⟨e.1.drop dir.length, isPrefix_elim _ _ hp, ?_⟩
    split at h
    · rename_i hf
      split at h
      · cases h
      · rename_i hne
        refine ⟨fun hn => hne (by rw [hn]; rfl), (slash_findIdx?_none _).1 hf⟩
    · cases h
  · cases h

theorem classify_sub_inv (dir : Bytes) (e : Name × Bytes) (d : Name) (h : classify dir e = .sub d) :
    ∃ t1 t2, e.1 = dir ++ (t1 ++ 47 :: t2) ∧ (47 : UInt8) ∉ t1 ∧ d = dir ++ t1 := by
  unfold classify at h
  split at h
  · rename_i hp
    have he := isPrefix_elim _ _ hp
    split at h
    · split at h <;> cases h
    · rename_i k hf
      obtain ⟨l1, a, l2, g1, g2, g3, g4⟩ := findIdx?_some_decomp _ _ _ hf
      have ha : a = 47 := by simpa using g3
      subst ha
      injection h with h
      refine ⟨l1, l2, by rw [← g1]; exact he, ?_, ?_⟩
      · intro hm
        have := g4 47 hm
        simp at this
      · rw [← h, he, g1, ← g2, ← List.append_assoc, List.take_left' (by simp)]
  · cases h

theorem dirPrefix_noTrail (nm : Name) (h : NoTrail nm) : dirPrefix nm = nm ++ [47] := by
  unfold dirPrefix
  rw [stripEnd_noTrail nm h]

/-- every name reported by the listing of a directory `d` (not ending in '/') of a file system with canonical
names does not end in '/' and is a file or a directory of the file system -/
theorem listGo_names (fs : FileSys) (hfs : ∀ e ∈ fs, CanonName e.1) (d : Bytes) (last : Option Bytes) (i : Info)
    (hi : i ∈ listGo (d ++ [47]) fs last) :
    NoTrail i.name ∧ (fs.any (fun e => e.1 == i.name) || isDirOf fs i.name) = true := by
  obtain ⟨e, he, hc⟩ := mem_listGo _ fs last i hi
  have hf := canonFacts e.1 (hfs e he)
  rcases hc with hc | ⟨sub, hc, hi⟩
  · have := classify_file_info _ e i hc
    subst this
    refine ⟨hf.noTrail, ?_⟩
    rw [Bool.or_eq_true]
    exact Or.inl (List.any_eq_true.2 ⟨e, he, by simp⟩)
  · subst hi
    obtain ⟨t1, t2, g1, g2, g3⟩ := classify_sub_inv _ e sub hc
    subst g3
    have hnt : NoTrail (d ++ [47] ++ t1) := by
      intro x hx
      rcases List.eq_nil_or_concat t1 with ht | ⟨l, b, ht⟩
      · subst ht
        exact hf.noDbl d t2 (by rw [g1]; simp)
      · rw [List.concat_eq_append] at ht
        subst ht
        have hx' : (d ++ [47] ++ l) ++ [b] = x ++ [47] := by rw [← hx]; simp
        have hb : [b] = [(47 : UInt8)] := List.append_inj_right' hx' rfl
        injection hb with hb
        exact g2 (by simp [hb])
    refine ⟨hnt, ?_⟩
    rw [Bool.or_eq_true]
    refine Or.inr ?_
    unfold isDirOf
    rw [dirPrefix_noTrail _ hnt]
    refine List.any_eq_true.2 ⟨e, he, ?_⟩
    rw [g1]
    have e1 : d ++ [47] ++ (t1 ++ 47 :: t2) = (d ++ [47] ++ t1 ++ [47]) ++ t2 := by simp
    rw [e1]
    exact isPrefix_append _ _

/-- an existing file or directory `d/c` is reported by the listing of `d` -/
theorem listGo_has (fs : FileSys) (d c : Bytes) (hd : NoTrail (d ++ 47 :: c)) (hc1 : c ≠ []) (hc2 : (47 : UInt8) ∉ c)
    (hex : (fs.any (fun e => e.1 == d ++ 47 :: c) || isDirOf fs (d ++ 47 :: c)) = true) :
    ∃ i ∈ listGo (d ++ [47]) fs none, i.name = d ++ 47 :: c := by
  rw [Bool.or_eq_true] at hex
  rcases hex with hex | hex
  · obtain ⟨e, he, hn⟩ := List.any_eq_true.1 hex
    have hn' : e.1 = d ++ 47 :: c := by simpa using hn
    refine ⟨_, file_mem_listGo _ fs none e _ he (classify_file _ e c (by rw [hn']; simp) hc1 hc2), hn'⟩
  · unfold isDirOf at hex
    rw [dirPrefix_noTrail _ hd] at hex
    obtain ⟨e, he, hn⟩ := List.any_eq_true.1 hex
    have hn' := isPrefix_elim _ _ hn
    generalize List.drop (d ++ 47 :: c ++ [47]).length e.1 = t2 at hn'
    have := classify_sub (d ++ [47]) e c t2 (by rw [hn']; simp) hc2
    refine ⟨_, sub_mem_listGo _ fs none e _ he this (by simp), by simp⟩

/-- the regex branch on metacharacter-free names: the matcher accepts at most the name itself -/
def LiteralRx (rx : Name → Name → Bool) : Prop := ∀ p c, rx p c = true → p = c

theorem expandOne_canon (rx : Name → Name → Bool) (hrx : LiteralRx rx) (fs : FileSys) (hfs : ∀ e ∈ fs, CanonName e.1)
    (p : Name) (hp : CanonName p) :
    expandOne rx fs p = if (fs.any (fun e => e.1 == p) || isDirOf fs p) then [p] else [] := by
  obtain ⟨d, c, hdc, hc1, hc2, hd⟩ := canon_decomp p hp
  have hpf := canonFacts p hp
  have h1 : rfind p cuSlash = some d.length := by rw [hdc]; exact rfind_slash d c hc2
  have h2 : cuAsIs d.length (p.length + 1) p.length = false := by
    have := cuAsIs_false d.length c.length (List.length_pos_iff.2 hc1)
    have e : (d ++ 47 :: c).length = d.length + 1 + c.length := by
      rw [List.length_append, List.length_cons]; omega
    rw [hdc, e]
    exact this
  have h3 : p.take d.length = d := by rw [hdc]; exact List.take_left' rfl
  have h4 : listDirectory fs d = listGo (d ++ [47]) fs none := by
    unfold listDirectory; rw [dirPrefix_noTrail d hd]
  have h5 : stripEnd p cuStripCh = p := stripEnd_noTrail p hpf.noTrail
  unfold expandOne
  rw [uriName_canon p hp]
  simp only []
  rw [h1]
  simp only []
  rw [h2, h3, h4, h5]
  simp only [Bool.false_eq_true, if_false]
  cases hfind : (listGo (d ++ [47]) fs none).find? (fun x => stripEnd x.name cuStripCh == p) with
  | some i =>
    simp only []
    have hm := List.mem_of_find?_eq_some hfind
    have hs := List.find?_some hfind
    obtain ⟨g1, g2⟩ := listGo_names fs hfs d none i hm
    have hs' : stripEnd i.name 47 = p := by
      have := hs
      simp only [beq_iff_eq] at this
      exact this
    rw [stripEnd_noTrail _ g1] at hs'
    rw [← hs', g2, if_pos rfl]
  | none =>
    simp only []
    rw [List.find?_eq_none] at hfind
    have hflt : (listGo (d ++ [47]) fs none).filter
        (fun x => !cuRxSkip (x.kind != .file) x.size && rx p (stripEnd x.name cuStripCh)) = [] := by
      rw [List.filter_eq_nil_iff]
      intro i hi hk
      simp only [Bool.and_eq_true] at hk
      have := hrx _ _ hk.2
      exact hfind i hi (by rw [← this]; simp)
    rw [hflt]
    by_cases hex : (fs.any (fun e => e.1 == p) || isDirOf fs p) = true
    · rw [hdc] at hex
      obtain ⟨i, hi, hn⟩ := listGo_has fs d c (hdc ▸ hpf.noTrail) hc1 hc2 hex
      have hnt : NoTrail i.name := by rw [hn, ← hdc]; exact hpf.noTrail
      exact absurd (by rw [show cuStripCh = 47 from rfl, stripEnd_noTrail _ hnt, hn, hdc]; simp) (hfind i hi)
    · rw [if_neg hex]
      rfl


/-! ### A.5 the loop body of `InitInputFileInfo` on an existing canonical name -/

/-- a well-formed abstract file system: canonical unique names, no name is a directory prefix of another -/
def FsOk (fs : FileSys) : Prop :=
  (∀ e ∈ fs, CanonName e.1) ∧ fs.Pairwise (fun a b => a.1 ≠ b.1) ∧
  (∀ a ∈ fs, ∀ b ∈ fs, isPrefix (a.1 ++ [47]) b.1 = false)

instance (fs : FileSys) : Decidable (FsOk fs) := by unfold FsOk; infer_instance

/-- the non-empty files directly inside directory `d`, in file-system (key) order -/
def childrenOf (fs : FileSys) (d : Name) : List Info :=
  fs.filterMap (fun e =>
    if isPrefix (d ++ [47]) e.1 && !(e.1.drop (d.length + 1)).contains 47 && !e.2.isEmpty
    then some { name := e.1, size := e.2.length, kind := .file } else none)

/-- what one canonical URI piece names: the file itself if non-empty, else the non-empty files directly in
that directory (nothing if it names neither a file nor a directory) -/
def expandSpec (fs : FileSys) (p : Name) : List Info :=
  match fs.find? (fun e => e.1 == p) with
  | some e => if e.2.isEmpty then [] else [{ name := p, size := e.2.length, kind := .file }]
  | none => childrenOf fs p

theorem filterMap_congr_mem {α β : Type} (f g : α → Option β) : ∀ (l : List α), (∀ x ∈ l, f x = g x) →
    l.filterMap f = l.filterMap g := by
  intro l
  induction l with
  | nil => intro _; rfl
  | cons a t ih =>
    intro h
    rw [List.filterMap_cons, List.filterMap_cons, h a (List.mem_cons_self ..),
      ih (fun x hx => h x (List.mem_cons_of_mem _ hx))]

theorem listGo_filter (dir : Bytes) (keep : Info → Bool) (hk : ∀ d, keep { name := d, size := 0, kind := .dir } = false) :
    ∀ (fs : FileSys) (last : Option Bytes), (listGo dir fs last).filter keep =
      fs.filterMap (fun e => match classify dir e with
        | .file i => if keep i then some i else none
        | _ => none) := by
  intro fs
  induction fs with
  | nil => intro _; rfl
  | cons a rest ih =>
    intro last
    rw [listGo_cons, List.filterMap_cons]
    cases hc : classify dir a with
    | skip => exact ih _
    | file j =>
      simp only []
      rw [List.filter_cons]
      by_cases hj : keep j = true
      · rw [if_pos hj, if_pos hj, ih]
      · rw [if_neg hj, if_neg hj, ih]
    | sub d =>
      simp only []
      split
      · exact ih _
      · rw [List.filter_cons, hk d]
        exact ih _

theorem children_entry (d : Bytes) (e : Name × Bytes) (he : NoTrail e.1) :
    (match classify (d ++ [47]) e with
      | .file i => if iiKeepListed i.size (i.kind == .file) then some i else none
      | _ => none) =
    (if isPrefix (d ++ [47]) e.1 && !(e.1.drop (d.length + 1)).contains 47 && !e.2.isEmpty
     then some { name := e.1, size := e.2.length, kind := .file } else none) := by
  have hl : (d ++ [47]).length = d.length + 1 := by simp
  by_cases hp : isPrefix (d ++ [47]) e.1 = true
  · have hel := isPrefix_elim _ _ hp
    rw [hl] at hel
    by_cases h47 : (47 : UInt8) ∈ e.1.drop (d.length + 1)
    · -- a sub-directory entry
      have hcon : (e.1.drop (d.length + 1)).contains 47 = true := List.contains_iff_mem.2 h47
      rw [hp, hcon]
      simp only [Bool.not_true, Bool.and_false, Bool.false_and, Bool.false_eq_true, if_false]
      unfold classify
      rw [hp, if_pos rfl, hl]
      cases hf : (e.1.drop (d.length + 1)).findIdx? (fun b => b == 47) with
      | none => exact absurd h47 ((slash_findIdx?_none _).1 hf)
      | some k => rfl
    · have hcon : (e.1.drop (d.length + 1)).contains 47 = false := by
        cases hh : (e.1.drop (d.length + 1)).contains 47 with
        | false => rfl
        | true => exact absurd (List.contains_iff_mem.1 hh) h47
      have hne : e.1.drop (d.length + 1) ≠ [] := by
        intro hn
        rw [hn, List.append_nil] at hel
        exact he d hel
      rw [classify_file _ e _ hel hne h47, hp, hcon]
      simp only []
      unfold iiKeepListed
      cases e.2 <;> rfl
  · have hp' : isPrefix (d ++ [47]) e.1 = false := by
      cases hh : isPrefix (d ++ [47]) e.1 with
      | false => rfl
      | true => exact absurd hh hp
    unfold classify
    rw [hp']
    rfl

/-- the kept entries of the listing of directory `d` are its non-empty direct child files -/
theorem listDirectory_kept (fs : FileSys) (hfs : ∀ e ∈ fs, CanonName e.1) (d : Name) (hd : NoTrail d) :
    (listDirectory fs d).filter (fun i => iiKeepListed i.size (i.kind == .file)) = childrenOf fs d := by
  unfold listDirectory childrenOf
  rw [dirPrefix_noTrail d hd, listGo_filter _ _ (fun _ => rfl)]
  exact filterMap_congr_mem _ _ fs (fun e he => children_entry d e (canonFacts e.1 (hfs e he)).noTrail)

theorem infoOne_canon (fs : FileSys) (hfs : ∀ e ∈ fs, CanonName e.1) (p : Name) (hp : CanonName p)
    (hex : (fs.any (fun e => e.1 == p) || isDirOf fs p) = true) : infoOne fs false p = .ok (expandSpec fs p) := by
  unfold infoOne getPathInfo expandSpec
  cases hf : fs.find? (fun e => e.1 == p) with
  | some e =>
    simp only []
    rw [if_neg (by decide)]
    unfold iiKeepFile
    cases e.2 <;> rfl
  | none =>
    simp only []
    have hany : fs.any (fun e => e.1 == p) = false := by
      cases hh : fs.any (fun e => e.1 == p) with
      | false => rfl
      | true =>
        obtain ⟨e, he, hn⟩ := List.any_eq_true.1 hh
        exact absurd hn (List.find?_eq_none.1 hf e he)
    rw [hany, Bool.false_or] at hex
    rw [hex, if_pos rfl]
    simp only [if_true, Bool.false_eq_true, if_false]
    rw [listDirectory_kept fs hfs p (canonFacts p hp).noTrail]

theorem expandSpec_absent (fs : FileSys) (p : Name) (hp : NoTrail p)
    (hex : (fs.any (fun e => e.1 == p) || isDirOf fs p) = false) : expandSpec fs p = [] := by
  rw [Bool.or_eq_false_iff] at hex
  unfold expandSpec
  cases hf : fs.find? (fun e => e.1 == p) with
  | some e =>
    have h1 := List.mem_of_find?_eq_some hf
    have h2 := List.find?_some hf
    have : fs.any (fun e => e.1 == p) = true := List.any_eq_true.2 ⟨e, h1, h2⟩
    rw [hex.1] at this
    cases this
  | none =>
    simp only []
    unfold childrenOf
    rw [List.filterMap_eq_nil_iff]
    intro e he
    have hd := hex.2
    unfold isDirOf at hd
    rw [dirPrefix_noTrail p hp] at hd
    have : isPrefix (p ++ [47]) e.1 = false := by
      cases hh : isPrefix (p ++ [47]) e.1 with
      | false => rfl
      | true =>
        have : fs.any (fun e => isPrefix (p ++ [47]) e.1) = true := List.any_eq_true.2 ⟨e, he, hh⟩
        rw [hd] at this
        cases this
    rw [this]
    rfl

/-! ### A.6 the whole list -/

theorem convertToURIs_joinSemi (rx : Name → Name → Bool) (fs : FileSys) (pieces : List Name)
    (hp : ∀ p ∈ pieces, CanonName p) : convertToURIs rx fs (joinSemi pieces) = pieces.flatMap (expandOne rx fs) := by
  unfold convertToURIs
  rw [splitDelim_joinSemi pieces (fun p h => ⟨(canonFacts p (hp p h)).ne, (canonFacts p (hp p h)).noSemi⟩)]

theorem infoAll_canon (rx : Name → Name → Bool) (hrx : LiteralRx rx) (fs : FileSys) (hfs : ∀ e ∈ fs, CanonName e.1) :
    ∀ (pieces : List Name), (∀ p ∈ pieces, CanonName p) →
      infoAll fs false (pieces.flatMap (expandOne rx fs)) = .ok (pieces.flatMap (expandSpec fs)) := by
  intro pieces
  induction pieces with
  | nil => intro _; rfl
  | cons p t ih =>
    intro hp
    have hpc := hp p (List.mem_cons_self ..)
    have ih' := ih (fun x hx => hp x (List.mem_cons_of_mem _ hx))
    rw [List.flatMap_cons, List.flatMap_cons, expandOne_canon rx hrx fs hfs p hpc]
    cases hex : (fs.any (fun e => e.1 == p) || isDirOf fs p) with
    | true =>
      rw [if_pos rfl, List.singleton_append, infoAll, infoOne_canon fs hfs p hpc hex, ih']
    | false =>
      rw [if_neg (by decide), List.nil_append, expandSpec_absent fs p (canonFacts p hpc).noTrail hex, List.nil_append]
      exact ih'

/-- MAIN A: for a ';'-list of canonical names the file list is the concatenation, in URI order, of what each
piece names (files non-empty, a directory's files in name order); "Cannot find any files" iff that is empty -/
theorem initInputFileInfo_canon (rx : Name → Name → Bool) (hrx : LiteralRx rx) (fs : FileSys)
    (hfs : ∀ e ∈ fs, CanonName e.1) (pieces : List Name) (hp : ∀ p ∈ pieces, CanonName p) :
    initInputFileInfo rx fs (joinSemi pieces) false =
      (if (pieces.flatMap (expandSpec fs)).isEmpty then .error .check else .ok (pieces.flatMap (expandSpec fs))) := by
  unfold initInputFileInfo
  rw [convertToURIs_joinSemi rx fs pieces hp, infoAll_canon rx hrx fs hfs pieces hp]
  simp only []
  cases pieces.flatMap (expandSpec fs) with
  | nil => rfl
  | cons a t => rfl


/-- `initInputFileInfo_canon` when the pieces name something: the list itself -/
theorem initInputFileInfo_canon_ok (rx : Name → Name → Bool) (hrx : LiteralRx rx) (fs : FileSys)
    (hfs : ∀ e ∈ fs, CanonName e.1) (pieces : List Name) (hp : ∀ p ∈ pieces, CanonName p)
    (hne : pieces.flatMap (expandSpec fs) ≠ []) :
    initInputFileInfo rx fs (joinSemi pieces) false = .ok (pieces.flatMap (expandSpec fs)) := by
  rw [initInputFileInfo_canon rx hrx fs hfs pieces hp]
  cases h : pieces.flatMap (expandSpec fs) with
  | nil => exact absurd h hne
  | cons a t => rfl

/-- literal equality (the matcher the driver uses) is a `LiteralRx` -/
theorem literalRx_beq : LiteralRx (fun a b => a == b) := by
  intro p c h
  simpa using h

/-! ### closed example data for the non-vacuity examples of Props/C03Files.lean, Props/C04Files.lean -/
namespace FilesEx

/-- { "/r/a" ↦ "x\n", "/r/d/b" ↦ "", "/r/d/c" ↦ "yz" } -/
def fs : FileSys :=
  [([47, 114, 47, 97], [120, 10]), ([47, 114, 47, 100, 47, 98], []), ([47, 114, 47, 100, 47, 99], [121, 122])]

/-- "/r/a", "/r/d", "/r/zz", "/r/a" -/
def pieces : List Name := [[47, 114, 47, 97], [47, 114, 47, 100], [47, 114, 47, 122, 122], [47, 114, 47, 97]]

/-- "/r/a;/r/d;/r/zz;/r/a" -/
def uri : Bytes := [47, 114, 47, 97, 59, 47, 114, 47, 100, 59, 47, 114, 47, 122, 122, 59, 47, 114, 47, 97]

/-- the list it expands to: "/r/a" (2 bytes), "/r/d/c" (2 bytes), "/r/a" (2 bytes) -/
def infos : List Info :=
  [{ name := [47, 114, 47, 97], size := 2, kind := .file }, { name := [47, 114, 47, 100, 47, 99], size := 2, kind := .file },
   { name := [47, 114, 47, 97], size := 2, kind := .file }]

/-- a RecordIO file system: "/q/a" holds the records ["ab"], "/q/b" the records ["", "c"] -/
def fsRec : FileSys :=
  [([47, 113, 47, 97], RecordIO.writeAll [[97, 98]]), ([47, 113, 47, 98], RecordIO.writeAll [[], [99]])]

/-- "/q" -/
def uriRec : Bytes := [47, 113]

end FilesEx


/-! ### A.7 `recurse_directories = true` on directories without sub-directories -/

/-- directory `d` has no sub-directories: no name below `d` has a further '/' -/
def FlatDir (fs : FileSys) (d : Name) : Prop :=
  ∀ e ∈ fs, isPrefix (d ++ [47]) e.1 = true → (47 : UInt8) ∉ e.1.drop (d.length + 1)

instance (fs : FileSys) (d : Name) : Decidable (FlatDir fs d) := by unfold FlatDir; infer_instance

theorem listDirectory_flat_nodirs (fs : FileSys) (d : Name) (hd : NoTrail d) (hflat : FlatDir fs d) :
    (listDirectory fs d).filter (fun i => i.kind == .dir) = [] := by
  rw [List.filter_eq_nil_iff]
  intro i hi hk
  unfold listDirectory at hi
  rw [dirPrefix_noTrail d hd] at hi
  obtain ⟨e, he, hc⟩ := mem_listGo _ fs none i hi
  rcases hc with hc | ⟨sub, hc, his⟩
  · have := classify_file_info _ e i hc
    subst this
    cases hk
  · obtain ⟨t1, t2, g1, _, _⟩ := classify_sub_inv _ e sub hc
    have hp : isPrefix (d ++ [47]) e.1 = true := by rw [g1]; exact isPrefix_append _ _
    have := hflat e he hp
    rw [g1, List.drop_left' (by simp)] at this
    exact this (by simp)

/-- the breadth-first listing of a directory without sub-directories is its plain listing -/
theorem listDirectoryRecursive_flat (fs : FileSys) (d : Name) (hd : NoTrail d) (hflat : FlatDir fs d) :
    listDirectoryRecursive fs d = .ok ((listDirectory fs d).filter (fun i => i.kind != .dir)) := by
  unfold listDirectoryRecursive listRecFuel
  rw [listRecGo]
  rw [listDirectory_flat_nodirs fs d hd hflat]
  cases hn : (List.map (fun e => e.1.length + 1) fs).sum + 1 with
  | zero => omega
  | succ m => rfl

theorem infoOne_canon_flat (fs : FileSys) (hfs : ∀ e ∈ fs, CanonName e.1) (p : Name) (hp : CanonName p)
    (hex : (fs.any (fun e => e.1 == p) || isDirOf fs p) = true) (rc : Bool) (hflat : rc = true → FlatDir fs p) :
    infoOne fs rc p = .ok (expandSpec fs p) := by
  cases rc with
  | false => exact infoOne_canon fs hfs p hp hex
  | true =>
    have hpt := (canonFacts p hp).noTrail
    rw [← infoOne_canon fs hfs p hp hex]
    unfold infoOne
    cases hg : getPathInfo fs p with
    | none => rfl
    | some info =>
      simp only []
      have hname : info.kind = .dir → info.name = p := by
        intro hk
        unfold getPathInfo at hg
        split at hg
        · injection hg with hg; rw [← hg]
        · split at hg
          · injection hg with hg; rw [← hg]
          · cases hg
      by_cases hk : info.kind = .dir
      · rw [if_pos hk, if_pos hk, hname hk]
        simp only [if_true, Bool.false_eq_true, if_false]
        rw [listDirectoryRecursive_flat fs p hpt (hflat rfl)]
        simp only []
        rw [List.filter_filter]
        congr 1
        apply List.filter_congr
        intro i _
        unfold iiKeepListed
        cases i.kind <;> simp
      · rw [if_neg hk, if_neg hk]

theorem infoAll_canon_flat (rx : Name → Name → Bool) (hrx : LiteralRx rx) (fs : FileSys) (hfs : ∀ e ∈ fs, CanonName e.1)
    (rc : Bool) : ∀ (pieces : List Name), (∀ p ∈ pieces, CanonName p) → (rc = true → ∀ p ∈ pieces, FlatDir fs p) →
      infoAll fs rc (pieces.flatMap (expandOne rx fs)) = .ok (pieces.flatMap (expandSpec fs)) := by
  intro pieces
  induction pieces with
  | nil => intro _ _; rfl
  | cons p t ih =>
    intro hp hfl
    have hpc := hp p (List.mem_cons_self ..)
    have ih' := ih (fun x hx => hp x (List.mem_cons_of_mem _ hx)) (fun h x hx => hfl h x (List.mem_cons_of_mem _ hx))
    rw [List.flatMap_cons, List.flatMap_cons, expandOne_canon rx hrx fs hfs p hpc]
    cases hex : (fs.any (fun e => e.1 == p) || isDirOf fs p) with
    | true =>
      rw [if_pos rfl, List.singleton_append, infoAll,
        infoOne_canon_flat fs hfs p hpc hex rc (fun h => hfl h p (List.mem_cons_self ..)), ih']
    | false =>
      rw [if_neg (by decide), List.nil_append, expandSpec_absent fs p (canonFacts p hpc).noTrail hex, List.nil_append]
      exact ih'

/-- MAIN A with any recursion flag, when the named directories have no sub-directories: the same list -/
theorem initInputFileInfo_canon_flat (rx : Name → Name → Bool) (hrx : LiteralRx rx) (fs : FileSys)
    (hfs : ∀ e ∈ fs, CanonName e.1) (pieces : List Name) (hp : ∀ p ∈ pieces, CanonName p) (rc : Bool)
    (hflat : rc = true → ∀ p ∈ pieces, FlatDir fs p) :
    initInputFileInfo rx fs (joinSemi pieces) rc =
      (if (pieces.flatMap (expandSpec fs)).isEmpty then .error .check else .ok (pieces.flatMap (expandSpec fs))) := by
  unfold initInputFileInfo
  rw [convertToURIs_joinSemi rx fs pieces hp, infoAll_canon_flat rx hrx fs hfs rc pieces hp hflat]
  simp only []
  cases pieces.flatMap (expandSpec fs) with
  | nil => rfl
  | cons a t => rfl


/-! ### A.8 `recurse_directories = true` in general: which files are listed (as a set) -/

/-- the non-directory entries / the sub-directory names one `ListDirectory` call reports -/
def filesM (fs : FileSys) (d : Name) : List Info := (listDirectory fs d).filter (fun i => i.kind != .dir)
def subdirsM (fs : FileSys) (d : Name) : List Name := ((listDirectory fs d).filter (fun i => i.kind == .dir)).map (·.name)

/-- `i` is reported by the listing of `d` or of a directory reached from `d` -/
inductive Below (fs : FileSys) : Name → Info → Prop
  | here (d : Name) (i : Info) : i ∈ filesM fs d → Below fs d i
  | down (d s : Name) (i : Info) : s ∈ subdirsM fs d → Below fs s i → Below fs d i

/-- a breadth-first listing that ends normally has collected exactly what is below the queued directories -/
theorem listRecGo_mem (fs : FileSys) : ∀ (fuel : Nat) (queue : List Name) (out res : List Info),
    listRecGo fs fuel queue out = .ok res → ∀ i, i ∈ res ↔ (i ∈ out ∨ ∃ d ∈ queue, Below fs d i) := by
  intro fuel
  induction fuel with
  | zero => intro queue out res h; rw [listRecGo] at h; cases h
  | succ fuel ih =>
    intro queue out res h i
    cases queue with
    | nil =>
      rw [listRecGo] at h
      injection h with h
      subst h
      constructor
      · exact Or.inl
      · rintro (h | ⟨d, hd, _⟩)
        · exact h
        · cases hd
    | cons d queue =>
      rw [listRecGo] at h
      have := ih _ _ _ h i
      rw [this]
      constructor
      · rintro (h1 | ⟨d', hd', hb⟩)
        · rcases List.mem_append.1 h1 with h1 | h1
          · exact Or.inl h1
          · exact Or.inr ⟨d, List.mem_cons_self .., Below.here d i h1⟩
        · rcases List.mem_append.1 hd' with h2 | h2
          · exact Or.inr ⟨d', List.mem_cons_of_mem _ h2, hb⟩
          · exact Or.inr ⟨d, List.mem_cons_self .., Below.down d d' i h2 hb⟩
      · rintro (h1 | ⟨d', hd', hb⟩)
        · exact Or.inl (List.mem_append_left _ h1)
        · rcases List.mem_cons.1 hd' with h2 | h2
          · subst h2
            cases hb with
            | here _ _ hf => exact Or.inl (List.mem_append_right _ hf)
            | down _ s _ hs hb' => exact Or.inr ⟨s, List.mem_append_right _ hs, hb'⟩
          · exact Or.inr ⟨d', List.mem_append_left _ h2, hb⟩

theorem isPrefix_left (a b x : Bytes) (h : isPrefix (a ++ b) x = true) : isPrefix a x = true := by
  have := isPrefix_elim _ _ h
  rw [this, List.append_assoc]
  exact isPrefix_append _ _

theorem mem_filesM (fs : FileSys) (d : Name) (hd : NoTrail d) (i : Info) (h : i ∈ filesM fs d) :
    ∃ e ∈ fs, isPrefix (d ++ [47]) e.1 = true ∧ i = { name := e.1, size := e.2.length, kind := .file } := by
  unfold filesM listDirectory at h
  rw [dirPrefix_noTrail d hd] at h
  obtain ⟨h1, h2⟩ := List.mem_filter.1 h
  obtain ⟨e, he, hc⟩ := mem_listGo _ fs none i h1
  rcases hc with hc | ⟨s, _, hs⟩
  · obtain ⟨t, g1, _, _⟩ := classify_file_inv _ e i hc
    exact ⟨e, he, by rw [g1]; exact isPrefix_append _ _, classify_file_info _ e i hc⟩
  · subst hs
    simp at h2

theorem mem_subdirsM (fs : FileSys) (hfs : ∀ e ∈ fs, CanonName e.1) (d : Name) (hd : NoTrail d) (s : Name)
    (h : s ∈ subdirsM fs d) : NoTrail s ∧ ∃ t, s = d ++ [47] ++ t := by
  unfold subdirsM listDirectory at h
  rw [dirPrefix_noTrail d hd] at h
  obtain ⟨j, hj, hjs⟩ := List.mem_map.1 h
  obtain ⟨h1, h2⟩ := List.mem_filter.1 hj
  obtain ⟨g1, _⟩ := listGo_names fs hfs d none j h1
  obtain ⟨e, he, hc⟩ := mem_listGo _ fs none j h1
  subst hjs
  refine ⟨g1, ?_⟩
  rcases hc with hc | ⟨s, hc, hs⟩
  · have := classify_file_info _ e j hc
    subst this
    simp at h2
  · subst hs
    obtain ⟨t1, t2, _, _, g4⟩ := classify_sub_inv _ e s hc
    exact ⟨t1, g4⟩

theorem below_sound (fs : FileSys) (hfs : ∀ e ∈ fs, CanonName e.1) (d : Name) (i : Info) (h : Below fs d i) :
    NoTrail d → ∃ e ∈ fs, isPrefix (d ++ [47]) e.1 = true ∧ i = { name := e.1, size := e.2.length, kind := .file } := by
  induction h with
  | here d i hf => intro hd; exact mem_filesM fs d hd i hf
  | down d s i hs _ ih =>
    intro hd
    obtain ⟨g1, t, g2⟩ := mem_subdirsM fs hfs d hd s hs
    obtain ⟨e, he, hp, hi⟩ := ih g1
    refine ⟨e, he, ?_, hi⟩
    rw [g2, List.append_assoc] at hp
    exact isPrefix_left _ _ _ hp

theorem below_complete (fs : FileSys) (hfs : ∀ e ∈ fs, CanonName e.1) : ∀ (n : Nat) (d t : Bytes) (e : Name × Bytes),
    t.length ≤ n → NoTrail d → e ∈ fs → e.1 = d ++ [47] ++ t →
    Below fs d { name := e.1, size := e.2.length, kind := .file } := by
  intro n
  induction n with
  | zero =>
    intro d t e hl _ he het
    have : t = [] := List.length_eq_zero_iff.1 (by omega)
    subst this
    exact absurd (by rw [het]; simp) ((canonFacts e.1 (hfs e he)).noTrail d)
  | succ n ih =>
    intro d t e hl hd he het
    have hnt := (canonFacts e.1 (hfs e he)).noTrail
    cases hf : t.findIdx? (fun b => b == 47) with
    | none =>
      have h47 := (slash_findIdx?_none t).1 hf
      have hne : t ≠ [] := by
        intro hn; subst hn
        exact hnt d (by rw [het]; simp)
      apply Below.here
      unfold filesM listDirectory
      rw [dirPrefix_noTrail d hd]
      exact List.mem_filter.2 ⟨file_mem_listGo _ fs none e _ he (classify_file _ e t het hne h47), rfl⟩
    | some k =>
      obtain ⟨t1, a, t2, g1, _, g3, g4⟩ := findIdx?_some_decomp _ _ _ hf
      have ha : a = 47 := by simpa using g3
      subst ha
      have h47 : (47 : UInt8) ∉ t1 := by
        intro hm
        have := g4 47 hm
        simp at this
      have hmem := sub_mem_listGo (d ++ [47]) fs none e _ he (classify_sub _ e t1 t2 (by rw [het, g1]) h47) (by simp)
      have hs : (d ++ [47] ++ t1) ∈ subdirsM fs d := by
        unfold subdirsM listDirectory
        rw [dirPrefix_noTrail d hd]
        exact List.mem_map.2 ⟨_, List.mem_filter.2 ⟨hmem, rfl⟩, rfl⟩
      obtain ⟨hsn, _⟩ := mem_subdirsM fs hfs d hd _ hs
      refine Below.down d _ _ hs (ih (d ++ [47] ++ t1) t2 e ?_ hsn he (by rw [het, g1]; simp))
      rw [g1] at hl
      simp at hl
      omega

/-- the non-empty files below directory `d` (at any depth), in file-system order -/
def descendantsOf (fs : FileSys) (d : Name) : List Info :=
  fs.filterMap (fun e => if isPrefix (d ++ [47]) e.1 && !e.2.isEmpty
    then some { name := e.1, size := e.2.length, kind := .file } else none)

/-- recursive variant of `expandSpec`: a directory names all non-empty files below it -/
def expandSpecRec (fs : FileSys) (p : Name) : List Info :=
  match fs.find? (fun e => e.1 == p) with
  | some e => if e.2.isEmpty then [] else [{ name := p, size := e.2.length, kind := .file }]
  | none => descendantsOf fs p

theorem mem_descendantsOf (fs : FileSys) (d : Name) (i : Info) : i ∈ descendantsOf fs d ↔
    ∃ e ∈ fs, isPrefix (d ++ [47]) e.1 = true ∧ e.2 ≠ [] ∧ i = { name := e.1, size := e.2.length, kind := .file } := by
  unfold descendantsOf
  rw [List.mem_filterMap]
  constructor
  · rintro ⟨e, he, h⟩
    split at h
    · rename_i hc
      simp only [Bool.and_eq_true, Bool.not_eq_true', List.isEmpty_eq_false_iff] at hc
      injection h with h
      exact ⟨e, he, hc.1, hc.2, h.symm⟩
    · cases h
  · rintro ⟨e, he, h1, h2, h3⟩
    refine ⟨e, he, ?_⟩
    have : (isPrefix (d ++ [47]) e.1 && !e.2.isEmpty) = true := by
      simp only [Bool.and_eq_true, Bool.not_eq_true', List.isEmpty_eq_false_iff]
      exact ⟨h1, h2⟩
    rw [if_pos this, h3]

/-- with recursion, a listing that ends normally contains exactly (as a set) what the piece names recursively -/
theorem infoOne_canon_rec_mem (fs : FileSys) (hfs : ∀ e ∈ fs, CanonName e.1) (p : Name) (hp : CanonName p)
    (res : List Info) (h : infoOne fs true p = .ok res) : ∀ i, i ∈ res ↔ i ∈ expandSpecRec fs p := by
  have hpt := (canonFacts p hp).noTrail
  intro i
  unfold expandSpecRec
  cases hf : fs.find? (fun e => e.1 == p) with
  | some e =>
    have hg : getPathInfo fs p = some { name := p, size := e.2.length, kind := .file } := by
      unfold getPathInfo; rw [hf]
    unfold infoOne at h
    rw [hg] at h
    simp only [] at h
    rw [if_neg (by decide)] at h
    injection h with h
    subst h
    unfold iiKeepFile
    obtain ⟨nm, c⟩ := e
    simp only []
    cases c <;> exact Iff.rfl
  | none =>
    by_cases hd : isDirOf fs p = true
    · have hg : getPathInfo fs p = some { name := p, size := 0, kind := .dir } := by
        unfold getPathInfo; rw [hf]; simp only []; rw [if_pos hd]
      unfold infoOne at h
      rw [hg] at h
      simp only [if_true] at h
      cases hl : listDirectoryRecursive fs p with
      | error err => rw [hl] at h; cases h
      | ok dfiles =>
        rw [hl] at h
        injection h with h
        subst h
        unfold listDirectoryRecursive at hl
        have hm := listRecGo_mem fs _ _ _ _ hl
        rw [List.mem_filter, hm i, mem_descendantsOf]
        constructor
        · rintro ⟨h1 | ⟨d, hd, hb⟩, h2⟩
          · cases h1
          · have : d = p := by simpa using hd
            subst this
            obtain ⟨e, he, g1, g2⟩ := below_sound fs hfs d i hb hpt
            subst g2
            refine ⟨e, he, g1, ?_, rfl⟩
            intro hn
            rw [hn] at h2
            exact absurd h2 (by unfold iiKeepListed; simp)
        · rintro ⟨e, he, g1, g2, g3⟩
          subst g3
          refine ⟨Or.inr ⟨p, List.mem_cons_self .., ?_⟩, ?_⟩
          · have hel := isPrefix_elim _ _ g1
            exact below_complete fs hfs _ p _ e (Nat.le_refl _) hpt he hel
          · unfold iiKeepListed
            cases hc : e.2 with
            | nil => exact absurd hc g2
            | cons _ _ => rfl
    · have hg : getPathInfo fs p = none := by
        unfold getPathInfo; rw [hf]; simp only []; rw [if_neg hd]
      unfold infoOne at h
      rw [hg] at h
      cases h

theorem expandSpecRec_absent (fs : FileSys) (p : Name) (hp : NoTrail p)
    (hex : (fs.any (fun e => e.1 == p) || isDirOf fs p) = false) : expandSpecRec fs p = [] := by
  rw [Bool.or_eq_false_iff] at hex
  unfold expandSpecRec
  cases hf : fs.find? (fun e => e.1 == p) with
  | some e =>
    have h1 := List.mem_of_find?_eq_some hf
    have h2 := List.find?_some hf
    have : fs.any (fun e => e.1 == p) = true := List.any_eq_true.2 ⟨e, h1, h2⟩
    rw [hex.1] at this
    cases this
  | none =>
    simp only []
    cases hd : descendantsOf fs p with
    | nil => rfl
    | cons i t =>
      have hi : i ∈ descendantsOf fs p := by rw [hd]; exact List.mem_cons_self ..
      obtain ⟨e, he, g1, _, _⟩ := (mem_descendantsOf fs p i).1 hi
      have hdir := hex.2
      unfold isDirOf at hdir
      rw [dirPrefix_noTrail p hp] at hdir
      have : fs.any (fun e => isPrefix (p ++ [47]) e.1) = true := List.any_eq_true.2 ⟨e, he, g1⟩
      rw [hdir] at this
      cases this

theorem infoAll_canon_rec_mem (rx : Name → Name → Bool) (hrx : LiteralRx rx) (fs : FileSys) (hfs : ∀ e ∈ fs, CanonName e.1) :
    ∀ (pieces : List Name) (res : List Info), (∀ p ∈ pieces, CanonName p) →
      infoAll fs true (pieces.flatMap (expandOne rx fs)) = .ok res →
      ∀ i, i ∈ res ↔ i ∈ pieces.flatMap (expandSpecRec fs) := by
  intro pieces
  induction pieces with
  | nil =>
    intro res _ h i
    rw [List.flatMap_nil, infoAll] at h
    injection h with h
    subst h
    exact Iff.rfl
  | cons p t ih =>
    intro res hp h i
    have hpc := hp p (List.mem_cons_self ..)
    have ih' := fun r => ih r (fun x hx => hp x (List.mem_cons_of_mem _ hx))
    rw [List.flatMap_cons, expandOne_canon rx hrx fs hfs p hpc] at h
    rw [List.flatMap_cons, List.mem_append]
    cases hex : (fs.any (fun e => e.1 == p) || isDirOf fs p) with
    | true =>
      rw [hex, if_pos rfl, List.singleton_append, infoAll] at h
      cases h1 : infoOne fs true p with
      | error e => rw [h1] at h; cases h
      | ok a =>
        rw [h1] at h
        simp only [] at h
        cases h2 : infoAll fs true (t.flatMap (expandOne rx fs)) with
        | error e => rw [h2] at h; cases h
        | ok b =>
          rw [h2] at h
          injection h with h
          subst h
          rw [List.mem_append, infoOne_canon_rec_mem fs hfs p hpc a h1 i, ih' b h2 i]
    | false =>
      rw [hex, if_neg (by decide), List.nil_append] at h
      rw [expandSpecRec_absent fs p (canonFacts p hpc).noTrail hex, ih' res h i]
      simp

/-- with `recurse_directories = true` (directories nested to any depth): a successful `InitInputFileInfo` on a
';'-list of canonical names lists exactly — as a set; order and multiplicity are not stated here — what the
pieces name recursively: a non-empty file itself, or all non-empty files below a directory -/
theorem initInputFileInfo_canon_rec_mem (rx : Name → Name → Bool) (hrx : LiteralRx rx) (fs : FileSys)
    (hfs : ∀ e ∈ fs, CanonName e.1) (pieces : List Name) (hp : ∀ p ∈ pieces, CanonName p) (infos : List Info)
    (h : initInputFileInfo rx fs (joinSemi pieces) true = .ok infos) :
    ∀ i, i ∈ infos ↔ i ∈ pieces.flatMap (expandSpecRec fs) := by
  obtain ⟨h1, _⟩ := initInputFileInfo_ok rx fs _ true infos h
  rw [convertToURIs_joinSemi rx fs pieces hp] at h1
  exact infoAll_canon_rec_mem rx hrx fs hfs pieces infos hp h1


/-! ### A.9 `recurse_directories = true` in general: the breadth-first order (sorted file system) -/

/-! #### queue order = level order -/

/-- level-order traversal, `n` levels: the files of the directories `ds`, then of their sub-directories, … -/
def levelsM (fs : FileSys) : Nat → List Name → List Info
  | 0, _ => []
  | n + 1, ds => ds.flatMap (filesM fs) ++ levelsM fs n (ds.flatMap (subdirsM fs))

/-- the number of directories on the first `n` levels -/
def costM (fs : FileSys) : Nat → List Name → Nat
  | 0, _ => 0
  | n + 1, ds => ds.length + costM fs n (ds.flatMap (subdirsM fs))

/-- the directories of level `n` -/
def iterM (fs : FileSys) : Nat → List Name → List Name
  | 0, ds => ds
  | n + 1, ds => iterM fs n (ds.flatMap (subdirsM fs))

theorem listRecGo_level (fs : FileSys) : ∀ (cur : List Name) (fuel : Nat) (nxt : List Name) (out : List Info),
    listRecGo fs (fuel + cur.length) (cur ++ nxt) out =
      listRecGo fs fuel (nxt ++ cur.flatMap (subdirsM fs)) (out ++ cur.flatMap (filesM fs)) := by
  intro cur
  induction cur with
  | nil => intro fuel nxt out; simp
  | cons d cur ih =>
    intro fuel nxt out
    have e1 : fuel + (d :: cur).length = (fuel + cur.length) + 1 := by rw [List.length_cons]; omega
    rw [e1, List.cons_append, listRecGo]
    have e2 : cur ++ nxt ++ List.map (fun x => x.name) (List.filter (fun i => i.kind == Kind.dir) (listDirectory fs d))
        = cur ++ (nxt ++ subdirsM fs d) := by rw [List.append_assoc]; rfl
    have e3 : out ++ List.filter (fun i => i.kind != Kind.dir) (listDirectory fs d) = out ++ filesM fs d := rfl
    rw [e2, e3, ih, List.flatMap_cons, List.flatMap_cons]
    simp only [List.append_assoc]

theorem listRecGo_levels (fs : FileSys) : ∀ (n : Nat) (ds : List Name) (fuel : Nat) (out : List Info),
    iterM fs n ds = [] → costM fs n ds < fuel → listRecGo fs fuel ds out = .ok (out ++ levelsM fs n ds) := by
  intro n
  induction n with
  | zero =>
    intro ds fuel out h1 h2
    rw [iterM] at h1
    subst h1
    cases fuel with
    | zero => rw [costM] at h2; omega
    | succ f => rw [listRecGo, levelsM, List.append_nil]
  | succ n ih =>
    intro ds fuel out h1 h2
    rw [iterM] at h1
    rw [costM] at h2
    obtain ⟨f, hf⟩ : ∃ f, fuel = f + ds.length := ⟨fuel - ds.length, by omega⟩
    subst hf
    have := listRecGo_level fs ds f [] out
    rw [List.append_nil, List.nil_append] at this
    rw [this, ih _ f _ h1 (by omega), levelsM, List.append_assoc]


/-! #### grouping a list by an adjacent-deduplicated key -/

section Group
variable {α K : Type} [DecidableEq K]

/-- the keys in order of appearance, a key equal to the previous one (`last`) not repeated: the sub-directory
entries of `listGo` -/
def groupKeys (κ : α → Option K) : List α → Option K → List K
  | [], _ => []
  | x :: r, last =>
    match κ x with
    | none => groupKeys κ r last
    | some s => if last = some s then groupKeys κ r last else s :: groupKeys κ r (some s)

/-- the elements with a given key are contiguous: after an element keyed `s`, once an element is not keyed `s`
no later one is -/
def Contig (κ : α → Option K) : List α → Prop
  | [] => True
  | x :: r => Contig κ r ∧
      ∀ s, κ x = some s → ∀ l1 y l2, r = l1 ++ y :: l2 → κ y ≠ some s → ∀ z ∈ l2, κ z ≠ some s

omit [DecidableEq K] in
theorem contig_suffix (κ : α → Option K) : ∀ (a b : List α), Contig κ (a ++ b) → Contig κ b := by
  intro a
  induction a with
  | nil => intro b h; exact h
  | cons x a ih => intro b h; exact ih b h.1

theorem groupKeys_skip (κ : α → Option K) (s : K) (r2 : List α) : ∀ (r1 : List α), (∀ x ∈ r1, κ x = some s) →
    groupKeys κ (r1 ++ r2) (some s) = groupKeys κ r2 (some s) := by
  intro r1
  induction r1 with
  | nil => intro _; rfl
  | cons x r1 ih =>
    intro h
    rw [List.cons_append, groupKeys, h x (List.mem_cons_self ..)]
    simp only [if_true]
    exact ih (fun y hy => h y (List.mem_cons_of_mem _ hy))

theorem groupKeys_last_irrel (κ : α → Option K) (s : K) : ∀ (r : List α), (∀ x ∈ r, κ x ≠ some s) →
    groupKeys κ r (some s) = groupKeys κ r none := by
  intro r
  induction r with
  | nil => intro _; rfl
  | cons x r ih =>
    intro h
    have ih' := ih (fun y hy => h y (List.mem_cons_of_mem _ hy))
    rw [groupKeys, groupKeys]
    cases hk : κ x with
    | none => exact ih'
    | some s' =>
      simp only []
      have hne : ¬ (some s = some s') := by
        intro hh
        exact h x (List.mem_cons_self ..) (by rw [hk, hh])
      rw [if_neg hne, if_neg (by simp)]

theorem groupKeys_mem (κ : α → Option K) : ∀ (r : List α) (last : Option K) (s : K), s ∈ groupKeys κ r last →
    ∃ x ∈ r, κ x = some s := by
  intro r
  induction r with
  | nil => intro _ _ h; cases h
  | cons x r ih =>
    intro last s h
    have lift : ∀ last', s ∈ groupKeys κ r last' → ∃ y ∈ x :: r, κ y = some s := by
      intro last' h'
      obtain ⟨y, hy, hk⟩ := ih last' s h'
      exact ⟨y, List.mem_cons_of_mem _ hy, hk⟩
    rw [groupKeys] at h
    cases hk : κ x with
    | none => rw [hk] at h; exact lift _ h
    | some s' =>
      rw [hk] at h
      simp only [] at h
      split at h
      · exact lift _ h
      · rcases List.mem_cons.1 h with h | h
        · exact ⟨x, List.mem_cons_self .., by rw [hk, h]⟩
        · exact lift _ h

theorem span_split (q : α → Bool) : ∀ (r : List α), ∃ r1 r2, r = r1 ++ r2 ∧ (∀ x ∈ r1, q x = true) ∧
    (r2 = [] ∨ ∃ y l2, r2 = y :: l2 ∧ q y = false) := by
  intro r
  induction r with
  | nil => exact ⟨[], [], rfl, by simp, Or.inl rfl⟩
  | cons x r ih =>
    by_cases hx : q x = true
    · obtain ⟨r1, r2, g1, g2, g3⟩ := ih
      refine ⟨x :: r1, r2, by rw [g1]; rfl, ?_, g3⟩
      intro y hy
      rcases List.mem_cons.1 hy with hy | hy
      · rw [hy]; exact hx
      · exact g2 y hy
    · exact ⟨[], x :: r, rfl, by simp, Or.inr ⟨x, r, rfl, by simpa using hx⟩⟩

/-- with contiguous keys, concatenating the groups in order of their keys gives back the keyed elements in order -/
theorem groups_flatMap (κ : α → Option K) : ∀ (n : Nat) (l : List α), l.length ≤ n → Contig κ l →
    (groupKeys κ l none).flatMap (fun s => l.filter (fun x => decide (κ x = some s))) = l.filter (fun x => (κ x).isSome) := by
  intro n
  induction n with
  | zero =>
    intro l hl _
    have : l = [] := List.length_eq_zero_iff.1 (by omega)
    subst this
    rfl
  | succ n ih =>
    intro l hl hc
    cases l with
    | nil => rfl
    | cons x r =>
      cases hk : κ x with
      | none =>
        have h1 : ∀ s, (x :: r).filter (fun y => decide (κ y = some s)) = r.filter (fun y => decide (κ y = some s)) := by
          intro s
          rw [List.filter_cons, hk]
          simp
        have h2 : (x :: r).filter (fun y => (κ y).isSome) = r.filter (fun y => (κ y).isSome) := by
          rw [List.filter_cons, hk]
          simp
        rw [groupKeys, hk]
        simp only [h1, h2]
        exact ih r (by simpa using hl) hc.1
      | some s =>
        obtain ⟨r1, r2, g1, g2, g3⟩ := span_split (fun y => decide (κ y = some s)) r
        have hr1 : ∀ y ∈ r1, κ y = some s := fun y hy => by simpa using g2 y hy
        have hr2 : ∀ y ∈ r2, κ y ≠ some s := by
          rcases g3 with g3 | ⟨y, l2, g3, g4⟩
          · intro y hy; rw [g3] at hy; cases hy
          · have hy : κ y ≠ some s := by simpa using g4
            intro z hz
            rw [g3] at hz
            rcases List.mem_cons.1 hz with hz | hz
            · rw [hz]; exact hy
            · exact hc.2 s hk r1 y l2 (by rw [g1, g3]) hy z hz
        have hgk : groupKeys κ (x :: r) none = s :: groupKeys κ r2 none := by
          rw [groupKeys, hk]
          simp only []
          rw [if_neg (by simp), g1, groupKeys_skip κ s r2 r1 hr1, groupKeys_last_irrel κ s r2 hr2]
        have hf1 : (x :: r).filter (fun y => decide (κ y = some s)) = x :: r1 := by
          rw [List.filter_cons, hk, g1, List.filter_append]
          simp only [decide_true, if_true]
          rw [List.filter_eq_self.2 (fun y hy => by simp [hr1 y hy]),
            List.filter_eq_nil_iff.2 (fun y hy => by simpa using hr2 y hy), List.append_nil]
        have hf2 : ∀ s' ∈ groupKeys κ r2 none,
            (x :: r).filter (fun y => decide (κ y = some s')) = r2.filter (fun y => decide (κ y = some s')) := by
          intro s' hs'
          obtain ⟨y, hy, hky⟩ := groupKeys_mem κ r2 none s' hs'
          have hne : s ≠ s' := by
            intro hh
            exact hr2 y hy (by rw [hky, hh])
          rw [List.filter_cons, hk, g1, List.filter_append]
          have e1 : decide (some s = some s') = false := by simp [hne]
          rw [e1]
          simp only [Bool.false_eq_true, if_false]
          rw [List.filter_eq_nil_iff.2 (fun z hz => by rw [hr1 z hz]; simp [hne]), List.nil_append]
        have hf3 : (x :: r).filter (fun y => (κ y).isSome) = x :: r1 ++ r2.filter (fun y => (κ y).isSome) := by
          rw [List.filter_cons, hk, g1, List.filter_append]
          simp only [Option.isSome_some, if_true]
          rw [List.filter_eq_self.2 (fun y hy => by simp [hr1 y hy])]
          rfl
        have hc2 : Contig κ r2 := contig_suffix κ r1 r2 (g1 ▸ hc.1)
        have hl2 : r2.length ≤ n := by
          have : r.length = r1.length + r2.length := by rw [g1, List.length_append]
          simp only [List.length_cons] at hl
          omega
        rw [hgk, List.flatMap_cons, hf1, hf3, CoverAux.flatMap_congr_mem _ _ _ hf2, ih r2 hl2 hc2]

end Group


/-! #### the sub-directories of one directory, and the entries below each -/

/-- the sub-directory of `dir` an entry lies in -/
def subKey (dir : Bytes) (e : Name × Bytes) : Option Name :=
  match classify dir e with
  | .sub s => some s
  | _ => none

theorem subdirs_listGo (dir : Bytes) : ∀ (fs : FileSys) (last : Option Bytes),
    ((listGo dir fs last).filter (fun i => i.kind == .dir)).map (·.name) = groupKeys (subKey dir) fs last := by
  intro fs
  induction fs with
  | nil => intro _; rfl
  | cons e rest ih =>
    intro last
    rw [listGo_cons, groupKeys]
    cases hc : classify dir e with
    | skip =>
      have hk : subKey dir e = none := by unfold subKey; rw [hc]
      rw [hk]
      exact ih _
    | file j =>
      have hk : subKey dir e = none := by unfold subKey; rw [hc]
      rw [hk]
      simp only []
      have := classify_file_info _ e j hc
      subst this
      rw [List.filter_cons]
      simp only [show ((Kind.file == Kind.dir) = true) = False from by simp, if_false]
      exact ih _
    | sub s =>
      have hk : subKey dir e = some s := by unfold subKey; rw [hc]
      rw [hk]
      simp only []
      split
      · exact ih _
      · rw [List.filter_cons]
        simp only [beq_self_eq_true, if_true, List.map_cons]
        rw [ih]

theorem subdirsM_eq (fs : FileSys) (d : Name) (hd : NoTrail d) :
    subdirsM fs d = groupKeys (subKey (d ++ [47])) fs none := by
  unfold subdirsM listDirectory
  rw [dirPrefix_noTrail d hd, subdirs_listGo]

theorem subKey_prefix (dir : Bytes) (e : Name × Bytes) (s : Name) (h : subKey dir e = some s) :
    isPrefix (s ++ [47]) e.1 = true ∧ ∃ t1, s = dir ++ t1 ∧ (47 : UInt8) ∉ t1 := by
  unfold subKey at h
  cases hc : classify dir e with
  | skip => rw [hc] at h; cases h
  | file j => rw [hc] at h; cases h
  | sub s' =>
    rw [hc] at h
    injection h with h
    subst h
    obtain ⟨t1, t2, g1, g2, g3⟩ := classify_sub_inv _ e s' hc
    refine ⟨?_, t1, g3, g2⟩
    rw [g1, g3]
    have : dir ++ (t1 ++ 47 :: t2) = (dir ++ t1 ++ [47]) ++ t2 := by simp
    rw [this]
    exact isPrefix_append _ _

theorem prefix_subKey (dir : Bytes) (e : Name × Bytes) (t1 : Bytes) (h47 : (47 : UInt8) ∉ t1)
    (h : isPrefix (dir ++ t1 ++ [47]) e.1 = true) : subKey dir e = some (dir ++ t1) := by
  have he := isPrefix_elim _ _ h
  generalize List.drop (dir ++ t1 ++ [47]).length e.1 = t2 at he
  unfold subKey
  rw [classify_sub dir e t1 t2 (by rw [he]; simp) h47]

/-- the number of '/' in a name -/
def slashes (x : Bytes) : Nat := x.count 47

theorem subKey_isSome (d : Bytes) (e : Name × Bytes) :
    (subKey (d ++ [47]) e).isSome = (isPrefix (d ++ [47]) e.1 && decide (slashes d + 2 ≤ slashes e.1)) := by
  unfold subKey classify
  by_cases hp : isPrefix (d ++ [47]) e.1 = true
  · have he := isPrefix_elim _ _ hp
    rw [hp, if_pos rfl]
    generalize List.drop (d ++ [47]).length e.1 = t at he ⊢
    have hs : slashes e.1 = slashes d + 1 + slashes t := by
      unfold slashes
      rw [he, List.count_append, List.count_append]
      rfl
    cases hf : t.findIdx? (fun b => b == 47) with
    | none =>
      have h47 := (slash_findIdx?_none t).1 hf
      have : slashes t = 0 := List.count_eq_zero.2 h47
      have hd : decide (slashes d + 2 ≤ slashes e.1) = false := by
        rw [decide_eq_false_iff_not]; omega
      rw [hd]
      cases t <;> rfl
    | some k =>
      have h47 : (47 : UInt8) ∈ t := by
        apply Classical.byContradiction
        intro hn
        rw [(slash_findIdx?_none t).2 hn] at hf
        cases hf
      have : 0 < slashes t := List.count_pos_iff.2 h47
      have hd : decide (slashes d + 2 ≤ slashes e.1) = true := by
        rw [decide_eq_true_eq]; omega
      rw [hd]
      rfl
  · have hp' : isPrefix (d ++ [47]) e.1 = false := by
      cases hh : isPrefix (d ++ [47]) e.1 with
      | false => rfl
      | true => exact absurd hh hp
    rw [hp']
    rfl

/-! #### sorted file systems are prefix-contiguous -/

/-- the order of `std::map<std::string, …>`: bytewise lexicographic -/
def lexLt : Bytes → Bytes → Bool
  | _, [] => false
  | [], _ :: _ => true
  | a :: x, b :: y => decide (a < b) || (a == b && lexLt x y)

/-- the entries are in strictly increasing name order (as MemFS iterates them) -/
def FsSorted (fs : FileSys) : Prop := fs.Pairwise (fun a b => lexLt a.1 b.1 = true)

instance (fs : FileSys) : Decidable (FsSorted fs) := by unfold FsSorted; infer_instance

theorem prefix_between : ∀ (P x z y : Bytes), lexLt x z = true → lexLt z y = true →
    isPrefix P x = true → isPrefix P y = true → isPrefix P z = true := by
  intro P
  induction P with
  | nil => intro _ _ _ _ _ _ _; rfl
  | cons c P ih =>
    intro x z y h1 h2 h3 h4
    cases x with
    | nil => rw [isPrefix] at h3; cases h3
    | cons a x =>
    cases y with
    | nil => rw [isPrefix] at h4; cases h4
    | cons b y =>
    cases z with
    | nil => rw [lexLt] at h1; cases h1
    | cons m z =>
      rw [isPrefix] at h3 h4 ⊢
      rw [lexLt] at h1 h2
      simp only [Bool.and_eq_true, beq_iff_eq, Bool.or_eq_true, decide_eq_true_eq] at h1 h2 h3 h4 ⊢
      obtain ⟨ha, h3⟩ := h3
      obtain ⟨hb, h4⟩ := h4
      subst ha hb
      have hm : c = m ∧ lexLt x z = true ∧ lexLt z y = true := by
        rcases h1 with h1 | ⟨e1, h1⟩
        · rcases h2 with h2 | ⟨e2, h2⟩
          · rw [UInt8.lt_iff_toNat_lt] at h1 h2; omega
          · subst e2; rw [UInt8.lt_iff_toNat_lt] at h1; omega
        · rcases h2 with h2 | ⟨e2, h2⟩
          · subst e1; rw [UInt8.lt_iff_toNat_lt] at h2; omega
          · exact ⟨e1, h1, h2⟩
      exact ⟨hm.1, ih x z y hm.2.1 hm.2.2 h3 h4⟩

theorem contig_of_sorted (d : Bytes) : ∀ (fs : FileSys), FsSorted fs → Contig (subKey (d ++ [47])) fs := by
  intro fs
  induction fs with
  | nil => intro _; exact True.intro
  | cons x r ih =>
    intro hs
    unfold FsSorted at hs
    rw [List.pairwise_cons] at hs
    refine ⟨ih hs.2, ?_⟩
    intro s hx l1 y l2 hr hy z hz hkz
    obtain ⟨px, t1, hs1, h47⟩ := subKey_prefix _ x s hx
    obtain ⟨pz, _⟩ := subKey_prefix _ z s hkz
    have hyr : y ∈ r := by rw [hr]; simp
    have hxy := hs.1 y hyr
    have hp := hs.2
    rw [hr, List.pairwise_append] at hp
    have hyz := (List.pairwise_cons.1 hp.2.1).1 z hz
    have py := prefix_between _ _ _ _ hxy hyz px pz
    rw [hs1] at py
    exact hy (by rw [prefix_subKey _ y t1 h47 py, hs1])

/-- L(d): the entries below the sub-directories of `d`, sub-directory by sub-directory, are the entries at least
two levels below `d`, in file-system order -/
theorem subdirs_groups (fs : FileSys) (hs : FsSorted fs) (d : Name) (hd : NoTrail d) :
    (subdirsM fs d).flatMap (fun s => fs.filter (fun e => isPrefix (s ++ [47]) e.1)) =
      fs.filter (fun e => isPrefix (d ++ [47]) e.1 && decide (slashes d + 2 ≤ slashes e.1)) := by
  rw [subdirsM_eq fs d hd]
  have h := groups_flatMap (subKey (d ++ [47])) fs.length fs (Nat.le_refl _) (contig_of_sorted d fs hs)
  rw [List.filter_congr (fun e _ => subKey_isSome d e)] at h
  rw [← h]
  apply CoverAux.flatMap_congr_mem
  intro s hsm
  obtain ⟨x, _, hx⟩ := groupKeys_mem _ fs none s hsm
  obtain ⟨_, t1, hs1, h47⟩ := subKey_prefix _ x s hx
  apply List.filter_congr
  intro e _
  rw [Bool.eq_iff_iff, decide_eq_true_eq]
  constructor
  · intro hp
    rw [hs1] at hp
    rw [prefix_subKey _ e t1 h47 hp, hs1]
  · intro hk
    exact (subKey_prefix _ e s hk).1


/-! #### the levels of the traversal -/

/-- the non-empty files exactly `k` directory levels below `p` (`k = 0`: directly inside), in file-system order -/
def filesAt (fs : FileSys) (p : Name) (k : Nat) : List Info :=
  fs.filterMap (fun e =>
    if isPrefix (p ++ [47]) e.1 && (slashes e.1 == slashes p + k + 1) && !e.2.isEmpty
    then some { name := e.1, size := e.2.length, kind := .file } else none)

/-- a bound for the depth of the names -/
def depthBound (fs : FileSys) : Nat := (fs.map (fun e => slashes e.1)).sum

/-- breadth-first order: the non-empty files below `p` by increasing depth, files of equal depth in
file-system order -/
def descendantsBfs (fs : FileSys) (p : Name) : List Info := (List.range (depthBound fs)).flatMap (filesAt fs p)

theorem slashes_of_prefix (d : Bytes) (e : Name × Bytes) (h : isPrefix (d ++ [47]) e.1 = true) :
    slashes e.1 = slashes d + 1 + slashes (e.1.drop (d.length + 1)) := by
  have he := isPrefix_elim _ _ h
  have hl : (d ++ [47]).length = d.length + 1 := by simp
  rw [hl] at he
  generalize List.drop (d.length + 1) e.1 = t at he ⊢
  unfold slashes
  rw [he, List.count_append, List.count_append]
  rfl

/-- the invariant of level `k`: the entries below the directories of the level, directory by directory, are
the entries at least `k + 1` levels below `p` in file-system order; every directory of the level is at depth `k`,
does not end in '/', and has an entry below it -/
def LevelInv (fs : FileSys) (p : Name) (k : Nat) (ds : List Name) : Prop :=
  ds.flatMap (fun d => fs.filter (fun e => isPrefix (d ++ [47]) e.1)) =
    fs.filter (fun e => isPrefix (p ++ [47]) e.1 && decide (slashes p + k + 1 ≤ slashes e.1)) ∧
  ∀ d ∈ ds, NoTrail d ∧ slashes d = slashes p + k ∧ ∃ e ∈ fs, isPrefix (d ++ [47]) e.1 = true

theorem levelInv_zero (fs : FileSys) (p : Name) (hp : NoTrail p) (hdir : isDirOf fs p = true) : LevelInv fs p 0 [p] := by
  refine ⟨?_, ?_⟩
  · rw [List.flatMap_cons, List.flatMap_nil, List.append_nil]
    apply List.filter_congr
    intro e _
    cases hpe : isPrefix (p ++ [47]) e.1 with
    | false => rfl
    | true =>
      have := slashes_of_prefix p e hpe
      have : decide (slashes p + 0 + 1 ≤ slashes e.1) = true := by rw [decide_eq_true_eq]; omega
      rw [this]
      rfl
  · intro d hd
    have : d = p := by simpa using hd
    subst this
    refine ⟨hp, rfl, ?_⟩
    unfold isDirOf at hdir
    rw [dirPrefix_noTrail d hp] at hdir
    exact List.any_eq_true.1 hdir

theorem mem_subdirsM' (fs : FileSys) (d : Name) (hd : NoTrail d) (s : Name) (h : s ∈ subdirsM fs d) :
    slashes s = slashes d + 1 ∧ ∃ e ∈ fs, isPrefix (s ++ [47]) e.1 = true := by
  rw [subdirsM_eq fs d hd] at h
  obtain ⟨x, hx, hk⟩ := groupKeys_mem _ fs none s h
  obtain ⟨g1, t1, g2, g3⟩ := subKey_prefix _ x s hk
  refine ⟨?_, x, hx, g1⟩
  unfold slashes
  rw [g2, List.count_append, List.count_append, List.count_eq_zero.2 g3]
  rfl

theorem levelInv_succ (fs : FileSys) (hfs : ∀ e ∈ fs, CanonName e.1) (hs : FsSorted fs) (p : Name) (k : Nat) (ds : List Name)
    (h : LevelInv fs p k ds) : LevelInv fs p (k + 1) (ds.flatMap (subdirsM fs)) := by
  obtain ⟨h1, h2⟩ := h
  refine ⟨?_, ?_⟩
  · rw [List.flatMap_assoc]
    have e1 : ds.flatMap (fun d => (subdirsM fs d).flatMap (fun s => fs.filter (fun e => isPrefix (s ++ [47]) e.1))) =
        ds.flatMap (fun d => (fs.filter (fun e => isPrefix (d ++ [47]) e.1)).filter
          (fun e => decide (slashes p + k + 2 ≤ slashes e.1))) := by
      apply CoverAux.flatMap_congr_mem
      intro d hd
      obtain ⟨g1, g2, _⟩ := h2 d hd
      rw [subdirs_groups fs hs d g1, List.filter_filter]
      apply List.filter_congr
      intro e _
      rw [g2, Bool.and_comm]
    rw [e1, ← List.filter_flatMap, h1, List.filter_filter]
    apply List.filter_congr
    intro e _
    cases isPrefix (p ++ [47]) e.1 with
    | false => simp
    | true =>
      simp only [Bool.true_and]
      rw [Bool.eq_iff_iff]
      simp only [Bool.and_eq_true, decide_eq_true_eq]
      omega
  · intro s hsm
    obtain ⟨d, hd, hsd⟩ := List.mem_flatMap.1 hsm
    obtain ⟨g1, g2, _⟩ := h2 d hd
    obtain ⟨g3, _⟩ := mem_subdirsM fs hfs d g1 s hsd
    obtain ⟨g4, g5⟩ := mem_subdirsM' fs d g1 s hsd
    exact ⟨g3, by rw [g4, g2]; omega, g5⟩

theorem levelInv_iter (fs : FileSys) (hfs : ∀ e ∈ fs, CanonName e.1) (hs : FsSorted fs) (p : Name) :
    ∀ (n k : Nat) (ds : List Name), LevelInv fs p k ds → LevelInv fs p (k + n) (iterM fs n ds) := by
  intro n
  induction n with
  | zero => intro k ds h; exact h
  | succ n ih =>
    intro k ds h
    rw [iterM]
    have := ih (k + 1) _ (levelInv_succ fs hfs hs p k ds h)
    rw [show k + (n + 1) = k + 1 + n from by omega]
    exact this


/-- the kept files of one directory of level `k` -/
theorem childrenOf_level (fs : FileSys) (p d : Name) (k : Nat) (hd : slashes d = slashes p + k) :
    childrenOf fs d = (fs.filter (fun e => isPrefix (d ++ [47]) e.1)).filterMap (fun e =>
      if (slashes e.1 == slashes p + k + 1) && !e.2.isEmpty
      then some { name := e.1, size := e.2.length, kind := .file } else none) := by
  unfold childrenOf
  rw [List.filterMap_filter]
  apply filterMap_congr_mem
  intro e _
  cases hpe : isPrefix (d ++ [47]) e.1 with
  | false => simp
  | true =>
    have hsl := slashes_of_prefix d e hpe
    have : (!(e.1.drop (d.length + 1)).contains 47) = (slashes e.1 == slashes p + k + 1) := by
      rw [Bool.eq_iff_iff]
      simp only [Bool.not_eq_true', beq_iff_eq]
      constructor
      · intro h
        have : (47 : UInt8) ∉ e.1.drop (d.length + 1) := by
          intro hm
          rw [List.contains_iff_mem.2 hm] at h
          cases h
        have := List.count_eq_zero.2 this
        unfold slashes at hsl hd ⊢
        omega
      · intro h
        have h0 : slashes (e.1.drop (d.length + 1)) = 0 := by omega
        cases hc : (e.1.drop (d.length + 1)).contains 47 with
        | false => rfl
        | true =>
          have := List.count_pos_iff.2 (List.contains_iff_mem.1 hc)
          unfold slashes at h0
          omega
    rw [this]
    simp

theorem files_level (fs : FileSys) (hfs : ∀ e ∈ fs, CanonName e.1) (p : Name) (k : Nat) (ds : List Name)
    (h : LevelInv fs p k ds) :
    (ds.flatMap (filesM fs)).filter (fun i => iiKeepListed i.size (i.kind == .file)) = filesAt fs p k := by
  obtain ⟨h1, h2⟩ := h
  rw [List.filter_flatMap]
  have e1 : ds.flatMap (fun d => (filesM fs d).filter (fun i => iiKeepListed i.size (i.kind == .file))) =
      ds.flatMap (fun d => (fs.filter (fun e => isPrefix (d ++ [47]) e.1)).filterMap (fun e =>
        if (slashes e.1 == slashes p + k + 1) && !e.2.isEmpty
        then some { name := e.1, size := e.2.length, kind := .file } else none)) := by
    apply CoverAux.flatMap_congr_mem
    intro d hd
    obtain ⟨g1, g2, _⟩ := h2 d hd
    rw [← childrenOf_level fs p d k g2, ← listDirectory_kept fs hfs d g1]
    unfold filesM
    rw [List.filter_filter]
    apply List.filter_congr
    intro i _
    unfold iiKeepListed
    cases i.kind <;> simp
  rw [e1, ← List.filterMap_flatMap, h1, List.filterMap_filter]
  unfold filesAt
  apply filterMap_congr_mem
  intro e _
  cases isPrefix (p ++ [47]) e.1 with
  | false => simp
  | true =>
    simp only [Bool.true_and]
    by_cases hsl : slashes e.1 = slashes p + k + 1
    · have : decide (slashes p + k + 1 ≤ slashes e.1) = true := by rw [decide_eq_true_eq]; omega
      rw [this]
      rfl
    · have : (slashes e.1 == slashes p + k + 1) = false := by simpa using hsl
      rw [this]
      simp

theorem levels_filesAt (fs : FileSys) (hfs : ∀ e ∈ fs, CanonName e.1) (hs : FsSorted fs) (p : Name) :
    ∀ (n k : Nat) (ds : List Name), LevelInv fs p k ds →
      (levelsM fs n ds).filter (fun i => iiKeepListed i.size (i.kind == .file)) =
        (List.range n).flatMap (fun j => filesAt fs p (k + j)) := by
  intro n
  induction n with
  | zero => intro k ds _; rfl
  | succ n ih =>
    intro k ds h
    rw [levelsM, List.filter_append, files_level fs hfs p k ds h,
      ih (k + 1) _ (levelInv_succ fs hfs hs p k ds h), List.range_succ_eq_map, List.flatMap_cons,
      List.flatMap_map]
    congr 1
    apply CoverAux.flatMap_congr_mem
    intro j _
    rw [show k + 1 + j = k + j.succ from by omega]

theorem length_le_flatMap {α β : Type} (g : α → List β) : ∀ (l : List α), (∀ x ∈ l, g x ≠ []) →
    l.length ≤ (l.flatMap g).length := by
  intro l
  induction l with
  | nil => intro _; exact Nat.le_refl _
  | cons x l ih =>
    intro h
    rw [List.flatMap_cons, List.length_append, List.length_cons]
    have h1 : 0 < (g x).length := List.length_pos_iff.2 (h x (List.mem_cons_self ..))
    have h2 := ih (fun y hy => h y (List.mem_cons_of_mem _ hy))
    omega

/-- the number of entries at least `k + 1` levels deep -/
def deepCount (fs : FileSys) (k : Nat) : Nat := (fs.filter (fun e => decide (k + 1 ≤ slashes e.1))).length

theorem level_length (fs : FileSys) (p : Name) (k : Nat) (ds : List Name) (h : LevelInv fs p k ds) :
    ds.length ≤ deepCount fs k := by
  obtain ⟨h1, h2⟩ := h
  have hne : ∀ d ∈ ds, fs.filter (fun e => isPrefix (d ++ [47]) e.1) ≠ [] := by
    intro d hd hn
    obtain ⟨_, _, e, he, hp⟩ := h2 d hd
    exact List.filter_eq_nil_iff.1 hn e he hp
  have := length_le_flatMap _ ds hne
  rw [h1] at this
  refine Nat.le_trans this ?_
  unfold deepCount
  have e1 : fs.filter (fun e => isPrefix (p ++ [47]) e.1 && decide (slashes p + k + 1 ≤ slashes e.1)) =
      (fs.filter (fun e => decide (k + 1 ≤ slashes e.1))).filter
        (fun e => isPrefix (p ++ [47]) e.1 && decide (slashes p + k + 1 ≤ slashes e.1)) := by
    rw [List.filter_filter]
    apply List.filter_congr
    intro e _
    by_cases hh : slashes p + k + 1 ≤ slashes e.1
    · have : decide (k + 1 ≤ slashes e.1) = true := by rw [decide_eq_true_eq]; omega
      rw [this, Bool.and_true]
    · have : decide (slashes p + k + 1 ≤ slashes e.1) = false := by rw [decide_eq_false_iff_not]; exact hh
      rw [this]
      simp
  rw [e1]
  exact List.length_filter_le _ _

theorem deepCount_step : ∀ (fs : FileSys) (k : Nat),
    deepCount fs k + (fs.map (fun e => slashes e.1 - (k + 1))).sum ≤ (fs.map (fun e => slashes e.1 - k)).sum := by
  intro fs k
  induction fs with
  | nil => exact Nat.le_refl _
  | cons e r ih =>
    unfold deepCount at ih ⊢
    rw [List.filter_cons, List.map_cons, List.map_cons, List.sum_cons, List.sum_cons]
    by_cases hh : k + 1 ≤ slashes e.1
    · rw [if_pos (by rw [decide_eq_true_eq]; exact hh), List.length_cons]
      omega
    · rw [if_neg (by rw [decide_eq_true_eq]; exact hh)]
      omega

theorem cost_le (fs : FileSys) (hfs : ∀ e ∈ fs, CanonName e.1) (hs : FsSorted fs) (p : Name) :
    ∀ (n k : Nat) (ds : List Name), LevelInv fs p k ds →
      costM fs n ds ≤ (fs.map (fun e => slashes e.1 - k)).sum := by
  intro n
  induction n with
  | zero => intro k ds _; rw [costM]; exact Nat.zero_le _
  | succ n ih =>
    intro k ds h
    rw [costM]
    have h1 := level_length fs p k ds h
    have h2 := ih (k + 1) _ (levelInv_succ fs hfs hs p k ds h)
    have h3 := deepCount_step fs k
    omega

theorem sum_sub_le (fs : FileSys) : (fs.map (fun e => slashes e.1 - 0)).sum ≤ (fs.map (fun e => e.1.length + 1)).sum := by
  induction fs with
  | nil => exact Nat.le_refl _
  | cons e r ih =>
    rw [List.map_cons, List.map_cons, List.sum_cons, List.sum_cons]
    have : slashes e.1 ≤ e.1.length := List.count_le_length
    omega

theorem slashes_le_depthBound (fs : FileSys) : ∀ e ∈ fs, slashes e.1 ≤ depthBound fs := by
  unfold depthBound
  induction fs with
  | nil => intro e he; cases he
  | cons a r ih =>
    intro e he
    rw [List.map_cons, List.sum_cons]
    rcases List.mem_cons.1 he with he | he
    · rw [he]; omega
    · have := ih e he; omega

/-- the breadth-first listing of a directory of a sorted file system with canonical names ends normally and is
level order -/
theorem listDirectoryRecursive_bfs (fs : FileSys) (hfs : ∀ e ∈ fs, CanonName e.1) (hs : FsSorted fs) (p : Name)
    (hp : NoTrail p) (hdir : isDirOf fs p = true) :
    listDirectoryRecursive fs p = .ok (levelsM fs (depthBound fs) [p]) := by
  have h0 := levelInv_zero fs p hp hdir
  unfold listDirectoryRecursive
  have hN := levelInv_iter fs hfs hs p (depthBound fs) 0 [p] h0
  have hempty : iterM fs (depthBound fs) [p] = [] := by
    cases hi : iterM fs (depthBound fs) [p] with
    | nil => rfl
    | cons d t =>
      rw [hi] at hN
      obtain ⟨h1, h2⟩ := hN
      obtain ⟨_, _, e, he, hpe⟩ := h2 d (List.mem_cons_self ..)
      have hmem : e ∈ (d :: t).flatMap (fun d => fs.filter (fun e => isPrefix (d ++ [47]) e.1)) :=
        List.mem_flatMap.2 ⟨d, List.mem_cons_self .., List.mem_filter.2 ⟨he, hpe⟩⟩
      rw [h1] at hmem
      have := (List.mem_filter.1 hmem).2
      simp only [Bool.and_eq_true, decide_eq_true_eq] at this
      have := slashes_le_depthBound fs e he
      omega
  have hcost : costM fs (depthBound fs) [p] < listRecFuel fs := by
    have h1 := cost_le fs hfs hs p (depthBound fs) 0 [p] h0
    have h2 := sum_sub_le fs
    unfold listRecFuel
    omega
  rw [listRecGo_levels fs _ _ _ [] hempty hcost, List.nil_append]


/-! #### the file list with `recurse_directories = true` -/

/-- what one canonical URI piece names with recursion: the file itself if non-empty, else the non-empty files
below that directory in breadth-first order -/
def expandSpecBfs (fs : FileSys) (p : Name) : List Info :=
  match fs.find? (fun e => e.1 == p) with
  | some e => if e.2.isEmpty then [] else [{ name := p, size := e.2.length, kind := .file }]
  | none => descendantsBfs fs p

theorem infoOne_canon_rec (fs : FileSys) (hfs : ∀ e ∈ fs, CanonName e.1) (hs : FsSorted fs) (p : Name) (hp : CanonName p)
    (hex : (fs.any (fun e => e.1 == p) || isDirOf fs p) = true) : infoOne fs true p = .ok (expandSpecBfs fs p) := by
  have hpt := (canonFacts p hp).noTrail
  unfold infoOne getPathInfo expandSpecBfs
  cases hf : fs.find? (fun e => e.1 == p) with
  | some e =>
    simp only []
    rw [if_neg (by decide)]
    unfold iiKeepFile
    cases e.2 <;> rfl
  | none =>
    simp only []
    have hany : fs.any (fun e => e.1 == p) = false := by
      cases hh : fs.any (fun e => e.1 == p) with
      | false => rfl
      | true =>
        obtain ⟨e, he, hn⟩ := List.any_eq_true.1 hh
        exact absurd hn (List.find?_eq_none.1 hf e he)
    rw [hany, Bool.false_or] at hex
    rw [hex, if_pos rfl]
    simp only [if_true]
    rw [listDirectoryRecursive_bfs fs hfs hs p hpt hex]
    simp only []
    rw [levels_filesAt fs hfs hs p _ 0 [p] (levelInv_zero fs p hpt hex)]
    unfold descendantsBfs
    congr 1
    apply CoverAux.flatMap_congr_mem
    intro j _
    rw [Nat.zero_add]

theorem expandSpecBfs_absent (fs : FileSys) (p : Name) (hp : NoTrail p)
    (hex : (fs.any (fun e => e.1 == p) || isDirOf fs p) = false) : expandSpecBfs fs p = [] := by
  rw [Bool.or_eq_false_iff] at hex
  unfold expandSpecBfs
  cases hf : fs.find? (fun e => e.1 == p) with
  | some e =>
    have h1 := List.mem_of_find?_eq_some hf
    have h2 := List.find?_some hf
    have : fs.any (fun e => e.1 == p) = true := List.any_eq_true.2 ⟨e, h1, h2⟩
    rw [hex.1] at this
    cases this
  | none =>
    simp only []
    unfold descendantsBfs
    rw [List.flatMap_eq_nil_iff]
    intro k _
    unfold filesAt
    rw [List.filterMap_eq_nil_iff]
    intro e he
    have hd := hex.2
    unfold isDirOf at hd
    rw [dirPrefix_noTrail p hp] at hd
    have : isPrefix (p ++ [47]) e.1 = false := by
      cases hh : isPrefix (p ++ [47]) e.1 with
      | false => rfl
      | true =>
        have : fs.any (fun e => isPrefix (p ++ [47]) e.1) = true := List.any_eq_true.2 ⟨e, he, hh⟩
        rw [hd] at this
        cases this
    rw [this]
    rfl

theorem infoAll_canon_rec (rx : Name → Name → Bool) (hrx : LiteralRx rx) (fs : FileSys) (hfs : ∀ e ∈ fs, CanonName e.1)
    (hs : FsSorted fs) : ∀ (pieces : List Name), (∀ p ∈ pieces, CanonName p) →
      infoAll fs true (pieces.flatMap (expandOne rx fs)) = .ok (pieces.flatMap (expandSpecBfs fs)) := by
  intro pieces
  induction pieces with
  | nil => intro _; rfl
  | cons p t ih =>
    intro hp
    have hpc := hp p (List.mem_cons_self ..)
    have ih' := ih (fun x hx => hp x (List.mem_cons_of_mem _ hx))
    rw [List.flatMap_cons, List.flatMap_cons, expandOne_canon rx hrx fs hfs p hpc]
    cases hex : (fs.any (fun e => e.1 == p) || isDirOf fs p) with
    | true =>
      rw [if_pos rfl, List.singleton_append, infoAll, infoOne_canon_rec fs hfs hs p hpc hex, ih']
    | false =>
      rw [if_neg (by decide), List.nil_append, expandSpecBfs_absent fs p (canonFacts p hpc).noTrail hex, List.nil_append]
      exact ih'

/-- MAIN A, `recurse_directories = true`, directories nested to any depth, over a sorted file system: the file
list is the concatenation, in URI order, of what each piece names recursively — a non-empty file itself, or the
non-empty files below a directory in breadth-first order (by depth, equal depths in name order); no iteration
bound of the model is hit -/
theorem initInputFileInfo_canon_rec (rx : Name → Name → Bool) (hrx : LiteralRx rx) (fs : FileSys)
    (hfs : ∀ e ∈ fs, CanonName e.1) (hs : FsSorted fs) (pieces : List Name) (hp : ∀ p ∈ pieces, CanonName p) :
    initInputFileInfo rx fs (joinSemi pieces) true =
      (if (pieces.flatMap (expandSpecBfs fs)).isEmpty then .error .check else .ok (pieces.flatMap (expandSpecBfs fs))) := by
  unfold initInputFileInfo
  rw [convertToURIs_joinSemi rx fs pieces hp, infoAll_canon_rec rx hrx fs hfs hs pieces hp]
  simp only []
  cases pieces.flatMap (expandSpecBfs fs) with
  | nil => rfl
  | cons a t => rfl

/-- a deeper sorted example: "/r/a" ↦ "x\n", "/r/d/b" ↦ "", "/r/d/c" ↦ "yz", "/r/d/e/f" ↦ "q", "/r/g" ↦ "w" -/
def FilesEx.fsDeep : FileSys :=
  [([47, 114, 47, 97], [120, 10]), ([47, 114, 47, 100, 47, 98], []), ([47, 114, 47, 100, 47, 99], [121, 122]),
   ([47, 114, 47, 100, 47, 101, 47, 102], [113]), ([47, 114, 47, 103], [119])]

/-- `initInputFileInfo_canon_rec` when the pieces name something: the list itself -/
theorem initInputFileInfo_canon_rec_ok (rx : Name → Name → Bool) (hrx : LiteralRx rx) (fs : FileSys)
    (hfs : ∀ e ∈ fs, CanonName e.1) (hs : FsSorted fs) (pieces : List Name) (hp : ∀ p ∈ pieces, CanonName p)
    (hne : pieces.flatMap (expandSpecBfs fs) ≠ []) :
    initInputFileInfo rx fs (joinSemi pieces) true = .ok (pieces.flatMap (expandSpecBfs fs)) := by
  rw [initInputFileInfo_canon_rec rx hrx fs hfs hs pieces hp]
  cases h : pieces.flatMap (expandSpecBfs fs) with
  | nil => exact absurd h hne
  | cons a t => rfl

end DmlcModel.Split
