/-
Executable model of `InputSplitBase` (src/io/input_split_base.{h,cc}) with its two record formats
`LineSplitter` (line_split.cc) and `RecordIOSplitter` (recordio_split.cc) and of the
`SingleThreadedInputSplit` wrapper (single_threaded_input_split.h).

All arithmetic, comparisons and constants come from the *generated* `Gen/Split.lean` (rewritten from
/repo on every run); control flow is hand-modelled with the branch structure of the C++ and tied to
the code by the correspondence harness `harness/h_split.cc` (results *and* internal state after every
operation).  The model follows the code that exists: whether the early returns of
`ResetPartition` / `BeforeFirst` drop the buffered chunk and the carry-over is itself read from the
source (`rpEmptyClears`, `bfEmptyClears`; `false` on the tree without fix C05-1).

Representation choices (observation level of the harness):
* a `Chunk` is `data.size()` (words), `begin - data` and the bytes of `[begin, end)`; bytes outside
  `[begin, end)` are never read again by the code and are not represented (the `'\0'` that
  `LineSplitter::ExtractNextRecord` stores lands either in the returned blob or one past `end`, inside
  the spare word — the bound is checked: outcome `oob` otherwise);
* `fpos = none` is `fs_ == NULL`; `filePtr` is meaningful only when `fpos ≠ none` (uninitialised before);
* one visit of the `while (true)` loop of `Read` per file: a stream `Read` returns
  `min(size, remaining)` bytes (true of `MemFS` and of `FileStream` on regular files; listed as an
  assumption), so the iteration that hits the end of a file is followed by one that reads 0 bytes.
-/
import DmlcModel.Basic
import DmlcModel.Gen.Split
import DmlcModel.RecordIO.Model

namespace DmlcModel.Split
open DmlcModel DmlcModel.Gen.Split
open DmlcModel.Gen.RecordIO (kMagic decodeFlag decodeLength)
open DmlcModel.RecordIO (toWords magicBytes)

/-- abnormal outcomes: `check` = a `CHECK`/`LOG(FATAL)` fired (dmlc::Error); `oob` = an access outside
a buffer / vector; `uninit` = use of `fs_ == NULL` / the never-assigned `file_ptr_`; `div` = division
by `nsplit = 0`; `fuel` = a loop of the model ran out of its iteration bound (shown unreachable) -/
inductive Err | check | oob | uninit | div | fuel
  deriving Repr, DecidableEq

/-- `InputSplitBase::Chunk` -/
structure Chunk where
  dataWords : Nat          -- `data.size()`
  begin : Nat := 0         -- `begin - BeginPtr(data)`; irrelevant when `rest = []`
  rest : Bytes := []       -- bytes of `[begin, end)`
  deriving Repr, DecidableEq

/-- `begin = end = NULL` -/
def Chunk.clear (c : Chunk) : Chunk := { c with begin := 0, rest := [] }

/-- the three virtual functions a record format supplies, plus the `Init` alignment argument -/
structure Fmt where
  align : Nat
  isText : Bool
  /-- `SeekRecordBegin(fi)` on a stream that still holds the given bytes: (`nstep`, bytes consumed) -/
  seekRecordBegin : Bytes → Except Err (Nat × Nat)
  /-- `FindLastRecordBegin(begin, end) - begin` on the buffer contents `[begin, end)` -/
  findLastRecordBegin : Bytes → Except Err Nat
  /-- `ExtractNextRecord(out_rec, chunk)`: `none` = returns false -/
  extractNext : Chunk → Except Err (Option (Bytes × Chunk))

/-! ### LineSplitter -/

/-- second loop of `LineSplitter::SeekRecordBegin` ("search until first non-endofline") -/
def textSeekEol : Bytes → Nat × Nat
  | [] => (0, 0)
  | b :: rest =>
    if lsSeekNotEol b.toNat then (0, 1)            -- byte consumed, not counted
    else ((textSeekEol rest).1 + 1, (textSeekEol rest).2 + 1)

/-- first loop ("search till first end-of-line") followed by the second -/
def textSeekLine : Bytes → Nat × Nat
  | [] => (0, 0)
  | b :: rest =>
    if lsSeekIsEol b.toNat then ((textSeekEol rest).1 + 1, (textSeekEol rest).2 + 1)
    else ((textSeekLine rest).1 + 1, (textSeekLine rest).2 + 1)

/-- `for (p = end - 1; p != begin; --p) if (*p is EOL) return p + 1;` — the argument lists the bytes
at `p, p-1, …, begin+1` -/
def textFindLastGo : Bytes → Nat → Nat
  | [], _ => 0
  | b :: rest, p => if lsLastIsEol b.toNat then p + 1 else textFindLastGo rest (p - 1)

def textFindLast : Bytes → Except Err Nat
  | [] => .error .check                                   -- CHECK(begin != end)
  | _ :: tl => .ok (textFindLastGo tl.reverse tl.length)  -- `*begin` is never examined

/-- first loop of `LineSplitter::ExtractNextRecord`: bytes before the first EOL byte -/
def textLineLen : Bytes → Nat
  | [] => 0
  | b :: rest => if lsExtIsEol b.toNat then 0 else textLineLen rest + 1

/-- second loop: the run of EOL bytes -/
def textEolLen : Bytes → Nat
  | [] => 0
  | b :: rest => if lsExtNotEol b.toNat then 0 else textEolLen rest + 1

def textExtract (c : Chunk) : Except Err (Option (Bytes × Chunk)) :=
  if c.rest.isEmpty then .ok none
  else
    let n1 := textLineLen c.rest
    let p := n1 + textEolLen (c.rest.drop n1)
    let c' : Chunk := { c with begin := c.begin + p, rest := c.rest.drop p }
    if p = c.rest.length then
      -- `*p = '\0'` one past the chunk: must still be inside `data` (the spare word)
      if c.begin + p < 4 * c.dataWords then .ok (some (c.rest, c')) else .error .oob
    else
      -- `*(p - 1) = '\0'`: the last EOL byte of the record
      .ok (some ((c.rest.take (p - 1)) ++ [0], c'))

def Fmt.text : Fmt where
  align := lineAlign
  isText := true
  seekRecordBegin := fun s => .ok (textSeekLine s)
  findLastRecordBegin := textFindLast
  extractNext := textExtract

/-! ### RecordIOSplitter -/

/-- the `while (true)` loop of `RecordIOSplitter::SeekRecordBegin` over the remaining words; the
accumulator is `nstep`; result (`nstep` returned, bytes consumed) -/
def recSeekGo : List Nat → Nat → Except Err (Nat × Nat)
  | [], n => .ok (n, n)
  | [v], n => if v = kMagic then .error .check else .ok (n + 4, n + 4)   -- CHECK(Read(&lrec) != 0)
  | v :: l :: ws, n =>
    if v = kMagic then
      if rsSeekAccept (decodeFlag l) then .ok (rsSeekBack (n + 8), n + 8)
      else recSeekGo ws (n + 8)
    else recSeekGo (l :: ws) (n + 4)

/-- `for (p = p - 2; p != pbegin; --p)` in word units; `p + 1` is the current index -/
def recFindLastGo (ws : List Nat) : Nat → Nat
  | 0 => 0
  | p + 1 =>
    match ws.drop (p + 1) with
    | w0 :: w1 :: _ =>
      if w0 = kMagic ∧ rsLastAccept (decodeFlag w1) then 4 * (p + 1) else recFindLastGo ws p
    | _ => recFindLastGo ws p

def recFindLast (buf : Bytes) : Except Err Nat :=
  if buf.length % 4 ≠ 0 then .error .check                    -- CHECK_EQ(end & 3, 0)
  else if buf.length / 4 < rsLastMinWords then .error .check  -- CHECK(p >= pbegin + 2)
  else .ok (recFindLastGo (toWords buf) (rsLastStart (buf.length / 4)))

/-- the `while (cflag != 3U)` reassembly loop of `RecordIOSplitter::ExtractNextRecord` -/
def recExtractMore : Nat → Bytes → Chunk → Nat → Except Err (Option (Bytes × Chunk))
  | 0, _, _, _ => .error .fuel
  | fuel + 1, out, c, cflag =>
    if rsExtMore cflag then
      match c.rest with
      | m0 :: m1 :: m2 :: m3 :: l0 :: l1 :: l2 :: l3 :: body =>
        if word32 m0 m1 m2 m3 = kMagic then
          let lrec := word32 l0 l1 l2 l3
          let clen := decodeLength lrec
          let adv := rsExtAdvance clen
          -- memmove / pointer advance without a bound check in the C++
          if body.length < clen ∨ c.rest.length < adv then .error .oob
          else
            recExtractMore fuel (out ++ magicBytes ++ body.take clen)
              { c with begin := c.begin + adv, rest := c.rest.drop adv } (decodeFlag lrec)
        else .error .check
      | _ => .error .check                                   -- CHECK(begin + 8 <= end)
    else .ok (some (out, c))

def recExtract (c : Chunk) : Except Err (Option (Bytes × Chunk)) :=
  if c.rest.isEmpty then .ok none
  else if c.rest.length < rsExtHeader then .error .check
  else if c.begin % 4 ≠ 0 ∨ (c.begin + c.rest.length) % 4 ≠ 0 then .error .check
  else
    match c.rest with
    | _ :: _ :: _ :: _ :: l0 :: l1 :: l2 :: l3 :: body =>
      let lrec := word32 l0 l1 l2 l3
      let cflag := decodeFlag lrec
      let clen := decodeLength lrec
      let adv := rsExtAdvance clen
      if c.rest.length < adv then .error .check              -- CHECK(chunk->begin <= chunk->end)
      else
        let c' : Chunk := { c with begin := c.begin + adv, rest := c.rest.drop adv }
        let out := body.take clen
        if rsExtSingle cflag then .ok (some (out, c'))
        else if rsExtFirst cflag then recExtractMore (c.rest.length + 1) out c' cflag
        else .error .check
    | _ => .error .check

def Fmt.recordio : Fmt where
  align := recAlign
  isText := false
  seekRecordBegin := fun s => recSeekGo (toWords s) 0
  findLastRecordBegin := recFindLast
  extractNext := recExtract

/-! ### InputSplitBase -/

structure Base where
  files : List Bytes                 -- `files_` (non-empty files only)
  offBegin : Nat := 0
  offEnd : Nat := 0
  offCurr : Nat := 0
  filePtr : Nat := 0                 -- `file_ptr_`
  fpos : Option Nat := none          -- position of `fs_` in `files_[file_ptr_]`; `none` = NULL
  chunk : Chunk                      -- `tmp_chunk_`
  overflow : Bytes := []
  bufWords : Nat                     -- `buffer_size_`
  deriving Repr, DecidableEq

/-- `file_offset_[i]` -/
def fileOffset (files : List Bytes) (i : Nat) : Nat := ((files.take i).map List.length).sum

def totalSize (files : List Bytes) : Nat := fileOffset files files.length

/-- the vector `file_offset_` as filled by `Init` -/
def offsetsFrom : Nat → List Bytes → List Nat
  | acc, [] => [acc]
  | acc, f :: fs => acc :: offsetsFrom (acc + f.length) fs

/-- `std::upper_bound(v.begin(), v.end(), x) - v.begin()` for a sorted vector -/
def upperBound : List Nat → Nat → Nat
  | [], _ => 0
  | v :: vs, x => if x < v then 0 else upperBound vs x + 1

/-- `upper_bound(file_offset_, x) - file_offset_.begin() - 1` -/
def filePtrOf (files : List Bytes) (x : Nat) : Nat := upperBound (offsetsFrom 0 files) x - 1

/-- `InputSplitBase::BeforeFirst` -/
def beforeFirst (s : Base) : Except Err Base :=
  if bfEmpty s.offBegin s.offEnd then
    .ok (if bfEmptyClears then { s with chunk := s.chunk.clear, overflow := [] } else s)
  else
    let fp := filePtrOf s.files s.offBegin
    match s.fpos with
    | none => .error .uninit
    | some _ =>
      if bfReopen s.filePtr fp ∧ s.files.length ≤ fp then .error .oob      -- files_[file_ptr_]
      else
        .ok { s with filePtr := fp, fpos := some (sub64 s.offBegin (fileOffset s.files fp)),
                     offCurr := s.offBegin, chunk := s.chunk.clear, overflow := [] }

/-- `InputSplitBase::ResetPartition` -/
def resetPartition (F : Fmt) (s : Base) (rank nsplit : Nat) : Except Err Base :=
  if nsplit = 0 then .error .div
  else
    let ntotal := totalSize s.files
    let nstep := rpStepAlign (rpStepRaw ntotal nsplit) F.align
    let ob := rpBegin nstep rank ntotal
    let oe := rpEnd nstep rank ntotal
    let s := { s with offBegin := ob, offEnd := oe, offCurr := ob }
    if rpEmpty ob oe then
      .ok (if rpEmptyClears then { s with chunk := s.chunk.clear, overflow := [] } else s)
    else
      let fp := filePtrOf s.files ob
      let fpe := filePtrOf s.files oe
      -- find the exact ending position
      let oe' : Except Err Nat :=
        if rpSnapEnd oe (fileOffset s.files fpe) then
          if ¬ (fileOffset s.files fpe < oe) ∨ ¬ (fpe < s.files.length) then .error .check
          else
            match s.files.drop fpe with
            | [] => .error .oob
            | f :: _ =>
              match F.seekRecordBegin (f.drop (rpSeekEnd oe (fileOffset s.files fpe))) with
              | .error e => .error e
              | .ok (n, _) => .ok (oe + n)
        else .ok oe
      match oe' with
      | .error e => .error e
      | .ok oe' =>
        match s.files.drop fp with
        | [] => .error .oob
        | f :: _ =>
          let r : Except Err (Nat × Nat) :=
            if rpSnapBegin ob (fileOffset s.files fp) then
              let seekPos := rpSeekBegin ob (fileOffset s.files fp)
              match F.seekRecordBegin (f.drop seekPos) with
              | .error e => .error e
              | .ok (n, consumed) => .ok (ob + n, seekPos + consumed)
            else .ok (ob, 0)
          match r with
          | .error e => .error e
          | .ok (ob', pos) =>
            beforeFirst { s with offBegin := ob', offEnd := oe', filePtr := fp, fpos := some pos }

/-- the `while (true)` loop of `InputSplitBase::Read`, one visit per file.  Arguments: bytes still
wanted, `file_ptr_`, position of `fs_`, `offset_curr_`, bytes delivered so far. -/
def readLoop (isText : Bool) (files : List Bytes) :
    Nat → Nat → Nat → Nat → Nat → Bytes → Except Err (Bytes × Nat × Nat × Nat)
  | 0, _, _, _, _, _ => .error .fuel
  | fuel + 1, nleft, fp, pos, oc, acc =>
    match files.drop fp with
    | [] => .error .oob
    | f :: _ =>
      let got := (f.drop pos).take nleft              -- fs_->Read(buf, nleft)
      let n := got.length
      let acc := acc ++ got
      let nleft := nleft - n
      let pos := pos + n
      let oc := oc + n
      if nleft = 0 then .ok (acc, fp, pos, oc)
      else
        -- the file is exhausted: the next `fs_->Read` returns 0
        let acc := if isText then acc ++ [UInt8.ofNat rdNewline] else acc
        let nleft := if isText then nleft - 1 else nleft
        if rdOffsetBad oc (fileOffset files (fp + 1)) then .error .check   -- "file offset not calculated correctly"
        else if rdLastFile fp files.length then .ok (acc, fp, pos, oc)
        else readLoop isText files fuel nleft (fp + 1) 0 oc acc

/-- `InputSplitBase::Read(ptr, size)` -/
def read (F : Fmt) (s : Base) (size : Nat) : Except Err (Bytes × Base) :=
  match s.fpos with
  | none => .ok ([], s)
  | some pos =>
    if rdEmpty s.offBegin s.offEnd then .ok ([], s)
    else
      let size := if rdClip s.offCurr size s.offEnd then rdClipped s.offCurr s.offEnd else size
      if size = 0 then .ok ([], s)
      else
        match readLoop F.isText s.files (s.files.length + 1) size s.filePtr pos s.offCurr [] with
        | .error e => .error e
        | .ok (bytes, fp, pos, oc) => .ok (bytes, { s with filePtr := fp, fpos := some pos, offCurr := oc })

/-- `InputSplitBase::ReadChunk(buf, &size)`: `none` = returns false; `some c` = returns true with the
chunk bytes `buf[0, *size)` (`some []` is `*size = 0`) -/
def readChunk (F : Fmt) (s : Base) (maxSize : Nat) : Except Err (Option Bytes × Base) :=
  if rcTooSmall maxSize s.overflow.length then .ok (some [], s)
  else
    let ov := s.overflow
    let olen := ov.length
    match read F { s with overflow := [] } (rcReadSize maxSize olen) with
    | .error e => .error e
    | .ok (bytes, s) =>
      let buf := ov ++ bytes
      let nread := buf.length
      if nread = 0 then .ok (none, s)
      else if F.isText = false ∧ rcShort nread maxSize then .ok (some buf, s)
      else
        let buf := if F.isText ∧ rcNoNewData nread olen then buf ++ [UInt8.ofNat rcNewline] else buf
        match F.findLastRecordBegin buf with
        | .error e => .error e
        | .ok cut => .ok (some (buf.take cut), { s with overflow := buf.drop cut })

/-- the `while (true)` loop of `Chunk::Load` -/
def loadLoop (F : Fmt) : Nat → Base → Nat → Except Err (Option Bytes × Base × Nat)
  | 0, _, _ => .error .fuel
  | fuel + 1, s, dataWords =>
    match readChunk F s (loadSize dataWords) with
    | .error e => .error e
    | .ok (none, s) => .ok (none, s, dataWords)
    | .ok (some [], s) => loadLoop F fuel s (loadGrow dataWords)
    | .ok (some c, s) => .ok (some c, s, dataWords)

/-- iteration bound of the doubling loop (never reached: `C03_load_terminates`) -/
def loadFuel (s : Base) : Nat := s.overflow.length + (s.offEnd - s.offCurr) + s.files.length + 4

/-- `chunk->Load(split, buffer_size_)`: success flag, the split, the chunk -/
def load (F : Fmt) (s : Base) (c : Chunk) : Except Err (Bool × Base × Chunk) :=
  match loadLoop F (loadFuel s) s (loadResize s.bufWords) with
  | .error e => .error e
  | .ok (none, s, dw) => .ok (false, s, { c with dataWords := dw })
  | .ok (some bytes, s, dw) => .ok (true, s, { dataWords := dw, begin := 0, rest := bytes })

/-- `InputSplitBase::ExtractNextChunk` -/
def extractChunk (c : Chunk) : Option (Bytes × Chunk) :=
  if c.rest.isEmpty then none
  else some (c.rest, { c with begin := c.begin + c.rest.length, rest := [] })

/-- `while (!Extract(&tmp_chunk_)) if (!NextChunkEx(&tmp_chunk_)) return false;` -/
def nextLoop (F : Fmt) (ext : Chunk → Except Err (Option (Bytes × Chunk))) :
    Nat → Base → Except Err (Option Bytes × Base)
  | 0, _ => .error .fuel
  | fuel + 1, s =>
    match ext s.chunk with
    | .error e => .error e
    | .ok (some (b, c)) => .ok (some b, { s with chunk := c })
    | .ok none =>
      match load F s s.chunk with
      | .error e => .error e
      | .ok (false, s, c) => .ok (none, { s with chunk := c })
      | .ok (true, s, c) => nextLoop F ext fuel { s with chunk := c }

def nextRecord (F : Fmt) (s : Base) : Except Err (Option Bytes × Base) :=
  nextLoop F F.extractNext 3 s

def nextChunk (F : Fmt) (s : Base) : Except Err (Option Bytes × Base) :=
  nextLoop F (fun c => .ok (extractChunk c)) 3 s

/-- `HintChunkSize` -/
def hint (s : Base) (chunkSize : Nat) : Base := { s with bufWords := hintWords chunkSize s.bufWords }

/-- `Init` (file table already listed; empty files dropped by `InitInputFileInfo`) followed by
`ResetPartition(rank, nsplit)`; `w` is the `buffer_size_` the harness installs afterwards (the
constructor itself never uses it); `defaultWords` is `kBufferSize`, which sizes `tmp_chunk_` -/
def mkBase (F : Fmt) (files : List Bytes) (rank nsplit w defaultWords : Nat) : Except Err Base :=
  let files := files.filter (fun f => !f.isEmpty)
  if files.isEmpty then .error .check                                        -- CHECK_NE(files_.size(), 0U)
  else if files.any (fun f => !initAligned f.length F.align) then .error .check
  else
    match resetPartition F { files := files, chunk := { dataWords := chunkInitWords defaultWords },
                             bufWords := defaultWords } rank nsplit with
    | .error e => .error e
    | .ok b => .ok { b with bufWords := w }

/-! ### SingleThreadedInputSplit -/

structure Wrap where
  chunk : Option Chunk := none       -- `tmp_chunk_` (`none` = NULL)
  bufWords : Nat                     -- its own `buffer_size_` (only sizes freshly allocated chunks)
  deriving Repr, DecidableEq

/-- the object the operations go to -/
structure St where
  base : Base
  wrap : Option Wrap := none
  deriving Repr, DecidableEq

inductive Op
  | nextRec | nextChunk | hint (m : Nat) | beforeFirst | reset (k n : Nat)
  deriving Repr, DecidableEq

inductive Out
  | blob (b : Bytes) | eof | done | err (e : Err)
  deriving Repr, DecidableEq

/-- `NextProducer(&tmp_chunk_)`: allocate if NULL, then `base_->NextBatchEx` (= `Load`) -/
def wrapProduce (F : Fmt) (b : Base) (w : Wrap) : Except Err (Bool × Base × Wrap) :=
  let c := match w.chunk with
    | none => ({ dataWords := chunkInitWords w.bufWords } : Chunk)
    | some c => c
  match load F b c with
  | .error e => .error e
  | .ok (ok, b, c) => .ok (ok, b, { w with chunk := some c })

/-- the `while (!Extract(tmp_chunk_)) { tmp_chunk_ = NULL; if (!NextProducer) return false; }` loop -/
def wrapLoop (F : Fmt) (ext : Chunk → Except Err (Option (Bytes × Chunk))) :
    Nat → Base → Wrap → Chunk → Except Err (Option Bytes × Base × Wrap)
  | 0, _, _, _ => .error .fuel
  | fuel + 1, b, w, c =>
    match ext c with
    | .error e => .error e
    | .ok (some (blob, c)) => .ok (some blob, b, { w with chunk := some c })
    | .ok none =>
      match wrapProduce F b { w with chunk := none } with
      | .error e => .error e
      | .ok (false, b, w) => .ok (none, b, w)
      | .ok (true, b, w) =>
        match w.chunk with
        | none => .error .uninit
        | some c => wrapLoop F ext fuel b w c

def wrapNext (F : Fmt) (ext : Chunk → Except Err (Option (Bytes × Chunk))) (b : Base) (w : Wrap) :
    Except Err (Option Bytes × Base × Wrap) :=
  match w.chunk with
  | some c => wrapLoop F ext 3 b w c
  | none =>
    match wrapProduce F b w with
    | .error e => .error e
    | .ok (false, b, w) => .ok (none, b, w)
    | .ok (true, b, w) =>
      match w.chunk with
      | none => .error .uninit
      | some c => wrapLoop F ext 3 b w c

def outOf : Option Bytes → Out
  | some b => .blob b
  | none => .eof

/-- one public operation on the object (bare base or wrapped); on an abnormal outcome the state is
returned unchanged (the harness stops using the object) -/
def step (F : Fmt) (s : St) : Op → St × Out
  | .nextRec =>
    match s.wrap with
    | none =>
      match nextRecord F s.base with
      | .error e => (s, .err e)
      | .ok (r, b) => ({ s with base := b }, outOf r)
    | some w =>
      match wrapNext F F.extractNext s.base w with
      | .error e => (s, .err e)
      | .ok (r, b, w) => ({ base := b, wrap := some w }, outOf r)
  | .nextChunk =>
    match s.wrap with
    | none =>
      match nextChunk F s.base with
      | .error e => (s, .err e)
      | .ok (r, b) => ({ s with base := b }, outOf r)
    | some w =>
      match wrapNext F (fun c => .ok (extractChunk c)) s.base w with
      | .error e => (s, .err e)
      | .ok (r, b, w) => ({ base := b, wrap := some w }, outOf r)
  | .hint m =>
    match s.wrap with
    | none => ({ s with base := hint s.base m }, .done)
    | some w => ({ s with wrap := some { w with bufWords := hintWords m w.bufWords } }, .done)
  | .beforeFirst =>
    match beforeFirst s.base with
    | .error e => (s, .err e)
    | .ok b => ({ base := b, wrap := s.wrap.map fun w => { w with chunk := none } }, .done)
  | .reset k n =>
    match resetPartition F s.base k n with
    | .error e => (s, .err e)
    | .ok b =>
      match s.wrap with
      | none => ({ s with base := b }, .done)
      | some w =>
        -- `base_->ResetPartition(..); this->BeforeFirst();`
        match beforeFirst b with
        | .error e => (s, .err e)
        | .ok b => ({ base := b, wrap := some { w with chunk := none } }, .done)

/-- construction of the object the harness talks to -/
def mkSt (F : Fmt) (files : List Bytes) (k n w : Nat) (wrapped : Bool) (defaultWords : Nat) : Except Err St :=
  match mkBase F files k n w defaultWords with
  | .error e => .error e
  | .ok b => .ok { base := b, wrap := if wrapped then some { bufWords := defaultWords } else none }

/-- bytes the object still holds or can still read: bound for the number of blobs of a drain -/
def drainFuel (s : St) : Nat :=
  s.base.chunk.rest.length + s.base.overflow.length + totalSize s.base.files
    + (match s.wrap with | some { chunk := some c, .. } => c.rest.length | _ => 0)
    + 2 * s.base.files.length + 4

/-- consume to the end; `pick i` chooses `NextRecord` (true) or `NextChunk` for the i-th call -/
def drainGo (F : Fmt) (pick : Nat → Bool) : Nat → Nat → St → List Bytes → St × Except Err (List Bytes)
  | 0, _, s, _ => (s, .error .fuel)
  | fuel + 1, i, s, acc =>
    match step F s (if pick i then .nextRec else .nextChunk) with
    | (s, .blob b) => drainGo F pick fuel (i + 1) s (acc ++ [b])
    | (s, .eof) => (s, .ok acc)
    | (s, .err e) => (s, .error e)
    | (s, .done) => (s, .error .fuel)

def drain (F : Fmt) (pick : Nat → Bool) (s : St) : St × Except Err (List Bytes) :=
  drainGo F pick (drainFuel s) 0 s []

end DmlcModel.Split
