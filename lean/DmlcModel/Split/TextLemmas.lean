/-
Specification lemmas of the TEXT record format of the Split model (`LineSplitter`): the generated EOL
tests agree with `isEol`; algebra of `fields` / `lines` / `canon`; `FindLastRecordBegin`
(`textFindLast`), `ExtractNextRecord` (`textExtract`) and `SeekRecordBegin` (`textSeekLine`).
Core Lean only.
-/
import DmlcModel.Split.Spec
namespace DmlcModel.Split
open DmlcModel DmlcModel.Gen.Split

/-! ### the generated EOL tests are `isEol` -/

theorem byte_toNat_beq (b : Byte) (n : Nat) (hn : n < 256) : (b.toNat == n) = (b == UInt8.ofNat n) := by
  rw [Bool.eq_iff_iff]
  simp only [beq_iff_eq]
  constructor
  · intro h; apply UInt8.toNat_inj.mp; simp [h]; omega
  · intro h; subst h; simp; omega

theorem lsLastIsEol_iff (b : Byte) : lsLastIsEol b.toNat = isEol b := by
  simp only [lsLastIsEol, isEol, byte_toNat_beq b 10 (by omega), byte_toNat_beq b 13 (by omega)]
  rfl
theorem lsExtIsEol_iff (b : Byte) : lsExtIsEol b.toNat = isEol b := lsLastIsEol_iff b
theorem lsExtNotEol_iff (b : Byte) : lsExtNotEol b.toNat = !isEol b := by
  simp only [lsExtNotEol, isEol, bne, byte_toNat_beq b 10 (by omega), byte_toNat_beq b 13 (by omega), Bool.not_or]
  rfl
theorem lsSeekIsEol_iff (b : Byte) : lsSeekIsEol b.toNat = isEol b := lsLastIsEol_iff b
theorem lsSeekNotEol_iff (b : Byte) : lsSeekNotEol b.toNat = !isEol b := lsExtNotEol_iff b

/-! ### algebra of `fields` / `lines` / `canon` -/

theorem fields_nil (sep : Byte → Bool) : fields sep [] = [] := by
  simp [fields, fieldsGo]

theorem fieldsGo_snoc_sep (sep : Byte → Bool) (a : Bytes) (e : Byte) (he : sep e = true) (cur : Bytes) :
    fieldsGo sep (a ++ [e]) cur = fieldsGo sep a cur := by
  induction a generalizing cur with
  | nil => simp [fieldsGo, he]
  | cons x a ih =>
    simp only [List.cons_append, fieldsGo]
    split <;> simp [ih]

theorem fieldsGo_append_sep (sep : Byte → Bool) (a b : Bytes) (e : Byte) (he : sep e = true) (cur : Bytes) :
    fieldsGo sep (a ++ e :: b) cur = fieldsGo sep (a ++ [e]) cur ++ fieldsGo sep b [] := by
  induction a generalizing cur with
  | nil =>
    simp only [List.nil_append, fieldsGo, he, if_true]
    by_cases hc : cur.isEmpty = true <;> simp [hc]
  | cons x a ih =>
    simp only [List.cons_append, fieldsGo]
    split
    · split <;> simp [ih]
    · exact ih _

theorem fields_snoc_sep (sep : Byte → Bool) (a : Bytes) (e : Byte) (he : sep e = true) :
    fields sep (a ++ [e]) = fields sep a := fieldsGo_snoc_sep sep a e he []

theorem fields_append_sep (sep : Byte → Bool) (a b : Bytes) (e : Byte) (he : sep e = true) :
    fields sep (a ++ e :: b) = fields sep (a ++ [e]) ++ fields sep b := fieldsGo_append_sep sep a b e he []

theorem fields_cons_sep (sep : Byte → Bool) (e : Byte) (a : Bytes) (he : sep e = true) :
    fields sep (e :: a) = fields sep a := by
  simp [fields, fieldsGo, he]

theorem fieldsGo_congr (sep1 sep2 : Byte → Bool) (s : Bytes) (h : ∀ b ∈ s, sep1 b = sep2 b) (cur : Bytes) :
    fieldsGo sep1 s cur = fieldsGo sep2 s cur := by
  induction s generalizing cur with
  | nil => simp [fieldsGo]
  | cons x s ih =>
    have hx : sep1 x = sep2 x := h x (by simp)
    have hs : ∀ b ∈ s, sep1 b = sep2 b := fun b hb => h b (by simp [hb])
    simp only [fieldsGo, hx, ih hs]

theorem fields_congr (sep1 sep2 : Byte → Bool) (s : Bytes) (h : ∀ b ∈ s, sep1 b = sep2 b) :
    fields sep1 s = fields sep2 s := fieldsGo_congr sep1 sep2 s h []

theorem fieldsGo_no_sep (sep : Byte → Bool) (s : Bytes) (h : ∀ b ∈ s, sep b = false) (cur : Bytes) :
    fieldsGo sep s cur = if (cur ++ s).isEmpty then [] else [cur ++ s] := by
  induction s generalizing cur with
  | nil => simp [fieldsGo]
  | cons x s ih =>
    have hx : sep x = false := h x (by simp)
    have hs : ∀ b ∈ s, sep b = false := fun b hb => h b (by simp [hb])
    simp only [fieldsGo, hx, ih hs]
    simp

theorem fields_of_no_sep (sep : Byte → Bool) (s : Bytes) (h : ∀ b ∈ s, sep b = false) (hne : s ≠ []) :
    fields sep s = [s] := by
  simp [fields, fieldsGo_no_sep sep s h, hne]

/-- all bytes separators: no field -/
theorem fields_all_sep (sep : Byte → Bool) (s : Bytes) (h : ∀ b ∈ s, sep b = true) : fields sep s = [] := by
  induction s with
  | nil => exact fields_nil sep
  | cons x s ih =>
    rw [fields_cons_sep sep x s (h x (by simp))]
    exact ih (fun b hb => h b (by simp [hb]))

/-- a separator-free run followed by separators -/
theorem fieldsGo_append (sep : Byte → Bool) (a b : Bytes) (h : ∀ x ∈ a, sep x = false) (cur : Bytes) :
    fieldsGo sep (a ++ b) cur = fieldsGo sep b (cur ++ a) := by
  induction a generalizing cur with
  | nil => simp
  | cons x a ih =>
    have hx : sep x = false := h x (by simp)
    simp only [List.cons_append, fieldsGo, hx]
    have := ih (fun y hy => h y (by simp [hy])) (cur ++ [x])
    rw [this]
    simp

theorem fieldsGo_all_sep (sep : Byte → Bool) (s : Bytes) (h : ∀ b ∈ s, sep b = true) (cur : Bytes) :
    fieldsGo sep s cur = if cur.isEmpty then [] else [cur] := by
  cases s with
  | nil => simp [fieldsGo]
  | cons x s =>
    have hs : fieldsGo sep s [] = [] := fields_all_sep sep s (fun b hb => h b (by simp [hb]))
    simp only [fieldsGo, h x (by simp), hs, if_true]

/-- a separator-free run followed by separators only: at most one field -/
theorem fields_run_seps (sep : Byte → Bool) (a b : Bytes) (ha : ∀ x ∈ a, sep x = false) (hb : ∀ x ∈ b, sep x = true) :
    fields sep (a ++ b) = if a.isEmpty then [] else [a] := by
  simp only [fields]
  rw [fieldsGo_append sep a b ha, fieldsGo_all_sep sep b hb]
  simp

def EndsEol (s : Bytes) : Prop := s = [] ∨ ∃ a e, s = a ++ [e] ∧ isEol e = true

theorem lines_append_of_endsEol (a b : Bytes) (h : EndsEol a) : lines (a ++ b) = lines a ++ lines b := by
  rcases h with h | ⟨a', e, h, he⟩
  · subst h; simp [lines, fields_nil]
  · subst h
    simp only [lines, List.append_assoc, List.singleton_append]
    exact fields_append_sep isEol a' b e he

theorem lines_snoc_eol (a : Bytes) (e : Byte) (he : isEol e = true) : lines (a ++ [e]) = lines a :=
  fields_snoc_sep isEol a e he
theorem lines_cons_eol (e : Byte) (a : Bytes) (he : isEol e = true) : lines (e :: a) = lines a :=
  fields_cons_sep isEol e a he

theorem isSep_eq_isEol_of_ne (b : Byte) (h : b ≠ 0) : isSep b = isEol b := by
  simp [isSep, h]

theorem canon_eq_lines (s : Bytes) (h : NulFree s) : canon s = lines s :=
  fields_congr isSep isEol s (fun b hb => isSep_eq_isEol_of_ne b (h b hb))

theorem lines_of_no_eol (s : Bytes) (h : ∀ b ∈ s, isEol b = false) (hne : s ≠ []) : lines s = [s] :=
  fields_of_no_sep isEol s h hne


/-! ### FindLastRecordBegin -/

theorem take_append_cons {α} (x : List α) (e : α) (y : List α) : (x ++ e :: y).take (x.length + 1) = x ++ [e] := by
  induction x with
  | nil => simp
  | cons a x ih => simp [ih]

theorem drop_append_cons {α} (x : List α) (e : α) (y : List α) : (x ++ e :: y).drop (x.length + 1) = y := by
  induction x with
  | nil => simp
  | cons a x ih => simp [ih]

theorem textFindLastGo_eq (pre : Bytes) (e : Byte) (post : Bytes) (p : Nat)
    (hpre : ∀ b ∈ pre, isEol b = false) (he : isEol e = true) :
    textFindLastGo (pre ++ e :: post) p = p - pre.length + 1 := by
  induction pre generalizing p with
  | nil => simp [textFindLastGo, lsLastIsEol_iff, he]
  | cons x pre ih =>
    have hx : isEol x = false := hpre x (by simp)
    simp only [List.cons_append, textFindLastGo, lsLastIsEol_iff, hx]
    rw [if_neg (by simp), ih _ (fun b hb => hpre b (by simp [hb]))]
    simp; omega

theorem textFindLastGo_cases (r : Bytes) (p : Nat) (hp : r.length ≤ p) :
    (textFindLastGo r p = 0 ∧ ∀ b ∈ r, isEol b = false) ∨
    (∃ pre e post, r = pre ++ e :: post ∧ (∀ b ∈ pre, isEol b = false) ∧ isEol e = true ∧
      textFindLastGo r p = p - pre.length + 1) := by
  induction r generalizing p with
  | nil => left; simp [textFindLastGo]
  | cons x r ih =>
    simp only [textFindLastGo, lsLastIsEol_iff]
    by_cases hx : isEol x = true
    · right; exact ⟨[], x, r, by simp, by simp, hx, by simp [hx]⟩
    · have hx' : isEol x = false := by simpa using hx
      simp only [List.length_cons] at hp
      rcases ih (p - 1) (by omega) with ⟨h0, hall⟩ | ⟨pre, e, post, hr, hpre, he, hres⟩
      · left; simp [hx', h0]; exact hall
      · right
        refine ⟨x :: pre, e, post, by simp [hr], ?_, he, ?_⟩
        · intro b hb
          rcases List.mem_cons.mp hb with h | h
          · subst h; exact hx'
          · exact hpre b h
        · simp [hx', hres]; omega

/-- shape of the result of `FindLastRecordBegin`: `0` when no byte after the first is an EOL, else one past
the last EOL byte -/
theorem textFindLast_cases (hd : Byte) (tl : Bytes) :
    (textFindLast (hd :: tl) = .ok 0 ∧ ∀ b ∈ tl, isEol b = false) ∨
    (∃ x e y, tl = x ++ e :: y ∧ isEol e = true ∧ (∀ b ∈ y, isEol b = false) ∧
      textFindLast (hd :: tl) = .ok (x.length + 2)) := by
  simp only [textFindLast]
  rcases textFindLastGo_cases tl.reverse tl.length (by simp) with ⟨h0, hall⟩ | ⟨pre, e, post, hr, hpre, he, hres⟩
  · left; exact ⟨by rw [h0], fun b hb => hall b (by simpa using hb)⟩
  · right
    have htl : tl = post.reverse ++ e :: pre.reverse := by
      have := congrArg List.reverse hr
      simpa using this
    refine ⟨post.reverse, e, pre.reverse, htl, he, fun b hb => hpre b (by simpa using hb), ?_⟩
    rw [hres]
    have hl : tl.length = post.length + 1 + pre.length := by rw [htl]; simp; omega
    congr 1
    simp; omega

theorem textFindLast_ok (buf : Bytes) (h : buf ≠ []) : ∃ cut, textFindLast buf = .ok cut := by
  cases buf with
  | nil => exact absurd rfl h
  | cons hd tl => exact ⟨_, rfl⟩

theorem textFindLast_spec (buf : Bytes) (cut : Nat) (h : textFindLast buf = .ok cut) :
    cut ≤ buf.length ∧ (cut = 0 ∨ (2 ≤ cut ∧ ∃ a e, buf.take cut = a ++ [e] ∧ isEol e = true)) := by
  cases buf with
  | nil => simp [textFindLast] at h
  | cons hd tl =>
    rcases textFindLast_cases hd tl with ⟨h0, _⟩ | ⟨x, e, y, htl, he, _, hres⟩
    · rw [h0] at h; cases h; simp
    · rw [hres] at h; cases h
      subst htl
      refine ⟨by simp, Or.inr ⟨by omega, hd :: x, e, ?_, he⟩⟩
      rw [List.take_succ_cons, take_append_cons]; rfl

theorem textFindLast_pos (buf : Bytes) (cut : Nat) (h : textFindLast buf = .ok cut)
    (a : Byte) (pre post : Bytes) (e : Byte) (hb : buf = a :: pre ++ e :: post) (he : isEol e = true) : 0 < cut := by
  subst hb
  rcases textFindLast_cases a (pre ++ e :: post) with ⟨_, hall⟩ | ⟨x, e', y, _, _, _, hres⟩
  · have := hall e (by simp)
    rw [he] at this; cases this
  · have h' : textFindLast (a :: (pre ++ e :: post)) = .ok cut := h
    rw [hres] at h'; cases h'; omega

theorem textFindLast_tail_no_eol (buf : Bytes) (cut : Nat) (h : textFindLast buf = .ok cut) :
    ∀ b ∈ buf.drop (max cut 1), isEol b = false := by
  cases buf with
  | nil => simp [textFindLast] at h
  | cons hd tl =>
    rcases textFindLast_cases hd tl with ⟨h0, hall⟩ | ⟨x, e, y, htl, he, hy, hres⟩
    · rw [h0] at h; cases h
      simpa using hall
    · rw [hres] at h; cases h
      subst htl
      have : max (x.length + 2) 1 = (x.length + 1) + 1 := by omega
      rw [this, List.drop_succ_cons]
      rw [drop_append_cons]; exact hy

/-- exact value: the cut is one past the last EOL byte at an index `≥ 1` -/
theorem textFindLast_eq (hd : Byte) (x y : Bytes) (e : Byte) (he : isEol e = true)
    (hy : ∀ b ∈ y, isEol b = false) : textFindLast (hd :: (x ++ e :: y)) = .ok (x.length + 2) := by
  simp only [textFindLast]
  have hr : (x ++ e :: y).reverse = y.reverse ++ e :: x.reverse := by simp
  rw [hr, textFindLastGo_eq _ _ _ _ (fun b hb => hy b (by simpa using hb)) he]
  congr 1
  simp; omega


/-! ### ExtractNextRecord -/

/-- the first loop stops at the first EOL byte or at the end -/
theorem textLineLen_spec (s : Bytes) :
    ∃ line tail, s = line ++ tail ∧ textLineLen s = line.length ∧ (∀ b ∈ line, isEol b = false) ∧
      (tail = [] ∨ ∃ a c, tail = a :: c ∧ isEol a = true) := by
  induction s with
  | nil => exact ⟨[], [], rfl, rfl, by simp, Or.inl rfl⟩
  | cons x s ih =>
    simp only [textLineLen, lsExtIsEol_iff]
    by_cases hx : isEol x = true
    · exact ⟨[], x :: s, rfl, by simp [hx], by simp, Or.inr ⟨x, s, rfl, hx⟩⟩
    · have hx' : isEol x = false := by simpa using hx
      obtain ⟨line, tail, hs, hl, hline, htail⟩ := ih
      refine ⟨x :: line, tail, by simp [hs], by simp [hx', hl], ?_, htail⟩
      intro b hb
      rcases List.mem_cons.mp hb with h | h
      · subst h; exact hx'
      · exact hline b h

/-- the second loop stops at the first non-EOL byte or at the end -/
theorem textEolLen_spec (s : Bytes) :
    ∃ eols tail, s = eols ++ tail ∧ textEolLen s = eols.length ∧ (∀ b ∈ eols, isEol b = true) ∧
      (tail = [] ∨ ∃ a c, tail = a :: c ∧ isEol a = false) := by
  induction s with
  | nil => exact ⟨[], [], rfl, rfl, by simp, Or.inl rfl⟩
  | cons x s ih =>
    simp only [textEolLen, lsExtNotEol_iff]
    by_cases hx : isEol x = true
    · obtain ⟨eols, tail, hs, hl, heols, htail⟩ := ih
      refine ⟨x :: eols, tail, by simp [hs], by simp [hx, hl], ?_, htail⟩
      intro b hb
      rcases List.mem_cons.mp hb with h | h
      · subst h; exact hx
      · exact heols b h
    · have hx' : isEol x = false := by simpa using hx
      exact ⟨[], x :: s, rfl, by simp [hx'], by simp, Or.inr ⟨x, s, rfl, hx'⟩⟩

/-- the record consumed by `ExtractNextRecord` from a non-empty window: a (possibly empty) EOL-free line, the
whole EOL run after it (non-empty unless the window ends), then a non-EOL byte or the end of the window -/
theorem textExtract_shape (s : Bytes) (hs : s ≠ []) :
    ∃ line eols tail, s = line ++ eols ++ tail ∧
      textLineLen s + textEolLen (s.drop (textLineLen s)) = line.length + eols.length ∧
      (∀ b ∈ line, isEol b = false) ∧ (∀ b ∈ eols, isEol b = true) ∧
      (tail = [] ∨ ∃ a c, tail = a :: c ∧ isEol a = false) ∧ (eols = [] → tail = []) ∧
      0 < line.length + eols.length := by
  obtain ⟨line, t1, h1, hl1, hline, ht1⟩ := textLineLen_spec s
  obtain ⟨eols, tail, h2, hl2, heols, htail⟩ := textEolLen_spec t1
  have hd : s.drop (textLineLen s) = t1 := by rw [hl1, h1]; simp
  have hempty : eols = [] → tail = [] := by
    intro he
    rcases ht1 with h | ⟨a, c, h, ha⟩
    · rw [h] at h2; simpa [he] using h2.symm
    · rcases htail with h' | ⟨a', c', h', ha'⟩
      · exact h'
      · rw [he, h', h] at h2
        simp at h2
        rw [h2.1] at ha; rw [ha] at ha'; cases ha'
  refine ⟨line, eols, tail, by rw [h1, h2, List.append_assoc], by rw [hd, hl1, hl2], hline, heols, htail, hempty, ?_⟩
  cases line with
  | cons _ _ => simp; omega
  | nil =>
    cases eols with
    | cons _ _ => simp
    | nil => rw [h1, h2, hempty rfl] at hs; simp at hs

theorem textExtract_none (c : Chunk) : textExtract c = .ok none ↔ c.rest = [] := by
  unfold textExtract
  by_cases h : c.rest = []
  · simp [h]
  · simp only [List.isEmpty_iff, h, if_false, iff_false]
    intro hc
    split at hc
    · split at hc <;> cases hc
    · cases hc


theorem take_append_len {α} (a b : List α) (n : Nat) (h : n = a.length) : (a ++ b).take n = a := by
  subst h; simp
theorem drop_append_len {α} (a b : List α) (n : Nat) (h : n = a.length) : (a ++ b).drop n = b := by
  subst h; simp

theorem textExtract_unfold (c : Chunk) (hne : c.rest ≠ []) (p : Nat)
    (hp : textLineLen c.rest + textEolLen (c.rest.drop (textLineLen c.rest)) = p) :
    textExtract c =
      if p = c.rest.length then
        (if c.begin + p < 4 * c.dataWords then
          .ok (some (c.rest, { c with begin := c.begin + p, rest := c.rest.drop p })) else .error .oob)
      else .ok (some (c.rest.take (p - 1) ++ [0], { c with begin := c.begin + p, rest := c.rest.drop p })) := by
  subst hp
  simp [textExtract, hne]

theorem endsEol_snoc (a : Bytes) (e : Byte) (he : isEol e = true) : EndsEol (a ++ [e]) :=
  Or.inr ⟨a, e, rfl, he⟩

theorem nulFree_append {a b : Bytes} : NulFree (a ++ b) ↔ NulFree a ∧ NulFree b := by
  simp only [NulFree, List.mem_append]
  constructor
  · intro h; exact ⟨fun x hx => h x (Or.inl hx), fun x hx => h x (Or.inr hx)⟩
  · rintro ⟨h1, h2⟩ x (hx | hx)
    · exact h1 x hx
    · exact h2 x hx

theorem isSep_zero : isSep 0 = true := by decide

/-- full description of a successful `ExtractNextRecord` in terms of the `line ++ eols ++ tail` shape -/
theorem textExtract_shape_spec (c c' : Chunk) (blob : Bytes) (h : textExtract c = .ok (some (blob, c'))) :
    ∃ line eols tail, c.rest = line ++ eols ++ tail ∧
      (∀ b ∈ line, isEol b = false) ∧ (∀ b ∈ eols, isEol b = true) ∧
      (tail = [] ∨ ∃ a t, tail = a :: t ∧ isEol a = false) ∧ (eols = [] → tail = []) ∧
      0 < line.length + eols.length ∧
      c' = { c with begin := c.begin + (line.length + eols.length), rest := tail } ∧
      ((tail = [] ∧ blob = c.rest ∧ c.begin + c.rest.length < 4 * c.dataWords) ∨
       (tail ≠ [] ∧ ∃ eols' e, eols = eols' ++ [e] ∧ blob = line ++ eols' ++ [0])) := by
  have hne : c.rest ≠ [] := by
    intro h0; rw [(textExtract_none c).mpr h0] at h; cases h
  obtain ⟨line, eols, tail, hs, hp, hline, heols, htail, hempty, hpos⟩ := textExtract_shape c.rest hne
  rw [textExtract_unfold c hne _ hp] at h
  have hdrop : c.rest.drop (line.length + eols.length) = tail := by
    rw [hs]; exact drop_append_len _ _ _ (by simp)
  have hlen : c.rest.length = line.length + eols.length + tail.length := by rw [hs]; simp; omega
  refine ⟨line, eols, tail, hs, hline, heols, htail, hempty, hpos, ?_⟩
  split at h
  · rename_i hpl
    have ht : tail = [] := by
      apply List.eq_nil_of_length_eq_zero; omega
    split at h
    · rename_i hcap
      simp only [Except.ok.injEq, Option.some.injEq, Prod.mk.injEq] at h
      refine ⟨by rw [← h.2, hdrop], Or.inl ⟨ht, h.1.symm, by omega⟩⟩
    · cases h
  · rename_i hpl
    simp only [Except.ok.injEq, Option.some.injEq, Prod.mk.injEq] at h
    have ht : tail ≠ [] := by
      intro ht; rw [ht] at hlen; simp at hlen; omega
    refine ⟨by rw [← h.2, hdrop], Or.inr ⟨ht, ?_⟩⟩
    rcases List.eq_nil_or_concat eols with he | ⟨eols', e, he⟩
    · exact absurd (hempty he) ht
    · refine ⟨eols', e, by simpa using he, ?_⟩
      simp only [List.concat_eq_append] at he
      rw [← h.1, hs, he]
      have h1 : line ++ (eols' ++ [e]) ++ tail = (line ++ eols') ++ ([e] ++ tail) := by simp
      rw [h1, take_append_len _ _ _ (by simp)]

theorem textExtract_spec (c c' : Chunk) (blob : Bytes) (h : textExtract c = .ok (some (blob, c'))) (hn : NulFree c.rest) :
    ∃ p, 0 < p ∧ p ≤ c.rest.length ∧ c'.rest = c.rest.drop p ∧ c'.begin = c.begin + p ∧ c'.dataWords = c.dataWords ∧
      blob.length = p ∧ canon blob = lines (c.rest.take p) ∧
      (p = c.rest.length ∨ EndsEol (c.rest.take p)) ∧
      lines c.rest = lines (c.rest.take p) ++ lines (c.rest.drop p) := by
  obtain ⟨line, eols, tail, hs, hline, heols, htail, hempty, hpos, hc', hcase⟩ := textExtract_shape_spec c c' blob h
  have htake : c.rest.take (line.length + eols.length) = line ++ eols := by
    rw [hs]; exact take_append_len _ _ _ (by simp)
  have hdrop : c.rest.drop (line.length + eols.length) = tail := by
    rw [hs]; exact drop_append_len _ _ _ (by simp)
  have hlen : c.rest.length = line.length + eols.length + tail.length := by rw [hs]; simp; omega
  refine ⟨line.length + eols.length, hpos, by omega, by rw [hc', hdrop], by rw [hc'], by rw [hc'], ?_⟩
  rw [htake, hdrop]
  rcases hcase with ⟨ht, hb, _⟩ | ⟨ht, eols', e, he, hb⟩
  · subst ht
    have hs' : c.rest = line ++ eols := by simpa using hs
    refine ⟨by rw [hb, hlen]; simp, ?_, Or.inl (by rw [hlen]; simp), by rw [hs']; simp [lines, fields_nil]⟩
    rw [hb, hs']; rw [hs'] at hn; exact canon_eq_lines _ hn
  · have hee : isEol e = true := heols e (by rw [he]; simp)
    have hends : EndsEol (line ++ eols) := by
      rw [he, ← List.append_assoc]; exact endsEol_snoc _ _ hee
    refine ⟨by rw [hb, he]; simp, ?_, Or.inr hends, by rw [hs]; exact lines_append_of_endsEol _ _ hends⟩
    rw [hb, he, ← List.append_assoc line eols' [e], lines_snoc_eol _ _ hee]
    show fields isSep _ = _
    rw [fields_snoc_sep isSep _ 0 isSep_zero]
    apply canon_eq_lines
    rw [hs, he] at hn
    have h1 := (nulFree_append.mp (nulFree_append.mp hn).1)
    exact nulFree_append.mpr ⟨h1.1, (nulFree_append.mp h1.2).1⟩


theorem textExtract_ok (c : Chunk) (hcap : c.begin + c.rest.length < 4 * c.dataWords) : ∃ r, textExtract c = .ok r := by
  by_cases hne : c.rest = []
  · exact ⟨none, (textExtract_none c).mpr hne⟩
  · rw [textExtract_unfold c hne _ rfl]
    split
    · rename_i hp
      rw [hp, if_pos hcap]; exact ⟨_, rfl⟩
    · exact ⟨_, rfl⟩

/-- the only failure is the store of the `'\0'` one past a record that reaches the end of a full buffer -/
theorem textExtract_error (c : Chunk) (e : Err) (h : textExtract c = .error e) :
    e = .oob ∧ c.rest ≠ [] ∧ 4 * c.dataWords ≤ c.begin + c.rest.length := by
  have hne : c.rest ≠ [] := by
    intro h0; rw [(textExtract_none c).mpr h0] at h; cases h
  have hcap : ¬ (c.begin + c.rest.length < 4 * c.dataWords) := by
    intro hc
    obtain ⟨r, hr⟩ := textExtract_ok c hc
    rw [hr] at h; cases h
  rw [textExtract_unfold c hne _ rfl] at h
  split at h
  · split at h
    · cases h
    · cases h; exact ⟨rfl, hne, by omega⟩
  · cases h

private theorem chunkEquiv_refl (c : Chunk) : ChunkEquiv c c := ⟨rfl, fun _ => ⟨rfl, rfl⟩⟩

theorem textExtract_equiv (c d : Chunk) (h : ChunkEquiv c d) :
    match textExtract c, textExtract d with
    | .ok none, .ok none => True
    | .ok (some (b1, c1)), .ok (some (b2, d1)) => b1 = b2 ∧ ChunkEquiv c1 d1
    | .error e1, .error e2 => e1 = e2
    | _, _ => False := by
  by_cases hne : c.rest = []
  · have hd : d.rest = [] := by rw [← h.1]; exact hne
    rw [(textExtract_none c).mpr hne, (textExtract_none d).mpr hd]
    trivial
  · have hcd : c = d := by
      obtain ⟨h1, h2⟩ := h
      obtain ⟨h2, h3⟩ := h2 hne
      cases c; cases d; simp_all
    subst hcd
    cases hr : textExtract c with
    | error e => simp
    | ok r =>
      cases r with
      | none => simp
      | some bc => simp [chunkEquiv_refl]


/-! ### SeekRecordBegin -/

/-- `line ++ eols ++ tail` with a whole EOL run splits cleanly after the run -/
theorem lines_shape (line eols tail : Bytes) (heols : ∀ b ∈ eols, isEol b = true) (hempty : eols = [] → tail = []) :
    lines (line ++ eols ++ tail) = lines (line ++ eols) ++ lines tail := by
  rcases List.eq_nil_or_concat eols with he | ⟨eols', e, he⟩
  · rw [hempty he]; simp [lines, fields_nil]
  · simp only [List.concat_eq_append] at he
    apply lines_append_of_endsEol
    rw [he, ← List.append_assoc]
    exact endsEol_snoc _ _ (heols e (by rw [he]; simp))

/-- the lines of a record `line ++ eols`: the line, unless it is empty -/
theorem lines_line_eols (line eols : Bytes) (hline : ∀ b ∈ line, isEol b = false) (heols : ∀ b ∈ eols, isEol b = true) :
    lines (line ++ eols) = if line.isEmpty then [] else [line] :=
  fields_run_seps isEol line eols hline heols

/-- second loop of `SeekRecordBegin`: skips the EOL run, consumes one more byte when there is one -/
theorem textSeekEol_shape (s : Bytes) :
    ∃ eols tail, s = eols ++ tail ∧ (∀ b ∈ eols, isEol b = true) ∧
      (tail = [] ∨ ∃ a c, tail = a :: c ∧ isEol a = false) ∧
      (textSeekEol s).1 = eols.length ∧ (textSeekEol s).2 = eols.length + (if tail = [] then 0 else 1) := by
  induction s with
  | nil => exact ⟨[], [], rfl, by simp, Or.inl rfl, rfl, rfl⟩
  | cons x s ih =>
    simp only [textSeekEol, lsSeekNotEol_iff]
    by_cases hx : isEol x = true
    · obtain ⟨eols, tail, hs, heols, htail, h1, h2⟩ := ih
      refine ⟨x :: eols, tail, by simp [hs], ?_, htail, by simp [hx, h1], by simp [hx, h2]; omega⟩
      intro b hb
      rcases List.mem_cons.mp hb with h | h
      · subst h; exact hx
      · exact heols b h
    · have hx' : isEol x = false := by simpa using hx
      exact ⟨[], x :: s, rfl, by simp, Or.inr ⟨x, s, rfl, hx'⟩, by simp [hx'], by simp [hx']⟩

/-- `SeekRecordBegin`: skips the rest of the current line and the whole EOL run after it; `nstep` counts
these bytes; one more byte (the first of the next line) is consumed from the stream when there is one -/
theorem textSeekLine_shape (s : Bytes) :
    ∃ line eols tail, s = line ++ eols ++ tail ∧ (∀ b ∈ line, isEol b = false) ∧ (∀ b ∈ eols, isEol b = true) ∧
      (tail = [] ∨ ∃ a c, tail = a :: c ∧ isEol a = false) ∧ (eols = [] → tail = []) ∧
      (textSeekLine s).1 = line.length + eols.length ∧
      (textSeekLine s).2 = line.length + eols.length + (if tail = [] then 0 else 1) := by
  induction s with
  | nil => exact ⟨[], [], [], rfl, by simp, by simp, Or.inl rfl, fun _ => rfl, rfl, rfl⟩
  | cons x s ih =>
    simp only [textSeekLine, lsSeekIsEol_iff]
    by_cases hx : isEol x = true
    · obtain ⟨eols, tail, hs, heols, htail, h1, h2⟩ := textSeekEol_shape s
      refine ⟨[], x :: eols, tail, by simp [hs], by simp, ?_, htail, by simp, by simp [hx, h1], by simp [hx, h2]; omega⟩
      intro b hb
      rcases List.mem_cons.mp hb with h | h
      · subst h; exact hx
      · exact heols b h
    · have hx' : isEol x = false := by simpa using hx
      obtain ⟨line, eols, tail, hs, hline, heols, htail, hempty, h1, h2⟩ := ih
      refine ⟨x :: line, eols, tail, by simp [hs], ?_, heols, htail, hempty, by simp [hx', h1]; omega,
        by simp [hx', h2]; omega⟩
      intro b hb
      rcases List.mem_cons.mp hb with h | h
      · subst h; exact hx'
      · exact hline b h

theorem textSeekLine_spec (s : Bytes) :
    (textSeekLine s).1 ≤ s.length ∧ (textSeekLine s).2 ≤ s.length ∧ (s ≠ [] → 0 < (textSeekLine s).1) ∧
    ((textSeekLine s).1 = s.length ∨
     (∃ a c, s.drop ((textSeekLine s).1 - 1) = a :: c ∧ isEol a = true) ∧
     (∃ a c, s.drop (textSeekLine s).1 = a :: c ∧ isEol a = false)) := by
  obtain ⟨line, eols, tail, hs, hline, heols, htail, hempty, h1, h2⟩ := textSeekLine_shape s
  have hlen : s.length = line.length + eols.length + tail.length := by rw [hs]; simp; omega
  rw [h1, h2]
  refine ⟨by omega, ?_, ?_, ?_⟩
  · split
    · omega
    · rename_i ht
      have : 0 < tail.length := List.length_pos_iff.mpr ht
      omega
  · intro hne
    cases line with
    | cons _ _ => simp; omega
    | nil =>
      cases eols with
      | cons _ _ => simp
      | nil => rw [hs, hempty rfl] at hne; simp at hne
  · rcases htail with ht | ⟨a, c, ht, ha⟩
    · left; rw [hlen, ht]; simp
    · right
      rcases List.eq_nil_or_concat eols with he | ⟨eols', e, he⟩
      · rw [hempty he] at ht; cases ht
      · simp only [List.concat_eq_append] at he
        constructor
        · refine ⟨e, tail, ?_, heols e (by rw [he]; simp)⟩
          have h3 : s = (line ++ eols') ++ (e :: tail) := by rw [hs, he]; simp
          rw [h3]; exact drop_append_len _ _ _ (by rw [he]; simp)
        · refine ⟨a, c, ?_, ha⟩
          rw [hs, ← ht]; exact drop_append_len _ _ _ (by simp)

theorem textSeekLine_lines (s : Bytes) :
    lines s = lines (s.take (textSeekLine s).1) ++ lines (s.drop (textSeekLine s).1) := by
  obtain ⟨line, eols, tail, hs, hline, heols, htail, hempty, h1, h2⟩ := textSeekLine_shape s
  have htake : s.take (textSeekLine s).1 = line ++ eols := by
    rw [h1, hs]; exact take_append_len _ _ _ (by simp)
  have hdrop : s.drop (textSeekLine s).1 = tail := by
    rw [h1, hs]; exact drop_append_len _ _ _ (by simp)
  rw [htake, hdrop, hs]
  exact lines_shape line eols tail heols hempty

end DmlcModel.Split
