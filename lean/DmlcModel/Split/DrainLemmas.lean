/-
Top layer of property C03 for the TEXT format on a bare split (`St.wrap = none`): every `NextRecord` /
`NextChunk` call hands out the next piece of the part's stream without cutting a line
(`nextChunk_text`, `nextRecord_text`), a full `drain` delivers blobs whose canonical lines are exactly the
lines of everything that was still to be delivered (`drain_text`), and none of this raises an error or
runs out of the model's iteration bounds (`nextChunk_text_total`, `nextRecord_text_total`,
`drain_text_total`).  Built on ChunkLemmas (`load_spec`, `load_total`), whose interface hypotheses are
discharged here for `Fmt.text` from ReadLemmas / TextLemmas.  Core Lean only.

`nextLoop` / `drainGo` cannot be unfolded directly (see the note in ChunkLemmas.lean): the unfolding
lemmas `nextLoop_succ`, `drainGo_succ` come from generic copies (`nextGen`, `drainGen`) with `load F` /
`step F` as variables.
-/
import DmlcModel.Split.TextLemmas
import DmlcModel.Split.ReadLemmas
import DmlcModel.Split.ChunkLemmas

namespace DmlcModel.Split
open DmlcModel DmlcModel.Gen.Split

/-- `nextLoop` with `load F` abstracted -/
def nextGen (ld : Base → Chunk → Except Err (Bool × Base × Chunk))
    (ext : Chunk → Except Err (Option (Bytes × Chunk))) : Nat → Base → Except Err (Option Bytes × Base)
  | 0, _ => .error .fuel
  | fuel + 1, s =>
    nextLoop.match_3 (fun _ => Except Err (Option Bytes × Base)) (ext s.chunk)
      (fun e => .error e)
      (fun b c => .ok (some b, { s with chunk := c }))
      (fun _ =>
        nextLoop.match_1 (fun _ => Except Err (Option Bytes × Base)) (ld s s.chunk)
          (fun e => .error e)
          (fun s c => .ok (none, { s with chunk := c }))
          (fun s c => nextGen ld ext fuel { s with chunk := c }))

/-- one visit of the loop of `NextRecord` / `NextChunk` -/
def nextStep (s : Base) (x : Except Err (Option (Bytes × Chunk))) (l : Except Err (Bool × Base × Chunk))
    (k : Base → Except Err (Option Bytes × Base)) : Except Err (Option Bytes × Base) :=
  match x with
  | .error e => .error e
  | .ok (some (b, c)) => .ok (some b, { s with chunk := c })
  | .ok none =>
    match l with
    | .error e => .error e
    | .ok (false, s, c) => .ok (none, { s with chunk := c })
    | .ok (true, s, c) => k { s with chunk := c }

theorem nextGen_succ (ld : Base → Chunk → Except Err (Bool × Base × Chunk))
    (ext : Chunk → Except Err (Option (Bytes × Chunk))) (fuel : Nat) (s : Base) :
    nextGen ld ext (fuel + 1) s = nextStep s (ext s.chunk) (ld s s.chunk) (nextGen ld ext fuel) := by
  rw [nextGen]; rfl

attribute [local irreducible] load in
theorem nextLoop_eq_gen (F : Fmt) (ext : Chunk → Except Err (Option (Bytes × Chunk))) :
    nextLoop F ext = nextGen (load F) ext := by
  delta nextLoop nextGen
  rfl

theorem nextLoop_zero (F : Fmt) (ext : Chunk → Except Err (Option (Bytes × Chunk))) (s : Base) :
    nextLoop F ext 0 s = .error .fuel := rfl

theorem nextLoop_succ (F : Fmt) (ext : Chunk → Except Err (Option (Bytes × Chunk))) (fuel : Nat) (s : Base) :
    nextLoop F ext (fuel + 1) s = nextStep s (ext s.chunk) (load F s s.chunk) (nextLoop F ext fuel) := by
  rw [nextLoop_eq_gen]
  exact nextGen_succ (load F) ext fuel s

/-! ### the interface hypotheses of ChunkLemmas for the text format -/

theorem readShortB (F : Fmt) : ReadShortB F :=
  fun _ s size bytes s' h hi _ _ hs hn => read_short F s size bytes s' h hi (by omega) hs hn
theorem readSpecB (F : Fmt) : ReadSpecB F := readSpec62 F
theorem readTotalB (F : Fmt) : ReadTotalB F := readTotal62 F

theorem cutOk_text : CutOk Fmt.text := fun buf cut h => (textFindLast_spec buf cut h).1

theorem textCut_text : TextCut Fmt.text :=
  ⟨fun buf h => textFindLast_ok buf h,
   fun buf cut a pre e post h hb he =>
     textFindLast_pos buf cut h a pre post e hb (by rcases he with rfl | rfl <;> decide)⟩

theorem cutEol_text : CutEol Fmt.text := CutEol_of_TextCut _ textCut_text

/-! ### invariant -/

/-- everything still to be delivered -/
def tailT (s : Base) : Bytes := s.chunk.rest ++ s.overflow ++ pending Fmt.text s

/-- invariant of a bare text split between public calls -/
def TInv (s : Base) : Prop :=
  RInv s ∧ EndsEol s.chunk.rest ∧ NulFree (tailT s) ∧ totalSize s.files < 2^56 ∧ s.bufWords < 2^56 ∧
  (ahead Fmt.text s).length < 2^56 ∧
  (s.chunk.rest ≠ [] → s.chunk.begin + s.chunk.rest.length < 4 * s.chunk.dataWords)

theorem tailT_eq (s : Base) : tailT s = s.chunk.rest ++ ahead Fmt.text s := by
  unfold tailT ahead; rw [List.append_assoc]

/-- measure for a full drain: bytes still to be delivered, plus one for the `'\n'` that `ReadChunk` may
still append to an unterminated last line -/
def drainM (s : Base) : Nat := (tailT s).length + min 1 (ahead Fmt.text s).length

theorem nulFree_nil : NulFree [] := fun _ h => by cases h

theorem endsEol_nil : EndsEol [] := Or.inl rfl

theorem endsEol_drop (s : Bytes) (p : Nat) (h : EndsEol s) : EndsEol (s.drop p) := by
  rcases h with h | ⟨a, e, h, he⟩
  · subst h; simp [endsEol_nil]
  · subst h
    by_cases hp : p ≤ a.length
    · rw [List.drop_append_of_le_length hp]; exact endsEol_snoc _ _ he
    · rw [List.drop_eq_nil_of_le (by simp; omega)]; exact endsEol_nil

/-! ### one `Chunk::Load` on an exhausted window -/

theorem load_text (s s1 : Base) (c : Chunk) (ok : Bool) (h : load Fmt.text s s.chunk = .ok (ok, s1, c))
    (hinv : TInv s) (he : s.chunk.rest = []) :
    TInv { s1 with chunk := c } ∧ s1.files = s.files ∧ s1.offBegin = s.offBegin ∧ s1.offEnd = s.offEnd ∧
    s1.bufWords = s.bufWords ∧
    (ok = false → tailT s = [] ∧ tailT { s1 with chunk := c } = []) ∧
    (ok = true → c.rest ≠ [] ∧ lines (tailT { s1 with chunk := c }) = lines (tailT s) ∧
      drainM { s1 with chunk := c } ≤ drainM s) := by
  obtain ⟨hR, hE, hN, hts, hbw, hah, hcap⟩ := hinv
  obtain ⟨i1, i2, i3, i4, i5, i6, i7, i8, i9, i10⟩ :=
    load_spec Fmt.text (readSpecB _) cutOk_text (readShortB _) cutEol_text s s1 s.chunk c ok h hR (by omega) hbw hah
  have htl : tailT s = ahead Fmt.text s := by rw [tailT_eq, he]; rfl
  have htl' : tailT { s1 with chunk := c } = c.rest ++ s1.overflow ++ pending Fmt.text s1 := rfl
  have hah' : ahead Fmt.text { s1 with chunk := c } = s1.overflow ++ pending Fmt.text s1 := rfl
  cases ok with
  | false =>
    obtain ⟨j1, j2, j3, j4, j5⟩ := i9 rfl
    have ht0 : tailT { s1 with chunk := c } = [] := by rw [htl', j1, he, j4, j5]; rfl
    refine ⟨⟨i1, ?_, ?_, by rw [i2]; exact hts, by rw [i6]; exact hbw, ?_, ?_⟩, i2, i3, i4, i6,
      fun _ => ⟨by rw [htl]; exact j3, ht0⟩, (fun hk => by cases hk)⟩
    · show EndsEol c.rest; rw [j1, he]; exact endsEol_nil
    · rw [ht0]; exact nulFree_nil
    · rw [hah', j4, j5]; simp
    · intro hne; exact absurd (j1.trans he) hne
  | true =>
    obtain ⟨j1, j2, j3, j4, j5⟩ := i10 rfl
    have hEnd : EndsEol c.rest := by
      rcases j5 with ⟨buf, cut, hc, htake, _, _⟩ | ⟨hf, _⟩
      · rcases (textFindLast_spec buf cut hc).2 with h0 | ⟨_, a, e, hae, hee⟩
        · subst h0; rw [htake] at j2; simp at j2
        · rw [htake, hae]; exact endsEol_snoc _ _ hee
      · cases hf
    have hcl : 0 < c.rest.length := List.length_pos_iff.2 j2
    have key : (tailT { s1 with chunk := c } = tailT s ∨ tailT { s1 with chunk := c } = tailT s ++ [10]) ∧
        (ahead Fmt.text { s1 with chunk := c }).length ≤ (ahead Fmt.text s).length := by
      rcases j4 with hA | ⟨_, hp, _, hB⟩
      · refine ⟨Or.inl (by rw [htl', htl, hA]), ?_⟩
        rw [hah', ← hA]; simp only [List.length_append]; omega
      · refine ⟨Or.inr (by rw [htl', htl, hp, hB]; simp), ?_⟩
        have := congrArg List.length hB
        rw [hah', hp]; simp only [List.length_append, List.length_cons, List.length_nil] at this ⊢; omega
    have hmeas : drainM { s1 with chunk := c } ≤ drainM s := by
      unfold drainM
      rcases j4 with hA | ⟨_, hp, hane, hB⟩
      · have e : tailT { s1 with chunk := c } = tailT s := by rw [htl', htl, hA]
        have hl := congrArg List.length hA
        rw [e, hah']
        simp only [List.length_append] at hl ⊢
        omega
      · -- the appended '\n' ends the buffer, so the cut is at its end: nothing is carried over
        have hov : s1.overflow = [] := by
          rcases j5 with ⟨buf, cut, hc, htake, hdrop, _⟩ | ⟨hf, _⟩
          · have hbuf : buf = ahead Fmt.text s ++ [10] := by
              rw [← hB, htake, hdrop, List.take_append_drop]
            have hcut : 1 ≤ cut := by
              cases cut with
              | zero => rw [htake] at j2; simp at j2
              | succ n => omega
            have hno := textFindLast_tail_no_eol buf cut hc
            rw [show max cut 1 = cut by omega, ← hdrop] at hno
            by_cases hle : cut ≤ (ahead Fmt.text s).length
            · exfalso
              have : (10 : Byte) ∈ s1.overflow := by
                rw [hdrop, hbuf, List.drop_append_of_le_length hle]; simp
              have := hno 10 this
              revert this; decide
            · rw [hdrop, hbuf]; exact List.drop_eq_nil_of_le (by simp; omega)
          · cases hf
        have e : tailT { s1 with chunk := c } = tailT s ++ [10] := by rw [htl', htl, hp, hB]; simp
        have hne : 0 < (ahead Fmt.text s).length := List.length_pos_iff.2 hane
        rw [e, hah', hov, hp]
        simp only [List.length_append, List.length_cons, List.length_nil]
        omega
    have hlines : lines (tailT { s1 with chunk := c }) = lines (tailT s) := by
      rcases key.1 with e | e
      · rw [e]
      · rw [e]; exact lines_snoc_eol _ _ (by decide)
    have hnf : NulFree (tailT { s1 with chunk := c }) := by
      rcases key.1 with e | e
      · rw [e]; exact hN
      · rw [e]; exact nulFree_append.2 ⟨hN, fun b hb => by simp at hb; subst hb; decide⟩
    exact ⟨⟨i1, hEnd, hnf, by rw [i2]; exact hts, by rw [i6]; exact hbw, by have := key.2; omega,
      fun _ => j3⟩, i2, i3, i4, i6, (fun hk => by cases hk), fun _ => ⟨j2, hlines, hmeas⟩⟩

/-! ### the extraction step, generic in the `Extract` function -/

/-- what `NextRecord` / `NextChunk` need of their `Extract` function on a NUL-free window: it fails only on
an empty window, otherwise it takes a non-empty prefix `pre` (the whole window or an EOL-terminated piece)
and hands out a blob related to `pre` by `R` -/
def ExtOk (ext : Chunk → Except Err (Option (Bytes × Chunk))) (R : Bytes → Bytes → Prop) : Prop :=
  (∀ c, ext c = .ok none → c.rest = []) ∧
  (∀ c b c', ext c = .ok (some (b, c')) → NulFree c.rest →
     ∃ p, 0 < p ∧ p ≤ c.rest.length ∧ c'.rest = c.rest.drop p ∧ c'.begin = c.begin + p ∧
       c'.dataWords = c.dataWords ∧ R b (c.rest.take p) ∧ (p = c.rest.length ∨ EndsEol (c.rest.take p)))

theorem extOk_chunk : ExtOk (fun c => .ok (extractChunk c)) (fun b pre => b = pre) := by
  constructor
  · intro c h
    simp only [Except.ok.injEq] at h
    unfold extractChunk at h
    split at h
    · rename_i he; simpa using he
    · cases h
  · intro c b c' h _
    simp only [Except.ok.injEq] at h
    unfold extractChunk at h
    split at h
    · cases h
    · rename_i he
      simp only [Option.some.injEq, Prod.mk.injEq] at h
      obtain ⟨rfl, rfl⟩ := h
      have hne : c.rest ≠ [] := by simpa using he
      exact ⟨c.rest.length, List.length_pos_iff.2 hne, Nat.le_refl _, by simp, rfl, rfl, by simp, Or.inl rfl⟩

theorem extOk_record :
    ExtOk Fmt.text.extractNext (fun b pre => canon b = lines pre ∧ b.length = pre.length) := by
  constructor
  · intro c h; exact (textExtract_none c).1 h
  · intro c b c' h hn
    obtain ⟨p, h1, h2, h3, h4, h5, h6, h7, h8, _⟩ := textExtract_spec c c' b h hn
    refine ⟨p, h1, h2, h3, h4, h5, ⟨h7, ?_⟩, h8⟩
    rw [h6, List.length_take]; omega

theorem ext_text (ext : Chunk → Except Err (Option (Bytes × Chunk))) (R : Bytes → Bytes → Prop)
    (hX : ExtOk ext R) (s : Base) (b : Bytes) (c' : Chunk) (h : ext s.chunk = .ok (some (b, c')))
    (hinv : TInv s) :
    TInv { s with chunk := c' } ∧
    drainM { s with chunk := c' } < drainM s ∧
    ∃ pre, R b pre ∧ pre ≠ [] ∧ EndsEol pre ∧ NulFree pre ∧ pre ++ tailT { s with chunk := c' } = tailT s := by
  obtain ⟨hR, hE, hN, hts, hbw, hah, hcap⟩ := hinv
  have hNr : NulFree s.chunk.rest := by
    rw [tailT_eq] at hN; exact (nulFree_append.1 hN).1
  obtain ⟨p, hp0, hpl, hrest, hbeg, hdw, hRb, hend⟩ := hX.2 s.chunk b c' h hNr
  have hne : s.chunk.rest ≠ [] := by intro e; rw [e] at hpl; simp at hpl; omega
  have hsplit : s.chunk.rest.take p ++ tailT { s with chunk := c' } = tailT s := by
    show s.chunk.rest.take p ++ (c'.rest ++ s.overflow ++ pending Fmt.text s) = _
    rw [hrest]; unfold tailT
    simp only [← List.append_assoc, List.take_append_drop]
  have hpre : EndsEol (s.chunk.rest.take p) := by
    rcases hend with e | e
    · rw [e, List.take_length]; exact hE
    · exact e
  have hN' : NulFree (s.chunk.rest.take p) ∧ NulFree (tailT { s with chunk := c' }) := by
    rw [← hsplit] at hN; exact nulFree_append.1 hN
  have hl : 0 < s.chunk.rest.length := List.length_pos_iff.2 hne
  refine ⟨⟨hR, ?_, hN'.2, hts, hbw, hah, ?_⟩, ?_, s.chunk.rest.take p, hRb, ?_, hpre, hN'.1, hsplit⟩
  · show EndsEol c'.rest; rw [hrest]; exact endsEol_drop _ _ hE
  · intro _
    show c'.begin + c'.rest.length < 4 * c'.dataWords
    have h1 := hcap hne
    have h2 : c'.rest.length = s.chunk.rest.length - p := by rw [hrest, List.length_drop]
    rw [h2, hbeg, hdw]; omega
  · have e : ahead Fmt.text { s with chunk := c' } = ahead Fmt.text s := rfl
    have hlen := congrArg List.length hsplit
    unfold drainM
    rw [e]
    rw [List.length_append, List.length_take] at hlen
    omega
  · intro e
    have := congrArg List.length e
    rw [List.length_take, List.length_nil] at this; omega

/-! ### the loop of `NextRecord` / `NextChunk` -/

theorem nextLoop_text (ext : Chunk → Except Err (Option (Bytes × Chunk))) (R : Bytes → Bytes → Prop)
    (hX : ExtOk ext R) :
    ∀ (fuel : Nat) (s s' : Base) (r : Option Bytes), nextLoop Fmt.text ext fuel s = .ok (r, s') → TInv s →
    TInv s' ∧ s'.files = s.files ∧ s'.offBegin = s.offBegin ∧ s'.offEnd = s.offEnd ∧ s'.bufWords = s.bufWords ∧
    match r with
    | some b => drainM s' < drainM s ∧ ∃ pre, R b pre ∧ pre ≠ [] ∧ EndsEol pre ∧ NulFree pre ∧
        lines pre ++ lines (tailT s') = lines (tailT s)
    | none => lines (tailT s) = [] ∧ tailT s' = [] := by
  intro fuel
  induction fuel with
  | zero => intro s s' r h; rw [nextLoop_zero] at h; cases h
  | succ fuel ih =>
    intro s s' r h hinv
    rw [nextLoop_succ] at h
    cases hx : ext s.chunk with
    | error e => rw [hx] at h; simp only [nextStep] at h; cases h
    | ok o =>
      cases o with
      | some bc =>
        obtain ⟨b, c⟩ := bc
        rw [hx] at h; simp only [nextStep] at h
        cases h
        obtain ⟨hinv', hm, pre, h1, h2, h3, h4, h5⟩ := ext_text ext R hX s b c hx hinv
        refine ⟨hinv', rfl, rfl, rfl, rfl, hm, pre, h1, h2, h3, h4, ?_⟩
        rw [← h5]; exact (lines_append_of_endsEol _ _ h3).symm
      | none =>
        have he := hX.1 _ hx
        cases hl : load Fmt.text s s.chunk with
        | error e => rw [hx, hl] at h; simp only [nextStep] at h; cases h
        | ok res =>
          obtain ⟨ok, s1, c⟩ := res
          obtain ⟨k1, k2, k3, k4, k5, k6, k7⟩ := load_text s s1 c ok hl hinv he
          rw [hx, hl] at h
          cases ok with
          | false =>
            simp only [nextStep] at h
            cases h
            obtain ⟨e1, e2⟩ := k6 rfl
            exact ⟨k1, k2, k3, k4, k5, by rw [e1]; rfl, e2⟩
          | true =>
            simp only [nextStep] at h
            obtain ⟨_, e2, e3⟩ := k7 rfl
            obtain ⟨m1, m2, m3, m4, m5, m6⟩ := ih _ s' r h k1
            refine ⟨m1, m2.trans k2, m3.trans k3, m4.trans k4, m5.trans k5, ?_⟩
            rw [e2] at m6
            cases r with
            | none => exact m6
            | some b => exact ⟨Nat.lt_of_lt_of_le m6.1 e3, m6.2⟩

theorem nextChunk_text (s s' : Base) (r : Option Bytes) (h : nextChunk Fmt.text s = .ok (r, s')) (hinv : TInv s) :
    TInv s' ∧ s'.files = s.files ∧ s'.offBegin = s.offBegin ∧ s'.offEnd = s.offEnd ∧ s'.bufWords = s.bufWords ∧
    match r with
    | some b => b ≠ [] ∧ EndsEol b ∧ NulFree b ∧ lines b ++ lines (tailT s') = lines (tailT s) ∧
        drainM s' < drainM s
    | none => lines (tailT s) = [] ∧ tailT s' = [] := by
  unfold nextChunk at h
  obtain ⟨m1, m2, m3, m4, m5, m6⟩ := nextLoop_text _ _ extOk_chunk 3 s s' r h hinv
  refine ⟨m1, m2, m3, m4, m5, ?_⟩
  cases r with
  | none => exact m6
  | some b =>
    obtain ⟨hm, pre, rfl, h2, h3, h4, h5⟩ := m6
    exact ⟨h2, h3, h4, h5, hm⟩

theorem nextRecord_text (s s' : Base) (r : Option Bytes) (h : nextRecord Fmt.text s = .ok (r, s')) (hinv : TInv s) :
    TInv s' ∧ s'.files = s.files ∧ s'.offBegin = s.offBegin ∧ s'.offEnd = s.offEnd ∧ s'.bufWords = s.bufWords ∧
    match r with
    | some b => b ≠ [] ∧ canon b ++ lines (tailT s') = lines (tailT s) ∧ drainM s' < drainM s
    | none => lines (tailT s) = [] ∧ tailT s' = [] := by
  unfold nextRecord at h
  obtain ⟨m1, m2, m3, m4, m5, m6⟩ := nextLoop_text _ _ extOk_record 3 s s' r h hinv
  refine ⟨m1, m2, m3, m4, m5, ?_⟩
  cases r with
  | none => exact m6
  | some b =>
    obtain ⟨hm, pre, ⟨h1, hl⟩, h2, h3, h4, h5⟩ := m6
    refine ⟨?_, by rw [h1]; exact h5, hm⟩
    intro e; rw [e] at hl
    exact h2 (List.eq_nil_of_length_eq_zero hl.symm)

/-! ### unfolding `step` on a bare split and `drainGo` -/

/-- result of a public `NextRecord` / `NextChunk` on a bare split, as a function of the base-level result -/
def bareOut (s : St) (x : Except Err (Option Bytes × Base)) : St × Out :=
  match x with
  | .error e => (s, .err e)
  | .ok (r, b) => ({ s with base := b }, outOf r)

attribute [local irreducible] nextRecord nextChunk in
theorem step_bare (F : Fmt) (s : St) (hw : s.wrap = none) (rec : Bool) :
    step F s (if rec then .nextRec else .nextChunk) =
      bareOut s (if rec then nextRecord F s.base else nextChunk F s.base) := by
  cases rec with
  | true =>
    simp only [if_true, step, hw]
    generalize nextRecord F s.base = x
    rcases x with e | ⟨r, b⟩ <;> simp only [bareOut, hw]
  | false =>
    simp only [Bool.false_eq_true, if_false, step, hw]
    generalize nextChunk F s.base = x
    rcases x with e | ⟨r, b⟩ <;> simp only [bareOut, hw]

/-- `drainGo` with `step F` abstracted -/
def drainGen (st : St → Op → St × Out) (pick : Nat → Bool) :
    Nat → Nat → St → List Bytes → St × Except Err (List Bytes)
  | 0, _, s, _ => (s, .error .fuel)
  | fuel + 1, i, s, acc =>
    drainGo.match_1 (fun _ => St × Except Err (List Bytes)) (st s (if pick i then .nextRec else .nextChunk))
      (fun s b => drainGen st pick fuel (i + 1) s (acc ++ [b]))
      (fun s => (s, .ok acc))
      (fun s e => (s, .error e))
      (fun s => (s, .error .fuel))

def drainStep (x : St × Out) (k : St → Bytes → St × Except Err (List Bytes)) (acc : List Bytes) :
    St × Except Err (List Bytes) :=
  match x with
  | (s, .blob b) => k s b
  | (s, .eof) => (s, .ok acc)
  | (s, .err e) => (s, .error e)
  | (s, .done) => (s, .error .fuel)

theorem drainGen_succ (st : St → Op → St × Out) (pick : Nat → Bool) (fuel i : Nat) (s : St) (acc : List Bytes) :
    drainGen st pick (fuel + 1) i s acc =
      drainStep (st s (if pick i then .nextRec else .nextChunk))
        (fun s1 b => drainGen st pick fuel (i + 1) s1 (acc ++ [b])) acc := by
  rw [drainGen]; rfl

attribute [local irreducible] step in
theorem drainGo_eq_gen (F : Fmt) (pick : Nat → Bool) : drainGo F pick = drainGen (step F) pick := by
  delta drainGo drainGen
  rfl

theorem drainGo_zero (F : Fmt) (pick : Nat → Bool) (i : Nat) (s : St) (acc : List Bytes) :
    drainGo F pick 0 i s acc = (s, .error .fuel) := rfl

theorem drainGo_succ (F : Fmt) (pick : Nat → Bool) (fuel i : Nat) (s : St) (acc : List Bytes) :
    drainGo F pick (fuel + 1) i s acc =
      drainStep (step F s (if pick i then .nextRec else .nextChunk))
        (fun s1 b => drainGo F pick fuel (i + 1) s1 (acc ++ [b])) acc := by
  rw [drainGo_eq_gen]
  exact drainGen_succ (step F) pick fuel i s acc

/-! ### a full drain of a bare text split -/

/-- `NextRecord` (`rec = true`) / `NextChunk` in one statement -/
theorem next_text (rec : Bool) (s s' : Base) (r : Option Bytes)
    (h : (if rec then nextRecord Fmt.text s else nextChunk Fmt.text s) = .ok (r, s')) (hinv : TInv s) :
    TInv s' ∧ s'.files = s.files ∧ s'.offBegin = s.offBegin ∧ s'.offEnd = s.offEnd ∧ s'.bufWords = s.bufWords ∧
    match r with
    | some b => b ≠ [] ∧ (rec = false → EndsEol b) ∧ canon b ++ lines (tailT s') = lines (tailT s) ∧
        drainM s' < drainM s
    | none => lines (tailT s) = [] ∧ tailT s' = [] := by
  cases rec with
  | true =>
    simp only [if_true] at h
    obtain ⟨m1, m2, m3, m4, m5, m6⟩ := nextRecord_text s s' r h hinv
    refine ⟨m1, m2, m3, m4, m5, ?_⟩
    cases r with
    | none => exact m6
    | some b => exact ⟨m6.1, (fun hk => by cases hk), m6.2.1, m6.2.2⟩
  | false =>
    simp only [Bool.false_eq_true, if_false] at h
    obtain ⟨m1, m2, m3, m4, m5, m6⟩ := nextChunk_text s s' r h hinv
    refine ⟨m1, m2, m3, m4, m5, ?_⟩
    cases r with
    | none => exact m6
    | some b =>
      obtain ⟨h1, h2, h3, h4, h5⟩ := m6
      exact ⟨h1, fun _ => h2, by rw [canon_eq_lines b h3]; exact h4, h5⟩

theorem drainGo_text (pick : Nat → Bool) :
    ∀ (fuel i : Nat) (s : St) (acc : List Bytes) (s' : St) (bs : List Bytes),
    s.wrap = none → TInv s.base → drainGo Fmt.text pick fuel i s acc = (s', .ok bs) →
    s'.wrap = none ∧ TInv s'.base ∧ tailT s'.base = [] ∧
    s'.base.files = s.base.files ∧ s'.base.offBegin = s.base.offBegin ∧ s'.base.offEnd = s.base.offEnd ∧
    s'.base.bufWords = s.base.bufWords ∧
    ∃ new, bs = acc ++ new ∧ new.flatMap canon = lines (tailT s.base) ∧
      ∀ j b, new[j]? = some b → b ≠ [] ∧ (pick (i + j) = false → EndsEol b) := by
  intro fuel
  induction fuel with
  | zero => intro i s acc s' bs _ _ h; rw [drainGo_zero] at h; cases h
  | succ fuel ih =>
    intro i s acc s' bs hw hinv h
    rw [drainGo_succ, step_bare _ _ hw] at h
    cases hx : (if pick i then nextRecord Fmt.text s.base else nextChunk Fmt.text s.base) with
    | error e => rw [hx] at h; simp only [bareOut, drainStep] at h; cases h
    | ok res =>
      obtain ⟨r, b1⟩ := res
      rw [hx] at h
      obtain ⟨m1, m2, m3, m4, m5, m6⟩ := next_text (pick i) s.base b1 r hx hinv
      cases r with
      | none =>
        simp only [bareOut, outOf, drainStep] at h
        cases h
        refine ⟨hw, m1, m6.2, m2, m3, m4, m5, [], by simp, by rw [m6.1]; rfl, ?_⟩
        intro j b hj; simp at hj
      | some b =>
        simp only [bareOut, outOf, drainStep] at h
        obtain ⟨n1, n2, n3, n4, n5, n6, n7, new, hbs, hfl, hidx⟩ :=
          ih (i + 1) { s with base := b1 } (acc ++ [b]) s' bs hw m1 h
        refine ⟨n1, n2, n3, n4.trans m2, n5.trans m3, n6.trans m4, n7.trans m5, b :: new,
          by rw [hbs]; simp, ?_, ?_⟩
        · rw [List.flatMap_cons, hfl]; exact m6.2.2.1
        · intro j b' hj
          cases j with
          | zero =>
            simp only [List.getElem?_cons_zero, Option.some.injEq] at hj
            subst hj
            exact ⟨m6.1, m6.2.1⟩
          | succ j =>
            rw [List.getElem?_cons_succ] at hj
            have e : i + (j + 1) = i + 1 + j := by omega
            rw [e]
            exact hidx j b' hj

/-- C03 (text, bare split, partial correctness): the blobs of a full drain carry exactly the lines that
were still to be delivered; no blob is empty; every `NextChunk` blob ends at an end of line -/
theorem drain_text (s : St) (hw : s.wrap = none) (hinv : TInv s.base) (pick : Nat → Bool) (bs : List Bytes)
    (s' : St) (h : drain Fmt.text pick s = (s', .ok bs)) :
    bs.flatMap canon = lines (tailT s.base) ∧
    (∀ i b, bs[i]? = some b → b ≠ [] ∧ (pick i = false → EndsEol b)) ∧
    s'.wrap = none ∧ TInv s'.base ∧ tailT s'.base = [] ∧
    s'.base.files = s.base.files ∧ s'.base.offBegin = s.base.offBegin ∧ s'.base.offEnd = s.base.offEnd ∧
    s'.base.bufWords = s.base.bufWords := by
  unfold drain at h
  obtain ⟨n1, n2, n3, n4, n5, n6, n7, new, hbs, hfl, hidx⟩ := drainGo_text pick _ 0 s [] s' bs hw hinv h
  simp only [List.nil_append] at hbs
  subst hbs
  refine ⟨hfl, ?_, n1, n2, n3, n4, n5, n6, n7⟩
  intro i b hi
  have := hidx i b hi
  rwa [Nat.zero_add] at this

/-! ### totality (`C03_no_error`) -/

/-- what totality needs of the `Extract` function: `false` exactly on an empty window, and no error on a
window that leaves room for the `'\0'` behind it -/
def ExtTot (ext : Chunk → Except Err (Option (Bytes × Chunk))) : Prop :=
  ∀ c, (c.rest = [] → ext c = .ok none) ∧
    (c.rest ≠ [] → c.begin + c.rest.length < 4 * c.dataWords → ∃ b c', ext c = .ok (some (b, c')))

theorem extTot_chunk : ExtTot (fun c => .ok (extractChunk c)) := by
  intro c
  constructor
  · intro h; simp [extractChunk, h]
  · intro h _
    exact ⟨c.rest, { c with begin := c.begin + c.rest.length, rest := [] }, by simp [extractChunk, h]⟩

theorem extTot_record : ExtTot Fmt.text.extractNext := by
  intro c
  constructor
  · intro h; exact (textExtract_none c).2 h
  · intro h hcap
    obtain ⟨r, hr⟩ := textExtract_ok c hcap
    cases r with
    | none => exact absurd ((textExtract_none c).1 hr) h
    | some bc => exact ⟨bc.1, bc.2, hr⟩

theorem load_text_total (s : Base) (hinv : TInv s) : ∃ r, load Fmt.text s s.chunk = .ok r := by
  obtain ⟨hR, _, _, hts, hbw, hah, _⟩ := hinv
  exact load_total Fmt.text rfl (readSpecB _) (readTotalB _) cutOk_text (readShortB _) textCut_text s s.chunk hR
    (by omega) hbw hah (pending_length_le Fmt.text s hR)

theorem nextLoop_total_nonempty (ext : Chunk → Except Err (Option (Bytes × Chunk))) (hX : ExtTot ext)
    (fuel : Nat) (s : Base) (hinv : TInv s) (hne : s.chunk.rest ≠ []) :
    ∃ r, nextLoop Fmt.text ext (fuel + 1) s = .ok r := by
  obtain ⟨b, c', hx⟩ := (hX s.chunk).2 hne (hinv.2.2.2.2.2.2 hne)
  rw [nextLoop_succ, hx]
  simp only [nextStep]
  exact ⟨_, rfl⟩

theorem nextLoop_total (ext : Chunk → Except Err (Option (Bytes × Chunk))) (hX : ExtTot ext)
    (fuel : Nat) (s : Base) (hinv : TInv s) :
    ∃ r, nextLoop Fmt.text ext (fuel + 2) s = .ok r := by
  by_cases hne : s.chunk.rest = []
  · have hx := (hX s.chunk).1 hne
    obtain ⟨⟨ok, s1, c⟩, hl⟩ := load_text_total s hinv
    rw [nextLoop_succ, hx, hl]
    obtain ⟨k1, _, _, _, _, _, k7⟩ := load_text s s1 c ok hl hinv hne
    cases ok with
    | false => simp only [nextStep]; exact ⟨_, rfl⟩
    | true =>
      simp only [nextStep]
      exact nextLoop_total_nonempty ext hX fuel _ k1 (k7 rfl).1
  · exact nextLoop_total_nonempty ext hX (fuel + 1) s hinv hne

theorem nextChunk_text_total (s : Base) (hinv : TInv s) : ∃ r, nextChunk Fmt.text s = .ok r := by
  unfold nextChunk
  exact nextLoop_total _ extTot_chunk 1 s hinv

theorem nextRecord_text_total (s : Base) (hinv : TInv s) : ∃ r, nextRecord Fmt.text s = .ok r := by
  unfold nextRecord
  exact nextLoop_total _ extTot_record 1 s hinv

theorem drainGo_text_total (pick : Nat → Bool) :
    ∀ (fuel i : Nat) (s : St) (acc : List Bytes), s.wrap = none → TInv s.base → drainM s.base + 1 ≤ fuel →
    ∃ bs s', drainGo Fmt.text pick fuel i s acc = (s', .ok bs) := by
  intro fuel
  induction fuel with
  | zero => intro i s acc _ _ h; omega
  | succ fuel ih =>
    intro i s acc hw hinv hf
    rw [drainGo_succ, step_bare _ _ hw]
    have htot : ∃ r, (if pick i then nextRecord Fmt.text s.base else nextChunk Fmt.text s.base) = .ok r := by
      cases pick i with
      | true => simp only [if_true]; exact nextRecord_text_total _ hinv
      | false => simp only [Bool.false_eq_true, if_false]; exact nextChunk_text_total _ hinv
    obtain ⟨⟨r, b1⟩, hx⟩ := htot
    obtain ⟨m1, _, _, _, _, m6⟩ := next_text (pick i) s.base b1 r hx hinv
    rw [hx]
    cases r with
    | none => simp only [bareOut, outOf, drainStep]; exact ⟨_, _, rfl⟩
    | some b =>
      simp only [bareOut, outOf, drainStep]
      have hm := m6.2.2.2
      exact ih (i + 1) { s with base := b1 } (acc ++ [b]) hw m1 (by show drainM b1 + 1 ≤ fuel; omega)

/-- the iteration bound of `drain` covers the measure -/
theorem drainM_le_fuel (s : St) (hw : s.wrap = none) (hinv : TInv s.base) : drainM s.base + 1 ≤ drainFuel s := by
  obtain ⟨hR, _⟩ := hinv
  have hp := pending_length_le Fmt.text s.base hR
  have he : s.base.offEnd ≤ totalSize s.base.files := hR.2.1
  unfold drainM drainFuel tailT ahead
  simp only [hw, List.length_append]
  omega

/-- C03_no_error (text, bare split): a full drain ends without an abnormal outcome, within its iteration bound -/
theorem drain_text_total (s : St) (hw : s.wrap = none) (hinv : TInv s.base) (pick : Nat → Bool) :
    ∃ bs s', drain Fmt.text pick s = (s', .ok bs) := by
  unfold drain
  exact drainGo_text_total pick _ 0 s [] hw hinv (drainM_le_fuel s hw hinv)

/-! ### establishing the invariant; the two halves together -/

/-- a state with nothing buffered (what `ResetPartition` / `BeforeFirst` leave, cf. `Clean`) satisfies the
invariant when its pending stream is NUL-free and the sizes are in range -/
theorem TInv_of_clean (s : Base) (hR : RInv s) (hc : s.chunk.rest = []) (ho : s.overflow = [])
    (hn : NulFree (pending Fmt.text s)) (ht : totalSize s.files < 2^55) (hb : s.bufWords < 2^56) : TInv s := by
  have hp := pending_length_le Fmt.text s hR
  have hl := length_le_totalSize s.files hR.1
  have he : s.offEnd ≤ totalSize s.files := hR.2.1
  refine ⟨hR, by rw [hc]; exact endsEol_nil, ?_, by omega, hb, ?_, fun h => absurd hc h⟩
  · unfold tailT; rw [hc, ho]; exact hn
  · unfold ahead; rw [ho, List.nil_append]; omega

/-- C03 for the text format on a bare split: a full drain ends normally and its blobs carry exactly the
lines still to be delivered, no blob is empty, every `NextChunk` blob ends at an end of line -/
theorem drain_text_correct (s : St) (hw : s.wrap = none) (hinv : TInv s.base) (pick : Nat → Bool) :
    ∃ bs s', drain Fmt.text pick s = (s', .ok bs) ∧
      bs.flatMap canon = lines (tailT s.base) ∧
      (∀ i b, bs[i]? = some b → b ≠ [] ∧ (pick i = false → EndsEol b)) ∧
      s'.wrap = none ∧ TInv s'.base ∧ tailT s'.base = [] := by
  obtain ⟨bs, s', h⟩ := drain_text_total s hw hinv pick
  obtain ⟨h1, h2, h3, h4, h5, _⟩ := drain_text s hw hinv pick bs s' h
  exact ⟨bs, s', h, h1, h2, h3, h4, h5⟩

end DmlcModel.Split
