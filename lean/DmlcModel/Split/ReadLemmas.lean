/-
`InputSplitBase::Read` (model `read` / `readLoop`): one call delivers a prefix of the pending stream of the
part (`pending`), keeps the read invariant `RInv`, and raises no error under `RInv` (the "file offset not
calculated correctly" fatal, the out-of-range `files_[file_ptr_]` and the model's fuel bound are
unreachable).  The C++ wrap-around comparisons `offset_curr_ + size > offset_end_` and
`file_ptr_ + 1 >= files_.size()` need the range hypothesis `totalSize s.files + size < 2^64`.
Core Lean only.
-/
import DmlcModel.Split.Spec

namespace DmlcModel.Split
open DmlcModel DmlcModel.Gen.Split

/-! ### generated kernels -/

theorem rdEmpty_spec (ob oe : Nat) : rdEmpty ob oe = decide (oe ≤ ob) := by
  simp [rdEmpty]

theorem rdClip_spec (oc size oe : Nat) (h : oc + size < 2 ^ 64) :
    rdClip oc size oe = decide (oe < oc + size) := by
  have : (oc + size) % 18446744073709551616 = oc + size := Nat.mod_eq_of_lt (by omega)
  simp [rdClip, u64, this]

theorem rdClipped_spec (oc oe : Nat) (h1 : oc ≤ oe) (h2 : oe < 2 ^ 64) :
    rdClipped oc oe = oe - oc := by
  unfold rdClipped sub64
  omega

theorem rdOffsetBad_spec (oc fo : Nat) : rdOffsetBad oc fo = decide (oc ≠ fo) := by
  by_cases h : oc = fo <;> simp [rdOffsetBad, h]

theorem rdLastFile_spec (fp n : Nat) (h : fp + 1 < 2 ^ 64) :
    rdLastFile fp n = decide (n ≤ fp + 1) := by
  have : (fp + 1) % 18446744073709551616 = fp + 1 := Nat.mod_eq_of_lt (by omega)
  simp [rdLastFile, u64, this]

theorem rdNewline_byte : UInt8.ofNat rdNewline = 10 := by decide

/-! ### the file offset table -/

theorem fileOffset_split (files : List Bytes) (fp : Nat) :
    totalSize files = fileOffset files fp + ((files.drop fp).map List.length).sum := by
  unfold totalSize fileOffset
  rw [List.take_length, ← List.sum_append, ← List.map_append, List.take_append_drop]

theorem fileOffset_succ (files : List Bytes) (fp : Nat) (f : Bytes) (later : List Bytes)
    (h : files.drop fp = f :: later) :
    fileOffset files (fp + 1) = fileOffset files fp + f.length := by
  induction files generalizing fp with
  | nil => simp at h
  | cons g gs ih =>
    cases fp with
    | zero =>
      simp at h
      simp [fileOffset, h.1]
    | succ k =>
      simp at h
      have := ih k h
      simp only [fileOffset] at this ⊢
      simp only [List.take_succ_cons, List.map_cons, List.sum_cons]
      omega

theorem drop_succ_of_drop {α} (l : List α) (n : Nat) (a : α) (r : List α) (h : l.drop n = a :: r) :
    l.drop (n + 1) = r := by
  have : l.drop (n + 1) = (l.drop n).drop 1 := by rw [List.drop_drop]
  rw [this, h]; rfl

theorem length_of_drop {α} (l : List α) (n : Nat) (a : α) (r : List α) (h : l.drop n = a :: r) :
    l.length = n + 1 + r.length := by
  have := congrArg List.length h
  simp only [List.length_drop, List.length_cons] at this
  omega

theorem length_le_sum (files : List Bytes) (h : ∀ f ∈ files, f ≠ []) :
    files.length ≤ (files.map List.length).sum := by
  induction files with
  | nil => simp
  | cons g gs ih =>
    have hg : g ≠ [] := h g (by simp)
    have : 0 < g.length := List.length_pos_iff.mpr hg
    have := ih (fun f hf => h f (by simp [hf]))
    simp only [List.length_cons, List.map_cons, List.sum_cons]
    omega

theorem length_le_totalSize (files : List Bytes) (h : ∀ f ∈ files, f ≠ []) :
    files.length ≤ totalSize files := by
  have := length_le_sum files h
  unfold totalSize fileOffset
  rwa [List.take_length]

/-! ### the pending stream -/

theorem pendFrom_zero (isText : Bool) (later : List Bytes) (cur : Bytes) :
    pendFrom isText later cur 0 = [] := by
  cases later <;> simp [pendFrom]

/-- taking `n` bytes out of the current file -/
theorem pendFrom_take (isText : Bool) (later : List Bytes) (cur : Bytes) (budget n : Nat)
    (h1 : n ≤ cur.length) (h2 : n ≤ budget) :
    cur.take n ++ pendFrom isText later (cur.drop n) (budget - n) = pendFrom isText later cur budget := by
  have htake : cur.take n ++ (cur.drop n).take (budget - n) = cur.take budget := by
    have : budget = n + (budget - n) := by omega
    conv => rhs; rw [this, List.take_add]
  cases later with
  | nil => simpa [pendFrom] using htake
  | cons f fs =>
    simp only [pendFrom, List.length_drop]
    by_cases hb : budget ≤ cur.length
    · have : budget - n ≤ cur.length - n := by omega
      simp only [hb, this, if_true]
      exact htake
    · have : ¬ (budget - n ≤ cur.length - n) := by omega
      simp only [hb, this, if_false]
      have e : budget - n - (cur.length - n) = budget - cur.length := by omega
      rw [e, ← List.append_assoc, ← List.append_assoc, List.take_append_drop]

/-- running past the end of the current file -/
theorem pendFrom_next (isText : Bool) (f : Bytes) (fs : List Bytes) (cur : Bytes) (budget : Nat)
    (h : cur.length < budget) :
    pendFrom isText (f :: fs) cur budget
      = cur ++ (if isText then [10] else []) ++ pendFrom isText fs f (budget - cur.length) := by
  have : ¬ budget ≤ cur.length := by omega
  simp only [pendFrom, this, if_false]

/-- with non-empty files at most every second pending byte is an injected newline -/
theorem pendFrom_length_aux (isText : Bool) (later : List Bytes) (hne : ∀ g ∈ later, g ≠ []) :
    ∀ (cur : Bytes) (budget : Nat),
      (pendFrom isText later cur budget).length ≤ 2 * budget ∧
      (cur ≠ [] → budget ≠ 0 → (pendFrom isText later cur budget).length + 1 ≤ 2 * budget) := by
  induction later with
  | nil =>
    intro cur budget
    simp only [pendFrom, List.length_take]
    constructor
    · omega
    · intro hc hb
      have : 0 < cur.length := List.length_pos_iff.mpr hc
      omega
  | cons f fs ih =>
    intro cur budget
    have hf : f ≠ [] := hne f (by simp)
    have ih' := ih (fun g hg => hne g (by simp [hg])) f (budget - cur.length)
    simp only [pendFrom]
    by_cases hb : budget ≤ cur.length
    · simp only [hb, if_true, List.length_take]
      constructor
      · omega
      · intro hc hb0
        have : 0 < cur.length := List.length_pos_iff.mpr hc
        omega
    · simp only [hb, if_false, List.length_append]
      have h2 := ih'.2 hf (by omega)
      have hnl : (if isText = true then [(10 : UInt8)] else []).length ≤ 1 := by split <;> simp
      constructor
      · omega
      · intro hc _
        have : 0 < cur.length := List.length_pos_iff.mpr hc
        omega

theorem pendFrom_length_le (isText : Bool) (later : List Bytes) (cur : Bytes) (budget : Nat)
    (hne : ∀ g ∈ later, g ≠ []) : (pendFrom isText later cur budget).length ≤ 2 * budget :=
  (pendFrom_length_aux isText later hne cur budget).1

/-! ### the loop -/

/-- `readLoop` started inside file `fp` at `pos` with `nleft ≤ budget` bytes wanted, where `budget`
real bytes do not outlive the last file: it succeeds, delivers exactly `nleft` bytes, which are a prefix of
the pending stream, and stops at a well-formed position. -/
theorem readLoop_spec (isText : Bool) (files : List Bytes) (hlen : files.length < 2 ^ 64) :
    ∀ (fuel nleft fp pos oc : Nat) (acc f : Bytes) (later : List Bytes) (budget : Nat),
      files.drop fp = f :: later → pos ≤ f.length → oc = fileOffset files fp + pos →
      nleft ≤ budget → budget ≤ (f.length - pos) + (later.map List.length).sum →
      later.length < fuel →
      ∃ (taken : Bytes) (fp' pos' oc' : Nat) (f' : Bytes) (later' : List Bytes),
        readLoop isText files fuel nleft fp pos oc acc = .ok (acc ++ taken, fp', pos', oc') ∧
        files.drop fp' = f' :: later' ∧ pos' ≤ f'.length ∧ oc' = fileOffset files fp' + pos' ∧
        oc ≤ oc' ∧ oc' - oc ≤ budget ∧ taken.length = nleft ∧
        taken ++ pendFrom isText later' (f'.drop pos') (budget - (oc' - oc))
          = pendFrom isText later (f.drop pos) budget ∧
        taken.length ≤ (oc' - oc) + taken.count 10 := by
  intro fuel
  induction fuel with
  | zero => intro nleft fp pos oc acc f later budget _ _ _ _ _ hf; omega
  | succ fuel ih =>
    intro nleft fp pos oc acc f later budget hdrop hpos hoc hnb hbud hfuel
    unfold readLoop
    rw [hdrop]
    simp only
    by_cases hcase : nleft ≤ f.length - pos
    · -- the request is served from the current file
      have hn : ((f.drop pos).take nleft).length = nleft := by
        simp only [List.length_take, List.length_drop]; omega
      refine ⟨(f.drop pos).take nleft, fp, pos + nleft, oc + nleft, f, later, ?_, hdrop, by omega,
        by omega, by omega, by omega, hn, ?_, by omega⟩
      · simp [hn]
      · have e1 : oc + nleft - oc = nleft := by omega
        have e2 : f.drop (pos + nleft) = (f.drop pos).drop nleft := by rw [List.drop_drop]
        rw [e1, e2]
        exact pendFrom_take isText later (f.drop pos) budget nleft (by simp only [List.length_drop]; omega) hnb
    · -- the current file is exhausted
      have hcur : (f.drop pos).length = f.length - pos := by simp only [List.length_drop]
      have hgot : (f.drop pos).take nleft = f.drop pos :=
        List.take_of_length_le (by omega)
      rw [hgot, hcur]
      have hne : ¬ (nleft - (f.length - pos) = 0) := by omega
      simp only [hne, if_false]
      -- a later file exists
      cases later with
      | nil => simp at hbud; omega
      | cons f2 fs =>
        have hdrop2 : files.drop (fp + 1) = f2 :: fs := drop_succ_of_drop files fp f (f2 :: fs) hdrop
        have hflen := length_of_drop files fp f (f2 :: fs) hdrop
        simp only [List.length_cons] at hflen hfuel
        have hoff := fileOffset_succ files fp f (f2 :: fs) hdrop
        have hbad : rdOffsetBad (oc + (f.length - pos)) (fileOffset files (fp + 1)) = false := by
          rw [rdOffsetBad_spec]; simp; omega
        have hlast : rdLastFile fp files.length = false := by
          rw [rdLastFile_spec fp files.length (by omega)]; simp; omega
        simp only [hbad, hlast, Bool.false_eq_true, if_false]
        simp only [List.map_cons, List.sum_cons] at hbud
        obtain ⟨taken, fp', pos', oc', f', later', hrun, hd', hp', ho', hle, hbd, htl, hpend, hcnt⟩ :=
          ih (if isText = true then nleft - (f.length - pos) - 1 else nleft - (f.length - pos))
            (fp + 1) 0 (oc + (f.length - pos))
            (if isText = true then acc ++ f.drop pos ++ [UInt8.ofNat rdNewline] else acc ++ f.drop pos)
            f2 fs (budget - (f.length - pos)) hdrop2 (by omega) (by omega)
            (by split <;> omega) (by omega) (by omega)
        refine ⟨f.drop pos ++ (if isText = true then [10] else []) ++ taken, fp', pos', oc', f', later',
          ?_, hd', hp', ho', by omega, by omega, ?_, ?_, ?_⟩
        · rw [hrun]
          cases isText <;> simp [rdNewline_byte]
        · simp only [List.length_append, hcur, htl]
          cases isText <;> simp <;> omega
        · rw [pendFrom_next isText f2 fs (f.drop pos) budget (by omega), hcur]
          simp only [List.drop_zero] at hpend
          rw [← hpend]
          have e : budget - (f.length - pos) - (oc' - (oc + (f.length - pos))) = budget - (oc' - oc) := by
            omega
          rw [e]
          simp only [List.append_assoc]
        · simp only [List.length_append, List.count_append, hcur]
          cases isText <;> simp <;> omega

/-! ### `Read` -/

/-- what `ReadSpec` asks of the result of a `Read` -/
def ReadPost (F : Fmt) (s : Base) (size : Nat) (bytes : Bytes) (s' : Base) : Prop :=
  RInv s' ∧ bytes ++ pending F s' = pending F s ∧ bytes.length ≤ size ∧
  (bytes = [] → size = 0 ∨ pending F s = []) ∧
  s'.files = s.files ∧ s'.offBegin = s.offBegin ∧ s'.offEnd = s.offEnd ∧ s'.chunk = s.chunk ∧
  s'.overflow = s.overflow ∧ s'.bufWords = s.bufWords

/-- under the invariant (and in the `size_t` range) `read` succeeds with a result satisfying `ReadPost` -/
theorem read_ok (F : Fmt) (s : Base) (size : Nat) (hinv : RInv s)
    (hrange : totalSize s.files + size < 2 ^ 64) :
    ∃ bytes s', read F s size = .ok (bytes, s') ∧ ReadPost F s size bytes s' ∧
      (s.fpos ≠ none → s.offBegin < s.offEnd → bytes.length = min size (s.offEnd - s.offCurr)) ∧
      s.offCurr ≤ s'.offCurr ∧ bytes.length ≤ (s'.offCurr - s.offCurr) + bytes.count 10 := by
  obtain ⟨hne, htot, hpos⟩ := hinv
  unfold read
  cases hfp : s.fpos with
  | none =>
    refine ⟨[], s, rfl, ⟨⟨hne, htot, hpos⟩, rfl, by simp, ?_, rfl, rfl, rfl, rfl, rfl, rfl⟩, ?_⟩
    · intro _; right; simp [pending, hfp]
    · exact ⟨fun h => absurd rfl h, Nat.le_refl _, by simp⟩
  | some pos =>
    simp only
    by_cases hemp : s.offEnd ≤ s.offBegin
    · have : rdEmpty s.offBegin s.offEnd = true := by rw [rdEmpty_spec]; simp [hemp]
      simp only [this, if_true]
      refine ⟨[], s, rfl, ⟨⟨hne, htot, hpos⟩, rfl, by simp, ?_, rfl, rfl, rfl, rfl, rfl, rfl⟩, ?_⟩
      · intro _; right; simp [pending, hfp, hemp]
      · exact ⟨fun _ h => by omega, Nat.le_refl _, by simp⟩
    · have hE : rdEmpty s.offBegin s.offEnd = false := by rw [rdEmpty_spec]; simp [hemp]
      simp only [hE, Bool.false_eq_true, if_false]
      rcases hpos with h | ⟨pos0, f, hfp0, hdrop, hp, hoc, hb, he⟩
      · exact absurd h hemp
      · rw [hfp] at hfp0
        cases hfp0
        have hsz : (if rdClip s.offCurr size s.offEnd = true then rdClipped s.offCurr s.offEnd else size)
            = min size (s.offEnd - s.offCurr) := by
          rw [rdClip_spec _ _ _ (by omega)]
          by_cases hc : s.offEnd < s.offCurr + size
          · simp only [hc, decide_true, if_true]
            rw [rdClipped_spec _ _ he (by omega)]; omega
          · simp only [hc, decide_false, Bool.false_eq_true, if_false]; omega
        rw [hsz]
        have hpend : pending F s
            = pendFrom F.isText (s.files.drop (s.filePtr + 1)) (f.drop pos) (s.offEnd - s.offCurr) := by
          simp only [pending, hfp, hemp, if_false, pend, hdrop]
        by_cases hz : min size (s.offEnd - s.offCurr) = 0
        · simp only [hz, if_true]
          refine ⟨[], s, rfl, ⟨⟨hne, htot, Or.inr ⟨pos, f, hfp, hdrop, hp, hoc, hb, he⟩⟩, rfl, by simp, ?_,
            rfl, rfl, rfl, rfl, rfl, rfl⟩, ?_⟩
          · intro _
            by_cases h0 : size = 0
            · exact Or.inl h0
            · right
              have : s.offEnd - s.offCurr = 0 := by omega
              rw [hpend, this, pendFrom_zero]
          · exact ⟨fun _ _ => rfl, Nat.le_refl _, by simp⟩
        · simp only [hz, if_false]
          have hflen : s.files.length < 2 ^ 64 := by
            have := length_le_totalSize s.files hne; omega
          have hsplit := fileOffset_split s.files s.filePtr
          rw [hdrop] at hsplit
          simp only [List.map_cons, List.sum_cons] at hsplit
          have hlater := length_of_drop s.files s.filePtr f _ hdrop
          obtain ⟨taken, fp', pos', oc', f', later', hrun, hd', hp', ho', hle, hbd, htl, hpd, hcnt⟩ :=
            readLoop_spec F.isText s.files hflen (s.files.length + 1) (min size (s.offEnd - s.offCurr))
              s.filePtr pos s.offCurr [] f (s.files.drop (s.filePtr + 1)) (s.offEnd - s.offCurr)
              hdrop hp hoc (by omega) (by omega) (by omega)
          rw [hrun]
          simp only [List.nil_append]
          have hlater' : s.files.drop (fp' + 1) = later' := drop_succ_of_drop s.files fp' f' later' hd'
          refine ⟨taken, _, rfl, ⟨⟨hne, htot, Or.inr ⟨pos', f', rfl, ?_, hp', ho', ?_, ?_⟩⟩, ?_, ?_, ?_,
            rfl, rfl, rfl, rfl, rfl, rfl⟩, fun _ _ => htl, hle, hcnt⟩
          · show s.files.drop fp' = f' :: s.files.drop (fp' + 1)
            rw [hlater']; exact hd'
          · show s.offBegin ≤ oc'; omega
          · show oc' ≤ s.offEnd; omega
          · rw [hpend, ← hpd]
            have e : s.offEnd - s.offCurr - (oc' - s.offCurr) = s.offEnd - oc' := by omega
            rw [e]
            simp only [pending, hemp, if_false, pend, hd']
          · omega
          · intro ht; rw [ht] at htl; simp at htl; omega

/-- `ReadSpec` with the range hypothesis -/
theorem readSpec' (F : Fmt) :
    ∀ (s : Base) (size : Nat) (bytes : Bytes) (s' : Base),
      read F s size = .ok (bytes, s') → RInv s → totalSize s.files + size < 2 ^ 64 →
      RInv s' ∧ bytes ++ pending F s' = pending F s ∧ bytes.length ≤ size ∧
      (bytes = [] → size = 0 ∨ pending F s = []) ∧
      s'.files = s.files ∧ s'.offBegin = s.offBegin ∧ s'.offEnd = s.offEnd ∧ s'.chunk = s.chunk ∧
      s'.overflow = s.overflow ∧ s'.bufWords = s.bufWords := by
  intro s size bytes s' hrd hinv hrange
  obtain ⟨b, t, hrd', hpost, _⟩ := read_ok F s size hinv hrange
  rw [hrd] at hrd'
  cases hrd'
  exact hpost

/-- `ReadTotal` with the range hypothesis -/
theorem readTotal' (F : Fmt) :
    ∀ (s : Base) (size : Nat), RInv s → totalSize s.files + size < 2 ^ 64 →
      ∃ r, read F s size = .ok r := by
  intro s size hinv hrange
  obtain ⟨b, t, hrd, _⟩ := read_ok F s size hinv hrange
  exact ⟨(b, t), hrd⟩

/-- the recommended form of the range hypothesis: sizes below `2^62` -/
theorem readSpec62 (F : Fmt) :
    ∀ (s : Base) (size : Nat) (bytes : Bytes) (s' : Base),
      read F s size = .ok (bytes, s') → RInv s → totalSize s.files < 2 ^ 62 → size < 2 ^ 62 →
      RInv s' ∧ bytes ++ pending F s' = pending F s ∧ bytes.length ≤ size ∧
      (bytes = [] → size = 0 ∨ pending F s = []) ∧
      s'.files = s.files ∧ s'.offBegin = s.offBegin ∧ s'.offEnd = s.offEnd ∧ s'.chunk = s.chunk ∧
      s'.overflow = s.overflow ∧ s'.bufWords = s.bufWords :=
  fun s size bytes s' h hi h1 h2 => readSpec' F s size bytes s' h hi (by omega)

theorem readTotal62 (F : Fmt) :
    ∀ (s : Base) (size : Nat), RInv s → totalSize s.files < 2 ^ 62 → size < 2 ^ 62 →
      ∃ r, read F s size = .ok r :=
  fun s size hi h1 h2 => readTotal' F s size hi (by omega)

/-- how much one `Read` returns: the request clipped to the real bytes left in the part (injected
newlines count against the request, not against the part) -/
theorem read_length (F : Fmt) (s : Base) (size : Nat) (bytes : Bytes) (s' : Base)
    (hrd : read F s size = .ok (bytes, s')) (hinv : RInv s) (hrange : totalSize s.files + size < 2 ^ 64)
    (hfp : s.fpos ≠ none) (hpart : s.offBegin < s.offEnd) :
    bytes.length = min size (s.offEnd - s.offCurr) := by
  obtain ⟨b, t, hrd', _, hl, _⟩ := read_ok F s size hinv hrange
  rw [hrd] at hrd'
  cases hrd'
  exact hl hfp hpart

/-- real bytes versus injected newlines: every delivered byte that does not advance `offset_curr_` is a `'\n'` -/
theorem read_count (F : Fmt) (s : Base) (size : Nat) (bytes : Bytes) (s' : Base)
    (hrd : read F s size = .ok (bytes, s')) (hinv : RInv s) (hrange : totalSize s.files + size < 2 ^ 64) :
    s.offCurr ≤ s'.offCurr ∧ bytes.length ≤ (s'.offCurr - s.offCurr) + bytes.count 10 := by
  obtain ⟨b, t, hrd', _, _, hc⟩ := read_ok F s size hinv hrange
  rw [hrd] at hrd'
  cases hrd'
  exact hc

theorem count_le_one_of_drop (bytes : Bytes) (hno : ∀ b ∈ bytes.drop 1, b ≠ 10) : bytes.count 10 ≤ 1 := by
  cases bytes with
  | nil => simp
  | cons b t =>
    simp only [List.drop_succ_cons, List.drop_zero] at hno
    have : t.count 10 = 0 := List.count_eq_zero.mpr (fun h => hno 10 h rfl)
    rw [List.count_cons, this]
    split <;> omega

/-- a short `Read` that delivered no newline after its first byte leaves at most two bytes pending
(bounds the doubling loop of `Chunk::Load`) -/
theorem read_short (F : Fmt) (s : Base) (size : Nat) (bytes : Bytes) (s' : Base)
    (hrd : read F s size = .ok (bytes, s')) (hinv : RInv s) (hrange : totalSize s.files + size < 2 ^ 64)
    (hshort : bytes.length < size) (hno : ∀ b ∈ bytes.drop 1, b ≠ 10) :
    (pending F s').length ≤ 2 := by
  obtain ⟨hinv', happ, _, _, hfiles, hob, hoe, _⟩ := readSpec' F s size bytes s' hrd hinv hrange
  have hle : (pending F s').length ≤ (pending F s).length := by
    rw [← happ, List.length_append]; omega
  by_cases hfp : s.fpos = none
  · have : pending F s = [] := by simp [pending, hfp]
    rw [this, List.length_nil] at hle; omega
  · by_cases hpart : s.offBegin < s.offEnd
    · have hlen := read_length F s size bytes s' hrd hinv hrange hfp hpart
      obtain ⟨hmono, hcnt⟩ := read_count F s size bytes s' hrd hinv hrange
      have hc1 := count_le_one_of_drop bytes hno
      obtain ⟨hne', _, hpos'⟩ := hinv'
      rcases hpos' with h | ⟨pos', f', hfp', hdrop', _, _, _, he'⟩
      · omega
      · have hnemp : ¬ s'.offEnd ≤ s'.offBegin := by omega
        have hp : pending F s'
            = pendFrom F.isText (s'.files.drop (s'.filePtr + 1)) (f'.drop pos') (s'.offEnd - s'.offCurr) := by
          simp only [pending, hfp', hnemp, if_false, pend, hdrop']
        have hb := pendFrom_length_le F.isText (s'.files.drop (s'.filePtr + 1)) (f'.drop pos')
          (s'.offEnd - s'.offCurr) (fun g hg => hne' g (List.mem_of_mem_drop hg))
        rw [hp]
        omega
    · have : pending F s = [] := by
        cases h : s.fpos with
        | none => exact absurd h hfp
        | some p => simp only [pending, h]; rw [if_pos (by omega)]
      rw [this, List.length_nil] at hle; omega

/-! ### length of the pending stream -/

/-- every later file contributes at most one injected newline -/
theorem pendFrom_length_le_add (isText : Bool) (later : List Bytes) :
    ∀ (cur : Bytes) (budget : Nat), (pendFrom isText later cur budget).length ≤ budget + later.length := by
  induction later with
  | nil => intro cur budget; simp only [pendFrom, List.length_take, List.length_nil]; omega
  | cons f fs ih =>
    intro cur budget
    have ih' := ih f (budget - cur.length)
    simp only [pendFrom]
    by_cases hb : budget ≤ cur.length
    · simp only [hb, if_true, List.length_take, List.length_cons]; omega
    · simp only [hb, if_false, List.length_append, List.length_cons]
      have hnl : (if isText = true then [(10 : UInt8)] else []).length ≤ 1 := by split <;> simp
      omega

/-- binary mode: exactly the budget, as long as it does not outlive the files -/
theorem pendFrom_binary_length (later : List Bytes) :
    ∀ (cur : Bytes) (budget : Nat), budget ≤ cur.length + (later.map List.length).sum →
      (pendFrom false later cur budget).length = budget := by
  induction later with
  | nil =>
    intro cur budget h
    simp only [List.map_nil, List.sum_nil] at h
    simp only [pendFrom, List.length_take]; omega
  | cons f fs ih =>
    intro cur budget h
    simp only [List.map_cons, List.sum_cons] at h
    simp only [pendFrom]
    by_cases hb : budget ≤ cur.length
    · simp only [hb, if_true, List.length_take]; omega
    · have ih' := ih f (budget - cur.length) (by omega)
      simp only [hb, if_false, Bool.false_eq_true, List.append_nil, List.length_append, ih']
      omega

theorem pending_length_le (F : Fmt) (s : Base) (_hinv : RInv s) :
    (pending F s).length ≤ (s.offEnd - s.offCurr) + s.files.length := by
  cases hfp : s.fpos with
  | none => simp [pending, hfp]
  | some pos =>
    simp only [pending, hfp]
    by_cases hemp : s.offEnd ≤ s.offBegin
    · simp [hemp]
    · simp only [hemp, if_false, pend]
      cases hd : s.files.drop s.filePtr with
      | nil => simp
      | cons f later =>
        simp only
        have h1 := pendFrom_length_le_add F.isText later (f.drop pos) (s.offEnd - s.offCurr)
        have h2 := length_of_drop s.files s.filePtr f later hd
        omega

theorem pending_binary_length (F : Fmt) (s : Base) (hinv : RInv s) (hb : F.isText = false)
    (hne : s.offBegin < s.offEnd) (_hfp : s.fpos ≠ none) :
    (pending F s).length = s.offEnd - s.offCurr := by
  obtain ⟨_, htot, hpos⟩ := hinv
  rcases hpos with h | ⟨pos, f, hfp', hdrop, hp, hoc, _, he⟩
  · omega
  · have hemp : ¬ s.offEnd ≤ s.offBegin := by omega
    have hsplit := fileOffset_split s.files s.filePtr
    rw [hdrop] at hsplit
    simp only [List.map_cons, List.sum_cons] at hsplit
    simp only [pending, hfp', hemp, if_false, pend, hdrop, hb]
    apply pendFrom_binary_length
    simp only [List.length_drop]
    omega

/-- binary mode: a short `Read` means the part is exhausted -/
theorem read_short_binary (F : Fmt) (s : Base) (size : Nat) (bytes : Bytes) (s' : Base)
    (h : read F s size = .ok (bytes, s')) (hinv : RInv s) (hr : totalSize s.files + size < 2 ^ 64)
    (hb : F.isText = false) (hs : bytes.length < size) : pending F s' = [] := by
  obtain ⟨hinv', happ, _, _, _, hob, hoe, _⟩ := readSpec' F s size bytes s' h hinv hr
  have hsum : bytes.length + (pending F s').length = (pending F s).length := by
    rw [← happ, List.length_append]
  apply List.eq_nil_of_length_eq_zero
  by_cases hfp : s.fpos = none
  · have : pending F s = [] := by simp [pending, hfp]
    rw [this, List.length_nil] at hsum; omega
  · by_cases hpart : s.offBegin < s.offEnd
    · have hlen := read_length F s size bytes s' h hinv hr hfp hpart
      have hl := pending_binary_length F s hinv hb hpart hfp
      omega
    · have : pending F s = [] := by
        cases h : s.fpos with
        | none => exact absurd h hfp
        | some p => simp only [pending, h]; rw [if_pos (by omega)]
      rw [this, List.length_nil] at hsum; omega

end DmlcModel.Split
