/-
Assembly layer of property C04 (RecordIO `InputSplit`: every record exactly once): the freshly constructed
bare recordio split of part `k` of `n` (`mkSt`) over the files `recFiles rss` is a clean state whose pending
stream is the image `writeAll` of the records that start between the boundaries `bndR rss n k` and
`bndR rss n (k+1)` (RecSnap), hence (RecDrain) a full drain delivers these records: one per `NextRecord` blob,
the image of a non-empty run of whole records per `NextChunk` blob.  The property theorems in Props/C04.lean
are short consequences.  Mirrors CoverText.lean (the format-independent helpers of `CoverAux` are reused).
Core Lean only.
-/
import DmlcModel.Split.CoverText
import DmlcModel.Split.RecSnap
import DmlcModel.Split.RecDrain
import DmlcModel.Props.C01

namespace DmlcModel.Split
open DmlcModel DmlcModel.Gen.Split DmlcModel.RecordIO

set_option linter.unusedVariables false

namespace CoverAux
open RecSnapAux

/-! ### 1. construction -/

theorem any_initAligned_rec (files : List Bytes) (h : ∀ f ∈ files, f.length % 4 = 0) :
    files.any (fun f => !initAligned f.length Fmt.recordio.align) = false := by
  rw [List.any_eq_false]
  intro f hf
  have h4 := h f hf
  simp only [recordio_align]
  simp [initAligned, h4]

theorem mkBase_rec_eq (files : List Bytes) (k n w dw : Nat) (hfiles : files ≠ [])
    (hne : ∀ f ∈ files, f ≠ []) (h4 : ∀ f ∈ files, f.length % 4 = 0) :
    mkBase Fmt.recordio files k n w dw = mkBaseK w (resetPartition Fmt.recordio (blank files dw) k n) := by
  unfold mkBase
  simp only []
  rw [filter_nonempty files hne, any_initAligned_rec files h4]
  have h1 : files.isEmpty = false := by
    cases files with
    | nil => exact absurd rfl hfiles
    | cons a t => rfl
  rw [h1]
  rfl

theorem mkSt_rec_eq (files : List Bytes) (k n w dw : Nat) (hfiles : files ≠ [])
    (hne : ∀ f ∈ files, f ≠ []) (h4 : ∀ f ∈ files, f.length % 4 = 0) :
    mkSt Fmt.recordio files k n w false dw
      = mkStK dw (mkBaseK w (resetPartition Fmt.recordio (blank files dw) k n)) := by
  unfold mkSt
  rw [mkBase_rec_eq files k n w dw hfiles hne h4]
  rfl

theorem recFiles_ne_nil (rss : List (List Bytes)) (hne : rss ≠ []) : recFiles rss ≠ [] := by
  cases rss with
  | nil => exact absurd rfl hne
  | cons a t => intro h; cases h

theorem recFiles_mod4 (rss : List (List Bytes)) (hrss : RssOk rss) : ∀ f ∈ recFiles rss, f.length % 4 = 0 := by
  intro f hf
  unfold recFiles at hf
  obtain ⟨rs, hrs, rfl⟩ := List.mem_map.mp hf
  exact writeAll_length_mod4 rs (hrss rs hrs).2

/-- the hypothesis in the form the property theorems state it -/
theorem rssOk_of (rss : List (List Bytes)) (h : ∀ rs ∈ rss, rs ≠ [] ∧ ∀ r ∈ rs, r.length < 2^29) : RssOk rss :=
  fun rs hrs => ⟨(h rs hrs).1, (h rs hrs).2⟩

/-- the freshly constructed bare recordio split of part `k`: it exists, is clean and well formed and holds
the two boundaries (or an empty range, and then the boundaries coincide) -/
theorem mkSt_rec_ok (rss : List (List Bytes)) (hrss : RssOk rss) (hne : rss ≠ [])
    (ht : totalSize (recFiles rss) < 2^62) (k n w dw : Nat) (hk : k < n) (hn : n < 2^32) :
    ∃ s, mkSt Fmt.recordio (recFiles rss) k n w false dw = .ok s ∧ s.wrap = none ∧ Clean s.base ∧ RInv s.base ∧
      s.base.files = recFiles rss ∧ s.base.bufWords = w ∧
      ((s.base.offBegin = bndR rss n k ∧ s.base.offEnd = bndR rss n (k + 1)) ∨
       (s.base.offEnd ≤ s.base.offBegin ∧ bndR rss n k = bndR rss n (k + 1))) := by
  obtain ⟨s', hs', hC, hR, hF, _, _, hrg⟩ :=
    resetPartition_rec rss hrss hne ht (blank (recFiles rss) dw) rfl (clearsOk_blank _ dw) k n hk hn
  refine ⟨{ base := { s' with bufWords := w }, wrap := none }, ?_, rfl, hC, hR, hF, rfl, hrg⟩
  rw [mkSt_rec_eq (recFiles rss) k n w dw (recFiles_ne_nil rss hne) (recFiles_ne rss hrss)
    (recFiles_mod4 rss hrss), hs']
  rfl

/-! ### 2. the pending stream of the fresh state -/

/-- a clean state has the stream of its byte range pending (any format) -/
theorem pending_of_clean_fmt (F : Fmt) (s : Base) (hc : Clean s) (hne : ∀ f ∈ s.files, f ≠ []) (b e : Nat)
    (hr : (s.offBegin = b ∧ s.offEnd = e) ∨ (s.offEnd ≤ s.offBegin ∧ b = e))
    (hbt : b ≤ totalSize s.files) :
    pending F s = rangeStream F.isText s.files b e := by
  obtain ⟨_, _, hc3⟩ := hc
  have hempty : s.offEnd ≤ s.offBegin → pending F s = [] := by
    intro h
    unfold pending
    cases s.fpos with
    | none => rfl
    | some pos => simp only []; rw [if_pos h]
  rcases hr with ⟨h1, h2⟩ | ⟨h1, h2⟩
  · rcases hc3 with h | ⟨c1, c2, c3⟩
    · rw [hempty h]
      subst h1; subst h2
      unfold rangeStream
      rw [show s.offEnd - s.offBegin = 0 by omega, pend_zero_budget]
    · by_cases h : s.offEnd ≤ s.offBegin
      · rw [hempty h]
        subst h1; subst h2
        unfold rangeStream
        rw [show s.offEnd - s.offBegin = 0 by omega, pend_zero_budget]
      · unfold pending
        rw [c3]
        simp only []
        rw [if_neg h, c1, c2]
        subst h1; subst h2
        rfl
  · rw [hempty h1]
    subst h2
    exact (rangeStream_self F.isText s.files hne b hbt).symm

theorem short_recsIn (R : List Bytes) (hR : Short R) : ∀ (off b e : Nat), Short (recsIn R off b e) := by
  induction R with
  | nil => intro off b e r hr; cases hr
  | cons r rs ih =>
    intro off b e x hx
    rw [recsIn_cons] at hx
    rcases List.mem_append.mp hx with h | h
    · by_cases hc : b ≤ off ∧ off < e
      · rw [if_pos hc] at h
        rw [List.mem_singleton] at h
        subst h
        exact hR.head
      · rw [if_neg hc] at h; cases h
    · exact ih hR.tail _ _ _ x h

/-! ### 3. what a consumer extracts from the delivered blobs -/

/-- a blob that is a run of one record per `NextRecord` flattens back -/
theorem flatten_of_singletons : ∀ (bs : List Bytes) (runs : List (List Bytes)), runs.length = bs.length →
    (∀ (i : Nat) (b : Bytes) (run : List Bytes), bs[i]? = some b → runs[i]? = some run → run = [b]) →
    runs.flatten = bs := by
  intro bs
  induction bs with
  | nil =>
    intro runs hl _
    cases runs with
    | nil => rfl
    | cons a t => simp at hl
  | cons b bs ih =>
    intro runs hl h
    cases runs with
    | nil => simp at hl
    | cons run runs =>
      have h0 := h 0 b run rfl rfl
      subst h0
      rw [List.flatten_cons, ih runs (by simpa using hl)
        (fun i b' run' hb hr => h (i + 1) b' run' (by rw [List.getElem?_cons_succ]; exact hb)
          (by rw [List.getElem?_cons_succ]; exact hr))]
      rfl

end CoverAux
open CoverAux RecSnapAux

/-- the records a consumer extracts from one delivered blob: a `NextRecord` blob is one record, a `NextChunk`
blob is parsed with `RecordIOReader` (`readAll`; nothing if the reader rejects it) -/
def blobRecords (isRec : Bool) (b : Bytes) : List Bytes :=
  if isRec then [b]
  else match RecordIO.readAll b with
    | some rs => rs
    | none => []

/-- the same for the blobs of calls `i, i+1, …` -/
def recordsGo (pick : Nat → Bool) : Nat → List Bytes → List Bytes
  | _, [] => []
  | i, b :: bs => blobRecords (pick i) b ++ recordsGo pick (i + 1) bs

/-- the records a consumer extracts from the blobs of a part (`[]` for an abnormal outcome) -/
def recordsOf (pick : Nat → Bool) : Except Err (List Bytes) → List Bytes
  | .ok bs => recordsGo pick 0 bs
  | .error _ => []

theorem blobRecords_writeAll (run : List Bytes) (h : Short run) : blobRecords false (writeAll run) = run := by
  unfold blobRecords
  simp only [Bool.false_eq_true, if_false]
  rw [DmlcModel.Props.C01.C01_roundtrip run h]

theorem recordsGo_runs (pick : Nat → Bool) : ∀ (bs : List Bytes) (i : Nat) (runs : List (List Bytes)),
    runs.length = bs.length → Short runs.flatten →
    (∀ (j : Nat) (b : Bytes) (run : List Bytes), bs[j]? = some b → runs[j]? = some run →
      run ≠ [] ∧ (if pick (i + j) then run = [b] else b = writeAll run)) →
    recordsGo pick i bs = runs.flatten := by
  intro bs
  induction bs with
  | nil =>
    intro i runs hl _ _
    cases runs with
    | nil => rfl
    | cons a t => simp at hl
  | cons b bs ih =>
    intro i runs hl hS h
    cases runs with
    | nil => simp at hl
    | cons run runs =>
      rw [List.flatten_cons] at hS ⊢
      obtain ⟨hS1, hS2⟩ := short_append.1 hS
      have h0 := (h 0 b run rfl rfl).2
      rw [Nat.add_zero] at h0
      have hrest := ih (i + 1) runs (by simpa using hl) hS2
        (fun j b' run' hb hr => by
          have := h (j + 1) b' run' (by rw [List.getElem?_cons_succ]; exact hb)
            (by rw [List.getElem?_cons_succ]; exact hr)
          have e : i + (j + 1) = i + 1 + j := by omega
          rw [e] at this; exact this)
      show blobRecords (pick i) b ++ recordsGo pick (i + 1) bs = run ++ runs.flatten
      rw [hrest]
      cases hp : pick i with
      | true =>
        rw [hp] at h0
        simp only [if_true] at h0
        subst h0
        rfl
      | false =>
        rw [hp] at h0
        simp only [Bool.false_eq_true, if_false] at h0
        subst h0
        rw [blobRecords_writeAll run hS1]

/-! ### 4. the fresh state and its full drain -/

/-- the records of part `k`: those whose image starts in its byte range -/
def partRecs (rss : List (List Bytes)) (n k : Nat) : List Bytes :=
  recsIn rss.flatten 0 (bndR rss n k) (bndR rss n (k + 1))

theorem short_partRecs (rss : List (List Bytes)) (hrss : RssOk rss) (n k : Nat) : Short (partRecs rss n k) :=
  short_recsIn _ (short_flatten rss hrss) _ _ _

/-- the fresh bare recordio split of part `k` satisfies the drain invariant with an empty window, and
everything it still has to deliver is the image of the records that start in its byte range -/
theorem mkSt_rec_inv (rss : List (List Bytes)) (hrss : RssOk rss) (hne : rss ≠ [])
    (ht : totalSize (recFiles rss) < 2^56) (k n w dw : Nat) (hk : k < n) (hn : n < 2^32)
    (hw2 : 2 ≤ w) (hw : w < 2^56) :
    ∃ s, mkSt Fmt.recordio (recFiles rss) k n w false dw = .ok s ∧ s.wrap = none ∧
      GInv s.base [] (recsIn rss.flatten 0 (bndR rss n k) (bndR rss n (k + 1))) ∧
      pending Fmt.recordio s.base
        = rangeStream false (recFiles rss) (bndR rss n k) (bndR rss n (k + 1)) := by
  have hn0 : 0 < n := by omega
  have ht' : totalSize (recFiles rss) < 2^62 := by omega
  obtain ⟨s, hs, hwr, hC, hR, hF, hB, hrg⟩ := mkSt_rec_ok rss hrss hne ht' k n w dw hk hn
  have hp : pending Fmt.recordio s.base
      = rangeStream false (recFiles rss) (bndR rss n k) (bndR rss n (k + 1)) := by
    have := pending_of_clean_fmt Fmt.recordio s.base hC (by rw [hF]; exact recFiles_ne rss hrss) _ _ hrg
      (by rw [hF]; exact bndR_le rss hrss ht' n k hn0 hn)
    rw [this, hF]
    rfl
  refine ⟨s, hs, hwr, ?_, hp⟩
  refine GInv_of_clean s.base hR hC.1 hC.2.1 _ (short_recsIn _ (short_flatten rss hrss) _ _ _) ?_
    (by rw [hF]; exact ht) (by rw [hB]; exact hw2) (by rw [hB]; exact hw)
  rw [hp]
  exact rangeStream_part_rec rss hrss ht' n k hn0 hn

/-- C04 for one part: part `k` of `n` ends normally; its blobs correspond one-to-one to consecutive non-empty
runs of the records that start in its byte range: a `NextRecord` blob is exactly the next record, a `NextChunk`
blob is the image of the next run of whole records -/
theorem part_rec (rss : List (List Bytes)) (hrss : RssOk rss) (hne : rss ≠ [])
    (ht : totalSize (recFiles rss) < 2^56) (k n w dw : Nat) (hk : k < n) (hn : n < 2^32)
    (hw2 : 2 ≤ w) (hw : w < 2^56) (pick : Nat → Bool) :
    ∃ (bs : List Bytes) (runs : List (List Bytes)),
      partBlobs Fmt.recordio (recFiles rss) k n w dw pick = .ok bs ∧ runs.length = bs.length ∧
      runs.flatten = recsIn rss.flatten 0 (bndR rss n k) (bndR rss n (k + 1)) ∧
      (∀ (i : Nat) (b : Bytes) (run : List Bytes), bs[i]? = some b → runs[i]? = some run →
        run ≠ [] ∧ (if pick i then run = [b] else b = writeAll run)) := by
  obtain ⟨s, hs, hwr, hG, _⟩ := mkSt_rec_inv rss hrss hne ht k n w dw hk hn hw2 hw
  obtain ⟨bs, s', hd, ⟨runs, h1, h2, h3⟩, _⟩ := drain_rec_correct s hwr [] _ hG pick
  exact ⟨bs, runs, partBlobs_of_mkSt _ _ _ _ _ _ _ s s' _ hs hd, h1, by rw [h2]; rfl, h3⟩

/-- consumed with `NextRecord` only, part `k` delivers exactly the records that start in its byte range -/
theorem part_rec_records (rss : List (List Bytes)) (hrss : RssOk rss) (hne : rss ≠ [])
    (ht : totalSize (recFiles rss) < 2^56) (k n w dw : Nat) (hk : k < n) (hn : n < 2^32)
    (hw2 : 2 ≤ w) (hw : w < 2^56) :
    partBlobs Fmt.recordio (recFiles rss) k n w dw (fun _ => true)
      = .ok (recsIn rss.flatten 0 (bndR rss n k) (bndR rss n (k + 1))) := by
  obtain ⟨bs, runs, h1, h2, h3, h4⟩ := part_rec rss hrss hne ht k n w dw hk hn hw2 hw (fun _ => true)
  rw [h1, ← h3]
  congr 1
  exact (flatten_of_singletons bs runs h2 (fun i b run hb hr => by
    have := (h4 i b run hb hr).2
    simpa using this)).symm

/-- the records a consumer extracts from part `k`, whatever the mix of `NextRecord` / `NextChunk` -/
theorem recordsOf_part_rec (rss : List (List Bytes)) (hrss : RssOk rss) (hne : rss ≠ [])
    (ht : totalSize (recFiles rss) < 2^56) (k n w dw : Nat) (hk : k < n) (hn : n < 2^32)
    (hw2 : 2 ≤ w) (hw : w < 2^56) (pick : Nat → Bool) :
    recordsOf pick (partBlobs Fmt.recordio (recFiles rss) k n w dw pick)
      = recsIn rss.flatten 0 (bndR rss n k) (bndR rss n (k + 1)) := by
  obtain ⟨bs, runs, h1, h2, h3, h4⟩ := part_rec rss hrss hne ht k n w dw hk hn hw2 hw pick
  rw [h1, ← h3]
  show recordsGo pick 0 bs = runs.flatten
  refine recordsGo_runs pick bs 0 runs h2 (by rw [h3]; exact short_recsIn _ (short_flatten rss hrss) _ _ _) ?_
  intro j b run hb hr
  rw [Nat.zero_add]
  exact h4 j b run hb hr

/-- C04: the records of the `n` parts, concatenated, are the written records (any consumption mode) -/
theorem parts_cover_rec (rss : List (List Bytes)) (hrss : RssOk rss) (hne : rss ≠ [])
    (ht : totalSize (recFiles rss) < 2^56) (n w dw : Nat) (hn0 : 0 < n) (hn : n < 2^32)
    (hw2 : 2 ≤ w) (hw : w < 2^56) (pick : Nat → Nat → Bool) :
    (List.range n).flatMap
        (fun k => recordsOf (pick k) (partBlobs Fmt.recordio (recFiles rss) k n w dw (pick k)))
      = rss.flatten := by
  rw [← records_parts_telescope rss hrss hne (by omega) n hn0 hn]
  apply flatMap_congr_mem
  intro k hk
  exact recordsOf_part_rec rss hrss hne ht k n w dw (List.mem_range.1 hk) hn hw2 hw (pick k)

/-- every boundary is a multiple of 4 -/
theorem bndR_mod4 (rss : List (List Bytes)) (hrss : RssOk rss) (ht : totalSize (recFiles rss) < 2^62)
    (n j : Nat) (hn0 : 0 < n) (hn : n < 2^32) : bndR rss n j % 4 = 0 := by
  obtain ⟨i, _, hi⟩ := bndR_ghead rss hrss ht n j hn0 hn
  rw [hi]
  exact writeAll_length_mod4 _ (short_take (short_flatten rss hrss) i)

end DmlcModel.Split
