/-
Executable model of the file-list construction of `InputSplitBase`: `Init`, `InitInputFileInfo`,
`ConvertToURIs`, `StripEnd` (src/io/input_split_base.cc), `dmlc::Split` (include/dmlc/common.h), the
`URI(const char*)` constructor (include/dmlc/io.h), `FileSystem::ListDirectoryRecursive`
(src/io/filesys.cc), over an abstract file system = what `harness/common/memfs.h` implements (a map
from names to contents iterated in key order; directories are the proper '/'-prefixes of file names).

Separator characters and conditions come from the generated `Gen/Split.lean` (`cuDelim`, `cuSlash`,
`cuAsIs`, `cuStripCh`, `cuRxSkip`, `seStrip`, `iiKeepListed`, `iiKeepFile`, `iiNoneCount`,
`initOffset`).  The `std::regex` branch of `ConvertToURIs` is modelled with an abstract matcher
`rx pattern candidate` (the driver uses literal equality, exact for names without regex
metacharacters — the only names the harness generates; `std::regex` itself is not modelled).
Names are byte strings without NUL.  Core Lean only.
-/
import DmlcModel.Split.Model

namespace DmlcModel.Split
open DmlcModel DmlcModel.Gen.Split

abbrev Name := Bytes

/-- the abstract file system: (name, content) in key order, names unique (`std::map` of MemFS) -/
abbrev FileSys := List (Name × Bytes)

inductive Kind | file | dir
  deriving Repr, DecidableEq

/-- `FileInfo` (protocol / host of the URI are carried along by the code and ignored by MemFS) -/
structure Info where
  name : Name
  size : Nat
  kind : Kind
  deriving Repr, DecidableEq

/-- `StripEnd(str, ch)`: the argument is the REVERSED string -/
def stripEndRev (ch : Nat) : Bytes → Bytes
  | [] => []
  | b :: r => if seStrip (r.length + 1) b.toNat ch then stripEndRev ch r else b :: r

def stripEnd (s : Bytes) (ch : Nat) : Bytes := (stripEndRev ch s.reverse).reverse

/-- `dmlc::Split(s, delim)` = repeated `std::getline`: pieces between delimiters; a final empty piece
(end of input right after a delimiter, or empty input) is not produced -/
def splitGo (delim : Nat) : Bytes → Bytes → List Bytes
  | [], cur => if cur.isEmpty then [] else [cur]
  | b :: r, cur => if b.toNat = delim then cur :: splitGo delim r [] else splitGo delim r (cur ++ [b])

def splitDelim (s : Bytes) (delim : Nat) : List Bytes := splitGo delim s []

/-- is `p` a prefix of `s`? -/
def isPrefix : Bytes → Bytes → Bool
  | [], _ => true
  | _ :: _, [] => false
  | a :: p, b :: s => a == b && isPrefix p s

/-- `strstr(s, "://")`: the bytes after the first occurrence -/
def afterScheme : Bytes → Option Bytes
  | [] => none
  | b :: r => if isPrefix [58, 47, 47] (b :: r) then some (r.drop 2) else afterScheme r

/-- `strchr(s, '/')`: the suffix starting at the first '/' -/
def fromSlash : Bytes → Option Bytes
  | [] => none
  | b :: r => if b = 47 then some (b :: r) else fromSlash r

/-- `URI(const char*)::name` -/
def uriName (s : Bytes) : Name :=
  match afterScheme s with
  | none => s
  | some rest =>
    match fromSlash rest with
    | none => [47]
    | some nm => nm

/-- `std::string::rfind(ch)`: `none` = npos -/
def rfind (s : Bytes) (ch : Nat) : Option Nat :=
  match (s.reverse.findIdx? (fun b => b.toNat == ch)) with
  | none => none
  | some i => some (s.length - 1 - i)

/-- MemFS::IsDir: some file name starts with `strip(name) ++ "/"` -/
def dirPrefix (nm : Name) : Bytes := stripEnd nm 47 ++ [47]

def isDirOf (fs : FileSys) (nm : Name) : Bool := fs.any (fun e => isPrefix (dirPrefix nm) e.1)

/-- MemFS::GetPathInfo: `none` = LOG(FATAL) -/
def getPathInfo (fs : FileSys) (nm : Name) : Option Info :=
  match fs.find? (fun e => e.1 == nm) with
  | some e => some { name := nm, size := e.2.length, kind := .file }
  | none => if isDirOf fs nm then some { name := nm, size := 0, kind := .dir } else none

/-- MemFS::ListDirectory: direct children in key order; `last` = the sub-directory reported last -/
def listGo (dir : Bytes) : FileSys → Option Bytes → List Info
  | [], _ => []
  | (nm, c) :: rest, last =>
    if isPrefix dir nm then
      let tail := nm.drop dir.length
      match tail.findIdx? (fun b => b == 47) with
      | none =>
        if tail.isEmpty then listGo dir rest last
        else { name := nm, size := c.length, kind := .file } :: listGo dir rest last
      | some i =>
        let sub := nm.take (dir.length + i)
        if last = some sub then listGo dir rest last
        else { name := sub, size := 0, kind := .dir } :: listGo dir rest (some sub)
    else listGo dir rest last

def listDirectory (fs : FileSys) (nm : Name) : List Info := listGo (dirPrefix nm) fs none

/-- `FileSystem::ListDirectoryRecursive`: breadth-first over a queue of directories -/
def listRecGo (fs : FileSys) : Nat → List Name → List Info → Except Err (List Info)
  | 0, _, _ => .error .fuel
  | _ + 1, [], out => .ok out
  | fuel + 1, d :: queue, out =>
    let dfiles := listDirectory fs d
    listRecGo fs fuel (queue ++ (dfiles.filter (fun i => i.kind == .dir)).map (·.name))
      (out ++ dfiles.filter (fun i => i.kind != .dir))

/-- iteration bound: every dequeued directory is a distinct '/'-prefix of some file name -/
def listRecFuel (fs : FileSys) : Nat := (fs.map (fun e => e.1.length + 1)).sum + 2

def listDirectoryRecursive (fs : FileSys) (nm : Name) : Except Err (List Info) :=
  listRecGo fs (listRecFuel fs) [nm] []

/-- one piece of the URI list in `ConvertToURIs` -/
def expandOne (rx : Name → Name → Bool) (fs : FileSys) (piece : Bytes) : List Name :=
  let nm := uriName piece
  let pos := rfind nm cuSlash
  -- `npos` is modelled as `nm.length + 1` (no position can equal it)
  let posN := match pos with | none => nm.length + 1 | some p => p
  if cuAsIs posN (nm.length + 1) nm.length then [nm]
  else
    let dfiles := listDirectory fs (nm.take posN)
    match dfiles.find? (fun d => stripEnd d.name cuStripCh == stripEnd nm cuStripCh) with
    | some d => [d.name]                                   -- exact match, `break`
    | none =>
      -- DMLC_USE_REGEX branch
      (dfiles.filter (fun d => !cuRxSkip (d.kind != .file) d.size && rx nm (stripEnd d.name cuStripCh))).map (·.name)

/-- `ConvertToURIs(uri)` -/
def convertToURIs (rx : Name → Name → Bool) (fs : FileSys) (uri : Bytes) : List Name :=
  (splitDelim uri cuDelim).flatMap (expandOne rx fs)

/-- the loop body of `InitInputFileInfo` for one expanded path -/
def infoOne (fs : FileSys) (recurse : Bool) (nm : Name) : Except Err (List Info) :=
  match getPathInfo fs nm with
  | none => .error .check
  | some info =>
    if info.kind = .dir then
      match (if recurse then listDirectoryRecursive fs info.name else .ok (listDirectory fs info.name)) with
      | .error e => .error e
      | .ok dfiles => .ok (dfiles.filter (fun d => iiKeepListed d.size (d.kind == .file)))
    else .ok (if iiKeepFile info.size then [info] else [])

def infoAll (fs : FileSys) (recurse : Bool) : List Name → Except Err (List Info)
  | [] => .ok []
  | nm :: rest =>
    match infoOne fs recurse nm with
    | .error e => .error e
    | .ok a =>
      match infoAll fs recurse rest with
      | .error e => .error e
      | .ok b => .ok (a ++ b)

/-- `InitInputFileInfo(uri, recurse_directories)`: the list `files_` -/
def initInputFileInfo (rx : Name → Name → Bool) (fs : FileSys) (uri : Bytes) (recurse : Bool) :
    Except Err (List Info) :=
  match infoAll fs recurse (convertToURIs rx fs uri) with
  | .error e => .error e
  | .ok files => if files.length = iiNoneCount then .error .check else .ok files   -- "Cannot find any files"

/-- the `file_offset_` vector filled by the loop of `Init` -/
def initOffsets : Nat → List Info → List Nat
  | acc, [] => [acc]
  | acc, f :: fs => acc :: initOffsets (initOffset acc f.size) fs

/-- content of a listed file -/
def contentOf (fs : FileSys) (nm : Name) : Bytes :=
  match fs.find? (fun e => e.1 == nm) with
  | some e => e.2
  | none => []

/-- constructor of a splitter from a URI string: `Init(fs, uri, align, recurse)` + `ResetPartition` -/
def mkBaseUri (F : Fmt) (rx : Name → Name → Bool) (fs : FileSys) (uri : Bytes) (recurse : Bool)
    (rank nsplit w defaultWords : Nat) : Except Err (List Info × Base) :=
  match initInputFileInfo rx fs uri recurse with
  | .error e => .error e
  | .ok infos =>
    match mkBase F (infos.map (fun i => contentOf fs i.name)) rank nsplit w defaultWords with
    | .error e => .error e
    | .ok b => .ok (infos, b)

def mkStUri (F : Fmt) (rx : Name → Name → Bool) (fs : FileSys) (uri : Bytes) (recurse : Bool)
    (k n w : Nat) (wrapped : Bool) (defaultWords : Nat) : Except Err (List Info × St) :=
  match mkBaseUri F rx fs uri recurse k n w defaultWords with
  | .error e => .error e
  | .ok (infos, b) => .ok (infos, { base := b, wrap := if wrapped then some { bufWords := defaultWords } else none })

end DmlcModel.Split
