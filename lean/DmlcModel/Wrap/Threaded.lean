/-
ThreadedInputSplit over ThreadedIter (C10): the facts about `DmlcModel.TIter` the wrapper theorems rest on
(`TIterFacts`: exactly the statements C07 / C08 prove about every reachable state of the iterator), the
chunk sequence the iterator's items stand for, and the invariant of the wrapper layer `TW`.
-/
import DmlcModel.Wrap.Model

namespace DmlcModel.Wrap
open DmlcModel DmlcModel.Gen.Wrap

/-- the items the data source yields for indices `0 .. n-1` of pass `p` (C07's `prodList`) -/
def prodList (src : Nat → Nat → TIter.SrcRes) (p : Nat) : Nat → List TIter.Item
  | 0 => []
  | n + 1 =>
    prodList src p n ++ (match src p n with
      | .item v => [⟨p, n, v⟩]
      | _ => [])

/-- What C07 / C08 establish for every reachable state of `ThreadedIter` with parameters `P` (names of the
theorems in `DmlcModel.Props.C07` / `C08` in brackets).  Taken as a hypothesis here; see CONFIG['partial']. -/
structure TIterFacts (P : TIter.Params) : Prop where
  /-- [C07_order] delivered, queued and in-flight items are the produced ones, in order -/
  order : ∀ s, TIter.Reachable P s → s.delivered ++ TIter.qitems s ++ TIter.optList s.pitem = s.produced
  /-- [C07_produced] the produced items are the first `pidx` items of the current pass of the source -/
  produced : ∀ s, TIter.Reachable P s → s.produced = prodList P.src s.pass s.pidx
  /-- [C07_end_sound] `Next` reports the end only when the source has ended and everything was delivered -/
  endSound : ∀ s s' e, TIter.Reachable P s → TIter.step P s e = some s' → s'.ret = .nextEnd → s.thrown = false →
    s.srcEnded = true ∧ s.delivered = s.produced
  /-- [invariant of the ghost field `srcEnded`] the source said `fin` at the current index -/
  srcEnd : ∀ s, TIter.Reachable P s → s.srcEnded = true → P.src s.pass s.pidx = .fin
  /-- [invariant of the ghost field `thrown`] a source that never throws never makes the iterator fail -/
  noThrow : (∀ p i, P.src p i ≠ .throw) → (∀ p, P.rew p = .ok) → ∀ s, TIter.Reachable P s → s.thrown = false
  /-- [C08_fresh_pass] a successful BeforeFirst starts the next pass with nothing delivered -/
  freshPass : ∀ s s', TIter.Reachable P s → TIter.step P s .xStep = some s' → s.xloc = .bExc1 → s'.ret = .ok →
    s'.pass = s'.bfPass + 1 ∧ s'.delivered = []
  /-- [C07_cells] every allocated cell is in exactly one place -/
  cells : ∀ s, TIter.Reachable P s → ∀ c, (TIter.cells s).count c = if c < s.allocated then 1 else 0

/-! ### items and chunks -/

theorem prodList_chunks (B : Nat → Nat → List Chunk) (parts : Nat → Nat × Nat) (p n : Nat) :
    (prodList (iterParams B parts).src p n).filterMap (chunkOf B parts) = (B (parts p).1 (parts p).2).take n := by
  induction n with
  | zero => simp [prodList]
  | succ n ih =>
    simp only [prodList, List.filterMap_append, ih, List.take_add_one]
    congr 1
    by_cases hn : n < (B (parts p).1 (parts p).2).length
    · simp [iterParams, hn, chunkOf]
    · have : (B (parts p).1 (parts p).2)[n]? = none := by
        rw [List.getElem?_eq_none_iff]; omega
      simp [iterParams, hn]

theorem prodList_all_chunks (B : Nat → Nat → List Chunk) (parts : Nat → Nat × Nat) (p n : Nat) :
    ∀ it ∈ prodList (iterParams B parts).src p n, (chunkOf B parts it).isSome = true := by
  induction n with
  | zero => simp [prodList]
  | succ n ih =>
    intro it hit
    simp only [prodList, List.mem_append] at hit
    rcases hit with hit | hit
    · exact ih it hit
    · by_cases hn : n < (B (parts p).1 (parts p).2).length
      · simp [iterParams, hn] at hit
        subst hit
        simp [chunkOf, List.getElem?_eq_getElem hn]
      · simp [iterParams, hn] at hit

theorem iterParams_noThrow (B : Nat → Nat → List Chunk) (parts : Nat → Nat × Nat) :
    (∀ p i, (iterParams B parts).src p i ≠ .throw) ∧ (∀ p, (iterParams B parts).rew p = .ok) := by
  constructor
  · intro p i
    simp only [iterParams]
    split <;> simp
  · intro p; rfl

/-! ### the wrapper layer -/

theorem wstep_iter (P : TIter.Params) (s s' : TW) (ie : TIter.Event) (h : wstep P s (.iter ie) = some s') :
    ∃ it', TIter.step P s.it ie = some it' ∧ s' = { s with it := it' } ∧ recyclesTouched s.touching ie = false := by
  simp only [wstep, wstepR] at h
  split at h
  · cases h
  · rename_i hrt
    cases hst : TIter.step P s.it ie with
    | none => rw [hst] at h; cases h
    | some it' => rw [hst] at h; simp at h; exact ⟨it', rfl, h.symm, by simpa using hrt⟩

set_option linter.unusedSimpArgs false in
/-- only `Recycle(c)` takes cell `c` out of the caller's hands -/
theorem lent_kept (rk : Bool) (P : TIter.Params) (s s' : TIter.State) (e : TIter.Event) (c : Nat)
    (h : TIter.stepR rk P s e = some s') (hc : c ∈ s.lent) (hne : e ≠ .rStart c) : c ∈ s'.lent := by
  cases e
  case rStart c' =>
    simp only [TIter.stepR] at h
    split at h
    · injection h with h; subst h
      simp only
      have : c' ≠ c := fun hh => hne (by rw [hh])
      exact (List.mem_erase_of_ne (Ne.symm this)).mpr hc
    · cases h
  all_goals simp only [TIter.stepR, TIter.prodStep, TIter.xStep] at h
  all_goals (repeat' (split at h))
  all_goals (try cases h)
  all_goals (try (injection h with h; subst h))
  all_goals (try exact hc)
  all_goals (simp only [TIter.pEnter, TIter.pCallback, TIter.pPublish, TIter.pCatch, TIter.wakeConsumers, TIter.wakeProducer,
    TIter.nTake, TIter.endCall, TIter.bAfter, TIter.cleanup, TIter.rAfter])
  all_goals (repeat' split)
  all_goals (try exact hc)
  all_goals (try (simp only [List.mem_cons]; exact Or.inr hc))

theorem wreach_iter (P : TIter.Params) (s : TW) (h : WReachable P s) : TIter.Reachable P s.it := by
  induction h with
  | init => exact TIter.ReachableR.init
  | @step s0 s1 e _ hs ih =>
    cases e with
    | iter ie =>
      obtain ⟨it', h1, h2, _⟩ := wstep_iter P s0 s1 ie hs
      rw [h2]
      exact TIter.ReachableR.step ie ih h1
    | resetEnter =>
      simp only [wstep, wstepR] at hs
      split at hs
      · injection hs with hs; rw [← hs]; exact ih
      · cases hs
    | resetExit =>
      simp only [wstep, wstepR] at hs
      split at hs
      · injection hs with hs; rw [← hs]; exact ih
      · cases hs
    | touch c =>
      simp only [wstep, wstepR] at hs
      split at hs
      · injection hs with hs; rw [← hs]; exact ih
      · cases hs
    | untouch =>
      simp only [wstep, wstepR] at hs
      split at hs
      · injection hs with hs; rw [← hs]; exact ih
      · cases hs

/-- with the repair (`resetOnCaller = false`) the calling thread has no way into the base split -/
theorem caller_never_in_base (hfix : resetOnCaller = false) (P : TIter.Params) (s : TW) (h : WReachable P s) :
    s.callerInBase = false := by
  induction h with
  | init => rfl
  | @step s0 s1 e _ hs ih =>
    cases e with
    | iter ie =>
      obtain ⟨it', _, h2, _⟩ := wstep_iter P s0 s1 ie hs
      rw [h2]; exact ih
    | resetEnter =>
      simp only [wstep, wstepR, hfix] at hs
      simp at hs
    | resetExit =>
      simp only [wstep, wstepR, ih] at hs
      simp at hs
    | touch c =>
      simp only [wstep, wstepR] at hs
      split at hs
      · injection hs with hs; rw [← hs]; exact ih
      · cases hs
    | untouch =>
      simp only [wstep, wstepR] at hs
      split at hs
      · injection hs with hs; rw [← hs]; exact ih
      · cases hs

/-- the chunk the caller works on is one it holds -/
theorem touching_lent (P : TIter.Params) (s : TW) (h : WReachable P s) : ∀ c, s.touching = some c → c ∈ s.it.lent := by
  induction h with
  | init => intro c hc; cases hc
  | @step s0 s1 e _ hs ih =>
    intro c hc
    cases e with
    | iter ie =>
      obtain ⟨it', h1, h2, h3⟩ := wstep_iter P s0 s1 ie hs
      rw [h2] at hc ⊢
      simp only at hc ⊢
      have hne : ie ≠ .rStart c := by
        intro he
        rw [he, hc] at h3
        simp [recyclesTouched] at h3
      exact lent_kept _ P s0.it it' ie c h1 (ih c hc) hne
    | resetEnter =>
      simp only [wstep, wstepR] at hs
      split at hs
      · injection hs with hs; rw [← hs] at hc ⊢; exact ih c hc
      · cases hs
    | resetExit =>
      simp only [wstep, wstepR] at hs
      split at hs
      · injection hs with hs; rw [← hs] at hc ⊢; exact ih c hc
      · cases hs
    | touch c' =>
      simp only [wstep, wstepR] at hs
      split at hs
      · rename_i hg
        injection hs with hs; rw [← hs] at hc ⊢
        simp only at hc ⊢
        injection hc with hc
        rw [← hc]; exact hg.1
      · cases hs
    | untouch =>
      simp only [wstep, wstepR] at hs
      split at hs
      · injection hs with hs; rw [← hs] at hc; cases hc
      · cases hs

/-- a cell in the caller's hands is in no list the prefetch thread works on (from C07_cells) -/
theorem lent_exclusive (P : TIter.Params) (F : TIterFacts P) (s : TIter.State) (h : TIter.Reachable P s) (c : Nat)
    (hc : c ∈ s.lent) : s.pcell ≠ some c ∧ c ∉ TIter.qcells s ∧ c ∉ s.free := by
  have hcount := F.cells s h c
  have h1 : 1 ≤ s.lent.count c := List.count_pos_iff.mpr hc
  have hle : (TIter.cells s).count c ≤ 1 := by rw [hcount]; split <;> omega
  simp only [TIter.cells, List.count_append] at hle
  refine ⟨?_, ?_, ?_⟩
  · intro hp
    have : 1 ≤ (TIter.optList s.pcell).count c := by rw [hp]; simp [TIter.optList]
    omega
  · intro hq
    have : 1 ≤ (TIter.qcells s).count c := List.count_pos_iff.mpr hq
    omega
  · intro hf
    have : 1 ≤ s.free.count c := List.count_pos_iff.mpr hf
    omega

/-- transparency from the ThreadedIter facts (statement explained at `Props.C10.C10_threaded_transparent`; the base split is the data source: item `i` of pass `p` is
chunk `i` of the partition `parts p`, see `iterParams`).  In every reachable state of the iterator —
i.e. under every interleaving of the prefetch thread with the wrapper's calls, spurious wake-ups
included — the chunks handed to the caller so far in the current pass are an initial segment of the
base split's chunk sequence for that pass, each delivered item is a chunk of it, and `Next` reports the
end of the pass only when the whole sequence has been handed out.  After a successful `BeforeFirst` the
next pass starts with nothing delivered. -/
theorem threaded_transparent_of_facts (B : Nat → Nat → List Chunk) (parts : Nat → Nat × Nat)
    (F : TIterFacts (iterParams B parts)) (s : TIter.State) (h : TIter.Reachable (iterParams B parts) s) :
    (s.delivered.filterMap (chunkOf B parts) <+: B (parts s.pass).1 (parts s.pass).2) ∧
    (∀ it ∈ s.delivered, (chunkOf B parts it).isSome = true) ∧
    (∀ e s', TIter.step (iterParams B parts) s e = some s' → s'.ret = .nextEnd →
      s.delivered.filterMap (chunkOf B parts) = B (parts s.pass).1 (parts s.pass).2) ∧
    (∀ s', TIter.step (iterParams B parts) s .xStep = some s' → s.xloc = .bExc1 → s'.ret = .ok →
      s'.pass = s'.bfPass + 1 ∧ s'.delivered = []) := by
  have ho := F.order s h
  have hp := F.produced s h
  have hch := prodList_chunks B parts s.pass s.pidx
  refine ⟨?_, ?_, ?_, ?_⟩
  · have : s.delivered.filterMap (chunkOf B parts) ++
        (TIter.qitems s ++ TIter.optList s.pitem).filterMap (chunkOf B parts) =
        (B (parts s.pass).1 (parts s.pass).2).take s.pidx := by
      rw [← List.filterMap_append, ← List.append_assoc, ho, hp, hch]
    exact List.IsPrefix.trans ⟨_, this⟩ (List.take_prefix _ _)
  · intro it hit
    apply prodList_all_chunks B parts s.pass s.pidx
    rw [← hp, ← ho]
    simp [hit]
  · intro e s' hst hret
    have hnt := F.noThrow (iterParams_noThrow B parts).1 (iterParams_noThrow B parts).2 s h
    obtain ⟨hend, hdel⟩ := F.endSound s s' e h hst hret hnt
    have hfin := F.srcEnd s h hend
    have hge : (B (parts s.pass).1 (parts s.pass).2).length ≤ s.pidx := by
      simp only [iterParams] at hfin
      split at hfin
      · cases hfin
      · omega
    rw [hdel, hp, hch, List.take_of_length_le hge]
  · intro s' hst hx hr
    exact F.freshPass s s' h hst hx hr

/-- **No data race on the base split or on a lent chunk** (for the code in VERIF_REPO; needs the repair
of F5: `Gen.Wrap.resetOnCaller = false`).  In every reachable state of the wrapper + iterator system:
the calling thread is never inside the base split — neither while the prefetch thread is in the produce
callback (`NextBatchEx`) nor during a transition in which it runs the rewind callback (`BeforeFirst`,
`ResetPartition`) —, and the chunk the caller works on (`ExtractNext*`, reading the blob) is neither the
cell the prefetch thread is filling nor in its queue or free list (the cell part uses C07_cells). -/
theorem race_free_of_facts (P : TIter.Params) (F : TIterFacts P) (s : TW) (h : WReachable P s) :
    ¬ (producerInBase s = true ∧ s.callerInBase = true) ∧
    (∀ e, rewindsNow P s e = true → s.callerInBase = false) ∧
    (∀ c, s.touching = some c → s.it.pcell ≠ some c ∧ c ∉ TIter.qcells s.it ∧ c ∉ s.it.free) := by
  have hcb := caller_never_in_base (by decide) P s h
  refine ⟨?_, ?_, ?_⟩
  · rw [hcb]; simp
  · intro _ _; exact hcb
  · intro c hc
    exact lent_exclusive P F s.it (wreach_iter P s h) c (touching_lent P s h c hc)


end DmlcModel.Wrap
