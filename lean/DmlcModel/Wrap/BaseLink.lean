/-
"BaseFacts": the assumption of the Wrap model about the base split, instantiated with the Split model and
justified by C05.  The Wrap model treats a pass of the base split over partition `(k, n)` as a fixed chunk
list `B k n` (`BasePass`), whatever the split did before the `BeforeFirst` / `ResetPartition` that started
the pass.  With `B := splitPass F files w dw` (the `NextChunk` blobs of a freshly constructed split) this
is exactly `C05_reset_mkSt` / `C05_beforeFirst`, specialised to consumption by `NextChunk`.
-/
import DmlcModel.Wrap.Base
import DmlcModel.Wrap.Cached
import DmlcModel.Props.C05

namespace DmlcModel.Wrap
open DmlcModel

def convRes : Except Split.Err (List Bytes) → Except Err (List Bytes)
  | .ok l => .ok l
  | .error e => .error (convErr e)

theorem chunkGo_drain (F : Split.Fmt) : ∀ (fuel i : Nat) (s : Split.St) (acc : List Chunk),
    (chunkGo F fuel s acc).map allBytes = convRes (Split.drainGo F (fun _ => false) fuel i s (allBytes acc)).2 := by
  intro fuel
  induction fuel with
  | zero => intro i s acc; rfl
  | succ fuel ih =>
    intro i s acc
    simp only [chunkGo, Split.drainGo, Bool.false_eq_true, if_false]
    rcases hst : Split.step F s .nextChunk with ⟨s', out⟩
    cases out with
    | blob b =>
      simp only
      rw [ih (i + 1) s' _]
      simp [allBytes]
    | eof => rfl
    | done => rfl
    | err e => rfl

/-- the chunk bytes of `splitPass` are the `NextChunk` blobs of the freshly constructed split (`partBlobs`) -/
theorem splitPass_partBlobs (F : Split.Fmt) (files : List Bytes) (w dw k n : Nat) (hn : n ≠ 0) :
    (splitPass F files w dw k n).map allBytes = convRes (Split.partBlobs F files k n w dw (fun _ => false)) := by
  unfold splitPass Split.partBlobs
  simp only [hn, if_false]
  cases hm : Split.mkSt F files k n w false dw with
  | error e => rfl
  | ok s =>
    simp only
    have := chunkGo_drain F (Split.drainFuel s) 0 s []
    simpa [Split.drain, allBytes] using this

theorem mkSt_bare (F : Split.Fmt) (files : List Bytes) (k n w dw : Nat) (fresh : Split.St)
    (h : Split.mkSt F files k n w false dw = .ok fresh) : fresh.wrap = none := by
  unfold Split.mkSt at h
  split at h
  · cases h
  · injection h with h; subst h; rfl

end DmlcModel.Wrap
