/-
Model of the two wrappers `InputSplit::Create` puts around a split (C10)          -- core Lean only

* `CachedInputSplit` (src/io/cached_input_split.h) as a state machine over an abstract base chunk
  sequence: the first pass tees `(length, bytes)` images into the cache file, `BeforeFirst` drains the
  rest, closes the file and switches to the replay iterator, whose producer reads a length, sizes the
  chunk buffer with the *generated* expression `Gen.Wrap.cacheBufWords` and reads that many bytes into
  it; a later object that finds the file replays it from the start.
* `ThreadedInputSplit` (src/io/threaded_input_split.h): (a) what the caller observes (`TSt`, the
  on-demand schedule of the prefetch thread), (b) the concurrent system `TW` = the `ThreadedIter`
  transition system of `DmlcModel.TIter` instantiated with the base split as data source, plus the one
  access of the *calling* thread to the base split (`ResetPartition` on the pinned tree) as ghost state.

The base split is abstract: a pass over partition `(k, n)` is a finite list of chunks (`Chunk`: the bytes
`NextChunkEx` loads and the `data.size()` of the cell afterwards).  That a `BeforeFirst` / `ResetPartition`
of the base makes the next pass exactly this list is C05 (`DmlcModel.Split`); the driver instantiates the
list with the Split model's `load` sequence.

Observation level: the wrappers hand *chunk windows* (`Win`) to the same extraction loop the bare split
runs (`while (!Extract(chunk)) { recycle; if (!Next(&chunk)) return false; }`), so the model is stated
over windows; `ext` is the format's `ExtractNextRecord` / `ExtractNextChunk`.
-/
import DmlcModel.Basic
import DmlcModel.Gen.Wrap
import DmlcModel.TIter.Model

namespace DmlcModel.Wrap
open DmlcModel DmlcModel.Gen.Wrap

/-- abnormal outcomes: `check` = `CHECK`/`LOG(FATAL)` (dmlc::Error); `oob` = a store outside the chunk's
buffer (undefined behaviour; ASan: container-overflow or heap-buffer-overflow) -/
inductive Err | check | oob
  deriving Repr, DecidableEq

/-- a chunk as the base split's `NextChunkEx` leaves it in a cell -/
structure Chunk where
  bytes : Bytes
  words : Nat            -- `data.size()` (uint32 words) after `Chunk::Load`
  deriving Repr, DecidableEq

/-- the lent chunk as the extraction loop sees it: buffer capacity in BYTES, `begin - data`, `[begin, end)` -/
structure Win where
  cap : Nat
  begin : Nat := 0
  rest : Bytes
  deriving Repr, DecidableEq

def winOf (c : Chunk) : Win := { cap := 4 * c.words, rest := c.bytes }

/-- `ExtractNextRecord` / `ExtractNextChunk` of the format: `none` = the window is used up -/
abbrev Extract := Win → Except Err (Option (Bytes × Win))

/-- `InputSplitBase::ExtractNextChunk` -/
def extractChunk : Extract := fun w =>
  if w.rest.isEmpty then .ok none
  else .ok (some (w.rest, { w with begin := w.begin + w.rest.length, rest := [] }))

/-! ### the extraction loop shared by both wrappers -/

/-- `while (!Extract(tmp)) { Recycle(&tmp); if (!Next(&tmp)) return false; }` over the windows the
iterator will still deliver: result blob, the window it came from, the windows not yet fetched -/
def pull (ext : Extract) : Win → List Win → Except Err (Option (Bytes × Win) × List Win)
  | w, ws =>
    match ext w with
    | .error e => .error e
    | .ok (some (b, w')) => .ok (some (b, w'), ws)
    | .ok none =>
      match ws with
      | [] => .ok (none, [])
      | w2 :: ws' => pull ext w2 ws'

/-- `if (tmp == NULL) { if (!Next(&tmp)) return false; }` followed by the loop -/
def nextBlob (ext : Extract) (tmp : Option Win) (ws : List Win) : Except Err (Option (Bytes × Win) × List Win) :=
  match tmp with
  | some w => pull ext w ws
  | none =>
    match ws with
    | [] => .ok (none, [])
    | w :: ws' => pull ext w ws'

/-! ### the cache file -/

/-- `n` little-endian bytes of `v` -/
def leBytes : Nat → Nat → Bytes
  | 0, _ => []
  | n + 1, v => UInt8.ofNat (v % 256) :: leBytes n (v / 256)

/-- value of a little-endian byte string -/
def leVal : Bytes → Nat
  | [] => 0
  | b :: bs => b.toNat + 256 * leVal bs

/-- `fo_->Write(&size, sizeof(size)); fo_->Write(p->begin, size);` -/
def encChunk (b : Bytes) : Bytes := leBytes cacheLenBytesW b.length ++ b

def encAll : List Bytes → Bytes
  | [] => []
  | b :: bs => encChunk b ++ encAll bs

/-- what the replay producer finds at a file position -/
inductive Item
  | chunk (b : Bytes)
  | bad                     -- short length prefix or short body: CHECK "invalid cache file format"
  deriving Repr, DecidableEq

/-- the replay producer's successive reads of the whole file (`fuel` ≥ number of items) -/
def decodeAll : Nat → Bytes → List Item
  | 0, _ => []
  | fuel + 1, f =>
    let hdr := f.take cacheLenBytesR
    if crEof hdr.length then []                                  -- `nread == 0`: end of the pass
    else if hdr.length ≠ cacheLenBytesR then [.bad]              -- CHECK(nread == sizeof(size))
    else
      let len := leVal hdr
      let body := (f.drop cacheLenBytesR).take len
      if body.length ≠ len then [.bad]                           -- CHECK(fi_->Read(p->begin, size) == size)
      else .chunk body :: decodeAll fuel ((f.drop cacheLenBytesR).drop len)

def decodeFile (f : Bytes) : List Item := decodeAll (f.length + 1) f

/-- `p->data.resize(<Gen.cacheBufWords size>); fi_->Read(p->begin, size)`: the chunk the replay producer
hands out; the read leaves the buffer when `size` exceeds its capacity -/
def replayWin (b : Bytes) : Except Err Win :=
  let cap := 4 * cacheBufWords b.length
  if cap < b.length then .error .oob else .ok { cap := cap, rest := b }

/-- the read-ahead of the replay thread overflows some buffer (it runs ahead of the caller) -/
def readOverflows (items : List Item) : Bool :=
  items.any fun
    | .chunk b => 4 * cacheBufWords b.length < b.length
    | .bad => false

/-! ### CachedInputSplit -/

inductive Phase | preproc | replay
  deriving Repr, DecidableEq

structure CSt where
  phase : Phase
  /-- first pass: chunks the base split has not produced yet -/
  rest : List Chunk := []
  /-- cache file content: bytes written so far (first pass, on-demand view) / the file being replayed -/
  file : Bytes := []
  /-- replay: items not yet handed out in this pass -/
  items : List Item := []
  tmp : Option Win := none
  /-- first pass: the iterator has reported the end of the pass (`produce_end_`), i.e. every chunk is written -/
  sawEnd : Bool := false
  deriving Repr, DecidableEq

/-- `InitCachedIter`: open the cache file, start the replay iterator at offset 0 -/
def startReplay (file : Bytes) : Except Err CSt :=
  let items := decodeFile file
  if readOverflows items then .error .oob
  else .ok { phase := .replay, file := file, items := items }

/-- constructor: an existing cache file is replayed, otherwise the first pass starts (file created empty) -/
def cOpen (existing : Option Bytes) (base : List Chunk) : Except Err CSt :=
  match existing with
  | some f => startReplay f
  | none => .ok { phase := .preproc, rest := base }

/-- first-pass loop: every chunk fetched from the base is written to the cache before it is handed out -/
def pullTee (ext : Extract) : Win → List Chunk → Bytes → Except Err (Option (Bytes × Win) × List Chunk × Bytes × Bool)
  | w, cs, f =>
    match ext w with
    | .error e => .error e
    | .ok (some (b, w')) => .ok (some (b, w'), cs, f, false)
    | .ok none =>
      match cs with
      | [] => .ok (none, [], f, true)
      | c :: cs' => pullTee ext (winOf c) cs' (f ++ encChunk c.bytes)

/-- replay loop -/
def pullReplay (ext : Extract) : Win → List Item → Except Err (Option (Bytes × Win) × List Item)
  | w, is =>
    match ext w with
    | .error e => .error e
    | .ok (some (b, w')) => .ok (some (b, w'), is)
    | .ok none =>
      match is with
      | [] => .ok (none, [])
      | .bad :: _ => .error .check
      | .chunk b :: is' =>
        match replayWin b with
        | .error e => .error e
        | .ok w2 => pullReplay ext w2 is'

/-- `NextRecord` / `NextChunk` (`ext` chooses) -/
def cNext (ext : Extract) (s : CSt) : Except Err (Option Bytes × CSt) :=
  match s.phase with
  | .preproc =>
    let r := match s.tmp with
      | some w => pullTee ext w s.rest s.file
      | none =>
        match s.rest with
        | [] => .ok (none, [], s.file, true)
        | c :: cs => pullTee ext (winOf c) cs (s.file ++ encChunk c.bytes)
    match r with
    | .error e => .error e
    | .ok (some (b, w), cs, f, _) => .ok (some b, { s with rest := cs, file := f, tmp := some w })
    | .ok (none, cs, f, e) => .ok (none, { s with rest := cs, file := f, tmp := none, sawEnd := s.sawEnd || e })
  | .replay =>
    let r := match s.tmp with
      | some w => pullReplay ext w s.items
      | none =>
        match s.items with
        | [] => .ok (none, [])
        | .bad :: _ => .error .check
        | .chunk b :: is =>
          match replayWin b with
          | .error e => .error e
          | .ok w => pullReplay ext w is
    match r with
    | .error e => .error e
    | .ok (some (b, w), is) => .ok (some b, { s with items := is, tmp := some w })
    | .ok (none, is) => .ok (none, { s with items := is, tmp := none })

/-- `BeforeFirst`: first pass → drain what the base still has into the file, close it, open it for
reading; replay → `fi_->Seek(<Gen.cacheRewindPos>)`; the lent chunk goes back in both cases -/
def cBeforeFirst (s : CSt) : Except Err CSt :=
  match s.phase with
  | .preproc => startReplay (s.file ++ encAll (s.rest.map (·.bytes)))
  | .replay => .ok { s with items := decodeFile (s.file.drop cacheRewindPos), tmp := none }

/-- what the destructor leaves on disk.  With `Gen.Wrap.dtorDrains` (fixes/C10-3.diff) an object that dies
in its first pass first pulls the remaining chunks through the tee, so the file is always complete; without
it `none` = the content depends on how far the prefetch thread got -/
def cClose (s : CSt) : Option Bytes :=
  match s.phase with
  | .replay => some s.file
  | .preproc =>
    if dtorDrains then some (s.file ++ encAll (s.rest.map (·.bytes)))
    else if s.sawEnd then some s.file else none

/-! ### ThreadedInputSplit as the caller observes it -/

/-- the base split: chunk list of a pass over partition `(k, n)` (C05: the same after every rewind) -/
abbrev BasePass := Nat → Nat → Except Err (List Chunk)

structure TSt where
  part : Nat × Nat
  rest : List Win := []
  tmp : Option Win := none
  deriving Repr, DecidableEq

def tOpen (B : BasePass) (k n : Nat) : Except Err TSt :=
  match B k n with
  | .error e => .error e
  | .ok cs => .ok { part := (k, n), rest := cs.map winOf }

def tNext (ext : Extract) (s : TSt) : Except Err (Option Bytes × TSt) :=
  match nextBlob ext s.tmp s.rest with
  | .error e => .error e
  | .ok (some (b, w), ws) => .ok (some b, { s with rest := ws, tmp := some w })
  | .ok (none, ws) => .ok (none, { s with rest := ws, tmp := none })

/-- `iter_.BeforeFirst(); if (tmp_chunk_ != NULL) iter_.Recycle(&tmp_chunk_);` -/
def tBeforeFirst (B : BasePass) (s : TSt) : Except Err TSt :=
  match B s.part.1 s.part.2 with
  | .error e => .error e
  | .ok cs => .ok { s with rest := cs.map winOf, tmp := if bfRecycles then none else s.tmp }

/-- `ResetPartition`: the base is moved to the new partition (by the caller itself on the pinned tree, by
the prefetch thread's rewind callback with the repair), then `BeforeFirst` -/
def tReset (B : BasePass) (s : TSt) (k n : Nat) : Except Err TSt :=
  if resetOnCaller || resetInRewind then tBeforeFirst B { s with part := (k, n) } else tBeforeFirst B s

/-! ### ThreadedInputSplit as a concurrent system -/

/-- the `ThreadedIter` parameters of the wrapper: the data source is the base split (item `idx` of pass
`p` = chunk `idx` of the partition `parts p` selected for that pass), the rewind cannot fail, capacity
`Gen.threadedCap` -/
def iterParams (B : Nat → Nat → List Chunk) (parts : Nat → Nat × Nat) : TIter.Params where
  src := fun p i => if i < (B (parts p).1 (parts p).2).length then .item i else .fin
  rew := fun _ => .ok
  cap := threadedCap

/-- the chunk an item of the iterator stands for -/
def chunkOf (B : Nat → Nat → List Chunk) (parts : Nat → Nat × Nat) (it : TIter.Item) : Option Chunk :=
  (B (parts it.pass).1 (parts it.pass).2)[it.val]?

structure TW where
  it : TIter.State := {}
  /-- ghost `baseUser` of the calling thread: it is inside `base_->ResetPartition` -/
  callerInBase : Bool := false
  /-- ghost `chunkUser` of the calling thread: the cell it is extracting from / copying out of -/
  touching : Option Nat := none

inductive WEvent
  | iter (e : TIter.Event)        -- any transition of the iterator (producer thread or a call of the wrapper)
  | resetEnter | resetExit        -- `base_->ResetPartition(..)` on the calling thread (pinned tree only)
  | touch (c : Nat) | untouch     -- the caller works on the lent chunk (`ExtractNext*`, reading the blob)
  deriving DecidableEq, Repr

/-- the prefetch thread is inside the base split: in the produce callback (`NextBatchEx`).  (The rewind
callback runs inside one transition of the iterator, see `rewindsNow`.) -/
def producerInBase (s : TW) : Bool := s.it.ploc == .call

/-- the transition `e` makes the prefetch thread run the rewind callback (`base->BeforeFirst()`) -/
def rewindsNow (P : TIter.Params) (s : TW) (e : WEvent) : Bool :=
  match e with
  | .iter ie =>
    match TIter.step P s.it ie with
    | some it' => it'.rewCalls != s.it.rewCalls
    | none => false
  | _ => false

/-- the wrapper never hands back the chunk it is still working on -/
def recyclesTouched (t : Option Nat) : TIter.Event → Bool
  | .rStart c => t == some c
  | _ => false

/-- `roc` = the caller performs the base split's ResetPartition itself (`Gen.Wrap.resetOnCaller`) -/
def wstepR (roc : Bool) (P : TIter.Params) (s : TW) : WEvent → Option TW
  | .iter e =>
    if recyclesTouched s.touching e then none
    else (TIter.step P s.it e).map fun it' => { s with it := it' }
  | .resetEnter =>
    if roc ∧ s.callerInBase = false ∧ s.it.xloc = .idle ∧ TIter.busy s.it = 0 then
      some { s with callerInBase := true }
    else none
  | .resetExit => if s.callerInBase then some { s with callerInBase := false } else none
  | .touch c => if c ∈ s.it.lent ∧ s.touching = none then some { s with touching := some c } else none
  | .untouch => if s.touching.isSome then some { s with touching := none } else none

/-- the model of the code in `VERIF_REPO` -/
def wstep (P : TIter.Params) (s : TW) (e : WEvent) : Option TW := wstepR resetOnCaller P s e

inductive WReachable (P : TIter.Params) : TW → Prop where
  | init : WReachable P {}
  | step {s s' : TW} (e : WEvent) : WReachable P s → wstep P s e = some s' → WReachable P s'

/-- run a list of events from the initial state (witnesses) -/
def wrun (roc : Bool) (P : TIter.Params) : TW → List WEvent → Option TW
  | s, [] => some s
  | s, e :: es =>
    match wstepR roc P s e with
    | none => none
    | some s' => wrun roc P s' es

end DmlcModel.Wrap
