/- the cache-file name of `URISpec` is injective in `(k, n)` (C10): decimal rendering is injective and
consists of digits only, the tags start with a non-digit -/
import DmlcModel.Wrap.Name

namespace DmlcModel.Wrap
open DmlcModel.Gen.Wrap

def digitVal (c : Char) : Nat := c.toNat - 48

/-- value of a digit string -/
def fromDigits (l : List Char) (start : Nat) : Nat := l.foldl (fun a c => 10 * a + digitVal c) start

theorem digitVal_digitChar : ∀ d, d < 10 → digitVal (digitChar d) = d := by decide
theorem isDigit_digitChar : ∀ d, d < 10 → (digitChar d).isDigit = true := by decide

theorem fromDigits_decGo : ∀ (f n : Nat) (acc : List Char), n < 10 ^ f →
    fromDigits (decGo f n acc) 0 = fromDigits acc n := by
  intro f
  induction f with
  | zero => intro n acc h; simp at h; subst h; rfl
  | succ f ih =>
    intro n acc h
    unfold decGo
    split
    · rename_i hn
      simp only [fromDigits, List.foldl_cons, digitVal_digitChar n hn]
      simp
    · have h2 : n / 10 < 10 ^ f := by
        apply Nat.div_lt_of_lt_mul
        rw [Nat.pow_succ, Nat.mul_comm] at h
        exact h
      rw [ih (n / 10) _ h2]
      simp only [fromDigits, List.foldl_cons, digitVal_digitChar (n % 10) (Nat.mod_lt _ (by decide))]
      congr 1
      omega

theorem fromDigits_dec (n : Nat) : fromDigits (dec n) 0 = n := by
  unfold dec
  rw [fromDigits_decGo (n + 1) n [] ?_]
  · rfl
  · calc n < 10 ^ n := Nat.lt_pow_self (by decide)
      _ ≤ 10 ^ (n + 1) := Nat.pow_le_pow_right (by decide) (by omega)

theorem dec_injective (a b : Nat) (h : dec a = dec b) : a = b := by
  rw [← fromDigits_dec a, ← fromDigits_dec b, h]

theorem decGo_digits : ∀ (f n : Nat) (acc : List Char), (∀ c ∈ acc, c.isDigit = true) →
    ∀ c ∈ decGo f n acc, c.isDigit = true := by
  intro f
  induction f with
  | zero => intro n acc h; exact h
  | succ f ih =>
    intro n acc h
    unfold decGo
    split
    · rename_i hn
      intro c hc
      simp only [List.mem_cons] at hc
      rcases hc with rfl | hc
      · exact isDigit_digitChar n hn
      · exact h c hc
    · apply ih
      intro c hc
      simp only [List.mem_cons] at hc
      rcases hc with rfl | hc
      · exact isDigit_digitChar _ (Nat.mod_lt _ (by decide))
      · exact h c hc

theorem dec_digits (n : Nat) : ∀ c ∈ dec n, c.isDigit = true :=
  decGo_digits (n + 1) n [] (by simp)

theorem decGo_ne_nil : ∀ (f n : Nat) (acc : List Char), acc ≠ [] → decGo f n acc ≠ [] := by
  intro f
  induction f with
  | zero => intro n acc h; exact h
  | succ f ih =>
    intro n acc _
    unfold decGo
    split
    · simp
    · exact ih _ _ (by simp)

theorem dec_ne_nil (n : Nat) : dec n ≠ [] := by
  unfold dec decGo
  split
  · simp
  · exact decGo_ne_nil _ _ _ (by simp)

/-- a digit string followed by a tag that starts with a non-digit determines the digit string and the rest -/
theorem digits_tag_split (a b r1 r2 : List Char) (t : Char) (ht : t.isDigit = false)
    (ha : ∀ c ∈ a, c.isDigit = true) (hb : ∀ c ∈ b, c.isDigit = true)
    (h : a ++ t :: r1 = b ++ t :: r2) : a = b ∧ r1 = r2 := by
  have h1 : (a ++ t :: r1).takeWhile Char.isDigit = a := by
    rw [List.takeWhile_append_of_pos ha]; simp [List.takeWhile, ht]
  have h2 : (b ++ t :: r2).takeWhile Char.isDigit = b := by
    rw [List.takeWhile_append_of_pos hb]; simp [List.takeWhile, ht]
  have hab : a = b := by rw [← h1, ← h2, h]
  subst hab
  have := List.append_cancel_left h
  injection this with _ hr
  exact ⟨rfl, hr⟩

theorem partTag_shape : ∃ t r, cachePartTag.toList = t :: r ∧ t.isDigit = false := ⟨'.', ['p', 'a', 'r', 't'], by decide, by decide⟩

/-- distinct parts get distinct suffixes; the suffix of a real split (`n ≠ 1`) is not empty -/
theorem cacheSuffix_injective (k n k' n' : Nat) (hk : k < n) (hk' : k' < n')
    (h : cacheSuffixChars k n = cacheSuffixChars k' n') : k = k' ∧ n = n' := by
  have needed : ∀ m, cacheSuffixNeeded m = true ↔ m ≠ 1 := by intro m; simp [cacheSuffixNeeded]
  obtain ⟨t, r, htag, ht⟩ := partTag_shape
  unfold cacheSuffixChars at h
  by_cases h1 : n = 1 <;> by_cases h2 : n' = 1
  · omega
  · have e1 : cacheSuffixNeeded n = false := by simp [cacheSuffixNeeded, h1]
    have e2 : cacheSuffixNeeded n' = true := (needed n').2 h2
    rw [e1, e2] at h
    simp at h
    exact absurd h.2.1 (dec_ne_nil n')
  · have e1 : cacheSuffixNeeded n = true := (needed n).2 h1
    have e2 : cacheSuffixNeeded n' = false := by simp [cacheSuffixNeeded, h2]
    rw [e1, e2] at h
    simp at h
    exact absurd h.2.1 (dec_ne_nil n)
  · have e1 : cacheSuffixNeeded n = true := (needed n).2 h1
    have e2 : cacheSuffixNeeded n' = true := (needed n').2 h2
    rw [e1, e2] at h
    simp only [if_true, List.append_assoc] at h
    have h3 := List.append_cancel_left h
    rw [htag] at h3
    simp only [List.cons_append] at h3
    obtain ⟨hn, hrest⟩ := digits_tag_split _ _ _ _ t ht (dec_digits n) (dec_digits n') h3
    have hk2 := List.append_cancel_left hrest
    exact ⟨dec_injective _ _ hk2, dec_injective _ _ hn⟩

end DmlcModel.Wrap
