/-
`URISpec` (src/io/uri_spec.h): the cache-file name of part `k` of `n` as a pure function.     -- core Lean only
`os << unsigned` is the full decimal rendering (`dec`); tags and the "only when num_parts != 1" test come
from the generated `Gen/Wrap.lean`.
-/
import DmlcModel.Gen.Wrap

namespace DmlcModel.Wrap
open DmlcModel.Gen.Wrap

def digitChar (d : Nat) : Char := Char.ofNat (48 + d)

/-- most significant digit first; `fuel` bounds the number of digits -/
def decGo : Nat → Nat → List Char → List Char
  | 0, _, acc => acc
  | f + 1, n, acc => if n < 10 then digitChar n :: acc else decGo f (n / 10) (digitChar (n % 10) :: acc)

/-- decimal rendering of a natural number (`operator<<(unsigned)`) -/
def dec (n : Nat) : List Char := decGo (n + 1) n []

/-- the suffix URISpec appends to the text after `#` -/
def cacheSuffixChars (k n : Nat) : List Char :=
  if cacheSuffixNeeded n then cacheSplitTag.toList ++ dec n ++ cachePartTag.toList ++ dec k else []

/-- `URISpec(uri # base, k, n).cache_file` -/
def cacheName (base : List Char) (k n : Nat) : List Char := base ++ cacheSuffixChars k n

end DmlcModel.Wrap
