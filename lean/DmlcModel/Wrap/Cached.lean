/-
Invariant of the CachedInputSplit machine (C10): in the first pass the cache file is the encoding of the
chunks fetched so far; after `BeforeFirst`, and in every object that reuses the file, the replay items are
exactly the chunks of the base pass; both phases run the generic extraction loop `nextBlob` over their
window list.
-/
import DmlcModel.Wrap.Lemmas

namespace DmlcModel.Wrap
open DmlcModel DmlcModel.Gen.Wrap

def allBytes (cs : List Chunk) : List Bytes := cs.map (·.bytes)

def itemBytes : Item → Option Bytes
  | .chunk b => some b
  | .bad => none

/-- the chunk byte strings the iterator will still fetch in the current pass -/
def upcoming (s : CSt) : List Bytes :=
  match s.phase with
  | .preproc => allBytes s.rest
  | .replay => s.items.filterMap itemBytes

/-- the invariant: `all` = chunk byte strings of the base pass -/
def Good (all : List Bytes) (s : CSt) : Prop :=
  (s.phase = .preproc ∧ ∃ done, all = done ++ allBytes s.rest ∧ s.file = encAll done ∧ (s.sawEnd = true → s.rest = [])) ∨
  (s.phase = .replay ∧ s.file = encAll all ∧ ∃ k, s.items = chunkItems (all.drop k))

theorem filterMap_chunkItems (l : List Bytes) : (chunkItems l).filterMap itemBytes = l := by
  induction l with
  | nil => rfl
  | cons a t ih => simp [chunkItems, itemBytes] at ih ⊢; exact ih

theorem good_open (cs : List Chunk) : Good (allBytes cs) { phase := .preproc, rest := cs } :=
  Or.inl ⟨rfl, [], by simp, rfl, by simp⟩

theorem pullTee_spec (ext : Extract) :
    ∀ (cs : List Chunk) (w : Win) (f : Bytes) (r : Option (Bytes × Win)) (cs' : List Chunk) (f' : Bytes) (e : Bool),
      pullTee ext w cs f = .ok (r, cs', f', e) →
      ∃ mid, allBytes cs = mid ++ allBytes cs' ∧ f' = f ++ encAll mid ∧ (e = true → cs' = []) ∧ (e = true → r = none) := by
  intro cs
  induction cs with
  | nil =>
    intro w f r cs' f' e h
    unfold pullTee at h
    split at h
    · cases h
    · injection h with h; cases h; exact ⟨[], by simp [allBytes], by simp [encAll], by simp, by simp⟩
    · simp at h; obtain ⟨rfl, rfl, rfl, rfl⟩ := h; exact ⟨[], by simp [allBytes], by simp [encAll], by simp, by simp⟩
  | cons c cs ih =>
    intro w f r cs' f' e h
    unfold pullTee at h
    split at h
    · cases h
    · injection h with h; cases h; exact ⟨[], by simp [allBytes], by simp [encAll], by simp, by simp⟩
    · simp only at h
      obtain ⟨mid, h1, h2, h3, h4⟩ := ih _ _ _ _ _ _ h
      refine ⟨c.bytes :: mid, ?_, ?_, h3, h4⟩
      · simp [allBytes] at h1 ⊢; exact h1
      · rw [h2]; simp [encAll, List.append_assoc]

theorem pullReplay_spec (ext : Extract) :
    ∀ (l : List Bytes) (w : Win) (r : Option (Bytes × Win)) (is' : List Item),
      pullReplay ext w (chunkItems l) = .ok (r, is') → ∃ k, is' = chunkItems (l.drop k) := by
  intro l
  induction l with
  | nil =>
    intro w r is' h
    unfold pullReplay at h
    split at h
    · cases h
    · injection h with h; cases h; exact ⟨0, rfl⟩
    · simp [chunkItems] at h; obtain ⟨_, rfl⟩ := h; exact ⟨0, rfl⟩
  | cons b l ih =>
    intro w r is' h
    unfold pullReplay at h
    split at h
    · cases h
    · injection h with h; cases h; exact ⟨0, rfl⟩
    · simp only [chunkItems, List.map_cons] at h
      split at h
      · cases h
      · obtain ⟨k, hk⟩ := ih _ _ _ h
        exact ⟨k + 1, by simpa using hk⟩

theorem good_next (all : List Bytes) (ext : Extract) (s s' : CSt) (r : Option Bytes)
    (hg : Good all s) (h : cNext ext s = .ok (r, s')) : Good all s' := by
  obtain ⟨ph, rest0, file0, items0, tmp0, sawEnd0⟩ := s
  rcases hg with ⟨hp, done, h1, h2, h3⟩ | ⟨hp, h1, k, hk⟩
  · -- first pass
    simp only at hp h1 h2 h3
    subst hp
    have hp : Phase.preproc = Phase.preproc := rfl
    unfold cNext at h
    simp only at h
    cases htmp : tmp0 with
    | some w =>
      rw [htmp] at h
      simp only at h
      cases hr : pullTee ext w rest0 file0 with
      | error e => rw [hr] at h; cases h
      | ok v =>
        obtain ⟨rr, cs', f', e⟩ := v
        rw [hr] at h
        obtain ⟨mid, m1, m2, m3, m4⟩ := pullTee_spec ext _ _ _ _ _ _ _ hr
        cases rr with
        | some bw =>
          simp only at h
          injection h with h; injection h with _ h; subst h
          refine Or.inl ⟨hp, done ++ mid, ?_, ?_, ?_⟩
          · rw [h1, m1]; simp
          · simp [m2, h2, encAll_append]
          · intro hs; simp only at hs; have := h3 hs; rw [this] at m1; simp [allBytes] at m1; exact m1.2
        | none =>
          simp only at h
          injection h with h; injection h with _ h; subst h
          refine Or.inl ⟨hp, done ++ mid, ?_, ?_, ?_⟩
          · rw [h1, m1]; simp
          · simp [m2, h2, encAll_append]
          · intro hs
            simp only [Bool.or_eq_true] at hs
            rcases hs with hs | hs
            · have := h3 hs; rw [this] at m1; simp [allBytes] at m1; exact m1.2
            · exact m3 hs
    | none =>
      rw [htmp] at h
      simp only at h
      cases hrest : rest0 with
      | nil =>
        rw [hrest] at h
        simp only at h
        injection h with h; injection h with _ h; subst h
        refine Or.inl ⟨hp, done, ?_, h2, ?_⟩
        · rw [h1, hrest]
        · intro _; rfl
      | cons c cs =>
        rw [hrest] at h
        simp only at h
        cases hr : pullTee ext (winOf c) cs (file0 ++ encChunk c.bytes) with
        | error e => rw [hr] at h; cases h
        | ok v =>
          obtain ⟨rr, cs', f', e⟩ := v
          rw [hr] at h
          obtain ⟨mid, m1, m2, m3, m4⟩ := pullTee_spec ext _ _ _ _ _ _ _ hr
          have hdone : all = (done ++ c.bytes :: mid) ++ allBytes cs' := by
            rw [h1, hrest]; simp [allBytes] at m1 ⊢; exact m1
          have hfile : f' = encAll (done ++ c.bytes :: mid) := by
            rw [m2, h2]; simp [encAll_append, encAll, List.append_assoc]
          have hs0 : sawEnd0 = true → False := by
            intro hs; have := h3 hs; rw [hrest] at this; cases this
          cases rr with
          | some bw =>
            simp only at h
            injection h with h; injection h with _ h; subst h
            exact Or.inl ⟨hp, _, hdone, hfile, fun hs => (hs0 hs).elim⟩
          | none =>
            simp only at h
            injection h with h; injection h with _ h; subst h
            refine Or.inl ⟨hp, _, hdone, hfile, ?_⟩
            intro hs
            simp only [Bool.or_eq_true] at hs
            rcases hs with hs | hs
            · exact (hs0 hs).elim
            · exact m3 hs
  · -- replay
    simp only at hp h1 hk
    subst hp
    have hp : Phase.replay = Phase.replay := rfl
    unfold cNext at h
    simp only at h
    have key : ∀ (rr : Except Err (Option (Bytes × Win) × List Item)),
        (∀ a is', rr = .ok (a, is') → ∃ k', is' = chunkItems (all.drop k')) →
        (match rr with
          | .error e => (.error e : Except Err (Option Bytes × CSt))
          | .ok (some (b, w), is) => .ok (some b, { phase := Phase.replay, rest := rest0, file := file0, items := is, tmp := some w, sawEnd := sawEnd0 })
          | .ok (none, is) => .ok (none, { phase := Phase.replay, rest := rest0, file := file0, items := is, tmp := none, sawEnd := sawEnd0 })) = .ok (r, s') → Good all s' := by
      intro rr hrr hh
      cases rr with
      | error e => cases hh
      | ok v =>
        obtain ⟨a, is'⟩ := v
        obtain ⟨k', hk'⟩ := hrr a is' rfl
        cases a with
        | some bw =>
          simp only at hh
          injection hh with hh; injection hh with _ hh; subst hh
          exact Or.inr ⟨hp, h1, k', hk'⟩
        | none =>
          simp only at hh
          injection hh with hh; injection hh with _ hh; subst hh
          exact Or.inr ⟨hp, h1, k', hk'⟩
    cases htmp : tmp0 with
    | some w =>
      rw [htmp] at h
      simp only at h
      refine key _ ?_ h
      intro a is' hr
      rw [hk] at hr
      obtain ⟨k', hk'⟩ := pullReplay_spec ext _ _ _ _ hr
      exact ⟨k + k', by rw [hk', List.drop_drop]⟩
    | none =>
      rw [htmp] at h
      simp only at h
      refine key _ ?_ h
      intro a is' hr
      rw [hk] at hr
      cases hd : all.drop k with
      | nil =>
        rw [hd] at hr
        simp [chunkItems] at hr
        exact ⟨k, by rw [hd, hr.2]; rfl⟩
      | cons b l =>
        rw [hd] at hr
        simp only [chunkItems, List.map_cons] at hr
        split at hr
        · cases hr
        · obtain ⟨k', hk'⟩ := pullReplay_spec ext _ _ _ _ hr
          refine ⟨k + 1 + k', ?_⟩
          rw [hk']
          have : all.drop (k + 1) = l := by
            rw [← List.drop_drop, hd]; rfl
          rw [← List.drop_drop, this]

theorem startReplay_encAll (all : List Bytes) (hl : ∀ b ∈ all, b.length < 2 ^ 64) :
    startReplay (encAll all) = .ok { phase := .replay, file := encAll all, items := chunkItems all } := by
  unfold startReplay
  simp [decodeFile_encAll all hl, readOverflows_chunkItems all hl]

/-- `BeforeFirst` in ANY reachable state starts a pass over all chunks of the base pass -/
theorem good_beforeFirst (all : List Bytes) (hl : ∀ b ∈ all, b.length < 2 ^ 64) (s : CSt) (hg : Good all s) :
    ∃ s', cBeforeFirst s = .ok s' ∧ s'.phase = .replay ∧ s'.file = encAll all ∧ s'.items = chunkItems all ∧ s'.tmp = none := by
  rcases hg with ⟨hp, done, h1, h2, _⟩ | ⟨hp, h1, k, _⟩
  · refine ⟨{ phase := .replay, file := encAll all, items := chunkItems all }, ?_, rfl, rfl, rfl, rfl⟩
    unfold cBeforeFirst
    rw [hp]
    simp only
    have : s.file ++ encAll (List.map (fun x => x.bytes) s.rest) = encAll all := by
      rw [h1, h2, encAll_append]; rfl
    rw [this]
    exact startReplay_encAll all hl
  · refine ⟨{ s with items := chunkItems all, tmp := none }, ?_, hp, h1, rfl, rfl⟩
    unfold cBeforeFirst
    rw [hp]
    simp only [rewindPos_val, List.drop_zero, h1, decodeFile_encAll all hl]

/-- a file left behind is the whole encoding -/
theorem good_close (all : List Bytes) (s : CSt) (hg : Good all s) (f : Bytes) (hc : cClose s = some f) : f = encAll all := by
  rcases hg with ⟨hp, done, h1, h2, h3⟩ | ⟨hp, h1, _⟩
  · unfold cClose at hc
    rw [hp] at hc
    simp only at hc
    split at hc
    · injection hc with hc
      rw [← hc, h1, h2, encAll_append]; rfl
    · split at hc
      · rename_i hs
        injection hc with hc
        have := h3 hs
        rw [this] at h1
        simp [allBytes] at h1
        rw [← hc, h2, h1]
      · cases hc
  · unfold cClose at hc
    rw [hp] at hc
    simp only at hc
    injection hc with hc
    rw [← hc, h1]

/-- with the destructor repair every object leaves a file -/
theorem close_total (hd : dtorDrains = true) (s : CSt) : ∃ f, cClose s = some f := by
  unfold cClose
  cases s.phase <;> simp [hd]

theorem good_replay_state (all : List Bytes) :
    Good all { phase := .replay, file := encAll all, items := chunkItems all } :=
  Or.inr ⟨rfl, rfl, 0, by simp⟩

/-- states of the objects that live on one cache file: the first object over the base pass `cs`, its
operations, and later objects that find the file the previous one left behind (`cs'`: whatever base
split the later object is given) -/
inductive CReach (cs : List Chunk) : CSt → Prop
  | first : CReach cs { phase := .preproc, rest := cs }
  | next {s s' : CSt} {ext : Extract} {r : Option Bytes} : CReach cs s → cNext ext s = .ok (r, s') → CReach cs s'
  | bf {s s' : CSt} : CReach cs s → cBeforeFirst s = .ok s' → CReach cs s'
  | reopen {s s' : CSt} {f : Bytes} (cs' : List Chunk) :
      CReach cs s → cClose s = some f → cOpen (some f) cs' = .ok s' → CReach cs s'

theorem good_of_reach (cs : List Chunk) (hl : ∀ b ∈ allBytes cs, b.length < 2 ^ 64) (s : CSt) (h : CReach cs s) :
    Good (allBytes cs) s := by
  induction h with
  | first => exact good_open cs
  | next _ hn ih => exact good_next _ _ _ _ _ ih hn
  | bf _ hb ih =>
    obtain ⟨s'', h1, h2, h3, h4, _⟩ := good_beforeFirst _ hl _ ih
    rw [h1] at hb
    injection hb with hb
    subst hb
    exact Or.inr ⟨h2, h3, 0, by simpa using h4⟩
  | reopen cs' _ hc ho ih =>
    have hf := good_close _ _ ih _ hc
    subst hf
    unfold cOpen at ho
    simp only at ho
    rw [startReplay_encAll _ hl] at ho
    injection ho with ho
    subst ho
    exact good_replay_state _

theorem upcoming_of_good (all : List Bytes) (s : CSt) (hg : Good all s) : ∃ k, upcoming s = all.drop k := by
  rcases hg with ⟨hp, done, h1, _, _⟩ | ⟨hp, _, k, hk⟩
  · refine ⟨done.length, ?_⟩
    unfold upcoming
    rw [hp, h1]
    simp
  · refine ⟨k, ?_⟩
    unfold upcoming
    rw [hp, hk]
    exact filterMap_chunkItems _

end DmlcModel.Wrap
