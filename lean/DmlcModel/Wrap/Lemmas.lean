/-
Lemmas for the Wrap model (C10): specification of the generated buffer-size expression, the cache file
format (encode / decode round trip), and the invariants of the CachedInputSplit machine.
-/
import DmlcModel.Wrap.Model

namespace DmlcModel.Wrap
open DmlcModel DmlcModel.Gen.Wrap

/-! ### generated items -/

/-- the replay buffer holds the chunk and the terminator `ExtractNextRecord` may store at `end` -/
theorem cacheBufWords_fits (len : Nat) (h : len < 2 ^ 64) : len + 1 ≤ 4 * cacheBufWords len := by
  unfold cacheBufWords u64
  omega

theorem lenBytes_agree : cacheLenBytesW = cacheLenBytesR := by decide
theorem lenBytesR_val : cacheLenBytesR = 8 := by decide
theorem rewindPos_val : cacheRewindPos = 0 := by decide

/-! ### little-endian length prefix -/

theorem leBytes_length (n v : Nat) : (leBytes n v).length = n := by
  induction n generalizing v with
  | zero => rfl
  | succ n ih => simp [leBytes, ih]

theorem leVal_leBytes (n v : Nat) (h : v < 256 ^ n) : leVal (leBytes n v) = v := by
  induction n generalizing v with
  | zero =>
    simp at h
    simp [leBytes, leVal, h]
  | succ n ih =>
    have h2 : v / 256 < 256 ^ n := by
      apply Nat.div_lt_of_lt_mul
      rw [Nat.pow_succ, Nat.mul_comm] at h
      exact h
    simp only [leBytes, leVal, UInt8.toNat_ofNat', ih _ h2, Nat.reducePow]
    omega

/-! ### cache file format -/

theorem encAll_append (a b : List Bytes) : encAll (a ++ b) = encAll a ++ encAll b := by
  induction a with
  | nil => rfl
  | cons x xs ih => simp [encAll, ih, List.append_assoc]

def chunkItems (cs : List Bytes) : List Item := cs.map Item.chunk

theorem decodeAll_enc (fuel : Nat) (b rest : Bytes) (hb : b.length < 2 ^ 64) :
    decodeAll (fuel + 1) (encChunk b ++ rest) = Item.chunk b :: decodeAll fuel rest := by
  have hlen : (leBytes 8 b.length).length = 8 := leBytes_length 8 b.length
  have htake : (leBytes 8 b.length ++ (b ++ rest)).take 8 = leBytes 8 b.length := by
    rw [List.take_left' hlen]
  have hdrop : (leBytes 8 b.length ++ (b ++ rest)).drop 8 = b ++ rest := by
    rw [List.drop_left' hlen]
  have hval : leVal (leBytes 8 b.length) = b.length := leVal_leBytes 8 b.length (by simpa using hb)
  have e : encChunk b ++ rest = leBytes 8 b.length ++ (b ++ rest) := by
    simp [encChunk, cacheLenBytesW, List.append_assoc]
  rw [e]
  simp only [decodeAll, lenBytesR_val, htake, hdrop, hlen, hval, crEof]
  simp

theorem decodeAll_encAll (cs : List Bytes) (h : ∀ c ∈ cs, c.length < 2 ^ 64) (fuel : Nat) (hf : cs.length < fuel) :
    decodeAll fuel (encAll cs) = chunkItems cs := by
  induction cs generalizing fuel with
  | nil =>
    cases fuel with
    | zero => omega
    | succ f => simp [encAll, decodeAll, chunkItems, crEof]
  | cons c cs ih =>
    cases fuel with
    | zero => omega
    | succ f =>
      simp only [encAll]
      rw [decodeAll_enc f c (encAll cs) (h c (by simp))]
      rw [ih (fun x hx => h x (by simp [hx])) f (by simp at hf; omega)]
      rfl

theorem encChunk_length (b : Bytes) : (encChunk b).length = 8 + b.length := by
  simp [encChunk, cacheLenBytesW, leBytes_length]

theorem encAll_length_ge (cs : List Bytes) : cs.length ≤ (encAll cs).length := by
  induction cs with
  | nil => simp [encAll]
  | cons c cs ih => simp [encAll, encChunk_length]; omega

theorem decodeFile_encAll (cs : List Bytes) (h : ∀ c ∈ cs, c.length < 2 ^ 64) :
    decodeFile (encAll cs) = chunkItems cs := by
  unfold decodeFile
  exact decodeAll_encAll cs h _ (by have := encAll_length_ge cs; omega)

theorem readOverflows_chunkItems (cs : List Bytes) (h : ∀ c ∈ cs, c.length < 2 ^ 64) :
    readOverflows (chunkItems cs) = false := by
  unfold readOverflows chunkItems
  rw [List.any_eq_false]
  intro it hit
  simp only [List.mem_map] at hit
  obtain ⟨c, hc, rfl⟩ := hit
  have := cacheBufWords_fits c.length (h c hc)
  simp
  omega

theorem replayWin_ok (b : Bytes) (h : b.length < 2 ^ 64) :
    replayWin b = .ok { cap := 4 * cacheBufWords b.length, rest := b } := by
  unfold replayWin
  have := cacheBufWords_fits b.length h
  simp
  omega

end DmlcModel.Wrap
