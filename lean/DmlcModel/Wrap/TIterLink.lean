/-
The ThreadedIter facts the wrapper theorems rest on (`TIterFacts`), discharged from the property theorems
of C07 / C08 (`DmlcModel.Props.C07`, `DmlcModel.Props.C08`): for every parameter set `P`.
-/
import DmlcModel.Wrap.Threaded
import DmlcModel.Props.C07
import DmlcModel.Props.C08

namespace DmlcModel.Wrap
open DmlcModel

theorem prodList_eq (src : Nat → Nat → TIter.SrcRes) (p n : Nat) : prodList src p n = TIter.prodList src p n := by
  induction n with
  | zero => rfl
  | succ n ih =>
    simp only [prodList, TIter.prodList, ih]
    congr 1

theorem titerFacts (P : TIter.Params) : TIterFacts P where
  order := fun _ h => Props.C07.C07_order h
  produced := fun _ h => by rw [prodList_eq]; exact (Props.C07.C07_produced h).1
  endSound := fun _ _ _ h hs hr ht => ⟨(Props.C07.C07_end_sound h hs hr ht).1, (Props.C07.C07_end_sound h hs hr ht).2.1⟩
  srcEnd := fun _ h he => Props.C07.C07_src_end h he
  noThrow := fun h1 h2 _ h => (Props.C07.C07_no_failure ⟨h1, fun p => by rw [h2 p]; simp⟩ h).1
  freshPass := fun _ _ h hs hx hr => ⟨(Props.C08.C08_fresh_pass h hs hx hr).1, (Props.C08.C08_fresh_pass h hs hx hr).2.1⟩
  cells := fun _ h => Props.C07.C07_cells h

end DmlcModel.Wrap
