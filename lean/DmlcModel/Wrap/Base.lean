/-
The abstract base split of the Wrap model (`BasePass`: chunk list of a pass over partition `(k, n)`)
instantiated with the Split model (`DmlcModel.Split`): the blobs a freshly constructed bare split
delivers when it is consumed to the end with `NextChunk`, each with the `data.size()` of the cell it was
loaded into.  Core Lean only (the driver links this).
-/
import DmlcModel.Wrap.Model
import DmlcModel.Split.Model

namespace DmlcModel.Wrap
open DmlcModel

/-- abnormal outcomes of the Split model seen through the wrappers: `check` = dmlc::Error, everything else
(undefined behaviour in the base split, exhausted iteration bound of the model) = `oob` -/
def convErr : Split.Err → Err
  | .check => .check
  | _ => .oob

/-- `Split.drainGo` with `NextChunk` at every call, also recording the capacity of the loaded cell -/
def chunkGo (F : Split.Fmt) : Nat → Split.St → List Chunk → Except Err (List Chunk)
  | 0, _, _ => .error .oob
  | fuel + 1, s, acc =>
    match Split.step F s .nextChunk with
    | (s', .blob b) => chunkGo F fuel s' (acc ++ [{ bytes := b, words := s'.base.chunk.dataWords }])
    | (_, .eof) => .ok acc
    | (_, .err e) => .error (convErr e)
    | (_, .done) => .error .oob

/-- the chunk sequence of part `k` of `n` of the split over `files` with a `w`-word buffer (`dw` = kBufferSize) -/
def splitPass (F : Split.Fmt) (files : List Bytes) (w dw : Nat) : BasePass := fun k n =>
  if n = 0 then .error .check
  else
    match Split.mkSt F files k n w false dw with
    | .error e => .error (convErr e)
    | .ok s => chunkGo F (Split.drainFuel s) s []

end DmlcModel.Wrap
