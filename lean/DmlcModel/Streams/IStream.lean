/-
`istream::InBuf` under the libstdc++ get protocol: invariant, effect of every operation, histories.
-/
import DmlcModel.Streams.Lemmas

namespace DmlcModel.Streams
open DmlcModel DmlcModel.Gen.Streams

/-- representation invariant of an `InBuf` -/
structure IInv (s : ISt) : Prop where
  len : s.ib.buf.length = s.ib.cap
  pos : 1 ≤ s.ib.cap
  small : s.ib.cap < M64
  ge : s.ib.gptr ≤ s.ib.egptr
  ee : s.ib.egptr ≤ s.ib.cap
  cnt : s.ib.count < M64

/-- the bytes sitting in the get area `[gptr, egptr)` -/
def ISt.buffered (s : ISt) : Bytes := peek s.ib.buf s.ib.gptr (s.ib.egptr - s.ib.gptr)

/-- everything a consumer is still going to see: the get area, then the rest of the stream -/
def ISt.ahead (s : ISt) : Bytes := s.buffered ++ s.src.data.drop s.src.cur

/-- effect of a get-side operation that delivers (consumes) the bytes `del` -/
structure IEff (s s' : ISt) (del : Bytes) : Prop where
  inv : IInv s'
  cap : s'.ib.cap = s.ib.cap
  data : s'.src.data = s.src.data
  ahead : s.ahead = del ++ s'.ahead
  mono : s.src.cur ≤ s'.src.cur
  count : s'.ib.count = u64 (s.ib.count + (s'.src.cur - s.src.cur))
  cons : (s'.src.cur - s.src.cur) + s.buffered.length = del.length + s'.buffered.length
  le : s.src.cur ≤ s.src.data.length → s'.src.cur ≤ s'.src.data.length

theorem IInv.buffered_length {s : ISt} (h : IInv s) : s.buffered.length = s.ib.egptr - s.ib.gptr := by
  have := h.len; have := h.ge; have := h.ee
  simp only [ISt.buffered, peek_length]; omega

theorem IEff.refl {s : ISt} (h : IInv s) : IEff s s [] :=
  ⟨h, rfl, rfl, by simp, Nat.le_refl _, by simp [u64_of_lt h.cnt], by simp, fun h => h⟩

theorem IEff.trans {s s1 s2 : ISt} {d1 d2 : Bytes} (h1 : IEff s s1 d1) (h2 : IEff s1 s2 d2) :
    IEff s s2 (d1 ++ d2) := by
  refine ⟨h2.inv, by rw [h2.cap, h1.cap], by rw [h2.data, h1.data], ?_, Nat.le_trans h1.mono h2.mono, ?_, ?_, ?_⟩
  · rw [h1.ahead, h2.ahead, List.append_assoc]
  · rw [h2.count, h1.count, u64_add_u64]
    have := h1.mono; have := h2.mono
    congr 1; omega
  · have := h1.cons; have := h2.cons; have := h1.mono; have := h2.mono
    simp only [List.length_append]; omega
  · intro h; exact h2.le (h1.le h)

theorem take_append_drop_length (l : Bytes) (n : Nat) : l.take n ++ l.drop (l.take n).length = l := by
  rw [List.length_take]
  by_cases h : n ≤ l.length
  · rw [Nat.min_eq_left h]; exact List.take_append_drop n l
  · rw [Nat.min_eq_right (by omega), List.drop_of_length_le (Nat.le_refl _), List.take_of_length_le (by omega)]
    simp

theorem create_iinv (b : Nat) (hb : b < M64) (data : Bytes) :
    IInv { ib := IBuf.create b, src := { data := data, cur := 0 } } ∧
    (ISt.ahead { ib := IBuf.create b, src := { data := data, cur := 0 } }) = data ∧
    (IBuf.create b).count = 0 := by
  have key : ∀ cap : Nat, 1 ≤ cap → cap < M64 →
      IInv { ib := { cap := cap, buf := zeros cap, gptr := 0, egptr := 0, count := 0 }, src := { data := data, cur := 0 } } :=
    fun cap h1 h2 => ⟨zeros_length cap, h1, h2, Nat.le_refl _, Nat.zero_le _, by simp⟩
  unfold IBuf.create
  simp only [ibZero_spec, ibZeroSize_spec]
  by_cases h0 : b = 0
  · simp only [h0, decide_true, if_true]
    exact ⟨key 2 (by omega) (by omega), by simp [ISt.ahead, ISt.buffered, peek], trivial⟩
  · simp only [h0, decide_false, if_false, Bool.false_eq_true]
    exact ⟨key b (by omega) hb, by simp [ISt.ahead, ISt.buffered, peek], trivial⟩

/-- consuming `k` buffered bytes by moving `gptr` -/
theorem advance_eff (s : ISt) (h : IInv s) (k : Nat) (hk : k ≤ s.ib.egptr - s.ib.gptr) :
    IEff s { s with ib := { s.ib with gptr := s.ib.gptr + k } } (peek s.ib.buf s.ib.gptr k) ∧
    peek s.ib.buf s.ib.gptr k = s.ahead.take k := by
  have hlen := h.len; have hge := h.ge; have hee := h.ee
  have hbl := h.buffered_length
  have hpk : peek s.ib.buf s.ib.gptr k = s.buffered.take k := by
    simp only [ISt.buffered, peek, List.take_take]; congr 1; omega
  have hsplit : s.buffered = s.buffered.take k ++
      peek s.ib.buf (s.ib.gptr + k) (s.ib.egptr - (s.ib.gptr + k)) := by
    have h1 : peek s.ib.buf (s.ib.gptr + k) (s.ib.egptr - (s.ib.gptr + k)) = s.buffered.drop k := by
      simp only [ISt.buffered, peek, List.drop_take, List.drop_drop]
      congr 1; omega
    rw [h1, List.take_append_drop]
  refine ⟨⟨⟨hlen, h.pos, h.small, by simp only; omega, hee, h.cnt⟩, rfl, rfl, ?_, Nat.le_refl _, ?_, ?_, fun h => h⟩, ?_⟩
  · simp only [ISt.ahead]
    rw [hpk, ← List.append_assoc]
    congr 1
  · simp [u64_of_lt h.cnt]
  · have : (peek s.ib.buf s.ib.gptr k).length = k := by rw [peek_length]; omega
    rw [this, hbl]
    simp only [ISt.buffered, peek_length, Nat.sub_self, Nat.zero_add]; omega
  · rw [hpk]; simp only [ISt.ahead]
    rw [List.take_append_of_le_length (by omega)]

/-- the byte under `gptr` is the head of what is ahead -/
theorem deref_gptr (s : ISt) (h : IInv s) (hlt : s.ib.gptr < s.ib.egptr) :
    ∃ c rest, s.ib.buf.drop s.ib.gptr = c :: rest ∧ s.ahead.head? = some c ∧ peek s.ib.buf s.ib.gptr 1 = [c] := by
  have hlen := h.len; have hee := h.ee
  have hg : s.ib.gptr < s.ib.buf.length := by omega
  refine ⟨s.ib.buf[s.ib.gptr], s.ib.buf.drop (s.ib.gptr + 1), List.drop_eq_getElem_cons hg, ?_, ?_⟩
  · simp only [ISt.ahead, ISt.buffered, peek, List.drop_eq_getElem_cons hg]
    have : s.ib.egptr - s.ib.gptr = (s.ib.egptr - s.ib.gptr - 1) + 1 := by omega
    rw [this, List.take_succ_cons]; rfl
  · simp only [peek, List.drop_eq_getElem_cons hg, List.take_succ_cons, List.take_zero]

theorem refilled_eff (s : ISt) (h : IInv s) (hg : s.ib.gptr = s.ib.egptr) :
    IEff s s.refilled [] ∧ (s.refilled.ib.gptr = s.refilled.ib.egptr → s.refilled.ahead = []) := by
  have hlen := h.len; have hge := h.ge; have hee := h.ee; have hsm := h.small; have hpos := h.pos
  have hbl : (peek s.src.data s.src.cur s.ib.cap).length ≤ s.ib.cap := by rw [peek_length]; omega
  have hne : ibNewEnd 0 (peek s.src.data s.src.cur s.ib.cap).length = (peek s.src.data s.src.cur s.ib.cap).length :=
    ibNewEnd_spec (by omega)
  have hgp : s.refilled.ib.gptr = 0 := rfl
  have hep : s.refilled.ib.egptr = (peek s.src.data s.src.cur s.ib.cap).length := by
    simp only [ISt.refilled, srcRead, ibReadSize_spec, hne]
  have hbf : s.refilled.ib.buf = poke s.ib.buf 0 (peek s.src.data s.src.cur s.ib.cap) := by
    simp only [ISt.refilled, srcRead, ibReadSize_spec]
  have hcur : s.refilled.src.cur = s.src.cur + (peek s.src.data s.src.cur s.ib.cap).length := by
    simp only [ISt.refilled, srcRead, ibReadSize_spec]
  have hdat : s.refilled.src.data = s.src.data := rfl
  have hcnt : s.refilled.ib.count = u64 (s.ib.count + (peek s.src.data s.src.cur s.ib.cap).length) := by
    simp only [ISt.refilled, srcRead, ibReadSize_spec, ibCount_spec]
  have hbuf : s.refilled.buffered = peek s.src.data s.src.cur s.ib.cap := by
    simp only [ISt.buffered, hgp, hep, hbf, peek, List.drop_zero, Nat.sub_zero]
    have := poke_take s.ib.buf 0 ((s.src.data.drop s.src.cur).take s.ib.cap) (Nat.zero_le _)
    simpa [peek] using this
  have hold : s.buffered = [] := by simp [ISt.buffered, hg, peek]
  have hah : s.refilled.ahead = s.src.data.drop s.src.cur := by
    simp only [ISt.ahead, hbuf, hdat, hcur]
    have := take_append_drop_length (s.src.data.drop s.src.cur) s.ib.cap
    simp only [List.drop_drop] at this
    simpa [peek] using this
  refine ⟨⟨⟨?_, hpos, hsm, by rw [hgp]; exact Nat.zero_le _, by rw [hep]; exact hbl, by rw [hcnt]; exact u64_lt _⟩,
    rfl, rfl, ?_, by rw [hcur]; omega, ?_, ?_, ?_⟩, ?_⟩
  · rw [hbf, poke_length_fit _ _ _ (by omega)]; exact hlen
  · rw [hah]; simp [ISt.ahead, hold]
  · rw [hcnt, hcur]; congr 2; omega
  · rw [hbuf, hold, hcur]; simp
  · intro hle; rw [hcur, hdat]; simp only [peek_length]; omega
  · intro he
    rw [hgp, hep] at he
    have hnil : peek s.src.data s.src.cur s.ib.cap = [] := List.eq_nil_of_length_eq_zero he.symm
    have hl := congrArg List.length hnil
    simp only [peek_length, List.length_nil] at hl
    rw [hah]; exact List.drop_of_length_le (by omega)

/-- the refill part of `underflow()` -/
theorem refill_eff (s : ISt) (h : IInv s) :
    ∃ s1, s.refill = some s1 ∧ IEff s s1 [] ∧ (s1.ib.gptr = s1.ib.egptr → s1.ahead = []) := by
  unfold ISt.refill
  simp only [ibNeedsRefill_spec, ibReadSize_spec, Nat.le_refl, if_true]
  by_cases hg : s.ib.gptr = s.ib.egptr
  · rw [if_pos (by simpa using hg)]
    obtain ⟨h1, h2⟩ := refilled_eff s h hg
    exact ⟨_, rfl, h1, h2⟩
  · rw [if_neg (by simpa using hg)]
    exact ⟨s, rfl, IEff.refl h, fun he => absurd he hg⟩

/-- `underflow()`: refills if the get area is empty; returns the next character without consuming it -/
theorem underflow_eff (s : ISt) (h : IInv s) :
    ∃ s1, s.underflow = some (s1, s.ahead.head?) ∧ IEff s s1 [] ∧
      (s.ahead ≠ [] → s1.ib.gptr < s1.ib.egptr) := by
  obtain ⟨s1, hr, heff, hemp⟩ := refill_eff s h
  have hah : s.ahead = s1.ahead := by simpa using heff.ahead
  unfold ISt.underflow
  rw [hr]
  simp only [ibIsEmpty_spec]
  by_cases hg : s1.ib.gptr = s1.ib.egptr
  · have := hemp hg
    simp only [hg, decide_true, if_true, hah, this, List.head?_nil]
    exact ⟨s1, rfl, heff, fun hne => absurd rfl hne⟩
  · have hlt : s1.ib.gptr < s1.ib.egptr := by have := heff.inv.ge; omega
    obtain ⟨c, rest, hd, hhead, _⟩ := deref_gptr s1 heff.inv hlt
    simp only [hg, decide_false, if_false, Bool.false_eq_true, hd, hah, hhead]
    exact ⟨s1, rfl, heff, fun _ => hlt⟩

/-- `uflow()` = `sbumpc()` on an empty get area: next character, consumed -/
theorem uflow_eff (s : ISt) (h : IInv s) :
    ∃ s2, s.uflow = some (s2, s.ahead.head?) ∧ IEff s s2 (s.ahead.take 1) := by
  obtain ⟨s1, hu, heff, hlt⟩ := underflow_eff s h
  have hah : s.ahead = s1.ahead := by simpa using heff.ahead
  unfold ISt.uflow
  rw [hu]
  cases hA : s.ahead with
  | nil =>
    simp only [List.head?_nil, List.take_nil]
    exact ⟨s1, rfl, heff⟩
  | cons a rest =>
    have hlt' := hlt (by rw [hA]; simp)
    obtain ⟨c, r, hd, hhead, hpk⟩ := deref_gptr s1 heff.inv hlt'
    have hca : c = a := by rw [← hah, hA] at hhead; simpa using hhead.symm
    subst hca
    simp only [List.head?_cons, hd]
    obtain ⟨hadv, hpk2⟩ := advance_eff s1 heff.inv 1 (by omega)
    refine ⟨_, rfl, ?_⟩
    have := heff.trans hadv
    rw [hpk] at this
    simpa using this

theorem sgetc_eff (s : ISt) (h : IInv s) :
    ∃ s1, s.sgetc = some (s1, s.ahead.head?) ∧ IEff s s1 [] := by
  unfold ISt.sgetc
  by_cases hlt : s.ib.gptr < s.ib.egptr
  · obtain ⟨c, r, hd, hhead, _⟩ := deref_gptr s h hlt
    simp only [hlt, if_true, hd, hhead]
    exact ⟨s, rfl, IEff.refl h⟩
  · simp only [hlt, if_false]
    obtain ⟨s1, hu, heff, _⟩ := underflow_eff s h
    exact ⟨s1, hu, heff⟩

theorem sbumpc_eff (s : ISt) (h : IInv s) :
    ∃ s1, s.sbumpc = some (s1, s.ahead.head?) ∧ IEff s s1 (s.ahead.take 1) := by
  unfold ISt.sbumpc
  by_cases hlt : s.ib.gptr < s.ib.egptr
  · obtain ⟨c, r, hd, hhead, hpk⟩ := deref_gptr s h hlt
    obtain ⟨hadv, hpk2⟩ := advance_eff s h 1 (by omega)
    simp only [hlt, if_true, hd, hhead]
    refine ⟨_, rfl, ?_⟩
    rw [← hpk2]; exact hadv
  · simp only [hlt, if_false]
    exact uflow_eff s h

theorem xsgetnGo_eff : ∀ (fuel : Nat) (s : ISt) (want : Nat) (acc : Bytes), IInv s → want < fuel →
    ∃ s', ISt.xsgetnGo fuel s want acc = some (s', acc ++ s.ahead.take want) ∧ IEff s s' (s.ahead.take want) := by
  intro fuel
  induction fuel with
  | zero => intro s want acc _ hf; omega
  | succ fuel ih =>
    intro s want acc h hf
    have hlen := h.len; have hge := h.ge; have hee := h.ee
    unfold ISt.xsgetnGo
    by_cases hw : want = 0
    · subst hw
      simp only [if_true, List.take_zero, List.append_nil]
      exact ⟨s, rfl, IEff.refl h⟩
    · have hng : ¬ s.ib.egptr < s.ib.gptr := by omega
      have hel : s.ib.egptr ≤ s.ib.buf.length := by omega
      simp only [hw, if_false, hng, hel, if_true]
      by_cases hfit : want ≤ s.ib.egptr - s.ib.gptr
      · obtain ⟨hadv, hpk⟩ := advance_eff s h want hfit
        simp only [hfit, if_true]
        refine ⟨_, by rw [hpk], ?_⟩
        rw [← hpk]; exact hadv
      · simp only [hfit, if_false]
        obtain ⟨hadv, hpk⟩ := advance_eff s h (s.ib.egptr - s.ib.gptr) (Nat.le_refl _)
        have hg' : s.ib.gptr + (s.ib.egptr - s.ib.gptr) = s.ib.egptr := by omega
        rw [hg'] at hadv
        obtain ⟨s1, hu, heff1⟩ := uflow_eff _ hadv.inv
        rw [hu]
        have hA := hadv.ahead
        have hbl : (peek s.ib.buf s.ib.gptr (s.ib.egptr - s.ib.gptr)).length = s.ib.egptr - s.ib.gptr := by
          rw [peek_length]; omega
        cases hA0 : (ISt.ahead { s with ib := { s.ib with gptr := s.ib.egptr } }) with
        | nil =>
          simp only [List.head?_nil]
          rw [hA0, List.append_nil] at hA
          have htk : s.ahead.take want = peek s.ib.buf s.ib.gptr (s.ib.egptr - s.ib.gptr) := by
            rw [hA]; exact List.take_of_length_le (by rw [hbl]; omega)
          refine ⟨s1, by rw [htk], ?_⟩
          have := hadv.trans heff1
          rw [hA0] at this
          rw [htk]; simpa using this
        | cons c rest =>
          simp only [List.head?_cons]
          rw [hA0] at heff1 hA
          have hwl : want - (s.ib.egptr - s.ib.gptr) - 1 < fuel := by omega
          obtain ⟨s', hrun, heff2⟩ := ih s1 (want - (s.ib.egptr - s.ib.gptr) - 1)
            (acc ++ peek s.ib.buf s.ib.gptr (s.ib.egptr - s.ib.gptr) ++ [c]) heff1.inv hwl
          have hrest : rest = s1.ahead := by
            have := heff1.ahead
            rw [hA0] at this
            simpa using this
          have htk : s.ahead.take want = peek s.ib.buf s.ib.gptr (s.ib.egptr - s.ib.gptr) ++ [c] ++
              s1.ahead.take (want - (s.ib.egptr - s.ib.gptr) - 1) := by
            rw [hA, List.take_append, hbl, List.take_of_length_le (by rw [hbl]; omega), hrest]
            have : want - (s.ib.egptr - s.ib.gptr) = (want - (s.ib.egptr - s.ib.gptr) - 1) + 1 := by omega
            rw [this, List.take_succ_cons]
            simp
          refine ⟨s', ?_, ?_⟩
          · rw [hrun, htk]; simp [List.append_assoc]
          · have := (hadv.trans heff1).trans heff2
            rw [htk]; simpa [List.append_assoc] using this

theorem xsgetn_eff (s : ISt) (h : IInv s) (n : Nat) :
    ∃ s', s.xsgetn n = some (s', s.ahead.take n) ∧ IEff s s' (s.ahead.take n) := by
  obtain ⟨s', h1, h2⟩ := xsgetnGo_eff (n + 1) s n [] h (by omega)
  rw [List.nil_append] at h1
  exact ⟨s', h1, h2⟩

/-! ### specification of the consumer side: the bytes ahead are handed out in order -/

def ispec (rest : Bytes) : IOp → Bytes × IOut
  | .get => (rest.drop 1, .char rest.head?)
  | .peek => (rest, .char rest.head?)
  | .read n => (rest.drop n, .block (rest.take n))
  | .useek _ => (rest, .unit)

def ispecRun : Bytes → List IOp → List IOut × Bytes
  | rest, [] => ([], rest)
  | rest, op :: ops => ((ispec rest op).2 :: (ispecRun (ispec rest op).1 ops).1, (ispecRun (ispec rest op).1 ops).2)

def IOp.isSeek : IOp → Bool
  | .useek _ => true
  | _ => false

/-- the bytes an output hands to the caller -/
def IOut.delivered : IOp → IOut → Bytes
  | .get, .char (some c) => [c]
  | .read _, .block bs => bs
  | _, _ => []

/-- one extraction (not a seek of the wrapped stream) agrees with the specification -/
theorem istep_eff (s : ISt) (h : IInv s) (op : IOp) (hop : op.isSeek = false) :
    ∃ s', s.step op = some (s', (ispec s.ahead op).2) ∧ s'.ahead = (ispec s.ahead op).1 ∧
      IEff s s' (IOut.delivered op (ispec s.ahead op).2) := by
  cases op with
  | get =>
    obtain ⟨s1, h1, h2⟩ := sbumpc_eff s h
    refine ⟨s1, by simp only [ISt.step, h1, ispec], ?_, ?_⟩
    · have := h2.ahead
      simp only [ispec]
      cases hA : s.ahead with
      | nil => rw [hA] at this; simpa using this.symm
      | cons a r => rw [hA] at this; simpa using this.symm
    · simp only [ispec]
      cases hA : s.ahead with
      | nil => rw [hA] at h2; simpa [IOut.delivered] using h2
      | cons a r => rw [hA] at h2; simpa [IOut.delivered] using h2
  | peek =>
    obtain ⟨s1, h1, h2⟩ := sgetc_eff s h
    refine ⟨s1, by simp only [ISt.step, h1, ispec], ?_, ?_⟩
    · have := h2.ahead; simpa [ispec] using this.symm
    · simpa [ispec, IOut.delivered] using h2
  | read n =>
    obtain ⟨s1, h1, h2⟩ := xsgetn_eff s h n
    refine ⟨s1, by simp only [ISt.step, h1, ispec], ?_, ?_⟩
    · have := h2.ahead
      simp only [ispec]
      have h3 := List.take_append_drop n s.ahead
      exact (List.append_cancel_left (h3.trans this)).symm
    · simpa [ispec, IOut.delivered] using h2
  | useek p => simp [IOp.isSeek] at hop

/-- a seek of the wrapped stream behind the adaptor's back keeps the adaptor consistent -/
theorem iseek_inv (s : ISt) (h : IInv s) (p : Nat) :
    ∃ s', s.step (.useek p) = some (s', .unit) ∧ IInv s' ∧ s'.ib = s.ib ∧ s'.src.data = s.src.data := by
  refine ⟨_, rfl, ⟨h.len, h.pos, h.small, h.ge, h.ee, h.cnt⟩, rfl, ?_⟩
  simp only [Arr.step, Flavor.plain]
  by_cases hp : p < 18446744073709551616 <;> simp [hp]

/-- no history ever touches memory outside `buffer_` -/
theorem irun_total : ∀ (ops : List IOp) (s : ISt), IInv s → ∃ s' outs, irun s ops = some (s', outs) ∧ IInv s' := by
  intro ops
  induction ops with
  | nil => intro s h; exact ⟨s, [], rfl, h⟩
  | cons op ops ih =>
    intro s h
    by_cases hs : op.isSeek = true
    · cases op with
      | useek p =>
        obtain ⟨s1, h1, h2, _⟩ := iseek_inv s h p
        obtain ⟨s2, o2, h3, h4⟩ := ih s1 h2
        exact ⟨s2, IOut.unit :: o2, by simp only [irun, h1, h3], h4⟩
      | get => simp [IOp.isSeek] at hs
      | peek => simp [IOp.isSeek] at hs
      | read n => simp [IOp.isSeek] at hs
    · obtain ⟨s1, h1, _, h2⟩ := istep_eff s h op (by simpa using hs)
      obtain ⟨s2, o2, h3, h4⟩ := ih s1 h2.inv
      exact ⟨s2, (ispec s.ahead op).2 :: o2, by simp only [irun, h1, h3], h4⟩

/-- counters of a history: bytes pulled from the stream since the start state -/
structure ICount (s s' : ISt) : Prop where
  mono : s.src.cur ≤ s'.src.cur
  count : s'.ib.count = u64 (s.ib.count + (s'.src.cur - s.src.cur))
  le : s.src.cur ≤ s.src.data.length → s'.src.cur ≤ s'.src.data.length
  data : s'.src.data = s.src.data

/-- histories without seeks of the wrapped stream agree with the specification -/
theorem irun_spec : ∀ (ops : List IOp) (s : ISt), IInv s → (∀ op ∈ ops, op.isSeek = false) →
    ∃ s', irun s ops = some (s', (ispecRun s.ahead ops).1) ∧ s'.ahead = (ispecRun s.ahead ops).2 ∧
      IInv s' ∧ ICount s s' := by
  intro ops
  induction ops with
  | nil => intro s h _; exact ⟨s, rfl, rfl, h, ⟨Nat.le_refl _, by simp [u64_of_lt h.cnt], fun h => h, rfl⟩⟩
  | cons op ops ih =>
    intro s h hops
    obtain ⟨s1, h1, hA, heff⟩ := istep_eff s h op (hops op (by simp))
    obtain ⟨s2, h3, hA2, hinv, hc⟩ := ih s1 heff.inv (fun o ho => hops o (by simp [ho]))
    refine ⟨s2, ?_, ?_, hinv, ?_⟩
    · simp only [irun, h1, h3, ispecRun, hA]
    · simp only [ispecRun]; rw [← hA]; exact hA2
    · refine ⟨Nat.le_trans heff.mono hc.mono, ?_, fun hl => hc.le (heff.le hl), by rw [hc.data, heff.data]⟩
      rw [hc.count, heff.count, u64_add_u64]
      have := heff.mono; have := hc.mono
      congr 1; omega

end DmlcModel.Streams
