/-
Specification lemmas for the generated Streams kernels (`Gen/Streams.lean`) -- stated for the
*repaired* source: if a C++ expression changes (or the check runs against the pinned tree, where the
bounds tests are `curr_ptr_ + size <= buffer_size_`) the generated definitions change and these
lemmas, hence every theorem downstream, stop compiling -- and list facts about `poke` / `peek`.
-/
import DmlcModel.Streams.Model

namespace DmlcModel.Streams
open DmlcModel DmlcModel.Gen.Streams

/-- 2^64 -/
scoped notation "M64" => (18446744073709551616 : Nat)

theorem u64_of_lt {n : Nat} (h : n < M64) : u64 n = n := by unfold u64; omega
theorem u64_lt (n : Nat) : u64 n < M64 := by unfold u64; omega
theorem u64_add_u64 (a b : Nat) : u64 (u64 a + b) = u64 (a + b) := by unfold u64; omega
theorem sub64_of_le {a b : Nat} (ha : a < M64) (hb : b ≤ a) : sub64 a b = a - b := by unfold sub64; omega

/-! ### MemoryFixedSizeStream -/

theorem fxReadOk_spec (cur size bs : Nat) : fxReadOk cur size bs = decide (cur ≤ bs) := by
  unfold fxReadOk; exact Eq.refl _

theorem fxReadN_spec {cur size bs : Nat} (h : cur ≤ bs) (hb : bs < M64) :
    fxReadN cur size bs = min (bs - cur) size := by
  unfold fxReadN; rw [sub64_of_le hb h]

theorem fxReadCopies_spec (n : Nat) : fxReadCopies n = decide (n ≠ 0) := by
  unfold fxReadCopies; by_cases h : n = 0 <;> simp [h]

theorem fxReadCur_spec {cur n : Nat} (h : cur + n < M64) : fxReadCur cur n = cur + n := u64_of_lt h
theorem fxReadRet_spec (n : Nat) : fxReadRet n = n := by
  unfold fxReadRet; exact Eq.refl _
theorem fxWriteEmpty_spec (n : Nat) : fxWriteEmpty n = decide (n = 0) := by
  unfold fxWriteEmpty; by_cases h : n = 0 <;> simp [h]

/-- the repaired bounds test of `Write`: true exactly when the range fits, without wrap-around -/
theorem fxWriteOk_spec {cur size bs : Nat} (hb : bs < M64) :
    fxWriteOk cur size bs = decide (cur + size ≤ bs) := by
  unfold fxWriteOk
  by_cases h : cur ≤ bs
  · rw [sub64_of_le hb h]
    by_cases h2 : size ≤ bs - cur
    · have : cur + size ≤ bs := by omega
      simp [h, h2, this]
    · have : ¬ cur + size ≤ bs := by omega
      simp [h, h2, this]
  · have : ¬ cur + size ≤ bs := by omega
    simp [h, this]

theorem fxWriteCur_spec {cur n : Nat} (h : cur + n < M64) : fxWriteCur cur n = cur + n := u64_of_lt h
theorem fxWriteRet_spec (n : Nat) : fxWriteRet n = n := by
  unfold fxWriteRet; exact Eq.refl _
theorem fxSeek_spec {p : Nat} (h : p < M64) : fxSeek p = p := u64_of_lt h

/-! ### MemoryStringStream -/

theorem msReadOk_spec (cur len : Nat) : msReadOk cur len = decide (cur ≤ len) := by
  unfold msReadOk; exact Eq.refl _

theorem msReadN_spec {cur size len : Nat} (h : cur ≤ len) (hb : len < M64) :
    msReadN cur size len = min (len - cur) size := by
  unfold msReadN; rw [sub64_of_le hb h]

theorem msReadCopies_spec (n : Nat) : msReadCopies n = decide (n ≠ 0) := by
  unfold msReadCopies; by_cases h : n = 0 <;> simp [h]

theorem msReadCur_spec {cur n : Nat} (h : cur + n < M64) : msReadCur cur n = cur + n := u64_of_lt h
theorem msReadRet_spec (n : Nat) : msReadRet n = n := by
  unfold msReadRet; exact Eq.refl _
theorem msWriteEmpty_spec (n : Nat) : msWriteEmpty n = decide (n = 0) := by
  unfold msWriteEmpty; by_cases h : n = 0 <;> simp [h]

/-- the added overflow test of `Write`: true exactly when the end position is representable -/
theorem msWriteOk_spec {cur size len : Nat} (hc : cur < M64) (hs : size < M64) :
    msWriteOk cur size len = decide (cur + size < M64) := by
  unfold msWriteOk u64
  by_cases h : cur + size < M64
  · have : (cur + size) % 18446744073709551616 ≥ cur := by omega
    simp [h, this]
  · have : ¬ (cur + size) % 18446744073709551616 ≥ cur := by omega
    simp [h, this]

theorem msWriteGrows_spec {cur size len : Nat} (h : cur + size < M64) :
    msWriteGrows cur size len = decide (len < cur + size) := by
  unfold msWriteGrows; rw [u64_of_lt h]

theorem msWriteNewLen_spec {cur n : Nat} (h : cur + n < M64) : msWriteNewLen cur n = cur + n := u64_of_lt h
theorem msWriteCur_spec {cur n : Nat} (h : cur + n < M64) : msWriteCur cur n = cur + n := u64_of_lt h
theorem msWriteRet_spec (n : Nat) : msWriteRet n = n := by
  unfold msWriteRet; exact Eq.refl _
theorem msSeek_spec {p : Nat} (h : p < M64) : msSeek p = p := u64_of_lt h

/-! ### FileStream -/

theorem fsSeekOff_spec {p : Nat} (h : p < M64) : fsSeekOff p = p := u64_of_lt h
theorem fsWriteRet_spec (n : Nat) : fsWriteRet n = 0 := by
  unfold fsWriteRet; exact Eq.refl _

/-! ### OutBuf / InBuf -/

theorem obZero_spec (n : Nat) : obZero n = decide (n = 0) := by
  unfold obZero; by_cases h : n = 0 <;> simp [h]
theorem obZeroSize_spec : obZeroSize = 2 := by
  unfold obZeroSize; exact Eq.refl _
theorem obPutEnd_spec {cap : Nat} (h1 : 1 ≤ cap) (h : cap < M64) : obPutEnd cap = cap - 1 := sub64_of_le h h1
theorem obSyncN_spec {p : Nat} (h : p < M64) : obSyncN p 0 = p := by unfold obSyncN sub64; omega
theorem obSyncLen_spec (n : Nat) : obSyncLen n = n := by
  unfold obSyncLen; exact Eq.refl _
theorem obOvN_spec {p : Nat} (h : p < M64) : obOvN p 0 = p := by unfold obOvN sub64; omega
theorem obOvEofLen_spec (n : Nat) : obOvEofLen n = n := by
  unfold obOvEofLen; exact Eq.refl _
theorem obOvLen_spec {n : Nat} (h : n + 1 < M64) : obOvLen n = n + 1 := u64_of_lt h
theorem obSyncCount_spec (c n : Nat) : obSyncCount c n = u64 (c + n) := by
  unfold obSyncCount; exact Eq.refl _
theorem obOvEofCount_spec (c n : Nat) : obOvEofCount c n = u64 (c + n) := by
  unfold obOvEofCount; exact Eq.refl _
theorem obOvCount_spec {c n : Nat} (h : n + 1 < M64) : obOvCount c n = u64 (c + (n + 1)) := by
  unfold obOvCount; rw [u64_of_lt h]
theorem obOvIsEof_spec (c e : Nat) : obOvIsEof c e = decide (c = e) := by
  unfold obOvIsEof; by_cases h : c = e <;> simp [h]

/-- `pbump(-static_cast<int>(n))` moves the put pointer back by `n` (for `n < 2^31`) -/
theorem bump_neg {p n : Nat} (hn : n < 2147483648) (hp : n ≤ p) (hp2 : p < 2147483648) :
    bump p (sub32 0 (u32 n)) = some (p - n) := by
  by_cases h0 : n = 0
  · have hd : sub32 0 (u32 n) = 0 := by unfold sub32 u32; omega
    rw [hd, h0]; unfold bump
    rw [if_pos (by omega)]; rfl
  · have hd : sub32 0 (u32 n) = 4294967296 - n := by unfold sub32 u32; omega
    rw [hd]; unfold bump
    rw [if_neg (by omega), if_pos (by omega)]
    exact congrArg some (by omega)

theorem obSyncBump_spec (n : Nat) : obSyncBump n = sub32 0 (u32 n) := by
  unfold obSyncBump; exact Eq.refl _
theorem obOvBump_spec (n : Nat) : obOvBump n = sub32 0 (u32 n) := by
  unfold obOvBump; exact Eq.refl _

theorem ibZero_spec (n : Nat) : ibZero n = decide (n = 0) := by
  unfold ibZero; by_cases h : n = 0 <;> simp [h]
theorem ibZeroSize_spec : ibZeroSize = 2 := by
  unfold ibZeroSize; exact Eq.refl _
theorem ibNeedsRefill_spec (g e : Nat) : ibNeedsRefill g e = decide (g = e) := by
  unfold ibNeedsRefill; by_cases h : g = e <;> simp [h]
theorem ibIsEmpty_spec (g e : Nat) : ibIsEmpty g e = decide (g = e) := by
  unfold ibIsEmpty; by_cases h : g = e <;> simp [h]
theorem ibReadSize_spec (cap : Nat) : ibReadSize cap = cap := by
  unfold ibReadSize; exact Eq.refl _
theorem ibNewEnd_spec {sz : Nat} (h : sz < M64) : ibNewEnd 0 sz = sz := by
  unfold ibNewEnd; rw [Nat.zero_add]; exact u64_of_lt h
theorem ibCount_spec (c n : Nat) : ibCount c n = u64 (c + n) := by
  unfold ibCount; exact Eq.refl _

theorem isSetStreamRdbuf_spec : isSetStreamRdbuf = true := by unfold isSetStreamRdbuf; exact Eq.refl _
theorem osSetStreamRdbuf_spec : osSetStreamRdbuf = true := by unfold osSetStreamRdbuf; exact Eq.refl _

/-! ### lists -/

theorem zeros_length (n : Nat) : (zeros n).length = n := by simp [zeros]

theorem peek_length (buf : Bytes) (a n : Nat) : (peek buf a n).length = min n (buf.length - a) := by
  simp [peek]

theorem peek_min (buf : Bytes) (a n : Nat) : peek buf a (min (buf.length - a) n) = peek buf a n := by
  unfold peek; rw [List.take_eq_take_iff]; simp only [List.length_drop]; omega

theorem peek_nil_of_le (buf : Bytes) (a n : Nat) (h : buf.length ≤ a) : peek buf a n = [] := by
  unfold peek; rw [List.drop_of_length_le h]; simp

theorem peek_zero (buf : Bytes) (a : Nat) : peek buf a 0 = [] := by simp [peek]

theorem poke_length_fit (buf : Bytes) (a : Nat) (src : Bytes) (h : a + src.length ≤ buf.length) :
    (poke buf a src).length = buf.length := by
  simp only [poke, List.length_append, List.length_take, List.length_drop]; omega

theorem poke_nil (buf : Bytes) (a : Nat) : poke buf a [] = buf := by simp [poke]

/-- the bytes just stored are what the buffer holds in front of the new cursor -/
theorem poke_take (buf : Bytes) (a : Nat) (src : Bytes) (h : a ≤ buf.length) :
    (poke buf a src).take (a + src.length) = buf.take a ++ src := by
  unfold poke
  rw [List.append_assoc, List.take_append]
  have h1 : (List.take a buf).length = a := by simp [List.length_take]; omega
  rw [h1, List.take_of_length_le (by simp [h1])]
  congr 1
  rw [List.take_append]
  simp

theorem poke_take_before (buf : Bytes) (a : Nat) (src : Bytes) (h : a ≤ buf.length) :
    (poke buf a src).take a = buf.take a := by
  unfold poke
  rw [List.append_assoc, List.take_append]
  have h1 : (List.take a buf).length = a := by simp [List.length_take]; omega
  rw [h1, List.take_of_length_le (by simp [h1])]; simp

theorem take_append_zeros (buf : Bytes) (c k : Nat) (h : c - buf.length ≤ k) :
    (buf ++ zeros k).take c = buf.take c ++ zeros (c - buf.length) := by
  rw [List.take_append]; congr 1
  simp only [zeros, List.take_replicate]; congr 1; omega

end DmlcModel.Streams
