/-
Executable model of the stream classes of C19:

* `MemoryFixedSizeStream`, `MemoryStringStream` (include/dmlc/memory_io.h),
* `io::FileStream` over stdio (src/io/local_filesys.cc) -- the stdio calls are a *trusted contract*
  (`fread`/`fwrite`/`fseek`/`ftell` on a byte array with a file position),
* `ostream::OutBuf` / `istream::InBuf` (include/dmlc/io.h) under a model of the libstdc++
  `std::streambuf` driver (`sputc`, `xsputn`, `pubsync`, `sgetc`, `sbumpc`, `uflow`, `xsgetn`) -- that
  driver is a *trusted contract* as well (listed in the trusted base of C19).

All cursor / size arithmetic is 64-bit and comes from the generated file `Gen/Streams.lean`
(`u64`, `sub64` wrap exactly like `size_t`).  A `memcpy` whose range is not inside the buffer it
addresses is the outcome `ub` (printed `ub:oob`); whether it can happen is decided by the guards of
the *source the Gen file was generated from*, so this model follows the pinned as well as the
repaired code.  Core Lean only.
-/
import DmlcModel.Basic
import DmlcModel.Gen.Streams

namespace DmlcModel.Streams
open DmlcModel

/-! ## common vocabulary -/

inductive Err
  | check    -- a `CHECK` failed: `dmlc::Error`
  | range    -- `std::length_error` from `std::string::resize`
  deriving Repr, DecidableEq

/-- one call of the `SeekStream` interface -/
inductive Op
  | read (n : Nat)        -- `Read(ptr, n)`
  | write (bs : Bytes)    -- `Write(ptr, bs.length)` with `ptr[0..)` = `bs`
  | seek (p : Nat)        -- `Seek(p)`
  | tell                  -- `Tell()`
  deriving Repr, DecidableEq

/-- what the caller observes -/
inductive Out
  | bytes (ret : Nat) (bs : Bytes)   -- `Read` returned `ret` after copying `bs` to the destination
  | count (n : Nat)                  -- `Write` returned `n`
  | unit                             -- `Seek` returned
  | pos (p : Nat)                    -- `Tell` returned `p`
  | err (e : Err)                    -- an exception left the call, the object is unchanged
  | ub                               -- a `memcpy` left the buffer (undefined behaviour)
  | dead                             -- an earlier call hit `ub`: nothing can be said any more
  deriving Repr, DecidableEq

def Out.isUb : Out → Bool
  | .ub => true
  | _ => false

def zeros (n : Nat) : Bytes := List.replicate n 0

/-- `memcpy(base + at, src, src.length)` into the byte array `buf` (if `at + src.length` exceeds the
array the result is longer: used for the growing stores, never for a fixed buffer) -/
def poke (buf : Bytes) (at_ : Nat) (src : Bytes) : Bytes :=
  buf.take at_ ++ src ++ buf.drop (at_ + src.length)

/-- the `n` bytes (fewer at the end) at offset `at_` -/
def peek (buf : Bytes) (at_ n : Nat) : Bytes := (buf.drop at_).take n

/-- the byte range `[at_, at_ + n)` lies inside an object of `len` bytes (mathematical integers) -/
def inBounds (len at_ n : Nat) : Bool := decide (at_ ≤ len) && decide (n ≤ len - at_)

/-- run a history; after `ub` every later call is `dead` -/
def run {σ : Type} (step : σ → Op → Out × σ) : σ → List Op → List Out × σ
  | s, [] => ([], s)
  | s, op :: ops =>
    if (step s op).1.isUb then (Out.ub :: ops.map (fun _ => Out.dead), s)
    else ((step s op).1 :: (run step (step s op).2 ops).1, (run step (step s op).2 ops).2)

/-! ## the arithmetic of the two memory streams, as a record (so that `Props/C19Witness.lean` can run
the same control flow over the arithmetic of the pinned commit) -/

structure Arith where
  fxReadOk : Nat → Nat → Nat → Bool
  fxReadN : Nat → Nat → Nat → Nat
  fxReadCopies : Nat → Bool
  fxReadCur : Nat → Nat → Nat
  fxReadRet : Nat → Nat
  fxWriteEmpty : Nat → Bool
  fxWriteOk : Nat → Nat → Nat → Bool
  fxWriteCur : Nat → Nat → Nat
  fxWriteRet : Nat → Nat
  fxSeek : Nat → Nat
  msReadOk : Nat → Nat → Bool
  msReadN : Nat → Nat → Nat → Nat
  msReadCopies : Nat → Bool
  msReadCur : Nat → Nat → Nat
  msReadRet : Nat → Nat
  msWriteEmpty : Nat → Bool
  msWriteOk : Nat → Nat → Nat → Bool
  msWriteGrows : Nat → Nat → Nat → Bool
  msWriteNewLen : Nat → Nat → Nat
  msWriteCur : Nat → Nat → Nat
  msWriteRet : Nat → Nat
  msSeek : Nat → Nat

/-- the arithmetic of the source tree the check runs against (regenerated on every run) -/
def Arith.gen : Arith where
  fxReadOk := Gen.Streams.fxReadOk
  fxReadN := Gen.Streams.fxReadN
  fxReadCopies := Gen.Streams.fxReadCopies
  fxReadCur := Gen.Streams.fxReadCur
  fxReadRet := Gen.Streams.fxReadRet
  fxWriteEmpty := Gen.Streams.fxWriteEmpty
  fxWriteOk := Gen.Streams.fxWriteOk
  fxWriteCur := Gen.Streams.fxWriteCur
  fxWriteRet := Gen.Streams.fxWriteRet
  fxSeek := Gen.Streams.fxSeek
  msReadOk := Gen.Streams.msReadOk
  msReadN := Gen.Streams.msReadN
  msReadCopies := Gen.Streams.msReadCopies
  msReadCur := Gen.Streams.msReadCur
  msReadRet := Gen.Streams.msReadRet
  msWriteEmpty := Gen.Streams.msWriteEmpty
  msWriteOk := Gen.Streams.msWriteOk
  msWriteGrows := Gen.Streams.msWriteGrows
  msWriteNewLen := Gen.Streams.msWriteNewLen
  msWriteCur := Gen.Streams.msWriteCur
  msWriteRet := Gen.Streams.msWriteRet
  msSeek := Gen.Streams.msSeek

/-! ## MemoryFixedSizeStream -/

/-- `p_buffer_[0, buffer_size_)` and `curr_ptr_` -/
structure MemFixed where
  buf : Bytes
  cur : Nat
  deriving Repr, DecidableEq

def MemFixed.step (A : Arith) (s : MemFixed) : Op → Out × MemFixed
  | .read n =>
    if A.fxReadOk s.cur n s.buf.length then                                   -- CHECK(...)
      if A.fxReadCopies (A.fxReadN s.cur n s.buf.length) then                 -- if (nread != 0) memcpy(ptr, p_buffer_ + curr_ptr_, nread)
        if inBounds s.buf.length s.cur (A.fxReadN s.cur n s.buf.length) then
          (.bytes (A.fxReadRet (A.fxReadN s.cur n s.buf.length)) (peek s.buf s.cur (A.fxReadN s.cur n s.buf.length)),
           { s with cur := A.fxReadCur s.cur (A.fxReadN s.cur n s.buf.length) })
        else (.ub, s)
      else
        (.bytes (A.fxReadRet (A.fxReadN s.cur n s.buf.length)) [],
         { s with cur := A.fxReadCur s.cur (A.fxReadN s.cur n s.buf.length) })
    else (.err .check, s)
  | .write bs =>
    if A.fxWriteEmpty bs.length then (.count 0, s)                            -- if (size == 0) return 0
    else if A.fxWriteOk s.cur bs.length s.buf.length then                     -- CHECK(...)
      if inBounds s.buf.length s.cur bs.length then                           -- memcpy(p_buffer_ + curr_ptr_, ptr, size)
        (.count (A.fxWriteRet bs.length), { buf := poke s.buf s.cur bs, cur := A.fxWriteCur s.cur bs.length })
      else (.ub, s)
    else (.err .check, s)
  | .seek p => (.unit, { s with cur := A.fxSeek p })
  | .tell => (.pos s.cur, s)

/-! ## MemoryStringStream -/

/-- `std::string().max_size()` of libstdc++ on x86-64 (the harness asserts the value) -/
def strMax : Nat := 4611686018427387903

/-- `std::string::resize(n)`: `std::length_error` above `max_size()`, otherwise truncate / zero-fill.
(Memory is assumed to be available for every size up to `max_size()`.) -/
def strResize (buf : Bytes) (n : Nat) : Except Err Bytes :=
  if strMax < n then .error .range else .ok (buf.take n ++ zeros (n - buf.length))

/-- `*p_buffer_` and `curr_ptr_` -/
structure MemStr where
  buf : Bytes
  cur : Nat
  deriving Repr, DecidableEq

def MemStr.step (A : Arith) (s : MemStr) : Op → Out × MemStr
  | .read n =>
    if A.msReadOk s.cur s.buf.length then                                     -- CHECK(curr_ptr_ <= length)
      if A.msReadCopies (A.msReadN s.cur n s.buf.length) then
        if inBounds s.buf.length s.cur (A.msReadN s.cur n s.buf.length) then
          (.bytes (A.msReadRet (A.msReadN s.cur n s.buf.length)) (peek s.buf s.cur (A.msReadN s.cur n s.buf.length)),
           { s with cur := A.msReadCur s.cur (A.msReadN s.cur n s.buf.length) })
        else (.ub, s)
      else
        (.bytes (A.msReadRet (A.msReadN s.cur n s.buf.length)) [],
         { s with cur := A.msReadCur s.cur (A.msReadN s.cur n s.buf.length) })
    else (.err .check, s)
  | .write bs =>
    if A.msWriteEmpty bs.length then (.count 0, s)
    else if A.msWriteOk s.cur bs.length s.buf.length then                     -- CHECK (absent in the pinned source: `true`)
      match (if A.msWriteGrows s.cur bs.length s.buf.length                   -- if (curr_ptr_ + size > length) resize(curr_ptr_ + size)
             then strResize s.buf (A.msWriteNewLen s.cur bs.length) else .ok s.buf) with
      | .error e => (.err e, s)
      | .ok b =>
        if inBounds b.length s.cur bs.length then                             -- memcpy(&(*p_buffer_)[0] + curr_ptr_, ptr, size)
          (.count (A.msWriteRet bs.length), { buf := poke b s.cur bs, cur := A.msWriteCur s.cur bs.length })
        else (.ub, { s with buf := b })
    else (.err .check, s)
  | .seek p => (.unit, { s with cur := A.msSeek p })
  | .tell => (.pos s.cur, s)

/-! ## io::FileStream over stdio (file opened in update mode, e.g. "w+") -/

/-- the contents of the file and the file position of the `FILE*` -/
structure File where
  data : Bytes
  pos : Nat
  deriving Repr, DecidableEq

/-- trusted stdio contract: `fread(ptr, 1, n, fp)` -/
def File.fread (f : File) (n : Nat) : Bytes × File :=
  (peek f.data f.pos n, { f with pos := f.pos + (peek f.data f.pos n).length })

/-- trusted stdio contract: `fwrite(ptr, 1, n, fp)`; a gap left by a seek past the end reads as zeros -/
def File.fwrite (f : File) (bs : Bytes) : Nat × File :=
  if bs = [] then (0, f)
  else (bs.length, { data := poke (f.data ++ zeros (f.pos - f.data.length)) f.pos bs, pos := f.pos + bs.length })

/-- trusted stdio contract: `fseek(fp, off, SEEK_SET)` with `off` a `long` given by its 64-bit
two's-complement pattern: negative offsets fail (EINVAL) and leave the position alone.  Offsets
beyond what the file system supports are outside the model (assumption of C19). -/
def File.fseekSet (f : File) (off : Nat) : Bool × File :=
  if off < 9223372036854775808 then (true, { f with pos := off }) else (false, f)

def File.step (s : File) : Op → Out × File
  | .read n => (.bytes (s.fread n).1.length (s.fread n).1, (s.fread n).2)     -- return std::fread(ptr, 1, size, fp_)
  | .write bs =>
    if (s.fwrite bs).1 = bs.length                                             -- CHECK(std::fwrite(...) == size)
    then (.count (Gen.Streams.fsWriteRet bs.length), (s.fwrite bs).2)          -- return 0  (sic)
    else (.err .check, (s.fwrite bs).2)
  | .seek p =>
    if (s.fseekSet (Gen.Streams.fsSeekOff p)).1                                -- CHECK(!std::fseek(fp_, static_cast<long>(pos), SEEK_SET))
    then (.unit, (s.fseekSet (Gen.Streams.fsSeekOff p)).2)
    else (.err .check, s)
  | .tell => (.pos s.pos, s)                                                   -- return std::ftell(fp_)

/-! ## specification: a byte array with a cursor -/

structure Arr where
  data : Bytes
  cur : Nat
  deriving Repr, DecidableEq

/-- what distinguishes the three stores at the level of the specification -/
structure Flavor where
  /-- `Read` with the cursor beyond the end raises (memory streams) or returns 0 bytes (file) -/
  readPastEndRaises : Bool
  /-- may the store hold the bytes `[cur, cur + n)`?  `none` = yes, `some e` = `Write` raises `e` -/
  room : Nat → Nat → Option Err
  /-- `Seek` accepts positions below this bound -/
  posLimit : Nat
  /-- the value `Write(ptr, n)` returns -/
  writeRet : Nat → Nat

/-- fixed buffer of `size` bytes: never grows, a write that does not fit raises `dmlc::Error` -/
def Flavor.fixed (size : Nat) : Flavor where
  readPastEndRaises := true
  room := fun cur n => if cur + n ≤ size then none else some .check
  posLimit := 18446744073709551616
  writeRet := id

/-- `std::string` store: grows up to `max_size()`; an end position not representable in 64 bits raises -/
def Flavor.string : Flavor where
  readPastEndRaises := true
  room := fun cur n =>
    if cur + n < 18446744073709551616 then (if cur + n ≤ strMax then none else some .range) else some .check
  posLimit := 18446744073709551616
  writeRet := id

/-- local file: grows without a bound in the model; `Seek` takes a `long`; `FileStream::Write` returns 0 -/
def Flavor.file : Flavor where
  readPastEndRaises := false
  room := fun _ _ => none
  posLimit := 9223372036854775808
  writeRet := fun _ => 0

/-- plain growable array (the recording `Stream` under the adaptors in the harness) -/
def Flavor.plain : Flavor where
  readPastEndRaises := false
  room := fun _ _ => none
  posLimit := 18446744073709551616
  writeRet := id

def Arr.step (F : Flavor) (a : Arr) : Op → Out × Arr
  | .read n =>
    if a.cur ≤ a.data.length then
      (.bytes (peek a.data a.cur n).length (peek a.data a.cur n), { a with cur := a.cur + (peek a.data a.cur n).length })
    else if F.readPastEndRaises then (.err .check, a) else (.bytes 0 [], a)
  | .write bs =>
    if bs = [] then (.count 0, a)
    else match F.room a.cur bs.length with
      | some e => (.err e, a)
      | none =>
        (.count (F.writeRet bs.length),
         { data := poke (a.data ++ zeros (a.cur - a.data.length)) a.cur bs, cur := a.cur + bs.length })
  | .seek p => if p < F.posLimit then (.unit, { a with cur := p }) else (.err .check, a)
  | .tell => (.pos a.cur, a)

/-- the arguments of a call are `size_t` values -/
def Op.fits64 : Op → Prop
  | .read n => n < 18446744073709551616
  | .write bs => bs.length < 18446744073709551616
  | .seek p => p < 18446744073709551616
  | .tell => True

/-! ## ostream::OutBuf under the libstdc++ `streambuf` put protocol -/

/-- `OutBuf`: `buffer_` (`cap` bytes), `pptr()`/`epptr()` as offsets from `pbase() = &buffer_[0]`,
`bytes_out_` -/
structure OBuf where
  cap : Nat
  buf : Bytes
  pptr : Nat
  epptr : Nat
  count : Nat
  deriving Repr, DecidableEq

/-- `EOF` as the 32-bit pattern of the `int` -1 -/
def eofInt : Nat := 4294967295

/-- `pbump(d)` / `gbump(d)` with `d` an `int` given by its 32-bit pattern; `none` = the pointer leaves
the address range in front of the buffer -/
def bump (p d : Nat) : Option Nat :=
  if d < 2147483648 then some (p + d)
  else if 4294967296 ≤ p + d then some (p + d - 4294967296) else none

/-- `OutBuf(buffer_size)` followed by the `set_stream(stream)` of the `ostream` constructor -/
def OBuf.create (bufferSize : Nat) : OBuf :=
  let cap := if Gen.Streams.obZero bufferSize then Gen.Streams.obZeroSize else bufferSize
  { cap := cap, buf := zeros cap, pptr := 0, epptr := Gen.Streams.obPutEnd cap, count := 0 }

/-- result of a put-side operation: the new state and the `Stream::Write` calls it made (the bytes
handed over, in order); `none` = an access outside `buffer_` -/
abbrev ORes := Option (OBuf × List Bytes)

/-- `OutBuf::sync()` (with `stream_ != NULL`) -/
def OBuf.sync (s : OBuf) : ORes :=
  if Gen.Streams.obSyncLen (Gen.Streams.obSyncN s.pptr 0) ≤ s.cap then          -- stream_->Write(pbase(), n)
    match bump s.pptr (Gen.Streams.obSyncBump (Gen.Streams.obSyncN s.pptr 0)) with   -- pbump(-static_cast<int>(n))
    | some p =>
      some ({ s with pptr := p, count := Gen.Streams.obSyncCount s.count (Gen.Streams.obSyncN s.pptr 0) },
            [s.buf.take (Gen.Streams.obSyncLen (Gen.Streams.obSyncN s.pptr 0))])
    | none => none
  else none

/-- `OutBuf::overflow(c)`, `c` the 32-bit pattern of the `int` argument -/
def OBuf.overflow (s : OBuf) (c : Nat) : ORes :=
  if s.pptr < s.cap then                                                        -- *(this->pptr()) = c
    match bump s.pptr (Gen.Streams.obOvBump (Gen.Streams.obOvN s.pptr 0)) with
    | none => none
    | some p =>
      if Gen.Streams.obOvIsEof c eofInt then
        if Gen.Streams.obOvEofLen (Gen.Streams.obOvN s.pptr 0) ≤ s.cap then
          some ({ s with buf := poke s.buf s.pptr [UInt8.ofNat c], pptr := p,
                         count := Gen.Streams.obOvEofCount s.count (Gen.Streams.obOvN s.pptr 0) },
                [(poke s.buf s.pptr [UInt8.ofNat c]).take (Gen.Streams.obOvEofLen (Gen.Streams.obOvN s.pptr 0))])
        else none
      else
        if Gen.Streams.obOvLen (Gen.Streams.obOvN s.pptr 0) ≤ s.cap then
          some ({ s with buf := poke s.buf s.pptr [UInt8.ofNat c], pptr := p,
                         count := Gen.Streams.obOvCount s.count (Gen.Streams.obOvN s.pptr 0) },
                [(poke s.buf s.pptr [UInt8.ofNat c]).take (Gen.Streams.obOvLen (Gen.Streams.obOvN s.pptr 0))])
        else none
  else none

/-- `traits_type::copy(pptr(), src, n); pbump(n)` (or `*pptr() = c; pbump(1)`) -/
def OBuf.fill (s : OBuf) (bs : Bytes) : OBuf :=
  { s with buf := poke s.buf s.pptr bs, pptr := s.pptr + bs.length }

/-- libstdc++ `streambuf::sputc(c)`: store into the put area if there is room, else `overflow` -/
def OBuf.sputc (s : OBuf) (c : Byte) : ORes :=
  if s.pptr < s.epptr then
    if s.pptr < s.cap then some (s.fill [c], []) else none
  else s.overflow c.toNat

/-- libstdc++ `streambuf::xsputn` (the default, not overridden by `OutBuf`): fill the put area, call
`overflow` with the next character, repeat.  `overflow` never returns `EOF` for a character, so the
loop only ends when everything is consumed.  `fuel` bounds the iterations (one character at least
per round). -/
def OBuf.xsputnGo : Nat → OBuf → Bytes → List Bytes → ORes
  | 0, _, _, _ => none
  | fuel + 1, s, src, calls =>
    if src = [] then some (s, calls)
    else if s.epptr < s.pptr then none                 -- negative room: traits::copy with a negative count
    else if s.pptr + min (s.epptr - s.pptr) src.length ≤ s.cap then
      match src.drop (min (s.epptr - s.pptr) src.length) with
      | [] => some (s.fill (src.take (min (s.epptr - s.pptr) src.length)), calls)
      | c :: rest =>
        match (s.fill (src.take (min (s.epptr - s.pptr) src.length))).overflow c.toNat with
        | none => none
        | some (s2, cs) => OBuf.xsputnGo fuel s2 rest (calls ++ cs)
    else none

def OBuf.xsputn (s : OBuf) (src : Bytes) : ORes := OBuf.xsputnGo (src.length + 1) s src []

/-- `this->setp(&buffer_[0], &buffer_[0] + buffer_.size() - 1)` -/
def OBuf.setp (s : OBuf) : OBuf := { s with pptr := 0, epptr := Gen.Streams.obPutEnd s.cap }

/-- `OutBuf::set_stream(stream)` on an attached buffer: `pubsync()`, then `setp` again -/
def OBuf.setStream (s : OBuf) : ORes := s.sync.map fun r => (r.1.setp, r.2)

/-- operations on a `dmlc::ostream` -/
inductive OOp
  | put (c : Byte)        -- `os.put(c)`                       -> `sputc`
  | write (bs : Bytes)    -- `os.write(p, n)` / `os << string` -> `sputn` -> `xsputn`
  | flush                 -- `os.flush()`                      -> `pubsync` -> `sync`
  | reattach              -- `os.set_stream(same stream)`
  | setStream (j : Nat)   -- `os.set_stream(stream j)`: flushes to the OLD stream, then attaches stream `j`
  | ovEof                 -- `overflow(EOF)` called directly (never done by libstdc++'s `ostream`)
  | destroy               -- `~ostream()`                      -> `pubsync`
  | useek (p : Nat)       -- `Seek(p)` on the wrapped stream, behind the adaptor's back
  deriving Repr, DecidableEq

/-- adaptor + the wrapped stream (a plain array with a cursor) + the streams the caller owns:
`parked[k]` is stream `k`; the entry of the attached stream `idx` is stale while it is attached -/
structure OSt where
  ob : OBuf
  sink : Arr
  idx : Nat := 0
  parked : List Arr := []
  deriving Repr, DecidableEq

def sinkWrite (a : Arr) (bs : Bytes) : Arr := (Arr.step Flavor.plain a (.write bs)).2

def OBuf.apply (s : OBuf) : OOp → ORes
  | .put c => s.sputc c
  | .write bs => s.xsputn bs
  | .flush => s.sync
  | .reattach => s.setStream
  | .setStream _ => s.setStream
  | .ovEof => s.overflow eofInt
  | .destroy => s.sync
  | .useek _ => some (s, [])

def OSt.step (s : OSt) (op : OOp) : Option (OSt × List Bytes) :=
  match s.ob.apply op with
  | none => none
  | some (ob, calls) =>
    match op with
    | .useek p => some ({ s with ob := ob, sink := (Arr.step Flavor.plain s.sink (.seek p)).2 }, calls)
    | .setStream j =>
      -- the flush of `set_stream` goes to the stream attached so far; then stream `j` is attached
      match (s.parked.set s.idx (calls.foldl sinkWrite s.sink))[j]? with
      | none => some ({ s with ob := ob, sink := calls.foldl sinkWrite s.sink }, calls)   -- no such stream: stays attached
      | some a => some ({ ob := ob, sink := a, idx := j, parked := s.parked.set s.idx (calls.foldl sinkWrite s.sink) }, calls)
    | _ => some ({ s with ob := ob, sink := calls.foldl sinkWrite s.sink }, calls)

/-- run a history of adaptor operations: all `Stream::Write` calls in order, `none` = `ub` -/
def orun : OSt → List OOp → Option (OSt × List Bytes)
  | s, [] => some (s, [])
  | s, op :: ops =>
    match s.step op with
    | none => none
    | some (s1, cs) =>
      match orun s1 ops with
      | none => none
      | some (s2, cs2) => some (s2, cs ++ cs2)

/-- everything a history inserts into the `ostream` -/
def inserted : List OOp → Bytes
  | [] => []
  | .put c :: ops => c :: inserted ops
  | .write bs :: ops => bs ++ inserted ops
  | _ :: ops => inserted ops

/-- the bytes inserted while stream `j` is the attached one (`idx` = the stream attached at the start;
`n` = number of streams: `set_stream` to a stream that does not exist changes nothing) -/
def insertedFor (n j : Nat) : Nat → List OOp → Bytes
  | _, [] => []
  | idx, .put c :: ops => (if idx = j then [c] else []) ++ insertedFor n j idx ops
  | idx, .write bs :: ops => (if idx = j then bs else []) ++ insertedFor n j idx ops
  | idx, .setStream k :: ops => insertedFor n j (if k < n then k else idx) ops
  | idx, _ :: ops => insertedFor n j idx ops

/-! ## istream::InBuf under the libstdc++ `streambuf` get protocol -/

/-- `InBuf`: `buffer_` (`cap` bytes), `gptr()`/`egptr()` as offsets from `eback() = &buffer_[0]`,
`bytes_read_` -/
structure IBuf where
  cap : Nat
  buf : Bytes
  gptr : Nat
  egptr : Nat
  count : Nat
  deriving Repr, DecidableEq

def IBuf.create (bufferSize : Nat) : IBuf :=
  let cap := if Gen.Streams.ibZero bufferSize then Gen.Streams.ibZeroSize else bufferSize
  { cap := cap, buf := zeros cap, gptr := 0, egptr := 0, count := 0 }

/-- `Stream::Read(ptr, n)` of the wrapped stream (a plain array with a cursor) -/
def srcRead (a : Arr) (n : Nat) : Bytes × Arr :=
  (peek a.data a.cur n, { a with cur := a.cur + (peek a.data a.cur n).length })

/-- adaptor + wrapped stream -/
structure ISt where
  ib : IBuf
  src : Arr
  deriving Repr, DecidableEq

/-- result of a get-side operation: new state and the character (`none` = `EOF`);
outer `none` = an access outside `buffer_` -/
abbrev IRes := Option (ISt × Option Byte)

/-- state after `sz = stream_->Read(bhead, buffer_.size()); setg(bhead, bhead, bhead + sz); bytes_read_ += sz` -/
def ISt.refilled (s : ISt) : ISt :=
  { ib := { s.ib with buf := poke s.ib.buf 0 (srcRead s.src (Gen.Streams.ibReadSize s.ib.cap)).1,
                      gptr := 0,
                      egptr := Gen.Streams.ibNewEnd 0 (srcRead s.src (Gen.Streams.ibReadSize s.ib.cap)).1.length,
                      count := Gen.Streams.ibCount s.ib.count (srcRead s.src (Gen.Streams.ibReadSize s.ib.cap)).1.length },
    src := (srcRead s.src (Gen.Streams.ibReadSize s.ib.cap)).2 }

/-- the refill part of `InBuf::underflow()` -/
def ISt.refill (s : ISt) : Option ISt :=
  if Gen.Streams.ibNeedsRefill s.ib.gptr s.ib.egptr then
    if Gen.Streams.ibReadSize s.ib.cap ≤ s.ib.cap then some s.refilled     -- Read(bhead, buffer_.size()) may fill that much
    else none
  else some s

/-- `InBuf::underflow()` -/
def ISt.underflow (s : ISt) : IRes :=
  match s.refill with
  | none => none
  | some s1 =>
    if Gen.Streams.ibIsEmpty s1.ib.gptr s1.ib.egptr then some (s1, none)
    else match s1.ib.buf.drop s1.ib.gptr with                                    -- *gptr()
      | c :: _ => some (s1, some c)
      | [] => none

/-- libstdc++ `streambuf::uflow()` (default): `underflow()`, then step over the character -/
def ISt.uflow (s : ISt) : IRes :=
  match s.underflow with
  | none => none
  | some (s1, none) => some (s1, none)
  | some (s1, some _) =>
    match s1.ib.buf.drop s1.ib.gptr with                                         -- *gptr(); gbump(1)
    | c :: _ => some ({ s1 with ib := { s1.ib with gptr := s1.ib.gptr + 1 } }, some c)
    | [] => none

/-- libstdc++ `streambuf::sgetc()` -/
def ISt.sgetc (s : ISt) : IRes :=
  if s.ib.gptr < s.ib.egptr then
    match s.ib.buf.drop s.ib.gptr with
    | c :: _ => some (s, some c)
    | [] => none
  else s.underflow

/-- libstdc++ `streambuf::sbumpc()` -/
def ISt.sbumpc (s : ISt) : IRes :=
  if s.ib.gptr < s.ib.egptr then
    match s.ib.buf.drop s.ib.gptr with
    | c :: _ => some ({ s with ib := { s.ib with gptr := s.ib.gptr + 1 } }, some c)
    | [] => none
  else s.uflow

/-- libstdc++ `streambuf::xsgetn` (default): copy what the get area holds, then `uflow()` for one more
character, repeat until `want` characters are delivered or `uflow` reports `EOF`.
Returns the delivered bytes (appended to `acc`). -/
def ISt.xsgetnGo : Nat → ISt → Nat → Bytes → Option (ISt × Bytes)
  | 0, _, _, _ => none
  | fuel + 1, s, want, acc =>
    if want = 0 then some (s, acc)
    else if s.ib.egptr < s.ib.gptr then none
    else if s.ib.egptr ≤ s.ib.buf.length then
      if want ≤ s.ib.egptr - s.ib.gptr then
        some ({ s with ib := { s.ib with gptr := s.ib.gptr + want } }, acc ++ peek s.ib.buf s.ib.gptr want)
      else
        match ISt.uflow { s with ib := { s.ib with gptr := s.ib.egptr } } with
        | none => none
        | some (s1, none) => some (s1, acc ++ peek s.ib.buf s.ib.gptr (s.ib.egptr - s.ib.gptr))
        | some (s1, some c) =>
          ISt.xsgetnGo fuel s1 (want - (s.ib.egptr - s.ib.gptr) - 1)
            (acc ++ peek s.ib.buf s.ib.gptr (s.ib.egptr - s.ib.gptr) ++ [c])
    else none

def ISt.xsgetn (s : ISt) (want : Nat) : Option (ISt × Bytes) := ISt.xsgetnGo (want + 1) s want []

/-- operations on a `dmlc::istream` -/
inductive IOp
  | get                  -- `is.get()`      -> `sbumpc`
  | peek                 -- `is.peek()`     -> `sgetc`
  | read (n : Nat)       -- `is.read(p, n)` -> `sgetn` -> `xsgetn`
  | useek (p : Nat)      -- `Seek(p)` on the wrapped stream, behind the adaptor's back
  deriving Repr, DecidableEq

/-- what an extraction delivers -/
inductive IOut
  | char (c : Option Byte)    -- `get` / `peek`: a character or `EOF`
  | block (bs : Bytes)        -- `read`: the `gcount()` bytes delivered
  | unit
  deriving Repr, DecidableEq

def ISt.step (s : ISt) : IOp → Option (ISt × IOut)
  | .get => match s.sbumpc with
    | none => none
    | some (s1, c) => some (s1, .char c)
  | .peek => match s.sgetc with
    | none => none
    | some (s1, c) => some (s1, .char c)
  | .read n => match s.xsgetn n with
    | none => none
    | some (s1, bs) => some (s1, .block bs)
  | .useek p => some ({ s with src := (Arr.step Flavor.plain s.src (.seek p)).2 }, .unit)

def irun : ISt → List IOp → Option (ISt × List IOut)
  | s, [] => some (s, [])
  | s, op :: ops =>
    match s.step op with
    | none => none
    | some (s1, o) =>
      match irun s1 ops with
      | none => none
      | some (s2, os) => some (s2, o :: os)

/-! ## dmlc::istream as a whole: `std::basic_istream` state bits on top of `InBuf`, `set_stream` -/

/-- `InBuf::set_stream(stream)`: `stream_ = stream; setg(&buffer_[0], &buffer_[0], &buffer_[0])` -- whatever was
buffered from the old stream is dropped -/
def IBuf.setStream (b : IBuf) : IBuf := { b with gptr := 0, egptr := 0 }

/-- `InBuf` + attached stream + the streams the caller owns (`parked[k]` is stream `k`; the entry of the
attached stream `idx` is stale while it is attached) + `eofbit` / `failbit` of the `basic_ios` -/
structure IOS where
  st : ISt
  idx : Nat
  parked : List Arr
  eofbit : Bool
  failbit : Bool
  deriving Repr, DecidableEq

/-- operations on a `dmlc::istream` object -/
inductive FOp
  | get                      -- `is.get()`: sentry, `sbumpc`, state bits
  | peek                     -- `is.peek()`
  | read (n : Nat)           -- `is.read(p, n)`; `gcount()` bytes
  | raw (op : IOp)           -- the same through `is.rdbuf()` (no sentry, no state bits); `useek p` of the attached stream
  | clear                    -- `is.clear()`
  | setStream (j : Nat)      -- `is.set_stream(stream j)`
  | useek (j p : Nat)        -- `Seek(p)` on stream `j` (attached or not)
  deriving Repr, DecidableEq

/-- state bits a (good) extraction sets: `(eofbit, failbit)` (libstdc++ `basic_istream::get/peek/read`) -/
def shortFlags : FOp → IOut → Bool × Bool
  | .get, .char none => (true, true)
  | .peek, .char none => (true, false)
  | .read n, .block bs => if bs.length = n then (false, false) else (true, true)
  | _, _ => (false, false)

/-- what an extraction returns when the sentry finds the stream not `good()` -/
def sentryFail : FOp → IOut
  | .read _ => .block []
  | _ => .char none

/-- an extraction through the `std::istream` member functions: the sentry refuses (and sets `failbit`)
unless the stream is `good()` -/
def IOS.extract (s : IOS) (op : FOp) (iop : IOp) : Option (IOS × IOut) :=
  if s.eofbit || s.failbit then some ({ s with failbit := true }, sentryFail op)
  else (s.st.step iop).map fun r =>
    ({ s with st := r.1, eofbit := (shortFlags op r.2).1, failbit := (shortFlags op r.2).2 }, r.2)

def IOS.step (s : IOS) : FOp → Option (IOS × IOut)
  | .get => s.extract .get .get
  | .peek => s.extract .peek .peek
  | .read n => s.extract (.read n) (.read n)
  | .raw iop => (s.st.step iop).map fun r => ({ s with st := r.1 }, r.2)
  | .clear => some ({ s with eofbit := false, failbit := false }, .unit)
  | .useek j p =>
    if j = s.idx then some ({ s with st := { s.st with src := (Arr.step Flavor.plain s.st.src (.seek p)).2 } }, .unit)
    else match s.parked[j]? with
      | none => some (s, .unit)
      | some a => some ({ s with parked := s.parked.set j (Arr.step Flavor.plain a (.seek p)).2 }, .unit)
  | .setStream j =>
    -- buf_.set_stream(stream); this->rdbuf(&buf_)   [rdbuf(sb) = "set the buffer and clear()"]
    match (s.parked.set s.idx s.st.src)[j]? with
    | none => some (s, .unit)
    | some a =>
      some ({ st := { ib := s.st.ib.setStream, src := a }, idx := j, parked := s.parked.set s.idx s.st.src,
              eofbit := if Gen.Streams.isSetStreamRdbuf then false else s.eofbit,
              failbit := if Gen.Streams.isSetStreamRdbuf then false else s.failbit }, .unit)

/-- what a stream provides from the moment it is attached: its bytes from its cursor on -/
def IOS.attachProvides (s : IOS) : FOp → List Bytes
  | .setStream j =>
    match (s.parked.set s.idx s.st.src)[j]? with
    | none => []
    | some a => [a.data.drop a.cur]
  | _ => []

/-- run a history: outputs, and what each `set_stream` attached (in order) -/
def frun : IOS → List FOp → Option (IOS × List IOut × List Bytes)
  | s, [] => some (s, [], [])
  | s, op :: ops =>
    match s.step op with
    | none => none
    | some (s1, o) =>
      match frun s1 ops with
      | none => none
      | some (s2, os, pr) => some (s2, o :: os, s.attachProvides op ++ pr)

end DmlcModel.Streams
