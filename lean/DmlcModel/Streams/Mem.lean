/-
Refinement of the three stores (MemoryFixedSizeStream, MemoryStringStream, FileStream) to the byte
array with a cursor: one lemma per class for a single call, one generic induction over histories.
-/
import DmlcModel.Streams.Lemmas

namespace DmlcModel.Streams
open DmlcModel DmlcModel.Gen.Streams

/-! ### the specification never reports undefined behaviour -/

theorem Arr.step_not_ub (F : Flavor) (a : Arr) (op : Op) : (Arr.step F a op).1.isUb = false := by
  cases op with
  | read n =>
    simp only [Arr.step]; split
    · rfl
    · split <;> rfl
  | write bs =>
    simp only [Arr.step]; split
    · rfl
    · split <;> rfl
  | seek p => simp only [Arr.step]; split <;> rfl
  | tell => rfl

theorem Arr.step_not_dead (F : Flavor) (a : Arr) (op : Op) : (Arr.step F a op).1 ≠ Out.dead := by
  cases op with
  | read n =>
    simp only [Arr.step]; split
    · simp
    · split <;> simp
  | write bs =>
    simp only [Arr.step]; split
    · simp
    · split <;> simp
  | seek p => simp only [Arr.step]; split <;> simp
  | tell => simp [Arr.step]

theorem run_spec_clean (F : Flavor) : ∀ (ops : List Op) (a : Arr),
    Out.ub ∉ (run (Arr.step F) a ops).1 ∧ Out.dead ∉ (run (Arr.step F) a ops).1 := by
  intro ops
  induction ops with
  | nil => intro a; simp [run]
  | cons op ops ih =>
    intro a
    have h1 := Arr.step_not_ub F a op
    have h2 := Arr.step_not_dead F a op
    have := ih (Arr.step F a op).2
    simp only [run, h1]
    refine ⟨?_, ?_⟩
    · intro hm
      rcases List.mem_cons.mp hm with h | h
      · rw [← h] at h1; simp [Out.isUb] at h1
      · exact this.1 h
    · intro hm
      rcases List.mem_cons.mp hm with h | h
      · exact h2 h.symm
      · exact this.2 h

/-- generic induction: a store whose every call agrees with the specification (outputs and abstract
state) and preserves its invariant agrees with it on every history -/
theorem run_refines {σ : Type} (step : σ → Op → Out × σ) (F : Flavor) (abs : σ → Arr) (Inv : σ → Prop)
    (hstep : ∀ s op, Inv s → op.fits64 →
      (step s op).1 = (Arr.step F (abs s) op).1 ∧ abs (step s op).2 = (Arr.step F (abs s) op).2 ∧ Inv (step s op).2) :
    ∀ (ops : List Op) (s : σ), Inv s → (∀ op ∈ ops, op.fits64) →
      (run step s ops).1 = (run (Arr.step F) (abs s) ops).1 ∧
      abs (run step s ops).2 = (run (Arr.step F) (abs s) ops).2 := by
  intro ops
  induction ops with
  | nil => intro s _ _; simp [run]
  | cons op ops ih =>
    intro s hs hops
    obtain ⟨h1, h2, h3⟩ := hstep s op hs (hops op (by simp))
    have hnu := Arr.step_not_ub F (abs s) op
    have hnu' : (step s op).1.isUb = false := by rw [h1]; exact hnu
    have := ih (step s op).2 h3 (fun o ho => hops o (by simp [ho]))
    simp only [run, hnu, hnu']
    rw [h2] at this
    simp [h1, this.1, this.2]

/-- close `out = out' ∧ abs = abs' ∧ Inv` once `simp` has normalised both sides -/
local macro "close3 " x:term : tactic => `(tactic| (refine ⟨?_, ?_, $x⟩ <;> first | trivial | rfl))

/-! ### MemoryFixedSizeStream -/

def MemFixed.abs (s : MemFixed) : Arr := { data := s.buf, cur := s.cur }

structure FxInv (N : Nat) (s : MemFixed) : Prop where
  len : s.buf.length = N
  cur : s.cur < M64

theorem fx_step (N : Nat) (hN : N < M64) (s : MemFixed) (h : FxInv N s) (op : Op) (hop : op.fits64) :
    (MemFixed.step Arith.gen s op).1 = (Arr.step (Flavor.fixed N) s.abs op).1 ∧
    (MemFixed.step Arith.gen s op).2.abs = (Arr.step (Flavor.fixed N) s.abs op).2 ∧
    FxInv N (MemFixed.step Arith.gen s op).2 := by
  obtain ⟨hl, hc⟩ := h
  have hlen : s.buf.length < M64 := by omega
  cases op with
  | read n =>
    simp only [MemFixed.step, Arith.gen, Arr.step, MemFixed.abs, Flavor.fixed, fxReadOk_spec, fxReadCopies_spec,
      fxReadRet_spec]
    by_cases hcl : s.cur ≤ s.buf.length
    · simp only [fxReadN_spec hcl hlen]
      have hk : (peek s.buf s.cur n).length = min (s.buf.length - s.cur) n := by rw [peek_length]; omega
      have hcur : fxReadCur s.cur (min (s.buf.length - s.cur) n) = s.cur + min (s.buf.length - s.cur) n :=
        fxReadCur_spec (by omega)
      simp only [hcl, decide_true, if_true, hcur, peek_min, hk]
      by_cases h0 : min (s.buf.length - s.cur) n = 0
      · have hnil : peek s.buf s.cur n = [] := List.eq_nil_of_length_eq_zero (by rw [hk]; exact h0)
        simp only [h0, ne_eq, not_true_eq_false, decide_false, hnil]
        close3 ⟨hl, by simpa using hc⟩
      · have hib : inBounds s.buf.length s.cur (min (s.buf.length - s.cur) n) = true := by
          simp only [inBounds, Bool.and_eq_true, decide_eq_true_eq]; omega
        simp only [h0, ne_eq, not_false_eq_true, decide_true, if_true, hib]
        close3 ⟨hl, by simp only; omega⟩
    · simp only [hcl, decide_false, if_false, Bool.false_eq_true]
      close3 ⟨hl, hc⟩
  | write bs =>
    have hb : bs.length < M64 := hop
    simp only [MemFixed.step, Arith.gen, Arr.step, MemFixed.abs, Flavor.fixed, fxWriteEmpty_spec, fxWriteRet_spec,
      fxWriteOk_spec hlen]
    by_cases he : bs = []
    · subst he; simp only [List.length_nil, decide_true, if_true]
      close3 ⟨hl, hc⟩
    · have hne : bs.length ≠ 0 := fun h => he (List.eq_nil_of_length_eq_zero h)
      simp only [hne, decide_false, he, if_false, Bool.false_eq_true]
      by_cases hfit : s.cur + bs.length ≤ s.buf.length
      · have hib : inBounds s.buf.length s.cur bs.length = true := by
          simp only [inBounds, Bool.and_eq_true, decide_eq_true_eq]; omega
        have hfitN : s.cur + bs.length ≤ N := by omega
        have hz : s.cur - s.buf.length = 0 := by omega
        have hcur : fxWriteCur s.cur bs.length = s.cur + bs.length := fxWriteCur_spec (by omega)
        simp only [hfit, hfitN, decide_true, if_true, hib, hz, hcur, zeros, List.replicate_zero, List.append_nil, id]
        close3 ⟨by simp only; rw [poke_length_fit _ _ _ hfit]; exact hl, by simp only; omega⟩
      · have hfitN : ¬ s.cur + bs.length ≤ N := by omega
        simp only [hfit, hfitN, decide_false, if_false, Bool.false_eq_true]
        close3 ⟨hl, hc⟩
  | seek p =>
    have hp : p < M64 := hop
    simp only [MemFixed.step, Arith.gen, Arr.step, MemFixed.abs, Flavor.fixed, fxSeek_spec hp, hp, if_true]
    close3 ⟨hl, hp⟩
  | tell =>
    simp only [MemFixed.step, Arr.step, MemFixed.abs]
    close3 ⟨hl, hc⟩

/-! ### MemoryStringStream -/

def MemStr.abs (s : MemStr) : Arr := { data := s.buf, cur := s.cur }

structure MsInv (s : MemStr) : Prop where
  len : s.buf.length ≤ strMax
  cur : s.cur < M64

theorem strMax_lt : strMax < M64 := by decide

theorem ms_step (s : MemStr) (h : MsInv s) (op : Op) (hop : op.fits64) :
    (MemStr.step Arith.gen s op).1 = (Arr.step Flavor.string s.abs op).1 ∧
    (MemStr.step Arith.gen s op).2.abs = (Arr.step Flavor.string s.abs op).2 ∧
    MsInv (MemStr.step Arith.gen s op).2 := by
  obtain ⟨hl, hc⟩ := h
  have hsm := strMax_lt
  have hlen : s.buf.length < M64 := by omega
  cases op with
  | read n =>
    simp only [MemStr.step, Arith.gen, Arr.step, MemStr.abs, Flavor.string, msReadOk_spec, msReadCopies_spec,
      msReadRet_spec]
    by_cases hcl : s.cur ≤ s.buf.length
    · simp only [msReadN_spec hcl hlen]
      have hk : (peek s.buf s.cur n).length = min (s.buf.length - s.cur) n := by rw [peek_length]; omega
      have hcur : msReadCur s.cur (min (s.buf.length - s.cur) n) = s.cur + min (s.buf.length - s.cur) n :=
        msReadCur_spec (by omega)
      simp only [hcl, decide_true, if_true, hcur, peek_min, hk]
      by_cases h0 : min (s.buf.length - s.cur) n = 0
      · have hnil : peek s.buf s.cur n = [] := List.eq_nil_of_length_eq_zero (by rw [hk]; exact h0)
        simp only [h0, ne_eq, not_true_eq_false, decide_false, hnil]
        close3 ⟨hl, by simpa using hc⟩
      · have hib : inBounds s.buf.length s.cur (min (s.buf.length - s.cur) n) = true := by
          simp only [inBounds, Bool.and_eq_true, decide_eq_true_eq]; omega
        simp only [h0, ne_eq, not_false_eq_true, decide_true, if_true, hib]
        close3 ⟨hl, by simp only; omega⟩
    · simp only [hcl, decide_false, if_false, Bool.false_eq_true]
      close3 ⟨hl, hc⟩
  | write bs =>
    have hb : bs.length < M64 := hop
    simp only [MemStr.step, Arith.gen, Arr.step, MemStr.abs, Flavor.string, msWriteEmpty_spec, msWriteRet_spec,
      msWriteOk_spec hc hb]
    by_cases he : bs = []
    · subst he; simp only [List.length_nil, decide_true, if_true]
      close3 ⟨hl, hc⟩
    · have hne : bs.length ≠ 0 := fun h => he (List.eq_nil_of_length_eq_zero h)
      simp only [hne, decide_false, he, if_false, Bool.false_eq_true]
      by_cases hrep : s.cur + bs.length < M64
      · simp only [hrep, decide_true, if_true, msWriteGrows_spec hrep, msWriteNewLen_spec hrep, msWriteCur_spec hrep]
        by_cases hg : s.buf.length < s.cur + bs.length
        · simp only [hg, decide_true, if_true, strResize]
          by_cases hmax : s.cur + bs.length ≤ strMax
          · have hnm : ¬ strMax < s.cur + bs.length := by omega
            have htk : List.take (s.cur + bs.length) s.buf = s.buf := List.take_of_length_le (by omega)
            have hib : inBounds (s.buf ++ zeros (s.cur + bs.length - s.buf.length)).length s.cur bs.length = true := by
              simp only [inBounds, List.length_append, zeros_length, Bool.and_eq_true, decide_eq_true_eq]; omega
            simp only [hnm, hmax, if_false, if_true, htk, hib, id]
            have hpoke : poke (s.buf ++ zeros (s.cur + bs.length - s.buf.length)) s.cur bs =
                poke (s.buf ++ zeros (s.cur - s.buf.length)) s.cur bs := by
              unfold poke
              rw [take_append_zeros _ _ _ (by omega), take_append_zeros _ _ _ (Nat.le_refl _)]
              rw [List.drop_of_length_le (by simp only [List.length_append, zeros_length]; omega),
                List.drop_of_length_le (by simp only [List.length_append, zeros_length]; omega)]
            rw [hpoke]
            refine ⟨by first | trivial | rfl, by first | trivial | rfl, ⟨?_, by simp only; omega⟩⟩
            simp only [poke, List.length_append, List.length_take, List.length_drop, zeros_length]; omega
          · have hnm : strMax < s.cur + bs.length := by omega
            simp only [hnm, hmax, if_true, if_false]
            close3 ⟨hl, hc⟩
        · have hmax : s.cur + bs.length ≤ strMax := by omega
          have hib : inBounds s.buf.length s.cur bs.length = true := by
            simp only [inBounds, Bool.and_eq_true, decide_eq_true_eq]; omega
          have hz : s.cur - s.buf.length = 0 := by omega
          simp only [hg, decide_false, if_false, Bool.false_eq_true, hmax, if_true, hib, hz, zeros, List.replicate_zero,
            List.append_nil, id]
          refine ⟨by first | trivial | rfl, by first | trivial | rfl, ⟨?_, by simp only; omega⟩⟩
          simp only; rw [poke_length_fit _ _ _ (by omega)]; exact hl
      · simp only [hrep, decide_false, if_false, Bool.false_eq_true]
        close3 ⟨hl, hc⟩
  | seek p =>
    have hp : p < M64 := hop
    simp only [MemStr.step, Arith.gen, Arr.step, MemStr.abs, Flavor.string, msSeek_spec hp, hp, if_true]
    close3 ⟨hl, hp⟩
  | tell =>
    simp only [MemStr.step, Arr.step, MemStr.abs]
    close3 ⟨hl, hc⟩

/-! ### FileStream -/

def File.abs (s : File) : Arr := { data := s.data, cur := s.pos }

theorem file_step (s : File) (op : Op) (hop : op.fits64) :
    (File.step s op).1 = (Arr.step Flavor.file s.abs op).1 ∧
    (File.step s op).2.abs = (Arr.step Flavor.file s.abs op).2 := by
  cases op with
  | read n =>
    simp only [File.step, File.fread, Arr.step, File.abs, Flavor.file]
    by_cases hcl : s.pos ≤ s.data.length
    · simp [hcl]
    · have hnil : peek s.data s.pos n = [] := peek_nil_of_le _ _ _ (by omega)
      simp [hcl, hnil]
  | write bs =>
    simp only [File.step, File.fwrite, Arr.step, File.abs, Flavor.file, fsWriteRet_spec]
    by_cases he : bs = []
    · subst he; simp
    · simp [he]
  | seek p =>
    have hp : p < M64 := hop
    simp only [File.step, File.fseekSet, Arr.step, File.abs, Flavor.file, fsSeekOff_spec hp]
    by_cases h : p < 9223372036854775808
    · simp [h]
    · simp [h]
  | tell => simp [File.step, Arr.step, File.abs]

end DmlcModel.Streams
