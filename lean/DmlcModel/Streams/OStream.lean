/-
`ostream::OutBuf` under the libstdc++ put protocol: invariant, effect of every operation, histories.
-/
import DmlcModel.Streams.Lemmas

namespace DmlcModel.Streams
open DmlcModel DmlcModel.Gen.Streams

/-- representation invariant of an `OutBuf` that was set up by the constructor / `set_stream` -/
structure OInv (s : OBuf) : Prop where
  len : s.buf.length = s.cap
  pos : 1 ≤ s.cap
  small : s.cap < 2147483648
  ep : s.epptr = s.cap - 1
  pp : s.pptr ≤ s.epptr
  cnt : s.count < M64

/-- the bytes sitting in the put area `[pbase, pptr)` -/
def OBuf.pending (s : OBuf) : Bytes := s.buf.take s.pptr

/-- effect of a put-side operation: `cs` are the `Stream::Write` calls made, `ins` the bytes inserted -/
structure OEff (s s' : OBuf) (cs : List Bytes) (ins : Bytes) : Prop where
  inv : OInv s'
  cap : s'.cap = s.cap
  bytes : cs.flatten ++ s'.pending = s.pending ++ ins
  count : s'.count = u64 (s.count + cs.flatten.length)

theorem OInv.pending_length {s : OBuf} (h : OInv s) : s.pending.length = s.pptr := by
  have := h.len; have := h.pp; have := h.ep; have := h.pos
  simp only [OBuf.pending, List.length_take]; omega

theorem OEff.refl {s : OBuf} (h : OInv s) : OEff s s [] [] :=
  ⟨h, rfl, by simp, by simp [u64_of_lt h.cnt]⟩

theorem OEff.trans {s s1 s2 : OBuf} {cs1 cs2 : List Bytes} {i1 i2 : Bytes}
    (h1 : OEff s s1 cs1 i1) (h2 : OEff s1 s2 cs2 i2) : OEff s s2 (cs1 ++ cs2) (i1 ++ i2) := by
  refine ⟨h2.inv, by rw [h2.cap, h1.cap], ?_, ?_⟩
  · rw [List.flatten_append, List.append_assoc, h2.bytes, ← List.append_assoc, h1.bytes, List.append_assoc]
  · rw [h2.count, h1.count, u64_add_u64, List.flatten_append, List.length_append, Nat.add_assoc]

theorem create_inv (b : Nat) (hb : b < 2147483648) :
    OInv (OBuf.create b) ∧ (OBuf.create b).pending = [] ∧ (OBuf.create b).count = 0 := by
  have key : ∀ cap : Nat, 1 ≤ cap → cap < 2147483648 →
      OInv { cap := cap, buf := zeros cap, pptr := 0, epptr := obPutEnd cap, count := 0 } :=
    fun cap h1 h2 => ⟨zeros_length cap, h1, h2, obPutEnd_spec h1 (by omega), Nat.zero_le _, by simp⟩
  unfold OBuf.create
  simp only [obZero_spec, obZeroSize_spec]
  by_cases h0 : b = 0
  · simp only [h0, decide_true, if_true]
    exact ⟨key 2 (by omega) (by omega), by simp [OBuf.pending], trivial⟩
  · simp only [h0, decide_false, if_false, Bool.false_eq_true]
    exact ⟨key b (by omega) hb, by simp [OBuf.pending], trivial⟩

/-- `sync()`: hands the pending bytes to the stream, empties the put area -/
theorem sync_eff (s : OBuf) (h : OInv s) :
    ∃ s', s.sync = some (s', [s.pending]) ∧ OEff s s' [s.pending] [] ∧ s'.pptr = 0 := by
  have hp : s.pptr < M64 := by have := h.pp; have := h.ep; have := h.small; omega
  have hpc : s.pptr ≤ s.cap := by have := h.pp; have := h.ep; omega
  have hb : bump s.pptr (sub32 0 (u32 s.pptr)) = some (s.pptr - s.pptr) :=
    bump_neg (by have := h.small; omega) (Nat.le_refl _) (by have := h.small; omega)
  refine ⟨{ s with pptr := 0, count := u64 (s.count + s.pptr) }, ?_, ⟨?_, rfl, ?_, ?_⟩, rfl⟩
  · unfold OBuf.sync
    simp only [obSyncN_spec hp, obSyncLen_spec, obSyncBump_spec, obSyncCount_spec, hpc, if_true, hb,
      Nat.sub_self, OBuf.pending]
  · exact ⟨h.len, h.pos, h.small, h.ep, Nat.zero_le _, u64_lt _⟩
  · simp [OBuf.pending]
  · simp only [List.flatten_cons, List.flatten_nil, List.append_nil, h.pending_length]

/-- `overflow(c)` for a character: hands pending bytes + `c` to the stream -/
theorem overflow_eff (s : OBuf) (h : OInv s) (c : Byte) :
    ∃ s', s.overflow c.toNat = some (s', [s.pending ++ [c]]) ∧ OEff s s' [s.pending ++ [c]] [c] ∧ s'.pptr = 0 := by
  have hsm := h.small; have hep := h.ep; have hpp := h.pp; have hpos := h.pos; have hlen := h.len
  have hp : s.pptr < M64 := by omega
  have hpc : s.pptr < s.cap := by omega
  have hb : bump s.pptr (sub32 0 (u32 s.pptr)) = some (s.pptr - s.pptr) :=
    bump_neg (by omega) (Nat.le_refl _) (by omega)
  have hne : ¬ c.toNat = eofInt := by have := c.toNat_lt; unfold eofInt; omega
  have htk : (poke s.buf s.pptr [c]).take (s.pptr + 1) = s.pending ++ [c] :=
    poke_take s.buf s.pptr [c] (by omega)
  refine ⟨{ s with buf := poke s.buf s.pptr [c], pptr := 0, count := u64 (s.count + (s.pptr + 1)) }, ?_,
    ⟨?_, rfl, ?_, ?_⟩, rfl⟩
  · unfold OBuf.overflow
    have hle : s.pptr + 1 ≤ s.cap := by omega
    simp only [hpc, if_true, obOvN_spec hp, obOvBump_spec, hb, obOvIsEof_spec, hne, decide_false,
      Bool.false_eq_true, if_false, obOvLen_spec (show s.pptr + 1 < M64 by omega), hle,
      obOvCount_spec (show s.pptr + 1 < M64 by omega), Nat.sub_self, UInt8.ofNat_toNat, htk]
  · refine ⟨?_, hpos, hsm, hep, Nat.zero_le _, u64_lt _⟩
    simp only; rw [poke_length_fit _ _ _ (by simp only [List.length_singleton]; omega)]; exact hlen
  · simp [OBuf.pending]
  · simp only [List.flatten_cons, List.flatten_nil, List.append_nil, List.length_append, h.pending_length,
      List.length_singleton]

/-- `overflow(EOF)`: hands the pending bytes to the stream -/
theorem overflow_eof_eff (s : OBuf) (h : OInv s) :
    ∃ s', s.overflow eofInt = some (s', [s.pending]) ∧ OEff s s' [s.pending] [] ∧ s'.pptr = 0 := by
  have hsm := h.small; have hep := h.ep; have hpp := h.pp; have hpos := h.pos; have hlen := h.len
  have hp : s.pptr < M64 := by omega
  have hpc : s.pptr < s.cap := by omega
  have hb : bump s.pptr (sub32 0 (u32 s.pptr)) = some (s.pptr - s.pptr) :=
    bump_neg (by omega) (Nat.le_refl _) (by omega)
  have htk : (poke s.buf s.pptr [UInt8.ofNat eofInt]).take s.pptr = s.pending :=
    poke_take_before s.buf s.pptr _ (by omega)
  refine ⟨{ s with buf := poke s.buf s.pptr [UInt8.ofNat eofInt], pptr := 0, count := u64 (s.count + s.pptr) }, ?_,
    ⟨?_, rfl, ?_, ?_⟩, rfl⟩
  · unfold OBuf.overflow
    have hle : s.pptr ≤ s.cap := by omega
    simp only [hpc, if_true, obOvN_spec hp, obOvBump_spec, hb, obOvIsEof_spec, decide_true,
      obOvEofLen_spec, hle, obOvEofCount_spec, Nat.sub_self, htk]
  · refine ⟨?_, hpos, hsm, hep, Nat.zero_le _, u64_lt _⟩
    simp only; rw [poke_length_fit _ _ _ (by simp only [List.length_singleton]; omega)]; exact hlen
  · simp [OBuf.pending]
  · simp only [List.flatten_cons, List.flatten_nil, List.append_nil, h.pending_length]

/-- copying `bs` into the put area when it has room for them -/
theorem fill_eff (s : OBuf) (h : OInv s) (bs : Bytes) (hroom : s.pptr + bs.length ≤ s.epptr) :
    OEff s (s.fill bs) [] bs := by
  have hsm := h.small; have hep := h.ep; have hpp := h.pp; have hpos := h.pos; have hlen := h.len
  refine ⟨⟨?_, hpos, hsm, hep, hroom, h.cnt⟩, rfl, ?_, ?_⟩
  · simp only [OBuf.fill]; rw [poke_length_fit _ _ _ (by omega)]; exact hlen
  · simp only [OBuf.fill, OBuf.pending, List.flatten_nil, List.nil_append]
    exact poke_take s.buf s.pptr bs (by omega)
  · simp [OBuf.fill, u64_of_lt h.cnt]

theorem sputc_eff (s : OBuf) (h : OInv s) (c : Byte) :
    ∃ s' cs, s.sputc c = some (s', cs) ∧ OEff s s' cs [c] := by
  unfold OBuf.sputc
  by_cases hr : s.pptr < s.epptr
  · have hpc : s.pptr < s.cap := by have := h.ep; have := h.pos; omega
    simp only [hr, hpc, if_true]
    exact ⟨_, _, rfl, fill_eff s h [c] (by simp only [List.length_singleton]; omega)⟩
  · simp only [hr, if_false]
    obtain ⟨s', h1, h2, _⟩ := overflow_eff s h c
    exact ⟨s', _, h1, h2⟩

theorem xsputnGo_eff : ∀ (fuel : Nat) (s : OBuf) (src : Bytes) (calls : List Bytes), OInv s → src.length < fuel →
    ∃ s' cs, OBuf.xsputnGo fuel s src calls = some (s', calls ++ cs) ∧ OEff s s' cs src := by
  intro fuel
  induction fuel with
  | zero => intro s src calls _ hf; omega
  | succ fuel ih =>
    intro s src calls h hf
    have hsm := h.small; have hep := h.ep; have hpp := h.pp; have hpos := h.pos; have hlen := h.len
    unfold OBuf.xsputnGo
    by_cases hnil : src = []
    · subst hnil
      simp only [if_true]
      exact ⟨s, [], by simp, OEff.refl h⟩
    · have hng : ¬ s.epptr < s.pptr := by omega
      have hk : s.pptr + min (s.epptr - s.pptr) src.length ≤ s.cap := by omega
      simp only [hnil, if_false, hng, hk, if_true]
      have htl : (src.take (min (s.epptr - s.pptr) src.length)).length = min (s.epptr - s.pptr) src.length := by
        rw [List.length_take]; omega
      have hfill := fill_eff s h (src.take (min (s.epptr - s.pptr) src.length)) (by rw [htl]; omega)
      have hsplit := List.take_append_drop (min (s.epptr - s.pptr) src.length) src
      cases hd : src.drop (min (s.epptr - s.pptr) src.length) with
      | nil =>
        simp only
        rw [hd, List.append_nil] at hsplit
        rw [hsplit] at hfill ⊢
        exact ⟨s.fill src, [], by simp, hfill⟩
      | cons c rest =>
        simp only
        obtain ⟨s2, ho, heff2, _⟩ := overflow_eff _ hfill.inv c
        rw [ho]
        simp only
        have hrl : rest.length < fuel := by
          have : (src.drop (min (s.epptr - s.pptr) src.length)).length = rest.length + 1 := by rw [hd]; simp
          rw [List.length_drop] at this; omega
        obtain ⟨s', cs', hrun, heff3⟩ := ih s2 rest (calls ++ [(s.fill (src.take (min (s.epptr - s.pptr) src.length))).pending ++ [c]])
          heff2.inv hrl
        refine ⟨s', [(s.fill (src.take (min (s.epptr - s.pptr) src.length))).pending ++ [c]] ++ cs', ?_, ?_⟩
        · rw [hrun, List.append_assoc]
        · have := (hfill.trans heff2).trans heff3
          rw [hd] at hsplit
          simpa [hsplit, List.append_assoc] using this

theorem xsputn_eff (s : OBuf) (h : OInv s) (src : Bytes) :
    ∃ s' cs, s.xsputn src = some (s', cs) ∧ OEff s s' cs src := by
  obtain ⟨s', cs, h1, h2⟩ := xsputnGo_eff (src.length + 1) s src [] h (by omega)
  rw [List.nil_append] at h1
  exact ⟨s', cs, h1, h2⟩

theorem setStream_eff (s : OBuf) (h : OInv s) :
    ∃ s', s.setStream = some (s', [s.pending]) ∧ OEff s s' [s.pending] [] ∧ s'.pptr = 0 := by
  obtain ⟨s1, h1, h2, h3⟩ := sync_eff s h
  have hi := h2.inv
  have hep : obPutEnd s1.cap = s1.cap - 1 := obPutEnd_spec hi.pos (by have := hi.small; omega)
  refine ⟨s1.setp, ?_, ?_, rfl⟩
  · unfold OBuf.setStream; rw [h1]; rfl
  · refine ⟨⟨hi.len, hi.pos, hi.small, hep, Nat.zero_le _, hi.cnt⟩, h2.cap, ?_, h2.count⟩
    have := h2.bytes
    simp only [OBuf.pending, OBuf.setp, h3, List.take_zero] at this ⊢
    exact this

/-- the operations that leave the put area empty -/
def OOp.syncs : OOp → Bool
  | .flush | .reattach | .setStream _ | .ovEof | .destroy => true
  | _ => false

/-- every operation on an `OutBuf` in a good state succeeds (no access outside `buffer_`) and has
the stated effect -/
theorem apply_eff (s : OBuf) (h : OInv s) (op : OOp) :
    ∃ s' cs, s.apply op = some (s', cs) ∧ OEff s s' cs (inserted [op]) ∧ (op.syncs = true → s'.pending = []) := by
  cases op with
  | put c =>
    obtain ⟨s', cs, h1, h2⟩ := sputc_eff s h c
    exact ⟨s', cs, h1, by simpa [inserted] using h2, by simp [OOp.syncs]⟩
  | write bs =>
    obtain ⟨s', cs, h1, h2⟩ := xsputn_eff s h bs
    exact ⟨s', cs, h1, by simpa [inserted] using h2, by simp [OOp.syncs]⟩
  | flush =>
    obtain ⟨s', h1, h2, h3⟩ := sync_eff s h
    exact ⟨s', _, h1, by simpa [inserted] using h2, fun _ => by simp [OBuf.pending, h3]⟩
  | reattach =>
    obtain ⟨s', h1, h2, h3⟩ := setStream_eff s h
    exact ⟨s', _, h1, by simpa [inserted] using h2, fun _ => by simp [OBuf.pending, h3]⟩
  | setStream j =>
    obtain ⟨s', h1, h2, h3⟩ := setStream_eff s h
    exact ⟨s', _, h1, by simpa [inserted] using h2, fun _ => by simp [OBuf.pending, h3]⟩
  | ovEof =>
    obtain ⟨s', h1, h2, h3⟩ := overflow_eof_eff s h
    exact ⟨s', _, h1, by simpa [inserted] using h2, fun _ => by simp [OBuf.pending, h3]⟩
  | destroy =>
    obtain ⟨s', h1, h2, h3⟩ := sync_eff s h
    exact ⟨s', _, h1, by simpa [inserted] using h2, fun _ => by simp [OBuf.pending, h3]⟩
  | useek p =>
    exact ⟨s, [], rfl, by simpa [inserted] using OEff.refl h, by simp [OOp.syncs]⟩

theorem inserted_append (a b : List OOp) : inserted (a ++ b) = inserted a ++ inserted b := by
  induction a with
  | nil => rfl
  | cons op a ih => cases op <;> simp [inserted, ih]

theorem inserted_cons (op : OOp) (ops : List OOp) : inserted (op :: ops) = inserted [op] ++ inserted ops :=
  inserted_append [op] ops

/-- the adaptor part of a step of adaptor + streams is the step of the adaptor -/
theorem OSt.step_of_apply (s : OSt) (op : OOp) (ob1 : OBuf) (cs : List Bytes) (ha : s.ob.apply op = some (ob1, cs)) :
    ∃ s1 : OSt, s.step op = some (s1, cs) ∧ s1.ob = ob1 := by
  unfold OSt.step; rw [ha]
  cases op with
  | setStream j =>
    simp only
    cases (s.parked.set s.idx (cs.foldl sinkWrite s.sink))[j]? with
    | none => exact ⟨_, rfl, rfl⟩
    | some a => exact ⟨_, rfl, rfl⟩
  | put c => exact ⟨_, rfl, rfl⟩
  | write bs => exact ⟨_, rfl, rfl⟩
  | flush => exact ⟨_, rfl, rfl⟩
  | reattach => exact ⟨_, rfl, rfl⟩
  | ovEof => exact ⟨_, rfl, rfl⟩
  | destroy => exact ⟨_, rfl, rfl⟩
  | useek p => exact ⟨_, rfl, rfl⟩

/-- `set_stream(stream j)` on adaptor + streams (proved through a generic operation so that nothing unfolds
the arithmetic of `sync`) -/
theorem OSt.step_setStream (s : OSt) (j : Nat) (ob1 : OBuf) (cs : List Bytes) (ha : s.ob.setStream = some (ob1, cs)) :
    s.step (.setStream j) =
      match (s.parked.set s.idx (cs.foldl sinkWrite s.sink))[j]? with
      | none => some ({ s with ob := ob1, sink := cs.foldl sinkWrite s.sink }, cs)
      | some a => some ({ ob := ob1, sink := a, idx := j, parked := s.parked.set s.idx (cs.foldl sinkWrite s.sink) }, cs) := by
  have key : ∀ op, op = OOp.setStream j → s.ob.apply op = some (ob1, cs) → s.step op =
      match (s.parked.set s.idx (cs.foldl sinkWrite s.sink))[j]? with
      | none => some ({ s with ob := ob1, sink := cs.foldl sinkWrite s.sink }, cs)
      | some a => some ({ ob := ob1, sink := a, idx := j, parked := s.parked.set s.idx (cs.foldl sinkWrite s.sink) }, cs) := by
    intro op hop hap
    unfold OSt.step; rw [hap]; subst hop; rfl
  exact key _ rfl ha

/-- histories: never `ub`, the calls made plus the pending bytes are exactly the inserted bytes -/
theorem orun_eff : ∀ (ops : List OOp) (s : OSt), OInv s.ob →
    ∃ s' cs, orun s ops = some (s', cs) ∧ OEff s.ob s'.ob cs (inserted ops) := by
  intro ops
  induction ops with
  | nil => intro s h; exact ⟨s, [], rfl, OEff.refl h⟩
  | cons op ops ih =>
    intro s h
    obtain ⟨ob1, cs1, ha, heff1, _⟩ := apply_eff s.ob h op
    obtain ⟨s1, hs1, hob⟩ := OSt.step_of_apply s op ob1 cs1 ha
    obtain ⟨s2, cs2, hr, heff2⟩ := ih s1 (by rw [hob]; exact heff1.inv)
    refine ⟨s2, cs1 ++ cs2, ?_, ?_⟩
    · simp only [orun, hs1, hr]
    · rw [inserted_cons]; rw [hob] at heff2; exact heff1.trans heff2

theorem orun_append (a b : List OOp) (s : OSt) :
    orun s (a ++ b) = match orun s a with
      | none => none
      | some (s1, cs1) => match orun s1 b with
        | none => none
        | some (s2, cs2) => some (s2, cs1 ++ cs2) := by
  induction a generalizing s with
  | nil =>
    simp only [List.nil_append, orun]
    cases orun s b with
    | none => rfl
    | some r => cases r; simp
  | cons op a ih =>
    simp only [List.cons_append, orun]
    cases hs : s.step op with
    | none => rfl
    | some r =>
      obtain ⟨s1, cs⟩ := r
      simp only [ih s1]
      cases orun s1 a with
      | none => rfl
      | some r1 =>
        obtain ⟨s2, cs2⟩ := r1
        simp only
        cases orun s2 b with
        | none => rfl
        | some r2 => obtain ⟨s3, cs3⟩ := r2; simp [List.append_assoc]

end DmlcModel.Streams
