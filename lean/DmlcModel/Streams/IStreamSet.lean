/-
`dmlc::istream` as a whole: state bits of the `basic_istream`, `set_stream`, several streams.
-/
import DmlcModel.Streams.IStream

namespace DmlcModel.Streams
open DmlcModel DmlcModel.Gen.Streams

/-- every streambuf-level operation succeeds in a good state (no access outside `buffer_`) -/
theorem istep_total (s : ISt) (h : IInv s) (op : IOp) : ∃ s' o, s.step op = some (s', o) ∧ IInv s' := by
  by_cases hs : op.isSeek = true
  · cases op with
    | useek p =>
      obtain ⟨s1, h1, h2, _⟩ := iseek_inv s h p
      exact ⟨s1, _, h1, h2⟩
    | get => simp [IOp.isSeek] at hs
    | peek => simp [IOp.isSeek] at hs
    | read n => simp [IOp.isSeek] at hs
  · obtain ⟨s1, h1, _, h2⟩ := istep_eff s h op (by simpa using hs)
    exact ⟨s1, _, h1, h2.inv⟩

/-- `InBuf::set_stream` + attaching stream `a`: the get area is empty, everything ahead is what `a`
provides from its cursor on, `bytes_read_` continues -/
theorem attach_inv (s : ISt) (h : IInv s) (a : Arr) :
    IInv { ib := s.ib.setStream, src := a } ∧
    ISt.ahead { ib := s.ib.setStream, src := a } = a.data.drop a.cur ∧
    (IBuf.setStream s.ib).count = s.ib.count := by
  refine ⟨⟨h.len, h.pos, h.small, Nat.le_refl _, Nat.zero_le _, h.cnt⟩, ?_, rfl⟩
  simp [ISt.ahead, ISt.buffered, IBuf.setStream, peek]

theorem getElem?_set_lt {α : Type} (l : List α) (i j : Nat) (x : α) (hj : j < l.length) :
    ∃ a, (l.set i x)[j]? = some a := by
  have : j < (l.set i x).length := by simpa using hj
  exact ⟨(l.set i x)[j], List.getElem?_eq_getElem this⟩

/-- no history of operations on the `dmlc::istream` -- extractions through the stream or its rdbuf,
`clear`, `set_stream` to any stream, seeks of any stream -- touches memory outside the buffer -/
theorem frun_total : ∀ (ops : List FOp) (s : IOS), IInv s.st →
    ∃ s' outs pr, frun s ops = some (s', outs, pr) ∧ IInv s'.st := by
  intro ops
  induction ops with
  | nil => intro s h; exact ⟨s, [], [], rfl, h⟩
  | cons op ops ih =>
    intro s h
    have hstep : ∃ s1 o, s.step op = some (s1, o) ∧ IInv s1.st := by
      cases op with
      | get =>
        simp only [IOS.step, IOS.extract]
        by_cases hb : (s.eofbit || s.failbit) = true
        · simp only [hb, if_true]; exact ⟨_, _, rfl, h⟩
        · obtain ⟨s1, o, h1, h2⟩ := istep_total s.st h .get
          simp only [hb, if_false, h1, Option.map, Bool.false_eq_true]; exact ⟨_, _, rfl, h2⟩
      | peek =>
        simp only [IOS.step, IOS.extract]
        by_cases hb : (s.eofbit || s.failbit) = true
        · simp only [hb, if_true]; exact ⟨_, _, rfl, h⟩
        · obtain ⟨s1, o, h1, h2⟩ := istep_total s.st h .peek
          simp only [hb, if_false, h1, Option.map, Bool.false_eq_true]; exact ⟨_, _, rfl, h2⟩
      | read n =>
        simp only [IOS.step, IOS.extract]
        by_cases hb : (s.eofbit || s.failbit) = true
        · simp only [hb, if_true]; exact ⟨_, _, rfl, h⟩
        · obtain ⟨s1, o, h1, h2⟩ := istep_total s.st h (.read n)
          simp only [hb, if_false, h1, Option.map, Bool.false_eq_true]; exact ⟨_, _, rfl, h2⟩
      | raw iop =>
        obtain ⟨s1, o, h1, h2⟩ := istep_total s.st h iop
        simp only [IOS.step, h1, Option.map]; exact ⟨_, _, rfl, h2⟩
      | clear => exact ⟨_, _, rfl, h⟩
      | useek j p =>
        simp only [IOS.step]
        by_cases hj : j = s.idx
        · simp only [hj, if_true]
          exact ⟨_, _, rfl, ⟨h.len, h.pos, h.small, h.ge, h.ee, h.cnt⟩⟩
        · simp only [hj, if_false]
          cases s.parked[j]? with
          | none => exact ⟨_, _, rfl, h⟩
          | some a => exact ⟨_, _, rfl, h⟩
      | setStream j =>
        simp only [IOS.step]
        cases (s.parked.set s.idx s.st.src)[j]? with
        | none => exact ⟨_, _, rfl, h⟩
        | some a => exact ⟨_, _, rfl, (attach_inv s.st h a).1⟩
    obtain ⟨s1, o, h1, h2⟩ := hstep
    obtain ⟨s2, os, pr, h3, h4⟩ := ih s1 h2
    exact ⟨s2, o :: os, s.attachProvides op ++ pr, by simp only [frun, h1, h3], h4⟩

/-! ### specification: an in-order consumer with state bits; `set_stream` starts on what the newly
attached stream provides and clears the state bits -/

structure FSpec where
  rest : Bytes
  eofbit : Bool
  failbit : Bool
  deriving Repr, DecidableEq

def FSpec.extract (c : FSpec) (op : FOp) (iop : IOp) : FSpec × IOut :=
  if c.eofbit || c.failbit then ({ c with failbit := true }, sentryFail op)
  else ({ rest := (ispec c.rest iop).1, eofbit := (shortFlags op (ispec c.rest iop).2).1,
          failbit := (shortFlags op (ispec c.rest iop).2).2 }, (ispec c.rest iop).2)

/-- `prov` = what the streams attached by the `set_stream` calls of the history provide, in order -/
def fspecStep (c : FSpec) (prov : List Bytes) : FOp → FSpec × List Bytes × IOut
  | .get => ((c.extract .get .get).1, prov, (c.extract .get .get).2)
  | .peek => ((c.extract .peek .peek).1, prov, (c.extract .peek .peek).2)
  | .read n => ((c.extract (.read n) (.read n)).1, prov, (c.extract (.read n) (.read n)).2)
  | .raw iop => ({ c with rest := (ispec c.rest iop).1 }, prov, (ispec c.rest iop).2)
  | .clear => ({ c with eofbit := false, failbit := false }, prov, .unit)
  | .useek _ _ => (c, prov, .unit)
  | .setStream _ =>
    match prov with
    | p :: pr => ({ rest := p, eofbit := false, failbit := false }, pr, .unit)
    | [] => (c, [], .unit)

def fspecRun : FSpec → List Bytes → List FOp → List IOut
  | _, _, [] => []
  | c, prov, op :: ops => (fspecStep c prov op).2.2 :: fspecRun (fspecStep c prov op).1 (fspecStep c prov op).2.1 ops

/-- histories the specification speaks about: `set_stream` names an existing stream (`n` streams), and
the attached stream is not repositioned behind the adaptor's back while it is attached (a stream may
be repositioned while detached, e.g. before it is attached again) -/
def okHistory (n : Nat) : Nat → List FOp → Prop
  | _, [] => True
  | _, .setStream j :: ops => j < n ∧ okHistory n j ops
  | idx, .useek j _ :: ops => j ≠ idx ∧ okHistory n idx ops
  | idx, .raw iop :: ops => iop.isSeek = false ∧ okHistory n idx ops
  | idx, .get :: ops => okHistory n idx ops
  | idx, .peek :: ops => okHistory n idx ops
  | idx, .read _ :: ops => okHistory n idx ops
  | idx, .clear :: ops => okHistory n idx ops

structure FRel (n : Nat) (s : IOS) (c : FSpec) : Prop where
  inv : IInv s.st
  rest : c.rest = s.st.ahead
  eofbit : c.eofbit = s.eofbit
  failbit : c.failbit = s.failbit
  len : s.parked.length = n
  idx : s.idx < n

theorem extract_rel (n : Nat) (s : IOS) (c : FSpec) (r : FRel n s c) (op : FOp) (iop : IOp) (hs : iop.isSeek = false) :
    ∃ s1, s.extract op iop = some (s1, (c.extract op iop).2) ∧ FRel n s1 (c.extract op iop).1 ∧ s1.idx = s.idx := by
  unfold IOS.extract FSpec.extract
  rw [r.eofbit, r.failbit]
  by_cases hb : (s.eofbit || s.failbit) = true
  · simp only [hb, if_true]
    exact ⟨_, rfl, ⟨r.inv, r.rest, rfl, rfl, r.len, r.idx⟩, rfl⟩
  · obtain ⟨s1, h1, hA, heff⟩ := istep_eff s.st r.inv iop hs
    simp only [hb, if_false, h1, Option.map, Bool.false_eq_true, r.rest]
    exact ⟨_, rfl, ⟨heff.inv, hA.symm, rfl, rfl, r.len, r.idx⟩, rfl⟩

/-- histories with `set_stream`: the outputs are those of the in-order consumer that starts afresh
(state bits cleared) on what each newly attached stream provides -/
theorem frun_spec (n : Nat) : ∀ (ops : List FOp) (s : IOS) (c : FSpec), FRel n s c → okHistory n s.idx ops →
    ∃ s' pr, frun s ops = some (s', fspecRun c pr ops, pr) := by
  intro ops
  induction ops with
  | nil => intro s c _ _; exact ⟨s, [], rfl⟩
  | cons op ops ih =>
    intro s c r hok
    -- one step: same output, related states, the provides entry is consumed by the specification
    have hstep : ∃ s1, s.step op = some (s1, (fspecStep c (s.attachProvides op ++ []) op).2.2) ∧
        (∀ pr, fspecStep c (s.attachProvides op ++ pr) op =
          ((fspecStep c (s.attachProvides op ++ []) op).1, pr, (fspecStep c (s.attachProvides op ++ []) op).2.2)) ∧
        FRel n s1 (fspecStep c (s.attachProvides op ++ []) op).1 ∧ okHistory n s1.idx ops := by
      cases op with
      | get =>
        obtain ⟨s1, h1, h2, h3⟩ := extract_rel n s c r .get .get rfl
        exact ⟨s1, h1, fun _ => rfl, h2, by rw [h3]; exact hok⟩
      | peek =>
        obtain ⟨s1, h1, h2, h3⟩ := extract_rel n s c r .peek .peek rfl
        exact ⟨s1, h1, fun _ => rfl, h2, by rw [h3]; exact hok⟩
      | read k =>
        obtain ⟨s1, h1, h2, h3⟩ := extract_rel n s c r (.read k) (.read k) rfl
        exact ⟨s1, h1, fun _ => rfl, h2, by rw [h3]; exact hok⟩
      | raw iop =>
        obtain ⟨s1, h1, hA, heff⟩ := istep_eff s.st r.inv iop hok.1
        refine ⟨{ s with st := s1 }, ?_, fun _ => rfl, ⟨heff.inv, ?_, r.eofbit, r.failbit, r.len, r.idx⟩, hok.2⟩
        · simp only [IOS.step, h1, Option.map, fspecStep, IOS.attachProvides, r.rest]
        · simp only [fspecStep, IOS.attachProvides, r.rest]; exact hA.symm
      | clear =>
        exact ⟨_, rfl, fun _ => rfl, ⟨r.inv, r.rest, rfl, rfl, r.len, r.idx⟩, hok⟩
      | useek j p =>
        have hj : j ≠ s.idx := hok.1
        simp only [IOS.step, hj, if_false]
        cases s.parked[j]? with
        | none => exact ⟨_, rfl, fun _ => rfl, r, hok.2⟩
        | some a =>
          exact ⟨_, rfl, fun _ => rfl, ⟨r.inv, r.rest, r.eofbit, r.failbit, by simp [r.len], r.idx⟩, hok.2⟩
      | setStream j =>
        have hj : j < n := hok.1
        obtain ⟨a, ha⟩ := getElem?_set_lt s.parked s.idx j s.st.src (by rw [r.len]; exact hj)
        obtain ⟨hinv, hah, _⟩ := attach_inv s.st r.inv a
        have hs : s.step (.setStream j) = some (IOS.mk (ISt.mk s.st.ib.setStream a) j (s.parked.set s.idx s.st.src) false false, .unit) := by
          simp only [IOS.step, ha, isSetStreamRdbuf_spec, if_true]
        have hp : s.attachProvides (.setStream j) = [a.data.drop a.cur] := by simp only [IOS.attachProvides, ha]
        refine ⟨IOS.mk (ISt.mk s.st.ib.setStream a) j (s.parked.set s.idx s.st.src) false false, ?_, ?_, ?_, hok.2⟩
        · rw [hs, hp]; rfl
        · intro pr; rw [hp]; rfl
        · rw [hp]; exact ⟨hinv, hah.symm, rfl, rfl, by simp [r.len], hj⟩
    obtain ⟨s1, h1, hpr, hrel, hok1⟩ := hstep
    obtain ⟨s2, pr, h3⟩ := ih s1 _ hrel hok1
    refine ⟨s2, s.attachProvides op ++ pr, ?_⟩
    simp only [frun, h1, h3, fspecRun, hpr pr]

end DmlcModel.Streams
