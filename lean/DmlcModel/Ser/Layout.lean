/-
The documented byte layout, written down independently of the handlers (a function of the stream's
byte order only), and the proof that the handlers produce it.
-/
import DmlcModel.Ser.RoundTrip

set_option linter.unusedSimpArgs false

namespace DmlcModel.Ser
open DmlcModel

/-- an `n`-byte scalar in the stream's byte order: least significant byte first iff `ioLE` -/
def scalar (ioLE : Bool) (n v : Nat) : Bytes :=
  let lsbFirst := (List.range n).map fun i => UInt8.ofNat (v / 256 ^ i % 256)
  if ioLE then lsbFirst else lsbFirst.reverse

/-- 64-bit element count, then the elements in iteration order -/
def counted {α : Type} (ioLE : Bool) (f : α → Bytes) (xs : List α) : Bytes :=
  scalar ioLE 8 xs.length ++ xs.flatMap f

/-- the documented layout: scalars in the stream's byte order, 64-bit counts, elements in iteration
order, pair members (and the fields of a class) one after the other, strings as count + characters;
a plain POD struct is its memory image (outside the property) -/
def layout (ioLE : Bool) : (t : Ty) → Val t → Bytes
  | .arith _ n, v => scalar ioLE n v
  | .str, bs => scalar ioLE 8 (List.length bs) ++ bs
  | .pair a b, p => layout ioLE a p.1 ++ layout ioLE b p.2
  | .vec t, xs => counted ioLE (layout ioLE t) xs
  | .list t, xs => counted ioLE (layout ioLE t) xs
  | .deque t, xs => counted ioLE (layout ioLE t) xs
  | .set t, xs => counted ioLE (layout ioLE t) xs
  | .mset t, xs => counted ioLE (layout ioLE t) xs
  | .uset t, xs => counted ioLE (layout ioLE t) xs
  | .map k v, xs => counted ioLE (fun p : Val k × Val v => layout ioLE k p.1 ++ layout ioLE v p.2) xs
  | .mmap k v, xs => counted ioLE (fun p : Val k × Val v => layout ioLE k p.1 ++ layout ioLE v p.2) xs
  | .umap k v, xs => counted ioLE (fun p : Val k × Val v => layout ioLE k p.1 ++ layout ioLE v p.2) xs
  | .cnil, _ => []
  | .ccons f r, p => layout ioLE f p.1 ++ layout ioLE r p.2
  | .pod _ _, bs => bs

theorem toLE_eq_range (n v : Nat) :
    toLE n v = (List.range n).map fun i => UInt8.ofNat (v / 256 ^ i % 256) := by
  induction n generalizing v with
  | zero => rfl
  | succ n ih =>
    rw [toLE, ih, List.range_succ_eq_map, List.map_cons, List.map_map]
    congr 1
    · simp
    · apply List.map_congr_left
      intro i _
      simp only [Function.comp, Nat.pow_succ]
      rw [Nat.div_div_eq_div_mul, Nat.mul_comm]

theorem image_eq_scalar (le : Bool) (n v : Nat) : image le n v = scalar le n v := by
  unfold image scalar
  rw [toLE_eq_range]

/-! ### the handlers in terms of their element encoders -/

theorem flatMap_congr' {α : Type} (f g : α → Bytes) (xs : List α) (h : ∀ x ∈ xs, f x = g x) :
    xs.flatMap f = xs.flatMap g := by
  induction xs with
  | nil => rfl
  | cons x xs ih => simp [List.flatMap_cons, h x (by simp), ih (fun y hy => h y (by simp [hy]))]

theorem vecWrite_eq {α : Type} (c : Cfg) (podT : Bool) (raw enc : α → Bytes) (lay : α → Bytes) (xs : List α)
    (hlen : xs.length < 2 ^ 64)
    (hraw : (podT && c.noSwap) = true → ∀ x ∈ xs, raw x = enc x)
    (hl : ∀ x ∈ xs, enc x = lay x) :
    vecWrite c podT raw enc xs = counted c.ioLE lay xs := by
  unfold vecWrite counted
  have e : (256 : Nat) ^ 8 = 2 ^ 64 := by decide
  rw [vecRawW_eq, countBytes_eq, e, Nat.mod_eq_of_lt hlen, countWrite_eq c _ hlen, image_eq_scalar]
  cases hp : (podT && c.noSwap)
  · simp only [Bool.false_eq_true, if_false]
    rw [flatMap_congr' enc lay xs hl]
  · simp only [if_true]
    cases xs with
    | nil => simp
    | cons x xs' =>
      have hne : ((x :: xs').length != 0) = true := by simp
      simp only [hne, if_true]
      rw [flatMap_congr' raw lay _ (fun y hy => (hraw hp y hy).trans (hl y hy))]

theorem strWrite_eq (c : Cfg) (bs : Bytes) (hlen : bs.length < 2 ^ 64) :
    strWrite c bs = scalar c.ioLE 8 bs.length ++ bs := by
  unfold strWrite
  have e : (256 : Nat) ^ 8 = 2 ^ 64 := by decide
  rw [strRawW_char, countBytes_eq, e, Nat.mod_eq_of_lt hlen, countWrite_eq c _ hlen, image_eq_scalar]
  cases bs <;> simp

theorem pairWrite_eq {α β : Type} (c : Cfg) (a b : Ty) (rawA encA : α → Bytes) (rawB encB : β → Bytes)
    (p : α × β)
    (hraw : Gen.Ser.pairRawW a.isPod b.isPod c.noSwap a.size b.size (pairSize a b) = true →
      rawA p.1 = encA p.1 ∧ rawB p.2 = encB p.2 ∧ pairOffB a b = a.size ∧ pairSize a b = pairOffB a b + b.size) :
    pairWrite c a b rawA rawB encA encB p = encA p.1 ++ encB p.2 := by
  unfold pairWrite
  cases hp : Gen.Ser.pairRawW a.isPod b.isPod c.noSwap a.size b.size (pairSize a b)
  · simp [pairFirstW_eq]
  · obtain ⟨h1, h2, h3, h4⟩ := hraw hp
    simp [h1, h2, h3, h4, zeros]

theorem pairTight_offsets (a b : Ty) (hal : 0 < a.align) (hbl : 0 < b.align)
    (ht : pairSize a b = a.size + b.size) :
    pairOffB a b = a.size ∧ pairSize a b = pairOffB a b + b.size := by
  have h1 : a.size ≤ pairOffB a b := roundUp_ge _ _ hbl
  have h2 : pairOffB a b + b.size ≤ pairSize a b :=
    roundUp_ge _ _ (Nat.lt_of_lt_of_le hal (Nat.le_max_left _ _))
  omega

/-- where the raw `std::pair` path is taken, the pair object has no padding -/
def pairRawTight (c : Cfg) (a b : Ty) : Prop :=
  Gen.Ser.pairRawW a.isPod b.isPod c.noSwap a.size b.size (pairSize a b) = true → pairSize a b = a.size + b.size

/-- hypothesis of the layout induction: `pairRawTight` at every pair / map entry of the type -/
def Ty.rawTight (c : Cfg) : Ty → Prop
  | .pair a b => pairRawTight c a b ∧ a.rawTight c ∧ b.rawTight c
  | .vec t => t.rawTight c
  | .list t => t.rawTight c
  | .deque t => t.rawTight c
  | .set t => t.rawTight c
  | .mset t => t.rawTight c
  | .uset t => t.rawTight c
  | .map k v => pairRawTight c k v ∧ k.rawTight c ∧ v.rawTight c
  | .mmap k v => pairRawTight c k v ∧ k.rawTight c ∧ v.rawTight c
  | .umap k v => pairRawTight c k v ∧ k.rawTight c ∧ v.rawTight c
  | .ccons f r => f.rawTight c ∧ r.rawTight c
  | _ => True

theorem pairRawTight_of_pairTight (c : Cfg) (a b : Ty) (h : c.noSwap = true → pairTight a b = true) :
    pairRawTight c a b := by
  intro hraw
  have hp := pairRaw_imp _ _ _ _ _ _ hraw
  simp only [Bool.and_eq_true] at hp
  have ht := h hp.2
  simpa [pairTight, hp.1.1, hp.1.2] using ht

/-- types without a padded POD pair satisfy the hypothesis (and so does every type in a swapping build) -/
theorem rawTight_of_padFree (c : Cfg) (t : Ty) (h : c.noSwap = true → t.padFree = true) : t.rawTight c := by
  induction t with
  | pair a b iha ihb =>
    refine ⟨pairRawTight_of_pairTight c a b (fun hs => ?_), iha (fun hs => ?_), ihb (fun hs => ?_)⟩ <;>
      (have := h hs; simp [Ty.padFree] at this; simp [this])
  | map k v ihk ihv =>
    refine ⟨pairRawTight_of_pairTight c k v (fun hs => ?_), ihk (fun hs => ?_), ihv (fun hs => ?_)⟩ <;>
      (have := h hs; simp [Ty.padFree] at this; simp [this])
  | mmap k v ihk ihv =>
    refine ⟨pairRawTight_of_pairTight c k v (fun hs => ?_), ihk (fun hs => ?_), ihv (fun hs => ?_)⟩ <;>
      (have := h hs; simp [Ty.padFree] at this; simp [this])
  | umap k v ihk ihv =>
    refine ⟨pairRawTight_of_pairTight c k v (fun hs => ?_), ihk (fun hs => ?_), ihv (fun hs => ?_)⟩ <;>
      (have := h hs; simp [Ty.padFree] at this; simp [this])
  | vec t ih => exact ih (fun hs => by simpa [Ty.padFree] using h hs)
  | list t ih => exact ih (fun hs => by simpa [Ty.padFree] using h hs)
  | deque t ih => exact ih (fun hs => by simpa [Ty.padFree] using h hs)
  | set t ih => exact ih (fun hs => by simpa [Ty.padFree] using h hs)
  | mset t ih => exact ih (fun hs => by simpa [Ty.padFree] using h hs)
  | uset t ih => exact ih (fun hs => by simpa [Ty.padFree] using h hs)
  | ccons f r ihf ihr =>
    refine ⟨ihf (fun hs => ?_), ihr (fun hs => ?_)⟩ <;>
      (have := h hs; simp [Ty.padFree] at this; simp [this])
  | _ => trivial

/-- since the repair of finding C15-F1 every type satisfies the hypothesis -/
theorem rawTight_all (c : Cfg) (t : Ty) : t.rawTight c := by
  induction t with
  | pair a b iha ihb => exact ⟨fun h => pairRaw_tight _ _ _ _ _ _ h, iha, ihb⟩
  | map k v ihk ihv => exact ⟨fun h => pairRaw_tight _ _ _ _ _ _ h, ihk, ihv⟩
  | mmap k v ihk ihv => exact ⟨fun h => pairRaw_tight _ _ _ _ _ _ h, ihk, ihv⟩
  | umap k v ihk ihv => exact ⟨fun h => pairRaw_tight _ _ _ _ _ _ h, ihk, ihv⟩
  | vec t ih => exact ih
  | list t ih => exact ih
  | deque t ih => exact ih
  | set t ih => exact ih
  | mset t ih => exact ih
  | uset t ih => exact ih
  | ccons f r ihf ihr => exact ⟨ihf, ihr⟩
  | _ => trivial

theorem pair_layout_case (c : Cfg) (a b : Ty) (hoka : a.ok = true) (hokb : b.ok = true)
    (htight : pairRawTight c a b)
    (p : Val a × Val b) (hv : wf a p.1 ∧ wf b p.2) :
    pairWrite c a b (nativeImg c a) (nativeImg c b) (encode c a) (encode c b) p =
      encode c a p.1 ++ encode c b p.2 := by
  apply pairWrite_eq
  intro hraw
  have hp := pairRaw_imp _ _ _ _ _ _ hraw
  simp only [Bool.and_eq_true] at hp
  have ra := pod_raw c a hoka hp.1.1 p.1 hv.1
  have rb := pod_raw c b hokb hp.1.2 p.2 hv.2
  have ht := htight hraw
  have := pairTight_offsets a b ra.2.2 rb.2.2 ht
  exact ⟨pod_raw_eq_encode c a hoka hp.1.1 hp.2 p.1, pod_raw_eq_encode c b hokb hp.1.2 hp.2 p.2, this.1, this.2⟩

theorem vec_layout_case (c : Cfg) (t : Ty) (hok : t.ok = true)
    (ih : ∀ v : Val t, wf t v → encode c t v = layout c.ioLE t v)
    (xs : List (Val t)) (hv : wfList (wf t) xs) :
    vecWrite c t.isPod (nativeImg c t) (encode c t) xs = counted c.ioLE (layout c.ioLE t) xs := by
  apply vecWrite_eq c _ _ _ _ xs hv.1
  · intro hp x _
    simp only [Bool.and_eq_true] at hp
    exact pod_raw_eq_encode c t hok hp.1 hp.2 x
  · intro x hx
    exact ih x (hv.2 x hx)

theorem map_layout_case (c : Cfg) (k w : Ty) (hokk : k.ok = true) (hokw : w.ok = true)
    (htight : pairRawTight c k w)
    (ihk : ∀ v : Val k, wf k v → encode c k v = layout c.ioLE k v)
    (ihw : ∀ v : Val w, wf w v → encode c w v = layout c.ioLE w v)
    (xs : List (Val k × Val w)) (hv : wfList (fun p : Val k × Val w => wf k p.1 ∧ wf w p.2) xs) :
    vecWrite c false (fun _ => []) (pairWrite c k w (nativeImg c k) (nativeImg c w) (encode c k) (encode c w)) xs =
      counted c.ioLE (fun p : Val k × Val w => layout c.ioLE k p.1 ++ layout c.ioLE w p.2) xs := by
  apply vecWrite_eq c _ _ _ _ xs hv.1
  · simp
  · intro p hp
    have := hv.2 p hp
    rw [pair_layout_case c k w hokk hokw htight p this, ihk p.1 this.1, ihw p.2 this.2]

/-- the handlers produce the documented layout -/
theorem encode_eq_layout (c : Cfg) (t : Ty) (hok : t.ok = true) (hpf : t.podFree = true)
    (hpad : t.rawTight c) : ∀ v : Val t, wf t v → encode c t v = layout c.ioLE t v := by
  induction t with
  | arith k n =>
    intro v _
    have hn := sizeOk_le (by simpa [Ty.ok] using hok : sizeOk n = true)
    rw [encode_arith, arithWrite_eq c n v hn.1, image_eq_scalar]
    rfl
  | pod s a => simp [Ty.podFree] at hpf
  | str =>
    intro v hv
    exact strWrite_eq c v hv.1
  | pair a b iha ihb =>
    intro v hv
    simp only [Ty.ok, Bool.and_eq_true] at hok
    simp only [Ty.podFree, Bool.and_eq_true] at hpf
    show pairWrite c a b _ _ _ _ v = layout c.ioLE a v.1 ++ layout c.ioLE b v.2
    rw [pair_layout_case c a b hok.1 hok.2 hpad.1 v hv, iha hok.1 hpf.1 hpad.2.1 v.1 hv.1,
      ihb hok.2 hpf.2 hpad.2.2 v.2 hv.2]
  | vec t ih =>
    exact fun v hv => vec_layout_case c t (by simpa [Ty.ok] using hok)
      (ih (by simpa [Ty.ok] using hok) (by simpa [Ty.podFree] using hpf) hpad) v hv
  | list t ih =>
    exact fun v hv => vec_layout_case c t (by simpa [Ty.ok] using hok)
      (ih (by simpa [Ty.ok] using hok) (by simpa [Ty.podFree] using hpf) hpad) v hv
  | deque t ih =>
    exact fun v hv => vec_layout_case c t (by simpa [Ty.ok] using hok)
      (ih (by simpa [Ty.ok] using hok) (by simpa [Ty.podFree] using hpf) hpad) v hv
  | set t ih =>
    simp only [Ty.ok, Bool.and_eq_true] at hok
    exact fun v hv => vec_layout_case c t hok.1 (ih hok.1 (by simpa [Ty.podFree] using hpf) hpad) v hv.1
  | mset t ih =>
    simp only [Ty.ok, Bool.and_eq_true] at hok
    exact fun v hv => vec_layout_case c t hok.1 (ih hok.1 (by simpa [Ty.podFree] using hpf) hpad) v hv.1
  | uset t ih =>
    simp only [Ty.ok, Bool.and_eq_true] at hok
    exact fun v hv => vec_layout_case c t hok.1 (ih hok.1 (by simpa [Ty.podFree] using hpf) hpad) v hv.1
  | map k w ihk ihw =>
    simp only [Ty.ok, Bool.and_eq_true] at hok
    simp only [Ty.podFree, Bool.and_eq_true] at hpf
    exact fun v hv => map_layout_case c k w hok.1.1 hok.1.2 hpad.1
      (ihk hok.1.1 hpf.1 hpad.2.1) (ihw hok.1.2 hpf.2 hpad.2.2) v hv.1
  | mmap k w ihk ihw =>
    simp only [Ty.ok, Bool.and_eq_true] at hok
    simp only [Ty.podFree, Bool.and_eq_true] at hpf
    exact fun v hv => map_layout_case c k w hok.1.1 hok.1.2 hpad.1
      (ihk hok.1.1 hpf.1 hpad.2.1) (ihw hok.1.2 hpf.2 hpad.2.2) v hv.1
  | umap k w ihk ihw =>
    simp only [Ty.ok, Bool.and_eq_true] at hok
    simp only [Ty.podFree, Bool.and_eq_true] at hpf
    exact fun v hv => map_layout_case c k w hok.1.1 hok.1.2 hpad.1
      (ihk hok.1.1 hpf.1 hpad.2.1) (ihw hok.1.2 hpf.2 hpad.2.2) v hv.1
  | cnil => intro v _; rfl
  | ccons f r ihf ihr =>
    intro v hv
    simp only [Ty.ok, Bool.and_eq_true] at hok
    simp only [Ty.podFree, Bool.and_eq_true] at hpf
    rw [encode_ccons, ihf hok.1 hpf.1 hpad.1 v.1 hv.1, ihr hok.2 hpf.2 hpad.2 v.2 hv.2]
    rfl

end DmlcModel.Ser
