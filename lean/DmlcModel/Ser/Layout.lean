/-
The documented byte layout, written down independently of the handlers (a function of the stream's
byte order only), and the proof that the handlers produce it.
-/
import DmlcModel.Ser.RoundTrip

set_option linter.unusedSimpArgs false

namespace DmlcModel.Ser
open DmlcModel

/-- an `n`-byte scalar in the stream's byte order: least significant byte first iff `ioLE` -/
def scalar (ioLE : Bool) (n v : Nat) : Bytes :=
  let lsbFirst := (List.range n).map fun i => UInt8.ofNat (v / 256 ^ i % 256)
  if ioLE then lsbFirst else lsbFirst.reverse

/-- 64-bit element count, then the elements in iteration order -/
def counted {α : Type} (ioLE : Bool) (f : α → Bytes) (xs : List α) : Bytes :=
  scalar ioLE 8 xs.length ++ xs.flatMap f

/-- the documented layout: scalars in the stream's byte order, 64-bit counts, elements in iteration
order, pair members (and the fields of a class) one after the other, strings as count + characters;
a plain POD struct is its memory image (outside the property) -/
def layout (ioLE : Bool) : (t : Ty) → Val t → Bytes
  | .arith _ n, v => scalar ioLE n v
  | .str, bs => scalar ioLE 8 (List.length bs) ++ bs
  | .pair a b, p => layout ioLE a p.1 ++ layout ioLE b p.2
  | .vec t, xs => counted ioLE (layout ioLE t) xs
  | .list t, xs => counted ioLE (layout ioLE t) xs
  | .deque t, xs => counted ioLE (layout ioLE t) xs
  | .set t, xs => counted ioLE (layout ioLE t) xs
  | .mset t, xs => counted ioLE (layout ioLE t) xs
  | .uset t, xs => counted ioLE (layout ioLE t) xs
  | .map k v, xs => counted ioLE (fun p : Val k × Val v => layout ioLE k p.1 ++ layout ioLE v p.2) xs
  | .mmap k v, xs => counted ioLE (fun p : Val k × Val v => layout ioLE k p.1 ++ layout ioLE v p.2) xs
  | .umap k v, xs => counted ioLE (fun p : Val k × Val v => layout ioLE k p.1 ++ layout ioLE v p.2) xs
  | .cnil, _ => []
  | .ccons f r, p => layout ioLE f p.1 ++ layout ioLE r p.2
  | .pod _ _, bs => bs

theorem toLE_eq_range (n v : Nat) :
    toLE n v = (List.range n).map fun i => UInt8.ofNat (v / 256 ^ i % 256) := by
  induction n generalizing v with
  | zero => rfl
  | succ n ih =>
    rw [toLE, ih, List.range_succ_eq_map, List.map_cons, List.map_map]
    congr 1
    · simp
    · apply List.map_congr_left
      intro i _
      simp only [Function.comp, Nat.pow_succ]
      rw [Nat.div_div_eq_div_mul, Nat.mul_comm]

theorem image_eq_scalar (le : Bool) (n v : Nat) : image le n v = scalar le n v := by
  unfold image scalar
  rw [toLE_eq_range]

/-! ### the handlers in terms of their element encoders -/

theorem flatMap_congr' {α : Type} (f g : α → Bytes) (xs : List α) (h : ∀ x ∈ xs, f x = g x) :
    xs.flatMap f = xs.flatMap g := by
  induction xs with
  | nil => rfl
  | cons x xs ih => simp [List.flatMap_cons, h x (by simp), ih (fun y hy => h y (by simp [hy]))]

theorem vecWrite_eq {α : Type} (c : Cfg) (podT : Bool) (raw enc : α → Bytes) (lay : α → Bytes) (xs : List α)
    (hlen : xs.length < 2 ^ 64)
    (hraw : (podT && c.noSwap) = true → ∀ x ∈ xs, raw x = enc x)
    (hl : ∀ x ∈ xs, enc x = lay x) :
    vecWrite c podT raw enc xs = counted c.ioLE lay xs := by
  unfold vecWrite counted
  have e : (256 : Nat) ^ 8 = 2 ^ 64 := by decide
  rw [vecRawW_eq, countBytes_eq, e, Nat.mod_eq_of_lt hlen, countWrite_eq c _ hlen, image_eq_scalar]
  cases hp : (podT && c.noSwap)
  · simp only [Bool.false_eq_true, if_false]
    rw [flatMap_congr' enc lay xs hl]
  · simp only [if_true]
    cases xs with
    | nil => simp
    | cons x xs' =>
      have hne : ((x :: xs').length != 0) = true := by simp
      simp only [hne, if_true]
      rw [flatMap_congr' raw lay _ (fun y hy => (hraw hp y hy).trans (hl y hy))]

theorem strWrite_eq (c : Cfg) (bs : Bytes) (hlen : bs.length < 2 ^ 64) :
    strWrite c bs = scalar c.ioLE 8 bs.length ++ bs := by
  unfold strWrite
  have e : (256 : Nat) ^ 8 = 2 ^ 64 := by decide
  rw [strRawW_char, countBytes_eq, e, Nat.mod_eq_of_lt hlen, countWrite_eq c _ hlen, image_eq_scalar]
  cases bs <;> simp

theorem pairWrite_eq {α β : Type} (c : Cfg) (a b : Ty) (rawA encA : α → Bytes) (rawB encB : β → Bytes)
    (p : α × β)
    (hraw : (a.isPod && b.isPod && c.noSwap) = true →
      rawA p.1 = encA p.1 ∧ rawB p.2 = encB p.2 ∧ pairOffB a b = a.size ∧ pairSize a b = pairOffB a b + b.size) :
    pairWrite c a b rawA rawB encA encB p = encA p.1 ++ encB p.2 := by
  unfold pairWrite
  rw [pairRawW_eq]
  cases hp : (a.isPod && b.isPod && c.noSwap)
  · simp [pairFirstW_eq]
  · obtain ⟨h1, h2, h3, h4⟩ := hraw hp
    simp [h1, h2, h3, h4, zeros]

theorem pairTight_offsets (a b : Ty) (hal : 0 < a.align) (hbl : 0 < b.align)
    (ht : pairSize a b = a.size + b.size) :
    pairOffB a b = a.size ∧ pairSize a b = pairOffB a b + b.size := by
  have h1 : a.size ≤ pairOffB a b := roundUp_ge _ _ hbl
  have h2 : pairOffB a b + b.size ≤ pairSize a b :=
    roundUp_ge _ _ (Nat.lt_of_lt_of_le hal (Nat.le_max_left _ _))
  omega

theorem pair_layout_case (c : Cfg) (a b : Ty) (hoka : a.ok = true) (hokb : b.ok = true)
    (htight : c.noSwap = true → pairTight a b = true)
    (p : Val a × Val b) (hv : wf a p.1 ∧ wf b p.2) :
    pairWrite c a b (nativeImg c a) (nativeImg c b) (encode c a) (encode c b) p =
      encode c a p.1 ++ encode c b p.2 := by
  apply pairWrite_eq
  intro hp
  simp only [Bool.and_eq_true] at hp
  have ra := pod_raw c a hoka hp.1.1 p.1 hv.1
  have rb := pod_raw c b hokb hp.1.2 p.2 hv.2
  have ht := htight hp.2
  simp only [pairTight, hp.1.1, hp.1.2, Bool.and_self, Bool.not_true, Bool.false_or, beq_iff_eq] at ht
  have := pairTight_offsets a b ra.2.2 rb.2.2 ht
  exact ⟨pod_raw_eq_encode c a hoka hp.1.1 hp.2 p.1, pod_raw_eq_encode c b hokb hp.1.2 hp.2 p.2, this.1, this.2⟩

/-- hypothesis of the layout theorems: where the raw `std::pair` path is taken (no byte swapping)
the pair objects contain no padding -/
def tightIfRaw (c : Cfg) (t : Ty) : Prop := c.noSwap = true → t.padFree = true

theorem tightIfRaw_of (c : Cfg) {t u : Ty} (h : tightIfRaw c t) (hsub : t.padFree = true → u.padFree = true) :
    tightIfRaw c u := fun hs => hsub (h hs)

theorem vec_layout_case (c : Cfg) (t : Ty) (hok : t.ok = true)
    (ih : ∀ v : Val t, wf t v → encode c t v = layout c.ioLE t v)
    (xs : List (Val t)) (hv : wfList (wf t) xs) :
    vecWrite c t.isPod (nativeImg c t) (encode c t) xs = counted c.ioLE (layout c.ioLE t) xs := by
  apply vecWrite_eq c _ _ _ _ xs hv.1
  · intro hp x _
    simp only [Bool.and_eq_true] at hp
    exact pod_raw_eq_encode c t hok hp.1 hp.2 x
  · intro x hx
    exact ih x (hv.2 x hx)

theorem map_layout_case (c : Cfg) (k w : Ty) (hokk : k.ok = true) (hokw : w.ok = true)
    (htight : c.noSwap = true → pairTight k w = true)
    (ihk : ∀ v : Val k, wf k v → encode c k v = layout c.ioLE k v)
    (ihw : ∀ v : Val w, wf w v → encode c w v = layout c.ioLE w v)
    (xs : List (Val k × Val w)) (hv : wfList (fun p : Val k × Val w => wf k p.1 ∧ wf w p.2) xs) :
    vecWrite c false (fun _ => []) (pairWrite c k w (nativeImg c k) (nativeImg c w) (encode c k) (encode c w)) xs =
      counted c.ioLE (fun p : Val k × Val w => layout c.ioLE k p.1 ++ layout c.ioLE w p.2) xs := by
  apply vecWrite_eq c _ _ _ _ xs hv.1
  · simp
  · intro p hp
    have := hv.2 p hp
    rw [pair_layout_case c k w hokk hokw htight p this, ihk p.1 this.1, ihw p.2 this.2]

/-- the handlers produce the documented layout -/
theorem encode_eq_layout (c : Cfg) (t : Ty) (hok : t.ok = true) (hpf : t.podFree = true)
    (hpad : tightIfRaw c t) : ∀ v : Val t, wf t v → encode c t v = layout c.ioLE t v := by
  induction t with
  | arith k n =>
    intro v _
    have hn := sizeOk_le (by simpa [Ty.ok] using hok : sizeOk n = true)
    rw [encode_arith, arithWrite_eq c n v hn.1, image_eq_scalar]
    rfl
  | pod s a => simp [Ty.podFree] at hpf
  | str =>
    intro v hv
    exact strWrite_eq c v hv.1
  | pair a b iha ihb =>
    intro v hv
    simp only [Ty.ok, Bool.and_eq_true] at hok
    simp only [Ty.podFree, Bool.and_eq_true] at hpf
    have hta : tightIfRaw c a := tightIfRaw_of c hpad (by simp [Ty.padFree]; intro _ h _; exact h)
    have htb : tightIfRaw c b := tightIfRaw_of c hpad (by simp [Ty.padFree])
    have htight : c.noSwap = true → pairTight a b = true := by
      intro hs; have := hpad hs; simp [Ty.padFree] at this; exact this.1.1
    show pairWrite c a b _ _ _ _ v = layout c.ioLE a v.1 ++ layout c.ioLE b v.2
    rw [pair_layout_case c a b hok.1 hok.2 htight v hv, iha hok.1 hpf.1 hta v.1 hv.1, ihb hok.2 hpf.2 htb v.2 hv.2]
  | vec t ih =>
    exact fun v hv => vec_layout_case c t (by simpa [Ty.ok] using hok)
      (ih (by simpa [Ty.ok] using hok) (by simpa [Ty.podFree] using hpf)
        (tightIfRaw_of c hpad (by simp [Ty.padFree]))) v hv
  | list t ih =>
    exact fun v hv => vec_layout_case c t (by simpa [Ty.ok] using hok)
      (ih (by simpa [Ty.ok] using hok) (by simpa [Ty.podFree] using hpf)
        (tightIfRaw_of c hpad (by simp [Ty.padFree]))) v hv
  | deque t ih =>
    exact fun v hv => vec_layout_case c t (by simpa [Ty.ok] using hok)
      (ih (by simpa [Ty.ok] using hok) (by simpa [Ty.podFree] using hpf)
        (tightIfRaw_of c hpad (by simp [Ty.padFree]))) v hv
  | set t ih =>
    simp only [Ty.ok, Bool.and_eq_true] at hok
    exact fun v hv => vec_layout_case c t hok.1
      (ih hok.1 (by simpa [Ty.podFree] using hpf) (tightIfRaw_of c hpad (by simp [Ty.padFree]))) v hv.1
  | mset t ih =>
    simp only [Ty.ok, Bool.and_eq_true] at hok
    exact fun v hv => vec_layout_case c t hok.1
      (ih hok.1 (by simpa [Ty.podFree] using hpf) (tightIfRaw_of c hpad (by simp [Ty.padFree]))) v hv.1
  | uset t ih =>
    simp only [Ty.ok, Bool.and_eq_true] at hok
    exact fun v hv => vec_layout_case c t hok.1
      (ih hok.1 (by simpa [Ty.podFree] using hpf) (tightIfRaw_of c hpad (by simp [Ty.padFree]))) v hv.1
  | map k w ihk ihw =>
    simp only [Ty.ok, Bool.and_eq_true] at hok
    simp only [Ty.podFree, Bool.and_eq_true] at hpf
    have htight : c.noSwap = true → pairTight k w = true := by
      intro hs; have := hpad hs; simp [Ty.padFree] at this; exact this.1.1
    exact fun v hv => map_layout_case c k w hok.1.1 hok.1.2 htight
      (ihk hok.1.1 hpf.1 (tightIfRaw_of c hpad (by simp [Ty.padFree]; intro _ h _; exact h)))
      (ihw hok.1.2 hpf.2 (tightIfRaw_of c hpad (by simp [Ty.padFree]))) v hv.1
  | mmap k w ihk ihw =>
    simp only [Ty.ok, Bool.and_eq_true] at hok
    simp only [Ty.podFree, Bool.and_eq_true] at hpf
    have htight : c.noSwap = true → pairTight k w = true := by
      intro hs; have := hpad hs; simp [Ty.padFree] at this; exact this.1.1
    exact fun v hv => map_layout_case c k w hok.1.1 hok.1.2 htight
      (ihk hok.1.1 hpf.1 (tightIfRaw_of c hpad (by simp [Ty.padFree]; intro _ h _; exact h)))
      (ihw hok.1.2 hpf.2 (tightIfRaw_of c hpad (by simp [Ty.padFree]))) v hv.1
  | umap k w ihk ihw =>
    simp only [Ty.ok, Bool.and_eq_true] at hok
    simp only [Ty.podFree, Bool.and_eq_true] at hpf
    have htight : c.noSwap = true → pairTight k w = true := by
      intro hs; have := hpad hs; simp [Ty.padFree] at this; exact this.1.1
    exact fun v hv => map_layout_case c k w hok.1.1 hok.1.2 htight
      (ihk hok.1.1 hpf.1 (tightIfRaw_of c hpad (by simp [Ty.padFree]; intro _ h _; exact h)))
      (ihw hok.1.2 hpf.2 (tightIfRaw_of c hpad (by simp [Ty.padFree]))) v hv.1
  | cnil => intro v _; rfl
  | ccons f r ihf ihr =>
    intro v hv
    simp only [Ty.ok, Bool.and_eq_true] at hok
    simp only [Ty.podFree, Bool.and_eq_true] at hpf
    rw [encode_ccons,
      ihf hok.1 hpf.1 (tightIfRaw_of c hpad (by simp [Ty.padFree]; intro h _; exact h)) v.1 hv.1,
      ihr hok.2 hpf.2 (tightIfRaw_of c hpad (by simp [Ty.padFree])) v.2 hv.2]
    rfl

end DmlcModel.Ser
