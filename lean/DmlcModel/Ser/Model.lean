/-
Executable model of the binary serializer: `Stream::Write<T>` / `Stream::Read<T>` (include/dmlc/io.h),
the `Handler<T>` selection chains and the handlers of include/dmlc/serializer.h, `ByteSwap`
(include/dmlc/endian.h), over a `MemoryStringStream` (a byte list; `Read(ptr, n)` returns
`min(n, remaining)` and the handlers compare the result with `n`).

Everything that is an expression in the C++ (count width, ByteSwap indices, DMLC_IO_NO_ENDIAN_SWAP and
every compile-time condition of the `IfThenElse` chains, separately for Write and Read) comes from the
generated file `Gen/Ser.lean`.  Control flow is modelled by hand with the same branch structure.

Values.  An arithmetic value is its bit pattern as a number `< 256^n` (so NaN payloads and extreme
integers are just numbers, and the *same* value exists on a little- and on a big-endian host); its
memory image on the host is `image hostLE n v`.  A POD struct is its `size`-byte memory image.  Sequence
and associative containers are the list of their elements in iteration order; a class with Save/Load
is the tuple of its fields (`ccons f₁ (ccons f₂ … cnil)`).
Core Lean only.
-/
import DmlcModel.Basic
import DmlcModel.Gen.Ser

namespace DmlcModel.Ser
open DmlcModel

/-- kind of an arithmetic type (only `operator<` and hashing depend on it) -/
inductive AK | u | i | f
  deriving DecidableEq, Repr

/-- the universe of serialisable types -/
inductive Ty
  | arith (k : AK) (n : Nat)        -- (u)intN_t / float / double, `n` = sizeof
  | str                             -- std::string
  | pair (a b : Ty)                 -- std::pair
  | vec (t : Ty)                    -- std::vector
  | list (t : Ty)                   -- std::list
  | deque (t : Ty)                  -- std::deque
  | set (t : Ty)                    -- std::set
  | mset (t : Ty)                   -- std::multiset
  | uset (t : Ty)                   -- std::unordered_set
  | map (k v : Ty)                  -- std::map
  | mmap (k v : Ty)                 -- std::multimap
  | umap (k v : Ty)                 -- std::unordered_map
  | cnil                            -- class with Save/Load: no (more) fields
  | ccons (f rest : Ty)             -- class with Save/Load: field `f`, then the fields `rest`
  | pod (size align : Nat)          -- plain POD struct (no Save/Load), stored as raw memory
  deriving DecidableEq, Repr

/-- a class with Save/Load whose fields are written/read in this order -/
def Ty.cls (fs : List Ty) : Ty := fs.foldr Ty.ccons Ty.cnil

/-- values of a type -/
@[reducible] def Val : Ty → Type
  | .arith _ _ => Nat
  | .str => Bytes
  | .pair a b => Val a × Val b
  | .vec t => List (Val t)
  | .list t => List (Val t)
  | .deque t => List (Val t)
  | .set t => List (Val t)
  | .mset t => List (Val t)
  | .uset t => List (Val t)
  | .map k v => List (Val k × Val v)
  | .mmap k v => List (Val k × Val v)
  | .umap k v => List (Val k × Val v)
  | .cnil => Unit
  | .ccons f r => Val f × Val r
  | .pod _ _ => Bytes

/-- build configuration: byte order of the host and of the stream (`DMLC_IO_USE_LITTLE_ENDIAN`) -/
structure Cfg where
  hostLE : Bool
  ioLE : Bool
  deriving DecidableEq, Repr

def b2n (b : Bool) : Nat := if b then 1 else 0

/-- `DMLC_IO_NO_ENDIAN_SWAP` -/
def Cfg.noSwap (c : Cfg) : Bool := Gen.Ser.noSwap (b2n c.hostLE) (b2n c.ioLE)

/-! ### numbers and memory images -/

/-- the `n` little-endian bytes of `v` -/
def toLE : Nat → Nat → Bytes
  | 0, _ => []
  | n + 1, v => UInt8.ofNat (v % 256) :: toLE n (v / 256)

def fromLE : Bytes → Nat
  | [] => 0
  | b :: bs => b.toNat + 256 * fromLE bs

/-- memory image of the `n`-byte number `v` on a host of the given byte order -/
def image (le : Bool) (n v : Nat) : Bytes := if le then toLE n v else (toLE n v).reverse

/-- the number whose memory image on a host of the given byte order is `bs` -/
def unimage (le : Bool) (bs : Bytes) : Nat := if le then fromLE bs else fromLE bs.reverse

/-! ### ByteSwap (endian.h) for one element -/

/-- the inner `for (j = 0; j < elem_bytes / 2; ++j)` loop; an index outside the buffer stops (would be UB) -/
def swapLoop (eb : Nat) : Nat → Nat → Bytes → Bytes
  | 0, _, bs => bs
  | fuel + 1, j, bs =>
    if j < Gen.Ser.swapHalf eb then
      match bs[Gen.Ser.swapIdx eb j]?, bs[j]? with
      | some v, some lo => swapLoop eb fuel (j + 1) ((bs.set (Gen.Ser.swapIdx eb j) lo).set j v)
      | _, _ => bs
    else bs

/-- `ByteSwap(p, bs.length, 1)` -/
def byteSwap1 (bs : Bytes) : Bytes := swapLoop bs.length bs.length 0 (bs.drop (Gen.Ser.swapBase bs.length 0))

/-! ### the stream -/

/-- `strm->Read(ptr, n) == n`: all `n` bytes or failure -/
def readBytes (n : Nat) (s : Bytes) : Option (Bytes × Bytes) :=
  if s.length < n then none else some (s.take n, s.drop n)

/-- the same function without walking the whole remaining stream for every read (the compiled driver uses this
form: `@[csimp]` replaces `readBytes` by it on the strength of the equation proved here, no axiom involved) -/
def readBytesFast (n : Nat) (s : Bytes) : Option (Bytes × Bytes) :=
  let hd := s.take n
  if hd.length < n then none else some (hd, s.drop n)

@[csimp] theorem readBytes_eq_fast : @readBytes = @readBytesFast := by
  funext n s
  simp only [readBytes, readBytesFast, List.length_take]
  by_cases h : s.length < n
  · have : min n s.length < n := by omega
    simp [h, this]
  · have : ¬ min n s.length < n := by omega
    simp [h, this]

def zeros (n : Nat) : Bytes := List.replicate n 0

/-! ### ArithmeticHandler -/

def arithWrite (c : Cfg) (n v : Nat) : Bytes :=
  if Gen.Ser.arithSwapW c.noSwap then byteSwap1 (image c.hostLE n v) else image c.hostLE n v

def arithRead (c : Cfg) (n : Nat) (s : Bytes) : Option (Nat × Bytes) :=
  match readBytes n s with
  | none => none
  | some (img, rest) =>
    some (unimage c.hostLE (if Gen.Ser.arithSwapR c.noSwap then byteSwap1 img else img), rest)

/-- the element count: `uint64_t sz = static_cast<uint64_t>(size)` written with `Write<uint64_t>` -/
def countWrite (c : Cfg) (len : Nat) : Bytes :=
  arithWrite c Gen.Ser.countBytes (len % 256 ^ Gen.Ser.countBytes)

def countRead (c : Cfg) (s : Bytes) : Option (Nat × Bytes) := arithRead c Gen.Ser.countBytes s

/-! ### type traits -/

def Ty.isArith : Ty → Bool
  | .arith _ _ => true
  | _ => false

/-- `dmlc::is_pod<T>` (libstdc++: `std::pair` is not a POD; the harness classes are not PODs) -/
def Ty.isPod : Ty → Bool
  | .arith _ _ => true
  | .pod _ _ => true
  | _ => false

def Ty.hasSL : Ty → Bool
  | .cnil => true
  | .ccons _ _ => true
  | _ => false

/-- `sizeof(T)` of a POD leaf -/
def Ty.size : Ty → Nat
  | .arith _ n => n
  | .pod s _ => s
  | _ => 0

/-- `alignof(T)` of a POD leaf (x86-64: arithmetic types are aligned to their size) -/
def Ty.align : Ty → Nat
  | .arith _ n => n
  | .pod _ a => a
  | _ => 1

def roundUp (x a : Nat) : Nat := (x + a - 1) / a * a

/-- offset of `second` in `std::pair<A, B>` -/
def pairOffB (a b : Ty) : Nat := roundUp a.size b.align
/-- `sizeof(std::pair<A, B>)` -/
def pairSize (a b : Ty) : Nat := roundUp (pairOffB a b + b.size) (max a.align b.align)

/-! ### handlers as combinators (the recursion over the type is in `encode` / `decode`) -/

/-- NativePODVectorHandler / ComposeVectorHandler -/
def vecWrite {α : Type} (c : Cfg) (podT : Bool) (raw enc : α → Bytes) (xs : List α) : Bytes :=
  if Gen.Ser.vecRawW podT c.noSwap then
    countWrite c xs.length ++ (if xs.length % 256 ^ Gen.Ser.countBytes != 0 then xs.flatMap raw else [])
  else
    countWrite c xs.length ++ xs.flatMap enc

/-- `ReadArray`: `n` element reads, stop at the first failure -/
def readN {α : Type} (rd : Bytes → Option (α × Bytes)) : Nat → Bytes → Option (List α × Bytes)
  | 0, s => some ([], s)
  | n + 1, s =>
    match rd s with
    | none => none
    | some (x, s1) =>
      match readN rd n s1 with
      | none => none
      | some (xs, s2) => some (x :: xs, s2)

/-- a block of `n` memory images of `sz` bytes each -/
def splitN (sz : Nat) : Nat → Bytes → List Bytes
  | 0, _ => []
  | n + 1, s => s.take sz :: splitN sz n (s.drop sz)

def vecRead {α : Type} (c : Cfg) (podT : Bool) (sz : Nat) (unraw : Bytes → α)
    (rd : Bytes → Option (α × Bytes)) (s : Bytes) : Option (List α × Bytes) :=
  match countRead c s with
  | none => none
  | some (n, s1) =>
    if Gen.Ser.vecRawR podT c.noSwap then
      if n != 0 then
        match readBytes (sz * n) s1 with
        | none => none
        | some (blk, s2) => some ((splitN sz n blk).map unraw, s2)
      else some ([], s1)
    else readN rd n s1

/-- NativePODStringHandler<char> (selected in both configurations because `sizeof(char) == 1`);
if the selection condition is false the type does not compile: nothing is written, reads fail -/
def strWrite (c : Cfg) (bs : Bytes) : Bytes :=
  if Gen.Ser.strRawW true c.noSwap 1 then
    countWrite c bs.length ++ (if bs.length % 256 ^ Gen.Ser.countBytes != 0 then bs else [])
  else []

def strRead (c : Cfg) (s : Bytes) : Option (Bytes × Bytes) :=
  if Gen.Ser.strRawR true c.noSwap 1 then
    match countRead c s with
    | none => none
    | some (n, s1) => if n != 0 then readBytes n s1 else some ([], s1)
  else none

/-- `Handler<std::pair<A, B>>`: raw memory of the pair object (padding bytes are whatever the memory
holds; the model writes zeros and the harness masks them), or `PairHandler` -/
def pairWrite {α β : Type} (c : Cfg) (a b : Ty) (rawA : α → Bytes) (rawB : β → Bytes)
    (encA : α → Bytes) (encB : β → Bytes) (p : α × β) : Bytes :=
  if Gen.Ser.pairRawW a.isPod b.isPod c.noSwap a.size b.size (pairSize a b) then
    rawA p.1 ++ zeros (pairOffB a b - a.size) ++ rawB p.2 ++ zeros (pairSize a b - (pairOffB a b + b.size))
  else if Gen.Ser.pairFirstW = 0 then encA p.1 ++ encB p.2
  else encB p.2 ++ encA p.1

/-- `ReadA(...) && ReadB(...)`: the second read happens only if the first succeeded -/
def seqRead {α β : Type} (rdA : Bytes → Option (α × Bytes)) (rdB : Bytes → Option (β × Bytes)) (s : Bytes) :
    Option ((α × β) × Bytes) :=
  match rdA s with
  | none => none
  | some (x, s1) =>
    match rdB s1 with
    | none => none
    | some (y, s2) => some ((x, y), s2)

def pairRead {α β : Type} (c : Cfg) (a b : Ty) (unrawA : Bytes → α) (unrawB : Bytes → β)
    (rdA : Bytes → Option (α × Bytes)) (rdB : Bytes → Option (β × Bytes)) (s : Bytes) :
    Option ((α × β) × Bytes) :=
  if Gen.Ser.pairRawR a.isPod b.isPod c.noSwap a.size b.size (pairSize a b) then
    match readBytes (pairSize a b) s with
    | none => none
    | some (blk, s1) => some ((unrawA (blk.take a.size), unrawB ((blk.drop (pairOffB a b)).take b.size)), s1)
  else if Gen.Ser.pairFirstR = 0 then seqRead rdA rdB s
  else (seqRead rdB rdA s).map fun (p, r) => ((p.2, p.1), r)

/-! ### `operator<`, `operator==` of keys and the re-insertion of CollectionHandler::Read -/

def lexLt {α : Type} (lt : α → α → Bool) : List α → List α → Bool
  | [], [] => false
  | [], _ :: _ => true
  | _ :: _, [] => false
  | x :: xs, y :: ys => if lt x y then true else if lt y x then false else lexLt lt xs ys

/-- two's complement value of an `n`-byte bit pattern, shifted by `2^(8n-1)` so that it is a `Nat` -/
def signedKey (n v : Nat) : Nat := (v + 256 ^ n / 2) % 256 ^ n

def pairLt {α β : Type} (la : α → α → Bool) (lb : β → β → Bool) (p q : α × β) : Bool :=
  la p.1 q.1 || (!la q.1 p.1 && lb p.2 q.2)

def natLt (x y : Nat) : Bool := decide (x < y)
def natEq (x y : Nat) : Bool := decide (x = y)
def byteLt (a b : UInt8) : Bool := decide (a < b)
def bytesEq (x y : Bytes) : Bool := decide (x = y)

/-- `operator<` of the C++ type (integers, strings, pairs, sequence and ordered containers: the
standard's lexicographic comparisons); `false` for types without one (never used as keys) -/
def Ty.lt : (t : Ty) → Val t → Val t → Bool
  | .arith .u _, x, y => natLt x y
  | .arith .i n, x, y => natLt (signedKey n x) (signedKey n y)
  | .arith .f _, _, _ => false
  | .str, x, y => lexLt byteLt x y
  | .pair a b, x, y => pairLt (Ty.lt a) (Ty.lt b) x y
  | .vec t, x, y => lexLt (Ty.lt t) x y
  | .list t, x, y => lexLt (Ty.lt t) x y
  | .deque t, x, y => lexLt (Ty.lt t) x y
  | .set t, x, y => lexLt (Ty.lt t) x y
  | .mset t, x, y => lexLt (Ty.lt t) x y
  | .map k v, x, y => lexLt (pairLt (Ty.lt k) (Ty.lt v)) x y
  | .mmap k v, x, y => lexLt (pairLt (Ty.lt k) (Ty.lt v)) x y
  | .uset _, _, _ => false
  | .umap _ _, _, _ => false
  | .cnil, _, _ => false
  | .ccons _ _, _, _ => false
  | .pod _ _, _, _ => false

/-- `operator==` of hashable key types (integers and strings) -/
def Ty.keyEq : (t : Ty) → Val t → Val t → Bool
  | .arith _ _, x, y => natEq x y
  | .str, x, y => bytesEq x y
  | _, _, _ => false

/-- `std::set::insert` / `std::map::insert`: position by `<`, an equivalent element is kept -/
def insU {α : Type} (lt : α → α → Bool) (x : α) : List α → List α
  | [] => [x]
  | y :: ys => if lt x y then x :: y :: ys else if lt y x then y :: insU lt x ys else y :: ys

/-- `std::multiset::insert` / `std::multimap::insert`: after the last element not greater -/
def insM {α : Type} (lt : α → α → Bool) (x : α) : List α → List α
  | [] => [x]
  | y :: ys => if lt x y then x :: y :: ys else y :: insM lt x ys

/-- `std::unordered_set::insert`: an equal element is kept; the iteration order of the hash table is
not modelled (new elements are listed last; the harness compares as multisets) -/
def insH {α : Type} (eq : α → α → Bool) (x : α) (ys : List α) : List α :=
  if ys.any (fun y => eq y x) then ys else ys ++ [x]

/-- `data->clear(); data->insert(vdata.begin(), vdata.end())` -/
def insertAll {α : Type} (ins : α → List α → List α) (xs : List α) : List α :=
  xs.foldl (fun acc x => ins x acc) []

/-! ### memory images of POD leaves -/

def nativeImg (c : Cfg) : (t : Ty) → Val t → Bytes
  | .arith _ n, v => image c.hostLE n v
  | .pod _ _, bs => bs
  | .str, _ => []
  | .pair _ _, _ => []
  | .vec _, _ => []
  | .list _, _ => []
  | .deque _, _ => []
  | .set _, _ => []
  | .mset _, _ => []
  | .uset _, _ => []
  | .map _ _, _ => []
  | .mmap _ _, _ => []
  | .umap _ _, _ => []
  | .cnil, _ => []
  | .ccons _ _, _ => []

/-- a value of the type that a failed/impossible read leaves behind (never observed) -/
def Ty.dflt : (t : Ty) → Val t
  | .arith _ _ => (0 : Nat)
  | .str => ([] : Bytes)
  | .pair a b => (Ty.dflt a, Ty.dflt b)
  | .vec _ => []
  | .list _ => []
  | .deque _ => []
  | .set _ => []
  | .mset _ => []
  | .uset _ => []
  | .map _ _ => []
  | .mmap _ _ => []
  | .umap _ _ => []
  | .cnil => ()
  | .ccons f r => (Ty.dflt f, Ty.dflt r)
  | .pod _ _ => ([] : Bytes)

def nativeVal (c : Cfg) : (t : Ty) → Bytes → Val t
  | .arith _ _, bs => unimage c.hostLE bs
  | .pod _ _, bs => bs
  | t, _ => Ty.dflt t

/-! ### Stream::Write<T> / Stream::Read<T> -/

/-- `Handler<T>::Write(strm, v)`: the bytes appended to the stream -/
def encode (c : Cfg) : (t : Ty) → Val t → Bytes
  | .arith _ n, v =>
    if Gen.Ser.genericW true true false c.noSwap = 0 then arithWrite c n v
    else if Gen.Ser.genericW true true false c.noSwap = 1 then image c.hostLE n v
    else []
  | .pod _ _, bs =>
    if Gen.Ser.genericW false true false c.noSwap = 1 then bs
    else []                   -- UndefinedSerializerFor: does not compile
  | .str, bs => strWrite c bs
  | .pair a b, p => pairWrite c a b (nativeImg c a) (nativeImg c b) (encode c a) (encode c b) p
  | .vec t, xs => vecWrite c t.isPod (nativeImg c t) (encode c t) xs
  | .list t, xs => vecWrite c t.isPod (nativeImg c t) (encode c t) xs
  | .deque t, xs => vecWrite c t.isPod (nativeImg c t) (encode c t) xs
  | .set t, xs => vecWrite c t.isPod (nativeImg c t) (encode c t) xs
  | .mset t, xs => vecWrite c t.isPod (nativeImg c t) (encode c t) xs
  | .uset t, xs => vecWrite c t.isPod (nativeImg c t) (encode c t) xs
  | .map k v, xs =>
    vecWrite c false (fun _ => []) (pairWrite c k v (nativeImg c k) (nativeImg c v) (encode c k) (encode c v)) xs
  | .mmap k v, xs =>
    vecWrite c false (fun _ => []) (pairWrite c k v (nativeImg c k) (nativeImg c v) (encode c k) (encode c v)) xs
  | .umap k v, xs =>
    vecWrite c false (fun _ => []) (pairWrite c k v (nativeImg c k) (nativeImg c v) (encode c k) (encode c v)) xs
  | .cnil, _ => []
  | .ccons f r, p =>
    if Gen.Ser.genericW false false true c.noSwap = 2 then
      encode c f p.1 ++ encode c r p.2           -- Save: the fields in order
    else []

/-- `Handler<T>::Read(strm, &v)`: `none` = returned false; otherwise the value and the unread rest.
The result is a function of the configuration, the type and the bytes only: the C++ destination object
`*v` may already hold a value (a reused string, a vector whose `resize` keeps old elements), and
every handler overwrites it completely (`resize` to the decoded count — also for count 0 —, `clear()`
before the re-insertion, every member / field read).  The harness checks this on the real code by
reading every value also into pre-populated objects (ops `rtd` / `decd`). -/
def decode (c : Cfg) : (t : Ty) → Bytes → Option (Val t × Bytes)
  | .arith _ n, s =>
    if Gen.Ser.genericR true true false c.noSwap = 0 then arithRead c n s
    else if Gen.Ser.genericR true true false c.noSwap = 1 then
      (readBytes n s).map fun (img, rest) => (unimage c.hostLE img, rest)
    else none
  | .pod sz _, s =>
    if Gen.Ser.genericR false true false c.noSwap = 1 then readBytes sz s
    else none
  | .str, s => strRead c s
  | .pair a b, s => pairRead c a b (nativeVal c a) (nativeVal c b) (decode c a) (decode c b) s
  | .vec t, s => vecRead c t.isPod t.size (nativeVal c t) (decode c t) s
  | .list t, s => vecRead c t.isPod t.size (nativeVal c t) (decode c t) s
  | .deque t, s => vecRead c t.isPod t.size (nativeVal c t) (decode c t) s
  | .set t, s =>
    (vecRead c t.isPod t.size (nativeVal c t) (decode c t) s).map fun (xs, r) => (insertAll (insU (Ty.lt t)) xs, r)
  | .mset t, s =>
    (vecRead c t.isPod t.size (nativeVal c t) (decode c t) s).map fun (xs, r) => (insertAll (insM (Ty.lt t)) xs, r)
  | .uset t, s =>
    (vecRead c t.isPod t.size (nativeVal c t) (decode c t) s).map fun (xs, r) => (insertAll (insH (Ty.keyEq t)) xs, r)
  | .map k v, s =>
    (vecRead c false 0 (fun _ => (Ty.dflt k, Ty.dflt v))
      (pairRead c k v (nativeVal c k) (nativeVal c v) (decode c k) (decode c v)) s).map
      fun (xs, r) => (insertAll (insU (fun p q : Val k × Val v => Ty.lt k p.1 q.1)) xs, r)
  | .mmap k v, s =>
    (vecRead c false 0 (fun _ => (Ty.dflt k, Ty.dflt v))
      (pairRead c k v (nativeVal c k) (nativeVal c v) (decode c k) (decode c v)) s).map
      fun (xs, r) => (insertAll (insM (fun p q : Val k × Val v => Ty.lt k p.1 q.1)) xs, r)
  | .umap k v, s =>
    (vecRead c false 0 (fun _ => (Ty.dflt k, Ty.dflt v))
      (pairRead c k v (nativeVal c k) (nativeVal c v) (decode c k) (decode c v)) s).map
      fun (xs, r) => (insertAll (insH (fun p q : Val k × Val v => Ty.keyEq k p.1 q.1)) xs, r)
  | .cnil, s => some ((), s)
  | .ccons f r, s =>
    if Gen.Ser.genericR false false true c.noSwap = 2 then
      seqRead (decode c f) (decode c r) s          -- Load: `Read(&f1) && Read(&f2) && …`
    else none

/-! ### several values in one stream -/

/-- a typed value -/
abbrev TVal := (t : Ty) × Val t

def encodeAll (c : Cfg) : List TVal → Bytes
  | [] => []
  | ⟨t, v⟩ :: rest => encode c t v ++ encodeAll c rest

def decodeAll (c : Cfg) : List Ty → Bytes → Option (List TVal × Bytes)
  | [], s => some ([], s)
  | t :: ts, s =>
    match decode c t s with
    | none => none
    | some (v, s1) =>
      match decodeAll c ts s1 with
      | none => none
      | some (vs, s2) => some (⟨t, v⟩ :: vs, s2)

/-! ### which types the library (and the model) supports -/

def sizeOk (n : Nat) : Bool := n == 1 || n == 2 || n == 4 || n == 8

/-- key type of an ordered container: has the standard `operator<` and it is a strict weak order -/
def Ty.orderable : Ty → Bool
  | .arith .f _ => false
  | .arith _ _ => true
  | .str => true
  | .pair a b => a.orderable && b.orderable
  | .vec t => t.orderable
  | .list t => t.orderable
  | .deque t => t.orderable
  | .set t => t.orderable
  | .mset t => t.orderable
  | .map k v => k.orderable && v.orderable
  | .mmap k v => k.orderable && v.orderable
  | _ => false

/-- key type of an unordered container: has `std::hash` and a reflexive `==` -/
def Ty.hashable : Ty → Bool
  | .arith .f _ => false
  | .arith _ _ => true
  | .str => true
  | _ => false

/-- well-formed type descriptor: arithmetic sizes 1, 2, 4, 8; POD structs with a positive size that
is a multiple of the alignment; key types comparable / hashable -/
def Ty.ok : Ty → Bool
  | .arith _ n => sizeOk n
  | .str => true
  | .pair a b => a.ok && b.ok
  | .vec t => t.ok
  | .list t => t.ok
  | .deque t => t.ok
  | .set t => t.ok && t.orderable
  | .mset t => t.ok && t.orderable
  | .uset t => t.ok && t.hashable
  | .map k v => k.ok && v.ok && k.orderable
  | .mmap k v => k.ok && v.ok && k.orderable
  | .umap k v => k.ok && v.ok && k.hashable
  | .cnil => true
  | .ccons f r => f.ok && r.ok
  | .pod s a => sizeOk a && s != 0 && s % a == 0

/-- no plain POD struct anywhere in the type -/
def Ty.podFree : Ty → Bool
  | .pod _ _ => false
  | .pair a b => a.podFree && b.podFree
  | .vec t => t.podFree
  | .list t => t.podFree
  | .deque t => t.podFree
  | .set t => t.podFree
  | .mset t => t.podFree
  | .uset t => t.podFree
  | .map k v => k.podFree && v.podFree
  | .mmap k v => k.podFree && v.podFree
  | .umap k v => k.podFree && v.podFree
  | .ccons f r => f.podFree && r.podFree
  | _ => true

/-- `std::pair<A, B>` of two POD leaves has no padding -/
def pairTight (a b : Ty) : Bool := !(a.isPod && b.isPod) || pairSize a b == a.size + b.size

/-- no pair (or map entry) of two POD leaves whose `std::pair` object contains padding
(the class of finding C15-F1) -/
def Ty.padFree : Ty → Bool
  | .pair a b => pairTight a b && a.padFree && b.padFree
  | .vec t => t.padFree
  | .list t => t.padFree
  | .deque t => t.padFree
  | .set t => t.padFree
  | .mset t => t.padFree
  | .uset t => t.padFree
  | .map k v => pairTight k v && k.padFree && v.padFree
  | .mmap k v => pairTight k v && k.padFree && v.padFree
  | .umap k v => pairTight k v && k.padFree && v.padFree
  | .ccons f r => f.padFree && r.padFree
  | _ => true

/-- the type compiles in this configuration: plain POD structs only without byte swapping -/
def supported (c : Cfg) (t : Ty) : Bool := c.noSwap || t.podFree

end DmlcModel.Ser
