/-
Round-trip (`RT`) and truncation (`TR`) of a reader/writer pair, their preservation by the handler
combinators (count-prefixed element loop, raw block, pair, re-insertion into an associative container),
the well-formedness predicate on values, and the induction over the type universe.
-/
import DmlcModel.Ser.Lemmas

set_option linter.unusedSimpArgs false

namespace DmlcModel.Ser
open DmlcModel

/-- reading what was written, followed by anything, returns the value and leaves exactly the rest -/
def RT {α : Type} (P : Bytes → Option (α × Bytes)) (E : α → Bytes) (x : α) : Prop :=
  ∀ r, P (E x ++ r) = some (x, r)

/-- every strict prefix of what was written makes the reader fail -/
def TR {α : Type} (P : Bytes → Option (α × Bytes)) (E : α → Bytes) (x : α) : Prop :=
  ∀ k, k < (E x).length → P ((E x).take k) = none

/-! ### the element loop -/

theorem readN_RT {α : Type} (P : Bytes → Option (α × Bytes)) (E : α → Bytes) (xs : List α)
    (h : ∀ x ∈ xs, RT P E x) (r : Bytes) : readN P xs.length (xs.flatMap E ++ r) = some (xs, r) := by
  induction xs with
  | nil => simp [readN]
  | cons x xs ih =>
    have hx := h x (by simp) (xs.flatMap E ++ r)
    simp only [List.flatMap_cons, List.length_cons, readN, List.append_assoc, hx]
    rw [ih (fun y hy => h y (by simp [hy]))]

theorem take_append_cases (A B : Bytes) (k : Nat) (hk : k < (A ++ B).length) :
    (k < A.length ∧ (A ++ B).take k = A.take k) ∨
    (A.length ≤ k ∧ k - A.length < B.length ∧ (A ++ B).take k = A ++ B.take (k - A.length)) := by
  rw [List.take_append]
  by_cases h : k < A.length
  · left
    refine ⟨h, ?_⟩
    have : k - A.length = 0 := by omega
    simp [this]
  · right
    simp only [List.length_append] at hk
    refine ⟨by omega, by omega, ?_⟩
    rw [List.take_of_length_le (by omega)]

theorem readN_TR {α : Type} (P : Bytes → Option (α × Bytes)) (E : α → Bytes) (xs : List α)
    (h : ∀ x ∈ xs, RT P E x ∧ TR P E x) (k : Nat) (hk : k < (xs.flatMap E).length) :
    readN P xs.length ((xs.flatMap E).take k) = none := by
  induction xs generalizing k with
  | nil => simp at hk
  | cons x xs ih =>
    simp only [List.flatMap_cons] at hk ⊢
    rcases take_append_cases (E x) (xs.flatMap E) k hk with ⟨h1, e⟩ | ⟨_, h2, e⟩
    · rw [e]
      simp [readN, (h x (by simp)).2 k h1]
    · rw [e]
      have hx := (h x (by simp)).1 ((xs.flatMap E).take (k - (E x).length))
      simp only [List.length_cons, readN, hx]
      rw [ih (fun y hy => h y (by simp [hy])) _ h2]

/-! ### sequencing (PairHandler, Save/Load fields) -/

theorem seq_RT {α β : Type} (Pa : Bytes → Option (α × Bytes)) (Pb : Bytes → Option (β × Bytes))
    (Ea : α → Bytes) (Eb : β → Bytes) (x : α) (y : β) (ha : RT Pa Ea x) (hb : RT Pb Eb y) (r : Bytes) :
    seqRead Pa Pb (Ea x ++ Eb y ++ r) = some ((x, y), r) := by
  unfold seqRead
  rw [List.append_assoc, ha (Eb y ++ r)]
  simp only [hb r]

theorem seq_TR {α β : Type} (Pa : Bytes → Option (α × Bytes)) (Pb : Bytes → Option (β × Bytes))
    (Ea : α → Bytes) (Eb : β → Bytes) (x : α) (y : β) (ha : RT Pa Ea x) (hta : TR Pa Ea x)
    (htb : TR Pb Eb y) (k : Nat) (hk : k < (Ea x ++ Eb y).length) :
    seqRead Pa Pb ((Ea x ++ Eb y).take k) = none := by
  unfold seqRead
  rcases take_append_cases (Ea x) (Eb y) k hk with ⟨h1, e⟩ | ⟨_, h2, e⟩
  · rw [e, hta k h1]
  · rw [e, ha ((Eb y).take (k - (Ea x).length))]
    simp only [htb _ h2]

/-! ### raw blocks -/

theorem flatMap_length_const {α : Type} (raw : α → Bytes) (sz : Nat) (xs : List α)
    (h : ∀ x ∈ xs, (raw x).length = sz) : (xs.flatMap raw).length = sz * xs.length := by
  induction xs with
  | nil => simp
  | cons x xs ih =>
    simp only [List.flatMap_cons, List.length_append, List.length_cons, h x (by simp),
      ih (fun y hy => h y (by simp [hy])), Nat.mul_succ]
    omega

theorem splitN_flatMap {α : Type} (raw : α → Bytes) (sz : Nat) (xs : List α)
    (h : ∀ x ∈ xs, (raw x).length = sz) : splitN sz xs.length (xs.flatMap raw) = xs.map raw := by
  induction xs with
  | nil => simp [splitN]
  | cons x xs ih =>
    have hx := h x (by simp)
    simp only [List.flatMap_cons, List.length_cons, splitN, List.map_cons]
    rw [List.take_append_of_le_length (by omega), List.take_of_length_le (by omega)]
    rw [List.drop_append_of_le_length (by omega), List.drop_of_length_le (by omega), List.nil_append]
    rw [ih (fun y hy => h y (by simp [hy]))]

/-! ### vectors -/

section vec
variable {α : Type} (c : Cfg) (podT : Bool) (sz : Nat) (raw enc : α → Bytes) (unraw : Bytes → α)
  (rd : Bytes → Option (α × Bytes))

theorem vec_RT (xs : List α) (hlen : xs.length < 2 ^ 64)
    (hraw : (podT && c.noSwap) = true → ∀ x ∈ xs, (raw x).length = sz ∧ unraw (raw x) = x)
    (helem : ∀ x ∈ xs, RT rd enc x) :
    RT (vecRead c podT sz unraw rd) (vecWrite c podT raw enc) xs := by
  intro r
  unfold vecRead vecWrite
  rw [vecRawW_eq, vecRawR_eq, countBytes_eq]
  have e : (256 : Nat) ^ 8 = 2 ^ 64 := by decide
  rw [e, Nat.mod_eq_of_lt hlen]
  cases hp : (podT && c.noSwap)
  · simp only [Bool.false_eq_true, if_false, List.append_assoc, countRead_countWrite c _ hlen]
    exact readN_RT rd enc xs helem r
  · simp only [if_true, List.append_assoc, countRead_countWrite c _ hlen]
    have hr := hraw hp
    cases xs with
    | nil => simp
    | cons x xs' =>
      have hne : ((x :: xs').length != 0) = true := by simp
      simp only [hne, if_true]
      have hl := flatMap_length_const raw sz (x :: xs') (fun y hy => (hr y hy).1)
      have := readBytes_append ((x :: xs').flatMap raw) r
      rw [hl] at this
      rw [this]
      simp only [splitN_flatMap raw sz (x :: xs') (fun y hy => (hr y hy).1), List.map_map]
      congr 2
      have : ∀ ys : List α, (∀ y ∈ ys, unraw (raw y) = y) → ys.map (unraw ∘ raw) = ys := by
        intro ys hy
        induction ys with
        | nil => rfl
        | cons z zs ih => simp [hy z (by simp), ih (fun w hw => hy w (by simp [hw]))]
      exact this _ (fun y hy => (hr y hy).2)

theorem vec_TR (xs : List α) (hlen : xs.length < 2 ^ 64)
    (hraw : (podT && c.noSwap) = true → ∀ x ∈ xs, (raw x).length = sz)
    (helem : ∀ x ∈ xs, RT rd enc x ∧ TR rd enc x) :
    TR (vecRead c podT sz unraw rd) (vecWrite c podT raw enc) xs := by
  intro k hk
  have e : (256 : Nat) ^ 8 = 2 ^ 64 := by decide
  have hcl := countWrite_length c xs.length
  unfold vecRead
  unfold vecWrite at hk ⊢
  rw [vecRawW_eq] at hk ⊢
  rw [vecRawR_eq]
  rw [countBytes_eq, e, Nat.mod_eq_of_lt hlen] at hk ⊢
  cases hp : (podT && c.noSwap)
  · rw [hp] at hk
    simp only [Bool.false_eq_true, if_false] at hk ⊢
    rcases take_append_cases _ _ k hk with ⟨h1, e1⟩ | ⟨_, h2, e1⟩
    · rw [e1, countRead_short c _ (by rw [List.length_take]; omega)]
    · rw [e1, countRead_countWrite c _ hlen]
      exact readN_TR rd enc xs helem _ h2
  · rw [hp] at hk
    simp only [if_true] at hk ⊢
    rcases take_append_cases _ _ k hk with ⟨h1, e1⟩ | ⟨_, h2, e1⟩
    · rw [e1, countRead_short c _ (by rw [List.length_take]; omega)]
    · rw [e1, countRead_countWrite c _ hlen]
      cases xs with
      | nil => simp at h2
      | cons x xs' =>
        have hne : ((x :: xs').length != 0) = true := by simp
        simp only [hne, if_true] at h2 ⊢
        have hl := flatMap_length_const raw sz (x :: xs') (hraw hp)
        rw [readBytes_short _ _ (by rw [List.length_take]; omega)]

end vec

/-! ### strings -/

theorem str_RT (c : Cfg) (bs : Bytes) (hlen : bs.length < 2 ^ 64) : RT (strRead c) (strWrite c) bs := by
  intro r
  unfold strRead strWrite
  have e : (256 : Nat) ^ 8 = 2 ^ 64 := by decide
  rw [strRawW_char, strRawR_char, countBytes_eq, e, Nat.mod_eq_of_lt hlen]
  simp only [if_true, List.append_assoc, countRead_countWrite c _ hlen]
  cases bs with
  | nil => simp
  | cons b bs' =>
    have hne : ((b :: bs').length != 0) = true := by simp
    simp only [hne, if_true]
    exact readBytes_append _ r

theorem str_TR (c : Cfg) (bs : Bytes) (hlen : bs.length < 2 ^ 64) : TR (strRead c) (strWrite c) bs := by
  intro k hk
  have e : (256 : Nat) ^ 8 = 2 ^ 64 := by decide
  have hcl := countWrite_length c bs.length
  unfold strRead
  unfold strWrite at hk ⊢
  rw [strRawW_char, countBytes_eq, e, Nat.mod_eq_of_lt hlen] at hk ⊢
  rw [strRawR_char]
  simp only [if_true] at hk ⊢
  rcases take_append_cases _ _ k hk with ⟨h1, e1⟩ | ⟨_, h2, e1⟩
  · rw [e1, countRead_short c _ (by rw [List.length_take]; omega)]
  · rw [e1, countRead_countWrite c _ hlen]
    cases bs with
    | nil => simp at h2
    | cons b bs' =>
      have hne : ((b :: bs').length != 0) = true := by simp
      simp only [hne, if_true] at h2 ⊢
      exact readBytes_short _ _ (by rw [List.length_take]; omega)

/-! ### pairs -/

section pair
variable {α β : Type} (c : Cfg) (a b : Ty) (rawA encA : α → Bytes) (rawB encB : β → Bytes)
  (unrawA : Bytes → α) (unrawB : Bytes → β)
  (rdA : Bytes → Option (α × Bytes)) (rdB : Bytes → Option (β × Bytes))

theorem pairBlock_length (x : α) (y : β) (ha : (rawA x).length = a.size) (hb : (rawB y).length = b.size)
    (hal : 0 < a.align) (hbl : 0 < b.align) :
    (rawA x ++ zeros (pairOffB a b - a.size) ++ rawB y ++ zeros (pairSize a b - (pairOffB a b + b.size))).length
      = pairSize a b := by
  have h1 : a.size ≤ pairOffB a b := roundUp_ge _ _ hbl
  have h2 : pairOffB a b + b.size ≤ pairSize a b :=
    roundUp_ge _ _ (Nat.lt_of_lt_of_le hal (Nat.le_max_left _ _))
  simp only [List.length_append, zeros, List.length_replicate, ha, hb]
  omega

theorem pair_RT (x : α) (y : β)
    (hraw : (a.isPod && b.isPod && c.noSwap) = true →
      (rawA x).length = a.size ∧ (rawB y).length = b.size ∧ unrawA (rawA x) = x ∧ unrawB (rawB y) = y ∧
      0 < a.align ∧ 0 < b.align)
    (hA : RT rdA encA x) (hB : RT rdB encB y) :
    RT (pairRead c a b unrawA unrawB rdA rdB) (pairWrite c a b rawA rawB encA encB) (x, y) := by
  intro r
  unfold pairRead pairWrite
  rw [← pairRaw_WR]
  cases hp : Gen.Ser.pairRawW a.isPod b.isPod c.noSwap a.size b.size (pairSize a b)
  · simp only [Bool.false_eq_true, if_false, pairFirstW_eq, pairFirstR_eq, if_true]
    exact seq_RT rdA rdB encA encB x y hA hB r
  · obtain ⟨ha, hb, hua, hub, hal, hbl⟩ := hraw (pairRaw_imp _ _ _ _ _ _ hp)
    simp only [if_true]
    have hl := pairBlock_length a b rawA rawB x y ha hb hal hbl
    have := readBytes_append
      (rawA x ++ zeros (pairOffB a b - a.size) ++ rawB y ++ zeros (pairSize a b - (pairOffB a b + b.size))) r
    rw [hl] at this
    rw [this]
    have h1 : a.size ≤ pairOffB a b := roundUp_ge _ _ hbl
    have t1 : (rawA x ++ zeros (pairOffB a b - a.size) ++ rawB y ++
        zeros (pairSize a b - (pairOffB a b + b.size))).take a.size = rawA x := by
      simp only [List.append_assoc]
      rw [List.take_append_of_le_length (by omega), List.take_of_length_le (by omega)]
    have t2 : ((rawA x ++ zeros (pairOffB a b - a.size) ++ rawB y ++
        zeros (pairSize a b - (pairOffB a b + b.size))).drop (pairOffB a b)).take b.size = rawB y := by
      have hlen : (rawA x ++ zeros (pairOffB a b - a.size)).length = pairOffB a b := by
        simp only [List.length_append, zeros, List.length_replicate, ha]; omega
      have : rawA x ++ zeros (pairOffB a b - a.size) ++ rawB y ++
          zeros (pairSize a b - (pairOffB a b + b.size)) =
          (rawA x ++ zeros (pairOffB a b - a.size)) ++ (rawB y ++ zeros (pairSize a b - (pairOffB a b + b.size))) := by
        simp only [List.append_assoc]
      rw [this, List.drop_append_of_le_length (by omega), List.drop_of_length_le (by omega), List.nil_append]
      rw [List.take_append_of_le_length (by omega), List.take_of_length_le (by omega)]
    simp only [t1, t2, hua, hub]

theorem pair_TR (x : α) (y : β)
    (hraw : (a.isPod && b.isPod && c.noSwap) = true →
      (rawA x).length = a.size ∧ (rawB y).length = b.size ∧ 0 < a.align ∧ 0 < b.align)
    (hA : RT rdA encA x) (htA : TR rdA encA x) (htB : TR rdB encB y) :
    TR (pairRead c a b unrawA unrawB rdA rdB) (pairWrite c a b rawA rawB encA encB) (x, y) := by
  intro k hk
  unfold pairRead
  unfold pairWrite at hk ⊢
  rw [← pairRaw_WR]
  cases hp : Gen.Ser.pairRawW a.isPod b.isPod c.noSwap a.size b.size (pairSize a b)
  · rw [hp] at hk
    simp only [Bool.false_eq_true, if_false, pairFirstW_eq, pairFirstR_eq, if_true] at hk ⊢
    exact seq_TR rdA rdB encA encB x y hA htA htB k hk
  · obtain ⟨ha, hb, hal, hbl⟩ := hraw (pairRaw_imp _ _ _ _ _ _ hp)
    rw [hp] at hk
    simp only [if_true] at hk ⊢
    have hl := pairBlock_length a b rawA rawB x y ha hb hal hbl
    rw [readBytes_short _ _ (by rw [List.length_take]; omega)]

end pair

/-! ### re-insertion into the container -/

theorem insertAll_id {α : Type} (ins : α → List α → List α) (R : α → α → Prop)
    (hins : ∀ x acc, (∀ y ∈ acc, R y x) → ins x acc = acc ++ [x]) (xs : List α)
    (h : xs.Pairwise R) : insertAll ins xs = xs := by
  unfold insertAll
  have key : ∀ (ys acc : List α), (acc ++ ys).Pairwise R →
      ys.foldl (fun acc x => ins x acc) acc = acc ++ ys := by
    intro ys
    induction ys with
    | nil => intro acc _; simp
    | cons y ys ih =>
      intro acc hp
      simp only [List.foldl_cons]
      have hy : ∀ z ∈ acc, R z y := by
        intro z hz
        rw [List.pairwise_append] at hp
        exact hp.2.2 z hz y (by simp)
      rw [hins y acc hy, ih (acc ++ [y]) (by simpa [List.append_assoc] using hp)]
      simp [List.append_assoc]
  simpa using key xs [] (by simpa using h)

theorem insU_append {α : Type} (lt : α → α → Bool) (x : α) (acc : List α)
    (h : ∀ y ∈ acc, lt y x = true ∧ lt x y = false) : insU lt x acc = acc ++ [x] := by
  induction acc with
  | nil => rfl
  | cons y ys ih =>
    have hy := h y (by simp)
    simp [insU, hy.1, hy.2, ih (fun z hz => h z (by simp [hz]))]

theorem insM_append {α : Type} (lt : α → α → Bool) (x : α) (acc : List α)
    (h : ∀ y ∈ acc, lt x y = false) : insM lt x acc = acc ++ [x] := by
  induction acc with
  | nil => rfl
  | cons y ys ih =>
    simp [insM, h y (by simp), ih (fun z hz => h z (by simp [hz]))]

theorem insH_append {α : Type} (eq : α → α → Bool) (x : α) (acc : List α)
    (h : ∀ y ∈ acc, eq y x = false) : insH eq x acc = acc ++ [x] := by
  unfold insH
  have : acc.any (fun y => eq y x) = false := by
    rw [List.any_eq_false]; intro y hy; simp [h y hy]
  simp [this]

/-- strictly increasing: what iterating a `std::set` / the keys of a `std::map` yields -/
def StrictSorted {α : Type} (lt : α → α → Bool) (xs : List α) : Prop :=
  xs.Pairwise (fun a b => lt a b = true ∧ lt b a = false)
/-- non-decreasing: what iterating a `std::multiset` / the keys of a `std::multimap` yields -/
def WeakSorted {α : Type} (lt : α → α → Bool) (xs : List α) : Prop :=
  xs.Pairwise (fun a b => lt b a = false)
/-- pairwise different: what iterating a `std::unordered_set` / the keys of an `unordered_map` yields -/
def Distinct {α : Type} (eq : α → α → Bool) (xs : List α) : Prop :=
  xs.Pairwise (fun a b => eq a b = false)

theorem insertAll_set {α : Type} (lt : α → α → Bool) (xs : List α) (h : StrictSorted lt xs) :
    insertAll (insU lt) xs = xs :=
  insertAll_id _ _ (fun x acc hy => insU_append lt x acc hy) xs h

theorem insertAll_mset {α : Type} (lt : α → α → Bool) (xs : List α) (h : WeakSorted lt xs) :
    insertAll (insM lt) xs = xs :=
  insertAll_id _ _ (fun x acc hy => insM_append lt x acc hy) xs h

theorem insertAll_uset {α : Type} (eq : α → α → Bool) (xs : List α) (h : Distinct eq xs) :
    insertAll (insH eq) xs = xs :=
  insertAll_id _ _ (fun x acc hy => insH_append eq x acc hy) xs h

theorem post_RT {α : Type} (P : Bytes → Option (List α × Bytes)) (E : List α → Bytes) (post : List α → List α)
    (xs : List α) (h : RT P E xs) (hp : post xs = xs) :
    RT (fun s => (P s).map fun (ys, r) => (post ys, r)) E xs := by
  intro r; simp [h r, hp]

theorem post_TR {α : Type} (P : Bytes → Option (List α × Bytes)) (E : List α → Bytes) (post : List α → List α)
    (xs : List α) (h : TR P E xs) :
    TR (fun s => (P s).map fun (ys, r) => (post ys, r)) E xs := by
  intro k hk; simp [h k hk]

/-! ### well-formed values -/

def natBelow (v b : Nat) : Prop := v < b
def lenIs (bs : Bytes) (n : Nat) : Prop := bs.length = n
/-- a container that exists in memory has fewer than 2^64 elements, each well formed -/
def wfList {α : Type} (P : α → Prop) (xs : List α) : Prop := xs.length < 2 ^ 64 ∧ ∀ x ∈ xs, P x

/-- well-formed value: bit patterns in range, lengths representable in the 64-bit count, POD images
of the right size, associative containers listed in an order their iteration can produce -/
def wf : (t : Ty) → Val t → Prop
  | .arith _ n, v => natBelow v (256 ^ n)
  | .str, bs => wfList (fun _ => True) bs
  | .pair a b, p => wf a p.1 ∧ wf b p.2
  | .vec t, xs => wfList (wf t) xs
  | .list t, xs => wfList (wf t) xs
  | .deque t, xs => wfList (wf t) xs
  | .set t, xs => wfList (wf t) xs ∧ StrictSorted (Ty.lt t) xs
  | .mset t, xs => wfList (wf t) xs ∧ WeakSorted (Ty.lt t) xs
  | .uset t, xs => wfList (wf t) xs ∧ Distinct (Ty.keyEq t) xs
  | .map k v, xs => wfList (fun p : Val k × Val v => wf k p.1 ∧ wf v p.2) xs ∧
      StrictSorted (fun p q : Val k × Val v => Ty.lt k p.1 q.1) xs
  | .mmap k v, xs => wfList (fun p : Val k × Val v => wf k p.1 ∧ wf v p.2) xs ∧
      WeakSorted (fun p q : Val k × Val v => Ty.lt k p.1 q.1) xs
  | .umap k v, xs => wfList (fun p : Val k × Val v => wf k p.1 ∧ wf v p.2) xs ∧
      Distinct (fun p q : Val k × Val v => Ty.keyEq k p.1 q.1) xs
  | .cnil, _ => True
  | .ccons f r, p => wf f p.1 ∧ wf r p.2
  | .pod s _, bs => lenIs bs s

/-! ### memory images of POD leaves -/

theorem sizeOk_le {n : Nat} (h : sizeOk n = true) : n ≤ 8 ∧ 0 < n := by
  simp [sizeOk] at h; omega

theorem pod_raw (c : Cfg) (t : Ty) (hok : t.ok = true) (hp : t.isPod = true) (v : Val t) (hv : wf t v) :
    (nativeImg c t v).length = t.size ∧ nativeVal c t (nativeImg c t v) = v ∧ 0 < t.align := by
  cases t with
  | arith k n =>
    have := sizeOk_le (by simpa [Ty.ok] using hok : sizeOk n = true)
    exact ⟨image_length _ _ _, unimage_image c.hostLE n v hv, by simp [Ty.align]; omega⟩
  | pod s a =>
    simp only [Ty.ok, Bool.and_eq_true] at hok
    have := sizeOk_le hok.1.1
    exact ⟨hv, rfl, by simp [Ty.align]; omega⟩
  | _ => simp [Ty.isPod] at hp

/-! ### the generic `Handler<T>` chain at the leaves and at classes -/

theorem encode_arith (c : Cfg) (k : AK) (n : Nat) (v : Val (.arith k n)) :
    encode c (.arith k n) v = arithWrite c n v := by
  simp [encode, genericW_arith]
  try rfl

theorem decode_arith (c : Cfg) (k : AK) (n : Nat) (s : Bytes) : decode c (.arith k n) s = arithRead c n s := by
  simp [decode, ← generic_WR, genericW_arith]
  try rfl

theorem encode_pod (c : Cfg) (hs : c.noSwap = true) (sz a : Nat) (v : Val (.pod sz a)) :
    encode c (.pod sz a) v = v := by
  simp [encode, genericW_pod, hs]
  try rfl

theorem decode_pod (c : Cfg) (hs : c.noSwap = true) (sz a : Nat) (s : Bytes) :
    decode c (.pod sz a) s = readBytes sz s := by
  simp [decode, ← generic_WR, genericW_pod, hs]
  try rfl

theorem encode_ccons (c : Cfg) (f r : Ty) (p : Val f × Val r) :
    encode c (.ccons f r) p = encode c f p.1 ++ encode c r p.2 := by
  simp [encode, genericW_cls]
  try rfl

theorem decode_ccons (c : Cfg) (f r : Ty) (s : Bytes) :
    decode c (.ccons f r) s = seqRead (decode c f) (decode c r) s := by
  simp [decode, ← generic_WR, genericW_cls]
  try rfl

/-- under `DMLC_IO_NO_ENDIAN_SWAP` the memory image of a POD leaf is what its handler writes -/
theorem pod_raw_eq_encode (c : Cfg) (t : Ty) (hok : t.ok = true) (hp : t.isPod = true) (hs : c.noSwap = true)
    (v : Val t) : nativeImg c t v = encode c t v := by
  cases t with
  | arith k n =>
    rw [encode_arith]
    simp [nativeImg, arithWrite, arithSwapW_eq, hs]
  | pod s a => rw [encode_pod c hs]; rfl
  | _ => simp [Ty.isPod] at hp

/-! ### the induction over the type universe -/

theorem supported_of (c : Cfg) {t u : Ty} (h : supported c t = true) (hsub : t.podFree = true → u.podFree = true) :
    supported c u = true := by
  unfold supported at h ⊢
  cases hs : c.noSwap
  · simp [hs] at h ⊢; exact hsub h
  · simp

theorem vec_case (c : Cfg) (t : Ty) (hok : t.ok = true)
    (ih : ∀ v : Val t, wf t v → RT (decode c t) (encode c t) v ∧ TR (decode c t) (encode c t) v)
    (xs : List (Val t)) (hv : wfList (wf t) xs) :
    RT (vecRead c t.isPod t.size (nativeVal c t) (decode c t)) (vecWrite c t.isPod (nativeImg c t) (encode c t)) xs ∧
    TR (vecRead c t.isPod t.size (nativeVal c t) (decode c t)) (vecWrite c t.isPod (nativeImg c t) (encode c t)) xs := by
  constructor
  · refine vec_RT c _ _ _ _ _ _ xs hv.1 ?_ (fun x hx => (ih x (hv.2 x hx)).1)
    intro hp x hx
    simp only [Bool.and_eq_true] at hp
    have := pod_raw c t hok hp.1 x (hv.2 x hx)
    exact ⟨this.1, this.2.1⟩
  · refine vec_TR c _ _ _ _ _ _ xs hv.1 ?_ (fun x hx => ih x (hv.2 x hx))
    intro hp x hx
    simp only [Bool.and_eq_true] at hp
    exact (pod_raw c t hok hp.1 x (hv.2 x hx)).1

theorem pair_case (c : Cfg) (a b : Ty) (hoka : a.ok = true) (hokb : b.ok = true)
    (iha : ∀ v : Val a, wf a v → RT (decode c a) (encode c a) v ∧ TR (decode c a) (encode c a) v)
    (ihb : ∀ v : Val b, wf b v → RT (decode c b) (encode c b) v ∧ TR (decode c b) (encode c b) v)
    (v : Val a × Val b) (hv : wf a v.1 ∧ wf b v.2) :
    RT (pairRead c a b (nativeVal c a) (nativeVal c b) (decode c a) (decode c b))
       (pairWrite c a b (nativeImg c a) (nativeImg c b) (encode c a) (encode c b)) v ∧
    TR (pairRead c a b (nativeVal c a) (nativeVal c b) (decode c a) (decode c b))
       (pairWrite c a b (nativeImg c a) (nativeImg c b) (encode c a) (encode c b)) v := by
  have ha := iha v.1 hv.1
  have hb := ihb v.2 hv.2
  constructor
  · refine pair_RT c a b _ _ _ _ _ _ _ _ v.1 v.2 ?_ ha.1 hb.1
    intro hp
    simp only [Bool.and_eq_true] at hp
    have ra := pod_raw c a hoka hp.1.1 v.1 hv.1
    have rb := pod_raw c b hokb hp.1.2 v.2 hv.2
    exact ⟨ra.1, rb.1, ra.2.1, rb.2.1, ra.2.2, rb.2.2⟩
  · refine pair_TR c a b _ _ _ _ _ _ _ _ v.1 v.2 ?_ ha.1 ha.2 hb.2
    intro hp
    simp only [Bool.and_eq_true] at hp
    have ra := pod_raw c a hoka hp.1.1 v.1 hv.1
    have rb := pod_raw c b hokb hp.1.2 v.2 hv.2
    exact ⟨ra.1, rb.1, ra.2.2, rb.2.2⟩

/-- the `std::vector<std::pair<K, V>>` through which the map-like containers are written and read -/
theorem map_case (c : Cfg) (k v : Ty) (hokk : k.ok = true) (hokv : v.ok = true)
    (ihk : ∀ x : Val k, wf k x → RT (decode c k) (encode c k) x ∧ TR (decode c k) (encode c k) x)
    (ihv : ∀ x : Val v, wf v x → RT (decode c v) (encode c v) x ∧ TR (decode c v) (encode c v) x)
    (xs : List (Val k × Val v)) (hv : wfList (fun p : Val k × Val v => wf k p.1 ∧ wf v p.2) xs) :
    RT (vecRead c false 0 (fun _ => (Ty.dflt k, Ty.dflt v))
          (pairRead c k v (nativeVal c k) (nativeVal c v) (decode c k) (decode c v)))
       (vecWrite c false (fun _ => [])
          (pairWrite c k v (nativeImg c k) (nativeImg c v) (encode c k) (encode c v))) xs ∧
    TR (vecRead c false 0 (fun _ => (Ty.dflt k, Ty.dflt v))
          (pairRead c k v (nativeVal c k) (nativeVal c v) (decode c k) (decode c v)))
       (vecWrite c false (fun _ => [])
          (pairWrite c k v (nativeImg c k) (nativeImg c v) (encode c k) (encode c v))) xs := by
  have he := fun p hp => pair_case c k v hokk hokv ihk ihv p (hv.2 p hp)
  constructor
  · exact vec_RT c _ _ _ _ _ _ xs hv.1 (by simp) (fun x hx => (he x hx).1)
  · exact vec_TR c _ _ _ _ _ _ xs hv.1 (by simp) he

theorem pod_leaf (c : Cfg) (hns : c.noSwap = true) (sz a : Nat) (v : Bytes) (hl : v.length = sz) :
    RT (decode c (.pod sz a)) (encode c (.pod sz a)) v ∧ TR (decode c (.pod sz a)) (encode c (.pod sz a)) v := by
  constructor
  · intro r
    rw [encode_pod c hns, decode_pod c hns]
    have := readBytes_append v r
    rw [hl] at this
    exact this
  · intro k hk
    rw [encode_pod c hns] at hk ⊢
    rw [decode_pod c hns]
    exact readBytes_short _ _ (by rw [List.length_take]; omega)

/-- every `Handler<T>` of a supported type round-trips every well-formed value and fails on every
strict prefix of its encoding -/
theorem rt_tr (c : Cfg) (t : Ty) (hok : t.ok = true) (hs : supported c t = true) :
    ∀ v : Val t, wf t v → RT (decode c t) (encode c t) v ∧ TR (decode c t) (encode c t) v := by
  induction t with
  | arith k n =>
    intro v hv
    have hn := sizeOk_le (by simpa [Ty.ok] using hok : sizeOk n = true)
    constructor
    · intro r
      rw [encode_arith, decode_arith]
      exact arithRead_arithWrite c n v hn.1 hv r
    · intro k hk
      rw [encode_arith] at hk ⊢
      rw [decode_arith]
      rw [arithWrite_length c n v hn.1] at hk
      exact arithRead_short c n _ (by rw [List.length_take, arithWrite_length c n v hn.1]; omega)
  | pod s a =>
    intro v hv
    have hns : c.noSwap = true := by simpa [supported, Ty.podFree] using hs
    exact pod_leaf c hns s a v hv
  | str =>
    intro v hv
    exact ⟨str_RT c v hv.1, str_TR c v hv.1⟩
  | pair a b iha ihb =>
    intro v hv
    simp only [Ty.ok, Bool.and_eq_true] at hok
    exact pair_case c a b hok.1 hok.2
      (iha hok.1 (supported_of c hs (by simp [Ty.podFree]; intro h _; exact h)))
      (ihb hok.2 (supported_of c hs (by simp [Ty.podFree]))) v hv
  | vec t ih => exact fun v hv => vec_case c t (by simpa [Ty.ok] using hok) (ih (by simpa [Ty.ok] using hok)
      (supported_of c hs (by simp [Ty.podFree]))) v hv
  | list t ih => exact fun v hv => vec_case c t (by simpa [Ty.ok] using hok) (ih (by simpa [Ty.ok] using hok)
      (supported_of c hs (by simp [Ty.podFree]))) v hv
  | deque t ih => exact fun v hv => vec_case c t (by simpa [Ty.ok] using hok) (ih (by simpa [Ty.ok] using hok)
      (supported_of c hs (by simp [Ty.podFree]))) v hv
  | set t ih =>
    intro v hv
    simp only [Ty.ok, Bool.and_eq_true] at hok
    have h := vec_case c t hok.1 (ih hok.1 (supported_of c hs (by simp [Ty.podFree]))) v hv.1
    exact ⟨post_RT _ _ _ v h.1 (insertAll_set _ v hv.2), post_TR _ _ _ v h.2⟩
  | mset t ih =>
    intro v hv
    simp only [Ty.ok, Bool.and_eq_true] at hok
    have h := vec_case c t hok.1 (ih hok.1 (supported_of c hs (by simp [Ty.podFree]))) v hv.1
    exact ⟨post_RT _ _ _ v h.1 (insertAll_mset _ v hv.2), post_TR _ _ _ v h.2⟩
  | uset t ih =>
    intro v hv
    simp only [Ty.ok, Bool.and_eq_true] at hok
    have h := vec_case c t hok.1 (ih hok.1 (supported_of c hs (by simp [Ty.podFree]))) v hv.1
    exact ⟨post_RT _ _ _ v h.1 (insertAll_uset _ v hv.2), post_TR _ _ _ v h.2⟩
  | map k w ihk ihw =>
    intro v hv
    simp only [Ty.ok, Bool.and_eq_true] at hok
    have h := map_case c k w hok.1.1 hok.1.2
      (ihk hok.1.1 (supported_of c hs (by simp [Ty.podFree]; intro h _; exact h)))
      (ihw hok.1.2 (supported_of c hs (by simp [Ty.podFree]))) v hv.1
    exact ⟨post_RT _ _ _ v h.1 (insertAll_set _ v hv.2), post_TR _ _ _ v h.2⟩
  | mmap k w ihk ihw =>
    intro v hv
    simp only [Ty.ok, Bool.and_eq_true] at hok
    have h := map_case c k w hok.1.1 hok.1.2
      (ihk hok.1.1 (supported_of c hs (by simp [Ty.podFree]; intro h _; exact h)))
      (ihw hok.1.2 (supported_of c hs (by simp [Ty.podFree]))) v hv.1
    exact ⟨post_RT _ _ _ v h.1 (insertAll_mset _ v hv.2), post_TR _ _ _ v h.2⟩
  | umap k w ihk ihw =>
    intro v hv
    simp only [Ty.ok, Bool.and_eq_true] at hok
    have h := map_case c k w hok.1.1 hok.1.2
      (ihk hok.1.1 (supported_of c hs (by simp [Ty.podFree]; intro h _; exact h)))
      (ihw hok.1.2 (supported_of c hs (by simp [Ty.podFree]))) v hv.1
    exact ⟨post_RT _ _ _ v h.1 (insertAll_uset _ v hv.2), post_TR _ _ _ v h.2⟩
  | cnil =>
    intro v _
    constructor
    · intro r; simp [encode, decode]
    · intro k hk; simp [encode] at hk
  | ccons f r ihf ihr =>
    intro v hv
    simp only [Ty.ok, Bool.and_eq_true] at hok
    have hf := ihf hok.1 (supported_of c hs (by simp [Ty.podFree]; intro h _; exact h)) v.1 hv.1
    have hr := ihr hok.2 (supported_of c hs (by simp [Ty.podFree])) v.2 hv.2
    constructor
    · intro rest
      rw [encode_ccons, decode_ccons]
      exact seq_RT _ _ _ _ v.1 v.2 hf.1 hr.1 rest
    · intro k hk
      rw [encode_ccons] at hk ⊢
      rw [decode_ccons]
      exact seq_TR _ _ _ _ v.1 v.2 hf.1 hf.2 hr.2 k hk

end DmlcModel.Ser
