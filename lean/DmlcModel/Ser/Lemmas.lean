/-
Specification lemmas for the generated serializer items (`Gen/Ser.lean`) and the number / memory-image /
ByteSwap facts.  If a C++ expression or a handler-selection condition changes, the generated
definition changes and these lemmas (hence everything downstream) stop compiling.
-/
import DmlcModel.Ser.Model

set_option linter.unusedSimpArgs false

namespace DmlcModel.Ser
open DmlcModel

/-! ### generated items -/

theorem countBytes_eq : Gen.Ser.countBytes = 8 := rfl

theorem noSwap_eq (c : Cfg) : c.noSwap = (c.hostLE == c.ioLE) := by
  cases c with
  | mk h i => cases h <;> cases i <;> rfl

theorem arithSwapW_eq (b : Bool) : Gen.Ser.arithSwapW b = !b := rfl
theorem arithSwapR_eq (b : Bool) : Gen.Ser.arithSwapR b = !b := rfl

/-- the generic `Handler<T>` chain picks the same handler for writing and reading -/
theorem generic_WR (a p s n : Bool) : Gen.Ser.genericW a p s n = Gen.Ser.genericR a p s n := rfl
theorem genericW_arith (n : Bool) : Gen.Ser.genericW true true false n = 0 := rfl
theorem genericW_pod (n : Bool) : Gen.Ser.genericW false true false n = if n then 1 else 3 := by cases n <;> rfl
theorem genericW_cls (n : Bool) : Gen.Ser.genericW false false true n = 2 := by cases n <;> rfl

theorem vecRawW_eq (p n : Bool) : Gen.Ser.vecRawW p n = (p && n) := rfl
theorem vecRawR_eq (p n : Bool) : Gen.Ser.vecRawR p n = (p && n) := rfl
theorem strRawW_char (n : Bool) : Gen.Ser.strRawW true n 1 = true := by cases n <;> rfl
theorem strRawR_char (n : Bool) : Gen.Ser.strRawR true n 1 = true := by cases n <;> rfl
/-- the raw `std::pair` path is selected by the same condition for writing and reading -/
theorem pairRaw_WR (pa pb n : Bool) (sa sb sp : Nat) :
    Gen.Ser.pairRawW pa pb n sa sb sp = Gen.Ser.pairRawR pa pb n sa sb sp := rfl
/-- … and only for two PODs without byte swapping -/
theorem pairRaw_imp (pa pb n : Bool) (sa sb sp : Nat) (h : Gen.Ser.pairRawW pa pb n sa sb sp = true) :
    (pa && pb && n) = true := by
  cases pa <;> cases pb <;> cases n <;> simp_all [Gen.Ser.pairRawW]
/-- the raw path is taken only for pair objects without padding (repair of finding C15-F1) -/
theorem pairRaw_tight (pa pb n : Bool) (sa sb sp : Nat) (h : Gen.Ser.pairRawW pa pb n sa sb sp = true) :
    sp = sa + sb := by
  cases pa <;> cases pb <;> cases n <;> simp_all [Gen.Ser.pairRawW]
theorem pairFirstW_eq : Gen.Ser.pairFirstW = 0 := rfl
theorem pairFirstR_eq : Gen.Ser.pairFirstR = 0 := rfl

theorem swapBase_zero (eb : Nat) : Gen.Ser.swapBase eb 0 = 0 := by simp [Gen.Ser.swapBase, u64]
theorem swapHalf_eq (eb : Nat) : Gen.Ser.swapHalf eb = eb / 2 := rfl
theorem swapIdx_eq (eb j : Nat) (h : j < eb) (hb : eb < 2 ^ 64) : Gen.Ser.swapIdx eb j = eb - 1 - j := by
  unfold Gen.Ser.swapIdx sub64
  have e : (18446744073709551616 : Nat) = 2 ^ 64 := by decide
  rw [e]
  have h1 : 1 % 2 ^ 64 = 1 := by decide
  have h2 : j % 2 ^ 64 = j := Nat.mod_eq_of_lt (by omega)
  rw [h1, h2]
  have h3 : (eb + 2 ^ 64 - 1) % 2 ^ 64 = eb - 1 := by
    have : eb + 2 ^ 64 - 1 = (eb - 1) + 2 ^ 64 := by omega
    rw [this, Nat.add_mod_right]; exact Nat.mod_eq_of_lt (by omega)
  rw [h3]
  have : eb - 1 + 2 ^ 64 - j = (eb - 1 - j) + 2 ^ 64 := by omega
  rw [this, Nat.add_mod_right]; exact Nat.mod_eq_of_lt (by omega)

/-! ### numbers and images -/

@[simp] theorem toLE_length (n v : Nat) : (toLE n v).length = n := by
  induction n generalizing v with
  | zero => rfl
  | succ n ih => simp [toLE, ih]

theorem fromLE_toLE (n v : Nat) (h : v < 256 ^ n) : fromLE (toLE n v) = v := by
  induction n generalizing v with
  | zero => simp at h; simp [toLE, fromLE, h]
  | succ n ih =>
    have h2 : v / 256 < 256 ^ n := by
      rw [Nat.div_lt_iff_lt_mul (by decide)]; rw [Nat.pow_succ] at h; exact h
    simp only [toLE, fromLE, ih _ h2, UInt8.toNat_ofNat']
    omega

@[simp] theorem image_length (le : Bool) (n v : Nat) : (image le n v).length = n := by
  cases le <;> simp [image]

theorem unimage_image (le : Bool) (n v : Nat) (h : v < 256 ^ n) : unimage le (image le n v) = v := by
  cases le <;> simp [image, unimage, fromLE_toLE n v h]

theorem image_reverse (le : Bool) (n v : Nat) : (image le n v).reverse = image (!le) n v := by
  cases le <;> simp [image]

/-- `ByteSwap` of one element of at most 8 bytes reverses it (checked by unfolding the loop model with
the generated index arithmetic for every length 0 … 8) -/
theorem byteSwap1_eq_reverse (bs : Bytes) (h : bs.length ≤ 8) : byteSwap1 bs = bs.reverse := by
  match bs, h with
  | [], _ => rfl
  | [_], _ => simp [byteSwap1, swapLoop, Gen.Ser.swapBase, Gen.Ser.swapHalf, Gen.Ser.swapIdx, sub64, u64]
  | [_, _], _ => simp [byteSwap1, swapLoop, Gen.Ser.swapBase, Gen.Ser.swapHalf, Gen.Ser.swapIdx, sub64, u64]
  | [_, _, _], _ => simp [byteSwap1, swapLoop, Gen.Ser.swapBase, Gen.Ser.swapHalf, Gen.Ser.swapIdx, sub64, u64]
  | [_, _, _, _], _ => simp [byteSwap1, swapLoop, Gen.Ser.swapBase, Gen.Ser.swapHalf, Gen.Ser.swapIdx, sub64, u64]
  | [_, _, _, _, _], _ =>
    simp [byteSwap1, swapLoop, Gen.Ser.swapBase, Gen.Ser.swapHalf, Gen.Ser.swapIdx, sub64, u64]
  | [_, _, _, _, _, _], _ =>
    simp [byteSwap1, swapLoop, Gen.Ser.swapBase, Gen.Ser.swapHalf, Gen.Ser.swapIdx, sub64, u64]
  | [_, _, _, _, _, _, _], _ =>
    simp [byteSwap1, swapLoop, Gen.Ser.swapBase, Gen.Ser.swapHalf, Gen.Ser.swapIdx, sub64, u64]
  | [_, _, _, _, _, _, _, _], _ =>
    simp [byteSwap1, swapLoop, Gen.Ser.swapBase, Gen.Ser.swapHalf, Gen.Ser.swapIdx, sub64, u64]
  | _ :: _ :: _ :: _ :: _ :: _ :: _ :: _ :: _ :: _, h => simp at h

theorem byteSwap1_length (bs : Bytes) (h : bs.length ≤ 8) : (byteSwap1 bs).length = bs.length := by
  rw [byteSwap1_eq_reverse bs h]; simp

/-- what `ArithmeticHandler::Write` puts on the stream is the image of the value in the byte order of
the stream, whatever the byte order of the host -/
theorem arithWrite_eq (c : Cfg) (n v : Nat) (hn : n ≤ 8) : arithWrite c n v = image c.ioLE n v := by
  unfold arithWrite
  rw [arithSwapW_eq, noSwap_eq]
  cases c with
  | mk h i =>
    cases h <;> cases i <;> simp [byteSwap1_eq_reverse _ (by simp [hn] : (image _ n v).length ≤ 8), image_reverse]

@[simp] theorem arithWrite_length (c : Cfg) (n v : Nat) (hn : n ≤ 8) : (arithWrite c n v).length = n := by
  rw [arithWrite_eq c n v hn]; simp

theorem readBytes_append (w r : Bytes) : readBytes w.length (w ++ r) = some (w, r) := by
  simp [readBytes]

theorem readBytes_short (n : Nat) (s : Bytes) (h : s.length < n) : readBytes n s = none := by
  simp [readBytes, h]

theorem readBytes_none_iff (n : Nat) (s : Bytes) : readBytes n s = none ↔ s.length < n := by
  unfold readBytes; split <;> simp_all

theorem arithRead_arithWrite (c : Cfg) (n v : Nat) (hn : n ≤ 8) (hv : v < 256 ^ n) (r : Bytes) :
    arithRead c n (arithWrite c n v ++ r) = some (v, r) := by
  have hl := arithWrite_length c n v hn
  unfold arithRead
  have := readBytes_append (arithWrite c n v) r
  rw [hl] at this
  rw [this]
  simp only [arithSwapR_eq]
  unfold arithWrite
  rw [arithSwapW_eq]
  cases hs : c.noSwap
  · simp only [Bool.not_false, if_true]
    have h8 : (image c.hostLE n v).length ≤ 8 := by simp [hn]
    rw [byteSwap1_eq_reverse _ (by rw [byteSwap1_length _ h8]; exact h8), byteSwap1_eq_reverse _ h8]
    simp [unimage_image c.hostLE n v hv]
  · simp [unimage_image c.hostLE n v hv]

theorem arithRead_short (c : Cfg) (n : Nat) (s : Bytes) (h : s.length < n) : arithRead c n s = none := by
  simp [arithRead, readBytes_short n s h]

theorem countRead_countWrite (c : Cfg) (len : Nat) (h : len < 2 ^ 64) (r : Bytes) :
    countRead c (countWrite c len ++ r) = some (len, r) := by
  unfold countRead countWrite
  rw [countBytes_eq]
  have e : (256 : Nat) ^ 8 = 2 ^ 64 := by decide
  rw [e, Nat.mod_eq_of_lt h]
  exact arithRead_arithWrite c 8 len (by decide) (by rw [e]; exact h) r

theorem countWrite_length (c : Cfg) (len : Nat) : (countWrite c len).length = 8 := by
  unfold countWrite; rw [countBytes_eq]; exact arithWrite_length c 8 _ (by decide)

theorem countRead_short (c : Cfg) (s : Bytes) (h : s.length < 8) : countRead c s = none :=
  arithRead_short c 8 s h

theorem countWrite_eq (c : Cfg) (len : Nat) (h : len < 2 ^ 64) : countWrite c len = image c.ioLE 8 len := by
  unfold countWrite
  rw [countBytes_eq]
  have e : (256 : Nat) ^ 8 = 2 ^ 64 := by decide
  rw [e, Nat.mod_eq_of_lt h]
  exact arithWrite_eq c 8 len (by decide)

/-! ### alignment arithmetic -/

theorem roundUp_ge (x a : Nat) (ha : 0 < a) : x ≤ roundUp x a := by
  unfold roundUp
  have h1 := Nat.div_add_mod (x + a - 1) a
  have h2 := Nat.mod_lt (x + a - 1) ha
  have h3 : a * ((x + a - 1) / a) = (x + a - 1) / a * a := Nat.mul_comm _ _
  omega

end DmlcModel.Ser
