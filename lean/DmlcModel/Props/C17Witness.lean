import DmlcModel.Props.C17
namespace DmlcModel.Props.C17
end DmlcModel.Props.C17
