/-
C17 — non-vacuity examples and concrete witnesses of the documented library quirks (each evaluated on
the model by the kernel).
-/
import DmlcModel.Props.C17

namespace DmlcModel.Props.C17
open DmlcModel DmlcModel.Param

/-- a float conversion stub for the examples (the theorems are generic in it): accepts only "1" -/
def opsW : FloatOps :=
  { conv32 := fun t => if t = [49] then .ok 1065353216 1 else .invalid,
    conv64 := fun t => if t = [49] then .ok 4607182418800017408 1 else .invalid,
    print32 := fun _ => [49], print64 := fun _ => [49] }

/-- `i` int, default 3, range [-5,100], alias `ii`;  `s` string, required;  `o` optional<int>, default None;
    `e` enum {a=1, b=2}, default 1;  `u` unsigned, default 7 -/
def SW : Schema :=
  [ { name := [105], aliases := [[105, 105]], ty := .int, dflt := some (.int 3), lo := some (.int (-5)), hi := some (.int 100), enums := [] },
    { name := [115], aliases := [], ty := .string, dflt := none, lo := none, hi := none, enums := [] },
    { name := [111], aliases := [], ty := .optInt, dflt := some (.oint none), lo := none, hi := none, enums := [] },
    { name := [101], aliases := [], ty := .enumInt, dflt := some (.int 1), lo := none, hi := none, enums := [([97], 1), ([98], 2)] },
    { name := [117], aliases := [], ty := .uint, dflt := some (.int 7), lo := none, hi := none, enums := [] } ]

example : (allKeys SW).Nodup := by decide
example : ∀ f ∈ SW, EnumsInRange f := by
  intro f hf e he
  simp only [SW, List.mem_cons, List.mem_nil_iff, or_false] at hf
  rcases hf with rfl | rfl | rfl | rfl | rfl <;> simp at he
  rcases he with rfl | rfl <;> simp [inKind]

/-- the hypotheses of `C17_init_ok` are satisfiable: i=5, ii=7 (alias, later: wins), s=x -/
example : (runInit opsW SW Gen.Param.kAllowHidden false (zeroStruct SW)
    [([105], [53]), ([115], [120]), ([105, 105], [55])]).err = none := by decide
example : (runInit opsW SW Gen.Param.kAllowHidden false (zeroStruct SW)
    [([105], [53]), ([115], [120]), ([105, 105], [55])]).st 0 = .int 7 := by decide
example : (runInit opsW SW Gen.Param.kAllowHidden false (zeroStruct SW)
    [([105], [53]), ([115], [120]), ([105, 105], [55])]).st 4 = .int 7 := by decide
/-- required field missing -/
example : (runInit opsW SW Gen.Param.kAllowHidden false (zeroStruct SW) [([105], [53])]).err = some .required := by decide
/-- out of range: 101 > 100 -/
example : (runInit opsW SW Gen.Param.kAllowHidden false (zeroStruct SW) [([115], []), ([105], [49, 48, 49])]).err = some .range := by
  decide
/-- quirks kept by the model because the library has them -/
-- trailing blank accepted by the generic path
example : (setInt .i32 (.int 0) [53, 32]).2 = none := by decide
-- "-1" accepted for unsigned and wraps
example : setInt .u32 (.int 0) [45, 49] = (.int 4294967295, none) := by decide
-- "5L" accepted for optional<int>, "5LL", " None", "Nonex" rejected
example : setOptInt [53, 76] = (.oint (some 5), none) := by decide
example : (setOptInt [53, 76, 76]).2 = some .format := by decide
example : (setOptInt [32, 78, 111, 110, 101]).2 = some .format := by decide
example : (setOptInt [78, 111, 110, 101, 120]).2 = some .format := by decide
-- an enum field rejects its numeric value
example : (runInit opsW SW Gen.Param.kAllowHidden false (zeroStruct SW) [([115], []), ([101], [49])]).err = some .enum := by decide
-- `____` is not hidden, `__x__` is
example : hiddenSkip Gen.Param.kAllowHidden [95, 95, 95, 95] = false := by decide
example : hiddenSkip Gen.Param.kAllowHidden [95, 95, 120, 95, 95] = true := by decide
example : hiddenSkip Gen.Param.kAllMatch [95, 95, 120, 95, 95] = false := by decide
-- nan passes a two-sided range check (both comparisons false)
example : check { name := [], aliases := [], ty := .float, dflt := none, lo := some (.flt 3212836864), hi := some (.flt 1065353216), enums := [] }
    (.flt 2143289344) = none := by decide
-- a failing argument leaves the earlier ones applied (no rollback)
example : (runUpdate opsW SW Gen.Param.kAllMatch false (zeroStruct SW) [] [] [([105], [57]), ([122], [49])]).st 0 = .int 9 := by
  decide
-- the dictionary has one entry per name and alias
example : (entryMap SW).map (·.1) = [[101], [105], [105, 105], [111], [115], [117]] := by decide

-- hypotheses of the dictionary / JSON theorems are satisfiable: the dictionary of an initialised struct exists,
-- and dictionaries are key-sorted maps (the hypothesis of `C17_json_map_roundtrip`)
example : (match dict opsW SW (runInit opsW SW Gen.Param.kAllowHidden false (zeroStruct SW) [([115], [120])]).st with
    | .ok kvs => kvs.length | .error _ => 0) = 6 := by decide
example : incK (([([105], [53]), ([115], [120, 34, 92, 10])] : List KV).map (·.1)) := by
  simp [incK, chainK, bytesLt]
example : incK ((entryMap SW).map (·.1)) := entryMap_incK SW
-- the saved text of the empty map and of a one-entry map, as json.h writes them
example : jsonWriteMap [] = some [123, 125] := by decide
example : jsonWriteMap [([105], [53])] = some [123, 34, 105, 34, 58, 32, 34, 53, 34, 125] := by decide

-- `PrintedDecimal` is satisfiable: "0.5" and "1.25e-07" are decimal lexemes within the limits
example : PrintedDecimal .F32 [48, 46, 53] ⟨false, [0], true, [5], none⟩ :=
  ⟨by decide, by decide +kernel, by decide, Or.inl (by decide), fun _ _ h => by cases h⟩
example : StrToNum.scanNum ([49, 46, 50, 53, 101, 45, 48, 55] ++ [0]) =
    some (.dec ⟨false, [1], true, [2, 5], some (true, [0, 7])⟩, 8) := by decide +kernel

end DmlcModel.Props.C17
