/-
C07 — life cycle of one ThreadedIter object: `Init` again after `Destroy` (what unittest_threaditer_exc_handling does
after a producer failure).  Property theorems only; model and lemmas in DmlcModel/TIter/Lifecycle.lean.
`Gen.TIter.initSig / initProcessed / initProduceEnd / initClearsExc` are the assignments `Init(next, beforefirst)`
makes in front of the producer thread, read from the source on every run.
-/
import DmlcModel.TIter.Lifecycle
import DmlcModel.Props.C07

namespace DmlcModel.Props.C07Lifecycle
open DmlcModel DmlcModel.TIter DmlcModel.Gen.TIter

/-- `Init` itself assigns the command word, both flags and the stored exception: it does not rely on the constructor
or on what the previous life left behind -/
theorem C07_init_assigns_everything :
    initSig = some kProduce ∧ initProcessed = some false ∧ initProduceEnd = some false ∧ initClearsExc = true := by
  decide

/-- **the second life starts in the initial state**: in every reachable state of the first life (any scripts, any
schedule, also after a producer failure) in which `Destroy`'s join returns while nothing is lent, `Init` puts the
object exactly into `init` -/
theorem C07_reinit_is_init {P : Params} {s s' : State} (h : Reachable P s) (hs : step P s .xStep = some s')
    (hx : s.xloc = .dJoin) (hl : s.lent = []) (hr : s.recycling = []) : reinit s' = init := by
  have hr' : Reachable P s' := .step _ h hs
  refine reinit_eq_init (inv_reachable hr').a ?_
  exact afterDestroy_of_join ((inv_reachable h).a.excl (by rw [hx]; simp)) hs hx hl hr

/-- hence every state of the second life is a reachable state of the same transition system, for the scripts and the
capacity of the second life: all theorems stated over `Reachable` (C07_order, C07_exactly_once, C07_no_deadlock,
C08_*, C09_*) hold in it unchanged -/
theorem C07_second_life {P P' : Params} {s s' t : State} (h : Reachable P s) (hs : step P s .xStep = some s')
    (hx : s.xloc = .dJoin) (hl : s.lent = []) (hr : s.recycling = [])
    (ht : ∃ es : List Event, (es.foldlM (fun st e => step P' st e) (reinit s')) = some t) : Reachable P' t := by
  rw [C07_reinit_is_init h hs hx hl hr] at ht
  obtain ⟨es, hes⟩ := ht
  have gen : ∀ (es : List Event) (a t : State), Reachable P' a →
      es.foldlM (fun st e => step P' st e) a = some t → Reachable P' t := by
    intro es
    induction es with
    | nil => intro a t ha h; simp [List.foldlM] at h; exact h ▸ ha
    | cons e es ih =>
      intro a t ha h
      simp only [List.foldlM_cons] at h
      cases hstep : step P' a e with
      | none => rw [hstep] at h; simp at h
      | some b => rw [hstep] at h; exact ih b t (.step e ha hstep) (by simpa using h)
  exact gen es init t .init hes

/-- two items, capacity 1 -/
def Pl : Params := { src := fun _ i => if i < 2 then .item i else .fin, rew := fun _ => .ok, cap := 1 }

/-- the producer queues the first item, a consumer takes it and gives the cell back, then `Destroy`: command posted,
the producer sees it and exits -- 17 transitions, `Destroy` is about to join -/
def schedDestroy : List Event :=
  [.prod, .prod, .prod, .prod, .nStart false, .nLoadSig, .nExc, .nLock, .nRetItem, .rStart 0, .rExc 0, .rLock 0, .rRet,
   .dStart, .xStep, .prod, .prod]

/-- the state in which `Destroy` is about to join, and the state after the join -/
def sJoin : State := (runEvents true Pl init schedDestroy).getD init
def sDone : State := (stepR true Pl sJoin .xStep).getD init

/-- non-vacuity of `C07_reinit_is_init` / `C07_second_life`: a mid-stream `Destroy` (one item delivered and recycled,
one cell in the free list, the second item never produced) reaches a state that meets the hypotheses, and `Init`
after the join gives `init` -/
example : Reachable Pl sJoin ∧ step Pl sJoin .xStep = some sDone ∧ sJoin.xloc = .dJoin ∧ sJoin.lent = [] ∧
    sJoin.recycling = [] ∧ sJoin.free = [0] ∧ sJoin.delivered.length = 1 ∧ sDone.joined = true ∧ reinit sDone = init :=
  ⟨reachable_run schedDestroy init sJoin ReachableR.init (by rfl), by rfl, by rfl, by rfl, by rfl, by rfl, by rfl, by rfl,
   by rfl⟩

end DmlcModel.Props.C07Lifecycle
