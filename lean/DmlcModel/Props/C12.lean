/-
C12 — parsers return exactly the rows a well-formed document describes.

Renderers (`renderSvm`, `renderFm`, `renderCsv` over a `Style` capturing every free choice of the
format), the full statements `C12_libsvm / C12_libfm / C12_csv` (stated; see CONFIG['partial']) and the
proved core of the round trip: `C12_pair_partial` — `ParsePair` on a rendered `lexeme[:lexeme]` followed by
a separator returns exactly the two lexemes' values and stops exactly behind them (generic in the
conversions, contract `Conv.Exact`).  The document-level step from lines to blocks is C11.
-/
import DmlcModel.Props.C11

namespace DmlcModel.Props.C12
open DmlcModel DmlcModel.Parse DmlcModel.Props.C11

/-! ### lexemes and the exactness contract -/

/-- a number lexeme is spelled with number characters only (digits, sign, '.', 'e', 'E') and is not empty;
which of these strings are *numbers* is C14's business: here a lexeme means whatever the conversion
returns for it when it stands alone -/
def IsLexeme (lex : Bytes) : Prop := lex ≠ [] ∧ ∀ b ∈ lex, isDigitCharB b = true

/-- bytes that may follow a lexeme: anything that is not a number character of strtonum.h nor a letter
(so that `1e5x`, `0x10`, `inf` … are not lexemes followed by something) -/
def isDelimB (b : UInt8) : Bool := !isDigitCharB b && !ConvSimple.isNumCh b

/-- `Conv.Exact`: a lexeme followed by a delimiter converts to the value of the lexeme standing alone -/
structure Exact (g : Bytes → Res Nat) : Prop where
  exact : ∀ lex tail : Bytes, IsLexeme lex → (∀ b, tail.head? = some b → isDelimB b = true) →
    g (lex ++ tail) = g lex

structure Conv.ExactWith (conv : Conv) (gR gI gQ : Bytes → Res Nat) (gC : Bytes → Res (Nat × Nat)) : Prop where
  loc : conv.LocalWith gR gI gQ gC
  real : Exact gR
  index : Exact gI
  qid : Exact gQ
  cell : ∀ lex tail : Bytes, IsLexeme lex → (∀ b, tail.head? = some b → isDelimB b = true) →
    gC (lex ++ tail) = gC lex ∧ ∀ v k, gC lex = .ok (v, k) → k = lex.length

/-! ### tables, styles, renderers -/

def blanksOnly (s : Bytes) : Prop := ∀ b ∈ s, isBlankB b = true
def isSep (s : Bytes) : Prop := s ≠ [] ∧ blanksOnly s
def isEolStr (s : Bytes) : Prop := s ≠ [] ∧ ∀ b ∈ s, isEolB b = true
def noEol (s : Bytes) : Prop := ∀ b ∈ s, isEolB b = false ∧ b ≠ 0

def decimal (n : Nat) : Bytes := (Nat.toDigits 10 n).map fun c => UInt8.ofNat c.toNat

structure Entry where
  field : Nat := 0
  index : Nat
  value : Option Bytes      -- lexeme
structure TRow where
  label : Bytes             -- lexeme
  weight : Option Bytes     -- lexeme
  qid : Option Nat := none
  entries : List Entry

/-- every free choice of the libsvm / libfm line format, per row -/
structure RowStyle where
  lead : Bytes              -- blanks in front of the label
  qidSep : Bytes            -- separator in front of `qid:`
  seps : List Bytes         -- separator in front of each entry
  trail : Bytes             -- blanks behind the last token
  comment : Option Bytes    -- libsvm: `#` and the rest of the line
  eol : Bytes               -- `\n`, `\r`, `\r\n`, …
  filler : List Bytes       -- blank / comment lines (with their end of line) in front of this row

def renderEntry (fm : Bool) (sep : Bytes) (e : Entry) : Bytes :=
  sep ++ (if fm then decimal e.field ++ [58] else []) ++ decimal e.index ++
    (match e.value with | some v => 58 :: v | none => [])

def renderRow (fm : Bool) (σ : RowStyle) (r : TRow) : Bytes :=
  σ.filler.flatten ++ σ.lead ++ r.label ++ (match r.weight with | some w => 58 :: w | none => []) ++
    (match r.qid with | some q => σ.qidSep ++ [113, 105, 100, 58] ++ decimal q | none => []) ++
    ((σ.seps.zip r.entries).flatMap fun se => renderEntry fm se.1 se.2) ++ σ.trail ++
    (match σ.comment with | some c => 35 :: c | none => []) ++ σ.eol

def renderSvm (σ : List RowStyle) (T : List TRow) : Bytes := ((σ.zip T).flatMap fun sr => renderRow false sr.1 sr.2)
def renderFm (σ : List RowStyle) (T : List TRow) : Bytes := ((σ.zip T).flatMap fun sr => renderRow true sr.1 sr.2)

def WfRow (fm : Bool) (mode : Nat) (σ : RowStyle) (r : TRow) : Prop :=
  blanksOnly σ.lead ∧ isSep σ.qidSep ∧ σ.seps.length = r.entries.length ∧ (∀ s ∈ σ.seps, isSep s) ∧
  blanksOnly σ.trail ∧ (∀ c, σ.comment = some c → fm = false ∧ noEol c) ∧ isEolStr σ.eol ∧
  IsLexeme r.label ∧ (∀ w, r.weight = some w → IsLexeme w) ∧ (fm = true → r.qid = none) ∧
  (∀ e ∈ r.entries, (∀ v, e.value = some v → IsLexeme v) ∧ (mode > 0 → 1 ≤ e.index ∧ (fm = true → 1 ≤ e.field))) ∧
  ((∀ e ∈ r.entries, e.value.isSome) ∨ (∀ e ∈ r.entries, e.value = none)) ∧
  (∀ l ∈ σ.filler, ∃ b c e, l = b ++ c ++ e ∧ blanksOnly b ∧ isEolStr e ∧ (c = [] ∨ (fm = false ∧ ∃ c', c = 35 :: c' ∧ noEol c')))

/-- the row a table row describes: lexemes mean what the conversion makes of them standing alone -/
def expectRow (fm : Bool) (gR gI gQ : Bytes → Res Nat) (iw mode : Nat) (r : TRow) : Res Row := do
  let label ← gR r.label
  let weight ← match r.weight with | some w => (gR w).map some | none => pure none
  let qid ← match r.qid with | some q => (gQ (decimal q)).map some | none => pure none
  let idx ← r.entries.mapM fun e => (gI (decimal e.index)).map fun i => if mode > 0 then decIdx iw i else i
  let fld ← r.entries.mapM fun e => (gI (decimal e.field)).map fun i => if mode > 0 then decIdx iw i else i
  let vals ← r.entries.filterMap (·.value) |>.mapM gR
  return { label := some label, weight, qid, field := if fm && !r.entries.isEmpty then some fld else none,
           index := idx, value := if vals.isEmpty then none else some vals }

/-- **C12 for libsvm (full statement)**: for every table, every style and every exact conversion the parser
returns exactly the rows of the table -/
def C12_libsvm_statement : Prop :=
  ∀ (conv : Conv) (gR gI gQ : Bytes → Res Nat) (gC : Bytes → Res (Nat × Nat)), Conv.ExactWith conv gR gI gQ gC →
  ∀ (iw mode : Nat) (σ : List RowStyle) (T : List TRow), σ.length = T.length →
    (∀ sr ∈ σ.zip T, WfRow false mode sr.1 sr.2) →
    (∀ r ∈ T, ∀ r' ∈ T, r.weight.isSome = r'.weight.isSome ∧ r.qid.isSome = r'.qid.isSome) →
    (renderSvm σ T).length + 2 < 2 ^ 64 →
    ∀ rows, T.mapM (expectRow false gR gI gQ iw mode) = .ok rows →
      C11.rows (.libsvm iw mode) conv (renderSvm σ T) = .ok rows

def C12_libfm_statement : Prop :=
  ∀ (conv : Conv) (gR gI gQ : Bytes → Res Nat) (gC : Bytes → Res (Nat × Nat)), Conv.ExactWith conv gR gI gQ gC →
  ∀ (iw mode : Nat) (σ : List RowStyle) (T : List TRow), σ.length = T.length →
    (∀ sr ∈ σ.zip T, WfRow true mode sr.1 sr.2) →
    (∀ r ∈ T, ∀ r' ∈ T, r.weight.isSome = r'.weight.isSome) →
    (renderFm σ T).length + 2 < 2 ^ 64 →
    ∀ rows, T.mapM (expectRow true gR gI gQ iw mode) = .ok rows →
      C11.rows (.libfm iw mode) conv (renderFm σ T) = .ok rows

/-! csv -/

structure CsvStyle where
  delim : UInt8
  eol : List Bytes          -- per row
  pad : List (List (Bytes × Bytes))   -- blanks around each non-empty cell

/-- a csv table: each row a list of cells, `none` = empty cell -/
def renderCsv (σ : CsvStyle) (T : List (List (Option Bytes))) : Bytes :=
  ((T.zip (σ.eol.zip σ.pad)).flatMap fun r =>
    (((r.1.zip r.2.2).map fun cp => match cp.1 with
        | some lex => cp.2.1 ++ lex ++ cp.2.2
        | none => []).intersperse [σ.delim]).flatten ++ r.2.1)

/-- the row a csv table row describes under (label_column, weight_column): empty cells absent but numbered -/
def expectCsvRow (gC : Bytes → Res (Nat × Nat)) (prm : CsvParam) (cells : List (Option Bytes)) : Res Row := do
  let vals ← cells.mapM fun c => match c with | some lex => (gC lex).map fun vk => some vk.1 | none => pure none
  let cols := (List.range vals.length).zip vals
  let feats := (cols.filter fun cv => u32 cv.1 != prm.labelCol && !(prm.isReal && u32 cv.1 == prm.weightCol))
  let numbered := (List.range feats.length).zip (feats.map (·.2))
  let present := numbered.filterMap fun iv => iv.2.map fun v => (iv.1, v)
  return { label := (cols.find? fun cv => u32 cv.1 == prm.labelCol).bind (·.2)
           weight := if prm.isReal then (cols.find? fun cv => u32 cv.1 == prm.weightCol).bind (·.2) else none
           qid := none, field := none, index := present.map (·.1)
           value := if present.isEmpty then none else some (present.map (·.2)) }

def C12_csv_statement : Prop :=
  ∀ (conv : Conv) (gR gI gQ : Bytes → Res Nat) (gC : Bytes → Res (Nat × Nat)), Conv.ExactWith conv gR gI gQ gC →
  ∀ (prm : CsvParam) (σ : CsvStyle) (T : List (List (Option Bytes))),
    isDelimB σ.delim = true → isEolB σ.delim = false → σ.delim.toNat = prm.delim →
    σ.eol.length = T.length → σ.pad.length = T.length → (∀ e ∈ σ.eol, isEolStr e) →
    (∀ r ∈ T, r ≠ [] ∧ r.getLast? ≠ some none ∧ ∀ c ∈ r, ∀ lex, c = some lex → IsLexeme lex) →
    (∀ ps ∈ σ.pad, ∀ p ∈ ps, blanksOnly p.1 ∧ blanksOnly p.2 ∧ (isBlankB σ.delim = true → p.1 = [] ∧ p.2 = [])) →
    (renderCsv σ T).length + 2 < 2 ^ 64 →
    ∀ rows, T.mapM (expectCsvRow gC prm) = .ok rows → AgreeRows rows →
      C11.rows (.csv prm) conv (renderCsv σ T) = .ok rows

/-! ### the proved core: ParsePair on a rendered pair -/

theorem dropWhile_blanks_lex (pred : UInt8 → Bool) (bl lex rest : Bytes) (hb : ∀ b ∈ bl, pred b = true)
    (hl : ∀ d r, lex = d :: r → pred d = false) (hne : lex ≠ []) :
    (bl ++ lex ++ rest).dropWhile pred = lex ++ rest := by
  induction bl with
  | nil =>
    cases lex with
    | nil => exact absurd rfl hne
    | cons d r => simp [List.dropWhile, hl d r rfl]
  | cons b bl ih =>
    have := ih (fun x hx => hb x (by simp [hx]))
    simp only [List.cons_append, List.dropWhile, hb b (by simp)]
    simpa [List.append_assoc] using this

theorem notDigit_of_digit (b : UInt8) (h : isDigitCharB b = true) : notDigitCharB b = false := by
  simp only [notDigitCharB, isDigitCharB] at *; simp [h]

theorem dropWhile_lex_delim (lex tail : Bytes) (hl : ∀ b ∈ lex, isDigitCharB b = true)
    (ht : ∀ b, tail.head? = some b → isDigitCharB b = false) :
    (lex ++ tail).dropWhile isDigitCharB = tail := by
  induction lex with
  | nil =>
    cases tail with
    | nil => rfl
    | cons b t => simp [List.dropWhile, ht b rfl]
  | cons d lex ih => simp [List.dropWhile, hl d (by simp), ih (fun x hx => hl x (by simp [hx]))]

theorem blank_notDigit (b : UInt8) (h : isBlankB b = true) : notDigitCharB b = true := by
  simp [isBlankB, Gen.Parse.isblank, notDigitCharB, Gen.Parse.isdigitchars] at *; omega

theorem delim_notDigit (b : UInt8) (h : isDelimB b = true) : isDigitCharB b = false := by
  simp [isDelimB] at h; exact h.1

/-- **C12, proved core.** `ParsePair` (specification `pairS`, equal to the pointer model by
`parsePair_at`) on `blanks lexeme₁ : lexeme₂ tail`, where `tail` is empty or starts with a blank or any
other delimiter but `:`: returns 2, exactly the two values the lexemes have standing alone, and stops
exactly at `tail`. -/
theorem C12_pair_partial (g1 g2 : Bytes → Res Nat) (h1 : Exact g1) (h2 : Exact g2)
    (bl lex1 lex2 tail : Bytes) (v1 v2 : Nat)
    (hbl : blanksOnly bl) (hl1 : IsLexeme lex1) (hl2 : IsLexeme lex2)
    (hns1 : ∀ b ∈ lex1, nonStopB b = true) (hns2 : ∀ b ∈ lex2, nonStopB b = true)
    (ht : ∀ b, tail.head? = some b → isDelimB b = true) (htns : ∀ b ∈ tail, nonStopB b = true)
    (hv1 : g1 lex1 = .ok v1) (hv2 : g2 lex2 = .ok v2) :
    pairS g1 g2 (bl ++ lex1 ++ 58 :: (lex2 ++ tail)) = .ok { r := 2, rest := tail, v1 := v1, v2 := v2 } := by
  obtain ⟨d1, r1, rfl⟩ : ∃ d r, lex1 = d :: r := by
    cases lex1 with
    | nil => exact absurd rfl hl1.1
    | cons d r => exact ⟨d, r, rfl⟩
  obtain ⟨d2, r2, rfl⟩ : ∃ d r, lex2 = d :: r := by
    cases lex2 with
    | nil => exact absurd rfl hl2.1
    | cons d r => exact ⟨d, r, rfl⟩
  have hcolon_nd : isDigitCharB 58 = false := by decide
  have hcolon_delim : isDelimB 58 = true := by decide
  have e1 : (bl ++ (d1 :: r1) ++ 58 :: ((d2 :: r2) ++ tail)).dropWhile notDigitCharB
      = (d1 :: r1) ++ 58 :: ((d2 :: r2) ++ tail) :=
    dropWhile_blanks_lex notDigitCharB bl (d1 :: r1) _ (fun b hb => blank_notDigit b (hbl b hb))
      (fun d r h => by cases h; exact notDigit_of_digit _ (hl1.2 _ (by simp))) (by simp)
  have run1 : ((d1 :: r1) ++ 58 :: ((d2 :: r2) ++ tail)).takeWhile nonStopB
      = (d1 :: r1) ++ 58 :: ((d2 :: r2) ++ tail) :=
    takeWhile_all _ _ (fun x hx => by
      simp at hx
      rcases hx with rfl | hx | rfl | rfl | hx | hx
      · exact hns1 _ (by simp)
      · exact hns1 _ (by simp [hx])
      · decide
      · exact hns2 _ (by simp)
      · exact hns2 _ (by simp [hx])
      · exact htns _ hx)
  have run2 : ((d2 :: r2) ++ tail).takeWhile nonStopB = (d2 :: r2) ++ tail :=
    takeWhile_all _ _ (fun x hx => by
      simp at hx
      rcases hx with rfl | hx | hx
      · exact hns2 _ (by simp)
      · exact hns2 _ (by simp [hx])
      · exact htns _ hx)
  have e2 : ((d1 :: r1) ++ 58 :: ((d2 :: r2) ++ tail)).dropWhile isDigitCharB = 58 :: ((d2 :: r2) ++ tail) :=
    dropWhile_lex_delim _ _ hl1.2 (fun b hb => by simp at hb; subst hb; exact hcolon_nd)
  have e3 : ((d2 :: r2) ++ tail).dropWhile isDigitCharB = tail :=
    dropWhile_lex_delim _ _ hl2.2 (fun b hb => delim_notDigit b (ht b hb))
  have hd2 : notDigitCharB d2 = false := notDigit_of_digit _ (hl2.2 d2 (by simp))
  unfold pairS
  rw [e1]
  simp only [List.cons_append] at run1 run2 e2 e3 ⊢
  simp only [run1, e2]
  have g1e := h1.exact (d1 :: r1) (58 :: ((d2 :: r2) ++ tail)) hl1 (fun b hb => by simp at hb; subst hb; exact hcolon_delim)
  simp only [List.cons_append] at g1e
  rw [g1e, hv1]
  have g2e := h2.exact (d2 :: r2) tail hl2 ht
  simp only [List.cons_append] at g2e
  have e4 : (58 :: d2 :: (r2 ++ tail)).dropWhile isBlankB = 58 :: d2 :: (r2 ++ tail) := by
    simp [List.dropWhile, isBlankB, Gen.Parse.isblank]
  have e5 : (d2 :: (r2 ++ tail)).dropWhile notDigitCharB = d2 :: (r2 ++ tail) := by
    simp [List.dropWhile, hd2]
  simp only [bind, Except.bind, e4, e5, run2, g2e, hv2, e3]
  simp

/-- the hypotheses of `C12_pair_partial` are satisfiable: "1.5:-2e3 " with the conversions of the driver -/
example : IsLexeme [49, 46, 53] ∧ IsLexeme [45, 50, 101, 51] ∧ isDelimB 32 = true ∧ isDelimB 58 = true := by
  refine ⟨⟨by decide, by decide⟩, ⟨by decide, by decide⟩, by decide, by decide⟩

end DmlcModel.Props.C12
