/-
C12 — parsers return exactly the rows a well-formed document describes.

Tables (`TRow`, `Entry`: every number is a *lexeme*, i.e. a non-empty string of number characters), styles
(`LineStyle`: blanks in front of the label, separator in front of `qid:` and of every entry, trailing blanks,
trailing `#` comment; `RowStyle`: blank / comment lines in front of the row, end-of-line string), renderers,
and the round trip for libsvm (`C12_libsvm`): for every table, style and every conversion that is local
and exact, `ParseBlock` returns exactly the rows of the table, in order.  A lexeme means what the conversion
returns for it standing alone (numeric accuracy is C14).  libfm and csv: statements, see CONFIG['partial'].
Helper lemmas: DmlcModel/Parse/Render.lean; the reduction of a block to its lines is C11.
-/
import DmlcModel.Props.C11
import DmlcModel.Parse.Render
import DmlcModel.Props.C11Witness

namespace DmlcModel.Props.C12
open DmlcModel DmlcModel.Parse DmlcModel.Props.C11

/-- the conversions are local (C11) and exact on lexemes -/
structure ExactWith (conv : Conv) (gR gI gQ : Bytes → Res Nat) (gC : Bytes → Res (Nat × Nat)) : Prop where
  loc : conv.LocalWith gR gI gQ gC
  real : Exact gR
  index : Exact gI
  qid : Exact gQ

/-- a blank or comment line between rows -/
structure Filler where
  blanks : Bytes
  comment : Option Bytes
  eol : Bytes

structure RowStyle where
  filler : List Filler      -- blank / comment lines in front of the row
  line : LineStyle
  eol : Bytes               -- `\n`, `\r`, `\r\n`, doubled, …

structure WfFiller (f : Filler) : Prop where
  blanks : blanksOnly f.blanks
  comment : ∀ c, f.comment = some c → Clean c
  eol : isEolStr f.eol

structure WfRow (σ : RowStyle) (r : TRow) : Prop where
  filler : ∀ f ∈ σ.filler, WfFiller f
  line : WfLine σ.line r
  eol : isEolStr σ.eol
  values : (∀ e ∈ r.entries, e.value.isSome = true) ∨ (∀ e ∈ r.entries, e.value = none)

/-- the lines (with their end-of-line strings) one styled row is rendered to -/
def svmPieces (z : RowStyle × TRow) : List (Bytes × Bytes) :=
  z.1.filler.map (fun f => (f.blanks ++ cPart f.comment, f.eol)) ++ [(svmContent z.1.line z.2, z.1.eol)]

/-- a table rendered as a libsvm document, row `i` in style `σ[i]` -/
def renderSvm (σ : List RowStyle) (T : List TRow) : Bytes := joinPieces ((σ.zip T).flatMap svmPieces)

/-- the row a parsed line means to the reader of the block: label, optional weight and qid, indices (shifted
under 1-based indexing), values if there are any -/
def expectSvmRow (iw mode : Nat) (L : SvmLine) : Row :=
  toRow (if mode > 0 then decRecIdx iw (svmRec L) else svmRec L)

theorem filterMap_all_some {α : Type} (fs : List (α × Option Nat)) (h : ∀ x ∈ fs, x.2.isSome = true) :
    (fs.filterMap (·.2)).length = fs.length := by
  induction fs with
  | nil => rfl
  | cons x fs ih =>
    obtain ⟨v, hv⟩ := Option.isSome_iff_exists.mp (h x (by simp))
    simp [List.filterMap_cons, hv, ih (fun y hy => h y (by simp [hy]))]

theorem filterMap_all_none {α : Type} (fs : List (α × Option Nat)) (h : ∀ x ∈ fs, x.2 = none) :
    fs.filterMap (·.2) = [] := by
  induction fs with
  | nil => rfl
  | cons x fs ih => simp [List.filterMap_cons, h x (by simp), ih (fun y hy => h y (by simp [hy]))]

theorem feats_uniform (r : TRow) (L : SvmLine) (hsh : L.feats.map (·.2.isSome) = r.entries.map (·.value.isSome))
    (hv : (∀ e ∈ r.entries, e.value.isSome = true) ∨ (∀ e ∈ r.entries, e.value = none)) :
    (L.feats.filterMap (·.2)).length = L.feats.length ∨ L.feats.filterMap (·.2) = [] := by
  rcases hv with h | h
  · refine Or.inl (filterMap_all_some _ (fun x hx => ?_))
    have : x.2.isSome ∈ L.feats.map (·.2.isSome) := List.mem_map_of_mem hx
    rw [hsh] at this
    obtain ⟨e, he, heq⟩ := List.mem_map.mp this
    rw [← heq]; exact h e he
  · refine Or.inr (filterMap_all_none _ (fun x hx => ?_))
    have : x.2.isSome ∈ L.feats.map (·.2.isSome) := List.mem_map_of_mem hx
    rw [hsh] at this
    obtain ⟨e, he, heq⟩ := List.mem_map.mp this
    have := h e he
    rw [this] at heq
    cases hx2 : x.2 with
    | none => rfl
    | some v => rw [hx2] at heq; simp at heq

/-- **C12, one line.** A rendered row, parsed on its own, gives exactly the row of the table. -/
theorem C12_libsvm_line (conv : Conv) (gR gI gQ : Bytes → Res Nat) (gC : Bytes → Res (Nat × Nat))
    (hE : ExactWith conv gR gI gQ gC) (iw mode : Nat) (σ : LineStyle) (r : TRow) (hwf : WfLine σ r)
    (hv : (∀ e ∈ r.entries, e.value.isSome = true) ∨ (∀ e ∈ r.entries, e.value = none))
    (hb : (svmContent σ r).length + 2 < 2 ^ 64) (L : SvmLine) (hL : expLine gR gI gQ r = .ok L) :
    rows (.libsvm iw mode) conv (svmContent σ r) = .ok [expectSvmRow iw mode L] := by
  have F := svm_lineFormat hE.loc iw mode
  have hline := svmLineS_render gR gI gQ hE.real hE.index hE.qid σ r hwf L hL
  have hclean : ∀ b ∈ svmContent σ r, isEolB b = false := by
    intro b hb'
    have hc : Clean (svmContent σ r) := by
      have := clean_dropEol
      -- cleanliness of the content: every part is clean
      obtain ⟨hses, _⟩ := hwf.ses
      have hE' := entsBytes_clean _ _ hwf.fin.clean (fun x hx => ⟨(hses x hx).1.2, (hses x hx).2⟩)
      unfold svmContent
      refine (blanks_clean hwf.lead).append ((lexeme_clean hwf.label).append (Clean.append ?_ (Clean.append ?_ hE')))
      · cases hw : r.weight with
        | none => exact Clean.nil
        | some w => exact Clean.cons (by decide) (lexeme_clean (hwf.weight w hw))
      · cases hq : r.qid with
        | none => exact Clean.nil
        | some q =>
          exact (blanks_clean hwf.qidSep.2).append (Clean.append
            (by intro x hx; simp at hx; rcases hx with rfl | rfl | rfl | rfl <;> decide)
            (lexeme_clean (digits_lexeme (hwf.qid q hq))))
    have := hc b hb'
    simp [nonStopB, isStopB] at this
    exact this.2
  rw [rows_libsvm, F.rows_single _ (fun _ _ => rfl) hb hclean, single]
  simp only [svmRecS, hline, Except.map, Except.bind, Option.map, Option.toList_some]
  have hsh := (expLine_shape gR gI gQ r L hL).2.2
  have hu := feats_uniform r L hsh hv
  have hag : AgreeRecs [if mode > 0 then decRecIdx iw (svmRec L) else svmRec L] := by
    apply agreeRecs_single
    · by_cases hm : mode > 0
      · rw [if_pos hm]
        rcases hu with h | h
        · exact Or.inl (by simp only [decRecIdx, svmRec, List.length_map]; exact h)
        · exact Or.inr h
      · rw [if_neg hm]
        rcases hu with h | h
        · exact Or.inl (by simp only [svmRec, List.length_map]; exact h)
        · exact Or.inr h
    · by_cases hm : mode > 0
      · rw [if_pos hm]; exact Or.inr rfl
      · rw [if_neg hm]; exact Or.inr rfl
  rw [rowsOf_build _ hag (by simp)]
  rfl

theorem svmContent_clean {σ : LineStyle} {r : TRow} (hwf : WfLine σ r) : Clean (svmContent σ r) := by
  obtain ⟨hses, _⟩ := hwf.ses
  have hE' := entsBytes_clean _ _ hwf.fin.clean (fun x hx => ⟨(hses x hx).1.2, (hses x hx).2⟩)
  unfold svmContent
  refine (blanks_clean hwf.lead).append ((lexeme_clean hwf.label).append (Clean.append ?_ (Clean.append ?_ hE')))
  · cases hw : r.weight with
    | none => exact Clean.nil
    | some w => exact Clean.cons (by decide) (lexeme_clean (hwf.weight w hw))
  · cases hq : r.qid with
    | none => exact Clean.nil
    | some q =>
      exact (blanks_clean hwf.qidSep.2).append (Clean.append
        (by intro x hx; simp at hx; rcases hx with rfl | rfl | rfl | rfl <;> decide)
        (lexeme_clean (digits_lexeme (hwf.qid q hq))))

theorem clean_noEol {s : Bytes} (h : Clean s) : ∀ b ∈ s, isEolB b = false := by
  intro b hb
  have := h b hb
  simp [nonStopB, isStopB] at this
  exact this.2

theorem fillerContent_clean {f : Filler} (h : WfFiller f) : Clean (f.blanks ++ cPart f.comment) := by
  refine (blanks_clean h.blanks).append ?_
  cases hc : f.comment with
  | none => exact Clean.nil
  | some c => exact Clean.cons (by decide) (h.comment c hc)

/-- a blank / comment line of the style gives no row -/
theorem filler_rows (conv : Conv) (hL : conv.Local) (iw mode : Nat) (f : Filler) (h : WfFiller f)
    (hb : (f.blanks ++ cPart f.comment).length + 3 < 2 ^ 64) :
    rows (.libsvm iw mode) conv (f.blanks ++ cPart f.comment) = .ok [] := by
  cases hc : f.comment with
  | none =>
    rw [hc] at hb
    simp only [cPart, List.append_nil] at hb ⊢
    exact (C11_blank_and_comment_lines_libsvm iw mode conv hL f.blanks [] h.blanks (by simp) (by omega)
      (by simp only [List.length_append, List.length_cons, List.length_nil]; omega)).1
  | some c =>
    rw [hc] at hb
    simp only [cPart] at hb ⊢
    exact (C11_blank_and_comment_lines_libsvm iw mode conv hL f.blanks c h.blanks
      (clean_noEol (h.comment c hc)) (by simp only [List.length_append, List.length_cons] at hb; omega) (by omega)).2

theorem piece_length_le (ps : List (Bytes × Bytes)) (p : Bytes × Bytes) (hp : p ∈ ps) :
    p.1.length + p.2.length ≤ (joinPieces ps).length := by
  induction ps with
  | nil => simp at hp
  | cons q ps ih =>
    have hj : (joinPieces (q :: ps)).length = q.1.length + q.2.length + (joinPieces ps).length := by
      simp [joinPieces]; omega
    rw [hj]
    rcases List.mem_cons.mp hp with rfl | h
    · omega
    · have := ih h; omega

/-- the pieces of a styled table, parsed one by one -/
theorem pieces_rows (conv : Conv) (gR gI gQ : Bytes → Res Nat) (gC : Bytes → Res (Nat × Nat))
    (hE : ExactWith conv gR gI gQ gC) (iw mode : Nat) :
    ∀ (Z : List (RowStyle × TRow)) (Ls : List SvmLine), (∀ z ∈ Z, WfRow z.1 z.2) →
      (∀ p ∈ Z.flatMap svmPieces, p.1.length + 3 < 2 ^ 64) →
      Z.mapM (fun z => expLine gR gI gQ z.2) = .ok Ls →
      ∃ R, (Z.flatMap svmPieces).mapM (fun p => rows (.libsvm iw mode) conv p.1) = .ok R ∧
        R.flatten = Ls.map (expectSvmRow iw mode) := by
  have hLoc : conv.Local := ⟨gR, gI, gQ, gC, hE.loc⟩
  intro Z
  induction Z with
  | nil => intro Ls _ _ h; simp [pure, Except.pure] at h; subst h; exact ⟨[], rfl, rfl⟩
  | cons z Z ih =>
    intro Ls hwf hbd h
    obtain ⟨L, Ls', hL, hLs', rfl⟩ := mapM_cons_ok _ _ _ _ h
    have hz := hwf z (by simp)
    obtain ⟨R', hR', hfl⟩ := ih Ls' (fun x hx => hwf x (by simp [hx]))
      (fun p hp => hbd p (by simp only [List.flatMap_cons, List.mem_append]; exact Or.inr hp)) hLs'
    -- the filler lines
    have hfill : ∀ (fs : List Filler), (∀ f ∈ fs, WfFiller f) →
        (∀ f ∈ fs, (f.blanks ++ cPart f.comment).length + 3 < 2 ^ 64) →
        (fs.map (fun f => (f.blanks ++ cPart f.comment, f.eol))).mapM (fun p => rows (.libsvm iw mode) conv p.1)
          = .ok (List.replicate fs.length []) := by
      intro fs
      induction fs with
      | nil => intro _ _; rfl
      | cons f fs ihf =>
        intro hw hb
        simp only [List.map_cons, List.mapM_cons, filler_rows conv hLoc iw mode f (hw f (by simp)) (hb f (by simp)),
          ihf (fun x hx => hw x (by simp [hx])) (fun x hx => hb x (by simp [hx])), bind, Except.bind, pure, Except.pure,
          List.length_cons, List.replicate_succ]
    have hf := hfill z.1.filler hz.filler (fun f hf' => hbd (f.blanks ++ cPart f.comment, f.eol) (by
      simp only [List.flatMap_cons, List.mem_append, svmPieces, List.mem_map]
      exact Or.inl (Or.inl ⟨f, hf', rfl⟩)))
    have hrow := C12_libsvm_line conv gR gI gQ gC hE iw mode z.1.line z.2 hz.line hz.values
      (by
        have := hbd (svmContent z.1.line z.2, z.1.eol) (by
          simp only [List.flatMap_cons, List.mem_append, svmPieces]
          exact Or.inl (Or.inr (by simp)))
        simp only at this; omega) L hL
    refine ⟨List.replicate z.1.filler.length [] ++ [[expectSvmRow iw mode L]] ++ R', ?_, ?_⟩
    · simp only [List.flatMap_cons, svmPieces, List.mapM_append, hf, hR', List.mapM_cons, List.mapM_nil, hrow, bind,
        Except.bind, pure, Except.pure]
    · simp [flatten_replicate_nil, hfl]

/-- the rows a table describes agree on their optional parts when the table does -/
theorem agree_expected (gR gI gQ : Bytes → Res Nat) (iw mode : Nat) (Z : List (RowStyle × TRow)) (Ls : List SvmLine)
    (h : Z.mapM (fun z => expLine gR gI gQ z.2) = .ok Ls)
    (hW : (∀ z ∈ Z, z.2.weight.isSome = true) ∨ (∀ z ∈ Z, z.2.weight = none))
    (hQ : (∀ z ∈ Z, z.2.qid.isSome = true) ∨ (∀ z ∈ Z, z.2.qid = none))
    (hV : (∀ z ∈ Z, ∀ e ∈ z.2.entries, e.value.isSome = true) ∨ (∀ z ∈ Z, ∀ e ∈ z.2.entries, e.value = none)) :
    AgreeRows (Ls.map (expectSvmRow iw mode)) := by
  have hsrc : ∀ L ∈ Ls, ∃ z ∈ Z, expLine gR gI gQ z.2 = .ok L := mapM_mem _ _ _ h
  have hrow : ∀ x ∈ Ls.map (expectSvmRow iw mode), ∃ L ∈ Ls, x = expectSvmRow iw mode L := by
    intro x hx; obtain ⟨L, hL, rfl⟩ := List.mem_map.mp hx; exact ⟨L, hL, rfl⟩
  have hlabel : ∀ L, (expectSvmRow iw mode L).label = some L.label ∧ (expectSvmRow iw mode L).weight = L.weight ∧
      (expectSvmRow iw mode L).qid = L.qid := by
    intro L; by_cases hm : mode > 0 <;> simp [expectSvmRow, hm, toRow, decRecIdx, svmRec]
  refine ⟨Or.inl ?_, ?_, ?_, ?_⟩
  · intro x hx; obtain ⟨L, _, rfl⟩ := hrow x hx; rw [(hlabel L).1]; rfl
  · rcases hW with hw | hw
    · refine Or.inl (fun x hx => ?_)
      obtain ⟨L, hL, rfl⟩ := hrow x hx
      obtain ⟨z, hz, hzL⟩ := hsrc L hL
      rw [(hlabel L).2.1, (expLine_shape gR gI gQ z.2 L hzL).1]; exact hw z hz
    · refine Or.inr (fun x hx => ?_)
      obtain ⟨L, hL, rfl⟩ := hrow x hx
      obtain ⟨z, hz, hzL⟩ := hsrc L hL
      have := (expLine_shape gR gI gQ z.2 L hzL).1
      rw [hw z hz] at this
      rw [(hlabel L).2.1]
      cases hlw : L.weight with
      | none => rfl
      | some v => rw [hlw] at this; simp at this
  · rcases hQ with hw | hw
    · refine Or.inl (fun x hx => ?_)
      obtain ⟨L, hL, rfl⟩ := hrow x hx
      obtain ⟨z, hz, hzL⟩ := hsrc L hL
      rw [(hlabel L).2.2, (expLine_shape gR gI gQ z.2 L hzL).2.1]; exact hw z hz
    · refine Or.inr (fun x hx => ?_)
      obtain ⟨L, hL, rfl⟩ := hrow x hx
      obtain ⟨z, hz, hzL⟩ := hsrc L hL
      have := (expLine_shape gR gI gQ z.2 L hzL).2.1
      rw [hw z hz] at this
      rw [(hlabel L).2.2]
      cases hlw : L.qid with
      | none => rfl
      | some v => rw [hlw] at this; simp at this
  · rcases hV with hv | hv
    · refine Or.inl (fun x hx hidx => ?_)
      obtain ⟨L, hL, rfl⟩ := hrow x hx
      obtain ⟨z, hz, hzL⟩ := hsrc L hL
      have hu := feats_uniform z.2 L (expLine_shape gR gI gQ z.2 L hzL).2.2 (Or.inl (hv z hz))
      have hlen : (L.feats.filterMap (·.2)).length = L.feats.length := by
        rcases hu with h1 | h1
        · exact h1
        · exact filterMap_all_some _ (fun y hy => by
            have : y.2.isSome ∈ L.feats.map (·.2.isSome) := List.mem_map_of_mem hy
            rw [(expLine_shape gR gI gQ z.2 L hzL).2.2] at this
            obtain ⟨e, he, heq⟩ := List.mem_map.mp this
            rw [← heq]; exact hv z hz e he)
      by_cases hm : mode > 0
      · simp only [expectSvmRow, hm, if_true, toRow, decRecIdx, svmRec] at hidx ⊢
        have hne : L.feats ≠ [] := by intro e; rw [e] at hidx; simp at hidx
        have : L.feats.filterMap (·.2) ≠ [] := by
          intro e; rw [e] at hlen; simp at hlen; exact hne (List.eq_nil_of_length_eq_zero hlen.symm)
        simp [this, hne]
      · simp only [expectSvmRow, hm, if_false, toRow, svmRec] at hidx ⊢
        have hne : L.feats ≠ [] := by intro e; rw [e] at hidx; simp at hidx
        have : L.feats.filterMap (·.2) ≠ [] := by
          intro e; rw [e] at hlen; simp at hlen; exact hne (List.eq_nil_of_length_eq_zero hlen.symm)
        simp [this, hne]
    · refine Or.inr (fun x hx => ?_)
      obtain ⟨L, hL, rfl⟩ := hrow x hx
      obtain ⟨z, hz, hzL⟩ := hsrc L hL
      have hnil : L.feats.filterMap (·.2) = [] := by
        rcases feats_uniform z.2 L (expLine_shape gR gI gQ z.2 L hzL).2.2 (Or.inr (hv z hz)) with h1 | h1
        · apply filterMap_all_none
          intro y hy
          have : y.2.isSome ∈ L.feats.map (·.2.isSome) := List.mem_map_of_mem hy
          rw [(expLine_shape gR gI gQ z.2 L hzL).2.2] at this
          obtain ⟨e, he, heq⟩ := List.mem_map.mp this
          rw [hv z hz e he] at heq
          cases hy2 : y.2 with
          | none => rfl
          | some v => rw [hy2] at heq; simp at heq
        · exact h1
      by_cases hm : mode > 0 <;> simp [expectSvmRow, hm, toRow, decRecIdx, svmRec, hnil]

/-- **C12 for libsvm.** For every table `T`, every style `σ` (one per row), every indexing mode and index
width, and every conversion that is local and exact: if the table is well formed (`WfRow`: lexemes, separators
of blanks, end-of-line strings of `\n` / `\r`, blank and comment lines, trailing comments …), its rows agree
on the presence of weights / qids / values, and every lexeme has a meaning (`expLine` succeeds), then
`ParseBlock` on the rendered document returns exactly the rows of the table, in order. -/
theorem C12_libsvm (conv : Conv) (gR gI gQ : Bytes → Res Nat) (gC : Bytes → Res (Nat × Nat))
    (hE : ExactWith conv gR gI gQ gC) (iw mode : Nat) (σ : List RowStyle) (T : List TRow)
    (hlen : σ.length = T.length) (hwf : ∀ z ∈ σ.zip T, WfRow z.1 z.2)
    (hW : (∀ r ∈ T, r.weight.isSome = true) ∨ (∀ r ∈ T, r.weight = none))
    (hQ : (∀ r ∈ T, r.qid.isSome = true) ∨ (∀ r ∈ T, r.qid = none))
    (hV : (∀ r ∈ T, ∀ e ∈ r.entries, e.value.isSome = true) ∨ (∀ r ∈ T, ∀ e ∈ r.entries, e.value = none))
    (hb : (renderSvm σ T).length + 2 < 2 ^ 64) (Ls : List SvmLine)
    (hLs : T.mapM (expLine gR gI gQ) = .ok Ls) :
    rows (.libsvm iw mode) conv (renderSvm σ T) = .ok (Ls.map (expectSvmRow iw mode)) := by
  have hLoc : conv.Local := ⟨gR, gI, gQ, gC, hE.loc⟩
  have hsnd : (σ.zip T).map (·.2) = T := by rw [List.map_snd_zip]; omega
  have hmemT : ∀ z ∈ σ.zip T, z.2 ∈ T := fun z hz => (List.of_mem_zip hz).2
  have hLs' : (σ.zip T).mapM (fun z => expLine gR gI gQ z.2) = .ok Ls := by
    rw [← hsnd, mapM_map'] at hLs; exact hLs
  have hnil : rows (.libsvm iw mode) conv [] = .ok [] :=
    (C11_blank_and_comment_lines_libsvm iw mode conv hLoc [] [] (by intro b hb'; simp at hb') (by simp) (by simp)
      (by simp)).1
  have hpw : ∀ p ∈ (σ.zip T).flatMap svmPieces, (∀ b ∈ p.1, isEolB b = false) ∧ isEolStr p.2 := by
    intro p hp
    obtain ⟨z, hz, hpz⟩ := List.mem_flatMap.mp hp
    have hzw := hwf z hz
    simp only [svmPieces, List.mem_append, List.mem_map, List.mem_singleton] at hpz
    rcases hpz with ⟨f, hf, rfl⟩ | rfl
    · exact ⟨clean_noEol (fillerContent_clean (hzw.filler f hf)), (hzw.filler f hf).eol⟩
    · exact ⟨clean_noEol (svmContent_clean hzw.line), hzw.eol⟩
  have hbd : ∀ p ∈ (σ.zip T).flatMap svmPieces, p.1.length + 3 < 2 ^ 64 := fun p hp => by
    have h1 := piece_length_le _ p hp
    have h2 : 1 ≤ p.2.length := by
      have := (hpw p hp).2.1
      cases hp2 : p.2 with
      | nil => exact absurd hp2 this
      | cons _ _ => simp
    unfold renderSvm at hb; omega
  obtain ⟨R, hR, hfl⟩ := pieces_rows conv gR gI gQ gC hE iw mode (σ.zip T) Ls hwf hbd hLs'
  obtain ⟨rss, hl, hfl2⟩ := rows_pieces _ hnil _ R hR hpw
  have ha : AgreeRows rss.flatten := by
    rw [hfl2, hfl]
    exact agree_expected gR gI gQ iw mode (σ.zip T) Ls hLs'
      (by rcases hW with h | h; exact Or.inl (fun z hz => h _ (hmemT z hz)); exact Or.inr (fun z hz => h _ (hmemT z hz)))
      (by rcases hQ with h | h; exact Or.inl (fun z hz => h _ (hmemT z hz)); exact Or.inr (fun z hz => h _ (hmemT z hz)))
      (by rcases hV with h | h; exact Or.inl (fun z hz => h _ (hmemT z hz)); exact Or.inr (fun z hz => h _ (hmemT z hz)))
  have := C11_block_is_concat_of_lines_libsvm iw mode conv hLoc (renderSvm σ T) hb rss hl ha
  rw [this, hfl2, hfl]

/-! ### non-vacuity -/

/-- the conversion of the C11 witnesses (decimal digits at the start of the token run) is local and exact -/
theorem convRun_exact : ExactWith C11Witness.convRun (fun r => .ok (C11Witness.dig r)) (fun r => .ok (C11Witness.dig r))
    (fun r => .ok (C11Witness.dig r)) (fun r => .ok (C11Witness.dig r, (r.takeWhile C11Witness.isDig).length)) := by
  have hex : Exact (fun r => (.ok (C11Witness.dig r) : Res Nat)) := ⟨fun lex tail _ ht => by
    have : (lex ++ tail).takeWhile C11Witness.isDig = lex.takeWhile C11Witness.isDig :=
      takeWhile_append_stop _ _ _ (fun b hb => by
        have := delim_notDigit b (ht b hb)
        simp [C11Witness.isDig, isDigitCharB, Gen.Parse.isdigitchars] at this ⊢
        omega)
    simp [C11Witness.dig, this]⟩
  exact ⟨⟨fun _ _ _ => rfl, fun _ _ _ => rfl, fun _ _ _ => rfl, fun _ _ _ => rfl⟩, hex, hex, hex⟩

/-- "  1:2 qid:7\t3:4 5:6 # c\r\n" preceded by a comment line "# x\n", 1-based: the conclusion of `C12_libsvm`
computed on the model -/
example :
    rows (.libsvm 32 1) C11Witness.convRun
      (renderSvm [{ filler := [{ blanks := [], comment := some [32, 120], eol := [10] }],
                    line := { lead := [32, 32], qidSep := [32], seps := [[9], [32]], trail := [32], comment := some [32, 99] },
                    eol := [13, 10] }]
                 [{ label := [49], weight := some [50], qid := some [55],
                    entries := [{ index := [51], value := some [52] }, { index := [53], value := some [54] }] }])
      = .ok [{ label := some 1, weight := some 2, qid := some 7, field := none, index := [2, 4], value := some [4, 6] }] := by
  decide

/-! ### libfm and csv: statements (see CONFIG['partial']) -/

def fmEntryBytes (e : Entry) : Bytes := e.field ++ 58 :: (e.index ++ valPart e.value)

def fmContent (σ : LineStyle) (r : TRow) : Bytes :=
  σ.lead ++ (r.label ++ (valPart r.weight ++
    (((σ.seps.zip r.entries).flatMap fun se => se.1 ++ fmEntryBytes se.2) ++ σ.trail)))

def renderFm (σ : List RowStyle) (T : List TRow) : Bytes :=
  joinPieces ((σ.zip T).flatMap fun z =>
    z.1.filler.map (fun f => (f.blanks, f.eol)) ++ [(fmContent z.1.line z.2, z.1.eol)])

/-- what a table row means as a libfm line -/
def expLineFm (gR gI : Bytes → Res Nat) (r : TRow) : Res FmLine := do
  let label ← gR r.label
  let weight ← (match r.weight with | some w => (gR w).map some | none => pure none : Res (Option Nat))
  let feats ← r.entries.mapM fun e => do
    let f ← gI e.field
    let i ← gI e.index
    let v ← (match e.value with | some v => (gR v).map some | none => pure none : Res (Option Nat))
    pure (f, i, v)
  pure { label, weight, feats }

def expectFmRow (iw mode : Nat) (L : FmLine) : Row :=
  toRow (if mode > 0 then decRecBoth iw (fmRec L) else fmRec L)

/-- **C12 for libfm** (stated): as `C12_libsvm`, with `field:index[:value]` entries (fields and indices both
shifted under 1-based indexing), no qid, no comments (blank filler lines only) -/
def C12_libfm_statement : Prop :=
  ∀ (conv : Conv) (gR gI gQ : Bytes → Res Nat) (gC : Bytes → Res (Nat × Nat)), ExactWith conv gR gI gQ gC →
  ∀ (iw mode : Nat) (σ : List RowStyle) (T : List TRow), σ.length = T.length →
    (∀ z ∈ σ.zip T, WfRow z.1 z.2 ∧ z.1.line.comment = none ∧ z.2.qid = none ∧
      (∀ f ∈ z.1.filler, f.comment = none) ∧ ∀ e ∈ z.2.entries, IsDigits e.field) →
    ((∀ r ∈ T, r.weight.isSome = true) ∨ (∀ r ∈ T, r.weight = none)) →
    ((∀ r ∈ T, ∀ e ∈ r.entries, e.value.isSome = true) ∨ (∀ r ∈ T, ∀ e ∈ r.entries, e.value = none)) →
    (renderFm σ T).length + 2 < 2 ^ 64 → ∀ Ls, T.mapM (expLineFm gR gI) = .ok Ls →
      rows (.libfm iw mode) conv (renderFm σ T) = .ok (Ls.map (expectFmRow iw mode))

structure CsvStyle where
  delim : UInt8
  eol : List Bytes                     -- per row
  pad : List (List (Bytes × Bytes))    -- blanks around each non-empty cell

/-- a csv table: each row a list of cells, `none` = empty cell -/
def renderCsv (σ : CsvStyle) (T : List (List (Option Bytes))) : Bytes :=
  ((T.zip (σ.eol.zip σ.pad)).flatMap fun r =>
    (((r.1.zip r.2.2).map fun cp => match cp.1 with
        | some lex => cp.2.1 ++ lex ++ cp.2.2
        | none => []).intersperse [σ.delim]).flatten ++ r.2.1)

/-- the row a csv table row describes under (label_column, weight_column): empty cells absent but numbered -/
def expectCsvRow (gC : Bytes → Res (Nat × Nat)) (prm : CsvParam) (cells : List (Option Bytes)) : Res Row := do
  let vals ← cells.mapM fun c => match c with | some lex => (gC lex).map fun vk => some vk.1 | none => pure none
  let cols := (List.range vals.length).zip vals
  let feats := (cols.filter fun cv => u32 cv.1 != prm.labelCol && !(prm.isReal && u32 cv.1 == prm.weightCol))
  let numbered := (List.range feats.length).zip (feats.map (·.2))
  let present := numbered.filterMap fun iv => iv.2.map fun v => (iv.1, v)
  return { label := (cols.find? fun cv => u32 cv.1 == prm.labelCol).bind (·.2)
           weight := if prm.isReal then (cols.find? fun cv => u32 cv.1 == prm.weightCol).bind (·.2) else none
           qid := none, field := none, index := present.map (·.1)
           value := if present.isEmpty then none else some (present.map (·.2)) }

/-- **C12 for csv** (stated): delimiter-separated lexemes, label / weight columns routed, empty cells absent but
numbered; the cell conversion exact with the end pointer directly behind the lexeme -/
def C12_csv_statement : Prop :=
  ∀ (conv : Conv) (gR gI gQ : Bytes → Res Nat) (gC : Bytes → Res (Nat × Nat)), ExactWith conv gR gI gQ gC →
  (∀ lex tail : Bytes, IsLexeme lex → (∀ b, tail.head? = some b → isDelimB b = true) →
    gC (lex ++ tail) = gC lex ∧ ∀ v k, gC lex = .ok (v, k) → k = lex.length) →
  ∀ (prm : CsvParam) (σ : CsvStyle) (T : List (List (Option Bytes))),
    isDelimB σ.delim = true → isEolB σ.delim = false → σ.delim.toNat = prm.delim →
    σ.eol.length = T.length → σ.pad.length = T.length → (∀ e ∈ σ.eol, isEolStr e) →
    (∀ r ∈ T, r ≠ [] ∧ r.getLast? ≠ some none ∧ ∀ c ∈ r, ∀ lex, c = some lex → IsLexeme lex) →
    (∀ ps ∈ σ.pad, ∀ p ∈ ps, blanksOnly p.1 ∧ blanksOnly p.2 ∧ (isBlankB σ.delim = true → p.1 = [] ∧ p.2 = [])) →
    (renderCsv σ T).length + 2 < 2 ^ 64 →
    ∀ rws, T.mapM (expectCsvRow gC prm) = .ok rws → AgreeRows rws →
      rows (.csv prm) conv (renderCsv σ T) = .ok rws

end DmlcModel.Props.C12
