import DmlcModel.Parse.Model
namespace DmlcModel.Props.C12
end DmlcModel.Props.C12
