/-
C03 — text InputSplit: the parts of an `n`-way split deliver every non-empty line exactly once.
Property theorems only; definitions in DmlcModel/Split/{Model,Spec}.lean (`partBlobs`, `linesOf`, `lines`,
`canon`, `rangeStream`), boundaries `bndT` in DmlcModel/Split/SnapText.lean, lemmas in DmlcModel/Split/*.lean
(assembled in DmlcModel/Split/CoverText.lean).

Common hypotheses: a non-empty list of non-empty, NUL-free files of less than 2^55 bytes in all, `1 ≤ n < 2^32`
parts (`0 < n` follows from `k < n` in the per-part statements), a buffer of `w < 2^56` words (any `w`, `0`
included: `Chunk::Load` sizes its buffer `w + 1` words), any `kBufferSize` `dw`, any choice `pick` of
`NextRecord` (`true`) / `NextChunk` (`false`) per call.
-/
import DmlcModel.Split.CoverText

namespace DmlcModel.Props.C03
open DmlcModel DmlcModel.Split

/-- the stream of one part: part `k` ends without an abnormal outcome, and the canonical lines of what it
delivers are the lines of the byte range between its two boundaries -/
theorem C03_part_lines (files : List Bytes) (n w dw : Nat) (hfiles : files ≠ [])
    (hne : ∀ f ∈ files, f ≠ [] ∧ NulFree f) (ht : totalSize files < 2^55) (hn : n < 2^32)
    (hw : w < 2^56) (k : Nat) (hk : k < n) (pick : Nat → Bool) :
    ∃ bs, partBlobs Fmt.text files k n w dw pick = .ok bs ∧
          bs.flatMap canon = lines (rangeStream true files (bndT files n k) (bndT files n (k + 1))) := by
  obtain ⟨bs, h1, h2, _⟩ := part_text files k n w dw hfiles hne ht hk hn hw pick
  exact ⟨bs, h1, h2⟩

/-- no part raises an abnormal outcome (`check`, `oob`, `uninit`, `div`, `fuel`) -/
theorem C03_no_error (files : List Bytes) (n w dw : Nat) (hfiles : files ≠ [])
    (hne : ∀ f ∈ files, f ≠ [] ∧ NulFree f) (ht : totalSize files < 2^55) (hn : n < 2^32)
    (hw : w < 2^56) (k : Nat) (hk : k < n) (pick : Nat → Bool) :
    ∃ bs, partBlobs Fmt.text files k n w dw pick = .ok bs := by
  obtain ⟨bs, h1, _⟩ := part_text files k n w dw hfiles hne ht hk hn hw pick
  exact ⟨bs, h1⟩

/-- MAIN: no part fails, and the parts' canonical lines concatenate to the non-empty lines of the files, in
order, each exactly once (any mix of `NextRecord` / `NextChunk` per part) -/
theorem C03_parts_cover (files : List Bytes) (n w dw : Nat) (hfiles : files ≠ [])
    (hne : ∀ f ∈ files, f ≠ [] ∧ NulFree f) (ht : totalSize files < 2^55) (hn0 : 0 < n) (hn : n < 2^32)
    (hw : w < 2^56) (pick : Nat → Nat → Bool) :
    (∀ k, k < n → ∃ bs, partBlobs Fmt.text files k n w dw (pick k) = .ok bs) ∧
    (List.range n).flatMap (fun k => linesOf (partBlobs Fmt.text files k n w dw (pick k)))
      = files.flatMap lines :=
  ⟨fun k hk => C03_no_error files n w dw hfiles hne ht hn hw k hk (pick k),
   parts_cover_text files n w dw hfiles hne ht hn0 hn hw pick⟩

/-- a chunk never ends in the middle of a line: every blob delivered by a `NextChunk` call is non-empty and
ends in an EOL byte (and no blob of either kind is empty) -/
theorem C03_chunk_ends_at_eol (files : List Bytes) (n w dw : Nat) (hfiles : files ≠ [])
    (hne : ∀ f ∈ files, f ≠ [] ∧ NulFree f) (ht : totalSize files < 2^55) (hn : n < 2^32)
    (hw : w < 2^56) (k : Nat) (hk : k < n) (pick : Nat → Bool) (bs : List Bytes)
    (h : partBlobs Fmt.text files k n w dw pick = .ok bs) (i : Nat) (b : Bytes) (hb : bs[i]? = some b) :
    b ≠ [] ∧ (pick i = false → ∃ a e, b = a ++ [e] ∧ isEol e = true) := by
  obtain ⟨bs', h1, _, h3⟩ := part_text files k n w dw hfiles hne ht hk hn hw pick
  rw [h] at h1
  injection h1 with h1
  subst h1
  obtain ⟨g1, g2⟩ := h3 i b hb
  refine ⟨g1, fun hp => ?_⟩
  rcases g2 hp with g | g
  · exact absurd g g1
  · exact g

/-- the canonical lines of a part do not depend on the buffer size, the default buffer size, or the
consumption mode -/
theorem C03_buffer_independent (files : List Bytes) (n w dw : Nat) (hfiles : files ≠ [])
    (hne : ∀ f ∈ files, f ≠ [] ∧ NulFree f) (ht : totalSize files < 2^55) (hn : n < 2^32)
    (hw : w < 2^56) (w' dw' : Nat) (hw' : w' < 2^56) (k : Nat) (hk : k < n) (pick pick' : Nat → Bool) :
    linesOf (partBlobs Fmt.text files k n w dw pick) = linesOf (partBlobs Fmt.text files k n w' dw' pick') := by
  rw [linesOf_part_text files k n w dw hfiles hne ht hk hn hw pick,
    linesOf_part_text files k n w' dw' hfiles hne ht hk hn hw' pick']

/-- the doubling loop of `Chunk::Load` always terminates within the model's iteration bound, and `Load`
raises no abnormal outcome, from every state that satisfies the invariant `TInv` of a bare text split
(which the constructed state satisfies: `C03_initial_invariant`, and every call preserves) -/
theorem C03_load_terminates (s : Base) (c : Chunk) (hinv : TInv s) : ∃ r, load Fmt.text s c = .ok r :=
  load_text_total_any s c hinv

/-- the state `Init` + `ResetPartition(k, n)` construct satisfies the invariant, and what it still has to
deliver is the stream of the byte range between the two boundaries of part `k` -/
theorem C03_initial_invariant (files : List Bytes) (n w dw : Nat) (hfiles : files ≠ [])
    (hne : ∀ f ∈ files, f ≠ [] ∧ NulFree f) (ht : totalSize files < 2^55) (hn : n < 2^32)
    (hw : w < 2^56) (k : Nat) (hk : k < n) :
    ∃ s, mkSt Fmt.text files k n w false dw = .ok s ∧ s.wrap = none ∧ TInv s.base ∧
      tailT s.base = rangeStream true files (bndT files n k) (bndT files n (k + 1)) :=
  mkSt_text_inv files k n w dw hfiles hne ht hk hn hw

/-- the boundaries run from `0` to the total size, are monotone, and each is a position where the stream may
be cut without cutting a line (a file boundary, or right after an EOL byte and right before a non-EOL byte) -/
theorem C03_boundaries (files : List Bytes) (n : Nat) (hne : ∀ f ∈ files, f ≠ []) (ht : totalSize files < 2^55)
    (hn0 : 0 < n) (hn : n < 2^32) :
    bndT files n 0 = 0 ∧ bndT files n n = totalSize files ∧
    (∀ i j, i ≤ j → bndT files n i ≤ bndT files n j) ∧ (∀ j, IsCut files (bndT files n j)) :=
  ⟨bndT_zero files n, bndT_last files n hne (by omega) hn0 hn,
   fun i j h => bndT_mono files n i j hne h, fun j => bndT_isCut files n j hne⟩

end DmlcModel.Props.C03
