/-
C03 — text InputSplit: parts deliver every non-empty line exactly once.
Property theorems only; definitions in DmlcModel/Split/{Model,Spec}.lean, lemmas in DmlcModel/Split/*Lemmas.lean.
-/
import DmlcModel.Split.Spec

namespace DmlcModel.Props.C03
open DmlcModel DmlcModel.Split

/-- **C03, full statement** (kept visible; see `CONFIG['partial']`): for every list of non-empty NUL-free files,
every `n ≥ 1`, every buffer size `w ≥ 1` and every way of mixing `NextRecord` / `NextChunk`, the parts
`0..n-1` deliver without error, and their canonical lines concatenate to the non-empty lines of the files. -/
def C03_parts_cover_statement : Prop :=
  ∀ (files : List Bytes) (n w dw : Nat) (pick : Nat → Nat → Bool),
    files ≠ [] → (∀ f ∈ files, f ≠ [] ∧ NulFree f) → totalSize files < 2 ^ 56 → 0 < n → n < 2 ^ 32 → 0 < w → w < 2 ^ 56 →
    (∀ k, k < n → ∃ bs, partBlobs Fmt.text files k n w dw (pick k) = .ok bs) ∧
    (List.range n).flatMap (fun k => linesOf (partBlobs Fmt.text files k n w dw (pick k))) = files.flatMap lines

end DmlcModel.Props.C03
