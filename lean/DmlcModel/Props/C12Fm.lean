/-
C12 for libfm — `C12_libfm_statement` of Props/C12.lean, proved as stated (no hypothesis added, none changed).

For every table, style (one per row), indexing mode, index width and every conversion that is local and exact:
`LibFMParser::ParseBlock` on the rendered document returns exactly the rows of the table, in order; fields and
indices both shifted under 1-based indexing.  Helper lemmas: DmlcModel/Parse/RenderFm.lean (`tripleS_two` /
`tripleS_three` = ParseTriple on rendered tokens, `fmFeats_render` = the feature loop, `fmLineS_render` = one line,
`fm_pieces_rows` / `fm_agree_expected` = the document); the reduction of a block to its lines is
`C11_block_is_concat_of_lines_libfm`, blank filler lines are `C11_blank_lines_libfm`.

Remark: the hypotheses `z.1.line.comment = none`, `z.2.qid = none` and `f.comment = none` of the statement are not
used by the proof — `renderFm` never prints a comment or a qid — they only say that the style / table carries
nothing the libfm renderer would silently drop.
-/
import DmlcModel.Parse.RenderFm

namespace DmlcModel.Props.C12
open DmlcModel DmlcModel.Parse DmlcModel.Props.C11

/-- **C12 for libfm.** `ParseBlock` on the rendered document returns exactly the rows of the table, in order. -/
theorem C12_libfm : C12_libfm_statement := by
  intro conv gR gI gQ gC hE iw mode σ T hlen hwf0 hW hV hb Ls hLs
  have hLoc : conv.Local := ⟨gR, gI, gQ, gC, hE.loc⟩
  have hwf : ∀ z ∈ σ.zip T, WfRow z.1 z.2 ∧ ∀ e ∈ z.2.entries, IsDigits e.field :=
    fun z hz => ⟨(hwf0 z hz).1, (hwf0 z hz).2.2.2.2⟩
  have hsnd : (σ.zip T).map (·.2) = T := by rw [List.map_snd_zip]; omega
  have hmemT : ∀ z ∈ σ.zip T, z.2 ∈ T := fun z hz => (List.of_mem_zip hz).2
  have hLs' : (σ.zip T).mapM (fun z => expLineFm gR gI z.2) = .ok Ls := by
    rw [← hsnd, mapM_map'] at hLs; exact hLs
  have hnil : rows (.libfm iw mode) conv [] = .ok [] :=
    C11_blank_lines_libfm iw mode conv hLoc [] (by intro b hb'; simp at hb') (by simp)
  have hpw := fm_pieces_wf (σ.zip T) hwf
  rw [renderFm_eq] at hb ⊢
  have hbd : ∀ p ∈ (σ.zip T).flatMap fmPieces, p.1.length + 3 < 2 ^ 64 := fun p hp => by
    have h1 := piece_length_le _ p hp
    have h2 : 1 ≤ p.2.length := by
      have := (hpw p hp).2.1
      cases hp2 : p.2 with
      | nil => exact absurd hp2 this
      | cons _ _ => simp
    omega
  obtain ⟨R, hR, hfl⟩ := fm_pieces_rows conv gR gI gQ gC hE iw mode (σ.zip T) Ls hwf hbd hLs'
  obtain ⟨rss, hl, hfl2⟩ := rows_pieces _ hnil _ R hR hpw
  have ha : AgreeRows rss.flatten := by
    rw [hfl2, hfl]
    exact fm_agree_expected gR gI iw mode (σ.zip T) Ls hLs'
      (by rcases hW with h | h; exact Or.inl (fun z hz => h _ (hmemT z hz)); exact Or.inr (fun z hz => h _ (hmemT z hz)))
      (by rcases hV with h | h; exact Or.inl (fun z hz => h _ (hmemT z hz)); exact Or.inr (fun z hz => h _ (hmemT z hz)))
  have := C11_block_is_concat_of_lines_libfm iw mode conv hLoc _ hb rss hl ha
  rw [this, hfl2, hfl]

/-! ### non-vacuity -/

/-- " 1:2\t3:4:5  6:7:8 \r\n" preceded by a blank line " \t\n", then "2:9 1:10:7\n", 1-based: the conclusion of
`C12_libfm` computed on the model (fields and indices both shifted) -/
example :
    rows (.libfm 32 1) C11Witness.convRun
      (renderFm [{ filler := [{ blanks := [32, 9], comment := none, eol := [10] }],
                   line := { lead := [32], qidSep := [32], seps := [[9], [32, 32]], trail := [32], comment := none },
                   eol := [13, 10] },
                 { filler := [],
                   line := { lead := [], qidSep := [32], seps := [[32]], trail := [], comment := none },
                   eol := [10] }]
                [{ label := [49], weight := some [50],
                   entries := [{ field := [51], index := [52], value := some [53] },
                               { field := [54], index := [55], value := some [56] }] },
                 { label := [50], weight := some [57],
                   entries := [{ field := [49], index := [49, 48], value := some [55] }] }])
      = .ok [{ label := some 1, weight := some 2, qid := none, field := some [2, 5], index := [3, 6], value := some [5, 8] },
             { label := some 2, weight := some 9, qid := none, field := some [0], index := [9], value := some [7] }] := by
  decide

/-- the same document is what `renderFm` says it is (bytes), and the expected rows are the ones of the table -/
example :
    renderFm [{ filler := [{ blanks := [32, 9], comment := none, eol := [10] }],
                line := { lead := [32], qidSep := [32], seps := [[9], [32, 32]], trail := [32], comment := none },
                eol := [13, 10] },
              { filler := [],
                line := { lead := [], qidSep := [32], seps := [[32]], trail := [], comment := none },
                eol := [10] }]
             [{ label := [49], weight := some [50],
                entries := [{ field := [51], index := [52], value := some [53] },
                            { field := [54], index := [55], value := some [56] }] },
              { label := [50], weight := some [57],
                entries := [{ field := [49], index := [49, 48], value := some [55] }] }]
      = [32, 9, 10, 32, 49, 58, 50, 9, 51, 58, 52, 58, 53, 32, 32, 54, 58, 55, 58, 56, 32, 13, 10,
         50, 58, 57, 32, 49, 58, 49, 48, 58, 55, 10] := by
  decide

end DmlcModel.Props.C12
