/-
C05 for `InputSplitShuffle` (include/dmlc/input_split_shuffle.h, one of the files C05 is anchored in): the wrapper that
reads part `k` of `n` as the `m` sub-parts `k*m + j` of `n*m` in a shuffled order.  Model: DmlcModel/Split/Shuffle.lean
(the inner split is represented by its C05 / C10 contract `sub`).

* `C05_shuffle_fresh`: a freshly created object delivers every sub-part of its part, in its order;
* `C05_shuffle_reset`: after `ResetPartition(k, n)` – from ANY state, whatever was read before – the stream is the
  stream of a freshly created object for part `k` with the same order: nothing of the old part is delivered;
* `C05_shuffle_beforeFirst`: after `BeforeFirst` the stream is the complete stream of the current part (new order);
* `C05_shuffle_reachable_good`: the invariant these need holds in every state reachable by any history;
* `C05_shuffle_cover`: whatever the order, a pass is a permutation of the sub-parts' records, each exactly once;
* `C05_shuffle_fix_present`: the source stores the new rank in `ResetPartition` (finding C05-F2; without it
  `C05_shuffle_reset_pinned_refuted` shows the sub-parts after the first coming from the OLD part).
-/
import DmlcModel.Split.ShuffleLemmas
import DmlcModel.Gen.Split

namespace DmlcModel.Props.C05
open DmlcModel.Split DmlcModel.Split.Shuffle

variable {α : Type}

/-- the state invariant of the wrapper: `shuffle_indexes_` has `m ≥ 1` entries, the cursor is inside it, and the inner
split reads the sub-part the cursor names -/
def Good (s : Sh α) : Prop :=
  s.perm.length = s.m ∧ s.cur < s.m ∧ idxAt s.perm s.cur s.partIndex s.m = .ok s.srcIdx

theorem idxAt_ok {perm : List Nat} {j : Nat} (h : j < perm.length) (part m : Nat) :
    idxAt perm j part m = .ok (perm[j] + part * m) := by
  simp [idxAt, List.getElem?_eq_getElem h]

/-- a state that has just been pointed at the first sub-part of `perm` for part `k` -/
structure AtFirst (sub : Nat → Res (List α)) (s : Sh α) (perm : List Nat) (k : Nat) : Prop where
  perm_eq : s.perm = perm
  len : perm.length = s.m
  cur0 : s.cur = 0
  part : s.partIndex = k
  rest : ∃ p ps, perm = p :: ps ∧ sub (p + k * s.m) = .ok s.rest ∧ s.srcIdx = p + k * s.m

theorem AtFirst.good {sub : Nat → Res (List α)} {s : Sh α} {perm : List Nat} {k : Nat} (h : AtFirst sub s perm k) :
    Good s := by
  obtain ⟨p, ps, hp, _, hsrc⟩ := h.rest
  have hl : s.perm.length = s.m := by rw [h.perm_eq]; exact h.len
  have hpos : 0 < s.perm.length := by rw [h.perm_eq, hp]; simp
  refine ⟨hl, by rw [h.cur0]; omega, ?_⟩
  rw [h.cur0, h.part, idxAt_ok hpos, hsrc]
  congr 2
  simp [h.perm_eq, hp]

/-- from such a state a pass delivers every sub-part of part `k`, in the order `perm` -/
theorem AtFirst.drain {sub : Nat → Res (List α)} {s : Sh α} {perm : List Nat} {k : Nat} (h : AtFirst sub s perm k) :
    drain sub s = passOf sub perm k s.m := by
  obtain ⟨p, ps, hp, hsub, _⟩ := h.rest
  have := drain_first sub s p ps k (by rw [h.perm_eq, hp]) (by rw [h.perm_eq]; exact h.len) h.cur0 h.part hsub
  rw [this, h.perm_eq]

theorem create_atFirst (sub : Nat → Res (List α)) (k n m : Nat) (perm : List Nat) (hl : perm.length = m) (s : Sh α)
    (h : create sub k n m perm = .ok s) : AtFirst sub s perm k ∧ s.m = m ∧ s.numParts = n := by
  unfold create at h
  by_cases hm : m = 0
  · simp [hm] at h
  · have h0 : 0 < perm.length := by omega
    simp only [hm, if_false, idxAt_ok h0, bind, Except.bind] at h
    cases hs : sub (perm[0] + k * m) with
    | error e => rw [hs] at h; cases h
    | ok rs =>
      rw [hs] at h
      simp only [pure, Except.pure, Except.ok.injEq] at h
      subst h
      cases perm with
      | nil => simp at h0
      | cons p ps => exact ⟨⟨rfl, hl, rfl, rfl, p, ps, rfl, by simpa using hs, by simp⟩, rfl, rfl⟩

theorem reset_atFirst (sub : Nat → Res (List α)) (s : Sh α) (hg : s.perm.length = s.m) (hm : 0 < s.m) (k nsplit : Nat)
    (s' : Sh α) (h : Shuffle.resetPartition true sub s k nsplit = .ok s') :
    AtFirst sub s' s.perm k ∧ s'.m = s.m ∧ s'.numParts = s.numParts ∧ nsplit = s.numParts := by
  unfold Shuffle.resetPartition at h
  by_cases hn : nsplit = s.numParts
  · have h0 : 0 < s.perm.length := by omega
    simp only [hn, ne_eq, not_true_eq_false, if_false, idxAt_ok h0, bind, Except.bind] at h
    cases hs : sub (s.perm[0] + k * s.m) with
    | error e => rw [hs] at h; cases h
    | ok rs =>
      rw [hs] at h
      simp only [pure, Except.pure, Except.ok.injEq, if_true] at h
      subst h
      obtain ⟨p, ps, hp⟩ : ∃ p ps, s.perm = p :: ps := by
        cases hq : s.perm with
        | nil => simp [hq] at h0
        | cons p ps => exact ⟨p, ps, rfl⟩
      have hp0 : s.perm[0] = p := by simp [hp]
      refine ⟨⟨rfl, hg, rfl, rfl, p, ps, hp, ?_, ?_⟩, rfl, rfl, hn⟩
      · rw [← hp0]; exact hs
      · simp [hp0]
  · simp [hn] at h

theorem bf_atFirst (sub : Nat → Res (List α)) (s : Sh α) (hg : Good s) (perm' : List Nat)
    (hl : 1 < s.m → perm'.length = s.m) (s' : Sh α) (h : Shuffle.beforeFirst sub s perm' = .ok s') :
    AtFirst sub s' (if 1 < s.m then perm' else s.perm) s.partIndex ∧ s'.m = s.m ∧ s'.numParts = s.numParts := by
  unfold Shuffle.beforeFirst at h
  by_cases hm : s.m > 1
  · have hl' := hl hm
    have h0 : 0 < perm'.length := by omega
    simp only [hm, if_true, idxAt_ok h0, bind, Except.bind] at h
    cases hs : sub (perm'[0] + s.partIndex * s.m) with
    | error e => rw [hs] at h; cases h
    | ok rs =>
      rw [hs] at h
      simp only [pure, Except.pure, Except.ok.injEq] at h
      subst h
      obtain ⟨p, ps, hp⟩ : ∃ p ps, perm' = p :: ps := by
        cases hq : perm' with
        | nil => simp [hq] at h0
        | cons p ps => exact ⟨p, ps, rfl⟩
      have hp0 : perm'[0] = p := by simp [hp]
      have hif : (if 1 < s.m then perm' else s.perm) = perm' := by simp [hm]
      rw [hif]
      refine ⟨⟨rfl, hl', rfl, rfl, p, ps, hp, ?_, ?_⟩, rfl, rfl⟩
      · rw [← hp0]; exact hs
      · simp [hp0]
  · obtain ⟨hlen, hcur, hidx⟩ := hg
    have hm1 : s.m = 1 := by omega
    have hc0 : s.cur = 0 := by omega
    simp only [hm, if_false, bind, Except.bind] at h
    cases hs : sub s.srcIdx with
    | error e => rw [hs] at h; cases h
    | ok rs =>
      rw [hs] at h
      simp only [pure, Except.pure, Except.ok.injEq] at h
      subst h
      have h0 : 0 < s.perm.length := by omega
      obtain ⟨p, ps, hp⟩ : ∃ p ps, s.perm = p :: ps := by
        cases hq : s.perm with
        | nil => simp [hq] at h0
        | cons p ps => exact ⟨p, ps, rfl⟩
      rw [hc0, idxAt_ok h0] at hidx
      simp only [Except.ok.injEq] at hidx
      have hp0 : s.perm[0] = p := by simp [hp]
      rw [hp0] at hidx
      have hif : (if 1 < s.m then perm' else s.perm) = s.perm := by simp [hm]
      rw [hif]
      refine ⟨⟨rfl, hlen, hc0, rfl, p, ps, hp, ?_, ?_⟩, rfl, rfl⟩
      · rw [hidx]; exact hs
      · exact hidx.symm

/-- the source carries the repair of C05-F2 (`part_index_ = rank;` in `ResetPartition`) and the three other member
functions have, statement for statement, the shape the model mirrors -/
theorem C05_shuffle_fix_present : Gen.Split.shuffleResetSetsPart = true ∧ Gen.Split.shuffleShapeOk = true := by decide

/-- **a fresh object delivers its whole part**: all `m` sub-parts of part `k`, in the constructor's order -/
theorem C05_shuffle_fresh (sub : Nat → Res (List α)) (k n m : Nat) (perm : List Nat) (hl : perm.length = m) (s : Sh α)
    (h : create sub k n m perm = .ok s) : drain sub s = passOf sub perm k m := by
  obtain ⟨ha, hm, _⟩ := create_atFirst sub k n m perm hl s h
  rw [ha.drain, hm]

/-- **`ResetPartition(k, n)` at any point equals a fresh object for part `k`** (same shuffle order): from any state
of the wrapper – any sub-part half read, any cursor – the stream after the call is exactly the `m` sub-parts of part
`k`; in particular no record of the previously selected part is delivered.  Stated for the source as it is
(`Gen.Split.shuffleResetSetsPart`). -/
theorem C05_shuffle_reset (sub : Nat → Res (List α)) (s : Sh α) (hg : s.perm.length = s.m) (hm : 0 < s.m) (k nsplit : Nat)
    (s' : Sh α) (h : Shuffle.resetPartition Gen.Split.shuffleResetSetsPart sub s k nsplit = .ok s') :
    drain sub s' = passOf sub s.perm k s.m ∧
      ∀ f, create sub k s.numParts s.m s.perm = .ok f → drain sub s' = drain sub f := by
  rw [C05_shuffle_fix_present.1] at h
  obtain ⟨ha, hm', _, _⟩ := reset_atFirst sub s hg hm k nsplit s' h
  have h1 : drain sub s' = passOf sub s.perm k s.m := by rw [ha.drain, hm']
  exact ⟨h1, fun f hf => by rw [h1, C05_shuffle_fresh sub k s.numParts s.m s.perm hg f hf]⟩

/-- **`BeforeFirst` at any point restarts the current part**: the complete stream of part `partIndex` in the new
order `perm'` (for `m = 1`: the one sub-part again) -/
theorem C05_shuffle_beforeFirst (sub : Nat → Res (List α)) (s : Sh α) (hg : Good s) (perm' : List Nat)
    (hl : 1 < s.m → perm'.length = s.m) (s' : Sh α) (h : Shuffle.beforeFirst sub s perm' = .ok s') :
    drain sub s' = passOf sub (if 1 < s.m then perm' else s.perm) s.partIndex s.m := by
  obtain ⟨ha, hm', _⟩ := bf_atFirst sub s hg perm' hl s' h
  rw [ha.drain, hm']

/-! ### every reachable state is `Good` -/

inductive Op where
  | next
  | beforeFirst (perm' : List Nat)
  | reset (k : Nat)

/-- one public call (a call that raises leaves the object unusable: no successor) -/
def step (sub : Nat → Res (List α)) (s : Sh α) : Op → Option (Sh α)
  | .next => match next sub s with | .ok (_, s') => some s' | .error _ => none
  | .beforeFirst p => match Shuffle.beforeFirst sub s p with | .ok s' => some s' | .error _ => none
  | .reset k => match Shuffle.resetPartition true sub s k s.numParts with | .ok s' => some s' | .error _ => none

theorem next_good (sub : Nat → Res (List α)) (s : Sh α) (hg : Good s) (o : Option α) (s' : Sh α)
    (h : next sub s = .ok (o, s')) : Good s' ∧ s'.m = s.m := by
  fun_induction next sub s with
  | case1 s r0 rs hr =>
    simp only [Except.ok.injEq, Prod.mk.injEq] at h
    obtain ⟨_, rfl⟩ := h
    exact ⟨hg, rfl⟩
  | case2 s hr hm hc =>
    simp only [Except.ok.injEq, Prod.mk.injEq] at h
    obtain ⟨_, rfl⟩ := h
    exact ⟨hg, rfl⟩
  | case3 s hr hm hc hlt e he => cases h
  | case4 s hr hm hc hlt idx hi e he => cases h
  | case5 s hr hm hc hlt idx hi rs hs ih =>
    have hg' : Good { s with cur := s.cur + 1, srcIdx := idx, rest := rs } :=
      ⟨hg.1, by simp only; omega, hi⟩
    exact ih hg' h
  | case6 s hr hm hc hlt => cases h
  | case7 s hr hm =>
    simp only [Except.ok.injEq, Prod.mk.injEq] at h
    obtain ⟨_, rfl⟩ := h
    exact ⟨hg, rfl⟩

/-- **invariant over all histories**: from a freshly created object, any sequence of `NextRecord` / `BeforeFirst`
(with any new orders of the right length) / `ResetPartition` calls stays in `Good` states -/
theorem C05_shuffle_reachable_good (sub : Nat → Res (List α)) (ops : List Op) (s : Sh α) (hg : Good s)
    (hops : ∀ op ∈ ops, ∀ p, op = Op.beforeFirst p → 1 < s.m → p.length = s.m) (s' : Sh α)
    (h : ops.foldlM (step sub) s = some s') : Good s' ∧ s'.m = s.m := by
  induction ops generalizing s with
  | nil => simp at h; subst h; exact ⟨hg, rfl⟩
  | cons op ops ih =>
    simp only [List.foldlM_cons, bind, Option.bind] at h
    cases hst : step sub s op with
    | none => rw [hst] at h; cases h
    | some t =>
      rw [hst] at h
      have hgt : Good t ∧ t.m = s.m := by
        cases op with
        | next =>
          simp only [step] at hst
          cases hn : next sub s with
          | error e => rw [hn] at hst; cases hst
          | ok r =>
            rw [hn] at hst
            simp only [Option.some.injEq] at hst
            subst hst
            exact next_good sub s hg r.1 r.2 (by rw [hn])
        | beforeFirst p =>
          simp only [step] at hst
          cases hb : Shuffle.beforeFirst sub s p with
          | error e => rw [hb] at hst; cases hst
          | ok t' =>
            rw [hb] at hst
            simp only [Option.some.injEq] at hst
            subst hst
            obtain ⟨ha, hm', _⟩ := bf_atFirst sub s hg p (hops _ (by simp) p rfl) t' hb
            exact ⟨ha.good, hm'⟩
        | reset k =>
          simp only [step] at hst
          cases hr : Shuffle.resetPartition true sub s k s.numParts with
          | error e => rw [hr] at hst; cases hst
          | ok t' =>
            rw [hr] at hst
            simp only [Option.some.injEq] at hst
            subst hst
            obtain ⟨ha, hm', _, _⟩ := reset_atFirst sub s hg.1 (by have := hg.2.1; omega) k s.numParts t' hr
            exact ⟨ha.good, hm'⟩
      obtain ⟨r1, r2⟩ := ih t hgt.1 (fun op hop p hp hm => by
        rw [hgt.2] at hm ⊢; exact hops op (by simp [hop]) p hp hm) h
      exact ⟨r1, by rw [r2, hgt.2]⟩

/-! ### whatever the order, every sub-part exactly once -/

theorem mapM_perm {β γ : Type} (f : β → Res γ) {l1 l2 : List β} (hp : l1.Perm l2) (r1 : List γ)
    (h : l1.mapM f = .ok r1) : ∃ r2, l2.mapM f = .ok r2 ∧ r1.Perm r2 := by
  induction hp generalizing r1 with
  | nil =>
    simp only [List.mapM_nil, pure, Except.pure, Except.ok.injEq] at h
    subst h
    exact ⟨[], rfl, List.Perm.refl _⟩
  | cons x hp ih =>
    simp only [List.mapM_cons, bind, Except.bind] at h ⊢
    cases hx : f x with
    | error e => rw [hx] at h; cases h
    | ok y =>
      rw [hx] at h
      simp only at h ⊢
      rename_i l1' l2'
      cases hm : l1'.mapM f with
      | error e => rw [hm] at h; cases h
      | ok ys =>
        rw [hm] at h
        simp only [pure, Except.pure, Except.ok.injEq] at h
        subst h
        obtain ⟨r2, h2, p2⟩ := ih ys hm
        exact ⟨y :: r2, by simp [h2, pure, Except.pure], List.Perm.cons y p2⟩
  | swap x y l =>
    simp only [List.mapM_cons, bind, Except.bind] at h ⊢
    cases hy : f y with
    | error e => rw [hy] at h; cases h
    | ok b =>
      rw [hy] at h
      cases hx : f x with
      | error e => rw [hx] at h; cases h
      | ok a =>
        rw [hx] at h
        cases hm : l.mapM f with
        | error e => rw [hm] at h; cases h
        | ok ys =>
          rw [hm] at h
          simp only [pure, Except.pure, Except.ok.injEq] at h
          subst h
          exact ⟨a :: b :: ys, by simp [pure, Except.pure], List.Perm.swap a b ys⟩
  | trans _ _ ih1 ih2 =>
    obtain ⟨r2, h2, p2⟩ := ih1 r1 h
    obtain ⟨r3, h3, p3⟩ := ih2 r2 h2
    exact ⟨r3, h3, p2.trans p3⟩

/-- **a pass delivers every record of the part exactly once, whatever `std::shuffle` produced**: if the order is a
permutation of `0 … m-1`, the records of a pass are a permutation of the sub-parts `k*m … k*m+m-1` laid end to end -/
theorem C05_shuffle_cover (sub : Nat → Res (List α)) (perm : List Nat) (k m : Nat) (hp : perm.Perm (List.range m))
    (r : List α) (h : passOf sub perm k m = .ok r) :
    ∃ rss, (List.range m).mapM (fun j => sub (j + k * m)) = .ok rss ∧ r.Perm rss.flatten := by
  unfold passOf at h
  cases hm : perm.mapM (fun p => sub (p + k * m)) with
  | error e => rw [hm] at h; cases h
  | ok rs1 =>
    rw [hm] at h
    simp only [Except.map, Except.ok.injEq] at h
    subst h
    obtain ⟨r2, h2, p2⟩ := mapM_perm (fun p => sub (p + k * m)) hp rs1 hm
    exact ⟨r2, h2, p2.flatten⟩

/-! ### the pinned code: `ResetPartition` without `part_index_ = rank` -/

/-- finding C05-F2 on the model of the pinned source (`fixPart := false`): an object created for part 0 of 2 with
two sub-parts (sub-part `i` holds the single record `i`), reset to part 1, delivers sub-part 2 of the new part and
then sub-part 1 of the OLD part instead of 3 -/
theorem C05_shuffle_reset_pinned_refuted :
    ∃ s s' : Sh Nat, create (fun i => .ok [i]) 0 2 2 [0, 1] = .ok s ∧
      Shuffle.resetPartition false (fun i => .ok [i]) s 1 2 = .ok s' ∧
      drain (fun i => .ok [i]) s' = .ok [2, 1] ∧ passOf (fun i => .ok [i]) [0, 1] 1 2 = .ok [2, 3] := by
  refine ⟨_, _, rfl, rfl, ?_, rfl⟩
  rw [drain_eq _ _ ⟨rfl, by decide⟩]
  rfl

/-- non-vacuity of `C05_shuffle_reset` / `C05_shuffle_beforeFirst`: the same history on the repaired model -/
example :
    ∃ s s' s'' : Sh Nat, create (fun i => .ok [i]) 0 2 2 [0, 1] = .ok s ∧
      Shuffle.resetPartition true (fun i => .ok [i]) s 1 2 = .ok s' ∧ drain (fun i => .ok [i]) s' = .ok [2, 3] ∧
      Shuffle.beforeFirst (fun i => .ok [i]) s' [1, 0] = .ok s'' ∧ drain (fun i => .ok [i]) s'' = .ok [3, 2] := by
  refine ⟨_, _, _, rfl, rfl, ?_, rfl, ?_⟩
  · rw [drain_eq _ _ ⟨rfl, by decide⟩]; rfl
  · rw [drain_eq _ _ ⟨rfl, by decide⟩]; rfl

end DmlcModel.Props.C05
