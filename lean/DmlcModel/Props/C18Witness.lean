/-
C18 — witnesses.
(1) The ManualEvent of the PINNED tree (`if (!signaled_) wait(lock);`, model parameter `loops = false`)
    violates the safety half of the property: refutations of the full statement on concrete runs.
(2) Non-vacuity: concrete reachable states that satisfy the hypotheses of the C18 theorems.
-/
import DmlcModel.Props.C18
namespace DmlcModel.Props.C18
open DmlcModel DmlcModel.CQueue

/-! ## (1) finding C18-F1: wait() of the pinned code returns without a signal -/

/-- one waiter, nobody ever signals: wait, spurious wake-up, return -/
def pinnedSpurious : List EEvent := [.wLock, .wLoad, .wWait, .spurious, .wRelock, .wUnlock]

/-- no spurious wake-up needed either: signal() wakes the waiter, reset() runs before the waiter
re-acquires the mutex, the waiter returns although the last reset() is later than the signal() -/
def pinnedRace : List EEvent :=
  [.wLock, .wLoad, .wWait, .sStore, .sLock, .sNotify, .sUnlock, .rLock, .rStore, .rUnlock, .wRelock, .wUnlock]

theorem C18_event_safe_false_on_pinned_spurious :
    (erun false einit pinnedSpurious).map (fun s => (s.badReturns, s.signaled, s.sigAfterReset)) = some (1, false, false) := by
  decide

theorem C18_event_safe_false_on_pinned_race :
    (erun false einit pinnedRace).map (fun s => (s.badReturns, s.signaled, s.sigAfterReset)) = some (1, false, false) := by
  decide

/-- the full safety statement is false of the pinned model -/
theorem C18_event_safe_pinned_refuted : ¬ ∀ s, EReach false s → s.badReturns = 0 := by
  intro h
  cases hr : erun false einit pinnedSpurious with
  | none => revert hr; decide
  | some s =>
    have h0 := h s (ereach_run pinnedSpurious EReach.init hr)
    have : (erun false einit pinnedSpurious).map (·.badReturns) = some 1 := by decide
    rw [hr] at this
    simp only [Option.map_some, Option.some.injEq] at this
    omega

/-- the same runs on the repaired model: the waiter goes back to sleep / nothing bad is counted -/
example : (erun true einit [.wLock, .wLoad, .wWait, .spurious, .wRelock, .wLoad, .wWait]).map
    (fun s => (s.badReturns, s.waitset)) = some (0, 1) := by decide
example : (erun true einit pinnedRace) = none := by decide   -- after the re-lock the next step is the load

/-! ## (2) non-vacuity -/

def e1 : Elem := ⟨1, 5⟩
def e2 : Elem := ⟨2, 5⟩
def e3 : Elem := ⟨3, 9⟩

/-- a popper sleeps, a pusher has inserted an element and is about to unlock: `waitset > 0`, `¬exit`,
queue non-empty (hypotheses of C18_blocks_only_if_empty / C18_deadlock_free) -/
def runBlocked : List QEvent := [.popLock, .popPredLoad, .popWait, .pushLock e1 false]
example : (qrun .fifo qinit runBlocked).map (fun s => (s.waitset, s.exit, s.q.length, hcredit s.holder)) =
    some (1, false, 1, 1) := by decide

/-- the lost-wake-up bound is tight there: 1 ≤ 0 + 0 + 1 -/
example : (qrun .fifo qinit runBlocked).map (fun s => decide (s.q.length = s.woken + s.pendNotify + hcredit s.holder)) =
    some true := by decide

/-- FIFO with a front push: delivery order 2,1 (hypothesis `QReach .fifo s`, non-trivial ghost) -/
def runFront : List QEvent :=
  [.pushLock e1 false, .pushUnlock, .pushLock e2 true, .pushUnlock, .popLock, .popAfterLoad none, .popUnlock]
example : (qrun .fifo qinit runFront).map (fun s => (s.pushedEff, s.popped, s.q)) = some ([e2, e1], [e2], [e1]) := by
  decide

/-- priority variant with a tie: the hint must be maximal (e3), a non-maximal hint is not enabled -/
def runPrio (h : Elem) : List QEvent :=
  [.pushLock e1 false, .pushUnlock, .pushLock e3 false, .pushUnlock, .pushLock e2 true, .pushUnlock,
   .popLock, .popAfterLoad (some h)]
example : (qrun .prio qinit (runPrio e3)).map (fun s => (s.popped, s.q, s.holder)) =
    some ([e3], [e1, e2], Holder.popU true) := by decide
example : qrun .prio qinit (runPrio e1) = none := by decide

/-- kill with a sleeping popper (hypotheses of C18_kill: `exit`, `waitset > 0`) -/
def runKill : List QEvent := [.popLock, .popPredLoad, .popWait, .killLock, .killStore, .killUnlock]
example : (qrun .fifo qinit runKill).map (fun s => (s.exit, s.waitset, s.pendKill)) = some (true, 1, 1) := by decide
example : (qrun .fifo qinit (runKill ++ [.killNotify, .popRelock, .popPredLoad, .popAfterLoad none])).map
    (fun s => (s.holder, s.nwait)) = some (Holder.popU false, 0) := by decide

/-- ManualEvent: a signalled state with an awake waiter and nobody inside a call
(hypotheses of C18_event_live), and a returning waiter (hypothesis of C18_event_safe) -/
def runEv : List EEvent := [.wLock, .wLoad, .wWait, .sStore, .sLock, .sNotify, .sUnlock]
example : (erun true einit runEv).map (fun s => (s.signaled, s.holder, s.sigPending, s.woken)) =
    some (true, EHolder.free, 0, 1) := by decide
example : (erun true einit (runEv ++ [.wRelock, .wLoad])).map (fun s => (s.holder, s.sigAfterReset)) =
    some (EHolder.wU, true) := by decide

end DmlcModel.Props.C18
