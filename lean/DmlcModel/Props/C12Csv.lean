/-
C12 for csv — `C12_csv`: the statement `C12_csv_statement` of Props/C12.lean with the hypotheses (A1)–(A4), (A6) added
((A5) was needed before fixes/C12-3.diff and is gone).

`C12_csv_statement` as written is FALSE for the model (and, where noted, for the C++ code): each added
hypothesis is forced by a counterexample evaluated on the model (`rows (.csv prm) conv (renderCsv σ T)` against
`T.mapM (expectCsvRow gC prm)`; documents as bytes, delimiter ',' = 2c unless said otherwise; `convRun` = the
conversion of C11Witness, which satisfies every hypothesis of the statement).

(A1) `hfit : ∀ r ∈ T, CsvRowFits prm r` (decidable; DmlcModel/Parse/RenderCsv.lean), four parts:
     a. some column of the row is neither the label nor the weight column.
        "5\n" = 35 0a, label_column = 0                    → LOG(FATAL) "Delimiter ',' is not found"; expected {label 5}.
        "5,6\n" = 35 2c 36 0a, label_column = 0, weight_column = 1 → the same FATAL; expected {label 5, weight 6}.
     b. the cell in the label column, and (real-valued cells) in the weight column, is not empty: csv_parser.h
        pushes the `0` of the failed conversion as label / weight, `expectCsvRow` says "absent".
        ",5\n" = 2c 35 0a, label_column = 0                → label = some 0;  expected label = none.
        "5,,6\n" = 35 2c 2c 36 0a, label 0, weight 1       → weight = some 0; expected weight = none.
     c. the weight column differs from the label column (unless no row is that wide; the constructor CHECK of
        CSVParser is not part of `CsvParam`): the label branch wins, `expectCsvRow` reads both from the cell.
        "5,6\n" = 35 2c 36 0a, label_column = weight_column = 0 → weight = none; expected weight = some 5.
     d. at most 2^32 cells: behind that `column_index` wraps, a second cell lands in the label column and the
        model keeps the last one, `expectCsvRow` the first (not evaluated: the document has 2^32 bytes).
(A2) `hnan`: no expected weight is a NaN bit pattern: `if (!std::isnan(weight)) out->weight.push_back(weight)`.
        "9,6\n" = 39 2c 36 0a, weight_column = 0, a conversion that maps "9" to 0x7fc00000 → weight = none; expected some NaN.
(A3) `hpw`: every row has at least as many pads as cells (`renderCsv` zips them, a short pad list drops cells).
        T = [["5","6"]], pad = [[([],[])]] → renders "5\n" = 35 0a → index [0]; expected index [0,1].
(A4) `hlead`: the cell conversion skips blanks in front of a lexeme (`SkipsBlanks gC`, as strtof / strtoll do),
     or no pad has blanks in front.  The contract of the statement says nothing about `gC (blanks ++ lexeme)`.
        " 5,6\n" = 20 35 2c 36 0a with convRun (stops at the blank) → index [1] values [6]; expected [0,1] / [5,6].
(A5) was: `hempty`: started at the delimiter the cell conversion converts nothing (`NoneAtDelim gC σ.delim`), or the
     table has no empty cell.  True of strtof for ',' — false for a blank delimiter, C++ included (finding C12-F3):
        "1\t\t3\n" = 31 09 09 33 0a, delimiter '\t', label_column = 0, a conversion that skips blanks like strtof
        → the empty cell swallowed the next one: index [0] values [3]; expected index [1] values [3].
     Repaired by fixes/C12-3.diff (the blank-cell guard of ParseBlock stops at the delimiter: `Fixes.csvDelimGuard`,
     read off the source as `Gen.Parse.fixCsvDelimGuard`); the parser itself recognises the empty cell, whatever the
     conversion would do at a delimiter, and the theorem no longer needs the hypothesis.  The examples at the end
     evaluate a TAB-separated table with empty cells with and without the repair.
(A6) `hd0 : σ.delim ≠ 0`: the csv line format of C11 (`C11_block_is_concat_of_lines_csv`) is about NUL-free
     texts.  No counterexample ("5\0\06\n" evaluates as expected); a restriction of the proof, not of the model.
Everything else is the statement verbatim: any table, pads, end-of-line strings, label / weight columns in or
beyond the row, any conversion that is local and exact.  Helper lemmas: DmlcModel/Parse/RenderCsv.lean
(`csvCellsS_line`: the cell loop on a rendered line; `toRow_csvFold`: the row it builds is the formula of
`expectCsvRow`; `csv_table_rows`: the lines glued by the csv line format of C11).
-/
import DmlcModel.Props.C12
import DmlcModel.Parse.RenderCsv

namespace DmlcModel.Props.C12
open DmlcModel DmlcModel.Parse DmlcModel.Props.C11

/-- **C12 for csv.**  For every table `T` of cells (`none` = empty cell), every style `σ` (delimiter, blanks
around each cell, end-of-line string per row), every `CsvParam` and every conversion that is local and exact
(cell conversion: exact on a lexeme followed by a delimiter byte, end pointer directly behind the lexeme):
`ParseBlock` on the rendered document returns exactly the rows `expectCsvRow` describes — label / weight
columns routed, empty cells absent but numbered — in order. -/
theorem C12_csv (conv : Conv) (gR gI gQ : Bytes → Res Nat) (gC : Bytes → Res (Nat × Nat))
    (hE : ExactWith conv gR gI gQ gC)
    (hC : ∀ lex tail : Bytes, IsLexeme lex → (∀ b, tail.head? = some b → isDelimB b = true) →
      gC (lex ++ tail) = gC lex ∧ ∀ v k, gC lex = .ok (v, k) → k = lex.length)
    (prm : CsvParam) (σ : CsvStyle) (T : List (List (Option Bytes)))
    (hdd : isDelimB σ.delim = true) (hde : isEolB σ.delim = false) (hd : σ.delim.toNat = prm.delim)
    (hel : σ.eol.length = T.length) (hpl : σ.pad.length = T.length) (heol : ∀ e ∈ σ.eol, isEolStr e)
    (hT : ∀ r ∈ T, r ≠ [] ∧ r.getLast? ≠ some none ∧ ∀ c ∈ r, ∀ lex, c = some lex → IsLexeme lex)
    (hpad : ∀ ps ∈ σ.pad, ∀ p ∈ ps, blanksOnly p.1 ∧ blanksOnly p.2 ∧ (isBlankB σ.delim = true → p.1 = [] ∧ p.2 = []))
    (hb : (renderCsv σ T).length + 2 < 2 ^ 64)
    -- added to `C12_csv_statement`, see the head of the file
    (hfit : ∀ r ∈ T, CsvRowFits prm r)                                            -- (A1)
    (hpw : ∀ z ∈ T.zip σ.pad, z.1.length ≤ z.2.length)                            -- (A3)
    (hlead : SkipsBlanks gC ∨ ∀ ps ∈ σ.pad, ∀ p ∈ ps, p.1 = [])                   -- (A4)
    (hd0 : σ.delim ≠ 0)                                                           -- (A6)
    (rws : List Row) (hrws : T.mapM (expectCsvRow gC prm) = .ok rws) (hag : AgreeRows rws)
    (hnan : ∀ r ∈ rws, ∀ w, r.weight = some w → isNaNBits w = false) :           -- (A2)
    rows (.csv prm) conv (renderCsv σ T) = .ok rws := by
  -- the document is the rendered table of RenderCsv
  have hdoc : renderCsv σ T = csvDoc σ.delim T σ.eol σ.pad := by
    simp only [renderCsv, csvDoc, joinPieces, csvPieces, List.flatMap_map]
    congr 1
    funext r
    rw [← lineOf_eq]
    rfl
  -- the expected rows are the rows of the cell values
  have hexp : expectCsvRow gC prm = fun r => (r.mapM (cellVal gC)).bind fun vals => .ok (csvRowOfVals prm vals) :=
    funext fun _ => rfl
  obtain ⟨valss, hv, hrows⟩ := mapM_bind_split (fun r => r.mapM (cellVal gC))
    (fun vals => (.ok (csvRowOfVals prm vals) : Res Row)) T rws (by rw [hexp] at hrws; exact hrws)
  rw [mapM_ok_map] at hrows
  cases hrows
  rw [rows_csv, hdoc]
  exact csv_table_rows hE.loc hC prm hd hdd hde hd0 T σ.eol σ.pad hel hpl heol hT hpad hpw hlead hfit valss hv
    hag hnan (by rw [← hdoc]; exact hb)

/-! ### non-vacuity -/

/-- "1,,2 ,3\r\n4,5,6,7\t\n" (label_column 0, weight_column 2; an empty cell, blanks behind cells, both kinds of
line end) with the conversion of C11Witness: the conclusion of `C12_csv` computed on the model -/
example :
    rows (.csv ⟨0, 2, 44, true⟩) C11Witness.convRun
      (renderCsv { delim := 44, eol := [[13, 10], [10]],
                   pad := [[([], []), ([], []), ([], [32]), ([], [])], [([], []), ([], []), ([], []), ([], [9])]] }
                 [[some [49], none, some [50], some [51]], [some [52], some [53], some [54], some [55]]])
      = .ok [{ label := some 1, weight := some 2, qid := none, field := none, index := [1], value := some [3] },
             { label := some 4, weight := some 6, qid := none, field := none, index := [0, 1], value := some [5, 7] }] := by
  decide

/-- " 1 ,,\t2,30 \r\n4,5,6, 7\n" with a conversion that skips blanks in front of a number (`cellBlank`): blanks
on both sides of cells.  Every hypothesis of `C12_csv` holds, so the theorem applies … -/
example :
    rows (.csv ⟨0, 2, 44, true⟩) { C11Witness.convRun with cell := cellBlank }
      (renderCsv { delim := 44, eol := [[13, 10], [10]],
                   pad := [[([32], [32]), ([], []), ([9], []), ([], [32])], [([], []), ([], []), ([], []), ([32], [])]] }
                 [[some [49], none, some [50], some [51, 48]], [some [52], some [53], some [54], some [55]]])
      = .ok [{ label := some 1, weight := some 2, qid := none, field := none, index := [1], value := some [30] },
             { label := some 4, weight := some 6, qid := none, field := none, index := [0, 1], value := some [5, 7] }] :=
  C12_csv { C11Witness.convRun with cell := cellBlank } _ _ _ gCBlank
    ⟨⟨convRun_exact.loc.real, convRun_exact.loc.index, convRun_exact.loc.qid, fun _ _ _ => rfl⟩,
      convRun_exact.real, convRun_exact.index, convRun_exact.qid⟩
    gCBlank_exact ⟨0, 2, 44, true⟩ _ _ (by decide) (by decide) (by decide) (by decide) (by decide)
    (by simp only [isEolStr]; decide) (by simp only [IsLexeme]; decide) (by simp only [blanksOnly]; decide) (by decide)
    (by decide) (by decide) (Or.inl gCBlank_skips) (by decide)
    _ (by decide) ⟨Or.inl (by decide), Or.inl (by decide), Or.inr (by decide), Or.inl (by decide)⟩ (by decide)

/-- … and its conclusion, computed directly on the model -/
example :
    rows (.csv ⟨0, 2, 44, true⟩) { C11Witness.convRun with cell := cellBlank }
      (renderCsv { delim := 44, eol := [[13, 10], [10]],
                   pad := [[([32], [32]), ([], []), ([9], []), ([], [32])], [([], []), ([], []), ([], []), ([32], [])]] }
                 [[some [49], none, some [50], some [51, 48]], [some [52], some [53], some [54], some [55]]])
      = .ok [{ label := some 1, weight := some 2, qid := none, field := none, index := [1], value := some [30] },
             { label := some 4, weight := some 6, qid := none, field := none, index := [0, 1], value := some [5, 7] }] := by
  decide

/-- "1\t\t3\t4\n5\t6\t\t7\n" with delimiter TAB (a white-space delimiter, no blanks around cells), label_column 0 and
the blank-skipping conversion `cellBlank` (which, started at a TAB, would skip it and convert the next cell): the
empty cells are absent but numbered — finding C12-F3 repaired.  Every hypothesis of `C12_csv` holds … -/
example :
    rows (.csv ⟨0, 4294967295, 9, true⟩) { C11Witness.convRun with cell := cellBlank }
      (renderCsv { delim := 9, eol := [[10], [10]],
                   pad := [[([], []), ([], []), ([], []), ([], [])], [([], []), ([], []), ([], []), ([], [])]] }
                 [[some [49], none, some [51], some [52]], [some [53], some [54], none, some [55]]])
      = .ok [{ label := some 1, weight := none, qid := none, field := none, index := [1, 2], value := some [3, 4] },
             { label := some 5, weight := none, qid := none, field := none, index := [0, 2], value := some [6, 7] }] :=
  C12_csv { C11Witness.convRun with cell := cellBlank } _ _ _ gCBlank
    ⟨⟨convRun_exact.loc.real, convRun_exact.loc.index, convRun_exact.loc.qid, fun _ _ _ => rfl⟩,
      convRun_exact.real, convRun_exact.index, convRun_exact.qid⟩
    gCBlank_exact ⟨0, 4294967295, 9, true⟩ _ _ (by decide) (by decide) (by decide) (by decide) (by decide)
    (by simp only [isEolStr]; decide) (by simp only [IsLexeme]; decide) (by simp only [blanksOnly]; decide) (by decide)
    (by decide) (by decide) (Or.inl gCBlank_skips) (by decide)
    _ (by decide) ⟨Or.inl (by decide), Or.inr (by decide), Or.inr (by decide), Or.inl (by decide)⟩ (by decide)

/-- … and its conclusion, computed directly on the model (the bytes are 31 09 09 33 09 34 0a 35 09 36 09 09 37 0a) -/
example :
    rows (.csv ⟨0, 4294967295, 9, true⟩) { C11Witness.convRun with cell := cellBlank }
      [49, 9, 9, 51, 9, 52, 10, 53, 9, 54, 9, 9, 55, 10]
      = .ok [{ label := some 1, weight := none, qid := none, field := none, index := [1, 2], value := some [3, 4] },
             { label := some 5, weight := none, qid := none, field := none, index := [0, 2], value := some [6, 7] }] := by
  decide

/-- the same document on the model of the source WITHOUT fixes/C12-3.diff (`csvDelimGuard := false`): each empty
cell swallows the next one, the entries are numbered 0,1 instead of 1,2 and 0,2 — the defect C12-F3 as observed on
the real parser -/
example :
    csvRows { Fixes.repaired with csvDelimGuard := false } { C11Witness.convRun with cell := cellBlank } ⟨0, 4294967295, 9, true⟩
      [49, 9, 9, 51, 9, 52, 10, 53, 9, 54, 9, 9, 55, 10]
      = .ok [{ label := some 1, weight := none, qid := none, field := none, index := [0, 1], value := some [3, 4] },
             { label := some 5, weight := none, qid := none, field := none, index := [0, 1], value := some [6, 7] }] := by
  decide

end DmlcModel.Props.C12
